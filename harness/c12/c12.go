// Package c12: Insert, InsertSlice, Remove, RemoveSlice, Fill, Repeat, Reverse,
// Concat, Clone, Grow on slices with explicit length, capacity and garbage in
// the spare capacity.
package c12

import (
	"encoding/json"
	"fmt"
	"runtime/debug"

	"gopkg.in/typ.v4/slices"
	"verif/harness/core"
)

// Case: the slice under test is make([]int, Len, len(Arr)) whose backing array
// holds Arr (so Arr[Len:] is what the spare capacity contains before the call).
type Case struct {
	Fn    string `json:"fn"`
	Arr   []int  `json:"arr"`
	Len   int    `json:"len"`
	Index int    `json:"index"` // Insert, InsertSlice, Remove, RemoveSlice
	K     int    `json:"k"`     // RemoveSlice length, Grow n, Repeat count
	Vals  []int  `json:"vals"`  // Insert/Fill/Repeat: [value]; InsertSlice: values; Concat: backing array of b
	Len2  int    `json:"len2"`  // Concat: len(b)
	// compact form for the large cases (keeps replay files and samples small): when Gen is set, Arr is
	// backing(Len, Cap-Len, 0), and Vals is values(NVals) (InsertSlice) / backing(Len2, Cap2-Len2, 5000) (Concat)
	Gen   bool `json:"gen,omitempty"`
	Cap   int  `json:"cap,omitempty"`
	NVals int  `json:"nvals,omitempty"`
	Cap2  int  `json:"cap2,omitempty"`
}

var (
	lastArr         []int
	lastLen         = -1
	sBuf, obsBuf    []int
	wantBuf, valBuf []int
)

// buf returns a zero-length slice of capacity >= n on the scratch array *b
func buf(b *[]int, n int) []int {
	if cap(*b) < n {
		*b = make([]int, 0, n+n/4+64)
	}
	return (*b)[:0]
}

// expand fills in the arrays of a compact (Gen) case
func expand(cs Case) Case {
	if !cs.Gen {
		return cs
	}
	if lastLen != cs.Len || len(lastArr) != cs.Cap || lastArr == nil {
		lastArr, lastLen = backing(cs.Len, cs.Cap-cs.Len, 0), cs.Len // read-only, shared by consecutive cases
	}
	cs.Arr = lastArr
	switch cs.Fn {
	case "InsertSlice":
		cs.Vals = values(cs.NVals)
	case "Concat":
		cs.Vals = backing(cs.Len2, cs.Cap2-cs.Len2, 5000)
	}
	return cs
}

func init() {
	core.Register(&core.Prop{ID: "C12", Module: "Slices.SpliceCheck", Run: run, Replay: replay})
}

func replay(c *core.Ctx, raw json.RawMessage) error {
	var cs Case
	if err := json.Unmarshal(raw, &cs); err != nil {
		return err
	}
	if cs.Gen && (cs.Len < 0 || cs.Cap < cs.Len || cs.NVals < 0 || cs.Len2 < 0 || (cs.Fn == "Concat" && cs.Cap2 < cs.Len2)) {
		return fmt.Errorf("malformed case")
	}
	full := expand(cs)
	if full.Len < 0 || full.Len > len(full.Arr) || full.Len2 < 0 || (full.Fn == "Concat" && full.Len2 > len(full.Vals)) {
		return fmt.Errorf("malformed case")
	}
	execOpt(c, cs, true)
	return nil
}

// backing array: distinct visible elements 1..n, distinct negative sentinels in the spare capacity
func backing(n, spare, base int) []int {
	a := make([]int, n+spare)
	for i := range a {
		if i < n {
			a[i] = base + i + 1
		} else {
			a[i] = -(base + 101 + i - n)
		}
	}
	return a
}

func values(k int) []int {
	v := make([]int, k)
	for i := range v {
		v[i] = 1001 + i
	}
	return v
}

func run(c *core.Ctx) {
	maxLen, maxSpare, maxK := c.N(7, 9, 9), 4, c.N(4, 5, 5)
	for n := 0; n <= maxLen; n++ {
		for sp := 0; sp <= maxSpare; sp++ {
			a := backing(n, sp, 0)
			for idx := -1; idx <= n+1; idx++ {
				exec(c, Case{Fn: "Insert", Arr: a, Len: n, Index: idx, Vals: []int{1000}})
				exec(c, Case{Fn: "Remove", Arr: a, Len: n, Index: idx})
				for k := -2; k <= maxK; k++ {
					if k >= 0 {
						exec(c, Case{Fn: "InsertSlice", Arr: a, Len: n, Index: idx, Vals: values(k)})
					}
					exec(c, Case{Fn: "RemoveSlice", Arr: a, Len: n, Index: idx, K: k}) // k < 0: outside the property, model comparison only
				}
			}
			exec(c, Case{Fn: "Fill", Arr: a, Len: n, Vals: []int{77}})
			exec(c, Case{Fn: "Reverse", Arr: a, Len: n})
			exec(c, Case{Fn: "Clone", Arr: a, Len: n})
			for k := -1; k <= maxK+1; k++ {
				exec(c, Case{Fn: "Grow", Arr: a, Len: n, K: k})
			}
			if sp == 0 || sp == 2 {
				for n2 := 0; n2 <= maxK; n2++ {
					for sp2 := 0; sp2 <= 1; sp2++ {
						exec(c, Case{Fn: "Concat", Arr: a, Len: n, Vals: backing(n2, sp2, 500), Len2: n2})
					}
				}
			}
		}
	}
	// Fill / Repeat / Reverse for every length up to 130 (several doublings, every remainder)
	maxFill := c.N(130, 260, 200)
	for n := 0; n <= maxFill; n++ {
		exec(c, Case{Fn: "Fill", Arr: backing(n, n%4, 0), Len: n, Vals: []int{7}})
		exec(c, Case{Fn: "Repeat", K: n, Vals: []int{9}})
		if n <= 40 {
			exec(c, Case{Fn: "Reverse", Arr: backing(n, n%3, 0), Len: n})
		}
	}
	exec(c, Case{Fn: "Repeat", K: -1, Vals: []int{9}})
	c.Exhaustive = true
	c.Note(fmt.Sprintf("exhaustive: len 0..%d x spare capacity 0..%d x index -1..len+1 x inserted length 0..%d / removed length -2..same for Insert, InsertSlice, Remove, RemoveSlice (distinct elements, sentinel garbage in the spare capacity); Fill, Reverse, Clone, Grow n=-1..%d, Concat on the same slices; Fill and Repeat for every length 0..%d; plus random",
		maxLen, maxSpare, maxK, maxK+1, maxFill))

	heavy(c)

	// random: larger slices, repeated values, mostly valid positions
	fns := []string{"Insert", "InsertSlice", "Remove", "RemoveSlice", "InsertSlice", "RemoveSlice", "Fill", "Reverse", "Concat", "Clone", "Grow"}
	for i := c.N(300, 4000, 6000); i > 0; i-- {
		n := c.Rng.Size(c.N(300, 800, 600))
		sp := 0
		if c.Rng.Chance(75) {
			sp = c.Rng.Size(24)
		}
		a := c.Rng.Ints(n+sp, -3, 9)
		for j := n; j < len(a); j++ {
			a[j] = -(100 + j)
		}
		cs := Case{Fn: fns[c.Rng.Intn(len(fns))], Arr: a, Len: n}
		k := c.Rng.Size(30)
		switch cs.Fn {
		case "Insert":
			cs.Index, cs.Vals = c.Rng.Range(0, n), []int{c.Rng.Range(20, 30)}
		case "InsertSlice":
			cs.Index, cs.Vals = c.Rng.Range(0, n), c.Rng.Ints(k, 20, 30)
		case "Remove":
			cs.Index = c.Rng.Range(0, n)
		case "RemoveSlice":
			cs.Index = c.Rng.Range(0, n)
			cs.K = c.Rng.Range(0, n-cs.Index)
			if c.Rng.Chance(50) && cs.K > 8 {
				cs.K = c.Rng.Range(0, 8)
			}
		case "Fill":
			cs.Vals = []int{c.Rng.Range(20, 30)}
		case "Concat":
			n2 := c.Rng.Size(60)
			cs.Vals, cs.Len2 = c.Rng.Ints(n2+c.Rng.Intn(4), 40, 49), n2
		case "Grow":
			cs.K = k
		}
		// malformed stream: positions and lengths outside the valid range
		if c.Rng.Chance(10) {
			switch c.Rng.Intn(4) {
			case 0:
				cs.Index = -1 - c.Rng.Intn(3)
			case 1:
				cs.Index = n + 1 + c.Rng.Intn(3)
			case 2:
				cs.K = n - cs.Index + 1 + c.Rng.Intn(sp+2)
			default:
				cs.K = -1 - c.Rng.Intn(3)
			}
		}
		exec(c, cs)
	}
}

// sizes with extra density around the powers of two (thresholds of runtimes and of "clever" fast paths)
func sizes(max int) []int {
	out := []int{0, 1, 2, 3, 5}
	for p := 8; p <= 4096; p *= 2 {
		out = append(out, p-1, p, p+1)
	}
	out = append(out, 100, 1000, 1500, 3000)
	var r []int
	for _, v := range out {
		if v <= max {
			r = append(r, v)
		}
	}
	return r
}

func uniq(xs []int, lo, hi int) []int {
	seen := map[int]bool{}
	var r []int
	for _, x := range xs {
		if x >= lo && x <= hi && !seen[x] {
			seen[x] = true
			r = append(r, x)
		}
	}
	return r
}

// heavy: oracle-heavy, model-sampled stream. Large capacities with sparse and dense use, large blocks
// inserted / removed at every kind of position, every relation between what remains and the capacity.
// Every case is checked by the direct oracle; a small deterministic sample also goes to the Coq model.
func heavy(c *core.Ctx) {
	budget := c.N(50000, 400000, 0) // numbers in the arrays of the sampled cases (Coq time)
	sample := func(cs Case) bool {
		cost := 2*cs.Cap + 2*cs.NVals + 2*cs.Cap2 + cs.K + 8
		if cs.Fn == "Repeat" {
			cost = cs.K + 8
		}
		pct := 2
		if cost < 200 {
			pct = 8
		}
		if cost > budget || !c.Rng.Chance(pct) {
			return false
		}
		budget -= cost
		return true
	}
	do := func(cs Case) {
		cs.Gen = true
		execOpt(c, cs, sample(cs))
	}
	defer debug.SetGCPercent(debug.SetGCPercent(1000)) // many short-lived large arrays
	caps := sizes(4097)
	for ci, cp := range caps {
		if cp < 15 {
			continue // covered exhaustively above
		}
		// lengths: empty, sparse (fractions of the capacity and just above them), dense, full
		lens := uniq([]int{0, 1, cp / 8, cp / 4, cp/4 + 1, cp/2 + 1, cp - 1, cp, c.Rng.Range(0, cp)}, 0, cp)
		for li, n := range lens {
			sp := cp - n
			bad := -1
			if (ci+li)%2 == 0 {
				bad = n + 1
			}
			idxs := uniq([]int{0, 1, n / 2, n - 1, n, c.Rng.Range(0, n), bad}, -1, n+1)
			for _, idx := range idxs {
				do(Case{Fn: "Insert", Len: n, Cap: cp, Index: idx, Vals: []int{100000}})
				do(Case{Fn: "Remove", Len: n, Cap: cp, Index: idx})
				// inserted block: tiny, filling the spare capacity exactly / one over, huge
				for _, k := range uniq([]int{0, 1, sp, sp + 1, 2*cp + 1, c.Rng.Range(0, cp+3)}, 0, 8200) {
					do(Case{Fn: "InsertSlice", Len: n, Cap: cp, Index: idx, NVals: k})
				}
				// removed block: tiny, half, everything up to the tail (and one short / one over), and
				// whatever leaves a given number of elements (fractions of the capacity and just above)
				m := n - idx
				ks := []int{0, 1, m / 2, m - 1, m, m + 1, c.Rng.Range(0, m+1)}
				for _, rem := range []int{1, cp / 8, cp / 4, cp/4 + 1, cp / 2, cp/2 + 1} {
					ks = append(ks, n-rem)
				}
				for _, k := range uniq(ks, 0, n+2) {
					do(Case{Fn: "RemoveSlice", Len: n, Cap: cp, Index: idx, K: k})
				}
			}
			do(Case{Fn: "Fill", Len: n, Cap: cp, Vals: []int{7}})
			do(Case{Fn: "Reverse", Len: n, Cap: cp})
			do(Case{Fn: "Clone", Len: n, Cap: cp})
			for _, k := range uniq([]int{-1, 0, 1, sp, sp + 1, n, 256, 4097, c.Rng.Range(0, cp+3)}, -1, 8200) {
				do(Case{Fn: "Grow", Len: n, Cap: cp, K: k})
			}
			for _, n2 := range uniq([]int{0, 1, n, sp, 256, 4097, c.Rng.Range(0, 4097)}, 0, 4097) {
				do(Case{Fn: "Concat", Len: n, Cap: cp, Len2: n2, Cap2: n2 + c.Rng.Intn(3)*c.Rng.Intn(40)})
			}
		}
	}
	// Fill / Repeat / Reverse / Clone: every length up to 1100, then around every power of two and every 7th up to 4100
	for n := 0; n <= 4100; n++ {
		if n > 1100 && n%7 != 0 && !(n >= 2040 && n <= 2056) && n < 4088 {
			continue
		}
		do(Case{Fn: "Fill", Len: n, Cap: n + (n%5)*(n%7), Vals: []int{3}})
		do(Case{Fn: "Repeat", K: n, Vals: []int{9}})
		if n%2 == 0 || n > 1100 {
			do(Case{Fn: "Reverse", Len: n, Cap: n + n%3})
		}
		if n%3 == 0 {
			do(Case{Fn: "Clone", Len: n, Cap: n + n%4})
		}
	}
	c.Note("oracle-heavy stream: capacities 15..4097 (p-1, p, p+1 for every power of two, and 100, 1000, 1500, 3000) x lengths {0,1,cap/8,cap/4,cap/4+1,cap/2+1,cap-1,cap,random} x positions {0,1,len/2,len-1,len,random,-1 or len+1} x inserted blocks {0,1,spare,spare+1,2cap+1,random} / removed blocks {0,1,half,tail-1,up to the tail,tail+1,random, every block leaving 1,cap/8,cap/4,cap/4+1,cap/2,cap/2+1 elements}; Grow n and Concat second operand over the same kinds of sizes; Fill, Repeat, Reverse, Clone for every length 0..1100 and around the powers of two / every 7th length up to 4100; all checked by the direct oracle (visible contents, panic exactly on invalid positions with removals leaving the slice unchanged, cells beyond the touched range on the same array, inputs unmodified, aliasing probes; the old array after a move, stale cells, result capacities and everything on negative lengths/counts are recorded as stats only), a deterministic sample also evaluated on the Coq model (stat oracle_only counts the rest)")
}

func clone(s []int) []int { return append([]int{}, s...) }

func allEq(s []int, v int) bool {
	for _, x := range s {
		if x != v {
			return false
		}
	}
	return true
}

// same reports whether r still lives on the backing array old (same first cell)
func same(r, old []int) bool {
	return cap(r) > 0 && cap(old) > 0 && &r[:1][0] == &old[:1][0]
}

// mutate every element reachable through s (up to its capacity)
func scribble(s []int) {
	s = s[:cap(s)]
	for i := range s {
		s[i] += 1 << 40
	}
}

func exec(c *core.Ctx, cs Case) { execOpt(c, cs, true) }

// execOpt runs one case on the real code and applies the direct oracle; the case also goes to the
// Coq model iff emit (the oracle-heavy stream samples).
func execOpt(c *core.Ctx, cs Case, emit bool) {
	c.Begin(cs)
	cs = expand(cs)
	c.Count("fn_" + cs.Fn)
	n, capacity := cs.Len, len(cs.Arr)
	sp := capacity - n
	s := buf(&sBuf, capacity)[:n:capacity] // len n, cap exactly capacity, on a scratch array used for nothing else
	old := s[:capacity]                    // the original backing array, whatever happens to s
	copy(old, cs.Arr)
	vals := append(buf(&valBuf, len(cs.Vals)), cs.Vals...)
	var b, oldB []int
	if cs.Fn == "Concat" {
		b = make([]int, cs.Len2, len(cs.Vals))
		oldB = b[:cap(b)]
		copy(oldB, cs.Vals)
	}
	v := 0
	if len(cs.Vals) > 0 {
		v = cs.Vals[0]
	}
	r := s // the resulting slice
	returnsNew := false
	kind := core.Try(func() {
		switch cs.Fn {
		case "Insert":
			slices.Insert(&s, cs.Index, v)
		case "InsertSlice":
			slices.InsertSlice(&s, cs.Index, vals)
		case "Remove":
			slices.Remove(&s, cs.Index)
		case "RemoveSlice":
			slices.RemoveSlice(&s, cs.Index, cs.K)
		case "Fill":
			slices.Fill(s, v)
		case "Reverse":
			slices.Reverse(s)
		case "Repeat":
			returnsNew, r = true, nil
			r = slices.Repeat(v, cs.K)
		case "Concat":
			returnsNew, r = true, nil
			r = slices.Concat(s, b)
		case "Clone":
			returnsNew, r = true, nil
			r = slices.Clone(s)
		case "Grow":
			returnsNew, r = true, nil
			r = slices.Grow(s, cs.K)
		}
	})
	if !returnsNew {
		r = s // Insert... assign through the pointer, also before they panic
	}
	if kind != "" {
		c.Count("panic_" + kind)
	}
	obsArr, obsLen := append(buf(&obsBuf, cap(r)), r[:cap(r)]...), len(r)
	vis := obsArr[:obsLen]
	in := cs.Arr[:n]
	inPlace := false

	// ---- direct oracle: the property itself on the implementation's output ----
	fail := func(what string) {
		c.Fail(what, fmt.Sprintf("result %v len %d cap %d panic %q", obsArr, obsLen, len(obsArr), kind))
	}
	switch cs.Fn {
	case "Insert", "InsertSlice":
		ins := cs.Vals
		if cs.Fn == "Insert" {
			ins = []int{v}
		}
		k := len(ins)
		if cs.Index < 0 || cs.Index > n {
			// invalid position: must panic. The property does not fix the slice's state afterwards (the code
			// appends before it panics); what it is, is recorded only.
			c.Count("invalid_position")
			if kind == "" {
				fail(fmt.Sprintf("%s at invalid position %d (len %d) did not panic", cs.Fn, cs.Index, n))
			} else if obsLen == n+k && core.Eq(vis[:n], in) && core.Eq(vis[n:], ins) {
				c.Count("after_invalid_insert_appended")
			} else if obsLen == n && core.Eq(vis, in) {
				c.Count("after_invalid_insert_unchanged")
			} else {
				c.Count("after_invalid_insert_other")
			}
			break
		}
		inPlace = n+k <= capacity
		if sp > 0 && inPlace && cs.Index > 0 && cs.Index < n && k > 0 {
			c.Nontrivial()
		}
		want := append(append(append(buf(&wantBuf, n+k), in[:cs.Index]...), ins...), in[cs.Index:]...)
		if kind != "" {
			fail("panic at a valid position")
		} else if !core.Eq(vis, want) {
			fail(fmt.Sprintf("%s at %d: contents are not the splice %v", cs.Fn, cs.Index, want))
		} else if same(r, old) && !core.Eq(old[n+k:], cs.Arr[n+k:]) {
			fail("spare capacity beyond the inserted elements was modified")
		} else if !same(r, old) && !core.Eq(old, cs.Arr) {
			c.Count("unspecified_old_array_written_after_move") // not fixed by the property
		}
		if kind == "" {
			if same(r, old) {
				c.Count("insert_stayed_on_array")
			} else {
				c.Count("insert_moved_to_new_array")
			}
		}
		if !core.Eq(vals, cs.Vals) {
			fail("inserted values slice was modified")
		}
	case "Remove", "RemoveSlice":
		k := cs.K
		if cs.Fn == "Remove" {
			k = 1
		}
		if k < 0 {
			// outside the property: not judged, neither here nor by check_case. What the transcribed code does
			// (copy to the right, then re-slice to len-k: panic iff index+k < 0 or len-k > cap) is computed
			// here and agreement is recorded as a stat only.
			c.Count("negative_length_outside_property")
			exp := clone(cs.Arr)
			expPanic, expLen := false, n
			if cs.Index < 0 || cs.Index > n || cs.Index+k < 0 {
				expPanic = true
			} else {
				copy(exp[cs.Index:n], cs.Arr[cs.Index+k:n])
				if n-k > capacity {
					expPanic = true
				} else {
					expLen = n - k
				}
			}
			if expPanic == (kind != "") && obsLen == expLen && core.Eq(vis, exp[:expLen]) {
				c.Count("negative_length_as_model")
			} else {
				c.Count("negative_length_differs_from_model")
			}
			break
		}
		if cs.Index < 0 || cs.Index+k > n {
			// invalid position / length: must panic and leave the slice as it was
			c.Count("invalid_position")
			if kind == "" {
				fail(fmt.Sprintf("%s at invalid position %d length %d (len %d) did not panic", cs.Fn, cs.Index, k, n))
			} else if obsLen != n || !core.Eq(vis, in) {
				fail(fmt.Sprintf("%s at invalid position %d length %d panicked but changed the slice", cs.Fn, cs.Index, k))
			}
			break
		}
		inPlace = true
		if sp > 0 && cs.Index > 0 && cs.Index+k < n && k > 0 {
			c.Nontrivial()
		}
		want := append(append(buf(&wantBuf, n), in[:cs.Index]...), in[cs.Index+k:]...)
		if kind != "" {
			fail("panic at a valid position")
		} else if !core.Eq(vis, want) {
			fail(fmt.Sprintf("%s at %d length %d: contents are not the splice %v", cs.Fn, cs.Index, k, want))
		} else if same(r, old) && !core.Eq(old[n:], cs.Arr[n:]) {
			fail("cells beyond the original length were modified")
		} else if same(r, old) && !core.Eq(old[n-k:n], cs.Arr[n-k:n]) {
			c.Count("unspecified_stale_tail_changed") // the vacated cells are no longer elements of the slice
		} else if !same(r, old) && !core.Eq(old, cs.Arr) {
			c.Count("unspecified_old_array_written_after_move")
		}
	case "Fill":
		inPlace = true
		if n >= 3 {
			c.Nontrivial()
		}
		if kind != "" {
			fail("panic")
		} else if obsLen != n || !allEq(vis, v) {
			fail(fmt.Sprintf("Fill: not every element is %d", v))
		} else if !core.Eq(obsArr[n:], cs.Arr[n:]) {
			fail("Fill wrote beyond the length")
		}
	case "Repeat":
		if cs.K < 0 {
			// outside the property (count >= 0): not judged; the transcribed code panics in make
			c.Count("negative_count_outside_property")
			if kind != "" {
				c.Count("negative_count_as_model")
			} else {
				c.Count("negative_count_differs_from_model")
			}
			break
		}
		if cs.K >= 3 {
			c.Nontrivial()
		}
		if kind != "" {
			fail("panic")
		} else if obsLen != cs.K || !allEq(vis, v) {
			fail(fmt.Sprintf("Repeat: not %d times %d", cs.K, v))
		} else if len(obsArr) != obsLen {
			c.Count("unspecified_result_cap_exceeds_len")
		}
	case "Reverse":
		inPlace = true
		if n >= 2 {
			c.Nontrivial()
		}
		want := make([]int, n)
		for i := range want {
			want[i] = in[n-1-i]
		}
		if kind != "" {
			fail("panic")
		} else if !core.Eq(vis, want) {
			fail("Reverse: contents are not the reversed input")
		} else if !core.Eq(obsArr[n:], cs.Arr[n:]) {
			fail("Reverse wrote beyond the length")
		}
	case "Concat", "Clone":
		want := clone(in)
		if cs.Fn == "Concat" {
			want = append(want, cs.Vals[:cs.Len2]...)
			if n > 0 && cs.Len2 > 0 {
				c.Nontrivial()
			}
		} else if n > 0 {
			c.Nontrivial()
		}
		if kind != "" {
			fail("panic")
		} else if !core.Eq(vis, want) {
			fail(fmt.Sprintf("%s: contents are not %v", cs.Fn, want))
		} else if !core.Eq(old, cs.Arr) || !core.Eq(oldB, cs.Vals[:len(oldB)]) {
			fail("an input slice (or its spare capacity) was modified")
		} else {
			if len(obsArr) != obsLen {
				c.Count("unspecified_result_cap_exceeds_len")
			}
			// aliasing probes: write through the result, re-read the inputs; and the other way round
			scribble(r)
			if !core.Eq(old, cs.Arr) || !core.Eq(oldB, cs.Vals[:len(oldB)]) {
				fail("result shares memory with an input (writing the result changed the input)")
			}
			before := clone(r[:cap(r)])
			scribble(old)
			scribble(oldB)
			if !core.Eq(before, r[:cap(r)]) {
				fail("result shares memory with an input (writing the input changed the result)")
			}
		}
	case "Grow":
		if cs.K < 0 {
			// outside the property (n >= 0): not judged; the transcribed code panics in make
			c.Count("negative_count_outside_property")
			if kind != "" {
				c.Count("negative_count_as_model")
			} else {
				c.Count("negative_count_differs_from_model")
			}
			break
		}
		inPlace = n+cs.K <= capacity
		if cs.K > 0 && n > 0 {
			c.Nontrivial()
		}
		want := append(clone(in), make([]int, cs.K)...)
		if kind != "" {
			fail("panic")
		} else if !core.Eq(vis, want) {
			fail(fmt.Sprintf("Grow: contents are not the input followed by %d zero values", cs.K))
		} else if same(r, old) && !core.Eq(old[n+cs.K:], cs.Arr[n+cs.K:]) {
			fail("spare capacity beyond the appended zero values was modified")
		} else if !same(r, old) && !core.Eq(old, cs.Arr) {
			c.Count("unspecified_old_array_written_after_move")
		}
	}
	if inPlace {
		c.Count("in_place")
	} else if !returnsNew || cs.Fn == "Grow" {
		c.Count("reallocated_or_invalid")
	}

	if kind != "" && returnsNew {
		obsArr, obsLen = nil, 0
	}
	if !emit {
		c.Count("oracle_only")
		return
	}
	c.Emit(fmt.Sprintf("Case F%s %s %s %s %s %s %s %s %s %s", cs.Fn, core.ZList(cs.Arr), core.Z(cs.Len), core.Z(cs.Index),
		core.Z(cs.K), core.ZList(cs.Vals), core.Z(cs.Len2), core.ZList(obsArr), core.Z(obsLen), core.Res(kind, "tt")))
}
