// Package lin is a brute-force linearizability checker (Wing & Gong style
// search with memoisation) for small histories of map operations. It is the
// direct property oracle for sync2.Map / sync2.Set histories; it is not the
// proof.
package lin

import (
	"fmt"
	"sort"
	"strings"
)

// Op is one completed call. First/Last are the indices (in the executed
// schedule) of its first and last atomic step: A happens before B iff
// A.Last < B.First.
type Op struct {
	T           int
	First, Last int
	Kind        string // Load Store LoadOrStore LoadAndDelete Delete
	K, V        int
	RV          int  // returned value
	ROK         bool // ok / loaded
}

func (o Op) String() string {
	return fmt.Sprintf("t%d[%d,%d] %s(%d,%d)=>(%d,%v)", o.T, o.First, o.Last, o.Kind, o.K, o.V, o.RV, o.ROK)
}

func apply(m map[int]int, o Op) (ok bool, undo func()) {
	old, had := m[o.K]
	restore := func() {
		if had {
			m[o.K] = old
		} else {
			delete(m, o.K)
		}
	}
	switch o.Kind {
	case "Load":
		if had != o.ROK || (had && old != o.RV) {
			return false, nil
		}
		return true, func() {}
	case "Store":
		m[o.K] = o.V
		return true, restore
	case "LoadOrStore":
		if had {
			if !o.ROK || o.RV != old {
				return false, nil
			}
			return true, func() {}
		}
		if o.ROK || o.RV != o.V {
			return false, nil
		}
		m[o.K] = o.V
		return true, restore
	case "LoadAndDelete":
		if had != o.ROK || (had && old != o.RV) {
			return false, nil
		}
		delete(m, o.K)
		return true, restore
	case "Delete":
		delete(m, o.K)
		return true, restore
	}
	return false, nil
}

func key(done uint64, m map[int]int) string {
	ks := make([]int, 0, len(m))
	for k := range m {
		ks = append(ks, k)
	}
	sort.Ints(ks)
	var sb strings.Builder
	fmt.Fprintf(&sb, "%x|", done)
	for _, k := range ks {
		fmt.Fprintf(&sb, "%d=%d,", k, m[k])
	}
	return sb.String()
}

// Check reports whether ops (at most 64) is linearizable w.r.t. a sequential
// map starting from init; on success order holds one witness linearization.
func Check(init map[int]int, ops []Op) (ok bool, order []int) {
	if len(ops) > 64 {
		panic("lin: history too long")
	}
	m := map[int]int{}
	for k, v := range init {
		m[k] = v
	}
	seen := map[string]bool{}
	var rec func(done uint64) bool
	rec = func(done uint64) bool {
		if done == (uint64(1)<<uint(len(ops)))-1 {
			return true
		}
		kk := key(done, m)
		if seen[kk] {
			return false
		}
		seen[kk] = true
		// minimal first-unfinished bound: an op may go next iff no other pending op finished before it started
		minLast := int(^uint(0) >> 1)
		for i, o := range ops {
			if done&(1<<uint(i)) == 0 && o.Last < minLast {
				minLast = o.Last
			}
		}
		for i, o := range ops {
			if done&(1<<uint(i)) != 0 || o.First > minLast {
				continue
			}
			if ok, undo := apply(m, o); ok {
				order = append(order, i)
				if rec(done | 1<<uint(i)) {
					return true
				}
				order = order[:len(order)-1]
				undo()
			}
		}
		return false
	}
	return rec(0), order
}
