// Package c14: the functional slice helpers of slices/slices.go (Fold, FoldReverse, Map, MapErr, Filter, Any, All,
// Index, IndexFunc, Contains, ContainsFunc, Distinct, DistinctFunc, Except, ExceptSet, GroupBy, CountBy, Trim*,
// TryGet, SafeGet, SafeGetOr, Last) and the map helpers of maps/maps.go (Clone, Clear, Keys, Values, KeyOf,
// ContainsValue, HasKey): real code vs reference definitions (direct oracle) and vs the Coq model (emitted cases).
package c14

import (
	"encoding/json"
	"fmt"
	"sort"

	"gopkg.in/typ.v4/maps"
	"gopkg.in/typ.v4/sets"
	"gopkg.in/typ.v4/slices"
	"verif/harness/core"
)

// Case is one call. Which fields matter depends on Fn.
type Case struct {
	Fn  string   `json:"fn"`
	L   []int    `json:"l,omitempty"`   // the slice argument
	U   []int    `json:"u,omitempty"`   // unwanted / exclude slice
	M   [][2]int `json:"m,omitempty"`   // map entries in insertion order (distinct keys)
	V   int      `json:"v,omitempty"`   // value / index / seed / key
	W   int      `json:"w,omitempty"`   // fallback
	P   []int    `json:"p,omitempty"`   // callback parameters: acc a b c m | pred m | key m | conv a b m r | eq m-or-d
	R   []int    `json:"r,omitempty"`   // residues of a predicate
	Eq  string   `json:"eq,omitempty"`  // "mod" | "near" | "le"
	Sp  int      `json:"sp,omitempty"`  // spare capacity of the slice arguments: 0 = the default 3, -1 = none, k > 0 = k cells
	Nil bool     `json:"nil,omitempty"` // pass a nil slice / nil map instead of an empty one (only when L / M is empty)
}

// emitModel: whether exec hands the current case to the Coq model as well. The oracle-heavy stream switches it
// off for most of its (large) cases: they are checked by the direct oracle only.
var emitModel = true

// callsDiffer: per function, the cases on which the callback was not called as the transcribed loop calls it
// (not fixed by the property, so not a failure; reported as a note of the run)
var callsDiffer = map[string]int{}

func noteCallsDiffer(c *core.Ctx) {
	fns := []string{}
	for fn := range callsDiffer {
		fns = append(fns, fn)
	}
	sort.Strings(fns)
	for _, fn := range fns {
		c.Note(fmt.Sprintf("call pattern of %s differs from the transcribed loop on %d cases: the C14_*_calls theorems describe the transcription, not this code "+
			"(results still compared; the property does not fix these calls)", fn, callsDiffer[fn]))
	}
}

// cases above this size are never sent to the model (the model's loops are quadratic in vm_compute)
const maxModelSize = 600

func init() {
	core.Register(&core.Prop{ID: "C14", Module: "Slices.FuncCheck", Run: run, Replay: replay})
}

func replay(c *core.Ctx, raw json.RawMessage) error {
	var cs Case
	if err := json.Unmarshal(raw, &cs); err != nil {
		return err
	}
	exec(c, cs)
	noteCallsDiffer(c)
	return nil
}

// ---- callback DSL (twin of the interpreter in coq/theories/Slices/FuncCheck.v) ----

func mod(x, m int) int { // floor modulus for m >= 1, as Coq's Z.modulo
	r := x % m
	if r < 0 {
		r += m
	}
	return r
}
func abs(x int) int {
	if x < 0 {
		return -x
	}
	return x
}
func accOf(p []int) func(s, v int) int {
	return func(s, v int) int { return mod(s*p[0]+v*p[1]+p[2], p[3]) }
}
func predOf(m int, rs []int) func(v int) bool {
	return func(v int) bool {
		for _, r := range rs {
			if mod(v, m) == r {
				return true
			}
		}
		return false
	}
}
func keyOf(m int) func(v int) int { return func(v int) int { return mod(v, m) } }

type convErr struct{ v int }

func (e convErr) Error() string { return fmt.Sprintf("conversion of %d failed", e.v) }
func convOf(p []int) func(v int) (int, error) {
	return func(v int) (int, error) {
		if mod(v, p[2]) == p[3] {
			return v*p[0] + p[1], convErr{v}
		}
		return v*p[0] + p[1], nil
	}
}
func eqOf(kind string, p int) func(a, b int) bool {
	switch kind {
	case "near":
		return func(a, b int) bool { return abs(a-b) <= p }
	case "le":
		return func(a, b int) bool { return a-b <= p }
	}
	return func(a, b int) bool { return mod(a-b, p) == 0 }
}

func coqAcc(p []int) string {
	return fmt.Sprintf("(Acc %s %s %s %s)", core.Z(p[0]), core.Z(p[1]), core.Z(p[2]), core.Z(p[3]))
}
func coqPred(m int, rs []int) string { return fmt.Sprintf("(Pred %s %s)", core.Z(m), core.ZList(rs)) }
func coqKey(m int) string            { return fmt.Sprintf("(Key %s)", core.Z(m)) }
func coqConv(p []int) string {
	return fmt.Sprintf("(Conv %s %s %s %s)", core.Z(p[0]), core.Z(p[1]), core.Z(p[2]), core.Z(p[3]))
}
func coqEq(kind string, p int) string {
	switch kind {
	case "near":
		return fmt.Sprintf("(EqNear %s)", core.Z(p))
	case "le":
		return fmt.Sprintf("(EqLe %s)", core.Z(p))
	}
	return fmt.Sprintf("(EqMod %s)", core.Z(p))
}
func coqPairs(ps [][2]int) string {
	parts := make([]string, len(ps))
	for i, p := range ps {
		parts[i] = core.Pair(core.Z(p[0]), core.Z(p[1]))
	}
	return core.List(parts)
}

// ---- reference definitions (written independently of the implementation's loops) ----

func refFold(l []int, s int, f func(int, int) int) int {
	if len(l) == 0 {
		return s
	}
	return refFold(l[1:], f(s, l[0]), f)
}
func refFoldRev(l []int, s int, f func(int, int) int) int {
	if len(l) == 0 {
		return s
	}
	return refFoldRev(l[:len(l)-1], f(s, l[len(l)-1]), f)
}
func refIndex(l []int, p func(int) bool) int {
	for i := 0; i < len(l); i++ {
		if p(l[i]) {
			return i
		}
	}
	return -1
}
func refFilter(l []int, p func(int) bool) []int {
	r := []int{}
	for _, v := range l {
		if p(v) {
			r = append(r, v)
		}
	}
	return r
}

// first occurrences: l[i] is kept iff no earlier element of l equals it (eq an equivalence)
func refFirstOccs(l []int, eq func(a, b int) bool) []int {
	r := []int{}
	for i, v := range l {
		seen := false
		for j := 0; j < i; j++ {
			if eq(l[j], v) {
				seen = true
				break
			}
		}
		if !seen {
			r = append(r, v)
		}
	}
	return r
}

// the same by class: class(a) == class(b) iff a and b are equal; linear, used for long inputs
func refFirstOccsByClass(l []int, class func(int) int) []int {
	r := []int{}
	seen := map[int]bool{}
	for _, v := range l {
		if !seen[class(v)] {
			seen[class(v)] = true
			r = append(r, v)
		}
	}
	return r
}

const quadraticLimit = 600 // longer inputs use the linear references

func firstOccsInts(l []int) []int {
	if len(l) <= quadraticLimit {
		return refFirstOccs(l, func(a, b int) bool { return a == b })
	}
	return refFirstOccsByClass(l, func(v int) int { return v })
}

// members of every key's group in original order (one pass)
func refMembers(l []int, key func(int) int) map[int][]int {
	m := map[int][]int{}
	for _, v := range l {
		m[key(v)] = append(m[key(v)], v)
	}
	return m
}

// greedy: kept iff not equal to an element kept before (the definition when eq is not transitive)
func refGreedy(l []int, eq func(a, b int) bool) []int {
	r := []int{}
	for _, v := range l {
		if refIndex(r, func(x int) bool { return eq(x, v) }) < 0 {
			r = append(r, v)
		}
	}
	return r
}

// bounds of l without its longest unwanted prefix (left) and suffix (right)
func refTrim(l []int, p func(int) bool, left, right bool) (int, int) {
	lo, hi := 0, len(l)
	if right {
		for hi > 0 && p(l[hi-1]) {
			hi--
		}
	}
	if left {
		for lo < hi && p(l[lo]) {
			lo++
		}
	}
	return lo, hi
}

// ---- guarded inputs: the slice handed to the code is a window of a larger buffer, so that writes
// through the input's spare capacity are seen as well ----

const sentinel = 777777

func guarded(l []int, sp int) (in, buf []int) {
	if l == nil {
		return nil, nil
	}
	spare := 3
	if sp < 0 {
		spare = 0
	} else if sp > 0 {
		spare = sp
	}
	buf = make([]int, len(l)+spare)
	copy(buf, l)
	for i := len(l); i < len(buf); i++ {
		buf[i] = sentinel + i
	}
	return buf[:len(l)], buf
}
func intact(buf, l []int) bool {
	if !core.Eq(buf[:len(l)], l) {
		return false
	}
	for i := len(l); i < len(buf); i++ {
		if buf[i] != sentinel+i {
			return false
		}
	}
	return true
}

// scribble overwrites every cell reachable through r (up to its capacity)
func scribble(r []int) {
	full := r[:cap(r)]
	for i := range full {
		full[i] = -424242 - i
	}
}

// ---- call logs ----
//
// Every callback handed to the code is wrapped: the arguments of each call are recorded in order (at most
// logCap entries are kept, all are counted). What is done with a log:
//   - a callback must only ever see elements of the input (and, for acc, the threaded state): failure otherwise;
//   - Fold / FoldReverse / MapErr: the property text fixes the calls -> compared with the definition, failure;
//   - the other functions: the property fixes the result only. The log is compared with what the present code does
//     (first decisive element for the search loops, every element once for the others); when it agrees it is handed
//     to the call-log model (Some log), when it differs the case is counted (calls_differ_from_present_code) and the
//     model is not asked about the calls (None). Not a failure.
const logCap = 1 << 16

type callLog struct {
	unary []int
	pairs [][2]int
	total int
}

func (g *callLog) add1(v int) {
	g.total++
	if len(g.unary) < logCap {
		g.unary = append(g.unary, v)
	}
}
func (g *callLog) add2(a, b int) {
	g.total++
	if len(g.pairs) < logCap {
		g.pairs = append(g.pairs, [2]int{a, b})
	}
}
func (g *callLog) pred(f func(int) bool) func(int) bool {
	return func(v int) bool { g.add1(v); return f(v) }
}
func (g *callLog) rel(f func(a, b int) bool) func(a, b int) bool {
	return func(a, b int) bool { g.add2(a, b); return f(a, b) }
}
func (g *callLog) same(o *callLog) bool {
	if g.total != o.total || len(g.unary) != len(o.unary) || len(g.pairs) != len(o.pairs) {
		return false
	}
	if !core.Eq(g.unary, o.unary) {
		return false
	}
	for i := range g.pairs {
		if g.pairs[i] != o.pairs[i] {
			return false
		}
	}
	return true
}

// searchCalls: what a loop that stops at the first element with stop(v) calls its callback with
func searchCalls(l []int, stop func(int) bool) *callLog {
	g := &callLog{}
	for _, v := range l {
		g.add1(v)
		if stop(v) {
			break
		}
	}
	return g
}

// a sets.Set that is not maps.Set: slice backed, records whether a mutating method was called
type listSet struct {
	vals    []int
	mutated *bool
}

func newListSet(vals []int) *listSet {
	s := &listSet{mutated: new(bool)}
	for _, v := range vals {
		if !s.Has(v) {
			s.vals = append(s.vals, v)
		}
	}
	return s
}
func (s *listSet) String() string { return fmt.Sprint(s.vals) }
func (s *listSet) Len() int       { return len(s.vals) }
func (s *listSet) Has(v int) bool {
	for _, x := range s.vals {
		if x == v {
			return true
		}
	}
	return false
}
func (s *listSet) Add(v int) bool {
	*s.mutated = true
	if s.Has(v) {
		return false
	}
	s.vals = append(s.vals, v)
	return true
}
func (s *listSet) AddSet(o sets.Set[int]) int {
	n := 0
	o.Range(func(v int) bool {
		if s.Add(v) {
			n++
		}
		return true
	})
	return n
}
func (s *listSet) Remove(v int) bool {
	*s.mutated = true
	for i, x := range s.vals {
		if x == v {
			s.vals = append(s.vals[:i:i], s.vals[i+1:]...)
			return true
		}
	}
	return false
}
func (s *listSet) RemoveSet(o sets.Set[int]) int {
	n := 0
	o.Range(func(v int) bool {
		if s.Remove(v) {
			n++
		}
		return true
	})
	return n
}
func (s *listSet) Clone() sets.Set[int] { return newListSet(s.vals) }
func (s *listSet) Slice() []int         { return clone(s.vals) }
func (s *listSet) pick(o sets.Set[int], keepIfIn bool) *listSet {
	r := newListSet(nil)
	for _, v := range s.vals {
		if o.Has(v) == keepIfIn {
			r.vals = append(r.vals, v)
		}
	}
	return r
}
func (s *listSet) Intersect(o sets.Set[int]) sets.Set[int] { return s.pick(o, true) }
func (s *listSet) SetDiff(o sets.Set[int]) sets.Set[int]   { return s.pick(o, false) }
func (s *listSet) Union(o sets.Set[int]) sets.Set[int] {
	r := newListSet(s.vals)
	o.Range(func(v int) bool {
		if !r.Has(v) {
			r.vals = append(r.vals, v)
		}
		return true
	})
	return r
}
func (s *listSet) SymDiff(o sets.Set[int]) sets.Set[int] {
	r := s.pick(o, false)
	o.Range(func(v int) bool {
		if !s.Has(v) {
			r.vals = append(r.vals, v)
		}
		return true
	})
	return r
}
func (s *listSet) Range(f func(int) bool) {
	for _, v := range clone(s.vals) {
		if !f(v) {
			return
		}
	}
}

// diffLists describes how got differs from want (whole lists when short, else the first difference)
func diffLists(got, want []int) string {
	if len(got) <= 48 && len(want) <= 48 {
		return fmt.Sprintf("got %v want %v", got, want)
	}
	i := 0
	for i < len(got) && i < len(want) && got[i] == want[i] {
		i++
	}
	win := func(l []int) []int {
		lo, hi := i-3, i+4
		if lo < 0 {
			lo = 0
		}
		if hi > len(l) {
			hi = len(l)
		}
		if lo > hi {
			lo = hi
		}
		return l[lo:hi]
	}
	return fmt.Sprintf("len got %d want %d; first difference at index %d: got ...%v... want ...%v...", len(got), len(want), i, win(got), win(want))
}

// foldCalls: the property fixes the calls of acc: (state so far, element) for every element in the order given,
// each exactly once. order is the input in the order the function has to visit it.
func foldCalls(c *core.Ctx, cs Case, kind string, log *callLog, order []int, acc func(s, v int) int) {
	if kind != "" {
		return
	}
	if log.total != len(order) {
		c.Fail(cs.Fn+": acc is not called exactly once per element", fmt.Sprintf("%d calls for %d elements", log.total, len(order)))
		return
	}
	state := cs.V
	for i, v := range order {
		if i >= len(log.pairs) {
			break
		}
		if log.pairs[i] != [2]int{state, v} {
			c.Fail(cs.Fn+": acc is not applied to the elements in the specified order with the state so far",
				fmt.Sprintf("call %d was acc(%d, %d), want acc(%d, %d)", i, log.pairs[i][0], log.pairs[i][1], state, v))
			return
		}
		state = acc(state, v)
	}
}
func foldCallsTerm(log *callLog, toModel bool) string {
	if !toModel {
		return "[]"
	}
	return coqPairs(log.pairs)
}

func hasDup(l []int) bool {
	seen := map[int]bool{}
	for _, v := range l {
		if seen[v] {
			return true
		}
		seen[v] = true
	}
	return false
}
func clone(l []int) []int { return append([]int{}, l...) }
func sorted(l []int) []int {
	r := clone(l)
	sort.Ints(r)
	return r
}

var sliceFns = []string{"Index", "IndexFunc", "Contains", "ContainsFunc", "Trim", "TrimLeft", "TrimRight",
	"TrimFunc", "TrimLeftFunc", "TrimRightFunc", "Distinct", "DistinctFunc", "TryGet", "SafeGet", "SafeGetOr", "Last",
	"Any", "All", "Map", "MapErr", "Filter", "Fold", "FoldReverse", "GroupBy", "CountBy", "Except", "ExceptSet"}
var mapFns = []string{"ContainsValue", "KeyOf", "Clone", "Clear", "HasKey", "Keys", "Values"}

func isMapFn(fn string) bool {
	for _, f := range mapFns {
		if f == fn {
			return true
		}
	}
	return false
}

func exec(c *core.Ctx, cs Case) {
	if cs.L == nil {
		cs.L = []int{}
	}
	c.Begin(cs)
	c.Count("fn_" + cs.Fn)
	if isMapFn(cs.Fn) {
		execMap(c, cs)
	} else {
		execSlice(c, cs)
	}
}

func execSlice(c *core.Ctx, cs Case) {
	l := cs.L
	n := len(l)
	in, buf := guarded(l, cs.Sp)
	uin, ubuf := guarded(cs.U, cs.Sp)
	if cs.Nil && n == 0 {
		in = nil // "passing a nil slice is equivalent to passing an empty slice"
		c.Count("nil_slice")
	}
	big := n > maxModelSize || len(cs.U) > maxModelSize
	if n > 64 {
		c.Count("len_65+")
	}
	if n > 1000 {
		c.Count("len_1001+")
	}
	if n >= 3 && hasDup(l) {
		c.Nontrivial()
	}
	switch {
	case n == 0:
		c.Count("len_0")
	case n == 1:
		c.Count("len_1")
	case hasDup(l):
		c.Count("len_2+_dup")
	default:
		c.Count("len_2+_nodup")
	}
	L := core.ZList(l)
	var term string // Coq case; stays "" when the observation cannot be expressed (unexpected panic)
	var ret []int   // returned slice, probed for aliasing below
	subslice := -1  // >= 0: the result must be the sub-slice of the input starting there (Trim family)
	var kind string // panic kind of the call
	call := func(f func()) bool { kind = core.Try(f); return kind == "" }
	noPanic := func() {
		if kind != "" {
			c.Fail(cs.Fn+" panicked", kind)
		}
	}
	expectList := func(got, want []int, what string) {
		if kind == "" && !core.Eq(got, want) {
			c.Fail(cs.Fn+": "+what, diffLists(got, want))
		}
	}
	expectInt := func(got, want int, what string) {
		if kind == "" && got != want {
			c.Fail(cs.Fn+": "+what, fmt.Sprintf("got %d want %d", got, want))
		}
	}
	expectBool := func(got, want bool, what string) {
		if kind == "" && got != want {
			c.Fail(cs.Fn+": "+what, fmt.Sprintf("got %v want %v", got, want))
		}
	}
	// DistinctFunc's call log is quadratic: above 100 elements the case still goes to the model (result compared),
	// but without its call log (calls None)
	logTooLong := cs.Fn == "DistinctFunc" && n > 100
	toModel := emitModel && !big
	log := &callLog{} // calls of the callback of this case
	elem := map[int]bool{}
	for _, v := range l {
		elem[v] = true
	}
	// a callback must never be handed a value that is not an element of the input (that contradicts every
	// reference definition). Not used for Fold / FoldReverse: acc's state argument is no element; their calls
	// are compared exactly, pair by pair, by foldCalls.
	onlyElements := func(extra ...int) {
		ok := func(v int) bool {
			if elem[v] {
				return true
			}
			for _, e := range extra {
				if e == v {
					return true
				}
			}
			return false
		}
		for _, v := range log.unary {
			if !ok(v) {
				c.Fail(cs.Fn+": callback called with a value that is not an element of the input", fmt.Sprint(v))
				return
			}
		}
		for _, p := range log.pairs {
			if !ok(p[0]) || !ok(p[1]) {
				c.Fail(cs.Fn+": callback called with a value that is not an element of the input", fmt.Sprint(p))
				return
			}
		}
	}
	// the calls are not fixed by the property: Some log for the model when they are those of the present code
	unspecifiedCalls := func(present *callLog) string {
		if kind != "" {
			return "None"
		}
		if !log.same(present) {
			c.Count("calls_differ_from_present_code")
			callsDiffer[cs.Fn]++
			return "None"
		}
		c.Count("calls_as_present_code")
		if !toModel || logTooLong || log.total > len(log.unary)+len(log.pairs) {
			return "None" // not sent to the model anyway / log too long for a Coq term / truncated log
		}
		if log.pairs != nil {
			return core.Some(coqPairs(log.pairs))
		}
		return core.Some(core.ZList(log.unary))
	}

	switch cs.Fn {
	case "Index":
		var got int
		call(func() { got = slices.Index(in, cs.V) })
		noPanic()
		expectInt(got, refIndex(l, func(x int) bool { return x == cs.V }), "first position of the value, or -1")
		if kind == "" {
			term = fmt.Sprintf("CIndex %s %s %s", L, core.Z(cs.V), core.Z(got))
		}
	case "IndexFunc":
		p := predOf(cs.P[0], cs.R)
		var got int
		call(func() { got = slices.IndexFunc(in, log.pred(p)) })
		noPanic()
		expectInt(got, refIndex(l, p), "first position satisfying f, or -1")
		onlyElements()
		if kind == "" {
			term = fmt.Sprintf("CIndexFunc %s %s %s %s", L, coqPred(cs.P[0], cs.R), core.Z(got), unspecifiedCalls(searchCalls(l, p)))
		}
	case "Contains":
		var got bool
		call(func() { got = slices.Contains(in, cs.V) })
		noPanic()
		expectBool(got, refIndex(l, func(x int) bool { return x == cs.V }) >= 0, "membership")
		if kind == "" {
			term = fmt.Sprintf("CContains %s %s %s", L, core.Z(cs.V), core.Bool(got))
		}
	case "ContainsFunc":
		eq := eqOf(cs.Eq, cs.P[0])
		var got bool
		call(func() { got = slices.ContainsFunc(in, cs.V, log.rel(eq)) })
		noPanic()
		expectBool(got, refIndex(l, func(x int) bool { return eq(x, cs.V) }) >= 0, "membership up to equals")
		onlyElements(cs.V)
		present := &callLog{pairs: [][2]int{}}
		for _, v := range l {
			present.add2(v, cs.V)
			if eq(v, cs.V) {
				break
			}
		}
		if log.pairs == nil {
			log.pairs = [][2]int{}
		}
		if kind == "" {
			term = fmt.Sprintf("CContainsFunc %s %s %s %s %s", L, core.Z(cs.V), coqEq(cs.Eq, cs.P[0]), core.Bool(got), unspecifiedCalls(present))
		}
	case "Trim", "TrimLeft", "TrimRight", "TrimFunc", "TrimLeftFunc", "TrimRightFunc":
		var p func(int) bool
		isFunc := cs.Fn == "TrimFunc" || cs.Fn == "TrimLeftFunc" || cs.Fn == "TrimRightFunc"
		var lp func(int) bool // the logging predicate handed to the Func variants
		if isFunc {
			p = predOf(cs.P[0], cs.R)
			lp = log.pred(p)
		} else {
			p = func(x int) bool { return refIndex(cs.U, func(y int) bool { return y == x }) >= 0 }
		}
		var got []int
		which := "TBoth"
		left, right := true, true
		call(func() {
			switch cs.Fn {
			case "Trim":
				got = slices.Trim(in, uin)
			case "TrimLeft":
				got, which, right = slices.TrimLeft(in, uin), "TLeft", false
			case "TrimRight":
				got, which, left = slices.TrimRight(in, uin), "TRight", false
			case "TrimFunc":
				got = slices.TrimFunc(in, lp)
			case "TrimLeftFunc":
				got, which, right = slices.TrimLeftFunc(in, lp), "TLeft", false
			case "TrimRightFunc":
				got, which, left = slices.TrimRightFunc(in, lp), "TRight", false
			}
		})
		noPanic()
		lo, hi := refTrim(l, p, left, right)
		expectList(got, l[lo:hi], "input without its longest unwanted prefix/suffix")
		if hi > lo {
			c.Count("trim_nonempty_result")
		}
		if lo > 0 || hi < n {
			c.Count("trim_removed_something")
		}
		obs := core.Res(kind, core.ZList(got))
		if isFunc {
			onlyElements()
			// present code: from the end down to the first wanted element, then from the start of what is left
			present := &callLog{}
			end := n
			if right {
				for end > 0 {
					present.add1(l[end-1])
					if !p(l[end-1]) {
						break
					}
					end--
				}
			}
			if left {
				for i := 0; i < end; i++ {
					present.add1(l[i])
					if !p(l[i]) {
						break
					}
				}
			}
			term = fmt.Sprintf("CTrimFunc %s %s %s %s %s", which, L, coqPred(cs.P[0], cs.R), obs, unspecifiedCalls(present))
		} else {
			term = fmt.Sprintf("CTrim %s %s %s %s", which, L, core.ZList(cs.U), obs)
		}
		if kind == "" {
			// the result must be a window of the argument (same cells), not a copy
			subslice = lo
			if len(got) > 0 && (lo >= n || &got[0] != &in[lo]) {
				c.Fail(cs.Fn+": result is not a sub-slice of the argument", fmt.Sprintf("expected the window starting at %d", lo))
			}
		}
	case "Distinct":
		var got []int
		call(func() { got = slices.Distinct(in) })
		noPanic()
		expectList(got, firstOccsInts(l), "first occurrences in original order")
		if kind == "" {
			term = fmt.Sprintf("CDistinct %s %s", L, core.ZList(got))
			ret = got
		}
	case "DistinctFunc":
		eq := eqOf(cs.Eq, cs.P[0])
		var got []int
		call(func() { got = slices.DistinctFunc(in, log.rel(eq)) })
		noPanic()
		if cs.Eq == "mod" || (cs.Eq == "le" && cs.P[0] == 0) { // transitive
			if cs.Eq == "mod" && n > quadraticLimit {
				m := cs.P[0]
				expectList(got, refFirstOccsByClass(l, func(v int) int { return mod(v, m) }), "first occurrences up to equals, in original order")
			} else {
				expectList(got, refFirstOccs(l, eq), "first occurrences up to equals, in original order")
			}
		} else {
			expectList(got, refGreedy(l, eq), "elements not equal(kept element, element) to an element kept before")
		}
		onlyElements()
		if kind == "" {
			// present code: every element against the elements kept so far, until one is equal
			present := &callLog{pairs: [][2]int{}}
			kept := []int{}
			for _, v := range l {
				found := false
				for _, r := range kept {
					present.add2(r, v)
					if eq(r, v) {
						found = true
						break
					}
				}
				if !found {
					kept = append(kept, v)
				}
			}
			if log.pairs == nil {
				log.pairs = [][2]int{}
			}
			term = fmt.Sprintf("CDistinctFunc %s %s %s %s", L, coqEq(cs.Eq, cs.P[0]), core.ZList(got), unspecifiedCalls(present))
			ret = got
		}
	case "TryGet":
		var got int
		var ok bool
		call(func() { got, ok = slices.TryGet(in, cs.V) })
		noPanic()
		inb := cs.V >= 0 && cs.V < n
		expectBool(ok, inb, "ok iff index in bounds")
		if inb {
			expectInt(got, l[cs.V], "element at index")
			c.Count("get_in_bounds")
		} else {
			expectInt(got, 0, "zero value out of bounds")
			c.Count("get_out_of_bounds")
		}
		term = fmt.Sprintf("CTryGet %s %s %s", L, core.Z(cs.V), core.Res(kind, core.Pair(core.Z(got), core.Bool(ok))))
	case "SafeGet", "SafeGetOr":
		var got int
		fb := 0
		if cs.Fn == "SafeGetOr" {
			fb = cs.W
			call(func() { got = slices.SafeGetOr(in, cs.V, cs.W) })
		} else {
			call(func() { got = slices.SafeGet(in, cs.V) })
		}
		noPanic()
		if cs.V >= 0 && cs.V < n {
			expectInt(got, l[cs.V], "element at index")
			c.Count("get_in_bounds")
		} else {
			expectInt(got, fb, "zero/fallback out of bounds")
			c.Count("get_out_of_bounds")
		}
		if cs.Fn == "SafeGetOr" {
			term = fmt.Sprintf("CSafeGetOr %s %s %s %s", L, core.Z(cs.V), core.Z(cs.W), core.Res(kind, core.Z(got)))
		} else {
			term = fmt.Sprintf("CSafeGet %s %s %s", L, core.Z(cs.V), core.Res(kind, core.Z(got)))
		}
	case "Last":
		var got int
		call(func() { got = slices.Last(in) })
		if n == 0 {
			if kind != "IndexOutOfRange" {
				c.Fail("Last of an empty slice must panic with an out-of-range error", "got "+kind)
			}
		} else {
			noPanic()
			expectInt(got, l[n-1], "last element")
		}
		term = fmt.Sprintf("CLast %s %s", L, core.Res(kind, core.Z(got)))
	case "Any", "All":
		p := predOf(cs.P[0], cs.R)
		var got bool
		want := false
		if cs.Fn == "Any" {
			call(func() { got = slices.Any(in, log.pred(p)) })
			want = len(refFilter(l, p)) > 0
		} else {
			call(func() { got = slices.All(in, log.pred(p)) })
			want = len(refFilter(l, p)) == n
		}
		noPanic()
		expectBool(got, want, "quantifier over the elements")
		onlyElements()
		if kind == "" {
			decisive := p // Any stops at the first element satisfying cond, All at the first that does not
			if cs.Fn == "All" {
				decisive = func(v int) bool { return !p(v) }
			}
			term = fmt.Sprintf("C%s %s %s %s %s", cs.Fn, L, coqPred(cs.P[0], cs.R), core.Bool(got), unspecifiedCalls(searchCalls(l, decisive)))
		}
	case "Map":
		conv := convOf(cs.P)
		var got []int
		call(func() { got = slices.Map(in, func(v int) int { log.add1(v); r, _ := conv(v); return r }) })
		noPanic()
		want := make([]int, n)
		for i := range l {
			want[i] = l[i]*cs.P[0] + cs.P[1]
		}
		expectList(got, want, "conv applied to every element, in order")
		onlyElements()
		term = fmt.Sprintf("CMap %s %s %s %s", L, coqConv(cs.P), core.Res(kind, core.ZList(got)),
			unspecifiedCalls(searchCalls(l, func(int) bool { return false })))
		ret = got
	case "MapErr":
		conv := convOf(cs.P)
		var got []int
		var err error
		calls := []int{}
		call(func() {
			got, err = slices.MapErr(in, func(v int) (int, error) { calls = append(calls, v); return conv(v) })
		})
		noPanic()
		first := refIndex(l, func(v int) bool { _, e := conv(v); return e != nil })
		log.unary = calls
		onlyElements()
		errTerm := "None"
		if first < 0 {
			c.Count("maperr_no_error")
			want := make([]int, n)
			for i := range l {
				want[i] = l[i]*cs.P[0] + cs.P[1]
			}
			if kind == "" && err != nil {
				c.Fail("MapErr: error without a failing conversion", err.Error())
			}
			expectList(got, want, "conv applied to every element, in order")
			expectList(calls, l, "conv called once per element, in order")
		} else {
			c.Count("maperr_error")
			if kind == "" {
				if ce, ok := err.(convErr); !ok || ce.v != l[first] {
					c.Fail("MapErr: does not return the first error", fmt.Sprintf("got %v want the error of element %d (index %d)", err, l[first], first))
				}
				if got != nil {
					c.Fail("MapErr: returns a result together with an error", fmt.Sprint(got))
				}
			}
			expectList(calls, l[:first+1], "conv not called after the first error")
		}
		if ce, ok := err.(convErr); ok {
			errTerm = core.Some(core.Z(ce.v))
		} else if err != nil {
			errTerm = core.Some("(-999999)")
		}
		term = fmt.Sprintf("CMapErr %s %s %s", L, coqConv(cs.P),
			core.Res(kind, core.Pair(core.Pair(core.ZList(got), errTerm), core.ZList(calls))))
		ret = got
	case "Filter":
		p := predOf(cs.P[0], cs.R)
		var got []int
		call(func() { got = slices.Filter(in, log.pred(p)) })
		noPanic()
		expectList(got, refFilter(l, p), "matching elements in original order")
		onlyElements()
		if kind == "" {
			term = fmt.Sprintf("CFilter %s %s %s %s", L, coqPred(cs.P[0], cs.R), core.ZList(got),
				unspecifiedCalls(searchCalls(l, func(int) bool { return false })))
			ret = got
		}
	case "Fold":
		acc := accOf(cs.P)
		var got int
		call(func() { got = slices.Fold(in, cs.V, func(s, v int) int { log.add2(s, v); return acc(s, v) }) })
		noPanic()
		expectInt(got, refFold(l, cs.V, acc), "acc threaded from the first element to the last")
		foldCalls(c, cs, kind, log, l, acc)
		if kind == "" {
			term = fmt.Sprintf("CFold %s %s %s %s %s", L, core.Z(cs.V), coqAcc(cs.P), core.Z(got), foldCallsTerm(log, toModel))
		}
	case "FoldReverse":
		acc := accOf(cs.P)
		var got int
		call(func() { got = slices.FoldReverse(in, cs.V, func(s, v int) int { log.add2(s, v); return acc(s, v) }) })
		noPanic()
		expectInt(got, refFoldRev(l, cs.V, acc), "acc threaded from the last element to the first")
		rl := make([]int, n)
		for i, v := range l {
			rl[n-1-i] = v
		}
		foldCalls(c, cs, kind, log, rl, acc)
		term = fmt.Sprintf("CFoldReverse %s %s %s %s %s", L, core.Z(cs.V), coqAcc(cs.P), core.Res(kind, core.Z(got)), foldCallsTerm(log, toModel))
	case "GroupBy":
		key := keyOf(cs.P[0])
		var got []slices.Grouping[int, int]
		call(func() { got = slices.GroupBy(in, func(v int) int { log.add1(v); return key(v) }) })
		noPanic()
		onlyElements()
		unspecifiedCalls(searchCalls(l, func(int) bool { return false })) // keyer once per element in order: counted only
		keys := make([]int, n)
		for i, v := range l {
			keys[i] = key(v)
		}
		wantKeys := firstOccsInts(keys)
		members := refMembers(l, key)
		gotKeys := []int{}
		parts := []string{}
		total := 0
		for _, g := range got {
			gotKeys = append(gotKeys, g.Key)
			parts = append(parts, core.Pair(core.Z(g.Key), core.ZList(g.Values)))
			total += len(g.Values)
			k := g.Key
			if n > quadraticLimit {
				expectList(g.Values, members[k], "members of a group in original order")
			} else {
				expectList(g.Values, refFilter(l, func(v int) bool { return key(v) == k }), "members of a group in original order")
			}
		}
		expectList(gotKeys, wantKeys, "group keys in order of first appearance")
		expectInt(total, n, "group sizes sum to n")
		term = fmt.Sprintf("CGroupBy %s %s %s", L, coqKey(cs.P[0]), core.Res(kind, core.List(parts)))
		if len(wantKeys) >= 2 {
			c.Count("groups_2+")
		}
		// every group's Values must be fresh
		for _, g := range got {
			scribble(g.Values)
		}
	case "CountBy":
		key := keyOf(cs.P[0])
		var got []slices.Counting[int]
		call(func() { got = slices.CountBy(in, func(v int) int { log.add1(v); return key(v) }) })
		noPanic()
		onlyElements()
		unspecifiedCalls(searchCalls(l, func(int) bool { return false })) // keyer once per element in order: counted only
		keys := make([]int, n)
		for i, v := range l {
			keys[i] = key(v)
		}
		wantKeys := firstOccsInts(keys)
		members := refMembers(l, key)
		gotKeys := []int{}
		pairs := [][2]int{}
		total := 0
		for _, g := range got {
			gotKeys = append(gotKeys, g.Key)
			pairs = append(pairs, [2]int{g.Key, g.Count})
			total += g.Count
			k := g.Key
			if n > quadraticLimit {
				expectInt(g.Count, len(members[k]), "count of a key")
			} else {
				expectInt(g.Count, len(refFilter(l, func(v int) bool { return key(v) == k })), "count of a key")
			}
		}
		expectList(gotKeys, wantKeys, "keys in order of first appearance")
		expectInt(total, n, "counts sum to n")
		term = fmt.Sprintf("CCountBy %s %s %s", L, coqKey(cs.P[0]), core.Res(kind, coqPairs(pairs)))
	case "Except", "ExceptSet":
		var got []int
		if cs.Fn == "Except" {
			call(func() { got = slices.Except(in, uin) })
		} else {
			set := maps.NewSetFromSlice(cs.U)
			call(func() { got = slices.ExceptSet(in, set) })
			if set.Len() != len(firstOccsInts(cs.U)) {
				c.Fail("ExceptSet modified the exclude set", set.String())
			}
			// the same with a sets.Set implementation that is not maps.Set (oracle only)
			if kind == "" {
				foreign := newListSet(cs.U)
				var got2 []int
				k2 := core.Try(func() { got2 = slices.ExceptSet(in, sets.Set[int](foreign)) })
				c.Count("exceptset_foreign_set")
				switch {
				case k2 != "":
					c.Fail("ExceptSet panicked with a sets.Set that is not maps.Set", k2)
				case !core.Eq(got2, got):
					c.Fail("ExceptSet: result depends on the Set implementation", diffLists(got2, got))
				case *foreign.mutated || foreign.Len() != set.Len():
					c.Fail("ExceptSet modified the exclude set", foreign.String())
				}
				if got2 != nil {
					scribble(got2) // must be fresh too: the input is checked below
				}
			}
		}
		noPanic()
		excluded := map[int]bool{}
		for _, y := range cs.U {
			excluded[y] = true
		}
		inU := func(v int) bool { return refIndex(cs.U, func(y int) bool { return y == v }) >= 0 }
		if n*len(cs.U) > quadraticLimit*quadraticLimit {
			inU = func(v int) bool { return excluded[v] }
		}
		expectList(got, refFilter(l, func(v int) bool { return !inU(v) }),
			"elements not in exclude, in original order")
		if kind == "" {
			term = fmt.Sprintf("C%s %s %s %s", cs.Fn, L, core.ZList(cs.U), core.ZList(got))
			ret = got
		}
	default:
		panic("unknown function " + cs.Fn)
	}

	// what the functional model cannot express: inputs untouched (also beyond len), results fresh
	if !intact(buf, l) {
		c.Fail(cs.Fn+": input slice modified", fmt.Sprint(buf))
	}
	if cs.U != nil && !intact(ubuf, cs.U) {
		c.Fail(cs.Fn+": second slice argument modified", fmt.Sprint(ubuf))
	}
	if ret != nil && subslice < 0 {
		scribble(ret)
	}
	if !intact(buf, l) || (cs.U != nil && !intact(ubuf, cs.U)) {
		c.Fail(cs.Fn+": returned slice shares memory with an argument", "writing to the result changed the input")
	}
	if term != "" && emitModel && !big {
		c.Emit(term)
		c.Count("sent_to_model")
	} else {
		c.Count("oracle_only")
	}
}

func execMap(c *core.Ctx, cs Case) {
	m := map[int]int{}
	if cs.Nil && len(cs.M) == 0 {
		m = nil // every helper must accept a nil map (Clear and the readers are no-ops on it)
		c.Count("nil_map")
	}
	for _, e := range cs.M {
		m[e[0]] = e[1]
	}
	if len(cs.M) > 64 {
		c.Count("map_65+")
	}
	snap := map[int]int{}
	vals := map[int]int{}
	for k, v := range m {
		snap[k] = v
		vals[v]++
	}
	if len(m) >= 2 && len(vals) < len(m) {
		c.Nontrivial() // several entries, a value held by more than one key
	}
	switch {
	case len(m) == 0:
		c.Count("map_empty")
	case len(m) == 1:
		c.Count("map_single")
	default:
		c.Count("map_2+")
	}
	M := coqPairs(cs.M)
	same := func(a, b map[int]int) bool {
		if len(a) != len(b) {
			return false
		}
		for k, v := range a {
			if w, ok := b[k]; !ok || w != v {
				return false
			}
		}
		return true
	}
	entries := func(a map[int]int) [][2]int {
		ks := []int{}
		for k := range a {
			ks = append(ks, k)
		}
		sort.Ints(ks)
		r := [][2]int{}
		for _, k := range ks {
			r = append(r, [2]int{k, a[k]})
		}
		return r
	}
	var term string
	var kind string
	cleared := false
	switch cs.Fn {
	case "ContainsValue":
		var got bool
		kind = core.Try(func() { got = maps.ContainsValue(m, cs.V) })
		if kind == "" && got != (vals[cs.V] > 0) {
			c.Fail("ContainsValue: wrong answer", fmt.Sprintf("got %v for value %d in %v", got, cs.V, snap))
		}
		term = fmt.Sprintf("CContainsValue %s %s %s", M, core.Z(cs.V), core.Bool(got))
	case "KeyOf":
		var got int
		var ok bool
		kind = core.Try(func() { got, ok = maps.KeyOf(m, cs.V) })
		if kind == "" {
			if ok != (vals[cs.V] > 0) {
				c.Fail("KeyOf: found-flag wrong", fmt.Sprintf("ok=%v for value %d in %v", ok, cs.V, snap))
			} else if ok {
				if w, has := snap[got]; !has || w != cs.V {
					c.Fail("KeyOf: returned key does not hold the value", fmt.Sprintf("key %d for value %d in %v", got, cs.V, snap))
				}
				if vals[cs.V] > 1 {
					c.Count("keyof_several_candidates")
				}
			} else if got != 0 {
				c.Fail("KeyOf: non-zero key when not found", fmt.Sprint(got))
			}
		}
		term = fmt.Sprintf("CKeyOf %s %s %s", M, core.Z(cs.V), core.Pair(core.Z(got), core.Bool(ok)))
	case "Clone":
		var got map[int]int
		kind = core.Try(func() { got = maps.Clone(m) })
		if kind == "" {
			if !same(got, snap) {
				c.Fail("Clone: clone differs from the map", fmt.Sprintf("got %v want %v", got, snap))
			}
			term = fmt.Sprintf("CClone %s %s", M, coqPairs(entries(got)))
			// fresh: writing to the clone must not show in the original
			for k := range got {
				got[k] += 1000
			}
			got[-31337] = 1
			delete(got, cs.V)
		}
	case "Clear":
		kind = core.Try(func() { maps.Clear(m) })
		cleared = true
		if kind == "" {
			if len(m) != 0 {
				c.Fail("Clear: map not empty afterwards", fmt.Sprint(m))
			}
			term = fmt.Sprintf("CClear %s %s", M, coqPairs(entries(m)))
		}
	case "HasKey":
		var got bool
		kind = core.Try(func() { got = maps.HasKey(m, cs.V) })
		_, want := snap[cs.V]
		if kind == "" && got != want {
			c.Fail("HasKey: wrong answer", fmt.Sprintf("got %v for key %d in %v", got, cs.V, snap))
		}
		term = fmt.Sprintf("CHasKey %s %s %s", M, core.Z(cs.V), core.Bool(got))
	case "Keys":
		var got []int
		kind = core.Try(func() { got = maps.Keys(m) })
		want := []int{}
		for _, e := range entries(snap) {
			want = append(want, e[0])
		}
		if kind == "" && !core.Eq(sorted(got), want) {
			c.Fail("Keys: not exactly the keys of the map", fmt.Sprintf("got %v want (sorted) %v", got, want))
		}
		term = fmt.Sprintf("CKeys %s %s", M, core.ZList(sorted(got)))
		scribble(got)
	case "Values":
		var got []int
		kind = core.Try(func() { got = maps.Values(m) })
		want := []int{}
		for _, e := range entries(snap) {
			want = append(want, e[1])
		}
		sort.Ints(want)
		if kind == "" && !core.Eq(sorted(got), want) {
			c.Fail("Values: not exactly the values of the map", fmt.Sprintf("got %v want (sorted) %v", got, want))
		}
		term = fmt.Sprintf("CValues %s %s", M, core.ZList(sorted(got)))
		scribble(got)
	default:
		panic("unknown function " + cs.Fn)
	}
	if kind != "" {
		c.Fail(cs.Fn+" panicked", kind)
		return
	}
	if !cleared && !same(m, snap) {
		c.Fail(cs.Fn+": input map modified (directly or through the result)", fmt.Sprintf("now %v was %v", m, snap))
	}
	if emitModel && len(cs.M) <= maxModelSize {
		c.Emit(term)
		c.Count("sent_to_model")
	} else {
		c.Count("oracle_only")
	}
}

// ---- generation ----

// all lists of length <= maxLen over {0..k-1}
func allLists(maxLen, k int) [][]int {
	out := [][]int{{}}
	level := [][]int{{}}
	for n := 1; n <= maxLen; n++ {
		next := [][]int{}
		for _, p := range level {
			for v := 0; v < k; v++ {
				next = append(next, append(clone(p), v))
			}
		}
		out = append(out, next...)
		level = next
	}
	return out
}

func run(c *core.Ctx) {
	accs := [][]int{{2, 3, 1, 101}, {1, 1, 0, 7}, {3, 1, 0, 11}}
	preds := []struct {
		m int
		r []int
	}{{3, []int{0}}, {3, []int{1, 2}}, {2, []int{1}}}
	unw := [][]int{{}, {0}, {1, 2}, {0, 2}}
	maxLen := c.N(4, 5, 5)
	lists := allLists(maxLen, 3)
	for _, l := range lists {
		for v := 0; v <= 3; v++ {
			exec(c, Case{Fn: "Index", L: l, V: v})
			exec(c, Case{Fn: "Contains", L: l, V: v})
		}
		for _, p := range preds {
			for _, fn := range []string{"IndexFunc", "Any", "All", "Filter", "TrimFunc", "TrimLeftFunc", "TrimRightFunc"} {
				exec(c, Case{Fn: fn, L: l, P: []int{p.m}, R: p.r})
			}
		}
		for _, u := range unw {
			for _, fn := range []string{"Trim", "TrimLeft", "TrimRight", "Except", "ExceptSet"} {
				exec(c, Case{Fn: fn, L: l, U: u})
			}
		}
		exec(c, Case{Fn: "Distinct", L: l})
		for _, e := range []struct {
			k string
			p int
		}{{"mod", 2}, {"mod", 1}, {"near", 1}, {"le", 0}, {"le", -1}} {
			exec(c, Case{Fn: "DistinctFunc", L: l, Eq: e.k, P: []int{e.p}})
			exec(c, Case{Fn: "ContainsFunc", L: l, V: 1, Eq: e.k, P: []int{e.p}})
		}
		exec(c, Case{Fn: "Map", L: l, P: []int{2, 1, 1, 5}})
		for r := 0; r <= 3; r++ { // r = 3 never errs
			exec(c, Case{Fn: "MapErr", L: l, P: []int{3, 1, 3, r}})
		}
		for _, a := range accs {
			for _, seed := range []int{0, 5} {
				exec(c, Case{Fn: "Fold", L: l, V: seed, P: a})
				exec(c, Case{Fn: "FoldReverse", L: l, V: seed, P: a})
			}
		}
		for _, m := range []int{1, 2, 3} {
			exec(c, Case{Fn: "GroupBy", L: l, P: []int{m}})
			exec(c, Case{Fn: "CountBy", L: l, P: []int{m}})
		}
	}
	// index family: every length 0..6 with distinct elements, every index from -2 to n+1
	for n := 0; n <= 6; n++ {
		l := make([]int, n)
		for i := range l {
			l[i] = 10 + i
		}
		exec(c, Case{Fn: "Last", L: l})
		for i := -2; i <= n+1; i++ {
			exec(c, Case{Fn: "TryGet", L: l, V: i})
			exec(c, Case{Fn: "SafeGet", L: l, V: i})
			exec(c, Case{Fn: "SafeGetOr", L: l, V: i, W: -7})
		}
	}
	// maps: every map with keys among {0,1,2} and values among {0,1}
	var gen func(k int, cur [][2]int)
	gen = func(k int, cur [][2]int) {
		if k == 3 {
			for _, fn := range mapFns {
				for v := 0; v <= 2; v++ {
					if (fn == "Clear" || fn == "Keys" || fn == "Values") && v > 0 {
						continue
					}
					exec(c, Case{Fn: fn, M: append([][2]int{}, cur...), V: v})
				}
			}
			return
		}
		gen(k+1, cur)
		gen(k+1, append(append([][2]int{}, cur...), [2]int{k, 0}))
		gen(k+1, append(append([][2]int{}, cur...), [2]int{k, 1}))
	}
	gen(0, nil)
	c.Exhaustive = true
	c.Note(fmt.Sprintf("exhaustive: all lists of length <= %d over {0,1,2} x 23 slice functions x fixed callback families "+
		"(3 accumulators x 2 seeds, 3 predicates, 3 keyers, 4 converters, 5 equalities, 4 unwanted/exclude sets); "+
		"index family on all lengths 0..6 x all indices -2..n+1; all 27 maps with keys in {0,1,2}, values in {0,1} x 7 map functions; plus random", maxLen))

	heavy(c)

	// random: longer lists with duplicates and negative values, random callback parameters
	for i := c.N(3000, 60000, 30000); i > 0; i-- {
		r := c.Rng
		if r.Chance(18) {
			fn := mapFns[r.Intn(len(mapFns))]
			n := r.Size(14)
			seen := map[int]bool{}
			es := [][2]int{}
			for len(es) < n {
				k := r.Range(-5, 20)
				if !seen[k] {
					seen[k] = true
					es = append(es, [2]int{k, r.Range(-1, 4)})
				}
			}
			v := r.Range(-2, 5)
			if fn == "HasKey" || fn == "Clone" {
				v = r.Range(-6, 21)
			}
			exec(c, Case{Fn: fn, M: es, V: v})
			continue
		}
		fn := sliceFns[r.Intn(len(sliceFns))]
		n := r.Size(c.N(30, 60, 200))
		var l []int
		switch r.Intn(6) {
		case 0:
			l = r.Ints(n, 3, 3) // all equal
		case 1:
			l = r.Ints(n, -9, 9)
		default:
			l = r.Ints(n, 0, 9)
		}
		cs := Case{Fn: fn, L: l}
		switch fn {
		case "Index", "Contains":
			cs.V = r.Range(-1, 10)
		case "ContainsFunc", "DistinctFunc":
			cs.V = r.Range(-1, 10)
			if r.Chance(25) {
				cs.Eq, cs.P = "near", []int{r.Range(0, 3)}
			} else if r.Chance(35) {
				cs.Eq, cs.P = "le", []int{r.Range(-2, 1)}
			} else {
				cs.Eq, cs.P = "mod", []int{r.Range(1, 6)}
			}
		case "IndexFunc", "Any", "All", "Filter", "TrimFunc", "TrimLeftFunc", "TrimRightFunc":
			m := r.Range(1, 6)
			cs.P = []int{m}
			cs.R = []int{}
			for x := 0; x < m; x++ {
				if r.Chance(45) {
					cs.R = append(cs.R, x)
				}
			}
		case "Trim", "TrimLeft", "TrimRight", "Except", "ExceptSet":
			cs.U = r.Ints(r.Intn(6), -2, 9)
		case "TryGet", "SafeGet", "SafeGetOr":
			cs.V = r.Range(-3, n+2)
			cs.W = r.Range(-50, 50)
		case "Map", "MapErr":
			m := r.Range(1, 12)
			cs.P = []int{r.Range(-3, 5), r.Range(-4, 4), m, r.Range(0, m)} // r = m never errs
		case "Fold", "FoldReverse":
			cs.V = r.Range(-5, 20)
			cs.P = []int{r.Range(0, 5), r.Range(-2, 5), r.Range(0, 9), r.Range(2, 997)}
		case "GroupBy", "CountBy":
			cs.P = []int{r.Range(1, 7)}
		}
		exec(c, cs)
	}
	noteCallsDiffer(c)
}

// ---- oracle-heavy, model-sampled stream ----
//
// Many more and much larger cases than the model can replay in the quick tier: every case is run on the real
// code and judged by the direct oracle (plus the input-untouched / aliasing probes); only a small sample of the
// smaller ones is also sent to the Coq model. Every dimension that could hide a size threshold in an
// implementation is swept over [thresholds]: slice length, number of distinct values / classes / groups, position
// of the first match or error, length of the unwanted prefix and suffix, size of the unwanted / exclude set,
// index magnitude and sign, number of map entries, spare capacity of the arguments, nil arguments, value range.

var thresholds = []int{0, 1, 2, 3, 4, 5, 6, 7, 8, 9, 13, 14, 15, 16, 17, 26, 27, 31, 32, 33, 34, 52, 53, 63, 64, 65,
	127, 128, 129, 255, 256, 257, 511, 512, 513, 1023, 1024, 1025, 2047, 2048, 2049, 4095, 4096, 4097}

func affine(n, scale, off int) []int {
	l := make([]int, n)
	for i := range l {
		l[i] = i*scale + off
	}
	return l
}
func shuffled(r *core.Rand, l []int) []int {
	p := clone(l)
	for i := len(p) - 1; i > 0; i-- {
		j := r.Intn(i + 1)
		p[i], p[j] = p[j], p[i]
	}
	return p
}

// a threshold-ish position inside a list of length n
func pickPos(r *core.Rand, n int) int {
	if n <= 1 {
		return 0
	}
	switch r.Intn(5) {
	case 0:
		return 0
	case 1:
		return n - 1
	case 2:
		return n / 2
	default:
		t := thresholds[r.Intn(len(thresholds))]
		for t >= n {
			t = thresholds[r.Intn(len(thresholds))]
		}
		return t
	}
}
func pickThreshold(r *core.Rand, max int) int {
	t := thresholds[r.Intn(len(thresholds))]
	for t > max {
		t = thresholds[r.Intn(len(thresholds))]
	}
	return t
}

// heavyExec runs one case of the heavy stream; small cases are sampled into the model
func heavyExec(c *core.Ctx, cs Case) {
	size := len(cs.L) + len(cs.U) + len(cs.R) + len(cs.M)
	emitModel = (size <= 70 && c.Rng.Intn(14) == 0) || (size <= 260 && c.Rng.Intn(80) == 0)
	c.Count("heavy_cases")
	exec(c, cs)
	emitModel = true
}

// callback parameters and second arguments that make the thresholds of [cs.L] (d distinct values) matter
func heavyParams(r *core.Rand, cs *Case, d int) {
	n := len(cs.L)
	at := func() int { // a value sitting at a threshold-ish position
		if n == 0 {
			return 0
		}
		return cs.L[pickPos(r, n)]
	}
	if d < 1 {
		d = 1
	}
	around := func(x int) int { // x-1, x, x+1, at least 1
		y := x + r.Range(-1, 1)
		if y < 1 {
			y = 1
		}
		return y
	}
	switch cs.Fn {
	case "Index", "Contains":
		cs.V = at()
		if r.Chance(20) {
			cs.V = -77 // absent
		}
	case "ContainsFunc", "DistinctFunc":
		cs.V = at()
		switch r.Intn(6) {
		case 0:
			cs.Eq, cs.P = "near", []int{r.Range(0, 2)}
		case 1:
			cs.Eq, cs.P = "le", []int{r.Range(-1, 0)}
		case 2:
			cs.Eq, cs.P = "mod", []int{r.Range(1, 3)}
		default:
			cs.Eq, cs.P = "mod", []int{around(pickThreshold(r, d+1))} // number of classes at a threshold
		}
	case "IndexFunc", "Any", "All", "Filter", "TrimFunc", "TrimLeftFunc", "TrimRightFunc":
		switch r.Intn(4) {
		case 0: // exactly the values equal to one value (modulus above every value)
			m := d + 1 + r.Intn(2)
			cs.P, cs.R = []int{m}, []int{mod(at(), m)}
		case 1: // every value but the multiples of a threshold
			m := around(pickThreshold(r, d+1))
			if m > 48 {
				m = 48
			}
			cs.P, cs.R = []int{m}, affine(m-1, 1, 1)
		case 2: // nothing / everything
			if r.Bool() {
				cs.P, cs.R = []int{1}, []int{0}
			} else {
				cs.P, cs.R = []int{1}, []int{}
			}
		default:
			m := r.Range(2, 5)
			cs.P, cs.R = []int{m}, []int{r.Intn(m)}
		}
	case "Trim", "TrimLeft", "TrimRight", "Except", "ExceptSet":
		k := pickThreshold(r, d) // that many of the values, then some foreign ones, possibly repeated
		seenV := map[int]bool{}
		cs.U = []int{}
		for _, v := range cs.L {
			if len(cs.U) >= k {
				break
			}
			if !seenV[v] {
				seenV[v] = true
				cs.U = append(cs.U, v)
			}
		}
		if r.Chance(30) && len(cs.U) > 0 {
			cs.U = append(cs.U, cs.U[r.Intn(len(cs.U))], -99)
		}
		if r.Chance(30) {
			cs.U = shuffled(r, cs.U)
		}
	case "TryGet", "SafeGet", "SafeGetOr":
		cs.V = []int{-1, 0, n - 1, n, n + 1, pickPos(r, n), -n}[r.Intn(7)]
		cs.W = -7
	case "Map", "MapErr":
		m := d + 1
		rr := m // never errs
		if r.Chance(70) {
			rr = mod(at(), m) // errs at the first occurrence of that value
		}
		cs.P = []int{r.Range(-2, 3), r.Range(-3, 3), m, rr}
	case "Fold", "FoldReverse":
		cs.V = r.Range(-5, 20)
		cs.P = []int{r.Range(0, 5), r.Range(-2, 5), r.Range(0, 9), r.Range(2, 997)}
	case "GroupBy", "CountBy":
		if r.Chance(25) {
			cs.P = []int{r.Range(1, 3)}
		} else {
			cs.P = []int{around(pickThreshold(r, d+1))} // number of groups at a threshold
		}
	}
}

func heavy(c *core.Ctx) {
	r := c.Rng
	before := c.Evals
	spares := []int{0, 0, 0, -1, 1, 64}
	// A. length x number of distinct values: every value appears, and appears again later
	for _, d := range thresholds {
		patterns := 6
		if d > 600 {
			patterns = 2
		}
		for _, fn := range sliceFns {
			for pat := 0; pat < patterns; pat++ {
				scale, off := 1, 0
				if r.Chance(25) {
					scale, off = r.Range(1, 3), -d
				}
				base := affine(d, scale, off)
				var l []int
				switch pat {
				case 0: // 0..d-1 twice, in order: the k-th distinct value repeats later, for every k
					l = append(clone(base), base...)
				case 1: // random with repeats
					n := 3 * d
					if n > 4097 {
						n = 4097
					}
					l = make([]int, n)
					for i := range l {
						l[i] = base[r.Intn(d)]
					}
				case 2: // two different orders
					l = append(shuffled(r, base), shuffled(r, base)...)
				case 3: // all distinct
					l = base
				case 4: // all equal
					l = make([]int, d)
					for i := range l {
						l[i] = off
					}
				default: // first appearances interleaved with repeats of the value just before
					l = []int{}
					for i, v := range base {
						l = append(l, v)
						if i > 0 {
							l = append(l, base[i-1])
						}
					}
				}
				if d == 0 {
					l = []int{}
				}
				cs := Case{Fn: fn, L: l, Sp: spares[r.Intn(len(spares))], Nil: len(l) == 0 && r.Bool()}
				heavyParams(r, &cs, d)
				heavyExec(c, cs)
			}
		}
	}
	// B. position of the only / first match (or failing conversion) in a long slice
	for _, n := range thresholds {
		if n == 0 {
			continue
		}
		for _, fn := range []string{"Index", "IndexFunc", "Contains", "ContainsFunc", "Any", "All", "MapErr", "Filter", "Map", "Last", "Fold", "FoldReverse"} {
			tries := 5
			if n > 600 {
				tries = 3
			}
			for k := 0; k < tries; k++ {
				l := make([]int, n)
				pos := pickPos(r, n)
				if k == 0 {
					pos = n - 1
				}
				marks := 1
				if k == 1 {
					marks = 0 // no match at all
				} else {
					l[pos] = 1
					if r.Bool() && pos+1 < n {
						l[r.Range(pos+1, n-1)] = 1 // and a later one
						marks = 2
					}
				}
				_ = marks
				cs := Case{Fn: fn, L: l, V: 1, Sp: spares[r.Intn(len(spares))]}
				switch fn {
				case "IndexFunc", "Any", "Filter":
					cs.P, cs.R = []int{2}, []int{1}
				case "All":
					cs.P, cs.R = []int{2}, []int{0}
				case "ContainsFunc":
					cs.Eq, cs.P = "mod", []int{2}
				case "MapErr", "Map":
					cs.P = []int{3, 1, 2, 1}
				case "Fold", "FoldReverse":
					cs.V, cs.P = 3, []int{2, 3, 1, 997}
				}
				heavyExec(c, cs)
			}
		}
	}
	// C. Trim family: unwanted prefix of length a, suffix of length b, a middle that starts and ends with a
	// wanted value (or is empty: everything unwanted), unwanted set of size k
	for _, a := range thresholds {
		for _, fn := range []string{"Trim", "TrimLeft", "TrimRight", "TrimFunc", "TrimLeftFunc", "TrimRightFunc"} {
			for try := 0; try < 3; try++ {
				b := pickThreshold(r, 4097)
				if try == 0 {
					b = a
				}
				if a+b > 4200 {
					b = 4200 - a
				}
				k := []int{1, 2, 3, 33, 65}[r.Intn(5)] // unwanted values 0..k-1 (Func: v mod m < k with m = k+3)
				mid := []int{}
				if try != 1 {
					for i := r.Range(1, 9); i > 0; i-- {
						mid = append(mid, r.Intn(k+3)) // wanted and unwanted mixed
					}
					mid[0], mid[len(mid)-1] = k+r.Intn(3), k+r.Intn(3)
				}
				l := []int{}
				for i := 0; i < a; i++ {
					l = append(l, r.Intn(k))
				}
				l = append(l, mid...)
				for i := 0; i < b; i++ {
					l = append(l, r.Intn(k))
				}
				cs := Case{Fn: fn, L: l, Sp: spares[r.Intn(len(spares))]}
				if fn == "TrimFunc" || fn == "TrimLeftFunc" || fn == "TrimRightFunc" {
					cs.P, cs.R = []int{k + 3}, affine(k, 1, 0)
				} else {
					cs.U = affine(k, 1, 0)
				}
				heavyExec(c, cs)
			}
		}
	}
	// D. index magnitude and sign
	const maxInt = int(^uint(0) >> 1)
	for _, n := range []int{0, 1, 5, 33, 1025} {
		l := affine(n, 2, 10)
		for _, i := range []int{-1, 1 << 31, 1<<31 - 1, -(1 << 31), -(1 << 31) - 1, 1 << 32, 1<<32 + n - 1, -(1 << 32), 1 << 62, maxInt, -maxInt, -maxInt - 1, n, -n, n - 1, 65536 + n - 1} {
			for _, fn := range []string{"TryGet", "SafeGet", "SafeGetOr"} {
				cs := Case{Fn: fn, L: l, V: i, W: -7, Nil: n == 0 && i%2 == 0}
				emitModel = n <= 33
				c.Count("heavy_cases")
				exec(c, cs)
				emitModel = true
			}
		}
	}
	// E. wide values (only functions that compare, never compute on, the elements)
	for i := 0; i < 400; i++ {
		n := pickThreshold(r, 260)
		pool := []int{maxInt, -maxInt - 1, maxInt - 1, 0, -1, 1 << 32, -(1 << 32), 1 << 53, 1<<53 + 1, 1 << 62}
		l := make([]int, n)
		for j := range l {
			l[j] = pool[r.Intn(len(pool))]
		}
		fn := []string{"Index", "Contains", "Distinct", "Except", "ExceptSet", "Trim", "TrimLeft", "TrimRight", "Last", "TryGet", "GroupBy", "CountBy", "Filter"}[r.Intn(13)]
		cs := Case{Fn: fn, L: l, V: pool[r.Intn(len(pool))], Sp: spares[r.Intn(len(spares))]}
		switch fn {
		case "Except", "ExceptSet", "Trim", "TrimLeft", "TrimRight":
			cs.U = []int{pool[r.Intn(len(pool))], pool[r.Intn(len(pool))], pool[r.Intn(len(pool))]}
		case "TryGet":
			cs.V = pickPos(r, n)
		case "GroupBy", "CountBy":
			cs.P = []int{r.Range(1, 7)}
		case "Filter":
			cs.P, cs.R = []int{7}, []int{0, 1, 3}
		}
		heavyExec(c, cs)
	}
	// F. maps: number of entries at every threshold (Go maps grow at 6.5 entries per bucket: 13/14, 26/27, 52/53, ...)
	for _, n := range thresholds {
		for _, fn := range mapFns {
			for variant := 0; variant < 3; variant++ {
				keys := affine(n, 1, 0)
				switch r.Intn(3) {
				case 0:
					keys = affine(n, 7, -3*n)
				case 1:
					keys = shuffled(r, keys)
				}
				es := make([][2]int, n)
				for i, k := range keys {
					switch variant {
					case 0:
						es[i] = [2]int{k, i} // all values distinct
					case 1:
						es[i] = [2]int{k, 4} // all values equal
					default:
						es[i] = [2]int{k, r.Intn(5)}
					}
				}
				cs := Case{Fn: fn, M: es, Nil: n == 0 && variant == 0}
				switch fn {
				case "ContainsValue", "KeyOf":
					cs.V = []int{4, n - 1, n, -1, pickPos(r, n)}[r.Intn(5)]
				case "HasKey", "Clone":
					cs.V = -5
					if n > 0 && r.Chance(70) {
						cs.V = keys[pickPos(r, n)]
					}
				}
				heavyExec(c, cs)
			}
		}
	}
	c.Note(fmt.Sprintf("oracle-heavy stream: %d cases judged by the direct oracle and the untouched-input / aliasing probes, a sample of the small ones "+
		"also replayed by the model; sweeps over %v of: slice length, number of distinct values / classes / groups, position of the first match or "+
		"failing conversion, unwanted prefix and suffix length, unwanted / exclude set size, number of map entries; index magnitude up to +-2^63; "+
		"spare capacity 0/1/3/64; nil slice and nil map; values up to +-2^63", c.Evals-before, thresholds))
}
