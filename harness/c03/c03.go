// Package c03: set operations of maps.Set and sync2.Set equal set algebra.
//
// A case is a history of calls on real maps.Set[int] / *sync2.Set[int] values
// held through sets.Set[int] handles (every constructor, Clone and binary
// operation makes a new handle). The direct oracle keeps one map[int]bool per
// handle and checks what every call returns against it; re-reads (Slice, Len,
// String, Has over the universe) are calls of the history like any other, so
// the Coq model sees exactly the calls the real objects saw (Has and Range
// change the internal layout of a sync2.Set). Internal layouts of sync2.Set
// (amended dirty map, nil entries, expunged entries, re-added entries) are
// forced by construction profiles; the scheduling hooks of the verif build are
// used only to COUNT which slow paths the real code took.
package c03

import (
	"encoding/json"
	"fmt"
	"sort"
	"strconv"
	"strings"

	"gopkg.in/typ.v4/maps"
	"gopkg.in/typ.v4/sets"
	"gopkg.in/typ.v4/sync2"
	"verif/harness/core"
)

type Op struct {
	K    string   `json:"k"`              // new fromslice fromkeys fromvalues add remove has len slice string range clone addset removeset union intersect setdiff symdiff cartesian; addmany removemany hasmany = one add/remove/has per element of L, in order
	Impl string   `json:"impl,omitempty"` // M | S (constructors)
	H    int      `json:"h,omitempty"`    // receiver handle
	G    int      `json:"g,omitempty"`    // argument handle
	V    int      `json:"v,omitempty"`    // value; for range: the callback returns false at its V-th call (0 = never)
	L    []int    `json:"l,omitempty"`    // slice argument
	P    [][2]int `json:"p,omitempty"`    // map argument (distinct keys)
	Main bool     `json:"main,omitempty"` // the call the case is about (statistics only)
	NT   bool     `json:"nt,omitempty"`   // an operand was built by a profile that guarantees a removed entry or an amended dirty map
}

type Case struct {
	Tag  string `json:"tag"`
	Ops  []Op   `json:"ops"`
	Emit bool   `json:"emit"` // also evaluated on the Coq model (false: receiver = argument cases and oracle-only volume)
}

func init() {
	core.Register(&core.Prop{ID: "C03", Module: "Sets.SetsCheck", Run: run, Replay: replay})
}

func replay(c *core.Ctx, raw json.RawMessage) error {
	var cs Case
	if err := json.Unmarshal(raw, &cs); err != nil {
		return err
	}
	exec(c, cs)
	return nil
}

// ---------------------------------------------------------------- generators

var binops = []string{"union", "intersect", "setdiff", "symdiff", "addset", "removeset", "cartesian"}

func subset(u []int, mask int) []int {
	var s []int
	for i, v := range u {
		if mask>>i&1 == 1 {
			s = append(s, v)
		}
	}
	return s
}

func minus(a, b []int) []int {
	in := map[int]bool{}
	for _, v := range b {
		in[v] = true
	}
	var s []int
	for _, v := range a {
		if !in[v] {
			s = append(s, v)
		}
	}
	return s
}

func has(a []int, v int) bool {
	for _, x := range a {
		if x == v {
			return true
		}
	}
	return false
}

const nProfiles = 7

var profileNames = []string{"dirty", "promoted", "misspromoted", "nil", "expunged", "unexpunged", "amended+nil"}

// build returns the calls that construct, in a new handle h, a set with
// members x (a subset of the universe u) in the given layout, and whether the
// layout is guaranteed to contain a removed entry or an amended dirty map
// (sync2.Set only; profile is ignored for maps.Set except that removed keys
// are still added and removed).
func build(impl string, h int, u, x []int, profile int) (ops []Op, nt bool) {
	add := func(vs []int) {
		for _, v := range vs {
			ops = append(ops, Op{K: "add", H: h, V: v})
		}
	}
	rem := func(vs []int) {
		for _, v := range vs {
			ops = append(ops, Op{K: "remove", H: h, V: v})
		}
	}
	ops = append(ops, Op{K: "new", Impl: impl})
	z := 0
	if len(x) > 0 {
		z = x[len(x)-1]
	} else if len(u) > 0 {
		z = u[len(u)-1]
	}
	pre := minus(u, []int{z})
	switch profile {
	case 0: // everything in the dirty map, read map empty, amended
		add(x)
		nt = len(x) > 0
	case 1: // promoted by Range
		add(x)
		ops = append(ops, Op{K: "len", H: h})
	case 2: // promoted by misses
		add(x)
		for _, v := range x {
			ops = append(ops, Op{K: "has", H: h, V: v})
		}
	case 3: // nil entries in the read map, no dirty map
		add(u)
		ops = append(ops, Op{K: "len", H: h})
		rem(minus(u, x))
		nt = len(x) < len(u)
	case 4: // expunged entries: a new key after removals re-creates the dirty map
		if len(x) == 0 {
			add(u)
			ops = append(ops, Op{K: "len", H: h})
			rem(u)
			break
		}
		add(pre)
		ops = append(ops, Op{K: "len", H: h})
		rem(minus(pre, x))
		add([]int{z})
		nt = true
	case 5: // expunged entries re-added (unexpunge)
		add(pre)
		ops = append(ops, Op{K: "len", H: h})
		rem(pre)
		add([]int{z})
		add(minus(x, []int{z}))
		if !has(x, z) {
			rem([]int{z})
		}
		nt = len(x) > 0
	case 6: // amended, nil entries present in both maps
		add(pre)
		ops = append(ops, Op{K: "len", H: h})
		add([]int{z})
		rem(minus(u, x))
		nt = len(x) > 0
	}
	if impl != "S" {
		nt = false
	}
	return
}

// rereadVariant rotates the order of the observers: each of them (and Has) must sometimes be the FIRST
// call on a freshly built internal layout, because Slice/Len/String/Range promote the dirty map of a
// sync2.Set and would otherwise hide a wrong answer of the observers that run after them.
var rereadVariant int

func reread(h int, u []int) []Op {
	obs := []Op{{K: "slice", H: h}, {K: "len", H: h}, {K: "string", H: h}}
	rereadVariant++
	r := rereadVariant % 4
	var ops []Op
	hasOps := func() {
		for _, v := range u {
			ops = append(ops, Op{K: "has", H: h, V: v})
		}
	}
	if r == 3 {
		hasOps()
	}
	for i := 0; i < 3; i++ {
		ops = append(ops, obs[(i+r)%3])
	}
	if r != 3 {
		hasOps()
	}
	return ops
}

// pairCase: build A and B, one binary call, re-read everything, then the
// detachment probes (mutate the result / the operands and re-read the others).
func pairCase(u, a, b []int, ia, ib string, pa, pb int, op string) Case {
	opsA, ntA := build(ia, 0, u, a, pa)
	opsB, ntB := build(ib, 1, u, b, pb)
	ops := append(opsA, opsB...)
	ops = append(ops, Op{K: op, H: 0, G: 1, Main: true, NT: ntA || ntB})
	ops = append(ops, reread(0, u)...)
	ops = append(ops, reread(1, u)...)
	switch op {
	case "union", "intersect", "setdiff", "symdiff":
		ops = append(ops, reread(2, u)...)
		// mutate the result, re-read the operands
		for _, v := range u {
			ops = append(ops, Op{K: "add", H: 2, V: v})
		}
		ops = append(ops, Op{K: "remove", H: 2, V: u[0]})
		ops = append(ops, Op{K: "slice", H: 0}, Op{K: "slice", H: 1}, Op{K: "slice", H: 2})
		// mutate the operands, re-read the result
		for _, v := range u {
			ops = append(ops, Op{K: "remove", H: 0, V: v}, Op{K: "add", H: 1, V: v})
		}
		ops = append(ops, Op{K: "slice", H: 2}, Op{K: "len", H: 2}, Op{K: "slice", H: 0}, Op{K: "slice", H: 1})
	case "addset", "removeset":
		// receiver and argument stay independent
		for _, v := range u {
			ops = append(ops, Op{K: "remove", H: 1, V: v})
		}
		ops = append(ops, Op{K: "slice", H: 0}, Op{K: "slice", H: 1})
		for _, v := range u {
			ops = append(ops, Op{K: "add", H: 0, V: v})
		}
		ops = append(ops, Op{K: "slice", H: 0}, Op{K: "slice", H: 1})
	}
	return Case{Tag: fmt.Sprintf("pair %s%s %s/%s %s", ia, ib, profileNames[pa], profileNames[pb], op), Ops: ops, Emit: true}
}

func profilesOf(impl string) int {
	if impl == "S" {
		return nProfiles
	}
	return 1
}

func run(c *core.Ctx) {
	impls := []string{"M", "S"}
	// 1. exhaustive: all pairs of subsets of a 4-element universe x 4 pairings
	//    x every layout pair x 7 binary calls. The oracle sees all of them;
	//    the model a deterministic 1-in-k selection (all of them in thorough).
	u := []int{0, 1, 2, 3}
	k := c.N(27, 1, 1) // coprime to the 7 calls x 7 x 7 layouts: every (pairing, layouts, call) combination is selected
	n := 0
	for ma := 0; ma < 16; ma++ {
		for mb := 0; mb < 16; mb++ {
			for _, ia := range impls {
				for _, ib := range impls {
					for pa := 0; pa < profilesOf(ia); pa++ {
						for pb := 0; pb < profilesOf(ib); pb++ {
							for _, op := range binops {
								cs := pairCase(u, subset(u, ma), subset(u, mb), ia, ib, pa, pb, op)
								cs.Emit = n%k == 0
								n++
								exec(c, cs)
							}
						}
					}
				}
			}
		}
	}
	c.Exhaustive = true
	c.Note(fmt.Sprintf("exhaustive (oracle): %d cases = 16x16 subset pairs of {0,1,2,3} x 4 pairings x layouts (7 per sync2.Set operand) x 7 binary calls, each followed by full re-reads and detachment probes; every %d-th is also run on the Coq model", n, k))

	// 2. the same on a 3-element universe, every case on the model for the unary observers:
	//    every subset x implementation x layout x {range with every stop index, clone, string}
	u3 := []int{-7, 5, 1234567}
	for m := 0; m < 8; m++ {
		for _, ia := range impls {
			for pa := 0; pa < profilesOf(ia); pa++ {
				x := subset(u3, m)
				for j := 0; j <= 4; j++ {
					ops, nt := build(ia, 0, u3, x, pa)
					ops = append(ops, Op{K: "range", H: 0, V: j, Main: true, NT: nt})
					ops = append(ops, reread(0, u3)...)
					exec(c, Case{Tag: "range " + ia + " " + profileNames[pa], Ops: ops, Emit: true})
				}
				for _, first := range []string{"clone", "string", "slice", "len"} {
					ops, nt := build(ia, 0, u3, x, pa)
					ops = append(ops, Op{K: first, H: 0, Main: true, NT: nt})
					if first == "clone" {
						ops = append(ops, reread(1, u3)...)
						ops = append(ops, Op{K: "add", H: 1, V: u3[0]}, Op{K: "remove", H: 1, V: u3[1]})
						ops = append(ops, reread(0, u3)...)
						ops = append(ops, Op{K: "remove", H: 0, V: u3[0]}, Op{K: "add", H: 0, V: u3[1]})
						ops = append(ops, reread(1, u3)...)
					} else {
						ops = append(ops, reread(0, u3)...)
					}
					exec(c, Case{Tag: first + " " + ia + " " + profileNames[pa], Ops: ops, Emit: true})
				}
			}
		}
	}

	// 3. constructors
	for i := c.N(150, 2000, 1000); i > 0; i-- {
		impl := impls[c.Rng.Intn(2)]
		vals := c.Rng.Ints(c.Rng.Intn(7), -3, 6)
		var ops []Op
		switch c.Rng.Intn(3) {
		case 0:
			ops = append(ops, Op{K: "fromslice", Impl: impl, L: vals, Main: true})
		case 1:
			ops = append(ops, Op{K: "fromkeys", Impl: impl, P: randMap(c, vals), Main: true})
		default:
			ops = append(ops, Op{K: "fromvalues", Impl: impl, P: randMap(c, vals), Main: true})
		}
		uu := []int{-3, -2, -1, 0, 1, 2, 3, 4, 5, 6}
		ops = append(ops, reread(0, uu)...)
		ops = append(ops, Op{K: "add", H: 0, V: 9}, Op{K: "remove", H: 0, V: 0}, Op{K: "slice", H: 0})
		exec(c, Case{Tag: "constructor " + impl, Ops: ops, Emit: true})
	}

	// 4. random histories: handles built by random profiles, then random calls
	//    from the whole interface in random pairings; re-reads after every
	//    call (mode all) or only at the end (mode end: layouts survive longer)
	for i := c.N(500, 12000, 6000); i > 0; i-- {
		exec(c, randomHistory(c))
	}

	// 6. large sets (oracle-heavy, model-sampled)
	largeStream(c)

	// 7. the nil maps.Set (zero value of the map type) as receiver and as argument of every call that does
	//    not write to it: it must behave as the empty set. (Add on a nil map panics in Go - assignment to an
	//    entry in a nil map - as does a method call through a nil interface: both outside the property.)
	nilStream(c)

	c.CountN("map_paths_compared_with_model", pathsCompared)
	for b, name := range []string{"lock", "promote", "expunge"} {
		c.CountN("map_paths_compared_with_bit_"+name, pathBits[b])
		if !c.NoModel && pathBits[b] == 0 {
			c.Unobservable("no call whose sync2.Map path has the " + name + " bit set was recorded for the model: that part of the layout machine of SyncMap/Seq.v is not being validated")
		}
	}
	if !c.NoModel && pathsCompared == 0 {
		c.Unobservable("no sync2.Map path (lock / promote / expunge hook labels) was recorded for the model: the layout machine of SyncMap/Seq.v is not being validated")
	}

	// 5. receiver = argument (outside the model: oracle only)
	for m := 0; m < 16; m++ {
		for _, ia := range impls {
			for pa := 0; pa < profilesOf(ia); pa++ {
				for _, op := range binops {
					ops, nt := build(ia, 0, u, subset(u, m), pa)
					ops = append(ops, Op{K: op, H: 0, G: 0, Main: true, NT: nt})
					ops = append(ops, reread(0, u)...)
					switch op {
					case "union", "intersect", "setdiff", "symdiff":
						ops = append(ops, reread(1, u)...)
						ops = append(ops, Op{K: "add", H: 1, V: 0}, Op{K: "remove", H: 1, V: 1}, Op{K: "slice", H: 0})
						ops = append(ops, Op{K: "remove", H: 0, V: 0}, Op{K: "add", H: 0, V: 1}, Op{K: "slice", H: 1})
					}
					exec(c, Case{Tag: "alias " + ia + " " + op, Ops: ops, Emit: false})
				}
			}
		}
	}
}

func nilStream(c *core.Ctx) {
	u := []int{0, 1, 2}
	n := 0
	for _, other := range []string{"M", "S", "N"} {
		for mask := 0; mask < 8; mask += 7 { // the other operand: empty or {0,1,2}
			for _, op := range binops {
				for _, nilIsReceiver := range []bool{true, false} {
					if nilIsReceiver && op == "addset" && mask != 0 {
						continue // would Add to the nil map: panics by Go semantics, outside the property
					}
					ops := []Op{{K: "new", Impl: "N"}}
					ops = append(ops, Op{K: "len", H: 0}, Op{K: "has", H: 0, V: 1}, Op{K: "remove", H: 0, V: 1})
					oo, _ := build(other, 1, u, subset(u, mask), n%nProfiles)
					if other == "N" {
						if mask != 0 {
							continue
						}
						oo = []Op{{K: "new", Impl: "N"}}
					}
					ops = append(ops, oo...)
					h, g := 0, 1
					if !nilIsReceiver {
						h, g = 1, 0
					}
					ops = append(ops, Op{K: op, H: h, G: g, Main: true})
					ops = append(ops, reread(0, u)...)
					ops = append(ops, Op{K: "range", H: 0, V: 1}, Op{K: "clone", H: 0})
					ops = append(ops, reread(1, u)...)
					last := 2
					switch op {
					case "union", "intersect", "setdiff", "symdiff":
						ops = append(ops, reread(2, u)...)
						ops = append(ops, Op{K: "add", H: 2, V: 7}, Op{K: "len", H: 0}, Op{K: "len", H: 1}) // the result is a real, writable set
						last = 3
					}
					ops = append(ops, Op{K: "add", H: last, V: 5}, Op{K: "len", H: last}, Op{K: "len", H: 0}) // so is the clone of the nil set
					exec(c, Case{Tag: fmt.Sprintf("nil %s %s receiver=%v", other, op, nilIsReceiver), Ops: ops, Emit: true})
					n++
				}
			}
		}
	}
	// documented Go semantics, not part of the property: Add on the nil map panics
	if core.Try(func() { maps.Set[int](nil).Add(1) }) != "" {
		c.Count("nil_maps_set_add_panics")
	}
	c.Note(fmt.Sprintf("nil maps.Set: %d cases (receiver and argument of every non-writing call, against empty / non-empty sets of both implementations and itself)", n))
}

// ---- large sets: sizes around every power of two up to 4096 ----

var largeSizes = []int{0, 1, 2, 3, 7, 8, 9, 15, 16, 17, 31, 32, 33, 47, 63, 64, 65, 100, 127, 128, 129, 255, 256, 257, 511, 512, 513,
	1023, 1024, 1025, 2047, 2048, 2049, 4095, 4096, 4097}

func span(lo, n int) []int {
	s := make([]int, n)
	for i := range s {
		s[i] = lo + i
	}
	return s
}

// buildLarge: like build, with bulk calls. The receiver universe u is split
// into members x and removed keys u \ x by the caller.
func buildLarge(impl string, h int, u, x []int, profile int) (ops []Op, nt bool) {
	prim, nt := build(impl, h, u, x, profile)
	// compress runs of add / remove on the same handle
	for i := 0; i < len(prim); {
		k := prim[i].K
		if k != "add" && k != "remove" {
			ops = append(ops, prim[i])
			i++
			continue
		}
		var l []int
		for i < len(prim) && prim[i].K == k {
			l = append(l, prim[i].V)
			i++
		}
		ops = append(ops, Op{K: k + "many", H: h, L: l})
	}
	return
}

// after a main call on receiver h: membership probes of the removed keys,
// re-adds of the removed keys (before any promotion), a promotion by one of
// Len / Slice / Range / String / misses, and a full re-read.
func afterLarge(h int, univ, removed []int, variant int) []Op {
	var ops []Op
	ops = append(ops, Op{K: "hasmany", H: h, L: removed})
	ops = append(ops, Op{K: "addmany", H: h, L: removed})
	ops = append(ops, Op{K: "hasmany", H: h, L: removed})
	switch variant % 5 {
	case 0:
		ops = append(ops, Op{K: "len", H: h})
	case 1:
		ops = append(ops, Op{K: "slice", H: h})
	case 2:
		ops = append(ops, Op{K: "range", H: h})
	case 3:
		ops = append(ops, Op{K: "string", H: h})
	default: // promotion by misses, then by Range
		ops = append(ops, Op{K: "hasmany", H: h, L: univ}, Op{K: "hasmany", H: h, L: univ})
	}
	ops = append(ops, Op{K: "hasmany", H: h, L: removed})
	ops = append(ops, Op{K: "len", H: h}, Op{K: "slice", H: h}, Op{K: "hasmany", H: h, L: univ}, Op{K: "string", H: h}, Op{K: "len", H: h})
	return ops
}

func largeStream(c *core.Ctx) {
	impls := []string{"M", "S"}
	recvSizes := []int{3, 40, 70, 300} // members of the receiver before the call
	argProfiles := []int{0, 1, 3, 6}
	n, k, emitted := 0, 0, 0
	maxEmit := c.N(30, 600, 0)
	for _, size := range largeSizes {
		for _, ia := range impls {
			for pa := 0; pa < profilesOf(ia); pa++ {
				for _, ib := range impls {
					for _, op := range binops {
						n++
						// the larger sizes run a fraction of the combinations (every profile and call still occurs at every size class)
						if (size > 1100 && n%12 != 0) || (size > 200 && size <= 1100 && n%4 != 0) {
							continue
						}
						k++
						m := recvSizes[k%len(recvSizes)]
						if size > 600 && m > 70 {
							m = 70
						}
						// receiver universe 0..m+r-1 with r removed keys spread over it (first, last, every ~m/r-th)
						r := []int{1, 2, 5, 64}[(k/3)%4]
						if r > m {
							r = m
						}
						ur := span(0, m+r)
						var removed []int
						for i := 0; i < r; i++ {
							removed = append(removed, i*(m+r-1)/max(r-1, 1))
						}
						if r == 1 {
							removed = []int{1}
						}
						xr := minus(ur, removed)
						removed = minus(ur, xr) // deduplicated, sorted
						// argument: size members starting inside the receiver's range (so it holds some removed keys,
						// some members, some new values), plus extras removed again in the nil profiles
						lo := []int{0, 1, m / 2, m + r, -5}[(k/5)%5]
						xa := span(lo, size)
						ua := append(span(lo-2, 2), xa...)
						pb := 0
						if ib == "S" {
							pb = argProfiles[(k/7)%len(argProfiles)]
						}
						if op == "cartesian" && (len(xr)+r)*(size+2) > 30000 {
							continue
						}
						opsA, ntA := buildLarge(ia, 0, ur, xr, pa)
						opsB, ntB := buildLarge(ib, 1, ua, xa, pb)
						ops := append(opsA, opsB...)
						ops = append(ops, Op{K: op, H: 0, G: 1, Main: true, NT: ntA || ntB})
						univ := append(append([]int{}, ur...), minus(ua, ur)...)
						ops = append(ops, afterLarge(0, univ, removed, n)...)
						// the argument: untouched membership; then its own re-adds / promotion / re-read
						ops = append(ops, Op{K: "len", H: 1}, Op{K: "slice", H: 1})
						ops = append(ops, afterLarge(1, univ, minus(ua, xa), n/2)...)
						switch op {
						case "union", "intersect", "setdiff", "symdiff":
							ops = append(ops, Op{K: "len", H: 2}, Op{K: "hasmany", H: 2, L: univ}, Op{K: "slice", H: 2})
							// the result is detached: empty it, re-read the operands
							ops = append(ops, Op{K: "removemany", H: 2, L: univ}, Op{K: "len", H: 0}, Op{K: "len", H: 1}, Op{K: "len", H: 2})
						}
						cs := Case{Tag: fmt.Sprintf("large %s%s %s/%s %s n=%d m=%d r=%d", ia, ib, profileNames[pa], profileNames[pb], op, size, m, len(removed)), Ops: ops}
						if emitted < maxEmit && size <= 65 && m <= 40 && n%11 == 0 {
							cs.Emit = true
							emitted++
						}
						exec(c, cs)
					}
				}
			}
		}
		// unary: Range with stop indices around the size, Clone, constructors of that size
		for _, ia := range impls {
			for pa := 0; pa < profilesOf(ia); pa++ {
				n++
				if size > 1100 && n%3 != 0 {
					continue
				}
				ur := span(0, size+3)
				removed := []int{0, size / 2, size + 2}
				xr := minus(ur, removed)
				removed = minus(ur, xr)
				for ji, j := range []int{1, 63, 64, 65, len(xr) - 1, len(xr), len(xr) + 1, 1 << 40} {
					if j < 1 || (size > 130 && (ji+n)%4 != 0) {
						continue
					}
					ops, nt := buildLarge(ia, 0, ur, xr, pa)
					ops = append(ops, Op{K: "range", H: 0, V: j, Main: true, NT: nt})
					ops = append(ops, afterLarge(0, ur, removed, n+j)...)
					exec(c, Case{Tag: fmt.Sprintf("large range %s %s n=%d j=%d", ia, profileNames[pa], len(xr), j), Ops: ops})
				}
				ops, nt := buildLarge(ia, 0, ur, xr, pa)
				ops = append(ops, Op{K: "clone", H: 0, Main: true, NT: nt})
				ops = append(ops, afterLarge(1, ur, removed, n)...)
				ops = append(ops, afterLarge(0, ur, removed, n+1)...)
				ops = append(ops, Op{K: "removemany", H: 1, L: ur}, Op{K: "len", H: 0}, Op{K: "len", H: 1})
				cs := Case{Tag: fmt.Sprintf("large clone %s %s n=%d", ia, profileNames[pa], len(xr)), Ops: ops}
				if emitted < maxEmit+6 && size <= 65 && n%5 == 0 {
					cs.Emit = true
					emitted++
				}
				exec(c, cs)
			}
			// constructors: size values with repetitions (slice), size keys / values
			vals := make([]int, 0, size+size/3)
			for i := 0; i < size; i++ {
				vals = append(vals, i*7%(size+1)-3)
				if i%3 == 0 {
					vals = append(vals, i/2)
				}
			}
			var pairs [][2]int
			for i := 0; i < size; i++ {
				pairs = append(pairs, [2]int{i - 3, i * 5 % (size/2 + 1)})
			}
			uu := span(-4, size+8)
			for _, ctor := range []Op{{K: "fromslice", Impl: ia, L: vals, Main: true}, {K: "fromkeys", Impl: ia, P: pairs, Main: true}, {K: "fromvalues", Impl: ia, P: pairs, Main: true}} {
				ops := []Op{ctor}
				ops = append(ops, afterLarge(0, uu, []int{-4, size + 3}, n)...)
				exec(c, Case{Tag: fmt.Sprintf("large %s %s n=%d", ctor.K, ia, size), Ops: ops, Emit: size == 64 || size == 17})
			}
		}
	}
	c.Note(fmt.Sprintf("large stream: %d binary cases + unary/constructor cases over sizes %v (oracle); %d of them also on the Coq model", n, largeSizes, emitted))
}

func max(a, b int) int {
	if a > b {
		return a
	}
	return b
}

func randMap(c *core.Ctx, vals []int) [][2]int {
	var p [][2]int
	seen := map[int]bool{}
	for _, v := range vals {
		k := c.Rng.Range(-3, 6)
		if seen[k] {
			continue
		}
		seen[k] = true
		p = append(p, [2]int{k, v})
	}
	return p
}

func randomHistory(c *core.Ctx) Case {
	pool := []int{0, 1, 2, 3, 4, 5, -1, 42, 1000000007, -9223372036854775808}
	nu := 2 + c.Rng.Intn(5)
	if c.Tier != "quick" && c.Rng.Chance(20) {
		nu = len(pool)
	}
	u := append([]int{}, pool[:nu]...)
	sort.Ints(u)
	all := c.Rng.Chance(35)
	var ops []Op
	type hinfo struct {
		impl string
		nt   bool // still in the layout its profile guarantees
	}
	var hs []hinfo
	impls := []string{"M", "S"}
	nh := 2 + c.Rng.Intn(2)
	for h := 0; h < nh; h++ {
		impl := impls[c.Rng.Intn(2)]
		if c.Rng.Chance(65) {
			impl = "S"
		}
		o, nt := build(impl, h, u, subset(u, c.Rng.Intn(1<<len(u))), c.Rng.Intn(nProfiles))
		ops = append(ops, o...)
		hs = append(hs, hinfo{impl, nt})
	}
	rereadAll := func() {
		for h := range hs {
			ops = append(ops, reread(h, u)...)
			hs[h].nt = false
		}
	}
	steps := 3 + c.Rng.Intn(c.N(10, 25, 25))
	for s := 0; s < steps; s++ {
		h := c.Rng.Intn(len(hs))
		g := c.Rng.Intn(len(hs))
		for g == h {
			g = c.Rng.Intn(len(hs))
		}
		v := u[c.Rng.Intn(len(u))]
		touch := func(i int) { hs[i].nt = false }
		switch r := c.Rng.Intn(100); {
		case r < 14:
			ops = append(ops, Op{K: "add", H: h, V: v})
			touch(h)
		case r < 28:
			ops = append(ops, Op{K: "remove", H: h, V: v})
			touch(h)
		case r < 36:
			ops = append(ops, Op{K: "has", H: h, V: v})
			touch(h)
		case r < 40:
			ops = append(ops, Op{K: []string{"len", "slice", "string"}[c.Rng.Intn(3)], H: h})
			touch(h)
		case r < 45:
			ops = append(ops, Op{K: "range", H: h, V: c.Rng.Intn(len(u) + 2), Main: true, NT: hs[h].nt})
			touch(h)
		case r < 50:
			if len(hs) < 7 {
				ops = append(ops, Op{K: "clone", H: h, Main: true, NT: hs[h].nt})
				hs = append(hs, hinfo{impl: hs[h].impl})
				touch(h)
			}
		default:
			op := binops[c.Rng.Intn(len(binops))]
			if len(hs) >= 7 && op != "addset" && op != "removeset" && op != "cartesian" {
				op = "addset"
			}
			ops = append(ops, Op{K: op, H: h, G: g, Main: true, NT: hs[h].nt || hs[g].nt})
			touch(h)
			touch(g)
			if op == "union" || op == "intersect" || op == "setdiff" || op == "symdiff" {
				hs = append(hs, hinfo{impl: hs[h].impl})
			}
		}
		if all {
			rereadAll()
		}
	}
	rereadAll()
	mode := "end"
	if all {
		mode = "all"
	}
	return Case{Tag: "random reread=" + mode, Ops: ops, Emit: true}
}

// ---------------------------------------------------------------- execution

func newSet(impl string) sets.Set[int] {
	switch impl {
	case "S":
		return new(sync2.Set[int])
	case "N": // the nil map: the zero value of maps.Set, usable for everything except Add / a gaining AddSet
		return maps.Set[int](nil)
	}
	return make(maps.Set[int])
}

func sorted(m map[int]bool) []int {
	s := make([]int, 0, len(m))
	for v := range m {
		s = append(s, v)
	}
	sort.Ints(s)
	return s
}

// enumOK: l lists every member of ref exactly once and nothing else
func enumOK(l []int, ref map[int]bool) string {
	seen := map[int]bool{}
	for _, v := range l {
		if !ref[v] {
			return fmt.Sprintf("enumerates %d which is not a member", v)
		}
		if seen[v] {
			return fmt.Sprintf("enumerates %d twice", v)
		}
		seen[v] = true
	}
	if len(l) != len(ref) {
		return fmt.Sprintf("enumerates %d values, the set has %d", len(l), len(ref))
	}
	return ""
}

// parseString reads the text of String(). The property fixes only that the text
// agrees with the membership: the integers are extracted wherever they stand
// (a '-' directly before a digit and not directly after one is a sign), braces
// and separators are not interpreted. canonical reports whether the text has
// the shape "{v v v}" of the present implementation (statistics only).
func parseString(s string) (vals []int, canonical bool, ok bool) {
	ok = true
	for i := 0; i < len(s); {
		ch := s[i]
		isDigit := ch >= '0' && ch <= '9'
		if isDigit || (ch == '-' && i+1 < len(s) && s[i+1] >= '0' && s[i+1] <= '9' && (i == 0 || s[i-1] < '0' || s[i-1] > '9')) {
			j := i + 1
			for j < len(s) && s[j] >= '0' && s[j] <= '9' {
				j++
			}
			v, err := strconv.Atoi(s[i:j])
			if err != nil {
				ok = false // a number that is not an int: cannot be a member
			} else {
				vals = append(vals, v)
			}
			i = j
			continue
		}
		i++
	}
	parts := make([]string, len(vals))
	for i, v := range vals {
		parts[i] = strconv.Itoa(v)
	}
	canonical = s == "{"+strings.Join(parts, " ")+"}"
	return
}

func pairsTerm(ps []sets.Product[int, int]) string {
	parts := make([]string, len(ps))
	for i, p := range ps {
		parts[i] = core.Pair(core.Z(p.A), core.Z(p.B))
	}
	return "VPairs " + core.List(parts)
}

func pairList(p [][2]int) string {
	parts := make([]string, len(p))
	for i, kv := range p {
		parts[i] = core.Pair(core.Z(kv[0]), core.Z(kv[1]))
	}
	return core.List(parts)
}

var binCoq = map[string]string{"union": "BUnion", "intersect": "BIntersect", "setdiff": "BSetDiff", "symdiff": "BSymDiff"}

// expand replaces addmany / removemany / hasmany by the calls they stand for.
func expand(ops []Op) []Op {
	big := false
	for _, op := range ops {
		if op.K == "addmany" || op.K == "removemany" || op.K == "hasmany" {
			big = true
		}
	}
	if !big {
		return ops
	}
	var out []Op
	for _, op := range ops {
		switch op.K {
		case "addmany", "removemany", "hasmany":
			for _, v := range op.L {
				out = append(out, Op{K: strings.TrimSuffix(op.K, "many"), H: op.H, V: v})
			}
		default:
			out = append(out, op)
		}
	}
	return out
}

// pathsCompared counts the calls whose Map paths were recorded for the model (see run: must not stay 0).
var pathsCompared int

// pathBits counts the recorded paths in which the lock / promote / expunge bit is set (each must be seen).
var pathBits [3]int

func exec(c *core.Ctx, cs Case) {
	c.Begin(cs)
	c.Count("cases_" + strings.SplitN(cs.Tag, " ", 2)[0])
	var hs []sets.Set[int]
	var impls []string
	var refs []map[int]bool
	univ := map[int]bool{}
	var terms []string
	nontrivial := false
	// which slow paths of sync2.Map the real code takes during "main" calls
	var labels map[string]bool
	// which paths a single-Map-call method takes (compared with the model's prediction): bit 1 mutex taken,
	// bit 2 dirty map promoted, bit 4 nil entry expunged
	recording, mask := false, 0
	clean := map[int]bool{} // handles whose internal layout is determined by the recorded history (see below)
	sync2.VerifHook = func(label string, _ any, _ any) {
		if labels != nil {
			labels[label] = true
		}
		if recording {
			switch label {
			case "Load.lock", "LoadOrStore.lock", "LoadAndDelete.lock", "Range.lock":
				mask |= 1
			case "miss.store", "Range.promote":
				mask |= 2
			case "expunge.cas":
				mask |= 4
			}
		}
	}
	defer func() { sync2.VerifHook = nil }()

	fail := func(i int, op Op, what, detail string) {
		if len(op.L) > 40 {
			op.L = op.L[:40]
		}
		if len(detail) > 1500 {
			detail = detail[:1500] + "..."
		}
		c.Fail(fmt.Sprintf("%s: %s", op.K, what), fmt.Sprintf("call %d %+v: %s", i, op, detail))
	}
	ops := expand(cs.Ops)
	emit := cs.Emit && !c.NoModel // Coq terms are only built for cases the model will see
	for i, op := range ops {
		okH := op.H >= 0 && op.H < len(hs)
		okG := op.G >= 0 && op.G < len(hs)
		isCtor := op.K == "new" || op.K == "fromslice" || op.K == "fromkeys" || op.K == "fromvalues"
		isBin := op.K == "addset" || op.K == "removeset" || op.K == "cartesian" || binCoq[op.K] != ""
		if !isCtor && (!okH || (isBin && !okG)) {
			fail(i, op, "malformed case", "unknown handle")
			return
		}
		if op.Main {
			labels = map[string]bool{}
			c.Count("main_" + op.K)
			if isBin {
				c.Count("pairing_" + impls[op.H] + impls[op.G])
			}
			if op.NT {
				nontrivial = true
				c.Count("main_with_forced_layout")
			}
		}
		var term, obs, extra string
		switch op.K {
		case "add", "remove", "has", "len", "slice", "string", "range":
			recording = emit && impls[op.H] == "S" && clean[op.H]
		case "new":
			clean[len(hs)] = true
			recording = false
		case "fromslice", "fromkeys", "fromvalues":
			recording = false
		default:
			// Every other method makes several Map calls on its operands. Which calls, how often and in which
			// order is an implementation choice of set.go / sets.go that no output shows (e.g. the iteration
			// order of the other operand decides when the misses add up to a promotion), so the layout of the
			// operands is from here on not determined by the recorded history: their paths are no longer
			// compared (their outputs still are). Handles made by these methods never are.
			clean[op.H] = false
			if op.K != "clone" {
				clean[op.G] = false
			}
			recording = false
		}
		mask = 0
		kind := core.Try(func() {
			switch op.K {
			case "new":
				hs = append(hs, newSet(op.Impl))
				if op.Impl == "N" { // a nil maps.Set is the empty maps.Set of the model
					op.Impl = "M"
					c.Count("nil_maps_set_handles")
				}
				impls = append(impls, op.Impl)
				refs = append(refs, map[int]bool{})
				term, obs = "CNew I"+op.Impl, "VUnit"
			case "fromslice", "fromkeys", "fromvalues":
				ref := map[int]bool{}
				var s sets.Set[int]
				m := map[int]int{}
				for _, kv := range op.P {
					m[kv[0]] = kv[1]
					univ[kv[0]], univ[kv[1]] = true, true
				}
				for _, v := range op.L {
					univ[v] = true
				}
				in := append([]int{}, op.L...)
				switch op.K {
				case "fromslice":
					for _, v := range op.L {
						ref[v] = true
					}
					if op.Impl == "S" {
						s = sync2.NewSetFromSlice(in)
					} else {
						s = maps.NewSetFromSlice(in)
					}
					if !core.Eq(in, op.L) {
						fail(i, op, "argument slice modified", fmt.Sprint(in))
					}
					term = "CFromSlice I" + op.Impl + " " + core.ZList(op.L)
				case "fromkeys":
					for k := range m {
						ref[k] = true
					}
					if op.Impl == "S" {
						s = sync2.NewSetFromKeys(m)
					} else {
						s = maps.NewSetFromKeys(m)
					}
					term = "CFromKeys I" + op.Impl + " " + pairList(op.P)
				default:
					for _, v := range m {
						ref[v] = true
					}
					if op.Impl == "S" {
						s = sync2.NewSetFromValues(m)
					} else {
						s = maps.NewSetFromValues(m)
					}
					term = "CFromValues I" + op.Impl + " " + pairList(op.P)
				}
				if len(m) != len(op.P) {
					fail(i, op, "malformed case", "duplicate keys")
				}
				for _, kv := range op.P {
					if v, ok := m[kv[0]]; !ok || v != kv[1] {
						fail(i, op, "argument map modified", fmt.Sprint(m))
					}
				}
				hs = append(hs, s)
				impls = append(impls, op.Impl)
				refs = append(refs, ref)
				obs = "VUnit"
			case "add":
				univ[op.V] = true
				got := hs[op.H].Add(op.V)
				if got != !refs[op.H][op.V] {
					fail(i, op, "Add reports the wrong change", fmt.Sprintf("returned %v, member before: %v", got, refs[op.H][op.V]))
				}
				refs[op.H][op.V] = true
				term = "-"
				if emit {
					term, obs = fmt.Sprintf("CAdd %d %s", op.H, core.Z(op.V)), "VBool "+core.Bool(got)
				}
			case "remove":
				univ[op.V] = true
				got := hs[op.H].Remove(op.V)
				if got != refs[op.H][op.V] {
					fail(i, op, "Remove reports the wrong change", fmt.Sprintf("returned %v, member before: %v", got, refs[op.H][op.V]))
				}
				delete(refs[op.H], op.V)
				term = "-"
				if emit {
					term, obs = fmt.Sprintf("CRemove %d %s", op.H, core.Z(op.V)), "VBool "+core.Bool(got)
				}
			case "has":
				univ[op.V] = true
				got := hs[op.H].Has(op.V)
				if got != refs[op.H][op.V] {
					fail(i, op, "Has disagrees with the membership", fmt.Sprintf("Has(%d)=%v, members %v", op.V, got, sorted(refs[op.H])))
				}
				term = "-"
				if emit {
					term, obs = fmt.Sprintf("CHas %d %s", op.H, core.Z(op.V)), "VBool "+core.Bool(got)
				}
			case "len":
				got := hs[op.H].Len()
				if got != len(refs[op.H]) {
					fail(i, op, "Len disagrees with the membership", fmt.Sprintf("Len()=%d, members %v", got, sorted(refs[op.H])))
				}
				term, obs = fmt.Sprintf("CLen %d", op.H), "VInt "+core.Z(got)
			case "slice":
				got := hs[op.H].Slice()
				if msg := enumOK(got, refs[op.H]); msg != "" {
					fail(i, op, "Slice "+msg, fmt.Sprintf("Slice()=%v, members %v", got, sorted(refs[op.H])))
				}
				term = "-"
				if emit {
					term, obs = fmt.Sprintf("CSlice %d", op.H), "VList "+core.ZList(got)
				}
			case "string":
				got := hs[op.H].String()
				vals, canonical, ok := parseString(got)
				if !canonical {
					c.Count("string_not_in_brace_space_form")
				}
				if !ok {
					fail(i, op, "String contains a number that is not an int", fmt.Sprintf("%q", got))
				} else if msg := enumOK(vals, refs[op.H]); msg != "" {
					fail(i, op, "String "+msg, fmt.Sprintf("String()=%q, members %v", got, sorted(refs[op.H])))
				}
				term = "-"
				if emit {
					toks := make([]string, len(vals))
					for k, v := range vals {
						toks[k] = "TVal " + core.Z(v)
					}
					term, obs = fmt.Sprintf("CString %d", op.H), "VToks "+core.List(toks)
				}
			case "range":
				var seen []int
				calls := 0
				hs[op.H].Range(func(v int) bool {
					calls++
					seen = append(seen, v)
					return calls != op.V
				})
				want := len(refs[op.H])
				if op.V >= 1 && op.V < want {
					want = op.V
				}
				if calls != want {
					fail(i, op, "Range makes the wrong number of calls", fmt.Sprintf("%d calls, stop index %d, members %v", calls, op.V, sorted(refs[op.H])))
				}
				part := map[int]bool{}
				for _, v := range seen {
					if !refs[op.H][v] {
						fail(i, op, "Range passes a non-member", fmt.Sprintf("%d, members %v", v, sorted(refs[op.H])))
					}
					if part[v] {
						fail(i, op, "Range passes a value twice", fmt.Sprintf("%v", seen))
					}
					part[v] = true
				}
				term = "-"
				if emit {
					term, obs = fmt.Sprintf("CRange %d %d", op.H, op.V), "VList "+core.ZList(seen)
				}
			case "clone":
				r := hs[op.H].Clone()
				ref := map[int]bool{}
				for v := range refs[op.H] {
					ref[v] = true
				}
				hs, impls, refs = append(hs, r), append(impls, impls[op.H]), append(refs, ref)
				term, obs = fmt.Sprintf("CClone %d", op.H), "VUnit"
			case "addset":
				got := hs[op.H].AddSet(hs[op.G])
				want := 0
				for v := range refs[op.G] {
					if !refs[op.H][v] {
						want++
					}
				}
				if got != want {
					fail(i, op, "AddSet returns the wrong count", fmt.Sprintf("returned %d, want %d: receiver %v argument %v", got, want, sorted(refs[op.H]), sorted(refs[op.G])))
				}
				for _, v := range sorted(refs[op.G]) {
					refs[op.H][v] = true
				}
				term, obs = fmt.Sprintf("CAddSet %d %d", op.H, op.G), "VInt "+core.Z(got)
			case "removeset":
				got := hs[op.H].RemoveSet(hs[op.G])
				want := 0
				for v := range refs[op.G] {
					if refs[op.H][v] {
						want++
					}
				}
				if got != want {
					fail(i, op, "RemoveSet returns the wrong count", fmt.Sprintf("returned %d, want %d: receiver %v argument %v", got, want, sorted(refs[op.H]), sorted(refs[op.G])))
				}
				for _, v := range sorted(refs[op.G]) {
					delete(refs[op.H], v)
				}
				term, obs = fmt.Sprintf("CRemoveSet %d %d", op.H, op.G), "VInt "+core.Z(got)
			case "union", "intersect", "setdiff", "symdiff":
				a, b := refs[op.H], refs[op.G]
				ref := map[int]bool{}
				for v := range a {
					switch op.K {
					case "union":
						ref[v] = true
					case "intersect":
						if b[v] {
							ref[v] = true
						}
					default:
						if !b[v] {
							ref[v] = true
						}
					}
				}
				for v := range b {
					if op.K == "union" || (op.K == "symdiff" && !a[v]) {
						ref[v] = true
					}
				}
				if op.H == op.G { // the reference must not alias either
					a = map[int]bool{}
				}
				var r sets.Set[int]
				switch op.K {
				case "union":
					r = hs[op.H].Union(hs[op.G])
				case "intersect":
					r = hs[op.H].Intersect(hs[op.G])
				case "setdiff":
					r = hs[op.H].SetDiff(hs[op.G])
				default:
					r = hs[op.H].SymDiff(hs[op.G])
				}
				// the result itself is checked right away (a re-read of the result may not
				// follow); this Slice is a call on the new handle, recorded for the model too
				got := r.Slice()
				if emit {
					extra = fmt.Sprintf("(CSlice %d, VList %s, (-1))", len(hs), core.ZList(got))
				}
				if enumOK(got, ref) != "" {
					sort.Ints(got)
					fail(i, op, "result is not the set-algebra result", fmt.Sprintf("got %v want %v: receiver %v argument %v", got, sorted(ref), sorted(refs[op.H]), sorted(refs[op.G])))
				}
				rimpl := "M"
				if _, isSync := r.(*sync2.Set[int]); isSync {
					rimpl = "S"
				}
				c.Count("result_impl_" + rimpl)
				hs, impls, refs = append(hs, r), append(impls, rimpl), append(refs, ref)
				term, obs = fmt.Sprintf("CBin %s %d %d", binCoq[op.K], op.H, op.G), "VUnit"
			case "cartesian":
				got := sets.CartesianProduct(hs[op.H], hs[op.G])
				a, b := refs[op.H], refs[op.G]
				if len(got) != len(a)*len(b) {
					fail(i, op, "CartesianProduct has the wrong number of pairs", fmt.Sprintf("%d pairs for %v x %v", len(got), sorted(a), sorted(b)))
				}
				seen := map[[2]int]bool{}
				for _, p := range got {
					if !a[p.A] || !b[p.B] {
						fail(i, op, "CartesianProduct yields a pair outside AxB", fmt.Sprintf("(%d,%d) for %v x %v", p.A, p.B, sorted(a), sorted(b)))
					}
					if seen[[2]int{p.A, p.B}] {
						fail(i, op, "CartesianProduct yields a pair twice", fmt.Sprintf("(%d,%d)", p.A, p.B))
					}
					seen[[2]int{p.A, p.B}] = true
				}
				term = "-"
				if emit {
					term, obs = fmt.Sprintf("CCartesian %d %d", op.H, op.G), pairsTerm(got)
				}
			default:
				fail(i, op, "malformed case", "unknown call")
			}
		})
		if op.Main {
			for l := range labels {
				switch l {
				case "Range.promote", "miss.store", "expunge.cas", "Load.lock", "LoadOrStore.lock", "LoadAndDelete.lock":
					c.Count("main_path_" + l)
				}
			}
			labels = nil
		}
		if kind != "" {
			fail(i, op, "panic", kind)
			return
		}
		if term == "" {
			return
		}
		if emit {
			paths := "(-1)"
			if recording {
				paths = strconv.Itoa(mask)
				pathsCompared++
				for b := 0; b < 3; b++ {
					if mask>>b&1 == 1 {
						pathBits[b]++
					}
				}
			}
			recording = false
			terms = append(terms, "("+term+", "+obs+", "+paths+")")
			if extra != "" {
				terms = append(terms, extra)
			}
		}
	}
	if nontrivial {
		c.Nontrivial()
	}
	c.CountN("calls", len(ops))
	if cs.Emit {
		c.Emit(fmt.Sprintf("Case %s %s", core.ZList(sorted(univ)), core.List(terms)))
	}
}
