// Package c07: slices.Sorted stays sorted and is an exact multiset.
package c07

import (
	"encoding/json"
	"fmt"
	"regexp"
	"strconv"

	"gopkg.in/typ.v4/slices"
	"verif/harness/core"
)

type Op struct {
	K string `json:"k"` // Add Remove RemoveAt Index Contains Get Len String
	A int    `json:"a"`
}

type Case struct {
	Order string `json:"order"` // Ordered (NewSortedOrdered) | Nat | Rev | Key (NewSorted with a less function) | Zero (var s Sorted[int], Init unused)
	Init  []int  `json:"init"`
	Ops   []Op   `json:"ops"`
}

func init() {
	core.Register(&core.Prop{ID: "C07", Module: "Slices.SortedCheck", Run: run, Replay: replay})
}

func replay(c *core.Ctx, raw json.RawMessage) error {
	var cs Case
	if err := json.Unmarshal(raw, &cs); err != nil {
		return err
	}
	exec(c, cs)
	return nil
}

var orders = []string{"Ordered", "Nat", "Rev", "Key"}

func lessOf(order string) func(a, b int) bool {
	switch order {
	case "Rev":
		return func(a, b int) bool { return b < a }
	case "Key":
		return func(a, b int) bool { return a>>2 < b>>2 } // key only: 4 values per key, ties
	}
	return func(a, b int) bool { return a < b }
}

// total reports whether the order is a strict total order consistent with ==.
func total(order string) bool { return order != "Key" }

// all slices over vals of length <= maxLen
func allSlices(vals []int, maxLen int) [][]int {
	out := [][]int{{}}
	prev := [][]int{{}}
	for l := 1; l <= maxLen; l++ {
		var next [][]int
		for _, p := range prev {
			for _, v := range vals {
				next = append(next, append(append([]int{}, p...), v))
			}
		}
		out = append(out, next...)
		prev = next
	}
	return out
}

func smallOps(vals []int, maxLen int) []Op {
	var ops []Op
	for _, v := range vals {
		for _, k := range []string{"Add", "Remove", "Index", "Contains"} {
			ops = append(ops, Op{k, v})
		}
	}
	for i := -1; i <= maxLen+1; i++ {
		ops = append(ops, Op{"Get", i}, Op{"RemoveAt", i})
	}
	return ops
}

func run(c *core.Ctx) {
	// exhaustive small scope: every initial slice over 3 values (4 with an absent one for the
	// arguments) of length <= L, every single operation, then every pair of operations on the
	// shorter ones; for each of the four constructions
	L := c.N(3, 4, 4)
	L2 := c.N(1, 2, 4)
	for _, order := range orders {
		vals, args := []int{0, 1, 2}, []int{0, 1, 2, 3}
		if order == "Key" {
			vals, args = []int{1, 2, 5}, []int{0, 1, 2, 5, 9} // 1~2 tie (key 0), 0 ties with both but is absent, 5 alone, 9 absent
		}
		for _, init := range allSlices(vals, L) {
			ops := smallOps(args, len(init)+1)
			for _, o := range ops {
				exec(c, Case{order, init, []Op{o, {"String", 0}}})
			}
			if len(init) <= L2 {
				for _, o1 := range ops {
					for _, o2 := range ops {
						exec(c, Case{order, init, []Op{o1, o2}})
					}
				}
			}
		}
	}
	// the zero value: every single operation (count-only, see execZero)
	zops := []Op{{"Add", 0}, {"Remove", 0}, {"Index", 0}, {"Contains", 0}, {"Get", -1}, {"Get", 0}, {"Get", 1}, {"RemoveAt", 0}, {"Len", 0}, {"String", 0}}
	for _, o1 := range zops {
		exec(c, Case{"Zero", nil, []Op{o1}})
	}
	c.Exhaustive = true
	c.Note(fmt.Sprintf("exhaustive: 4 constructions x all initial slices over 3 values of length <= %d x every single operation "+
		"(Add/Remove/Index/Contains of 4-5 values incl. absent ones, Get/RemoveAt of every index in -1..len+2), "+
		"and every pair of operations for initial length <= %d; plus random", L, L2))

	// random: initial slices of 0..40 values with duplicates, up to 30 operations,
	// 30% absent values, 10% out-of-range indices
	for n := c.N(2500, 60000, 30000); n > 0; n-- {
		order := orders[c.Rng.Intn(len(orders))]
		span := []int{3, 8, 20, 60}[c.Rng.Intn(4)]
		init := c.Rng.Ints(c.Rng.Size(40), -span, span)
		ops := genOps(c, init, span, c.Rng.Size(30))
		exec(c, Case{order, init, ops})
	}
	large(c)
}

// genOps draws nops operations for an object built from init: 30% of the value arguments are not
// taken from the (shadowed) contents, 10% of the index arguments come from -3..len+3.
func genOps(c *core.Ctx, init []int, span, nops int) []Op {
	cur := append([]int{}, init...) // rough shadow of the contents, only to pick present values
	var ops []Op
	for i := 0; i < nops; i++ {
		val := func() int {
			if len(cur) > 0 && !c.Rng.Chance(30) {
				return cur[c.Rng.Intn(len(cur))]
			}
			return c.Rng.Range(-span-2, span+2)
		}
		idx := func() int {
			if len(cur) > 0 && !c.Rng.Chance(10) {
				return c.Rng.Intn(len(cur))
			}
			return c.Rng.Range(-3, len(cur)+3)
		}
		switch k := c.Rng.Intn(20); {
		case k < 6:
			v := val()
			ops = append(ops, Op{"Add", v})
			cur = append(cur, v)
		case k < 10:
			v := val()
			ops = append(ops, Op{"Remove", v})
			for j, x := range cur {
				if x == v {
					cur = append(cur[:j], cur[j+1:]...)
					break
				}
			}
		case k < 12:
			j := idx()
			ops = append(ops, Op{"RemoveAt", j})
			if j >= 0 && j < len(cur) {
				cur = cur[:len(cur)-1] // which value leaves is unknown here; the shadow is only a hint
			}
		case k < 14:
			ops = append(ops, Op{"Index", val()})
		case k < 16:
			ops = append(ops, Op{"Contains", val()})
		case k < 18:
			ops = append(ops, Op{"Get", idx()})
		case k < 19:
			ops = append(ops, Op{"Len", 0})
		default:
			ops = append(ops, Op{"String", 0})
		}
	}
	return ops
}

// sizes around the powers of two (algorithm and growth thresholds of the standard library, or of a
// replacement, sit there)
var bigSizes = []int{12, 13, 15, 16, 17, 31, 32, 33, 63, 64, 65, 127, 128, 129, 255, 256, 257, 511, 512, 513,
	1023, 1024, 1025, 2047, 2048, 2049, 4095, 4096, 4097}

// noEmit: the current case is checked by the Go oracle only (too large for the model in the quick tier).
var noEmit bool

// large runs the oracle-heavy stream: objects of 12..4097 elements with long runs of duplicates
// (and of order-equivalent values for the key-only order), random operations, and a grow-then-shrink
// pattern that crosses each size from just below. Only the smaller ones also go to the model.
func large(c *core.Ctx) {
	for _, t := range bigSizes {
		for _, order := range orders {
			for mode := 0; mode < 4; mode++ {
				span := []int{0, 2, t/8 + 1, 4 * t}[mode]
				toModel := t <= 65 || (t <= 129 && order == "Key" && mode == 1)
				// (a) random operations on an object of exactly t elements
				init := c.Rng.Ints(t, -span, span)
				noEmit = !toModel
				exec(c, Case{order, init, genOps(c, init, span, 24)})
				// (b) grow across t from just below (both ends, duplicates, the middle), query, shrink back
				init = c.Rng.Ints(t-3, -span, span)
				adds := []int{-span - 1, span + 1, init[c.Rng.Intn(len(init))], c.Rng.Range(-span, span), -span - 1, span + 1}
				var ops []Op
				for _, v := range adds {
					ops = append(ops, Op{"Add", v})
				}
				ops = append(ops, Op{"Len", 0}, Op{"Get", 0}, Op{"Get", t + 2}, Op{"Get", t + 3})
				for _, v := range adds[:4] {
					ops = append(ops, Op{"Index", v}, Op{"Contains", v})
				}
				ops = append(ops, Op{"Index", span + 2}, Op{"Remove", span + 2}, Op{"RemoveAt", t + 3}, Op{"RemoveAt", t + 2}, Op{"RemoveAt", 0})
				for _, v := range adds[1:] {
					ops = append(ops, Op{"Remove", v})
				}
				ops = append(ops, Op{"RemoveAt", (t - 3) / 2}, Op{"Len", 0})
				exec(c, Case{order, init, ops})
				noEmit = false
			}
		}
	}
	c.Note(fmt.Sprintf("large: 4 constructions x %d sizes 12..4097 around the powers of two x 4 duplicate densities "+
		"(all equal, 5 values, ~n/8 values, mostly distinct) x {24 random operations, grow across the size from 3 below then shrink}; "+
		"checked by the direct oracle, those up to 65 elements (and a few up to 129) also by the model", len(bigSizes)))
}

// fail records an oracle failure; the detail is clipped (cases have up to 4097 elements; the full
// input is in the replay case).
func fail(c *core.Ctx, what, detail string) {
	if len(detail) > 700 {
		detail = detail[:700] + " ..."
	}
	c.Fail(what, detail)
}

var intRe = regexp.MustCompile(`-?[0-9]+`)

// parse extracts the integers shown by String(), whatever the punctuation around them. Only the
// String operation uses it; the state of the object is observed through Len and Get.
func parse(s string) []int {
	out := []int{}
	for _, f := range intRe.FindAllString(s, -1) {
		n, err := strconv.Atoi(f)
		if err != nil {
			continue
		}
		out = append(out, n)
	}
	return out
}

// contents observes the object through its specified interface: Len() and Get(0..Len-1).
func contents(c *core.Ctx, s *slices.Sorted[int], when string) []int {
	out := []int{}
	n := s.Len()
	if kind := core.Try(func() {
		for i := 0; i < n; i++ {
			out = append(out, s.Get(i))
		}
	}); kind != "" {
		fail(c, "Get panics for a position inside [0,Len)", fmt.Sprintf("%s: Len %d, Get(%d): %s", when, n, len(out), kind))
	}
	return out
}

func firstIndex(s []int, v int) int {
	for i, x := range s {
		if x == v {
			return i
		}
	}
	return -1
}

func without(s []int, i int) []int {
	out := append([]int{}, s[:i]...)
	return append(out, s[i+1:]...)
}

const sentinel = 777777

func exec(c *core.Ctx, cs Case) {
	c.Begin(cs)
	c.Count("order_" + cs.Order)
	if cs.Order == "Zero" {
		execZero(c, cs)
		return
	}
	less := lessOf(cs.Order)
	tot := total(cs.Order)
	bag := map[int]int{}
	for _, v := range cs.Init {
		bag[v]++
	}
	dups := len(bag) < len(cs.Init)

	// checks that hold in every state: ascending under less, exact multiset
	check := func(when string, cont []int) {
		for i := 0; i+1 < len(cont); i++ {
			if less(cont[i+1], cont[i]) {
				fail(c, "not sorted "+when, fmt.Sprintf("contents %v: element %d (%d) is less than element %d (%d)", cont, i+1, cont[i+1], i, cont[i]))
				break
			}
		}
		got := map[int]int{}
		for _, v := range cont {
			got[v]++
		}
		ok := len(cont) == func() int {
			n := 0
			for _, k := range bag {
				n += k
			}
			return n
		}()
		for v, k := range bag {
			if got[v] != k {
				ok = false
			}
		}
		if !ok {
			fail(c, "multiset differs "+when, fmt.Sprintf("contents %v, expected multiset (value:count) %v", cont, bag))
		}
	}

	// construction; the caller's slice must be neither modified nor aliased
	input := append([]int{}, cs.Init...)
	var s slices.Sorted[int]
	if kind := core.Try(func() {
		if cs.Order == "Ordered" {
			s = slices.NewSortedOrdered(input...)
		} else {
			s = slices.NewSorted(input, less)
		}
	}); kind != "" {
		fail(c, "constructor panics", kind)
		return
	}
	if !core.Eq(input, cs.Init) {
		fail(c, "NewSorted modified the caller's slice", fmt.Sprint(input))
	}
	start := contents(c, &s, "after construction")
	for i := range input {
		input[i] = sentinel
	}
	if now := contents(c, &s, "after construction"); !core.Eq(now, start) {
		fail(c, "Sorted aliases the caller's slice", fmt.Sprintf("after overwriting the input the contents are %v, were %v", now, start))
	}
	check("after construction", start)

	cont := start
	var rets []string
	interesting := false
	for n, o := range cs.Ops {
		when := fmt.Sprintf("after op %d %s(%d)", n, o.K, o.A)
		old := cont
		var ri int
		var rb bool
		var rs string
		kind := core.Try(func() {
			switch o.K {
			case "Add":
				ri = s.Add(o.A)
			case "Remove":
				ri = s.Remove(o.A)
			case "RemoveAt":
				s.RemoveAt(o.A)
			case "Index":
				ri = s.Index(o.A)
			case "Contains":
				rb = s.Contains(o.A)
			case "Get":
				ri = s.Get(o.A)
			case "Len":
				ri = s.Len()
			case "String":
				rs = s.String()
			}
		})
		cont = contents(c, &s, when)
		inRange := o.A >= 0 && o.A < len(old)
		if kind != "" {
			c.Count("panic_" + o.K)
			rets = append(rets, "RPanic "+kind)
			if !((o.K == "Get" || o.K == "RemoveAt") && !inRange) {
				fail(c, o.K+" panics", fmt.Sprintf("%s on contents %v: %s", when, old, kind))
			}
			// which value the call panics with (its kind, its message) is not part of the property
			if !core.Eq(cont, old) {
				fail(c, "panicking "+o.K+" changed the contents", fmt.Sprintf("%v -> %v", old, cont))
			}
			continue
		}
		switch o.K {
		case "Add":
			c.Count("op_Add")
			rets = append(rets, "RInt "+core.Z(ri))
			if bag[o.A] > 0 {
				dups = true
			}
			bag[o.A]++
			if ri < 0 || ri > len(old) {
				fail(c, "Add returned an impossible position", fmt.Sprintf("%s: %d, contents %v", when, ri, old))
				break
			}
			want := append(append(append([]int{}, old[:ri]...), o.A), old[ri:]...)
			if !core.Eq(cont, want) {
				fail(c, "Add: value does not sit at the returned position", fmt.Sprintf("%s returned %d: contents %v -> %v", when, ri, old, cont))
			}
			if tot && ((ri > 0 && !less(old[ri-1], o.A)) || (ri < len(old) && less(old[ri], o.A))) {
				fail(c, "Add: not the lower-bound position", fmt.Sprintf("%s returned %d: contents %v", when, ri, old))
			}
		case "Remove":
			rets = append(rets, "RInt "+core.Z(ri))
			fi := firstIndex(old, o.A)
			if ri == -1 {
				c.Count("op_Remove_absent")
				interesting = true
				if !core.Eq(cont, old) {
					fail(c, "Remove returned -1 but changed the contents", fmt.Sprintf("%s: %v -> %v", when, old, cont))
				}
				if tot && fi != -1 {
					fail(c, "Remove returned -1 for a present value", fmt.Sprintf("%s: contents %v", when, old))
				}
				break
			}
			c.Count("op_Remove_present")
			interesting = true
			if ri < 0 || ri >= len(old) || old[ri] != o.A {
				fail(c, "Remove returned a position that does not hold the value", fmt.Sprintf("%s returned %d: contents %v", when, ri, old))
				break
			}
			bag[o.A]--
			if !core.Eq(cont, without(old, ri)) {
				fail(c, "Remove did not delete exactly the returned position", fmt.Sprintf("%s returned %d: %v -> %v", when, ri, old, cont))
			}
			if tot && ri != fi {
				fail(c, "Remove: not the first position of the value", fmt.Sprintf("%s returned %d: contents %v", when, ri, old))
			}
		case "RemoveAt":
			rets = append(rets, "RUnit")
			if !inRange {
				fail(c, "RemoveAt out of range did not panic", fmt.Sprintf("%s: contents %v", when, old))
				break
			}
			c.Count("op_RemoveAt")
			interesting = true
			bag[old[o.A]]--
			if !core.Eq(cont, without(old, o.A)) {
				fail(c, "RemoveAt did not delete exactly the given position", fmt.Sprintf("%s: %v -> %v", when, old, cont))
			}
		case "Index":
			c.Count("op_Index")
			rets = append(rets, "RInt "+core.Z(ri))
			if ri != -1 && (ri < 0 || ri >= len(old) || old[ri] != o.A) {
				fail(c, "Index returned a position that does not hold the value", fmt.Sprintf("%s returned %d: contents %v", when, ri, old))
			}
			if tot && ri != firstIndex(old, o.A) {
				fail(c, "Index is not the first position of the value (or -1)", fmt.Sprintf("%s returned %d: contents %v", when, ri, old))
			}
		case "Contains":
			c.Count("op_Contains")
			rets = append(rets, "RBool "+core.Bool(rb))
			if rb != (s.Index(o.A) != -1) {
				fail(c, "Contains disagrees with Index", fmt.Sprintf("%s: Contains %v, Index %d, contents %v", when, rb, s.Index(o.A), old))
			}
			if tot && rb != (firstIndex(old, o.A) != -1) {
				fail(c, "Contains is wrong", fmt.Sprintf("%s returned %v: contents %v", when, rb, old))
			}
		case "Get":
			rets = append(rets, "RVal "+core.Z(ri))
			if !inRange {
				fail(c, "Get out of range did not panic", fmt.Sprintf("%s: contents %v", when, old))
				break
			}
			c.Count("op_Get")
			if ri != old[o.A] {
				fail(c, "Get returned another position's value", fmt.Sprintf("%s returned %d: contents %v", when, ri, old))
			}
		case "Len":
			rets = append(rets, "RInt "+core.Z(ri))
			if ri != len(old) {
				fail(c, "Len is wrong", fmt.Sprintf("%s returned %d: contents %v", when, ri, old))
			}
		case "String":
			// only the numbers String() shows are looked at, not its punctuation
			shown := parse(rs)
			rets = append(rets, "RList "+core.ZList(shown))
			if !core.Eq(shown, cont) {
				fail(c, "String() does not show the contents", fmt.Sprintf("%s: %q, contents %v", when, rs, cont))
			}
		}
		if o.K != "Add" && o.K != "Remove" && o.K != "RemoveAt" && !core.Eq(cont, old) {
			fail(c, o.K+" changed the contents", fmt.Sprintf("%s: %v -> %v", when, old, cont))
		}
		check(when, cont)
		// later Adds must not write through to the caller's slice either
		for _, v := range input {
			if v != sentinel {
				fail(c, "the caller's slice was written to", fmt.Sprintf("%s: %v", when, input))
				break
			}
		}
	}
	final := cont
	if dups && interesting {
		c.Nontrivial() // duplicates present and a value taken out (or a Remove of an absent value)
	}

	ops := make([]string, len(cs.Ops))
	for i, o := range cs.Ops {
		switch o.K {
		case "Len", "String":
			ops[i] = "O" + o.K
		default:
			ops[i] = "O" + o.K + " " + core.Z(o.A)
		}
	}
	if noEmit {
		return
	}
	c.Emit(fmt.Sprintf("Case O%s %s %s %s %s %s", cs.Order, core.ZList(cs.Init), core.List(ops),
		core.ZList(start), core.List(rets), core.ZList(final)))
}

// execZero drives the zero value (var s Sorted[int]; no less function). The property starts from
// NewSorted/NewSortedOrdered, so nothing here is judged: the case is run, what the Gallina
// transcription says for the zero value (Sorted.v with s_less = None: Add/Remove/Index/Contains
// panic in search, Get/RemoveAt panic on the empty slice, Len is 0, String shows nothing) is
// written out here in Go, and agreement is only counted (zero_value_as_model /
// zero_value_differs_from_model). Nothing is emitted to check_case and nothing can fail.
func execZero(c *core.Ctx, cs Case) {
	var s slices.Sorted[int]
	agree := true
	for _, o := range cs.Ops {
		var ri int
		var rs string
		kind := core.Try(func() {
			switch o.K {
			case "Add":
				ri = s.Add(o.A)
			case "Remove":
				ri = s.Remove(o.A)
			case "RemoveAt":
				s.RemoveAt(o.A)
			case "Index":
				ri = s.Index(o.A)
			case "Contains":
				_ = s.Contains(o.A)
			case "Get":
				ri = s.Get(o.A)
			case "Len":
				ri = s.Len()
			case "String":
				rs = s.String()
			}
		})
		switch o.K {
		case "Len":
			agree = agree && kind == "" && ri == 0
		case "String":
			agree = agree && kind == "" && len(parse(rs)) == 0
		default: // the model panics
			agree = agree && kind != ""
		}
		if kind != "" {
			c.Count("zero_panic_" + o.K)
		}
	}
	if core.Try(func() { agree = agree && s.Len() == 0 }) != "" {
		agree = false
	}
	if agree {
		c.Count("zero_value_as_model")
	} else {
		c.Count("zero_value_differs_from_model")
	}
}
