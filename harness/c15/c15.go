// Package c15: the sorting, shuffling and binary-search helpers of slices/sort.go.
package c15

import (
	"encoding/json"
	"fmt"
	"math/rand"
	"sort"
	"strings"

	"gopkg.in/typ.v4/slices"
	"verif/harness/core"
)

type P struct {
	K int `json:"k"`
	T int `json:"t"`
}

type Case struct {
	Fn     string `json:"fn"`             // Sort SortDesc SortFunc SortDescFunc SortStableFunc SortStableDescFunc BinarySearch BinarySearchFunc BinarySearchKey Shuffle ShuffleRand
	Less   string `json:"less,omitempty"` // Key | Lex (pairs)
	Ints   []int  `json:"ints,omitempty"`
	Pairs  []P    `json:"pairs,omitempty"`
	Target int    `json:"target,omitempty"`
	Seed   int64  `json:"seed,omitempty"`
}

func init() {
	core.Register(&core.Prop{ID: "C15", Module: "Slices.SortCheck", Run: run, Replay: replay})
}

func replay(c *core.Ctx, raw json.RawMessage) error {
	var cs Case
	if err := json.Unmarshal(raw, &cs); err != nil {
		return err
	}
	exec(c, cs)
	return nil
}

func lessOf(name string) func(a, b P) bool {
	if name == "Lex" {
		return func(a, b P) bool { return a.K < b.K || (a.K == b.K && a.T < b.T) }
	}
	return func(a, b P) bool { return a.K < b.K } // key only: pairs with equal keys are indistinguishable
}

var intSorts = []string{"Sort", "SortDesc"}
var pairSorts = []string{"SortFunc", "SortDescFunc", "SortStableFunc", "SortStableDescFunc"}

// tagged turns keys into pairs whose tag is the input position.
func tagged(keys []int) []P {
	ps := make([]P, len(keys))
	for i, k := range keys {
		ps[i] = P{k, i}
	}
	return ps
}

func allSlices(nvals, maxLen int) [][]int {
	out := [][]int{{}}
	prev := [][]int{{}}
	for l := 1; l <= maxLen; l++ {
		var next [][]int
		for _, p := range prev {
			for v := 0; v < nvals; v++ {
				next = append(next, append(append([]int{}, p...), v))
			}
		}
		out = append(out, next...)
		prev = next
	}
	return out
}

// sorted ascending slices over 0,2,4,... (so that odd targets are absent): all multiplicity patterns
func allSorted(nvals, maxLen int) [][]int {
	var out [][]int
	var rec func(cur []int, from int)
	rec = func(cur []int, from int) {
		out = append(out, append([]int{}, cur...))
		if len(cur) == maxLen {
			return
		}
		for v := from; v < nvals; v++ {
			rec(append(cur, 2*v), v)
		}
	}
	rec(nil, 0)
	return out
}

func run(c *core.Ctx) {
	// exhaustive small scope
	L := c.N(5, 6, 6)
	for _, in := range allSlices(3, L) { // every duplicate pattern over 3 keys
		for _, fn := range intSorts {
			exec(c, Case{Fn: fn, Ints: in})
		}
		for _, fn := range pairSorts {
			exec(c, Case{Fn: fn, Less: "Key", Pairs: tagged(in)})
		}
	}
	LS := c.N(5, 6, 6)
	for _, in := range allSorted(3, LS) {
		for t := -1; t <= 5; t++ { // below, present, absent between, above
			exec(c, Case{Fn: "BinarySearch", Ints: in, Target: t})
			exec(c, Case{Fn: "BinarySearchFunc", Ints: in, Target: t})
			exec(c, Case{Fn: "BinarySearchKey", Pairs: tagged(in), Target: t})
		}
	}
	for n := 0; n <= c.N(8, 12, 12); n++ {
		for seed := int64(1); seed <= 6; seed++ {
			exec(c, Case{Fn: "ShuffleRand", Ints: iota(n), Seed: seed})
			if seed == 1 { // the global generator is not reseeded: the seed plays no role, one case per input
				exec(c, Case{Fn: "Shuffle", Ints: iota(n)})
			}
		}
	}
	c.Exhaustive = true
	c.Note(fmt.Sprintf("exhaustive: every slice over 3 keys of length <= %d x 6 sort functions (pairs tagged with their input position, key-only less); "+
		"every ascending slice over {0,2,4} of length <= %d x targets -1..5 x BinarySearch/BinarySearchFunc(ints)/BinarySearchFunc(pairs); "+
		"Shuffle/ShuffleRand for every length <= %d x 6 seeds; plus random", L, LS, c.N(8, 12, 12)))

	// random: longer slices (beyond the standard library's insertion-sort threshold of 12), few keys
	for i := c.N(1500, 40000, 20000); i > 0; i-- {
		n := c.Rng.Size(c.N(40, 120, 200))
		span := []int{1, 2, 4, 10, 50}[c.Rng.Intn(5)]
		keys := c.Rng.Ints(n, -span, span)
		switch k := c.Rng.Intn(10); {
		case k < 2:
			exec(c, Case{Fn: intSorts[c.Rng.Intn(2)], Ints: keys})
		case k < 6:
			less := "Key"
			if c.Rng.Chance(25) {
				less = "Lex"
			}
			ps := tagged(keys)
			if c.Rng.Chance(30) { // tags not in input order
				for j := range ps {
					ps[j].T = c.Rng.Range(0, 3)
				}
			}
			exec(c, Case{Fn: pairSorts[c.Rng.Intn(4)], Less: less, Pairs: ps})
		case k < 9:
			sort.Ints(keys) // the standard library, not the code under test
			var t int
			switch c.Rng.Intn(4) {
			case 0:
				t = c.Rng.Range(-span-3, span+3)
			case 1:
				if n > 0 {
					t = keys[c.Rng.Intn(n)] // present, often inside a run of duplicates
				}
			case 2:
				t = -span - 1 - c.Rng.Intn(3) // below all
			default:
				t = span + 1 + c.Rng.Intn(3) // above all
			}
			fn := []string{"BinarySearch", "BinarySearchFunc", "BinarySearchKey"}[c.Rng.Intn(3)]
			if fn == "BinarySearchKey" {
				exec(c, Case{Fn: fn, Pairs: tagged(keys), Target: t})
			} else {
				exec(c, Case{Fn: fn, Ints: keys, Target: t})
			}
		default:
			fn := []string{"Shuffle", "ShuffleRand"}[c.Rng.Intn(2)]
			seed := int64(c.Rng.Intn(1 << 30))
			if fn == "Shuffle" {
				seed = 0 // unused by the global generator
			}
			exec(c, Case{Fn: fn, Ints: iota(n), Seed: seed})
		}
	}
	large(c)
}

// sizes around the powers of two and the standard library's insertion-sort threshold (12): a sort,
// a stable sort or a search that switches algorithm with the length switches there
var bigSizes = []int{11, 12, 13, 15, 16, 17, 31, 32, 33, 63, 64, 65, 127, 128, 129, 255, 256, 257, 511, 512, 513,
	1023, 1024, 1025, 2047, 2048, 2049, 4095, 4096, 4097}

// noEmit: the current case is checked by the Go oracle only (too large for the model in the quick tier).
var noEmit bool

func emit(c *core.Ctx, term string) {
	if !noEmit {
		c.Emit(term)
	}
}

// large runs the oracle-heavy stream: every function on lengths 11..4097 with ties spread over the
// whole slice at several densities. Only the smaller cases also go to the model.
func large(c *core.Ctx) {
	for _, t := range bigSizes {
		for mode := 0; mode < 6; mode++ {
			var keys []int
			switch mode {
			case 0:
				keys = make([]int, t) // all equal
			case 1:
				keys = c.Rng.Ints(t, 0, 1)
			case 2:
				keys = c.Rng.Ints(t, -3, 3)
			case 3:
				keys = c.Rng.Ints(t, 0, t/8+1)
			case 4:
				keys = c.Rng.Ints(t, -4*t, 4*t)
			default: // a fixed interleaving of 5 classes, descending inside
				keys = make([]int, t)
				for i := range keys {
					keys[i] = (t - i) * 7 % 5
				}
			}
			small := t <= 33 || (t <= 65 && (mode == 1 || mode == 5))
			for _, fn := range intSorts {
				noEmit = !small
				exec(c, Case{Fn: fn, Ints: keys})
			}
			for _, fn := range pairSorts {
				noEmit = !small && !(t <= 129 && mode == 1 && strings.Contains(fn, "Stable"))
				exec(c, Case{Fn: fn, Less: "Key", Pairs: tagged(keys)})
			}
			if mode == 2 { // lexicographic (total) order on shuffled tags
				ps := tagged(keys)
				for j := range ps {
					ps[j].T = c.Rng.Range(0, 3)
				}
				for _, fn := range pairSorts {
					noEmit = t > 33
					exec(c, Case{Fn: fn, Less: "Lex", Pairs: ps})
				}
			}
			// searches: targets below / first / inside / last / above / probably absent
			sorted := append([]int{}, keys...)
			sort.Ints(sorted)
			for k, target := range []int{sorted[0] - 1, sorted[0], sorted[t/2], sorted[t-1], sorted[t-1] + 1, sorted[t/3] + 1, sorted[(2*t)/3]} {
				for f, fn := range []string{"BinarySearch", "BinarySearchFunc", "BinarySearchKey"} {
					noEmit = t > 129 && !(k == 2 && f == 0 && mode == 3 && (t <= 1025 || t == 4097))
					if fn == "BinarySearchKey" {
						exec(c, Case{Fn: fn, Pairs: tagged(sorted), Target: target})
					} else {
						exec(c, Case{Fn: fn, Ints: sorted, Target: target})
					}
				}
			}
		}
		for seed := int64(1); seed <= 3; seed++ {
			noEmit = t > 129
			exec(c, Case{Fn: "ShuffleRand", Ints: iota(t), Seed: seed + int64(t)})
			if seed == 1 {
				exec(c, Case{Fn: "Shuffle", Ints: iota(t)})
			}
		}
	}
	noEmit = false
	c.Note(fmt.Sprintf("large: %d lengths 11..4097 around the powers of two x 6 tie patterns (all equal, 2 keys, 7 keys, ~n/8 keys, "+
		"mostly distinct, fixed interleaving) x 6 sort functions (+ lexicographic less), 7 targets x 3 search functions, "+
		"3 seeds x ShuffleRand, Shuffle once; checked by the direct oracle, the smaller ones (sorts <= 33 and a sample up to 129, searches and shuffles <= 129, "+
		"a sample of searches up to 4097) also by the model", len(bigSizes)))
}

// fail records an oracle failure; the detail is clipped (cases have up to 4097 elements; the full
// input is in the replay case).
func fail(c *core.Ctx, what, detail string) {
	if len(detail) > 700 {
		detail = detail[:700] + " ..."
	}
	c.Fail(what, detail)
}

func iota(n int) []int {
	s := make([]int, n)
	for i := range s {
		s[i] = i
	}
	return s
}

func pairsTerm(ps []P) string {
	parts := make([]string, len(ps))
	for i, p := range ps {
		parts[i] = core.Pair(core.Z(p.K), core.Z(p.T))
	}
	return core.List(parts)
}

func sameMultiset(a, b []P) bool {
	if len(a) != len(b) {
		return false
	}
	m := map[P]int{}
	for _, p := range a {
		m[p]++
	}
	for _, p := range b {
		m[p]--
		if m[p] < 0 {
			return false
		}
	}
	return true
}

// refStable is the reference stable sort (insertion sort written here, not the standard library).
func refStable(in []P, less func(a, b P) bool) []P {
	out := []P{}
	for _, p := range in {
		j := len(out)
		for j > 0 && less(p, out[j-1]) {
			j--
		}
		out = append(out, P{})
		copy(out[j+1:], out[j:])
		out[j] = p
	}
	return out
}

func eqPairs(a, b []P) bool {
	if len(a) != len(b) {
		return false
	}
	for i := range a {
		if a[i] != b[i] {
			return false
		}
	}
	return true
}

func exec(c *core.Ctx, cs Case) {
	c.Begin(cs)
	c.Count("fn_" + cs.Fn)
	switch {
	case strings.HasPrefix(cs.Fn, "Sort"):
		execSort(c, cs)
	case strings.HasPrefix(cs.Fn, "BinarySearch"):
		execSearch(c, cs)
	default:
		execShuffle(c, cs)
	}
}

func execSort(c *core.Ctx, cs Case) {
	var in, out []P
	less := lessOf(cs.Less)
	isInt := cs.Fn == "Sort" || cs.Fn == "SortDesc"
	var kind string
	if isInt {
		for _, v := range cs.Ints {
			in = append(in, P{v, 0})
		}
		s := append([]int{}, cs.Ints...)
		kind = core.Try(func() {
			if cs.Fn == "Sort" {
				slices.Sort(s)
			} else {
				slices.SortDesc(s)
			}
		})
		for _, v := range s {
			out = append(out, P{v, 0})
		}
		less = lessOf("Key")
	} else {
		in = cs.Pairs
		out = append([]P{}, cs.Pairs...)
		kind = core.Try(func() {
			switch cs.Fn {
			case "SortFunc":
				slices.SortFunc(out, less)
			case "SortDescFunc":
				slices.SortDescFunc(out, less)
			case "SortStableFunc":
				slices.SortStableFunc(out, less)
			case "SortStableDescFunc":
				slices.SortStableDescFunc(out, less)
			}
		})
	}
	if kind != "" {
		fail(c, cs.Fn+" panics", kind)
		return
	}
	desc := strings.Contains(cs.Fn, "Desc")
	ties := false
	for i := 0; i+1 < len(out); i++ {
		a, b := out[i], out[i+1]
		if !less(a, b) && !less(b, a) && a != b {
			ties = true
		}
		if (!desc && less(b, a)) || (desc && less(a, b)) {
			fail(c, cs.Fn+": result not ordered", fmt.Sprintf("input %v -> %v: elements %d,%d out of order", in, out, i, i+1))
			break
		}
	}
	if !sameMultiset(in, out) {
		fail(c, cs.Fn+": result is not a permutation of the input", fmt.Sprintf("input %v -> %v", in, out))
	}
	if strings.Contains(cs.Fn, "Stable") {
		want := refStable(in, less)
		if desc {
			want = refStable(in, func(a, b P) bool { return less(b, a) })
		}
		if !eqPairs(out, want) {
			fail(c, cs.Fn+": not stable", fmt.Sprintf("input %v -> %v, the stable result is %v", in, out, want))
		}
		if ties && len(in) > 12 {
			c.Nontrivial()
		}
	} else if len(in) > 1 {
		c.Nontrivial()
	}
	if ties {
		c.Count("with_ties")
	}
	if len(in) > 12 {
		c.Count("longer_than_12")
	}
	lname := cs.Less
	if lname == "" {
		lname = "Key"
	}
	emit(c, fmt.Sprintf("CSort F%s L%s %s %s", cs.Fn, lname, pairsTerm(in), pairsTerm(out)))
}

func execSearch(c *core.Ctx, cs Case) {
	var got, n int
	var keys []int
	var kind string
	switch cs.Fn {
	case "BinarySearch":
		keys = cs.Ints
		kind = core.Try(func() { got = slices.BinarySearch(append([]int{}, cs.Ints...), cs.Target) })
	case "BinarySearchFunc":
		keys = cs.Ints
		kind = core.Try(func() {
			got = slices.BinarySearchFunc(append([]int{}, cs.Ints...), func(a int) bool { return a < cs.Target })
		})
	default:
		for _, p := range cs.Pairs {
			keys = append(keys, p.K)
		}
		kind = core.Try(func() {
			got = slices.BinarySearchFunc(append([]P{}, cs.Pairs...), func(a P) bool { return a.K < cs.Target })
		})
	}
	n = len(keys)
	if kind != "" {
		fail(c, cs.Fn+" panics", kind)
		return
	}
	want := n
	for i, k := range keys {
		if k >= cs.Target {
			want = i
			break
		}
	}
	present := want < n && keys[want] == cs.Target
	switch {
	case present && want+1 < n && keys[want+1] == cs.Target:
		c.Count("target_in_run_of_duplicates")
		c.Nontrivial()
	case present:
		c.Count("target_present")
		c.Nontrivial()
	case want == 0:
		c.Count("target_below_all")
	case want == n:
		c.Count("target_above_all")
	default:
		c.Count("target_absent_inside")
		c.Nontrivial()
	}
	if got != want {
		fail(c, cs.Fn+": not the smallest index whose element is not less than the target",
			fmt.Sprintf("keys %v target %d: returned %d, want %d", keys, cs.Target, got, want))
	}
	switch cs.Fn {
	case "BinarySearch":
		emit(c, fmt.Sprintf("CSearch false %s %s %s", core.ZList(cs.Ints), core.Z(cs.Target), core.Z(got)))
	case "BinarySearchFunc":
		emit(c, fmt.Sprintf("CSearch true %s %s %s", core.ZList(cs.Ints), core.Z(cs.Target), core.Z(got)))
	default:
		emit(c, fmt.Sprintf("CSearchKey %s %s %s", pairsTerm(cs.Pairs), core.Z(cs.Target), core.Z(got)))
	}
}

func execShuffle(c *core.Ctx, cs Case) {
	n := len(cs.Ints)
	global := cs.Fn == "Shuffle"
	out := append([]int{}, cs.Ints...)
	// a swap sequence of a real rand.Shuffle of this length, only to run the model on (its result is
	// not compared with the implementation's: the property does not say which permutation comes out)
	var swaps [][2]int
	rand.New(rand.NewSource(cs.Seed)).Shuffle(n, func(i, j int) { swaps = append(swaps, [2]int{i, j}) })
	var kind string
	if global {
		// the global generator, in whatever state it is: only "a permutation" is specified
		kind = core.Try(func() { slices.Shuffle(out) })
	} else {
		kind = core.Try(func() { slices.ShuffleRand(out, rand.New(rand.NewSource(cs.Seed))) })
	}
	if kind != "" {
		fail(c, cs.Fn+" panics", kind)
		return
	}
	seen := map[int]int{}
	for _, v := range cs.Ints {
		seen[v]++
	}
	ok := len(out) == n
	for _, v := range out {
		seen[v]--
		if seen[v] < 0 {
			ok = false
		}
	}
	if !ok {
		fail(c, cs.Fn+": result is not a permutation of the input", fmt.Sprintf("%v -> %v", cs.Ints, out))
	}
	if !global {
		// a deterministic function of the supplied generator: an equal generator (same seed) gives
		// the same result, whatever happened to the global generator in between
		rand.Int()
		again := append([]int{}, cs.Ints...)
		slices.ShuffleRand(again, rand.New(rand.NewSource(cs.Seed)))
		if !core.Eq(out, again) {
			fail(c, cs.Fn+": equal generators gave different results", fmt.Sprintf("%v vs %v", out, again))
		}
		// informational only: does it make exactly the swaps of one rand.Shuffle(len) call?
		ref := append([]int{}, cs.Ints...)
		for _, sw := range swaps {
			ref[sw[0]], ref[sw[1]] = ref[sw[1]], ref[sw[0]]
		}
		if core.Eq(ref, out) {
			c.Count("shufflerand_equals_one_rand_Shuffle_call")
		}
	}
	if n > 2 {
		c.Nontrivial()
	}
	parts := make([]string, len(swaps))
	for i, s := range swaps {
		parts[i] = core.Pair(core.Z(s[0]), core.Z(s[1]))
	}
	emit(c, fmt.Sprintf("CShuffle %s %s %s %s", core.Bool(global), core.ZList(cs.Ints), core.List(parts), core.ZList(out)))
}
