// Package c10: chans.PubSub delivers every event exactly once to every
// subscriber.
//
// A scenario is a handful of goroutines with fixed programs (setup, publisher,
// an optional Sub/Unsub/UnsubAll in the middle, an optional second publish, the
// final UnsubAll, one receiver per channel) that the harness releases in
// phases. The Go runtime owns the blocking, so a phase ends when the scenario
// is QUIESCENT: every goroutine of the process other than the controller is
// parked on a channel, a lock or a WaitGroup (read off runtime.Stack; goroutines
// sleeping or in a select with a timer are not quiescent). No wall-clock
// duration is ever asserted on.
//
// Every scenario runs in a worker SUBPROCESS (the harness binary re-executed
// with C10_CHILD set; scenarios arrive on stdin, one JSON line each, one at a
// time per worker), so a process-killing panic is an observation (exit status +
// stderr) attributed to exactly one scenario.
package c10

import (
	"bufio"
	"bytes"
	"encoding/json"
	"fmt"
	"io"
	"os"
	"os/exec"
	"runtime"
	"sort"
	"strings"
	"sync"
	"time"

	"gopkg.in/typ.v4/chans"
	"verif/harness/core"
)

const envChild = "C10_CHILD"

// KnownWhat is matched by /verif/known_findings.json.
const KnownWhat = "process panic: send on closed channel (async publish racing Unsub/UnsubAll)"

// StaleWhat is matched by /verif/known_findings.json (second known finding).
const StaleWhat = "process panic: send on closed channel (publish through a WithOnly view after Unsub/UnsubAll of its channel on the parent)"

// ViewUnsubWhat is matched by /verif/known_findings.json (third known finding).
const ViewUnsubWhat = "process panic: close of closed channel (Unsub/UnsubAll through a WithOnly view after Unsub/UnsubAll of its channel on the parent)"

// ParentStaleWhat, ParentUnsubStaleWhat are matched by /verif/known_findings.json (findings 4 and 5, the
// mirrored stale-list histories: the channel was removed THROUGH THE VIEW and the parent still lists it).
const ParentStaleWhat = "process panic: send on closed channel (publish on the parent after Unsub/UnsubAll of its channel through a WithOnly view)"
const ParentUnsubStaleWhat = "process panic: close of closed channel (Unsub/UnsubAll on the parent after Unsub/UnsubAll of its channel through a WithOnly view)"

const foreignCid = 99 // a channel no PubSub of the scenario ever listed

type Op struct {
	Op   string `json:"op"`            // pub1 pubs withonly sub subbuf unsub unsuball range
	W    string `json:"w,omitempty"`   // Async | Wait | Sync
	Obj  int    `json:"obj"`           // 0 = root, 1.. = views in creation order
	Sub  int    `json:"sub,omitempty"` // channel index in creation order; -1 nil; 99 foreign
	Evs  []int  `json:"evs,omitempty"`
	Size int    `json:"size,omitempty"`
}

type Scenario struct {
	Timeout   int64   `json:"timeout"` // PubTimeoutAfter in ns
	CbSet     bool    `json:"cb"`
	DefBuf    int     `json:"defbuf"`
	Progs     [][]Op  `json:"progs"`
	Phases    [][]int `json:"phases"` // threads released so far, per phase
	Slow      uint64  `json:"slow"`   // != 0: receivers dawdle (seeded) before each receive
	Explore   bool    `json:"explore"`
	Stale     bool    `json:"stale,omitempty"`     // stale-view family: WithOnly, then Unsub/UnsubAll on the parent, then a publish through the view
	NoModel   bool    `json:"nomodel,omitempty"`   // large scenario: Go oracles only, not emitted to the Coq model
	ViewUnsub bool    `json:"viewunsub,omitempty"` // Unsub/UnsubAll THROUGH a stale view (third known finding)
	Desc      string  `json:"desc"`
}

type Snap struct {
	Phase   int       `json:"phase"`
	Quiet   bool      `json:"quiet"`
	Rets    [][][]int `json:"rets"`    // per thread: encoded results so far
	Recv    [][]int   `json:"recv"`    // per channel: values received so far
	Lens    []int     `json:"lens"`    // per channel: len(ch)
	Cbs     []int     `json:"cbs"`     // OnPubTimeout arguments so far
	Blocked int       `json:"blocked"` // goroutines parked inside chans.SendTimeout
	Final   bool      `json:"final"`
	Leak    bool      `json:"leak,omitempty"`
}

func init() {
	if os.Getenv(envChild) != "" {
		childMain()
		os.Exit(0)
	}
	core.Register(&core.Prop{ID: "C10", Module: "Chans.PubSubCheck", Run: run, Replay: replay})
}

// ---------------------------------------------------------------- child ----

type world struct {
	mu      sync.Mutex
	sc      *Scenario
	objs    []*chans.PubSub[int]
	chs     []<-chan int
	foreign chan int
	rets    [][][]int
	recv    [][]int
	cbs     []int
}

func (w *world) chanOf(idx int) <-chan int {
	w.mu.Lock()
	defer w.mu.Unlock()
	switch {
	case idx == -1:
		return nil
	case idx >= 0 && idx < len(w.chs):
		return w.chs[idx]
	}
	return w.foreign
}

func (w *world) obj(i int) *chans.PubSub[int] {
	w.mu.Lock()
	defer w.mu.Unlock()
	if i < len(w.objs) {
		return w.objs[i]
	}
	return w.objs[0]
}

func (w *world) addChan(ch <-chan int) int {
	w.mu.Lock()
	defer w.mu.Unlock()
	w.chs = append(w.chs, ch)
	w.recv = append(w.recv, nil)
	return len(w.chs) - 1
}

func encErr(err error) []int {
	switch err {
	case nil:
		return []int{3}
	case chans.ErrAlreadyUnsubscribed:
		return []int{4}
	case chans.ErrSubscriptionNotInitalized:
		return []int{5}
	}
	return []int{9}
}

func (w *world) thread(t int, release <-chan struct{}) {
	<-release
	jr := core.NewRand(w.sc.Slow*31 + uint64(t)*7919)
	for _, op := range w.sc.Progs[t] {
		var r []int
		o := w.obj(op.Obj)
		switch op.Op {
		case "pub1":
			switch op.W {
			case "Async":
				o.Pub(op.Evs[0])
			case "Wait":
				o.PubWait(op.Evs[0])
			default:
				o.PubSync(op.Evs[0])
			}
			r = []int{0}
		case "pubs":
			evs := append([]int{}, op.Evs...)
			switch op.W {
			case "Async":
				o.PubSlice(evs)
			case "Wait":
				o.PubSliceWait(evs)
			default:
				o.PubSliceSync(evs)
			}
			r = []int{0}
		case "withonly":
			v := o.WithOnly(w.chanOf(op.Sub))
			w.mu.Lock()
			w.objs = append(w.objs, v)
			r = []int{2, len(w.objs) - 1}
			w.mu.Unlock()
		case "sub":
			r = []int{1, w.addChan(o.Sub())}
		case "subbuf":
			r = []int{1, w.addChan(o.SubBuf(op.Size))}
		case "unsub":
			r = encErr(o.Unsub(w.chanOf(op.Sub)))
		case "unsuball":
			r = encErr(o.UnsubAll())
		case "range":
			ch := w.chanOf(op.Sub)
			acc := []int{7}
			for {
				if w.sc.Slow != 0 {
					switch jr.Intn(4) {
					case 0:
						time.Sleep(time.Duration(jr.Intn(4000)) * time.Microsecond)
					case 1:
						runtime.Gosched()
					}
				}
				v, ok := <-ch
				if !ok {
					break
				}
				w.mu.Lock()
				w.recv[op.Sub] = append(w.recv[op.Sub], v)
				w.mu.Unlock()
				acc = append(acc, v)
			}
			r = acc
		}
		w.mu.Lock()
		w.rets[t] = append(w.rets[t], r)
		w.mu.Unlock()
	}
}

// Goroutine states (runtime.Stack) in which a goroutine stays until another goroutine of
// the scenario or the harness acts: if all are in such a state the scenario is quiescent.
var parked = map[string]bool{
	"chan send": true, "chan receive": true, "semacquire": true,
	"sync.RWMutex.Lock": true, "sync.RWMutex.RLock": true, "sync.WaitGroup.Wait": true,
	"chan send (nil chan)": true, "chan receive (nil chan)": true,
}

// States that are blocked but may end by themselves (a timer) or that a refactoring of the
// code under test could use instead of the ones above (a sync.Mutex instead of the RWMutex,
// an unconditional select around the send, a sync.Cond): with these the scenario counts as
// quiescent only after the whole picture (every goroutine's id and state) has not changed for
// stableFor, far longer than any timer the scenarios use (2 ms).
var parkedSoft = map[string]bool{
	"select": true, "select (no cases)": true, "sleep": true,
	"sync.Mutex.Lock": true, "sync.Cond.Wait": true,
}

const stableFor = 250 * time.Millisecond

// quiescent looks at every goroutine but the caller: strict = all parked for good;
// soft = all parked or in a soft state; sig = ids and states (to detect change);
// others = their number; blocked = how many are inside chans.SendTimeout.
func quiescent(buf []byte) (strict, soft bool, sig string, others, blocked int) {
	n := runtime.Stack(buf, true)
	strict = n < len(buf) // a truncated dump hides goroutines: not quiescent
	soft = strict
	var sb strings.Builder
	for i, g := range bytes.Split(buf[:n], []byte("\n\n")) {
		if i == 0 || len(g) == 0 {
			continue // the caller
		}
		others++
		lb, rb := bytes.IndexByte(g, '['), bytes.IndexByte(g, ']')
		if lb < 0 || rb < lb {
			strict, soft = false, false
			continue
		}
		sb.Write(g[:lb])
		state := string(g[lb+1 : rb])
		if k := strings.IndexByte(state, ','); k >= 0 {
			state = state[:k]
		}
		sb.WriteString(state)
		sb.WriteByte(';')
		if !parked[state] {
			strict = false
			if !parkedSoft[state] {
				soft = false
			}
		}
		if bytes.Contains(g, []byte("chans.SendTimeout")) {
			blocked++
		}
	}
	return strict, soft, sb.String(), others, blocked
}

func waitQuiet(buf []byte, limit time.Duration) (bool, int, int) {
	deadline := time.Now().Add(limit)
	lastSig, since := "", time.Now()
	for spin := 0; ; spin++ {
		runtime.Gosched()
		strict, soft, sig, o, b := quiescent(buf)
		if strict {
			return true, o, b
		}
		now := time.Now()
		if sig != lastSig {
			lastSig, since = sig, now
		} else if soft && now.Sub(since) >= stableFor {
			return true, o, b
		}
		if now.After(deadline) {
			return false, o, b
		}
		if spin > 20 {
			time.Sleep(50 * time.Microsecond)
		}
	}
}

func runScenario(sc *Scenario, out *json.Encoder, flush func(), buf []byte) (clean bool) {
	_, _, _, base, _ := quiescent(buf)
	w := &world{sc: sc, foreign: make(chan int, 1), rets: make([][][]int, len(sc.Progs))}
	root := &chans.PubSub[int]{PubTimeoutAfter: time.Duration(sc.Timeout), DefaultBuffer: sc.DefBuf}
	if sc.CbSet {
		root.OnPubTimeout = func(ev int) {
			w.mu.Lock()
			w.cbs = append(w.cbs, ev)
			w.mu.Unlock()
		}
	}
	w.objs = []*chans.PubSub[int]{root}
	release := make([]chan struct{}, len(sc.Progs))
	released := make([]bool, len(sc.Progs))
	for t := range sc.Progs {
		release[t] = make(chan struct{})
		go w.thread(t, release[t])
	}
	clean = true
	for ph, ts := range sc.Phases {
		for _, t := range ts {
			if !released[t] {
				released[t] = true
				close(release[t])
			}
		}
		quiet, others, blocked := waitQuiet(buf, 5*time.Second)
		w.mu.Lock()
		s := Snap{Phase: ph, Quiet: quiet, Blocked: blocked, Final: ph == len(sc.Phases)-1}
		for _, r := range w.rets {
			s.Rets = append(s.Rets, append([][]int{}, r...))
		}
		for i, r := range w.recv {
			s.Recv = append(s.Recv, append([]int{}, r...))
			s.Lens = append(s.Lens, len(w.chs[i]))
		}
		s.Cbs = append([]int{}, w.cbs...)
		w.mu.Unlock()
		if s.Final && others != base {
			s.Leak = true // goroutines of this scenario are still around: use a fresh process next
			clean = false
		}
		if !quiet {
			s.Final = true
			clean = false
		}
		out.Encode(s)
		flush()
		if !quiet {
			return
		}
	}
	return
}

func childMain() {
	runtime.GOMAXPROCS(4)
	in := bufio.NewReaderSize(os.Stdin, 1<<20)
	w := bufio.NewWriter(os.Stdout)
	enc := json.NewEncoder(w)
	buf := make([]byte, 1<<20)
	for {
		line, err := in.ReadBytes('\n')
		if len(bytes.TrimSpace(line)) > 0 {
			var sc Scenario
			if e := json.Unmarshal(line, &sc); e != nil {
				fmt.Fprintln(os.Stderr, "bad scenario:", e)
				os.Exit(3)
			}
			clean := runScenario(&sc, enc, func() { w.Flush() }, buf)
			if !clean {
				os.Exit(0)
			}
		}
		if err != nil {
			return
		}
	}
}

// --------------------------------------------------------------- parent ----

type Outcome struct {
	Snaps  []Snap
	Died   bool
	Stderr string
}

type worker struct {
	cmd    *exec.Cmd
	stdin  io.WriteCloser
	stdout *bufio.Reader
	stderr *bytes.Buffer
}

func startWorker() (*worker, error) {
	cmd := exec.Command(os.Args[0])
	cmd.Env = append(os.Environ(), envChild+"=1", "GOTRACEBACK=all")
	in, err := cmd.StdinPipe()
	if err != nil {
		return nil, err
	}
	out, err := cmd.StdoutPipe()
	if err != nil {
		return nil, err
	}
	eb := &bytes.Buffer{}
	cmd.Stderr = eb
	if err := cmd.Start(); err != nil {
		return nil, err
	}
	return &worker{cmd, in, bufio.NewReaderSize(out, 1<<20), eb}, nil
}

func (w *worker) stop() {
	w.stdin.Close()
	w.cmd.Wait()
}

// one runs one scenario on the worker; ok=false means the worker is gone.
func (w *worker) one(sc *Scenario) (o Outcome, alive bool) {
	b, _ := json.Marshal(sc)
	b = append(b, '\n')
	if _, err := w.stdin.Write(b); err != nil {
		w.cmd.Wait()
		return Outcome{Died: true, Stderr: w.stderr.String()}, false
	}
	for {
		line, err := w.stdout.ReadBytes('\n')
		if len(line) > 0 {
			var s Snap
			if json.Unmarshal(line, &s) == nil {
				o.Snaps = append(o.Snaps, s)
				if s.Final {
					if s.Leak || !s.Quiet {
						w.stop()
						return o, false
					}
					return o, true
				}
			}
		}
		if err != nil {
			w.cmd.Wait()
			o.Died = true
			o.Stderr = w.stderr.String()
			return o, false
		}
	}
}

func runAll(scs []Scenario) []Outcome {
	outs := make([]Outcome, len(scs))
	jobs := make(chan int, len(scs))
	for i := range scs {
		jobs <- i
	}
	close(jobs)
	nw := runtime.NumCPU()
	if nw > 16 {
		nw = 16
	}
	if nw > len(scs) {
		nw = len(scs)
	}
	var wg sync.WaitGroup
	for k := 0; k < nw; k++ {
		wg.Add(1)
		go func() {
			defer wg.Done()
			var w *worker
			for i := range jobs {
				if w == nil {
					var err error
					if w, err = startWorker(); err != nil {
						outs[i] = Outcome{Died: true, Stderr: "cannot start worker: " + err.Error()}
						continue
					}
				}
				var alive bool
				outs[i], alive = w.one(&scs[i])
				if !alive {
					w = nil
				}
			}
			if w != nil {
				w.stop()
			}
		}()
	}
	wg.Wait()
	return outs
}

func replay(c *core.Ctx, raw json.RawMessage) error {
	var sc Scenario
	if err := json.Unmarshal(raw, &sc); err != nil {
		return err
	}
	// scheduling is not ours to repeat exactly: run the scenario several times
	for i := 0; i < 20 && len(c.Failures) == 0; i++ {
		outs := runAll([]Scenario{sc})
		judge(c, sc, outs[0])
	}
	return nil
}

// ------------------------------------------------------------ scenarios ----

var kinds = []string{"Async", "Wait", "Sync"}

type Params struct {
	Bufs     []int // buffer of each initial subscriber
	UseDef   bool  // subscribe with Sub() and DefaultBuffer (all Bufs equal)
	Slice    bool
	W        string
	Evs      []int
	Timeout  int64
	Cb       bool
	Modes    []int  // per initial subscriber: 0 eager, 1 delayed, 2 late
	Mid      string // "", unsub, unsuball, sub, unsubnil, unsubforeign, unsubtwice
	MidSub   int
	MidWhen  int    // 0 before, 1 during, 2 after the first publish
	WithOnly int    // -2 none, else the channel index given to WithOnly (-1 nil, 99 foreign)
	P2       string // "", or kind of a second publish (single event) after the middle action
	Slow     uint64
}

func build(p Params) Scenario {
	sc := Scenario{Timeout: p.Timeout, CbSet: p.Cb, Slow: p.Slow}
	n := len(p.Bufs)
	var setup []Op
	if p.UseDef && n > 0 {
		sc.DefBuf = p.Bufs[0]
	}
	for _, b := range p.Bufs {
		if p.UseDef {
			setup = append(setup, Op{Op: "sub"})
		} else {
			setup = append(setup, Op{Op: "subbuf", Size: b})
		}
	}
	var pub []Op
	obj := 0
	if p.WithOnly != -2 {
		pub = append(pub, Op{Op: "withonly", Sub: p.WithOnly})
		obj = 1
	}
	if p.Slice {
		pub = append(pub, Op{Op: "pubs", W: p.W, Obj: obj, Evs: p.Evs})
	} else {
		pub = append(pub, Op{Op: "pub1", W: p.W, Obj: obj, Evs: p.Evs[:1]})
	}
	var mid []Op
	nch := n
	switch p.Mid {
	case "unsub":
		mid = []Op{{Op: "unsub", Sub: p.MidSub}}
	case "unsubtwice":
		mid = []Op{{Op: "unsub", Sub: p.MidSub}, {Op: "unsub", Sub: p.MidSub}}
	case "unsubnil":
		mid = []Op{{Op: "unsub", Sub: -1}}
	case "unsubforeign":
		mid = []Op{{Op: "unsub", Sub: foreignCid}}
	case "unsuball":
		mid = []Op{{Op: "unsuball"}}
	case "sub":
		mid = []Op{{Op: "subbuf", Size: 1}}
		nch++
	}
	// threads: 0 setup, 1 publisher, 2 middle, 3 second publish, 4 final, 5.. receivers
	sc.Progs = [][]Op{setup, pub, mid, nil, {{Op: "unsuball"}}}
	if p.P2 != "" {
		sc.Progs[3] = []Op{{Op: "pub1", W: p.P2, Evs: []int{77}}}
	}
	for i := 0; i < nch; i++ {
		sc.Progs = append(sc.Progs, []Op{{Op: "range", Sub: i}})
	}
	mode := func(i int) int {
		if i < n {
			return p.Modes[i]
		}
		return 2 // the channel subscribed in the middle is drained at the end
	}
	var rel []int
	phase := func(ts ...int) {
		rel = append(rel, ts...)
		sc.Phases = append(sc.Phases, append([]int{}, rel...))
	}
	phase(0)
	if p.Mid != "" && p.MidWhen == 0 {
		phase(2)
	}
	c := []int{1}
	for i := 0; i < n; i++ {
		if mode(i) == 0 {
			c = append(c, 5+i)
		}
	}
	phase(c...)
	if p.Mid != "" && p.MidWhen == 1 {
		phase(2)
	}
	var d []int
	for i := 0; i < n; i++ {
		if mode(i) == 1 {
			d = append(d, 5+i)
		}
	}
	if len(d) > 0 {
		phase(d...)
	}
	if p.Mid != "" && p.MidWhen == 2 {
		phase(2)
	}
	if p.P2 != "" {
		phase(3)
	}
	var l []int
	for i := 0; i < n; i++ {
		if mode(i) == 2 {
			l = append(l, 5+i)
		}
	}
	if len(l) > 0 {
		phase(l...)
	}
	if nch > n {
		phase(5 + n) // by now the Sub in the middle has returned (it may have waited for a synchronous publish)
	}
	phase(4)
	sc.Explore = n <= 1 && len(p.Evs) <= 1 && p.P2 == "" && p.WithOnly == -2 && (p.Mid == "" || p.Mid == "unsub")
	sc.Desc = fmt.Sprintf("%+v", p)
	return sc
}

// buildStale: s := SubBuf(b); v := WithOnly(s); Unsub(s) or UnsubAll() on the parent; a publish through v.
// threads: 0 setup, 1 WithOnly, 2 the parent's Unsub/UnsubAll, 3 publish on the view, 4 final UnsubAll, 5 receiver
func buildStale(b int, all, slice bool, w string, timeout int64) Scenario {
	sc := Scenario{Timeout: timeout, CbSet: true, Stale: true}
	mid := Op{Op: "unsub", Sub: 0}
	if all {
		mid = Op{Op: "unsuball"}
	}
	pub := Op{Op: "pub1", W: w, Obj: 1, Evs: []int{31}}
	if slice {
		pub = Op{Op: "pubs", W: w, Obj: 1, Evs: []int{31, 32}}
	}
	sc.Progs = [][]Op{{{Op: "subbuf", Size: b}}, {{Op: "withonly", Sub: 0}}, {mid}, {pub}, {{Op: "unsuball"}}, {{Op: "range", Sub: 0}}}
	sc.Phases = [][]int{{0}, {0, 1}, {0, 1, 5}, {0, 1, 5, 2}, {0, 1, 5, 2, 3}, {0, 1, 5, 2, 3, 4}}
	sc.Desc = fmt.Sprintf("stale view: SubBuf(%d); WithOnly; all=%v; slice=%v %s through the view; timeout=%d", b, all, slice, w, timeout)
	return sc
}

// buildView: n subscribers; a view on subscriber j; then one of
//
//	"unsub" i (i != j: another subscription, earlier or later, is removed from the parent),
//	"subview" (SubBuf on the view), "subparent" (SubBuf on the parent);
//
// then a publish through the view and a publish on the parent. The view's own
// channel is never unsubscribed here (that is the stale-view known finding).
// threads: 0 setup, 1 WithOnly, 2 middle, 3 publish on the view, 4 publish on the parent,
//
//	5 final UnsubAll on the parent, 6 Unsub (through the view) of the channel subscribed on the view,
//	7.. receivers (all eager)
func buildView(n, j int, mid string, i, b int, vw string, vslice bool) Scenario {
	sc := Scenario{CbSet: true}
	var setup []Op
	for k := 0; k < n; k++ {
		setup = append(setup, Op{Op: "subbuf", Size: b})
	}
	nch := n
	var m, last []Op
	switch mid {
	case "unsub":
		m = []Op{{Op: "unsub", Sub: i}}
	case "subview":
		m = []Op{{Op: "subbuf", Obj: 1, Size: b}}
		last = []Op{{Op: "unsub", Obj: 1, Sub: n}}
		nch++
	case "subparent":
		m = []Op{{Op: "subbuf", Size: b}}
		nch++
	}
	vp := Op{Op: "pub1", W: vw, Obj: 1, Evs: []int{41}}
	if vslice {
		vp = Op{Op: "pubs", W: vw, Obj: 1, Evs: []int{41, 42}}
	}
	sc.Progs = [][]Op{setup, {{Op: "withonly", Sub: j}}, m, {vp}, {{Op: "pub1", W: "Sync", Evs: []int{51}}}, {{Op: "unsuball"}}, last}
	for k := 0; k < nch; k++ {
		sc.Progs = append(sc.Progs, []Op{{Op: "range", Sub: k}})
	}
	var rel []int
	phase := func(ts ...int) {
		rel = append(rel, ts...)
		sc.Phases = append(sc.Phases, append([]int{}, rel...))
	}
	phase(0)
	var rs []int
	for k := 0; k < n; k++ {
		rs = append(rs, 7+k)
	}
	phase(rs...)
	phase(1)
	phase(2)
	if nch > n {
		phase(7 + n)
	}
	phase(3)
	phase(4)
	phase(5)
	if len(last) > 0 {
		phase(6)
	}
	sc.Desc = fmt.Sprintf("view family: %d subscribers (buffer %d), WithOnly(%d), then %s %d, then %s(slice=%v) through the view, PubSync on the parent", n, b, j, mid, i, vw, vslice)
	return sc
}

// buildLarge: many subscribers, long slices, big buffers, Sub/Unsub cycles in the setup so that the
// subscription slice grows, shrinks and reuses its backing array; Sync/Wait publishes with eager
// receivers (or receivers released after the publish when the buffers hold everything), so the
// outcome is deterministic; then Unsub of the first / a middle / the last subscription, a second
// publish, optionally a publish through a WithOnly view on another position.
// threads: 0 setup, 1 publisher, 2 view, 3 Unsub, 4 second publish, 5 final UnsubAll, 6.. receivers
func buildLarge(r *core.Rand, n, e, b int, w string, withView, delayed bool, pos int) Scenario {
	sc := Scenario{CbSet: true}
	var setup []Op
	var live []int
	next := 0
	sub := func() {
		setup = append(setup, Op{Op: "subbuf", Size: b})
		live = append(live, next)
		next++
	}
	unsubAt := func(i int) {
		setup = append(setup, Op{Op: "unsub", Sub: live[i]})
		live = append(append([]int{}, live[:i]...), live[i+1:]...)
	}
	for i := 0; i < n; i++ {
		sub()
	}
	for cyc := r.Intn(4); cyc > 0; cyc-- {
		k := 1 + r.Intn(n/2+1)
		for j := 0; j < k && len(live) > 0; j++ {
			switch r.Intn(4) {
			case 0:
				unsubAt(0)
			case 1:
				unsubAt(len(live) - 1)
			case 2:
				unsubAt(len(live) / 2)
			default:
				unsubAt(r.Intn(len(live)))
			}
		}
		for j := r.Intn(k + 2); j > 0; j-- {
			sub()
		}
	}
	for len(live) < n {
		sub()
	}
	evs := make([]int, e)
	for i := range evs {
		evs[i] = 1000 + i
	}
	pick := func(p int) int { // 0 first, 1 middle, 2 last
		switch p % 3 {
		case 0:
			return live[0]
		case 1:
			return live[len(live)/2]
		}
		return live[len(live)-1]
	}
	var view []Op
	if withView && len(live) >= 3 {
		view = []Op{{Op: "withonly", Sub: pick(pos + 1)}, {Op: "pub1", W: "Sync", Obj: 1, Evs: []int{61}}}
	}
	sc.Progs = [][]Op{setup, {{Op: "pubs", W: w, Evs: evs}}, view, {{Op: "unsub", Sub: pick(pos)}},
		{{Op: "pub1", W: "Sync", Evs: []int{77}}}, {{Op: "unsuball"}}}
	var rs []int
	for k := 0; k < next; k++ {
		sc.Progs = append(sc.Progs, []Op{{Op: "range", Sub: k}})
		rs = append(rs, 6+k)
	}
	var rel []int
	phase := func(ts ...int) {
		rel = append(rel, ts...)
		sc.Phases = append(sc.Phases, append([]int{}, rel...))
	}
	phase(0)
	if !delayed {
		phase(rs...)
	}
	phase(1)
	if delayed {
		phase(rs...)
	}
	phase(2)
	phase(3)
	phase(4)
	phase(5)
	sc.NoModel = len(live)*e > 100 || next > 12
	sc.Desc = fmt.Sprintf("large: %d subscribers live (%d channels, %d setup calls), buffer %d, PubSlice%s of %d events, delayed=%v, view=%v, Unsub position %d", len(live), next, len(setup), b, w, e, delayed, withView, pos%3)
	return sc
}

// buildViewUnsub: s := SubBuf(b); v := WithOnly(s); Unsub(s) on the parent; then Unsub(s) or UnsubAll()
// THROUGH the view: close of a closed channel. threads as in buildStale, thread 3 unsubscribes through the view.
func buildViewUnsub(b int, all, parentAll bool) Scenario {
	sc := buildStale(b, parentAll, false, "Sync", 0)
	sc.Stale, sc.ViewUnsub = false, true
	if all {
		sc.Progs[3] = []Op{{Op: "unsuball", Obj: 1}}
	} else {
		sc.Progs[3] = []Op{{Op: "unsub", Obj: 1, Sub: 0}}
	}
	sc.Desc = fmt.Sprintf("unsub through a stale view: SubBuf(%d); WithOnly; parentAll=%v on the parent; all=%v through the view", b, parentAll, all)
	return sc
}

// buildViewFirst (mirrored stale list): s := SubBuf(b); v := WithOnly(s); Unsub(s) or UnsubAll() THROUGH v
// closes s while the parent still lists it; then on the parent a publish (kind != "": findings 4) or
// Unsub(s)/UnsubAll() (finding 5). threads as in buildStale: 2 acts through the view, 3 on the parent.
func buildViewFirst(b int, viewAll bool, kind string, slice, parentAll bool) Scenario {
	sc := buildStale(b, false, slice, "Sync", 0)
	if viewAll {
		sc.Progs[2] = []Op{{Op: "unsuball", Obj: 1}}
	} else {
		sc.Progs[2] = []Op{{Op: "unsub", Obj: 1, Sub: 0}}
	}
	switch {
	case kind != "":
		sc.Progs[3][0].Obj, sc.Progs[3][0].W = 0, kind
	case parentAll:
		sc.Progs[3] = []Op{{Op: "unsuball"}}
	default:
		sc.Progs[3] = []Op{{Op: "unsub", Sub: 0}}
	}
	sc.Desc = fmt.Sprintf("view first: SubBuf(%d); WithOnly; viewAll=%v through the view; then on the parent kind=%q slice=%v parentAll=%v", b, viewAll, kind, slice, parentAll)
	return sc
}

// buildParkedWriter: "a blocked Lock excludes new readers". A PubSync/PubSliceSync is blocked in a send
// (late receivers) holding the read lock; Unsub(first) is parked in Lock; then a new reader or writer is
// released while the writer is parked: a PubSync on the parent, a WithOnly(first)+PubSync through the view,
// or a SubBuf. The real RWMutex makes it wait behind the parked Unsub, so it sees the subscriptions AFTER
// the Unsub. Then the receivers are released and everything completes.
// threads: 0 setup, 1 publisher, 2 Unsub(0), 3 the late comer, 4 final UnsubAll, 5.. receivers (late)
func buildParkedWriter(n, b int, slice bool, late string) Scenario {
	sc := Scenario{CbSet: true}
	var setup []Op
	for k := 0; k < n; k++ {
		setup = append(setup, Op{Op: "subbuf", Size: b})
	}
	evs := []int{11}
	pub := Op{Op: "pub1", W: "Sync", Evs: evs}
	if slice {
		evs = []int{11, 12, 13}
		pub = Op{Op: "pubs", W: "Sync", Evs: evs}
	}
	nch := n
	var lc []Op
	switch late {
	case "pub":
		lc = []Op{{Op: "pub1", W: "Sync", Evs: []int{77}}}
	case "view":
		lc = []Op{{Op: "withonly", Sub: 0}, {Op: "pub1", W: "Sync", Obj: 1, Evs: []int{78}}}
	case "sub":
		lc = []Op{{Op: "subbuf", Size: 1}}
		nch++
	}
	sc.Progs = [][]Op{setup, {pub}, {{Op: "unsub", Sub: 0}}, lc, {{Op: "unsuball"}}}
	var rs []int
	for k := 0; k < nch; k++ {
		sc.Progs = append(sc.Progs, []Op{{Op: "range", Sub: k}})
		if k < n {
			rs = append(rs, 5+k)
		}
	}
	var rel []int
	phase := func(ts ...int) {
		rel = append(rel, ts...)
		sc.Phases = append(sc.Phases, append([]int{}, rel...))
	}
	phase(0)
	phase(1) // blocked in a send, holding the read lock
	phase(2) // parked in Lock
	phase(3) // must wait behind the parked writer
	phase(rs...)
	if nch > n {
		phase(5 + n)
	}
	phase(4)
	sc.Desc = fmt.Sprintf("parked writer: %d subscribers (buffer %d), slice=%v PubSync blocked, Unsub(0) parked, then %s released", n, b, slice, late)
	return sc
}

func run(c *core.Ctx) {
	var scs []Scenario
	// the trusted RWMutex feature "a blocked Lock excludes new readers" (every run)
	for n := 1; n <= 3; n++ {
		for _, slice := range []bool{false, true} {
			for _, late := range []string{"pub", "view", "sub"} {
				scs = append(scs, buildParkedWriter(n, 0, slice, late))
			}
		}
	}
	scs = append(scs, buildParkedWriter(2, 1, true, "pub"), buildParkedWriter(2, 1, true, "view"))
	// findings 4 and 5: the channel is removed through the view first, then the parent publishes / unsubscribes (every run)
	for b := 0; b <= 1; b++ {
		for _, va := range []bool{false, true} {
			for _, w := range kinds {
				for _, slice := range []bool{false, true} {
					scs = append(scs, buildViewFirst(b, va, w, slice, false))
				}
			}
			scs = append(scs, buildViewFirst(b, va, "", false, false), buildViewFirst(b, va, "", false, true))
		}
	}
	// third known finding: Unsub/UnsubAll through a stale view (every run)
	for b := 0; b <= 1; b++ {
		for _, pa := range []bool{false, true} {
			scs = append(scs, buildViewUnsub(b, false, pa), buildViewUnsub(b, true, pa))
		}
	}
	// large scenarios (every run): mostly checked by the Go oracles only, the small ones also by the model
	{
		r := core.NewRand(c.Seed*7919 + 13)
		bufs := []int{0, 1, 2, 15, 16, 17, 33, 64, 65, 129, 130}
		add := func(n, e int) {
			w := "Sync"
			if n*e <= 2500 && r.Bool() {
				w = "Wait"
			}
			b := bufs[r.Intn(len(bufs))]
			delayed := b >= e+2 && r.Bool()
			scs = append(scs, buildLarge(r, n, e, b, w, r.Intn(3) == 0, delayed, r.Intn(3)))
		}
		for _, n := range []int{5, 8, 9, 16, 17, 33, 65} {
			for _, e := range []int{2, 3, 15, 16, 17, 31, 32, 33, 63, 64, 65, 127, 128, 129, 130} {
				add(n, e)
			}
		}
		for _, n := range []int{2, 3, 4, 5, 8, 9} {
			for _, e := range []int{2, 3, 4, 7} {
				add(n, e)
			}
		}
	}
	// WithOnly views next to changes of the parent's or the view's subscription list (every run)
	for n := 2; n <= 4; n++ {
		for j := 0; j < n; j++ {
			for b := 0; b <= 1; b++ {
				for vi, vw := range []string{"Sync", "Sync", "Async"} {
					for i := 0; i < n; i++ {
						if i != j {
							scs = append(scs, buildView(n, j, "unsub", i, b, vw, vi == 1))
						}
					}
					scs = append(scs, buildView(n, j, "subview", 0, b, vw, vi == 1), buildView(n, j, "subparent", 0, b, vw, vi == 1))
				}
			}
		}
	}
	// second known finding: a publish through a WithOnly view after the parent removed its channel (every run)
	for b := 0; b <= 1; b++ {
		for _, all := range []bool{false, true} {
			for _, slice := range []bool{false, true} {
				for _, w := range kinds {
					scs = append(scs, buildStale(b, all, slice, w, 0))
				}
			}
		}
	}
	scs = append(scs, buildStale(0, false, false, "Sync", 2000000), buildStale(1, true, true, "Wait", 2000000))
	// grid: subscribers x buffer x variant x timeout x receiver mode x middle action
	type midT struct {
		mid  string
		when int
	}
	mids := []midT{{"", 0}, {"unsub", 0}, {"unsub", 1}, {"unsub", 2}, {"unsuball", 1}, {"sub", 1}}
	for n := 0; n <= 3; n++ {
		for b := 0; b <= 2; b++ {
			for _, slice := range []bool{false, true} {
				for _, w := range kinds {
					for _, to := range []int64{0, 2000000} {
						for mode := 0; mode <= 2; mode++ {
							for _, m := range mids {
								p := Params{W: w, Slice: slice, Timeout: to, Cb: true, Mid: m.mid, MidWhen: m.when, WithOnly: -2}
								for i := 0; i < n; i++ {
									p.Bufs = append(p.Bufs, b)
									p.Modes = append(p.Modes, mode)
								}
								p.Evs = []int{11}
								if slice {
									p.Evs = []int{11, 12}
								}
								if m.mid == "unsub" && n == 0 {
									p.Mid, p.MidSub = "unsubforeign", 0
								}
								if m.mid != "" && m.when != 1 && n > 0 {
									p.P2 = "Sync"
									if mode != 0 && to == 0 && b == 0 {
										p.P2 = "" // a second synchronous publish would wait for the late receivers: keep the grid simple
									}
								}
								scs = append(scs, build(p))
							}
						}
					}
				}
			}
		}
	}
	c.Exhaustive = true
	c.Note("exhaustive grid: 0..3 subscribers x buffer 0..2 x 6 publish variants x timeout off/2ms x receivers eager/delayed/late x {no middle action, Unsub(first) before/during/after the publish, UnsubAll during, Sub during}; plus random scenarios (per-subscriber buffers and receiver modes, slices of 0..3 events with duplicates, WithOnly, nil/foreign/repeated Unsub, nil OnPubTimeout, DefaultBuffer, negative timeout, dawdling receivers, second publish)")
	// random scenarios
	r := c.Rng
	for i := c.N(500, 12000, 6000); i > 0; i-- {
		n := r.Intn(4)
		p := Params{W: kinds[r.Intn(3)], Slice: r.Bool(), Cb: true, WithOnly: -2}
		same := r.Chance(25)
		b0 := r.Intn(3)
		for k := 0; k < n; k++ {
			if same {
				p.Bufs = append(p.Bufs, b0)
			} else {
				p.Bufs = append(p.Bufs, r.Intn(4))
			}
			p.Modes = append(p.Modes, r.Intn(3))
		}
		p.UseDef = same && r.Bool()
		ne := 1
		if p.Slice {
			ne = r.Intn(4)
		}
		for k := 0; k < ne; k++ {
			if r.Chance(25) {
				p.Evs = append(p.Evs, 21)
			} else {
				p.Evs = append(p.Evs, 21+k)
			}
		}
		switch r.Intn(5) {
		case 0, 1:
			p.Timeout = 2000000
			p.Cb = !r.Chance(20)
		case 2:
			if r.Chance(30) {
				p.Timeout = -5
			}
		}
		switch r.Intn(10) {
		case 0, 1, 2:
			p.Mid, p.MidSub = "unsub", r.Intn(n+1)
			if p.MidSub >= n {
				p.Mid = "unsubforeign"
			}
		case 3:
			p.Mid = "unsuball"
		case 4:
			p.Mid = "sub"
		case 5:
			p.Mid = "unsubnil"
		case 6:
			if n > 0 {
				p.Mid, p.MidSub = "unsubtwice", r.Intn(n)
			}
		}
		p.MidWhen = r.Intn(3)
		if r.Chance(30) {
			switch k := r.Intn(n + 2); {
			case k < n:
				p.WithOnly = k
			case k == n:
				p.WithOnly = -1
			default:
				p.WithOnly = foreignCid
			}
			// A view is a snapshot with its own lock: an Unsub/UnsubAll on the parent while a publish
			// through the view is still pending (or before it starts) closes a channel under the
			// view. Stale views are outside the scenarios (see bin/props/C10.json): with a view, the
			// parent only removes channels after the view's publish has completely finished.
			closing := p.Mid == "unsub" || p.Mid == "unsubtwice" || p.Mid == "unsuball"
			if closing {
				p.MidWhen = 2
				for k := range p.Modes {
					p.Modes[k] = 0
				}
				if p.W == "Async" && p.Timeout <= 0 {
					p.W = "Wait" // so that the publish has finished when the phase is over even with dawdling receivers
				}
			} else if p.Mid != "" && p.MidWhen == 0 {
				p.MidWhen = 2
			}
		}
		if r.Chance(40) && !(p.Mid != "" && p.MidWhen == 1) {
			p.P2 = kinds[r.Intn(3)]
		}
		if r.Chance(30) {
			p.Slow = 1 + r.Uint64()%1000
		}
		scs = append(scs, build(p))
	}
	if c.Tier != "quick" {
		// the grid again with perturbed timing
		g := len(scs)
		for rep := 0; rep < c.N(0, 3, 2); rep++ {
			for i := 0; i < g; i++ {
				s := scs[i]
				s.Slow = 1 + r.Uint64()%1000
				scs = append(scs, s)
			}
		}
	}
	outs := runAll(scs)
	for i := range scs {
		judge(c, scs[i], outs[i])
	}
}

// ------------------------------------------------ reference and oracles ----

type pubCall struct {
	thread, call int
	kind         string
	evs          []int
	targets      []int
	obj          int
	stale        bool // made on a PubSub that lists a channel already removed (closed) through ANOTHER PubSub (view <-> parent)
}

// reference walks the threads in release order (non-receiver threads are
// released one per phase) and computes what the property prescribes.
type reference struct {
	subs      []int           // root subscriptions, in order
	views     map[int][]int   // object -> subscriptions
	closedBy  map[int][2]int  // channel -> (thread, call) of the Unsub/UnsubAll that closes it
	closedOn  map[int]int     // channel -> the PubSub object on which that call was made
	rets      map[int][][]int // expected results of the non-receiver threads
	pubs      []pubCall
	published map[int][]int // channel -> events published to it, in publication order
	allSync   map[int]bool  // channel -> every publish to it was a Sync variant
	nch       int
	// (thread, call, channel, object) of every Unsub/UnsubAll that closes a channel an earlier
	// Unsub/UnsubAll on ANOTHER PubSub (parent <-> view) has already closed
	staleUnsubs [][4]int
}

func refOf(sc Scenario) *reference {
	rf := &reference{views: map[int][]int{}, closedBy: map[int][2]int{}, closedOn: map[int]int{}, rets: map[int][][]int{},
		published: map[int][]int{}, allSync: map[int]bool{}}
	seen := map[int]bool{}
	nobj := 1
	for _, ph := range sc.Phases {
		for _, t := range ph {
			if seen[t] {
				continue
			}
			seen[t] = true
			for ci, op := range sc.Progs[t] {
				subsOf := func(obj int) []int {
					if obj == 0 {
						return rf.subs
					}
					return rf.views[obj]
				}
				setSubs := func(obj int, l []int) {
					if obj == 0 {
						rf.subs = l
					} else {
						rf.views[obj] = l
					}
				}
				switch op.Op {
				case "range":
					continue
				case "sub", "subbuf":
					setSubs(op.Obj, append(append([]int{}, subsOf(op.Obj)...), rf.nch))
					rf.allSync[rf.nch] = true
					rf.rets[t] = append(rf.rets[t], []int{1, rf.nch})
					rf.nch++
				case "withonly":
					var v []int
					for _, s := range rf.subs {
						if s == op.Sub {
							v = append(v, s)
						}
					}
					rf.views[nobj] = v
					rf.rets[t] = append(rf.rets[t], []int{2, nobj})
					nobj++
				case "pub1", "pubs":
					pc := pubCall{thread: t, call: ci, kind: op.W, evs: op.Evs, obj: op.Obj, targets: append([]int{}, subsOf(op.Obj)...)}
					for _, s := range pc.targets {
						if on, gone := rf.closedOn[s]; gone && on != op.Obj {
							pc.stale = true
						}
					}
					rf.pubs = append(rf.pubs, pc)
					for _, ev := range op.Evs {
						for _, s := range pc.targets {
							rf.published[s] = append(rf.published[s], ev)
						}
					}
					if op.W != "Sync" {
						for _, s := range pc.targets {
							rf.allSync[s] = false
						}
					}
					rf.rets[t] = append(rf.rets[t], []int{0})
				case "unsub":
					idx := -1
					cur := subsOf(op.Obj)
					for i, s := range cur {
						if s == op.Sub {
							idx = i
						}
					}
					switch {
					case op.Sub == -1:
						rf.rets[t] = append(rf.rets[t], []int{5})
					case idx < 0:
						rf.rets[t] = append(rf.rets[t], []int{4})
					default:
						if on, gone := rf.closedOn[op.Sub]; gone && on != op.Obj {
							rf.staleUnsubs = append(rf.staleUnsubs, [4]int{t, ci, op.Sub, op.Obj})
						} else {
							rf.closedBy[op.Sub] = [2]int{t, ci}
							rf.closedOn[op.Sub] = op.Obj
						}
						setSubs(op.Obj, append(append([]int{}, cur[:idx]...), cur[idx+1:]...))
						rf.rets[t] = append(rf.rets[t], []int{3})
					}
				case "unsuball":
					for _, s := range subsOf(op.Obj) {
						if on, gone := rf.closedOn[s]; !gone {
							rf.closedBy[s] = [2]int{t, ci}
							rf.closedOn[s] = op.Obj
						} else if on != op.Obj {
							rf.staleUnsubs = append(rf.staleUnsubs, [4]int{t, ci, s, op.Obj})
						}
					}
					setSubs(op.Obj, nil)
					rf.rets[t] = append(rf.rets[t], []int{3})
				}
			}
		}
	}
	return rf
}

func count(s []int) map[int]int {
	m := map[int]int{}
	for _, v := range s {
		m[v]++
	}
	return m
}

func isSubseq(a, b []int) bool {
	j := 0
	for _, v := range b {
		if j < len(a) && a[j] == v {
			j++
		}
	}
	return j == len(a)
}

func receiverOf(sc Scenario, ch int) int {
	for t, p := range sc.Progs {
		if len(p) == 1 && p[0].Op == "range" && p[0].Sub == ch {
			return t
		}
	}
	return -1
}

func releasedBy(sc Scenario, t, phase int) bool {
	for _, x := range sc.Phases[phase] {
		if x == t {
			return true
		}
	}
	return false
}

func judge(c *core.Ctx, sc Scenario, o Outcome) {
	c.Begin(sc)
	rf := refOf(sc)
	np := 0
	for _, p := range rf.pubs {
		np += len(p.evs) * len(p.targets)
		c.Count("publish_" + p.kind)
	}
	nsubs := len(sc.Progs[0])
	c.Count(fmt.Sprintf("subscribers_%d", nsubs))
	if sc.Timeout > 0 {
		c.Count("timeout_on")
	}
	if sc.Slow != 0 {
		c.Count("dawdling_receivers")
	}
	detail := func(extra string) string {
		b, _ := json.Marshal(o.Snaps)
		s := extra + " snapshots=" + string(b)
		if len(s) > 1500 {
			s = s[:1500] + "..."
		}
		return s
	}
	var last Snap
	if len(o.Snaps) > 0 {
		last = o.Snaps[len(o.Snaps)-1]
	}
	everBlocked := false
	for _, s := range o.Snaps {
		if s.Blocked > 0 {
			everBlocked = true
		}
	}
	if nsubs >= 2 && np >= 2*nsubs && everBlocked {
		c.Nontrivial() // >= 2 subscribers, >= 2 events, a hand-off was blocked at a quiescent point
	}

	if o.Died {
		c.Count("process_died")
		msg := "process died"
		for _, l := range strings.Split(o.Stderr, "\n") {
			if strings.HasPrefix(l, "panic:") || strings.HasPrefix(l, "fatal error:") {
				msg = strings.TrimSpace(l)
				break
			}
		}
		st := o.Stderr
		if len(st) > 1200 {
			st = st[:1200] + "..."
		}
		code := 3
		switch {
		case strings.Contains(msg, "send on closed channel"):
			code = 1
		case strings.Contains(msg, "close of closed channel"):
			code = 2
		}
		su, sp := 0, 0
		if code == 2 {
			su = viewUnsubPanic(sc, rf, o)
		}
		if code == 1 {
			sp = stalePanic(sc, rf, o)
		}
		if su == 3 {
			// third known finding: Unsub/UnsubAll through a view whose channel the parent has already removed
			c.Count("known_finding_view_unsub_panics")
			c.Fail(ViewUnsubWhat, detail(msg))
			emit(c, sc, o, code)
		} else if su == 5 {
			// fifth: Unsub/UnsubAll on the parent of a channel already removed through the view
			c.Count("known_finding_parent_unsub_after_view_unsub_panics")
			c.Fail(ParentUnsubStaleWhat, detail(msg))
			emit(c, sc, o, code)
		} else if sp == 2 {
			c.Count("known_finding_stale_view_panics")
			c.Fail(StaleWhat, detail(msg))
			emit(c, sc, o, code)
		} else if sp == 4 {
			// fourth: publish on the parent, which still lists a channel removed through the view
			c.Count("known_finding_parent_after_view_unsub_panics")
			c.Fail(ParentStaleWhat, detail(msg))
			emit(c, sc, o, code)
		} else if knownPanic(sc, rf, o) && code == 1 {
			c.Count("known_finding_panics")
			c.Fail(KnownWhat, detail(msg))
			emit(c, sc, o, code)
		} else {
			c.Fail("process panic on a path where no asynchronous hand-off was pending at an Unsub/UnsubAll: "+msg, detail(st))
		}
		return
	}
	if sc.Stale || sc.ViewUnsub {
		// the stale-view defect did not show (repaired some day?): nothing to report, nothing to compare
		c.Count("stale_view_no_panic")
		return
	}
	if len(o.Snaps) == 0 {
		c.Fail("no observation", "worker produced nothing")
		return
	}
	for _, s := range o.Snaps {
		if !s.Quiet {
			c.Fail("scenario did not come to rest within 5s", detail(fmt.Sprintf("phase %d", s.Phase)))
			return
		}
	}
	if !last.Final || len(o.Snaps) != len(sc.Phases) {
		c.Fail("incomplete observation", detail(""))
		return
	}
	bad := false
	fail := func(what, d string) {
		bad = true
		c.Fail(what, detail(d))
	}
	// results of every call (errors of Unsub, returned views/channels), all calls returned
	for t := range sc.Progs {
		if len(sc.Progs[t]) == 1 && sc.Progs[t][0].Op == "range" {
			ch := sc.Progs[t][0].Sub
			if len(last.Rets[t]) != 1 {
				fail("receiver never saw its channel closed by UnsubAll", fmt.Sprintf("channel %d", ch))
			}
			continue
		}
		if fmt.Sprint(last.Rets[t]) != fmt.Sprint(rf.rets[t]) && !(len(last.Rets[t]) == 0 && len(rf.rets[t]) == 0) {
			fail("call results differ from the specification (0 unit, 1 chan, 2 view, 3 nil, 4 ErrAlreadyUnsubscribed, 5 ErrSubscriptionNotInitalized)",
				fmt.Sprintf("thread %d: got %v want %v", t, last.Rets[t], rf.rets[t]))
		}
	}
	// delivery: exactly once, or exactly one of delivery / OnPubTimeout with a positive timeout
	var missing []int
	for ch := 0; ch < rf.nch && ch < len(last.Recv); ch++ {
		got, want := last.Recv[ch], rf.published[ch]
		gc, wc := count(got), count(want)
		for v, k := range gc {
			if k > wc[v] {
				fail("event delivered more often than published to this subscriber (or after its removal / to a channel WithOnly excluded)",
					fmt.Sprintf("channel %d received %v, published to it %v", ch, got, want))
			}
		}
		for v, k := range wc {
			for j := gc[v]; j < k; j++ {
				missing = append(missing, v)
			}
		}
		if sc.Timeout <= 0 && len(got) < len(want) {
			fail("event lost: not delivered although no timeout is configured",
				fmt.Sprintf("channel %d received %v, published to it %v", ch, got, want))
		}
	}
	for _, p := range rf.pubs {
		if p.kind != "Sync" {
			continue
		}
		evc := count(p.evs)
		for _, ch := range p.targets {
			if ch >= len(last.Recv) {
				continue
			}
			var mine []int
			for _, v := range last.Recv[ch] {
				if evc[v] > 0 {
					mine = append(mine, v)
				}
			}
			if !isSubseq(mine, p.evs) {
				fail("Sync variant delivered out of publication order", fmt.Sprintf("channel %d received %v of the call that published %v", ch, mine, p.evs))
			}
		}
	}
	sort.Ints(missing)
	cbs := append([]int{}, last.Cbs...)
	sort.Ints(cbs)
	if sc.CbSet {
		if fmt.Sprint(cbs) != fmt.Sprint(missing) {
			fail("OnPubTimeout calls are not exactly the undelivered (event, subscriber) pairs", fmt.Sprintf("callbacks %v, undelivered %v", cbs, missing))
		}
	} else if len(cbs) != 0 {
		fail("OnPubTimeout called although nil", fmt.Sprint(cbs))
	}
	// per phase: Wait/Sync publishes that have returned have finished every hand-off; closes are exact
	for _, s := range o.Snaps {
		for _, p := range rf.pubs {
			if p.kind == "Async" || len(s.Rets[p.thread]) <= p.call {
				continue
			}
			// returned: every pair is received, buffered or timed out
			need, have := len(p.evs)*len(p.targets), 0
			evc := count(p.evs)
			for _, ch := range p.targets {
				k := 0
				for _, v := range s.Recv[ch] {
					if evc[v] > 0 {
						k++
					}
				}
				k += s.Lens[ch]
				if k > len(p.evs) {
					k = len(p.evs)
				}
				have += k
			}
			for _, v := range s.Cbs {
				if evc[v] > 0 {
					have++
				}
			}
			if !sc.CbSet && sc.Timeout > 0 {
				continue // silent timeouts cannot be counted
			}
			if have < need {
				fail("Wait/Sync publish returned before a hand-off it must wait for",
					fmt.Sprintf("phase %d: %d of %d pairs finished", s.Phase, have, need))
			}
		}
		for ch := 0; ch < rf.nch; ch++ {
			rt := receiverOf(sc, ch)
			if rt < 0 || !releasedBy(sc, rt, s.Phase) {
				continue
			}
			cb, willClose := rf.closedBy[ch]
			closedNow := willClose && len(s.Rets[cb[0]]) > cb[1]
			if closedNow && len(s.Rets[rt]) == 0 {
				fail("Unsub/UnsubAll returned but the removed channel is not closed", fmt.Sprintf("phase %d channel %d", s.Phase, ch))
			}
			started := willClose && releasedBy(sc, cb[0], s.Phase)
			if !started && len(s.Rets[rt]) != 0 {
				fail("a channel was closed that no Unsub/UnsubAll removed", fmt.Sprintf("phase %d channel %d", s.Phase, ch))
			}
		}
	}
	if bad {
		return
	}
	emit(c, sc, o, 0)
}

// viewUnsubPanic: the process died in the phase that released an Unsub/UnsubAll of a channel that an
// Unsub/UnsubAll on the OTHER PubSub of a WithOnly pair had already closed (that call had returned at the
// last quiescent point). 3: through the view after the parent; 5: on the parent after the view; 0: neither.
func viewUnsubPanic(sc Scenario, rf *reference, o Outcome) int {
	if len(o.Snaps) == 0 {
		return 0
	}
	s := o.Snaps[len(o.Snaps)-1]
	next := s.Phase + 1
	if next >= len(sc.Phases) {
		return 0
	}
	for _, su := range rf.staleUnsubs {
		t, ch, obj := su[0], su[2], su[3]
		if !releasedBy(sc, t, next) || releasedBy(sc, t, s.Phase) {
			continue
		}
		if cb, gone := rf.closedBy[ch]; gone && len(s.Rets[cb[0]]) > cb[1] {
			switch {
			case obj != 0 && rf.closedOn[ch] == 0:
				return 3
			case obj == 0 && rf.closedOn[ch] != 0:
				return 5
			}
		}
	}
	return 0
}

// stalePanic: the process died in the phase that released a publish on a PubSub one of whose channels had
// already been removed through the OTHER PubSub of a WithOnly pair (the Unsub/UnsubAll had returned at the
// last quiescent point). 2: publish through the view after the parent; 4: on the parent after the view.
func stalePanic(sc Scenario, rf *reference, o Outcome) int {
	if len(o.Snaps) == 0 {
		return 0
	}
	s := o.Snaps[len(o.Snaps)-1]
	next := s.Phase + 1
	if next >= len(sc.Phases) {
		return 0
	}
	for _, p := range rf.pubs {
		if !p.stale || !releasedBy(sc, p.thread, next) || releasedBy(sc, p.thread, s.Phase) {
			continue
		}
		for _, ch := range p.targets {
			if cb, gone := rf.closedBy[ch]; gone && len(s.Rets[cb[0]]) > cb[1] {
				switch {
				case p.obj != 0 && rf.closedOn[ch] == 0:
					return 2
				case p.obj == 0 && rf.closedOn[ch] != 0:
					return 4
				}
			}
		}
	}
	return 0
}

// knownPanic: the scenario closes a channel (Unsub/UnsubAll) while a hand-off
// of an asynchronous publish (Pub, PubSlice, PubWait, PubSliceWait) to that
// very channel was pending at the last quiescent point.
func knownPanic(sc Scenario, rf *reference, o Outcome) bool {
	if len(o.Snaps) == 0 {
		return false
	}
	s := o.Snaps[len(o.Snaps)-1]
	next := s.Phase + 1
	if next >= len(sc.Phases) || s.Blocked == 0 {
		return false
	}
	// channels the threads released in the dying phase close
	closing := map[int]bool{}
	for ch, cb := range rf.closedBy {
		if releasedBy(sc, cb[0], next) && len(s.Rets[cb[0]]) <= cb[1] {
			closing[ch] = true
		}
	}
	for _, p := range rf.pubs {
		if p.kind == "Sync" || !releasedBy(sc, p.thread, s.Phase) {
			continue
		}
		evc := count(p.evs)
		for _, ch := range p.targets {
			if !closing[ch] || ch >= len(s.Recv) {
				continue
			}
			k := s.Lens[ch]
			for _, v := range s.Recv[ch] {
				if evc[v] > 0 {
					k++
				}
			}
			if k < len(p.evs) { // some pair of this call to ch is neither received nor buffered
				return true
			}
		}
	}
	return false
}

// ------------------------------------------------------------- Coq term ----

func zop(op Op) string {
	switch op.Op {
	case "pub1":
		return fmt.Sprintf("ZPubOne %s %d %s", op.W, op.Obj, core.Z(op.Evs[0]))
	case "pubs":
		return fmt.Sprintf("ZPubSlice %s %d %s", op.W, op.Obj, core.ZList(op.Evs))
	case "withonly":
		return fmt.Sprintf("ZWithOnly %d %s", op.Obj, core.Z(op.Sub))
	case "sub":
		return fmt.Sprintf("ZSub %d", op.Obj)
	case "subbuf":
		return fmt.Sprintf("ZSubBuf %d %s", op.Obj, core.Z(op.Size))
	case "unsub":
		return fmt.Sprintf("ZUnsub %d %s", op.Obj, core.Z(op.Sub))
	case "unsuball":
		return fmt.Sprintf("ZUnsubAll %d", op.Obj)
	}
	return fmt.Sprintf("ZRange %d", op.Sub)
}

// emit writes the case for the model; panicCode: 0 no panic, 1 send on closed channel, 2 close of closed channel, 3 other
func emit(c *core.Ctx, sc Scenario, o Outcome, panicCode int) {
	if sc.NoModel {
		c.Count("oracle_only_large")
		return
	}
	last := o.Snaps[len(o.Snaps)-1]
	progs := make([]string, len(sc.Progs))
	for t, p := range sc.Progs {
		ops := make([]string, len(p))
		for i, op := range p {
			ops[i] = zop(op)
		}
		progs[t] = core.List(ops)
	}
	rets := make([]string, len(last.Rets))
	for t, r := range last.Rets {
		rets[t] = core.ZListList(r)
	}
	cbs := append([]int{}, last.Cbs...)
	sort.Ints(cbs)
	var returned []string
	for _, s := range o.Snaps {
		for t, r := range s.Rets {
			if len(r) > 0 {
				returned = append(returned, fmt.Sprintf("(%d,%d,%d)", s.Phase, t, len(r)))
			}
		}
	}
	c.Emit(fmt.Sprintf("Case %s %s %s %s %s %s %s %s %s %s %s",
		core.Z64(sc.Timeout), core.Bool(sc.CbSet), core.Z(sc.DefBuf), core.List(progs), core.ZListList(sc.Phases),
		core.ZListList(last.Recv), core.List(rets), core.ZList(cbs), core.Z(panicCode), core.List(returned),
		core.Bool(sc.Explore)))
}
