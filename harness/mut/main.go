// Command mut is a small source-level mutation tool for the mutation sweep (bin/mutrun): it lists the
// mutation points of a Go file (relational/arithmetic/logical operator flips, ++/--, integer literals,
// dropped negations, negated conditions, flipped boolean results, deleted statements) and writes the file
// with one of them applied. Lines that call the verif hooks are never touched.
//
//	mut list  <file.go>             one JSON object per mutation point
//	mut apply <file.go> <id> <out>  write the mutated source to <out>
package main

import (
	"bytes"
	"encoding/json"
	"fmt"
	"go/ast"
	"go/format"
	"go/parser"
	"go/token"
	"os"
	"strconv"
	"strings"
)

type point struct {
	ID     int    `json:"id"`
	Line   int    `json:"line"`
	Func   string `json:"func"`
	Kind   string `json:"kind"`
	Detail string `json:"detail"`
	apply  func()
}

var relFlip = map[token.Token]token.Token{token.LSS: token.LEQ, token.LEQ: token.LSS, token.GTR: token.GEQ, token.GEQ: token.GTR,
	token.EQL: token.NEQ, token.NEQ: token.EQL, token.ADD: token.SUB, token.SUB: token.ADD, token.LAND: token.LOR, token.LOR: token.LAND}

func collect(fset *token.FileSet, f *ast.File, src []byte) []*point {
	lines := strings.Split(string(src), "\n")
	hook := func(pos token.Pos) bool {
		l := fset.Position(pos).Line
		return l >= 1 && l <= len(lines) && strings.Contains(lines[l-1], "verifYield")
	}
	var pts []*point
	add := func(pos token.Pos, fn, kind, detail string, ap func()) {
		if hook(pos) {
			return
		}
		pts = append(pts, &point{ID: len(pts), Line: fset.Position(pos).Line, Func: fn, Kind: kind, Detail: detail, apply: ap})
	}
	for _, d := range f.Decls {
		fd, ok := d.(*ast.FuncDecl)
		if !ok || fd.Body == nil {
			continue
		}
		fn := fd.Name.Name
		if fd.Recv != nil && len(fd.Recv.List) > 0 {
			var b bytes.Buffer
			format.Node(&b, fset, fd.Recv.List[0].Type)
			fn = strings.TrimLeft(strings.SplitN(b.String(), "[", 2)[0], "*") + "." + fn
		}
		var blocks []*ast.BlockStmt
		ast.Inspect(fd.Body, func(n ast.Node) bool {
			switch x := n.(type) {
			case *ast.BlockStmt:
				blocks = append(blocks, x)
			case *ast.BinaryExpr:
				if to, ok := relFlip[x.Op]; ok {
					from := x.Op
					add(x.OpPos, fn, "binop", from.String()+" -> "+to.String(), func() { x.Op = to })
				}
			case *ast.IncDecStmt:
				if x.Tok == token.INC {
					add(x.TokPos, fn, "incdec", "++ -> --", func() { x.Tok = token.DEC })
				} else {
					add(x.TokPos, fn, "incdec", "-- -> ++", func() { x.Tok = token.INC })
				}
			case *ast.BasicLit:
				if x.Kind == token.INT {
					if v, err := strconv.ParseInt(x.Value, 0, 64); err == nil {
						nv := v + 1
						if v == 1 {
							nv = 0
						}
						add(x.ValuePos, fn, "intlit", fmt.Sprintf("%d -> %d", v, nv), func() { x.Value = strconv.FormatInt(nv, 10) })
					}
				}
			case *ast.UnaryExpr:
				if x.Op == token.NOT {
					add(x.OpPos, fn, "dropnot", "!e -> e", func() { x.Op = token.ADD })
				}
			case *ast.IfStmt:
				add(x.Cond.Pos(), fn, "negcond", "if c -> if !(c)", func() { x.Cond = &ast.UnaryExpr{Op: token.NOT, X: &ast.ParenExpr{X: x.Cond}} })
			case *ast.ReturnStmt:
				for i, r := range x.Results {
					if id, ok := r.(*ast.Ident); ok && (id.Name == "true" || id.Name == "false") {
						i, id := i, id
						to := "true"
						if id.Name == "true" {
							to = "false"
						}
						add(id.Pos(), fn, "boolret", id.Name+" -> "+to, func() { x.Results[i] = ast.NewIdent(to) })
					}
				}
			}
			return true
		})
		for _, b := range blocks {
			for i, st := range b.List {
				b, i := b, i
				switch s := st.(type) {
				case *ast.ExprStmt:
					if _, ok := s.X.(*ast.CallExpr); ok {
						add(s.Pos(), fn, "delstmt", "call statement deleted", func() { b.List[i] = &ast.EmptyStmt{} })
					}
				case *ast.AssignStmt:
					if s.Tok != token.DEFINE {
						add(s.Pos(), fn, "delstmt", "assignment deleted", func() { b.List[i] = &ast.EmptyStmt{} })
					}
				case *ast.IncDecStmt:
					add(s.Pos(), fn, "delstmt", "inc/dec deleted", func() { b.List[i] = &ast.EmptyStmt{} })
				}
			}
		}
	}
	return pts
}

func main() {
	if len(os.Args) < 3 {
		fmt.Fprintln(os.Stderr, "usage: mut list <file> | mut apply <file> <id> <out>")
		os.Exit(2)
	}
	src, err := os.ReadFile(os.Args[2])
	if err != nil {
		panic(err)
	}
	fset := token.NewFileSet()
	f, err := parser.ParseFile(fset, os.Args[2], src, parser.ParseComments)
	if err != nil {
		panic(err)
	}
	pts := collect(fset, f, src)
	switch os.Args[1] {
	case "list":
		enc := json.NewEncoder(os.Stdout)
		for _, p := range pts {
			enc.Encode(p)
		}
	case "apply":
		id, _ := strconv.Atoi(os.Args[3])
		pts[id].apply()
		var b bytes.Buffer
		if err := format.Node(&b, fset, f); err != nil {
			panic(err)
		}
		if err := os.WriteFile(os.Args[4], b.Bytes(), 0o644); err != nil {
			panic(err)
		}
	}
}
