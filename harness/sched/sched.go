// Package sched is the controlled scheduler for the code instrumented with the
// `verif` hooks of /repo/sync2: exactly one goroutine under test runs at a
// time; it runs until its next hook, parks there and reports (label, key,
// object); the scheduler decides who goes next. Mutexes (m.mu of a Map, and the
// user-level mutexes of the keyed mutexes) are tracked by the scheduler, so a
// goroutine asking for a held mutex is simply not offered and never blocks for
// real. The executed sequence of steps is the trace that the Coq model replays.
package sched

import (
	"fmt"
	"strings"

	"gopkg.in/typ.v4/sync2"
)

type Step struct {
	T     int
	Label string // Coq constructor name
	Key   int    // key of a map-iteration hook, else 0
}

type pending struct {
	label string
	key   any
	obj   any
	done  bool
}

type gor struct {
	id   int
	gate chan struct{}
	pend pending
	fin  bool
}

// Thread is the program of one goroutine: each call returns its result as a
// Coq `res` term. When Dyn is set it is run instead of Calls and reports each
// result through rec (for programs whose next call depends on earlier results).
type Thread struct {
	Calls []func() string
	Dyn   func(rec func(result string))
}

type Chooser func(stepIdx int, enabled []int, last int) int

type Result struct {
	Steps    []Step
	Results  [][]string
	Deadlock bool
	// exploration data: at step i the enabled set and the choice made
	Enabled [][]int
	Chosen  []int
	Panic   string
}

type mstate struct {
	locked  bool
	readers int
}

// labelMap: hook name -> Coq constructor
func CoqLabel(l string) string {
	switch {
	case l == "e.load":
		return "E_load"
	case l == "storeLocked":
		return "StoreLocked"
	case strings.HasPrefix(l, "LoadOrStore."):
		return "LOS_" + l[len("LoadOrStore."):]
	case strings.HasPrefix(l, "LoadAndDelete."):
		return "LAD_" + l[len("LoadAndDelete."):]
	case strings.HasPrefix(l, "tlos."):
		return "Tlos_" + l[5:]
	case strings.HasPrefix(l, "KeyedMutex."):
		switch l[len("KeyedMutex."):] {
		case "LockKey":
			return "KM_Lock"
		case "TryLockKey":
			return "KM_TryLock"
		case "UnlockKey":
			return "KM_Unlock"
		}
	case strings.HasPrefix(l, "KeyedRWMutex."):
		switch l[len("KeyedRWMutex."):] {
		case "LockKey":
			return "KRW_Lock"
		case "TryLockKey":
			return "KRW_TryLock"
		case "UnlockKey":
			return "KRW_Unlock"
		case "RLockKey":
			return "KRW_RLock"
		case "TryRLockKey":
			return "KRW_TryRLock"
		case "RUnlockKey":
			return "KRW_RUnlock"
		}
	}
	i := strings.IndexByte(l, '.')
	if i < 0 {
		return "Unknown_" + l
	}
	return strings.ToUpper(l[:1]) + l[1:i] + "_" + l[i+1:]
}

func kindOf(coq string) string {
	switch {
	case strings.HasSuffix(coq, "_lock"), coq == "KM_Lock", coq == "KRW_Lock":
		return "lock"
	case strings.HasSuffix(coq, "_unlock"), coq == "KM_Unlock", coq == "KRW_Unlock":
		return "unlock"
	case coq == "KM_TryLock", coq == "KRW_TryLock":
		return "trylock"
	case coq == "KRW_RLock":
		return "rlock"
	case coq == "KRW_TryRLock":
		return "tryrlock"
	case coq == "KRW_RUnlock":
		return "runlock"
	}
	return ""
}

var stepsSoFar int

// StepsSoFar is the number of steps executed so far in the current run (callable from the goroutines under test).
func StepsSoFar() int { return stepsSoFar }

// Run executes the threads under the chooser. maxSteps bounds runaway schedules (CAS loops).
func Run(threads []Thread, choose Chooser, maxSteps int) (res Result) {
	n := len(threads)
	gs := make([]*gor, n)
	parked := make(chan *gor)
	var current *gor
	res.Results = make([][]string, n)
	sync2.VerifHook = func(label string, key any, obj any) {
		g := current
		g.pend = pending{label: label, key: key, obj: obj}
		parked <- g
		<-g.gate
	}
	defer func() { sync2.VerifHook = nil }()
	var panicMsg string
	for i := range gs {
		g := &gor{id: i, gate: make(chan struct{})}
		gs[i] = g
		calls := threads[i].Calls
		dyn := threads[i].Dyn
		go func() {
			<-g.gate
			defer func() {
				if r := recover(); r != nil {
					panicMsg = fmt.Sprint(r)
				}
				g.pend = pending{done: true}
				parked <- g
			}()
			if dyn != nil {
				dyn(func(r string) { res.Results[g.id] = append(res.Results[g.id], r) })
				return
			}
			for _, c := range calls {
				res.Results[g.id] = append(res.Results[g.id], c())
			}
		}()
	}
	// bring every goroutine to its first hook (private code only)
	for _, g := range gs {
		current = g
		g.gate <- struct{}{}
		<-parked
		if g.pend.done {
			g.fin = true
		}
	}
	mus := map[any]*mstate{}
	mu := func(o any) *mstate {
		m := mus[o]
		if m == nil {
			m = &mstate{}
			mus[o] = m
		}
		return m
	}
	last := -1
	stepsSoFar = 0
	for step := 0; ; step++ {
		if panicMsg != "" {
			res.Panic = panicMsg
			return
		}
		var enabled []int
		live := 0
		for _, g := range gs {
			if g.fin {
				continue
			}
			live++
			coq := CoqLabel(g.pend.label)
			ok := true
			switch kindOf(coq) {
			case "lock":
				m := mu(g.pend.obj)
				ok = !m.locked && m.readers == 0
			case "rlock":
				ok = !mu(g.pend.obj).locked
			}
			if ok {
				enabled = append(enabled, g.id)
			}
		}
		if live == 0 {
			return
		}
		if len(enabled) == 0 || step >= maxSteps {
			res.Deadlock = true // (or step bound hit: reported the same way; callers keep maxSteps generous)
			if step >= maxSteps {
				res.Panic = "step bound exceeded"
			}
			return
		}
		t := choose(step, enabled, last)
		g := gs[t]
		coq := CoqLabel(g.pend.label)
		key := 0
		if k, ok := g.pend.key.(int); ok {
			key = k
		}
		// releasing a mutex that is not held is a fatal (unrecoverable) runtime error in Go: stop the run
		// here and report it instead of letting the process die
		if k := kindOf(coq); (k == "unlock" && !mu(g.pend.obj).locked) || (k == "runlock" && mu(g.pend.obj).readers == 0) {
			res.Panic = fmt.Sprintf("thread %d is about to unlock a mutex that is not locked (%s): fatal error in Go", t, coq)
			return
		}
		res.Steps = append(res.Steps, Step{T: t, Label: coq, Key: key})
		stepsSoFar = len(res.Steps)
		res.Enabled = append(res.Enabled, enabled)
		res.Chosen = append(res.Chosen, t)
		switch kindOf(coq) {
		case "lock":
			mu(g.pend.obj).locked = true
		case "unlock":
			mu(g.pend.obj).locked = false
		case "trylock":
			if m := mu(g.pend.obj); !m.locked && m.readers == 0 {
				m.locked = true
			}
		case "rlock":
			mu(g.pend.obj).readers++
		case "tryrlock":
			if m := mu(g.pend.obj); !m.locked {
				m.readers++
			}
		case "runlock":
			mu(g.pend.obj).readers--
		}
		last = t
		current = g
		g.gate <- struct{}{}
		<-parked
		if g.pend.done {
			g.fin = true
		}
	}
}

// ---- choosers ----

// NonPreemptive keeps running the last thread while it is enabled, else the lowest enabled id.
func NonPreemptive(step int, enabled []int, last int) int {
	for _, e := range enabled {
		if e == last {
			return e
		}
	}
	return enabled[0]
}

// Prefix follows a fixed prefix of choices, then the default policy.
func Prefix(prefix []int) Chooser {
	return func(step int, enabled []int, last int) int {
		if step < len(prefix) {
			for _, e := range enabled {
				if e == prefix[step] {
					return e
				}
			}
		}
		return NonPreemptive(step, enabled, last)
	}
}

// Then follows a fixed prefix of choices and afterwards the given chooser.
func Then(prefix []int, next Chooser) Chooser {
	return func(step int, enabled []int, last int) int {
		if step < len(prefix) {
			for _, e := range enabled {
				if e == prefix[step] {
					return e
				}
			}
		}
		return next(step, enabled, last)
	}
}

// Random picks uniformly, with a bias towards continuing the same thread (pct).
func Random(intn func(int) int, stayPct int) Chooser {
	return func(step int, enabled []int, last int) int {
		if intn(100) < stayPct {
			for _, e := range enabled {
				if e == last {
					return e
				}
			}
		}
		return enabled[intn(len(enabled))]
	}
}

// Explore enumerates every schedule with at most maxPreempt pre-emptions (a
// pre-emption = switching away from a thread that is still enabled), calling
// visit for each; build must create fresh threads (fresh objects) every time.
// Returns the number of schedules run; stops early when visit returns false or limit is reached.
func Explore(build func() []Thread, maxPreempt, maxSteps, limit int, visit func(Result) bool) int {
	count := 0
	var rec func(prefix []int) bool
	rec = func(prefix []int) bool {
		if count >= limit {
			return false
		}
		r := Run(build(), Prefix(prefix), maxSteps)
		count++
		if !visit(r) {
			return false
		}
		for j := len(prefix); j < len(r.Chosen); j++ {
			// pre-emptions used by r.Chosen[:j]
			pre := 0
			for i := 1; i < j; i++ {
				if r.Chosen[i] != r.Chosen[i-1] && contains(r.Enabled[i], r.Chosen[i-1]) {
					pre++
				}
			}
			for _, alt := range r.Enabled[j] {
				if alt == r.Chosen[j] {
					continue
				}
				p := pre
				if j > 0 && contains(r.Enabled[j], r.Chosen[j-1]) && alt != r.Chosen[j-1] {
					p++
				}
				if p > maxPreempt {
					continue
				}
				np := append(append([]int{}, r.Chosen[:j]...), alt)
				if !rec(np) {
					return false
				}
			}
		}
		return true
	}
	rec(nil)
	return count
}

// ExploreBFS enumerates schedules breadth-first by number of deviations from the default
// (non-pre-emptive) policy: first the default schedule, then every schedule with one forced switch,
// then two, ... up to maxPre pre-emptions and at most limit runs. run must execute the program from
// scratch following the given prefix of thread choices; base is a prefix that is never deviated from
// (a sequential set-up phase). visit sees every result.
func ExploreBFS(run func(prefix []int) Result, base []int, maxPre, limit int, visit func(r Result)) int {
	type node struct{ prefix []int }
	queue := []node{{base}}
	count := 0
	for len(queue) > 0 && count < limit {
		n := queue[0]
		queue = queue[1:]
		r := run(n.prefix)
		count++
		visit(r)
		for j := len(n.prefix); j < len(r.Chosen); j++ {
			if j < len(base) {
				continue
			}
			pre := 0
			for i := len(base) + 1; i < j; i++ {
				if r.Chosen[i] != r.Chosen[i-1] && contains(r.Enabled[i], r.Chosen[i-1]) {
					pre++
				}
			}
			for _, alt := range r.Enabled[j] {
				if alt == r.Chosen[j] {
					continue
				}
				p := pre
				if j > len(base) && contains(r.Enabled[j], r.Chosen[j-1]) && alt != r.Chosen[j-1] {
					p++
				}
				if p > maxPre {
					continue
				}
				if len(queue)+count < 4*limit { // bound the frontier
					queue = append(queue, node{append(append([]int{}, r.Chosen[:j]...), alt)})
				}
			}
		}
	}
	return count
}

func contains(s []int, x int) bool {
	for _, v := range s {
		if v == x {
			return true
		}
	}
	return false
}

// CoqSteps prints the trace for SyncMap/Check.v.
func CoqSteps(steps []Step) string {
	parts := make([]string, len(steps))
	for i, s := range steps {
		k := fmt.Sprint(s.Key)
		if s.Key < 0 {
			k = "(" + k + ")"
		}
		parts[i] = fmt.Sprintf("(%d,%s,%s)", s.T, s.Label, k)
	}
	return "[" + strings.Join(parts, ";") + "]"
}
