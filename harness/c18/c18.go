// Package c18: sync2.AtomicValue is an atomic register; sync2.Pool never hands
// one item to two users.
//
// AtomicValue: sequential op sequences against a reference register, concurrent
// stress histories of 2..8 goroutines checked by a brute-force linearizability
// checker (real-time order from a global clock), and a targeted probe of
// CompareAndSwap against concurrent Stores of an equal (heap-boxed) value.
// Pool: goroutines Get/Put items carrying an ownership flag, with and without New.
package c18

import (
	"encoding/json"
	"fmt"
	"runtime"
	"strconv"
	"strings"
	"sync"
	"sync/atomic"
	"time"

	"gopkg.in/typ.v4/sync2"
	"verif/harness/core"
)

// Op kinds of AtomicValue: "L" Load, "S" Store A, "W" Swap A, "C" CompareAndSwap(A, B).
// Op kinds of Pool: "G" Get, "H" Put(held[A]), "F" Put(new item), "Z" Put(zero value).
type Op struct {
	K string `json:"k"`
	A int    `json:"a,omitempty"`
	B int    `json:"b,omitempty"`
}

type Case struct {
	Kind   string `json:"kind"`             // atomic | casprobe | pool | poolbulk
	T      string `json:"t,omitempty"`      // atomic, casprobe: the instantiation AtomicValue[T]: "" = int, "string", "struct"
	Single bool   `json:"single,omitempty"` // atomic: the program has one possible outcome (small CAS probe); the model must agree on every schedule
	Progs  [][]Op `json:"progs,omitempty"`
	New    bool   `json:"new,omitempty"`    // pool: New hook set
	X      int    `json:"x,omitempty"`      // casprobe: the stored value
	Iters  int    `json:"iters,omitempty"`  // casprobe: iterations
	Jitter uint64 `json:"jitter,omitempty"` // seed of the per-goroutine yields

	// poolbulk: large Pool histories generated from a few numbers (the op lists are derived, see bulkProgs)
	Pattern string `json:"pattern,omitempty"` // fill-drain | get-put-get | random-walk
	N       int    `json:"n,omitempty"`       // items parked in the pool at the peak (outstanding Puts), over all goroutines
	Threads int    `json:"threads,omitempty"`
	Extra   int    `json:"extra,omitempty"` // Gets beyond the number of parked items when draining
}

func init() {
	core.Register(&core.Prop{ID: "C18", Module: "Sync.AtomicPoolCheck", Run: run, Replay: replay})
}

func replay(c *core.Ctx, raw json.RawMessage) error {
	var cs Case
	if err := json.Unmarshal(raw, &cs); err != nil {
		return err
	}
	// scheduling is not ours to repeat exactly: replay the scenario many times (the first run also goes to the model)
	exec(c, cs)
	c.NoModel = true
	t0 := time.Now()
	for i := 0; i < 100000 && len(c.Failures) == 0 && time.Since(t0) < 8*time.Second; i++ {
		exec(c, cs)
	}
	return nil
}

var atomVals = []int{0, 300, 1, 301, 2, 70000} // 0 = the zero value; >= 256 are boxed on the heap by Go

func randAtomOp(r *core.Rand) Op  { return randAtomOpN(r, len(atomVals)) }
func randAtomOp2(r *core.Rand) Op { return randAtomOpN(r, 2) } // universe {0, 300}: CompareAndSwap often succeeds

func randAtomOpN(r *core.Rand, nv int) Op {
	v := func() int { return atomVals[r.Intn(nv)] }
	switch k := r.Intn(10); {
	case k < 3:
		return Op{K: "L"}
	case k < 5:
		return Op{K: "S", A: v()}
	case k < 7:
		return Op{K: "W", A: v()}
	default:
		return Op{K: "C", A: v(), B: v()}
	}
}

func randPoolOp(r *core.Rand) Op {
	switch k := r.Intn(10); {
	case k < 5:
		return Op{K: "G"}
	case k < 8:
		return Op{K: "H", A: r.Intn(3)}
	case k < 9:
		return Op{K: "F"}
	default:
		return Op{K: "Z"}
	}
}

// values around every boxing / word-size threshold, negative values, extremes
var bigVals = []int{0, -1, 1, 127, 128, 254, 255, 256, 257, -255, -256, 65535, 65536, 1<<31 - 1, 1 << 31, -(1 << 31), 1 << 32, 1<<53 + 1, 1 << 62, 1<<63 - 1, -(1 << 63)}

func randAtomOpBig(r *core.Rand) Op {
	o := randAtomOpN(r, 2)
	pick := func() int {
		if r.Chance(50) {
			return bigVals[r.Intn(len(bigVals))]
		}
		return bigVals[r.Intn(4)+3] // a few values often, so that CompareAndSwap succeeds
	}
	o.A, o.B = pick(), pick()
	if o.K == "L" {
		o.A, o.B = 0, 0
	} else if o.K != "C" {
		o.B = 0
	}
	return o
}

// bulkProgs derives the op lists of a poolbulk case.
func bulkProgs(cs Case) [][]Op {
	th := cs.Threads
	if th < 1 {
		th = 1
	}
	r := core.NewRand(cs.Jitter ^ 0x5bd1e995)
	out := make([][]Op, th)
	for t := range out {
		n := cs.N / th
		if t < cs.N%th {
			n++
		}
		var p []Op
		rep := func(o Op, k int) {
			for ; k > 0; k-- {
				p = append(p, o)
			}
		}
		switch cs.Pattern {
		case "fill-drain":
			rep(Op{K: "F"}, n)
			rep(Op{K: "G"}, n+cs.Extra)
		case "get-put-get":
			rep(Op{K: "G"}, n)
			rep(Op{K: "H", A: 0}, n)
			rep(Op{K: "G"}, n+cs.Extra)
		default: // random-walk upwards to n parked items, then drain
			parked := 0
			for parked < n {
				if parked > 0 && r.Chance(30) {
					p = append(p, Op{K: "G"})
					parked--
				} else if r.Chance(25) {
					p = append(p, Op{K: "H", A: r.Intn(4)}) // gives back an item it holds, if any (does not always park one)
				} else {
					p = append(p, Op{K: "F"})
					parked++
				}
			}
			rep(Op{K: "G"}, n+cs.Extra)
		}
		out[t] = p
	}
	return out
}

func progs(r *core.Rand, n, maxOps int, gen func(*core.Rand) Op) [][]Op {
	p := make([][]Op, n)
	for t := range p {
		for k := 1 + r.Intn(maxOps); k > 0; k-- {
			p[t] = append(p[t], gen(r))
		}
	}
	return p
}

func run(c *core.Ctx) {
	if c.Tier == "race" {
		spinYield = 2000
	}
	// exhaustive: every sequential sequence of up to 3 ops over values {0,1,300} on one goroutine
	var small []Op
	small = append(small, Op{K: "L"})
	for _, a := range []int{0, 1, 300} {
		small = append(small, Op{K: "S", A: a}, Op{K: "W", A: a})
		for _, b := range []int{0, 1, 300} {
			small = append(small, Op{K: "C", A: a, B: b})
		}
	}
	for _, a := range small {
		exec(c, Case{Kind: "atomic", Progs: [][]Op{{a}}})
		for _, b := range small {
			exec(c, Case{Kind: "atomic", Progs: [][]Op{{a, b}}})
			if c.Tier == "thorough" || c.Tier == "search" {
				for _, d := range small {
					exec(c, Case{Kind: "atomic", Progs: [][]Op{{a, b, d}}})
				}
			}
		}
	}
	// the same small sequential histories on AtomicValue[string] and AtomicValue[struct] (Go oracle only)
	for _, T := range []string{"string", "struct"} {
		for _, a := range small {
			exec(c, Case{Kind: "atomic", T: T, Progs: [][]Op{{a}}})
			for _, b := range small {
				exec(c, Case{Kind: "atomic", T: T, Progs: [][]Op{{a, b}}})
			}
		}
	}
	c.Exhaustive = true
	c.Note("exhaustive (this scope only): every SEQUENTIAL AtomicValue history of <= 2 (quick) / 3 calls over Load, Store/Swap/CompareAndSwap with values {0,1,300} (int; <= 2 calls also for string and struct); everything else is sampled: random sequential, concurrent stress, CAS probes and Pool scenarios")
	// random sequential histories
	for i := c.N(300, 5000, 3000); i > 0; i-- {
		exec(c, Case{Kind: "atomic", Progs: progs(c.Rng, 1, 12, randAtomOp)})
	}
	// concurrent histories: small ones are also checked against the model's outcome set
	for i := c.N(1500, 20000, 12000); i > 0; i-- {
		n, ops := 2+c.Rng.Intn(2), 3
		if c.Rng.Chance(40) {
			n, ops = 2+c.Rng.Intn(7), 7
		}
		gen := randAtomOp
		if c.Rng.Bool() {
			gen = randAtomOp2
		}
		exec(c, Case{Kind: "atomic", Progs: progs(c.Rng, n, ops, gen), Jitter: c.Rng.Uint64()})
	}
	// the same on AtomicValue[string] and AtomicValue[struct{int64; string}] (multi-word T; Go oracles only)
	for _, T := range []string{"string", "struct"} {
		for i := c.N(60, 1000, 600); i > 0; i-- {
			exec(c, Case{Kind: "atomic", T: T, Progs: progs(c.Rng, 1, 12, randAtomOp)})
		}
		for i := c.N(300, 7000, 4000); i > 0; i-- {
			n, ops := 2+c.Rng.Intn(2), 3
			if c.Rng.Chance(40) {
				n, ops = 2+c.Rng.Intn(7), 7
			}
			gen := randAtomOp
			if c.Rng.Bool() {
				gen = randAtomOp2
			}
			exec(c, Case{Kind: "atomic", T: T, Progs: progs(c.Rng, n, ops, gen), Jitter: c.Rng.Uint64()})
		}
	}
	// CompareAndSwap against concurrent Stores of an equal value
	for i := c.N(40, 400, 400); i > 0; i-- {
		x := []int{300, 70000, 1 << 40, 7, 0}[c.Rng.Intn(5)]
		exec(c, Case{Kind: "casprobe", X: x, Iters: c.N(1500, 4000, 4000), T: []string{"", "", "string", "struct"}[c.Rng.Intn(4)]})
	}
	// the same probe as a small recorded history that also goes to the model: goroutine 0 stores x and then calls
	// CompareAndSwap(x,x) (and a CompareAndSwap that must fail, and a Load) while goroutine 1 stores the equal value x.
	// The register holds x from goroutine 0's Store on, so the outcome is unique; the Coq side requires EVERY
	// interleaving of the model's steps (both results of the pointer comparison, every retry) to produce it.
	for i := c.N(200, 3000, 2000); i > 0; i-- {
		x := []int{300, 70000, 1 << 40, 7, 0}[c.Rng.Intn(5)]
		p0 := []Op{{K: "S", A: x}}
		for k := 1 + c.Rng.Intn(3); k > 0; k-- {
			p0 = append(p0, Op{K: "C", A: x, B: x})
		}
		if c.Rng.Bool() {
			p0 = append(p0[:2:2], append([]Op{{K: "C", A: x + 1, B: x + 2}}, p0[2:]...)...)
		}
		if len(p0) < 5 {
			p0 = append(p0, Op{K: "L"})
		}
		var p1 []Op
		for k := 1 + c.Rng.Intn(4); k > 0; k-- {
			p1 = append(p1, Op{K: "S", A: x})
		}
		exec(c, Case{Kind: "atomic", Single: true, Progs: [][]Op{p0, p1}, Jitter: c.Rng.Uint64()})
	}
	if !c.NoModel {
		if probeRetry == 0 {
			c.Note("CAS probes sent to the model: in NONE of them did a Store overlap a CompareAndSwap(x,x) in real time, so the model's retry path (failing pointer comparison, Load, retry) was not executed by the Coq check in this run")
		} else {
			c.Note(fmt.Sprintf("CAS probes sent to the model: in %d of them a Store really overlapped a CompareAndSwap(x,x); on these the Coq check runs the model's retry path (stat atomic_probe_model_runs_cas_retry_path)", probeRetry))
		}
	}
	// Pool
	for i := c.N(1500, 20000, 12000); i > 0; i-- {
		n, ops := 1+c.Rng.Intn(3), 4
		if c.Rng.Chance(40) {
			n, ops = 2+c.Rng.Intn(7), 8
		}
		exec(c, Case{Kind: "pool", New: c.Rng.Chance(65), Progs: progs(c.Rng, n, ops, randPoolOp), Jitter: c.Rng.Uint64()})
	}
	// ---- oracle-heavy, model-sampled streams (large cases: Go oracles only) ----
	sizes := []int{15, 16, 17, 31, 32, 33, 63, 64, 65, 66, 127, 128, 129, 130, 255, 256, 257, 511, 512, 513, 1023, 1024, 1025, 2047, 2048, 2049, 4095, 4096, 4097}
	if c.Tier == "race" {
		sizes = sizes[:17] // the race detector is slow; up to 257
	}
	// Pool with many items parked at once, then drained
	for _, n := range sizes {
		for _, pat := range []string{"fill-drain", "get-put-get", "random-walk"} {
			exec(c, Case{Kind: "poolbulk", New: true, Pattern: pat, N: n, Threads: 1, Extra: 1 + n%3, Jitter: c.Rng.Uint64()})
			exec(c, Case{Kind: "poolbulk", New: true, Pattern: pat, N: n, Threads: 2 + c.Rng.Intn(3), Extra: 2, Jitter: c.Rng.Uint64()})
		}
		exec(c, Case{Kind: "poolbulk", New: false, Pattern: "fill-drain", N: n, Threads: 1 + n%2, Extra: 1, Jitter: c.Rng.Uint64()})
	}
	for i := c.N(60, 600, 300); i > 0; i-- {
		n := c.Rng.Size(300)
		exec(c, Case{Kind: "poolbulk", New: c.Rng.Chance(85), Pattern: []string{"fill-drain", "get-put-get", "random-walk"}[c.Rng.Intn(3)],
			N: n, Threads: 1 + c.Rng.Intn(8), Extra: c.Rng.Intn(4), Jitter: c.Rng.Uint64()})
	}
	// AtomicValue: wide value range (boxing and word-size thresholds, negatives, extremes)
	for i := c.N(200, 3000, 1500); i > 0; i-- {
		exec(c, Case{Kind: "atomic", Progs: progs(c.Rng, 1, 12, randAtomOpBig)})
	}
	for i := c.N(400, 6000, 3000); i > 0; i-- {
		n, ops := 2+c.Rng.Intn(2), 3
		if c.Rng.Chance(40) {
			n, ops = 2+c.Rng.Intn(7), 7
		}
		exec(c, Case{Kind: "atomic", Progs: progs(c.Rng, n, ops, randAtomOpBig), Jitter: c.Rng.Uint64()})
	}
	// AtomicValue: long sequential histories, and many goroutines with one call each
	for _, n := range sizes {
		p := make([]Op, n)
		for i := range p {
			if i%2 == 0 {
				p[i] = randAtomOp2(c.Rng)
			} else {
				p[i] = randAtomOpBig(c.Rng)
			}
		}
		exec(c, Case{Kind: "atomic", Progs: [][]Op{p}})
		if n <= 60 {
			exec(c, Case{Kind: "atomic", Progs: progs(c.Rng, n, 1, randAtomOp2), Jitter: c.Rng.Uint64()})
		}
	}
}

// barrier releases n goroutines at the same instant (spinning, so that they really run in parallel).
var spinYield = 200000 // iterations a goroutine spins on the barrier before yielding

func barrier(ready *int32, n int) {
	atomic.AddInt32(ready, 1)
	// spin without yielding for a while: yielding early lets one P run all goroutines one after the other
	// (with more goroutines than processors, spinning only delays the ones that have not started yet)
	y := spinYield
	if n > runtime.GOMAXPROCS(0) {
		y = 64
	}
	for i := 0; atomic.LoadInt32(ready) < int32(n); i++ {
		if i%y == y-1 {
			runtime.Gosched()
		}
	}
}

// A call that does not return is a failure of the case (livelock in the CompareAndSwap loop, deadlock). The limit
// is wall-clock time and the machine may be heavily loaded (the goroutines of a case spin on a barrier), so it is
// generous; after the first such failure the remaining cases of that family are skipped (the leaked goroutines
// keep running), which bounds the time a stuck implementation costs.
const callTimeout = 60 * time.Second

var stuck = map[string]bool{} // "atomic" / "pool"

var probeRetry int // emitted single-outcome probes in which a Store overlapped a CompareAndSwap(x,x)

func family(kind string) string {
	if kind == "pool" || kind == "poolbulk" {
		return "pool"
	}
	return "atomic"
}

func exec(c *core.Ctx, cs Case) {
	if stuck[family(cs.Kind)] {
		c.Count("skipped_after_stuck_call")
		return
	}
	c.Begin(cs)
	c.Count("kind_" + cs.Kind)
	switch cs.Kind {
	case "atomic":
		switch cs.T {
		case "":
			execAtomic(c, cs, intCodec)
		case "string":
			c.Count("atomic_T_string")
			execAtomic(c, cs, stringCodec)
		case "struct":
			c.Count("atomic_T_struct")
			execAtomic(c, cs, structCodec)
		}
	case "casprobe":
		switch cs.T {
		case "":
			execProbe(c, cs, intCodec)
		case "string":
			c.Count("casprobe_T_string")
			execProbe(c, cs, stringCodec)
		case "struct":
			c.Count("casprobe_T_struct")
			execProbe(c, cs, structCodec)
		}
	case "pool":
		execPool(c, cs)
	case "poolbulk":
		c.Count("poolbulk_" + cs.Pattern)
		switch {
		case cs.N <= 64:
			c.Count("poolbulk_parked_0-64")
		case cs.N <= 257:
			c.Count("poolbulk_parked_65-257")
		default:
			c.Count("poolbulk_parked_258-4097")
		}
		d := cs
		d.Progs = bulkProgs(cs)
		execPool(c, d)
	}
}

// ---------------------------------------------------------------- AtomicValue

type rec struct {
	t        int
	op       Op
	val      int  // Load / Swap result
	ok       bool // CompareAndSwap result
	inv, ret int64
}

func (r rec) String() string {
	switch r.op.K {
	case "L":
		return fmt.Sprintf("g%d Load()=%d", r.t, r.val)
	case "S":
		return fmt.Sprintf("g%d Store(%d)", r.t, r.op.A)
	case "W":
		return fmt.Sprintf("g%d Swap(%d)=%d", r.t, r.op.A, r.val)
	}
	return fmt.Sprintf("g%d CAS(%d,%d)=%v", r.t, r.op.A, r.op.B, r.ok)
}

// codec maps the int values of a program to values of the instantiation type T and back. enc allocates
// (equal values of a multi-word T are different objects with equal contents, as Go's == compares them);
// dec reports whether the value is one enc could have made (a torn multi-word value is not).
type codec[T comparable] struct {
	name string
	emit bool // int only: the case also goes to the Coq model
	enc  func(int) T
	dec  func(T) (int, bool)
}

type small struct {
	A int64
	S string
}

var intCodec = codec[int]{name: "int", emit: true, enc: func(n int) int { return n }, dec: func(n int) (int, bool) { return n, true }}

var stringCodec = codec[string]{name: "string",
	enc: func(n int) string {
		if n == 0 {
			return "" // the zero value
		}
		return string(append([]byte("v"), strconv.Itoa(n)...)) // built at run time: a new object every time
	},
	dec: func(s string) (int, bool) {
		if s == "" {
			return 0, true
		}
		n, err := strconv.Atoi(strings.TrimPrefix(s, "v"))
		return n, err == nil && strings.HasPrefix(s, "v") && n != 0
	}}

var structCodec = codec[small]{name: "struct",
	enc: func(n int) small {
		if n == 0 {
			return small{}
		}
		return small{A: int64(n), S: string(append([]byte("s"), strconv.Itoa(n)...))}
	},
	dec: func(v small) (int, bool) {
		if v == (small{}) {
			return 0, true
		}
		return int(v.A), v.A != 0 && v.S == "s"+strconv.Itoa(int(v.A)) // both words belong to the same Store
	}}

func execAtomic[T comparable](c *core.Ctx, cs Case, cd codec[T]) {
	n := len(cs.Progs)
	total := 0
	for _, p := range cs.Progs {
		total += len(p)
		for _, o := range p {
			c.Count("atomic_op_" + o.K)
		}
	}
	if n == 1 {
		c.Count("atomic_sequential")
	} else {
		c.Count("atomic_concurrent")
	}
	var v sync2.AtomicValue[T]
	var clock int64
	recs := make([][]rec, n)
	var torn int32
	var wg sync.WaitGroup
	var ready int32
	panicked := ""
	var pmu sync.Mutex
	for t := 0; t < n; t++ {
		wg.Add(1)
		go func(t int) {
			defer wg.Done()
			jr := core.NewRand(cs.Jitter + uint64(t)*104729)
			barrier(&ready, n)
			for _, o := range cs.Progs[t] {
				if n > 1 && cs.Jitter%2 == 1 {
					for y := jr.Intn(3); y > 0; y-- {
						runtime.Gosched()
					}
				}
				r := rec{t: t, op: o}
				x, y := cd.enc(o.A), cd.enc(o.B) // allocated before the call is stamped
				var out T
				k := core.Try(func() {
					r.inv = atomic.AddInt64(&clock, 1)
					switch o.K {
					case "L":
						out = v.Load()
					case "S":
						v.Store(x)
					case "W":
						out = v.Swap(x)
					case "C":
						r.ok = v.CompareAndSwap(x, y)
					}
					r.ret = atomic.AddInt64(&clock, 1)
				})
				if k == "" && (o.K == "L" || o.K == "W") {
					var good bool
					if r.val, good = cd.dec(out); !good {
						atomic.AddInt32(&torn, 1)
					}
				}
				if k != "" {
					pmu.Lock()
					panicked = k + " in " + r.String()
					pmu.Unlock()
					return
				}
				recs[t] = append(recs[t], r)
			}
		}(t)
	}
	done := make(chan struct{})
	go func() { wg.Wait(); close(done) }()
	select {
	case <-done:
	case <-time.After(callTimeout):
		c.Fail("AtomicValue call did not return", callTimeout.String())
		stuck["atomic"] = true
		return
	}
	if panicked != "" {
		c.Fail("AtomicValue call panicked", panicked)
		return
	}
	if torn > 0 {
		c.Fail("AtomicValue["+cd.name+"] returned a value that no single Store wrote (torn or foreign value)", fmt.Sprintf("%d results", torn))
		return
	}
	// direct oracle: the history must be linearizable to one atomic register
	var all []rec
	for _, rs := range recs {
		all = append(all, rs...)
	}
	overlap := false
	for _, a := range all {
		if a.op.K == "C" {
			c.Count(fmt.Sprintf("atomic_cas_%v", a.ok))
		}
		for _, b := range all {
			if a.t != b.t && a.inv < b.ret && b.inv < a.ret {
				overlap = true
			}
		}
	}
	if overlap {
		c.Count("atomic_histories_with_overlapping_calls")
		c.Nontrivial() // calls of different goroutines really overlapped
	}
	if n == 1 {
		if msg := sequentialOracle(all); msg != "" {
			c.Fail(msg, histString(all))
		}
	} else if len(all) > maxLin {
		c.Unobservable("AtomicValue linearizability oracle: history longer than the checker's limit") // never generated by run()
	} else if !linearizable(all) {
		c.Fail("AtomicValue["+cd.name+"] history is not linearizable to an atomic register", histString(all))
	}
	if cs.Single {
		c.Count("atomic_single_outcome_probe")
		c.Nontrivial()
		// Did a Store of the equal value really overlap a CompareAndSwap(x,x) in time? Then the schedule "Store
		// between the two steps of atomic.Value.CompareAndSwap" is consistent with the recorded real-time order, so
		// the Coq side (which evaluates EVERY consistent schedule of a probe) runs the model's failing pointer
		// comparison, the Load after it and the retry of the loop on this case.
		retry := false
		for _, a := range all {
			for _, b := range all {
				if a.t != b.t && a.op.K == "C" && a.op.A == a.op.B && b.op.K == "S" && a.inv < b.ret && b.inv < a.ret {
					retry = true
				}
			}
		}
		if retry && cd.emit && !c.NoModel {
			c.Count("atomic_probe_model_runs_cas_retry_path")
			probeRetry++
		}
	}
	// model: small histories only (the Coq side searches schedules without memoisation). Every call carries its
	// invocation and response ranks on the global clock: the Coq search respects the real-time order too.
	if cd.emit && (n <= 3 && total <= 9 || n == 1 && total <= 40) {
		ths := make([]string, n)
		for t, rs := range recs {
			calls := make([]string, len(rs))
			for i, r := range rs {
				calls[i] = core.Pair(core.Pair(coqOp(r.op), coqRes(r)), core.Pair(core.Z64(r.inv), core.Z64(r.ret)))
			}
			ths[t] = core.List(calls)
		}
		c.Emit("CaseAtomic " + core.Bool(cs.Single) + " " + core.List(ths))
	}
}

func coqOp(o Op) string {
	switch o.K {
	case "L":
		return "OLoad"
	case "S":
		return "OStore " + core.Z(o.A)
	case "W":
		return "OSwap " + core.Z(o.A)
	}
	return "OCas " + core.Z(o.A) + " " + core.Z(o.B)
}

func coqRes(r rec) string {
	switch r.op.K {
	case "L", "W":
		return "RVal " + core.Z(r.val)
	case "S":
		return "RUnit"
	}
	return "RBool " + core.Bool(r.ok)
}

func histString(all []rec) string {
	parts := make([]string, len(all))
	for i, r := range all {
		parts[i] = fmt.Sprintf("%s @[%d,%d]", r, r.inv, r.ret)
	}
	return strings.Join(parts, "; ")
}

// reference register: the property text, literally
type reg struct {
	set bool
	val int
}

func (g reg) apply(r rec) (reg, bool) {
	cur := 0
	if g.set {
		cur = g.val
	}
	switch r.op.K {
	case "L":
		return g, r.val == cur
	case "S":
		return reg{true, r.op.A}, true
	case "W":
		return reg{true, r.op.A}, r.val == cur
	}
	// CompareAndSwap: once a value has been stored, succeeds exactly when current == old.
	// Before the first Store the property leaves it open (atomic.Value, and so the present code, reports false
	// because old is a non-nil interface): either answer is accepted, true meaning that new was stored.
	if !g.set {
		if r.ok {
			return reg{true, r.op.B}, true
		}
		return g, true
	}
	if g.val == r.op.A {
		return reg{true, r.op.B}, r.ok
	}
	return g, !r.ok
}

func sequentialOracle(all []rec) string {
	g := reg{}
	for i, r := range all {
		ng, ok := g.apply(r)
		if !ok {
			return fmt.Sprintf("sequential AtomicValue call %d (%s) disagrees with the register (state set=%v val=%d)", i, r, g.set, g.val)
		}
		g = ng
	}
	return ""
}

// linearizable: Wing-Gong search with memoisation on (set of linearized calls, register).
const maxLin = 62 // calls per history the bitmask of the checker can hold

func linearizable(all []rec) bool {
	type key struct {
		mask uint64
		g    reg
	}
	dead := map[key]bool{}
	full := uint64(1)<<uint(len(all)) - 1
	var rec func(mask uint64, g reg) bool
	rec = func(mask uint64, g reg) bool {
		if mask == full {
			return true
		}
		k := key{mask, g}
		if dead[k] {
			return false
		}
		// earliest response among the calls not yet linearized: only calls invoked before it may go next
		minRet := int64(1 << 62)
		for i, r := range all {
			if mask&(1<<uint(i)) == 0 && r.ret < minRet {
				minRet = r.ret
			}
		}
		for i, r := range all {
			if mask&(1<<uint(i)) != 0 || r.inv > minRet {
				continue
			}
			if ng, ok := g.apply(r); ok && rec(mask|1<<uint(i), ng) {
				return true
			}
		}
		dead[k] = true
		return false
	}
	return rec(0, reg{})
}

func execProbe[T comparable](c *core.Ctx, cs Case, cd codec[T]) {
	c.Nontrivial()
	var v sync2.AtomicValue[T]
	xi := cs.X + len(cs.Kind) - len("casprobe") // not a compile-time constant: boxed at run time
	x, x1, x2 := cd.enc(xi), cd.enc(xi+1), cd.enc(xi+2)
	v.Store(x)
	var stop int32
	var wg sync.WaitGroup
	wg.Add(1)
	go func() {
		defer wg.Done()
		for atomic.LoadInt32(&stop) == 0 {
			v.Store(cd.enc(xi)) // an equal value in a new box
		}
	}()
	spurious, wrong := 0, 0
	for i := 0; i < cs.Iters; i++ {
		// the register holds x at every instant, so CompareAndSwap(x, x) must succeed
		if !v.CompareAndSwap(x, x) {
			spurious++
		}
		if i%64 == 0 && v.CompareAndSwap(x1, x2) {
			wrong++
		}
	}
	atomic.StoreInt32(&stop, 1)
	wg.Wait()
	if spurious > 0 {
		c.Fail("AtomicValue.CompareAndSwap spurious failure (concurrent Store of an equal value)",
			fmt.Sprintf("AtomicValue[%s]: register held %v throughout while another goroutine stored %v; %d of %d CompareAndSwap(%v,%v) calls returned false", cd.name, x, x, spurious, cs.Iters, x, x))
	}
	if wrong > 0 || v.Load() != x {
		c.Fail("AtomicValue.CompareAndSwap succeeded although the current value differs from old", fmt.Sprintf("%d times; final value %v", wrong, v.Load()))
	}
}

// ---------------------------------------------------------------- Pool

type item struct {
	state  int32 // 0 = held by a user (or just made), 1 = in the pool
	byNew  bool  // made by the New hook
	owner  int   // label: allocating goroutine, index of the allocation there; -1 = not labelled yet
	idx    int
	gotCnt int32
}

func execPool(c *core.Ctx, cs Case) {
	n := len(cs.Progs)
	total := 0
	for _, p := range cs.Progs {
		total += len(p)
		for _, o := range p {
			c.Count("pool_op_" + o.K)
		}
	}
	if cs.New {
		c.Count("pool_with_New")
	} else {
		c.Count("pool_without_New")
	}
	if n >= 2 {
		c.Nontrivial() // at least two goroutines share the pool
	}
	var p sync2.Pool[*item]
	var newCalls, zeroPuts, zeroGets, statNew, statReused int64
	if cs.New {
		p.New = func() *item {
			atomic.AddInt64(&newCalls, 1)
			return &item{byNew: true, owner: -1}
		}
	}
	type obs struct {
		zero       bool
		owner, idx int
	}
	got := make([][]obs, n)
	// small histories also go to the Coq model, with the invocation and response rank of every call on a global
	// clock (the Coq search respects the real-time order). The clock is an atomic counter shared by the goroutines:
	// it is NOT used in the race tier or in the larger histories, where it would add happens-before edges between
	// the goroutines and could hide a data race of Get/Put from the race detector.
	emit := !c.NoModel && n <= 3 && total <= 10
	var clock int64
	ranks := make([][][2]int64, n)
	for t := range ranks {
		ranks[t] = make([][2]int64, len(cs.Progs[t]))
	}
	var fmu sync.Mutex
	var fails [][2]string
	fail := func(what, detail string) {
		fmu.Lock()
		fails = append(fails, [2]string{what, detail})
		fmu.Unlock()
	}
	var wg sync.WaitGroup
	var ready int32
	for t := 0; t < n; t++ {
		wg.Add(1)
		go func(t int) {
			defer wg.Done()
			jr := core.NewRand(cs.Jitter + uint64(t)*104729)
			var held []*item
			fresh := 0
			barrier(&ready, n)
			for i, o := range cs.Progs[t] {
				if n > 1 && cs.Jitter%2 == 1 {
					for y := jr.Intn(3); y > 0; y-- {
						runtime.Gosched()
					}
				}
				stampRet := func() {
					if emit {
						ranks[t][i][1] = atomic.AddInt64(&clock, 1)
					}
				}
				if emit {
					ranks[t][i][0] = atomic.AddInt64(&clock, 1)
				}
				switch o.K {
				case "G":
					before := atomic.LoadInt64(&newCalls)
					x := p.Get()
					stampRet()
					if x == nil {
						got[t] = append(got[t], obs{zero: true})
						held = append(held, nil)
						// with New set, a zero value can only be one that was Put before and not handed out since
						if cs.New && atomic.AddInt64(&zeroGets, 1) > atomic.LoadInt64(&zeroPuts) {
							fail("Pool.Get returned the zero value although New is set and no zero value was in the pool", fmt.Sprintf("goroutine %d op %d", t, i))
						}
						continue
					}
					if x.owner == -1 {
						// never seen before: must be a fresh result of New, made during this call
						if !x.byNew || atomic.LoadInt64(&newCalls) == before {
							fail("Pool.Get returned an unknown item", fmt.Sprintf("goroutine %d op %d", t, i))
						}
						x.owner, x.idx = t, fresh
						fresh++
						if atomic.AddInt32(&x.gotCnt, 1) != 1 {
							fail("Pool.Get handed one item to two users", fmt.Sprintf("fresh item seen twice, goroutine %d op %d", t, i))
						}
					} else if !atomic.CompareAndSwapInt32(&x.state, 1, 0) {
						// a labelled item must have been Put and not handed out since
						fail("Pool.Get handed one item to two users", fmt.Sprintf("goroutine %d op %d got item (%d,%d) which is still held by a user", t, i, x.owner, x.idx))
					}
					got[t] = append(got[t], obs{false, x.owner, x.idx})
					if x.byNew && x.owner == t && x.idx == fresh-1 && atomic.LoadInt32(&x.gotCnt) == 1 && atomic.LoadInt64(&newCalls) != before {
						atomic.AddInt64(&statNew, 1)
					} else {
						atomic.AddInt64(&statReused, 1)
					}
					held = append(held, x)
				case "H":
					if o.A < len(held) {
						x := held[o.A]
						held = append(held[:o.A:o.A], held[o.A+1:]...)
						if x != nil {
							atomic.StoreInt32(&x.state, 1)
						} else {
							atomic.AddInt64(&zeroPuts, 1)
						}
						p.Put(x)
					}
					stampRet()
				case "F":
					x := &item{owner: t, idx: fresh, state: 1}
					fresh++
					p.Put(x)
					stampRet()
				case "Z":
					atomic.AddInt64(&zeroPuts, 1)
					p.Put(nil)
					stampRet()
				}
			}
		}(t)
	}
	done := make(chan struct{})
	go func() { wg.Wait(); close(done) }()
	select {
	case <-done:
	case <-time.After(callTimeout):
		c.Fail("Pool call did not return", callTimeout.String())
		stuck["pool"] = true
		return
	}
	for _, f := range fails {
		c.Fail(f[0], f[1])
	}
	c.CountN("pool_get_new_item", int(statNew))
	c.CountN("pool_get_reused_item", int(statReused))
	c.CountN("pool_get_zero", int(zeroGets))
	if emit {
		ths := make([]string, n)
		for t, p := range cs.Progs {
			ops := make([]string, len(p))
			gi := 0
			for i, o := range p {
				switch o.K {
				case "G":
					g := got[t][gi]
					gi++
					ops[i] = "ZGet " + core.Opt(!g.zero, core.Pair(core.Z(g.owner), core.Z(g.idx)))
				case "H":
					ops[i] = "ZPutHeld " + core.Z(o.A)
				case "F":
					ops[i] = "ZPutFresh"
				default:
					ops[i] = "ZPutZero"
				}
				ops[i] = core.Pair(ops[i], core.Pair(core.Z64(ranks[t][i][0]), core.Z64(ranks[t][i][1])))
			}
			ths[t] = core.List(ops)
		}
		c.Emit("CasePool " + core.Bool(cs.New) + " " + core.List(ths))
	}
}
