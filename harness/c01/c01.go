// Package c01: the AVL tree is a sorted multiset under every operation
// history (contents level; the shape belongs to C02).
//
// A case is an element type and a history of ops over tree handles. The
// history is run on the real avl.Tree; every output is checked against a
// reference multiset per handle (direct oracle), the three walks are checked
// to be traversals of one binary tree, other handles are re-read after every
// mutating op (independence), and the history with the observed outputs is
// emitted as a Coq case for Avl/CheckC01.v.
package c01

import (
	"encoding/json"
	"fmt"
	"reflect"
	"sort"

	"verif/harness/avlh"
	"verif/harness/core"
)

type Case struct {
	Elem    string    `json:"elem"` // int | pair
	Profile string    `json:"profile"`
	Ops     []avlh.Op `json:"ops"`
}

func init() {
	core.Register(&core.Prop{ID: "C01", Module: "Avl.CheckC01", Run: run, Replay: replay})
}

func replay(c *core.Ctx, raw json.RawMessage) error {
	var cs Case
	if err := json.Unmarshal(raw, &cs); err != nil {
		return err
	}
	exec(c, cs)
	return nil
}

const universe = 16 // values 0..15

// ---------------------------------------------------------------- generation

type gen struct {
	r       *core.Rand
	ops     []avlh.Op
	n       int   // number of handles
	sz      []int // approximate size per handle (for choosing what to do)
	last    int   // a value added recently (for duplicate Adds)
	inSpice bool
}

func (g *gen) emit(k string, h, v int) { g.ops = append(g.ops, avlh.Op{K: k, H: h, V: v}) }

// observe appends observation ops on handle h; they are ordinary ops of the case.
func (g *gen) observe(h int, full bool) {
	g.emit("In", h, 0)
	g.emit("Len", h, 0)
	if full || g.r.Chance(25) {
		g.emit("Pre", h, 0)
		g.emit("Post", h, 0)
	}
	if full || g.r.Chance(15) {
		for v := -1; v <= universe; v++ {
			g.emit("Contains", h, v)
		}
	} else if g.r.Chance(50) {
		g.emit("Contains", h, g.r.Range(-1, universe))
	}
}

func (g *gen) mutate(k string, h, v int, obsPct int) {
	g.emit(k, h, v)
	switch k {
	case "Add":
		g.sz[h]++
	case "Remove":
		if g.sz[h] > 0 {
			g.sz[h]--
		}
	case "Clear":
		g.sz[h] = 0
	case "Clone":
		g.sz = append(g.sz, g.sz[h])
		g.n++
	}
	if k == "Add" {
		g.last = v
	}
	if g.r.Chance(obsPct) {
		g.observe(h, false)
		if k == "Clone" {
			g.observe(g.n-1, false)
		}
	}
	// every profile is spiced with the situations the property names: a duplicate Add, a Remove
	// of a value that is certainly absent, a Clone of a tree with several elements
	if !g.inSpice && g.r.Chance(12) {
		g.inSpice = true
		switch g.r.Intn(3) {
		case 0:
			if g.sz[h] > 0 {
				g.mutate("Add", h, g.last, obsPct)
			}
		case 1:
			g.mutate("Remove", h, []int{-1, universe, universe + 1}[g.r.Intn(3)], 90)
		default:
			if g.sz[h] >= 2 && g.n < 6 {
				g.mutate("Clone", h, 0, 100)
			}
		}
		g.inSpice = false
	}
}

var profiles = []string{"sorted", "reverse", "churn", "dups", "absent", "clones", "mixed"}

// history builds one structured random history with about `steps` mutating ops.
func history(r *core.Rand, profile string, steps int) []avlh.Op {
	g := &gen{r: r, n: 1, sz: []int{0}}
	obs := 35
	if steps > 80 {
		obs = 6
	}
	switch profile {
	case "sorted", "reverse":
		// monotone insertion (the rotation-heavy order), then removals in some order
		nAdd := steps * 2 / 3
		for i := 0; i < nAdd; i++ {
			v := i * universe / (nAdd + 1)
			if nAdd <= universe {
				v = i
			}
			if profile == "reverse" {
				v = universe - 1 - v
			}
			g.mutate("Add", 0, v, obs)
		}
		if r.Chance(40) {
			g.mutate("Clone", 0, 0, 100)
		}
		for i := nAdd; i < steps; i++ {
			h := r.Intn(g.n)
			switch r.Intn(3) {
			case 0:
				g.mutate("Remove", h, i%universe, obs)
			case 1:
				g.mutate("Remove", h, universe-1-i%universe, obs)
			default:
				g.mutate("Remove", h, r.Intn(universe), obs)
			}
		}
	case "churn":
		for i := 0; i < steps; i++ {
			if r.Chance(55) {
				g.mutate("Add", 0, r.Intn(universe), obs)
			} else {
				g.mutate("Remove", 0, r.Intn(universe), obs)
			}
		}
	case "dups":
		a, b := r.Intn(universe), r.Intn(universe)
		pick := func() int {
			if r.Chance(70) {
				return a
			}
			return b
		}
		for i := 0; i < steps; i++ {
			switch {
			case r.Chance(65):
				g.mutate("Add", 0, pick(), obs)
			case r.Chance(85):
				g.mutate("Remove", 0, pick(), obs)
			default:
				g.mutate("Remove", 0, r.Intn(universe), obs)
			}
		}
	case "absent":
		// even values go in, mostly odd (absent) values are removed
		for i := 0; i < steps; i++ {
			switch {
			case r.Chance(45):
				g.mutate("Add", 0, 2*r.Intn(universe/2), obs)
			case r.Chance(75):
				g.mutate("Remove", 0, 2*r.Intn(universe/2)+1, 80)
			case r.Chance(50):
				g.mutate("Remove", 0, r.Range(-2, universe+1), 80)
			default:
				g.mutate("Remove", 0, 2*r.Intn(universe/2), obs)
			}
		}
	case "clones", "mixed":
		for i := 0; i < steps; i++ {
			h := r.Intn(g.n)
			k := r.Intn(100)
			switch {
			case k < 45:
				g.mutate("Add", h, r.Intn(universe), obs)
			case k < 75:
				g.mutate("Remove", h, r.Intn(universe), obs)
			case k < 87 && g.n < 6:
				g.mutate("Clone", h, 0, 100)
			case k < 90 && profile == "mixed":
				g.mutate("Clear", h, 0, 100)
			case k < 92 && profile == "mixed":
				g.emit("Remove", g.n+r.Intn(2), r.Intn(universe)) // bad handle
			default:
				g.mutate("Add", h, r.Intn(universe), obs)
			}
		}
	}
	for h := 0; h < g.n; h++ {
		g.observe(h, h == 0 || r.Chance(30))
	}
	return g.ops
}

// alphabet of the exhaustive small scope (universe {0,1,2}, two handles at most)
func smallAlphabet() []avlh.Op {
	var a []avlh.Op
	for v := 0; v < 3; v++ {
		a = append(a, avlh.Op{K: "Add", H: 0, V: v})
	}
	for v := 0; v < 3; v++ {
		a = append(a, avlh.Op{K: "Remove", H: 0, V: v})
	}
	a = append(a, avlh.Op{K: "Clone", H: 0}, avlh.Op{K: "Add", H: 1, V: 1}, avlh.Op{K: "Remove", H: 1, V: 1})
	return a
}

func run(c *core.Ctx) {
	// 1. exhaustive: every sequence of length L over the small alphabet, observed after every op
	alpha := smallAlphabet()
	L := c.N(4, 5, 6)
	idx := make([]int, L)
	count := 0
	for {
		var ops []avlh.Op
		for _, i := range idx {
			o := alpha[i]
			ops = append(ops, o, avlh.Op{K: "In", H: o.H}, avlh.Op{K: "Len", H: o.H})
		}
		for h := 0; h < 2; h++ {
			ops = append(ops, avlh.Op{K: "Pre", H: h}, avlh.Op{K: "Post", H: h}, avlh.Op{K: "In", H: h})
			for v := 0; v < 3; v++ {
				ops = append(ops, avlh.Op{K: "Contains", H: h, V: v})
			}
		}
		exec(c, Case{Elem: "int", Profile: "exhaustive", Ops: ops})
		count++
		k := L - 1
		for k >= 0 {
			idx[k]++
			if idx[k] < len(alpha) {
				break
			}
			idx[k] = 0
			k--
		}
		if k < 0 {
			break
		}
	}
	c.Exhaustive = true
	c.Note(fmt.Sprintf("exhaustive: all %d histories of %d mutating ops over {Add,Remove}x{0,1,2} on handle 0, Clone 0, Add/Remove 1 on handle 1 (bad handle before the Clone), each op followed by In+Len, full observation at the end; plus structured random histories", count, L))

	// 2. structured random histories; most short, a few long
	n := c.N(2400, 40000, 60000)
	for i := 0; i < n; i++ {
		profile := profiles[i%len(profiles)]
		steps := 8 + c.Rng.Size(40)
		if i%50 == 7 {
			steps = c.Rng.Range(100, 330) // long: few observations in between, up to ~400 ops
		}
		elem := "int"
		if i%3 == 1 {
			elem = "pair"
		}
		exec(c, Case{Elem: elem, Profile: profile, Ops: history(c.Rng, profile, steps)})
	}
}

// ---------------------------------------------------------------- execution + oracle

type snap struct {
	pre, in, post []int
	n             int
}

func exec(c *core.Ctx, cs Case) {
	c.Begin(cs)
	c.Count("elem_" + cs.Elem)
	c.Count("profile_" + cs.Profile)
	var ts avlh.Trees
	if cs.Elem == "pair" {
		ts = avlh.NewPair()
	} else {
		ts = avlh.NewInt()
	}
	ref := [][]int{nil} // reference multiset per handle, kept sorted
	snaps := []snap{{}}
	outs := make([]avlh.Out, 0, len(cs.Ops))
	var twoCh, absent, dup, clone2 bool
	failed := false
	fail := func(i int, what, detail string) {
		if !failed { // one report per case is enough
			c.Fail(what, fmt.Sprintf("op #%d %+v: %s", i, cs.Ops[i], detail))
		}
		failed = true
	}
	maxSize := 0
	for i, o := range cs.Ops {
		c.Count("op_" + o.K)
		valid := o.H >= 0 && o.H < len(ref)
		// facts about the state before the op, for the non-triviality rule
		if valid && o.K == "Remove" {
			if containsInt(ref[o.H], o.V) {
				if removesTwoChildrenNode(ts.Root(o.H), o.V) {
					twoCh = true
					c.Count("remove_two_children")
				}
			} else {
				absent = true
				c.Count("remove_absent")
			}
		}
		if valid && o.K == "Add" && containsInt(ref[o.H], o.V) {
			dup = true
			c.Count("add_duplicate")
		}
		if valid && o.K == "Clone" && len(ref[o.H]) >= 2 {
			clone2 = true
			c.Count("clone_ge2")
		}

		out := ts.Exec(o)
		outs = append(outs, out)
		if out.Kind == "panic" {
			c.Count("panic_" + out.Panic)
			fail(i, "panic", out.Panic)
			break // state after a panic is unspecified; the case ends here
		}
		if !valid {
			if out.Kind != "badhandle" {
				fail(i, "bad handle accepted", out.Kind)
			}
			continue
		}
		h := o.H
		mutating := false
		switch o.K {
		case "Add":
			ref[h] = insertSorted(ref[h], o.V)
			mutating = true
		case "Remove":
			present := containsInt(ref[h], o.V)
			if out.B != present {
				fail(i, "Remove result", fmt.Sprintf("returned %v but value present=%v in %v", out.B, present, ref[h]))
			}
			if present {
				ref[h] = removeOne(ref[h], o.V)
			}
			mutating = true
		case "Contains":
			if want := containsInt(ref[h], o.V); out.B != want {
				fail(i, "Contains", fmt.Sprintf("returned %v, want %v; contents %v", out.B, want, ref[h]))
			}
		case "Len":
			if out.I != len(ref[h]) {
				fail(i, "Len", fmt.Sprintf("returned %d, want %d; contents %v", out.I, len(ref[h]), ref[h]))
			}
		case "Clear":
			ref[h] = nil
			mutating = true
		case "Clone":
			ref = append(ref, append([]int(nil), ref[h]...))
			snaps = append(snaps, snap{})
			mutating = true
		case "In":
			if !core.Eq(out.L, ref[h]) {
				fail(i, "in-order walk", fmt.Sprintf("got %v, want sorted multiset %v", out.L, ref[h]))
			}
		case "Pre", "Post":
			if !core.Eq(sorted(out.L), ref[h]) {
				fail(i, o.K+"-order walk is not a permutation of the contents", fmt.Sprintf("got %v, contents %v", out.L, ref[h]))
			}
		}
		if len(ref[h]) > maxSize {
			maxSize = len(ref[h])
		}
		if !mutating {
			continue
		}
		// "shares no state": the node sets of all handles are disjoint and each is a tree (white-box, read-only);
		// checked first, because walking a shared or cyclic structure need not terminate
		if msg := disjointTrees(c, ts, len(ref)); msg != "" {
			fail(i, "tree handles share state", msg)
			break
		}
		// probes after a mutating op (not part of the Coq case): full read of every handle
		for g := range ref {
			s, msg := probe(c, ts, g, ref[g], cs.Elem)
			if msg != "" {
				fail(i, "after the op, handle "+fmt.Sprint(g)+": "+msg, fmt.Sprintf("reference contents %v", ref[g]))
			}
			touched := g == h && o.K != "Clone" || (o.K == "Clone" && g == len(ref)-1)
			if !touched && !(core.Eq(s.pre, snaps[g].pre) && core.Eq(s.in, snaps[g].in) && core.Eq(s.post, snaps[g].post) && s.n == snaps[g].n) {
				fail(i, "op changed another handle", fmt.Sprintf("handle %d was pre=%v in=%v post=%v len=%d, now pre=%v in=%v post=%v len=%d",
					g, snaps[g].pre, snaps[g].in, snaps[g].post, snaps[g].n, s.pre, s.in, s.post, s.n))
			}
			if o.K == "Remove" && !outs[i].B && g == h && !(core.Eq(s.pre, snaps[g].pre) && core.Eq(s.post, snaps[g].post) && s.n == snaps[g].n) {
				fail(i, "Remove of an absent value changed the tree", fmt.Sprintf("was pre=%v len=%d, now pre=%v len=%d", snaps[g].pre, snaps[g].n, s.pre, s.n))
			}
			snaps[g] = s
		}
	}
	if twoCh && absent && dup && clone2 {
		c.Nontrivial()
	}
	switch {
	case maxSize >= 64:
		c.Count("maxsize_64plus")
	case maxSize >= 16:
		c.Count("maxsize_16to63")
	default:
		c.Count("maxsize_under16")
	}
	c.CountN("ops_total", len(cs.Ops))
	c.Emit(avlh.CoqCase(cs.Ops[:len(outs)], outs))
}

// probe reads handle g completely and checks it against the reference contents.
func probe(c *core.Ctx, ts avlh.Trees, g int, want []int, elem string) (snap, string) {
	var s snap
	get := func(k string) ([]int, int, string) {
		o := ts.Exec(avlh.Op{K: k, H: g})
		if o.Kind == "panic" {
			return nil, 0, k + " panicked: " + o.Panic
		}
		return o.L, o.I, ""
	}
	var msg string
	if s.pre, _, msg = get("Pre"); msg != "" {
		return s, msg
	}
	if s.in, _, msg = get("In"); msg != "" {
		return s, msg
	}
	if s.post, _, msg = get("Post"); msg != "" {
		return s, msg
	}
	if _, s.n, msg = get("Len"); msg != "" {
		return s, msg
	}
	if s.n != len(want) {
		return s, fmt.Sprintf("Len = %d, want %d", s.n, len(want))
	}
	if !core.Eq(s.in, want) {
		return s, fmt.Sprintf("SliceInOrder = %v is not the sorted multiset", s.in)
	}
	if !core.Eq(sorted(s.pre), want) || !core.Eq(sorted(s.post), want) {
		return s, fmt.Sprintf("pre-order %v / post-order %v are not permutations of the contents", s.pre, s.post)
	}
	var wpre, win, wpost []int
	var str string
	if k := core.Try(func() { wpre, win, wpost, str = avlh.Walks(ts, g) }); k != "" {
		return s, "Walk*/String panicked: " + k
	}
	if !core.Eq(wpre, s.pre) || !core.Eq(win, s.in) || !core.Eq(wpost, s.post) {
		return s, fmt.Sprintf("Walk* callbacks (%v %v %v) differ from Slice* (%v %v %v)", wpre, win, wpost, s.pre, s.in, s.post)
	}
	if elem == "int" {
		if l, ok := avlh.ParseIntList(str); !ok || !core.Eq(l, s.in) {
			return s, fmt.Sprintf("String() = %q does not list the in-order walk %v", str, s.in)
		}
	}
	for v := -1; v <= universe; v++ {
		o := ts.Exec(avlh.Op{K: "Contains", H: g, V: v})
		if o.Kind == "panic" {
			return s, "Contains panicked: " + o.Panic
		}
		if o.B != containsInt(want, v) {
			return s, fmt.Sprintf("Contains(%d) = %v", v, o.B)
		}
	}
	budget := 200000
	switch oneTree(s.pre, s.in, s.post, &budget) {
	case 0:
		return s, fmt.Sprintf("pre %v, in %v, post %v are not three traversals of one binary tree", s.pre, s.in, s.post)
	case 2:
		c.Count("one_tree_check_skipped")
	}
	return s, ""
}

// oneTree: is there a binary tree whose pre-, in- and post-order walks are the
// given sequences? 1 yes, 0 no, 2 gave up (budget). With distinct values the
// tree is unique (rebuilt from pre+in); with duplicates every split point
// carrying the root value is tried.
func oneTree(pre, in, post []int, budget *int) int {
	n := len(in)
	if len(pre) != n || len(post) != n {
		return 0
	}
	if n == 0 {
		return 1
	}
	root := pre[0]
	if post[n-1] != root {
		return 0
	}
	gaveUp := false
	for k := 0; k < n; k++ {
		if in[k] != root {
			continue
		}
		*budget -= n
		if *budget < 0 {
			return 2
		}
		if !sameMultiset(pre[1:1+k], in[:k]) || !sameMultiset(post[:k], in[:k]) {
			continue
		}
		l := oneTree(pre[1:1+k], in[:k], post[:k], budget)
		if l == 0 {
			continue
		}
		r := oneTree(pre[1+k:], in[k+1:], post[k:n-1], budget)
		if l == 1 && r == 1 {
			return 1
		}
		if l == 2 || r == 2 {
			gaveUp = true
		}
	}
	if gaveUp {
		return 2
	}
	return 0
}

func sameMultiset(a, b []int) bool {
	if len(a) != len(b) {
		return false
	}
	var cnt [universe + 4]int
	for _, v := range a {
		cnt[(v+2)%(universe+4)]++
	}
	for _, v := range b {
		cnt[(v+2)%(universe+4)]--
	}
	for _, x := range cnt {
		if x != 0 {
			return false
		}
	}
	return true
}

// disjointTrees walks the node pointers of every handle by reflection: no node may be reached twice,
// neither inside one handle (cycle / shared subtree) nor from two handles (a clone sharing nodes).
func disjointTrees(c *core.Ctx, ts avlh.Trees, n int) (msg string) {
	defer func() {
		if recover() != nil {
			c.Count("structure_probe_unavailable")
			msg = ""
		}
	}()
	owner := map[uintptr]int{}
	for g := 0; g < n; g++ {
		stack := []reflect.Value{reflect.ValueOf(ts.Root(g)).Elem().FieldByName("root")}
		for len(stack) > 0 {
			cur := stack[len(stack)-1]
			stack = stack[:len(stack)-1]
			if cur.IsNil() {
				continue
			}
			p := cur.Pointer()
			if o, seen := owner[p]; seen {
				if o == g {
					return fmt.Sprintf("handle %d: a node is reachable along two paths (not a tree)", g)
				}
				return fmt.Sprintf("handles %d and %d share a node", o, g)
			}
			owner[p] = g
			stack = append(stack, cur.Elem().FieldByName("left"), cur.Elem().FieldByName("right"))
		}
	}
	return ""
}

// removesTwoChildrenNode looks (by reflection, read-only) at the node that
// node.remove would delete for value v: the first node with that value on the
// comparator-directed descent. Statistics only.
func removesTwoChildrenNode(tree any, v int) (two bool) {
	defer func() {
		if recover() != nil {
			two = false
		}
	}()
	cur := reflect.ValueOf(tree).Elem().FieldByName("root")
	for !cur.IsNil() {
		n := cur.Elem()
		val := n.FieldByName("value")
		var x int
		if val.Kind() == reflect.Struct {
			x = int(val.Field(0).Int())<<2 | int(val.Field(1).Int())
		} else {
			x = int(val.Int())
		}
		l, r := n.FieldByName("left"), n.FieldByName("right")
		switch {
		case x == v:
			return !l.IsNil() && !r.IsNil()
		case !l.IsNil() && v < x:
			cur = l
		case !r.IsNil():
			cur = r
		default:
			return false
		}
	}
	return false
}

func containsInt(s []int, v int) bool {
	i := sort.SearchInts(s, v)
	return i < len(s) && s[i] == v
}
func insertSorted(s []int, v int) []int {
	i := sort.SearchInts(s, v)
	s = append(s, 0)
	copy(s[i+1:], s[i:])
	s[i] = v
	return s
}
func removeOne(s []int, v int) []int {
	i := sort.SearchInts(s, v)
	return append(s[:i:i], s[i+1:]...)
}
func sorted(s []int) []int {
	t := append([]int(nil), s...)
	sort.Ints(t)
	return t
}
