// Package c01: the AVL tree is a sorted multiset under every operation
// history (contents level; the shape belongs to C02).
//
// A case is an element type and a history of ops over tree handles. The
// history is run on the real avl.Tree; every output is checked against a
// reference multiset per handle (direct oracle), the three walks are checked
// to be traversals of one binary tree, other handles are re-read after every
// mutating op (independence), and the history with the observed outputs is
// emitted as a Coq case for Avl/CheckC01.v.
package c01

import (
	"encoding/json"
	"fmt"
	"reflect"
	"sort"

	"verif/harness/avlh"
	"verif/harness/core"
)

type Case struct {
	Elem    string    `json:"elem"` // int | pair
	Profile string    `json:"profile"`
	Ops     []avlh.Op `json:"ops,omitempty"`
	Large   *Large    `json:"large,omitempty"`   // a large history, regenerated from these parameters (largeHistory)
	NoModel bool      `json:"nomodel,omitempty"` // oracle only: not emitted to the Coq model
}

// Large describes one history of the oracle-heavy stream; the op list is a
// deterministic function of it (so the replay file stays small).
type Large struct {
	Kind  string `json:"kind"`  // growshrink | churn | clone | handles
	N     int    `json:"n"`     // target tree size
	U     int    `json:"u"`     // values are drawn from 0..U-1 (U < N: heavy duplicates)
	Order int    `json:"order"` // 0 ascending/FIFO, 1 descending/LIFO, 2 random
	H     int    `json:"h"`     // number of handles (kind handles)
	Seed  uint64 `json:"seed"`
}

func init() {
	core.Register(&core.Prop{ID: "C01", Module: "Avl.CheckC01", Run: run, Replay: replay})
}

func replay(c *core.Ctx, raw json.RawMessage) error {
	var cs Case
	if err := json.Unmarshal(raw, &cs); err != nil {
		return err
	}
	exec(c, cs)
	return nil
}

const universe = 16 // values 0..15

// ---------------------------------------------------------------- generation

type gen struct {
	r       *core.Rand
	ops     []avlh.Op
	n       int   // number of handles
	sz      []int // approximate size per handle (for choosing what to do)
	last    int   // a value added recently (for duplicate Adds)
	inSpice bool
}

func (g *gen) emit(k string, h, v int) { g.ops = append(g.ops, avlh.Op{K: k, H: h, V: v}) }

// observe appends observation ops on handle h; they are ordinary ops of the case.
func (g *gen) observe(h int, full bool) {
	g.emit("In", h, 0)
	g.emit("Len", h, 0)
	if full || g.r.Chance(25) {
		g.emit("Pre", h, 0)
		g.emit("Post", h, 0)
	}
	if full || g.r.Chance(15) {
		for v := -1; v <= universe; v++ {
			g.emit("Contains", h, v)
		}
	} else if g.r.Chance(50) {
		g.emit("Contains", h, g.r.Range(-1, universe))
	}
}

func (g *gen) mutate(k string, h, v int, obsPct int) {
	g.emit(k, h, v)
	switch k {
	case "Add":
		g.sz[h]++
	case "Remove":
		if g.sz[h] > 0 {
			g.sz[h]--
		}
	case "Clear":
		g.sz[h] = 0
	case "Clone":
		g.sz = append(g.sz, g.sz[h])
		g.n++
	}
	if k == "Add" {
		g.last = v
	}
	if g.r.Chance(obsPct) {
		g.observe(h, false)
		if k == "Clone" {
			g.observe(g.n-1, false)
		}
	}
	// every profile is spiced with the situations the property names: a duplicate Add, a Remove
	// of a value that is certainly absent, a Clone of a tree with several elements
	if !g.inSpice && g.r.Chance(12) {
		g.inSpice = true
		switch g.r.Intn(3) {
		case 0:
			if g.sz[h] > 0 {
				g.mutate("Add", h, g.last, obsPct)
			}
		case 1:
			g.mutate("Remove", h, []int{-1, universe, universe + 1}[g.r.Intn(3)], 90)
		default:
			if g.sz[h] >= 2 && g.n < 6 {
				g.mutate("Clone", h, 0, 100)
			}
		}
		g.inSpice = false
	}
}

var profiles = []string{"sorted", "reverse", "churn", "dups", "absent", "clones", "mixed"}

// history builds one structured random history with about `steps` mutating ops.
func history(r *core.Rand, profile string, steps int) []avlh.Op {
	g := &gen{r: r, n: 1, sz: []int{0}}
	obs := 35
	if steps > 80 {
		obs = 6
	}
	switch profile {
	case "sorted", "reverse":
		// monotone insertion (the rotation-heavy order), then removals in some order
		nAdd := steps * 2 / 3
		for i := 0; i < nAdd; i++ {
			v := i * universe / (nAdd + 1)
			if nAdd <= universe {
				v = i
			}
			if profile == "reverse" {
				v = universe - 1 - v
			}
			g.mutate("Add", 0, v, obs)
		}
		if r.Chance(40) {
			g.mutate("Clone", 0, 0, 100)
		}
		for i := nAdd; i < steps; i++ {
			h := r.Intn(g.n)
			switch r.Intn(3) {
			case 0:
				g.mutate("Remove", h, i%universe, obs)
			case 1:
				g.mutate("Remove", h, universe-1-i%universe, obs)
			default:
				g.mutate("Remove", h, r.Intn(universe), obs)
			}
		}
	case "churn":
		for i := 0; i < steps; i++ {
			if r.Chance(55) {
				g.mutate("Add", 0, r.Intn(universe), obs)
			} else {
				g.mutate("Remove", 0, r.Intn(universe), obs)
			}
		}
	case "dups":
		a, b := r.Intn(universe), r.Intn(universe)
		pick := func() int {
			if r.Chance(70) {
				return a
			}
			return b
		}
		for i := 0; i < steps; i++ {
			switch {
			case r.Chance(65):
				g.mutate("Add", 0, pick(), obs)
			case r.Chance(85):
				g.mutate("Remove", 0, pick(), obs)
			default:
				g.mutate("Remove", 0, r.Intn(universe), obs)
			}
		}
	case "absent":
		// even values go in, mostly odd (absent) values are removed
		for i := 0; i < steps; i++ {
			switch {
			case r.Chance(45):
				g.mutate("Add", 0, 2*r.Intn(universe/2), obs)
			case r.Chance(75):
				g.mutate("Remove", 0, 2*r.Intn(universe/2)+1, 80)
			case r.Chance(50):
				g.mutate("Remove", 0, r.Range(-2, universe+1), 80)
			default:
				g.mutate("Remove", 0, 2*r.Intn(universe/2), obs)
			}
		}
	case "clones", "mixed":
		for i := 0; i < steps; i++ {
			h := r.Intn(g.n)
			k := r.Intn(100)
			switch {
			case k < 45:
				g.mutate("Add", h, r.Intn(universe), obs)
			case k < 75:
				g.mutate("Remove", h, r.Intn(universe), obs)
			case k < 87 && g.n < 6:
				g.mutate("Clone", h, 0, 100)
			case k < 90 && profile == "mixed":
				g.mutate("Clear", h, 0, 100)
			case k < 92 && profile == "mixed":
				g.emit("Remove", g.n+r.Intn(2), r.Intn(universe)) // bad handle
			default:
				g.mutate("Add", h, r.Intn(universe), obs)
			}
		}
	}
	for h := 0; h < g.n; h++ {
		g.observe(h, h == 0 || r.Chance(30))
	}
	return g.ops
}

// alphabet of the exhaustive small scope (universe {0,1,2}, two handles at most)
func smallAlphabet() []avlh.Op {
	var a []avlh.Op
	for v := 0; v < 3; v++ {
		a = append(a, avlh.Op{K: "Add", H: 0, V: v})
	}
	for v := 0; v < 3; v++ {
		a = append(a, avlh.Op{K: "Remove", H: 0, V: v})
	}
	a = append(a, avlh.Op{K: "Clear", H: 0})
	a = append(a, avlh.Op{K: "Clone", H: 0}, avlh.Op{K: "Add", H: 1, V: 1}, avlh.Op{K: "Remove", H: 1, V: 1})
	return a
}

func run(c *core.Ctx) {
	// 1. exhaustive: every sequence of length L over the small alphabet, observed after every op
	alpha := smallAlphabet()
	L := c.N(4, 5, 5) // 10^L histories; the search tier keeps 5 so that one search run stays well inside the time bin/check allows it
	idx := make([]int, L)
	count := 0
	for {
		var ops []avlh.Op
		for _, i := range idx {
			o := alpha[i]
			ops = append(ops, o, avlh.Op{K: "In", H: o.H}, avlh.Op{K: "Len", H: o.H})
			for v := 0; v < 3; v++ { // Contains in the middle of the history, not only at its end
				ops = append(ops, avlh.Op{K: "Contains", H: o.H, V: v})
			}
		}
		for h := 0; h < 2; h++ {
			ops = append(ops, avlh.Op{K: "Pre", H: h}, avlh.Op{K: "Post", H: h}, avlh.Op{K: "In", H: h})
			for v := 0; v < 3; v++ {
				ops = append(ops, avlh.Op{K: "Contains", H: h, V: v})
			}
		}
		exec(c, Case{Elem: "int", Profile: "exhaustive", Ops: ops})
		count++
		k := L - 1
		for k >= 0 {
			idx[k]++
			if idx[k] < len(alpha) {
				break
			}
			idx[k] = 0
			k--
		}
		if k < 0 {
			break
		}
	}
	c.Exhaustive = true
	c.Note(fmt.Sprintf("exhaustive: all %d histories of %d mutating ops over {Add,Remove}x{0,1,2} on handle 0, Clear 0, Clone 0, Add/Remove 1 on handle 1 (bad handle before the Clone), each op followed by In+Len+Contains 0,1,2, full observation at the end; plus structured random histories", count, L))

	// 2. structured random histories; most short, a few long
	n := c.N(2400, 40000, 60000)
	for i := 0; i < n; i++ {
		profile := profiles[i%len(profiles)]
		steps := 8 + c.Rng.Size(40)
		if i%50 == 7 {
			steps = c.Rng.Range(100, 330) // long: few observations in between, up to ~400 ops
		}
		elem := "int"
		if i%3 == 1 {
			elem = "pair"
		}
		exec(c, Case{Elem: elem, Profile: profile, Ops: history(c.Rng, profile, steps)})
	}

	// 3. oracle-heavy stream: large trees (sizes dense around powers of two up to ~4100), heavy
	// duplicates, grow-then-shrink through every size, long churn at a size, clones of large trees,
	// many handles. Checked by the Go oracle; only a small sample also goes to the Coq model.
	k := 0
	large := func(l Large) {
		l.Seed = c.Rng.Uint64()
		elem := "int"
		if k%3 == 1 {
			elem = "pair"
		}
		toModel := (l.N <= 130 && l.H <= 33 && k%5 == 0) || (l.Kind == "growshrink" && (l.N == 257 || l.N == 1025))
		k++
		exec(c, Case{Elem: elem, Profile: "large_" + l.Kind, Large: &l, NoModel: !toModel})
	}
	dupLevel := func(n, i int) int {
		return []int{4*n + 1, n + 1, n/8 + 1, 3, 1, 2*n + 1}[i%6]
	}
	for i, n := range thresholds {
		large(Large{Kind: "growshrink", N: n, U: dupLevel(n, i), Order: i % 3})
		large(Large{Kind: "growshrink", N: n, U: dupLevel(n, i+2), Order: (i + 1) % 3})
		if n >= 15 {
			large(Large{Kind: "churn", N: n, U: []int{2*n + 1, n/4 + 1, 5}[i%3]})
		}
		if n >= 2 && (i%2 == 0 || n >= 1023) {
			large(Large{Kind: "clone", N: n, U: dupLevel(n, i+1)})
		}
	}
	for i, h := range []int{2, 3, 15, 16, 17, 31, 32, 33, 63, 64, 65, 129} {
		large(Large{Kind: "handles", N: 1 + i%7, U: 9, H: h})
	}
	for i := c.N(150, 3000, 3000); i > 0; i-- {
		n := c.Rng.Size(700)
		if i%25 == 0 {
			n = c.Rng.Range(700, 4200)
		}
		kind := []string{"growshrink", "churn", "clone", "growshrink"}[c.Rng.Intn(4)]
		large(Large{Kind: kind, N: n, U: dupLevel(n, c.Rng.Intn(6)), Order: c.Rng.Intn(3)})
	}
}

var thresholds = []int{0, 1, 2, 3, 4, 7, 8, 9, 15, 16, 17, 31, 32, 33, 63, 64, 65, 127, 128, 129, 255, 256, 257,
	511, 512, 513, 1023, 1024, 1025, 2047, 2048, 2049, 4095, 4096, 4097}

var interesting = func() map[int]bool {
	m := map[int]bool{}
	for _, t := range thresholds {
		m[t] = true
	}
	return m
}()

// largeHistory builds the op list of a Large case.
func largeHistory(l Large) []avlh.Op {
	r := core.NewRand(l.Seed)
	u := l.U
	if u < 1 {
		u = 1
	}
	var ops []avlh.Op
	cur := [][]int{nil} // values present per handle, in no particular order
	emit := func(k string, h, v int) { ops = append(ops, avlh.Op{K: k, H: h, V: v}) }
	add := func(h, v int) {
		emit("Add", h, v)
		cur[h] = append(cur[h], v)
	}
	removeAt := func(h, i int) {
		emit("Remove", h, cur[h][i])
		cur[h][i] = cur[h][len(cur[h])-1]
		cur[h] = cur[h][:len(cur[h])-1]
	}
	removePresent := func(h int) {
		if len(cur[h]) > 0 {
			removeAt(h, r.Intn(len(cur[h])))
		}
	}
	removeAbsent := func(h int) { emit("Remove", h, []int{-1, u, u + 1}[r.Intn(3)]) }
	clone := func(h int) {
		emit("Clone", h, 0)
		cur = append(cur, append([]int(nil), cur[h]...))
	}
	look := func(h int) {
		emit("Len", h, 0)
		emit("In", h, 0)
		emit("Pre", h, 0)
		emit("Post", h, 0)
		emit("Contains", h, r.Intn(u))
		emit("Contains", h, -1)
	}
	grow := func(h, n, order int) {
		for i := 0; i < n; i++ {
			switch order {
			case 0:
				add(h, i*u/(n+1))
			case 1:
				add(h, (n-1-i)*u/(n+1))
			default:
				add(h, r.Intn(u))
			}
		}
	}
	switch l.Kind {
	case "growshrink":
		grow(0, l.N, l.Order)
		look(0)
		seq := 0
		for len(cur[0]) > 0 {
			if r.Chance(8) {
				removeAbsent(0)
			}
			switch l.Order {
			case 0: // FIFO: the insertion order (swap-remove perturbs it slightly, which is fine)
				removeAt(0, 0)
			case 1:
				removeAt(0, len(cur[0])-1)
			default:
				removePresent(0)
			}
			if seq++; seq%997 == 0 {
				look(0)
			}
		}
		removeAbsent(0)
	case "churn":
		grow(0, l.N, 2)
		look(0)
		m := 2*l.N + 60
		if m > 3000 {
			m = 3000
		}
		for i := 0; i < m; i++ {
			switch {
			case len(cur[0]) > l.N+1 || (len(cur[0]) >= l.N-1 && len(cur[0]) > 0 && r.Bool()):
				removePresent(0)
			case r.Chance(6):
				removeAbsent(0)
			default:
				add(0, r.Intn(u))
			}
		}
	case "clone":
		grow(0, l.N, 2)
		clone(0) // handle 1
		m := l.N/2 + 8
		if m > 300 {
			m = 300
		}
		for i := 0; i < m; i++ {
			removePresent(1)
			add(0, r.Intn(u))
			if r.Chance(5) {
				removeAbsent(r.Intn(2))
			}
		}
		clone(1) // handle 2
		clone(0) // handle 3
		for i := 0; i < m/2; i++ {
			h := r.Intn(4)
			if r.Bool() {
				removePresent(h)
			} else {
				add(h, r.Intn(u))
			}
		}
		emit("Clear", 1, 0)
		cur[1] = nil
		add(1, r.Intn(u))
	case "handles":
		grow(0, l.N, 2)
		for len(cur) < l.H {
			h := r.Intn(len(cur))
			clone(h)
			if r.Bool() {
				add(len(cur)-1, r.Intn(u))
			} else {
				removePresent(h)
			}
		}
		for h := range cur {
			if h%3 == 0 {
				add(h, h%u)
			} else if h%3 == 1 {
				removePresent(h)
			}
		}
	}
	for h := range cur {
		if h < 6 || h == len(cur)-1 || l.Kind == "handles" {
			look(h)
		}
	}
	return ops
}

// ---------------------------------------------------------------- execution + oracle

type snap struct {
	pre, in, post []int
	n             int
}

func sameSnap(a, b snap) bool {
	return core.Eq(a.pre, b.pre) && core.Eq(a.in, b.in) && core.Eq(a.post, b.post) && a.n == b.n
}

// brief prints a (possibly very long) value list for a failure message.
func brief(s []int) string {
	if len(s) <= 48 {
		return fmt.Sprint(s)
	}
	return fmt.Sprintf("%v ... %v (%d values)", s[:24], s[len(s)-8:], len(s))
}

func exec(c *core.Ctx, cs Case) {
	c.Begin(cs)
	c.Count("elem_" + cs.Elem)
	c.Count("profile_" + cs.Profile)
	// light mode (large histories): O(log n) checks after every op, a full read of every handle only at
	// interesting sizes, at Clone/Clear, at regular intervals and at the end
	light := cs.Large != nil
	ops := cs.Ops
	if light {
		ops = largeHistory(*cs.Large)
	}
	var ts avlh.Trees
	if cs.Elem == "pair" {
		ts = avlh.NewPair()
	} else {
		ts = avlh.NewInt()
	}
	maxV := universe
	for _, o := range ops {
		if o.V+1 > maxV {
			maxV = o.V + 1
		}
	}
	var probeVals []int // values asked through Contains in a full read
	if maxV <= 80 {
		for v := -1; v <= maxV; v++ {
			probeVals = append(probeVals, v)
		}
	} else {
		probeVals = append(probeVals, -1, maxV, maxV+1)
		for j := 0; j < 64; j++ {
			probeVals = append(probeVals, j*maxV/64)
		}
	}
	ref := [][]int{nil} // reference multiset per handle, kept sorted
	snaps := []snap{{}}
	dirty := map[int]bool{0: false} // handles mutated since their snapshot was taken
	outs := make([]avlh.Out, 0, len(ops))
	var twoCh, absent, dup, clone2 bool
	failed := false
	fail := func(i int, what, detail string) {
		if !failed { // one report per case is enough
			c.Fail(what, fmt.Sprintf("op #%d of %d %+v: %s", i, len(ops), ops[i], detail))
		}
		failed = true
	}
	maxSize, work := 0, 0
	sizeHits := map[int]int{}
	stride := 1
	if light {
		stride = len(ops)/24 + 1
	}
	// fullRead: every handle is read completely and compared with the reference and, if it was not
	// mutated since, with its previous snapshot. Returns false when the case must stop.
	fullRead := func(i, h int, removeFalse bool) bool {
		// "shares no state": the node sets of all handles are disjoint and each is a tree (white-box, read-only);
		// checked first, because walking a shared or cyclic structure need not terminate
		if msg := disjointTrees(c, ts, len(ref)); msg != "" {
			fail(i, "tree handles share state", msg)
			return false
		}
		for g := range ref {
			s, msg := probe(c, ts, g, ref[g], cs.Elem, probeVals)
			work += 1 + len(ref[g])
			if msg != "" {
				fail(i, "after the op, handle "+fmt.Sprint(g)+": "+msg, "reference contents "+brief(ref[g]))
			}
			if !dirty[g] && !sameSnap(s, snaps[g]) {
				what := "an op changed a handle it was not addressed to"
				if removeFalse && g == h {
					what = "Remove of an absent value changed the tree"
				}
				fail(i, what, fmt.Sprintf("handle %d was pre=%s in=%s post=%s len=%d, now pre=%s in=%s post=%s len=%d",
					g, brief(snaps[g].pre), brief(snaps[g].in), brief(snaps[g].post), snaps[g].n, brief(s.pre), brief(s.in), brief(s.post), s.n))
			}
			snaps[g] = s
			dirty[g] = false
		}
		return true
	}
	for i, o := range ops {
		c.Count("op_" + o.K)
		valid := o.H >= 0 && o.H < len(ref)
		// facts about the state before the op, for the non-triviality rule
		if valid && o.K == "Remove" {
			if containsInt(ref[o.H], o.V) {
				if two, depth := removesTwoChildrenNode(c, ts.Root(o.H), o.V); two {
					twoCh = true
					c.Count("remove_two_children")
					if depth >= 4 && len(ref[o.H]) >= 256 {
						c.Count("remove_two_children_depth4plus_in_256plus")
					}
				}
			} else {
				absent = true
				c.Count("remove_absent")
			}
		}
		if valid && o.K == "Add" && containsInt(ref[o.H], o.V) {
			dup = true
			c.Count("add_duplicate")
		}
		if valid && o.K == "Clone" && len(ref[o.H]) >= 2 {
			clone2 = true
			c.Count("clone_ge2")
			if len(ref[o.H]) >= 1024 {
				c.Count("clone_ge1024")
			}
		}

		out := ts.Exec(o)
		outs = append(outs, out)
		if out.Kind == "panic" {
			c.Count("panic_" + out.Panic)
			fail(i, "panic", out.Panic)
			break // state after a panic is unspecified; the case ends here
		}
		if !valid {
			if out.Kind != "badhandle" {
				fail(i, "bad handle accepted", out.Kind)
			}
			continue
		}
		h := o.H
		mutating, removeFalse := false, false
		switch o.K {
		case "Add":
			ref[h] = insertSorted(ref[h], o.V)
			mutating, dirty[h] = true, true
		case "Remove":
			present := containsInt(ref[h], o.V)
			if out.B != present {
				fail(i, "Remove result", fmt.Sprintf("returned %v but value present=%v in %s", out.B, present, brief(ref[h])))
			}
			if present {
				ref[h] = removeOne(ref[h], o.V)
				dirty[h] = true
			} else {
				removeFalse = true // the handle stays "not mutated": its next full read must equal its snapshot
			}
			mutating = true
		case "Contains":
			if want := containsInt(ref[h], o.V); out.B != want {
				fail(i, "Contains", fmt.Sprintf("returned %v, want %v; contents %s", out.B, want, brief(ref[h])))
			}
		case "Len":
			if out.I != len(ref[h]) {
				fail(i, "Len", fmt.Sprintf("returned %d, want %d; contents %s", out.I, len(ref[h]), brief(ref[h])))
			}
		case "Clear":
			ref[h] = nil
			mutating, dirty[h] = true, true
		case "Clone":
			ref = append(ref, append([]int(nil), ref[h]...))
			snaps = append(snaps, snap{})
			dirty[len(ref)-1] = true // no snapshot yet; the original must be unchanged
			mutating = true
		case "In":
			if !core.Eq(out.L, ref[h]) {
				fail(i, "in-order walk", fmt.Sprintf("got %s, want sorted multiset %s", brief(out.L), brief(ref[h])))
			}
		case "Pre", "Post":
			if !core.Eq(sorted(out.L), ref[h]) {
				fail(i, o.K+"-order walk is not a permutation of the contents", fmt.Sprintf("got %s, contents %s", brief(out.L), brief(ref[h])))
			}
		}
		if len(ref[h]) > maxSize {
			maxSize = len(ref[h])
		}
		if !mutating {
			continue
		}
		full := true
		if light {
			sz := len(ref[h])
			full = o.K == "Clone" || o.K == "Clear" || i%stride == 0
			if interesting[sz] && sizeHits[sz] < 2 {
				sizeHits[sz]++
				full = true
			}
			if full && work > 300000 { // bound on the probing work of one case: the intermediate full reads thin out
				full = false // (cheap checks still run after every op, and the full read at the end of the case always runs)
				c.Count("intermediate_full_read_dropped_by_work_bound")
			}
			// cheap checks after every mutating op
			if lo := ts.Exec(avlh.Op{K: "Len", H: h}); lo.Kind != "int" || lo.I != sz {
				fail(i, "Len after the op", fmt.Sprintf("returned %+v, want %d", lo, sz))
			}
			for _, v := range []int{o.V - 1, o.V, o.V + 1} {
				if co := ts.Exec(avlh.Op{K: "Contains", H: h, V: v}); co.Kind != "bool" || co.B != containsInt(ref[h], v) {
					fail(i, "Contains after the op", fmt.Sprintf("Contains(%d) returned %+v; contents %s", v, co, brief(ref[h])))
				}
			}
		}
		if full && !fullRead(i, h, removeFalse) {
			break
		}
	}
	if light && !failed && len(outs) == len(ops) && len(ops) > 0 {
		fullRead(len(ops)-1, -1, false)
	}
	if twoCh && absent && dup && clone2 {
		c.Nontrivial()
	}
	switch {
	case maxSize >= 1024:
		c.Count("maxsize_1024plus")
	case maxSize >= 256:
		c.Count("maxsize_256to1023")
	case maxSize >= 64:
		c.Count("maxsize_64to255")
	case maxSize >= 16:
		c.Count("maxsize_16to63")
	default:
		c.Count("maxsize_under16")
	}
	if len(ref) >= 16 {
		c.Count("handles_16plus")
	}
	c.CountN("ops_total", len(ops))
	if cs.NoModel {
		c.Count("oracle_only")
		return
	}
	c.Emit(avlh.CoqCase(ops[:len(outs)], outs))
}

// probe reads handle g completely and checks it against the reference contents.
func probe(c *core.Ctx, ts avlh.Trees, g int, want []int, elem string, probeVals []int) (snap, string) {
	var s snap
	get := func(k string) ([]int, int, string) {
		o := ts.Exec(avlh.Op{K: k, H: g})
		if o.Kind == "panic" {
			return nil, 0, k + " panicked: " + o.Panic
		}
		return o.L, o.I, ""
	}
	var msg string
	if s.pre, _, msg = get("Pre"); msg != "" {
		return s, msg
	}
	if s.in, _, msg = get("In"); msg != "" {
		return s, msg
	}
	if s.post, _, msg = get("Post"); msg != "" {
		return s, msg
	}
	if _, s.n, msg = get("Len"); msg != "" {
		return s, msg
	}
	if s.n != len(want) {
		return s, fmt.Sprintf("Len = %d, want %d", s.n, len(want))
	}
	if !core.Eq(s.in, want) {
		return s, fmt.Sprintf("SliceInOrder = %s is not the sorted multiset", brief(s.in))
	}
	if !core.Eq(sorted(s.pre), want) || !core.Eq(sorted(s.post), want) {
		return s, fmt.Sprintf("pre-order %s / post-order %s are not permutations of the contents", brief(s.pre), brief(s.post))
	}
	var wpre, win, wpost []int
	var str string
	if k := core.Try(func() { wpre, win, wpost, str = avlh.Walks(ts, g) }); k != "" {
		return s, "Walk*/String panicked: " + k
	}
	if !core.Eq(wpre, s.pre) || !core.Eq(win, s.in) || !core.Eq(wpost, s.post) {
		return s, fmt.Sprintf("Walk* callbacks (%s %s %s) differ from Slice* (%s %s %s)", brief(wpre), brief(win), brief(wpost), brief(s.pre), brief(s.in), brief(s.post))
	}
	if elem == "int" {
		if l, ok := avlh.ParseIntList(str); !ok || !core.Eq(l, s.in) {
			return s, fmt.Sprintf("String() does not list the in-order walk %s", brief(s.in))
		}
	}
	for _, v := range probeVals {
		o := ts.Exec(avlh.Op{K: "Contains", H: g, V: v})
		if o.Kind == "panic" {
			return s, "Contains panicked: " + o.Panic
		}
		if o.B != containsInt(want, v) {
			return s, fmt.Sprintf("Contains(%d) = %v", v, o.B)
		}
	}
	// "three traversals of one and the same binary tree": search for a binary tree having the three walks
	// (black box). If the search gives up (budget), fall back on a witness: the node structure of the real
	// tree, read by reflection, is such a tree if it lists exactly the three walks. Neither -> Unobservable.
	verdict := 2
	if c.Stats["one_tree_search_gave_up"] < 20 { // a run in which the search keeps giving up stops paying for it
		budget0 := oneTreeBudget(len(s.in))
		budget := budget0
		verdict = oneTree(s.pre, s.in, s.post, &budget)
		if used := (budget0 - budget) / (budget0/1000000 + 1); used > c.Stats["one_tree_budget_used_max_ppm"] {
			c.Stats["one_tree_budget_used_max_ppm"] = used // how close the search came to giving up (statistic)
		}
		if verdict == 2 {
			c.Count("one_tree_search_gave_up")
		}
	}
	switch verdict {
	case 0:
		return s, fmt.Sprintf("pre %s, in %s, post %s are not three traversals of one binary tree", brief(s.pre), brief(s.in), brief(s.post))
	case 1:
		c.Count("one_tree_check_by_search")
	case 2:
		if nodeStructureHasWalks(ts.Root(g), s.pre, s.in, s.post) {
			c.Count("one_tree_check_by_node_structure")
		} else {
			// this oracle did not observe whether the walks are traversals of one tree. Never silent
			// (bin/check reports a broken correspondence); it does not happen on the unchanged tree.
			c.Unobservable("C01 one-tree oracle: the search for a binary tree having the three observed walks gave up (budget) and the node structure " +
				"read by reflection does not list these walks either; the clause 'pre-, in- and post-order are three traversals of one tree' was not checked on some tree")
		}
	}
	return s, ""
}

// oneTreeBudget bounds the work of oneTree on walks of n values (about 3 ns per unit). On the trees the unchanged
// code builds the memoised search needs a small fraction of it even with 3 distinct values among 4000
// (statistic one_tree_budget_used_max_ppm, parts per million); giving up is never silent (see probe).
func oneTreeBudget(n int) int { return 50000000 + 10000*n }

// nodeStructureHasWalks: do the nodes of the tree, read by reflection (read-only), list exactly the three given
// walks? Then the walks are traversals of one binary tree (this one). false also if the fields cannot be read.
func nodeStructureHasWalks(tree any, pre, in, post []int) (ok bool) {
	defer func() {
		if recover() != nil {
			ok = false
		}
	}()
	pi, ii, oi := 0, 0, 0
	match := true
	var walk func(p reflect.Value)
	walk = func(p reflect.Value) {
		if !match || p.IsNil() {
			return
		}
		n := p.Elem()
		ix := nodeFields(n.Type())
		x := nodeValue(n.Field(ix.value))
		if pi >= len(pre) || pre[pi] != x {
			match = false
			return
		}
		pi++
		walk(n.Field(ix.left))
		if !match || ii >= len(in) || in[ii] != x {
			match = false
			return
		}
		ii++
		walk(n.Field(ix.right))
		if !match || oi >= len(post) || post[oi] != x {
			match = false
			return
		}
		oi++
	}
	walk(reflect.ValueOf(tree).Elem().FieldByName("root"))
	return match && pi == len(pre) && ii == len(in) && oi == len(post)
}

// nodeValue decodes an element read by reflection: an int, or a Pair through the inverse of avlh's pairOf.
func nodeValue(val reflect.Value) int {
	if val.Kind() == reflect.Struct {
		return int(val.Field(0).Int())<<2 | int(val.Field(1).Int())
	}
	return int(val.Int())
}

// oneTree: is there a binary tree whose pre-, in- and post-order walks are the
// given sequences? 1 yes, 0 no, 2 gave up (budget). Precondition (checked by
// the caller): in is sorted, pre and post are permutations of it. The root is
// pre[0] = post[n-1]; its position k in the in-order walk lies in the run of
// values equal to it, and is further confined by: the left part of pre and of
// post (k values) holds every smaller value and no larger one. With distinct
// values k is unique (reconstruction from pre+in); with duplicates every
// remaining candidate is tried. A sub-problem is determined by its offsets in
// the three sequences and its length; as soon as some node has more than one
// candidate the results of sub-problems are memoised, which keeps the search
// polynomial (without it, nested ambiguities multiply).
func oneTree(pre, in, post []int, budget *int) int {
	n := len(in)
	if len(pre) != n || len(post) != n {
		return 0
	}
	s := &oneTreeSearch{pre: pre, in: in, post: post, budget: *budget}
	r := s.rec(0, 0, 0, n)
	*budget = s.budget
	return r
}

type oneTreeSearch struct {
	pre, in, post []int
	budget        int
	memo          map[[4]int32]int8 // (offset in pre, in in, in post, length) -> 0 | 1
}

func (s *oneTreeSearch) rec(p, i, q, n int) int {
	if n == 0 {
		return 1
	}
	pre, in, post := s.pre[p:p+n], s.in[i:i+n], s.post[q:q+n]
	root := pre[0]
	if post[n-1] != root {
		return 0
	}
	if in[0] == in[n-1] { // one value only: every shape lists the same three sequences
		return 1
	}
	key := [4]int32{int32(p), int32(i), int32(q), int32(n)}
	if s.memo != nil {
		if r, ok := s.memo[key]; ok {
			return int(r)
		}
	}
	s.budget -= n
	if s.budget < 0 {
		return 2
	}
	lo := sort.SearchInts(in, root)
	hi := sort.SearchInts(in, root+1)
	if lo == hi {
		return 0
	}
	kmin, kmax := lo, hi-1
	bound := func(seq []int) { // seq = left part followed by right part
		for j, v := range seq {
			if v < root && j+1 > kmin {
				kmin = j + 1
			}
			if v > root && j < kmax {
				kmax = j
			}
		}
	}
	bound(pre[1:])
	bound(post[:n-1])
	if kmax > kmin && s.memo == nil {
		s.memo = map[[4]int32]int8{}
	}
	res, gaveUp := 0, false
	for k := kmin; k <= kmax; k++ {
		l := s.rec(p+1, i, q, k)
		if l == 0 {
			continue
		}
		r := s.rec(p+1+k, i+k+1, q+k, n-1-k)
		if l == 1 && r == 1 {
			res = 1
			break
		}
		if l == 2 || r == 2 {
			gaveUp = true
		}
	}
	if res == 0 && gaveUp {
		return 2
	}
	if s.memo != nil {
		s.memo[key] = int8(res)
	}
	return res
}

// nodeFields caches the field indices of a node struct type (FieldByName is slow).
type nodeIdx struct{ value, left, right int }

var nodeIdxCache = map[reflect.Type]nodeIdx{}

func nodeFields(t reflect.Type) nodeIdx {
	if x, ok := nodeIdxCache[t]; ok {
		return x
	}
	var x nodeIdx
	for name, dst := range map[string]*int{"value": &x.value, "left": &x.left, "right": &x.right} {
		f, ok := t.FieldByName(name)
		if !ok {
			panic("no field " + name)
		}
		*dst = f.Index[0]
	}
	nodeIdxCache[t] = x
	return x
}

// disjointTrees walks the node pointers of every handle by reflection: no node may be reached twice,
// neither inside one handle (cycle / shared subtree) nor from two handles (a clone sharing nodes).
func disjointTrees(c *core.Ctx, ts avlh.Trees, n int) (msg string) {
	defer func() {
		if r := recover(); r != nil {
			// the private fields root / left / right were not found (renamed, retyped): the "shares no state"
			// clause is not observed by this probe any more. Never silent.
			c.Unobservable(fmt.Sprintf("C01 node-disjointness probe (reflection on avl.Tree.root, node.left, node.right: 'Clone shares no state', "+
				"'a handle is a tree, not a DAG/cycle') could not read the node structure: %v", r))
			msg = ""
		}
	}()
	c.Count("disjointness_probe_ran")
	owner := map[uintptr]int{}
	for g := 0; g < n; g++ {
		stack := []reflect.Value{reflect.ValueOf(ts.Root(g)).Elem().FieldByName("root")}
		reached := 0 // nodes of handle g seen by the probe
		for len(stack) > 0 {
			cur := stack[len(stack)-1]
			stack = stack[:len(stack)-1]
			if cur.IsNil() {
				continue
			}
			p := cur.Pointer()
			if o, seen := owner[p]; seen {
				if o == g {
					return fmt.Sprintf("handle %d: a node is reachable along two paths (not a tree)", g)
				}
				return fmt.Sprintf("handles %d and %d share a node", o, g)
			}
			owner[p] = g
			reached++
			n := cur.Elem()
			ix := nodeFields(n.Type())
			stack = append(stack, n.Field(ix.left), n.Field(ix.right))
		}
		// the probe must have seen as many nodes as Len() reports: a probe reading fields that do not (or no
		// longer) hold the tree would otherwise find nothing shared and pass vacuously
		if lo := ts.Exec(avlh.Op{K: "Len", H: g}); lo.Kind == "int" && lo.I != reached {
			c.Unobservable("C01 node-disjointness probe: the number of nodes reached by reflection from Tree.root differs from Len() of the handle " +
				"(the probe does not see the whole tree, or Len is wrong)")
		}
	}
	return ""
}

// removesTwoChildrenNode looks (by reflection, read-only) at the node that
// node.remove would delete for value v: the first node with that value on the
// comparator-directed descent. Used for the non-triviality rule only (not an oracle); a failure to read the fields is reported.
func removesTwoChildrenNode(c *core.Ctx, tree any, v int) (two bool, depth int) {
	defer func() {
		if r := recover(); r != nil {
			// the non-triviality rule (a Remove of a node with two children) can no longer be measured
			c.Unobservable(fmt.Sprintf("C01 non-triviality probe (reflection on node.value/left/right: does this Remove delete a node with two children) "+
				"could not read the node structure: %v", r))
			two = false
		}
	}()
	cur := reflect.ValueOf(tree).Elem().FieldByName("root")
	for !cur.IsNil() {
		n := cur.Elem()
		ix := nodeFields(n.Type())
		x := nodeValue(n.Field(ix.value))
		l, r := n.Field(ix.left), n.Field(ix.right)
		switch {
		case x == v:
			return !l.IsNil() && !r.IsNil(), depth
		case !l.IsNil() && v < x:
			cur = l
		case !r.IsNil():
			cur = r
		default:
			return false, depth
		}
		depth++
	}
	return false, depth
}

func containsInt(s []int, v int) bool {
	i := sort.SearchInts(s, v)
	return i < len(s) && s[i] == v
}
func insertSorted(s []int, v int) []int {
	i := sort.SearchInts(s, v)
	s = append(s, 0)
	copy(s[i+1:], s[i:])
	s[i] = v
	return s
}
func removeOne(s []int, v int) []int {
	i := sort.SearchInts(s, v)
	return append(s[:i:i], s[i+1:]...)
}
func sorted(s []int) []int {
	t := append([]int(nil), s...)
	sort.Ints(t)
	return t
}
