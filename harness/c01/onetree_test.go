package c01

import (
	"sort"
	"testing"

	"verif/harness/avlh"
	"verif/harness/core"
)

type tn struct {
	v    int
	l, r *tn
}

func walks(t *tn, pre, in, post *[]int) {
	if t == nil {
		return
	}
	*pre = append(*pre, t.v)
	walks(t.l, pre, in, post)
	*in = append(*in, t.v)
	walks(t.r, pre, in, post)
	*post = append(*post, t.v)
}

// all shapes with n nodes
func shapes(n int) []*tn {
	if n == 0 {
		return []*tn{nil}
	}
	var out []*tn
	for k := 0; k < n; k++ {
		for _, l := range shapes(k) {
			for _, r := range shapes(n - 1 - k) {
				out = append(out, &tn{l: l, r: r})
			}
		}
	}
	return out
}

func label(t *tn, vals []int, i *int) *tn { // in-order labelling with a sorted list: a valid (non-strict) search tree
	if t == nil {
		return nil
	}
	n := &tn{}
	n.l = label(t.l, vals, i)
	n.v = vals[*i]
	*i++
	n.r = label(t.r, vals, i)
	return n
}

func key(a []int) string {
	b := make([]byte, len(a))
	for i, v := range a {
		b[i] = byte('0' + v)
	}
	return string(b)
}

// brute force: the set of (pre,post) pairs realisable for a sorted in-order list
func TestOneTreeAgainstBruteForce(t *testing.T) {
	r := core.NewRand(7)
	for n := 0; n <= 7; n++ {
		sh := shapes(n)
		// every sorted labelling over {0,1,2}
		var labellings [][]int
		var gen func(cur []int, min int)
		gen = func(cur []int, min int) {
			if len(cur) == n {
				labellings = append(labellings, append([]int(nil), cur...))
				return
			}
			for v := min; v < 3; v++ {
				gen(append(cur, v), v)
			}
		}
		gen(nil, 0)
		for _, vals := range labellings {
			real := map[string]bool{}
			var pres, posts [][]int
			for _, s := range sh {
				i := 0
				tr := label(s, vals, &i)
				var pre, in, post []int
				walks(tr, &pre, &in, &post)
				real[key(pre)+"|"+key(post)] = true
				pres, posts = append(pres, pre), append(posts, post)
				b := 1 << 30
				if got := oneTree(pre, in, post, &b); got != 1 {
					t.Fatalf("real tree rejected: pre %v in %v post %v -> %d", pre, in, post, got)
				}
			}
			// mixed pairs: pre of one tree, post of another; and random permutations
			for trial := 0; trial < 60 && len(pres) > 0; trial++ {
				pre := append([]int(nil), pres[r.Intn(len(pres))]...)
				post := append([]int(nil), posts[r.Intn(len(posts))]...)
				if trial%3 == 2 && n > 1 {
					a, b := r.Intn(n), r.Intn(n)
					pre[a], pre[b] = pre[b], pre[a]
				}
				in := append([]int(nil), vals...)
				sort.Ints(in)
				b := 1 << 30
				got := oneTree(pre, in, post, &b)
				want := 0
				if real[key(pre)+"|"+key(post)] {
					want = 1
				}
				if got != want {
					t.Fatalf("pre %v in %v post %v: oneTree = %d, brute force = %d", pre, in, post, got, want)
				}
			}
		}
	}
}

// the witness used when the search gives up: the real node structure, read by reflection
func TestNodeStructureHasWalks(t *testing.T) {
	for _, mk := range []func() avlh.Trees{avlh.NewInt, avlh.NewPair} {
		ts := mk()
		for _, v := range []int{5, 3, 8, 3, 3, 9, 1, 5, 5, 7, 2, 2} {
			ts.Exec(avlh.Op{K: "Add", V: v})
		}
		ts.Exec(avlh.Op{K: "Remove", V: 5})
		pre, in, post := ts.Exec(avlh.Op{K: "Pre"}).L, ts.Exec(avlh.Op{K: "In"}).L, ts.Exec(avlh.Op{K: "Post"}).L
		if !nodeStructureHasWalks(ts.Root(0), pre, in, post) {
			t.Fatalf("real walks rejected: %v %v %v", pre, in, post)
		}
		bad := append([]int(nil), pre...)
		bad[1], bad[len(bad)-1] = bad[len(bad)-1], bad[1]
		if core.Eq(bad, pre) || nodeStructureHasWalks(ts.Root(0), bad, in, post) {
			t.Fatalf("wrong pre-order accepted: %v", bad)
		}
		if nodeStructureHasWalks(ts.Root(0), pre, in, post[:len(post)-1]) {
			t.Fatal("short post-order accepted")
		}
		if nodeStructureHasWalks(struct{}{}, pre, in, post) {
			t.Fatal("unreadable structure accepted")
		}
	}
}
