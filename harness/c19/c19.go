// Package c19: chans.SendTimeout, SendContext, RecvTimeout, RecvContext,
// RecvQueued, RecvQueuedFull.
//
// Every case stages a scenario around ONE call of a real helper and records
// what could be observed afterwards: the result, the channel contents (drained
// by the harness after all partner goroutines were joined), whether it is
// closed, and what the partner received. No assertion depends on a wall-clock
// duration: scenarios are chosen so that the outcome is the same for every
// timing ("exact"), or the property allows either outcome and only
// conservation is checked ("either"). The only clocks are the sleeps that
// make a partner arrive late and a watchdog that turns a hang into a failure.
package c19

import (
	"bytes"
	"context"
	"encoding/json"
	"fmt"
	"math"
	"runtime"
	"strings"
	"time"

	"gopkg.in/typ.v4/chans"
	"verif/harness/core"
)

type Case struct {
	Fn     string `json:"fn"` // SendTimeout|SendContext|RecvTimeout|RecvContext|RecvQueued|RecvQueuedFull|QueuedConcurrent
	Cap    int    `json:"cap"`
	Fill   []int  `json:"fill"`
	NFill  int    `json:"nfill,omitempty"` // large cases: Fill is genFill(NFill, Pat) (kept out of the replay file)
	Pat    int    `json:"pat,omitempty"`
	Closed bool   `json:"closed"`
	// timed helpers
	Mode  string `json:"mode,omitempty"` // long|zero|neg|min|short|tiny (timeouts)  live|cancelled|cancel_late (contexts)
	Sit   string `json:"sit,omitempty"`  // alone|partner|partner_late|close_late|parked|partner_after
	Value int    `json:"value,omitempty"`
	Ns    int64  `json:"ns,omitempty"` // mode "ns": the timeout in nanoseconds
	// queued receivers
	Limit  int   `json:"limit,omitempty"`
	Parked []int `json:"parked,omitempty"` // values of sender goroutines parked on the (full) channel before the call, oldest first
	// QueuedConcurrent
	N int `json:"n,omitempty"`
	// large-size stream: checked by the direct oracle only, not sent to the model (a replay always is)
	NoModel bool `json:"-"`
}

// genFill: pat 0 = 1..n (distinct: any loss, duplication or reordering shows); pat 1 = few repeated values
// including zeros (a closed channel must not look like queued zeros); pat 2 = distinct with extreme values.
func genFill(n, pat int) []int {
	s := make([]int, n)
	for i := range s {
		switch pat {
		case 1:
			s[i] = (i*7+i/5)%5 - 1
		case 2:
			s[i] = i + 1
			if i%97 == 13 {
				s[i] = math.MaxInt - i
			} else if i%89 == 7 {
				s[i] = math.MinInt + i
			}
		default:
			s[i] = i + 1
		}
	}
	return s
}

func nfill(cs Case) int {
	if cs.Fill == nil {
		return cs.NFill
	}
	return len(cs.Fill)
}

// marks: sizes at and around the thresholds an implementation may switch behaviour at.
var marks = []int{0, 1, 2, 3, 7, 8, 9, 15, 16, 17, 31, 32, 33, 63, 64, 65, 127, 128, 129, 255, 256, 257,
	511, 512, 513, 1023, 1024, 1025, 2047, 2048, 2049, 4095, 4096, 4097}

// dim draws a size in 0..max: half of the time a mark, often near one, otherwise spread out.
func dim(r *core.Rand, max int) int {
	v := 0
	switch k := r.Intn(10); {
	case k < 5:
		v = marks[r.Intn(len(marks))]
	case k < 7:
		v = marks[r.Intn(len(marks))] + r.Range(-3, 3)
	case k < 9:
		v = r.Intn(301)
	default:
		v = r.Intn(max + 1)
	}
	if v < 0 {
		v = 0
	}
	if v > max {
		v = max
	}
	return v
}

// diff describes how two long slices differ without printing them.
func diff(got, want []int) string {
	for i := 0; i < len(got) && i < len(want); i++ {
		if got[i] != want[i] {
			return fmt.Sprintf("length %d, want %d; first difference at index %d: %d, want %d", len(got), len(want), i, got[i], want[i])
		}
	}
	if len(got) <= 12 && len(want) <= 12 {
		return fmt.Sprintf("%v, want %v", got, want)
	}
	return fmt.Sprintf("length %d, want %d (equal up to the shorter length)", len(got), len(want))
}

const (
	late     = 2 * time.Millisecond
	watchdog = 4 * time.Second
)

var stuck int // calls that never returned (only with a broken implementation); the run stops early

// ---- reading goroutine states off runtime.Stack (the only way to know that a goroutine IS parked) ----

var stackBuf = make([]byte, 1<<18)

// parkedCount counts the goroutines that have a frame containing marker and are parked on a channel operation.
func parkedCount(marker string) int {
	n := runtime.Stack(stackBuf, true)
	for n >= len(stackBuf) {
		stackBuf = make([]byte, 2*len(stackBuf))
		n = runtime.Stack(stackBuf, true)
	}
	count := 0
	for _, g := range bytes.Split(stackBuf[:n], []byte("\n\n")) {
		if !bytes.Contains(g, []byte(marker)) {
			continue
		}
		lb, rb := bytes.IndexByte(g, '['), bytes.IndexByte(g, ']')
		if lb < 0 || rb < lb {
			continue
		}
		state := string(g[lb+1 : rb])
		if k := strings.IndexByte(state, ','); k >= 0 {
			state = state[:k]
		}
		switch state {
		case "chan send", "chan receive", "select", "chan send (nil chan)", "chan receive (nil chan)", "select (no cases)":
			count++
		}
	}
	return count
}

const (
	markPartner = "harness/c19.partner" // partnerSend / partnerRecv
	markHelper  = "typ.v4/chans."       // any frame of the package under test
)

// waitParked waits until want goroutines with the marker are parked on a channel operation, or done is closed.
// No fixed sleep is trusted: it polls the goroutine states. ok=false: neither happened within a very long time.
func waitParked(marker string, want int, done <-chan struct{}) (parked, ok bool) {
	deadline := time.Now().Add(60 * time.Second)
	for i := 0; ; i++ {
		select {
		case <-done:
			return false, true
		default:
		}
		if parkedCount(marker) >= want {
			return true, true
		}
		if i < 50 {
			runtime.Gosched()
		} else {
			time.Sleep(100 * time.Microsecond)
		}
		if i%64 == 63 && time.Now().After(deadline) {
			return false, false
		}
	}
}

// baseOf: goroutines with the marker that are already parked for good before a call starts. Only an earlier call
// that was reported stuck can have left one behind (every case joins its own goroutines).
func baseOf(marker string) int {
	if stuck == 0 {
		return 0
	}
	return parkedCount(marker)
}

const unobserved = "unobservable"

// await receives the result of a call that runs in its own goroutine. After the watchdog it does not give up
// at once (the machine may have been stalled): the call gets more time, and it is reported as blocked only
// when MORE goroutines with the marker (the code under test, or a partner) than before the call (base) are seen
// parked on a channel operation. One-sided: a slow or stalled machine never produces "blocked". If after two
// more minutes the call has neither returned nor been seen parked, nothing can be concluded: Unobservable.
func await[T any](c *core.Ctx, ch <-chan T, marker string, base int) (v T, status string) {
	t := time.NewTimer(watchdog)
	defer t.Stop()
	select {
	case v = <-ch:
		return v, ""
	case <-t.C:
	}
	for i := 0; i < 24000; i++ { // up to ~2 more minutes of running time
		select {
		case v = <-ch:
			return v, ""
		default:
		}
		time.Sleep(5 * time.Millisecond)
		if i >= 200 && i%100 == 0 && parkedCount(marker) > base {
			select {
			case v = <-ch:
				return v, ""
			default:
			}
			return v, "seen parked on a channel operation"
		}
	}
	c.Unobservable("C19: a call neither returned nor was seen parked within two minutes (stalled machine?)")
	return v, unobserved
}

// gaveUp handles the status of await: "" = returned; otherwise the case is abandoned, and it is a failure of the
// implementation only when the call was SEEN blocked.
func gaveUp(c *core.Ctx, status, what, detail string) bool {
	if status == "" {
		return false
	}
	stuck++
	if status != unobserved {
		c.Fail(what, detail+" ("+status+")")
	}
	return true
}

//go:noinline
func partnerRecv(ch chan int, got *[]int, done chan struct{}) {
	defer close(done)
	if v, ok := <-ch; ok {
		*got = append(*got, v)
	}
}

//go:noinline
func partnerSend(ch chan int, v int, sent *bool, done chan struct{}) {
	defer close(done)
	if core.Try(func() { ch <- v }) == "" {
		*sent = true
	}
}

func init() {
	core.Register(&core.Prop{ID: "C19", Module: "Chans.HelpersCheck", Run: run, Replay: replay})
}

func replay(c *core.Ctx, raw json.RawMessage) error {
	var cs Case
	if err := json.Unmarshal(raw, &cs); err != nil {
		return err
	}
	exec(c, cs)
	return nil
}

func seq(n, from int) []int {
	s := make([]int, n)
	for i := range s {
		s[i] = from + i
	}
	return s
}

var timeoutModes = []string{"long", "zero", "neg", "min", "short", "tiny"}
var ctxModes = []string{"live", "cancelled", "cancel_late"}
var sits = []string{"alone", "partner", "partner_late", "close_late", "parked", "partner_after"}

// closesAtEnd: scenarios in which the partner may be left parked; the harness then closes the channel to release it
// (after having seen, on runtime.Stack, that the partner is parked or has finished).
func closesAtEnd(cs Case) bool {
	return cs.Sit == "parked" || cs.Sit == "partner_after" || (cs.Sit == "partner_late" && !unlimitedCase(cs))
}

func modesOf(fn string) []string {
	if strings.HasSuffix(fn, "Timeout") {
		return timeoutModes
	}
	return ctxModes
}

func unlimited(mode string) bool {
	return mode == "long" || mode == "zero" || mode == "neg" || mode == "min" || mode == "live"
}

// unlimitedCase: the timer/context does not fire while the scenario runs.
func unlimitedCase(cs Case) bool {
	if cs.Mode == "ns" {
		return cs.Ns <= 0 || cs.Ns >= int64(time.Hour)
	}
	return unlimited(cs.Mode)
}

// valid says whether the scenario has an outcome the harness can wait for.
func valid(cs Case) bool {
	isSend := strings.HasPrefix(cs.Fn, "Send")
	ready := cs.Closed || (isSend && nfill(cs) < cs.Cap) || (!isSend && nfill(cs) > 0)
	if cs.Sit == "close_late" && isSend && ready {
		return false // would the send or the close come first? depends on timing
	}
	switch cs.Sit {
	case "parked": // the partner must really park: a receiver on an empty channel, a sender on a full one
		return !cs.Closed && ((isSend && nfill(cs) == 0) || (!isSend && nfill(cs) == cs.Cap))
	case "partner_after": // the helper gives up first (deterministically), the partner comes afterwards
		return !cs.Closed && !ready && !unlimitedCase(cs)
	case "partner_late":
		if !cs.Closed && !ready && !unlimitedCase(cs) && cs.Mode != "cancelled" {
			return true // limited timer against a late partner: either may win
		}
	}
	if cs.Sit != "alone" {
		return unlimitedCase(cs) && !cs.Closed
	}
	return ready || !unlimitedCase(cs) // alone, unlimited and not ready would wait forever
}

func run(c *core.Ctx) {
	// ---- RecvQueued / RecvQueuedFull: exhaustive small scope, exact ----
	maxCap := c.N(4, 6, 6)
	maxLim := c.N(6, 9, 9)
	for cp := 0; cp <= maxCap; cp++ {
		for fill := 0; fill <= cp; fill++ {
			for _, closed := range []bool{false, true} {
				for lim := -1; lim <= maxLim; lim++ {
					exec(c, Case{Fn: "RecvQueued", Cap: cp, Fill: seq(fill, 1), Closed: closed, Limit: lim})
					if lim >= 0 {
						exec(c, Case{Fn: "RecvQueuedFull", Cap: cp, Fill: seq(fill, 1), Closed: closed, Limit: lim})
					}
				}
			}
		}
	}
	c.Exhaustive = true
	c.Note(fmt.Sprintf("exhaustive: RecvQueued/RecvQueuedFull for all cap<=%d x fill<=cap x open/closed x limit -1..%d; "+
		"timed helpers: all (mode, situation) scenarios with a waitable outcome for cap<=3 x fill<=cap x open/closed", maxCap, maxLim))
	// RecvQueued / RecvQueuedFull with senders already parked on the full (or unbuffered) channel: exhaustive small scope, exact
	for cp := 0; cp <= c.N(3, 4, 4); cp++ {
		for np := 1; np <= 3; np++ {
			for lim := -2; lim <= cp+np+1; lim++ {
				for _, fn := range []string{"RecvQueued", "RecvQueuedFull"} {
					if lim < 0 && fn == "RecvQueuedFull" {
						continue
					}
					l := lim
					if lim == -2 {
						l = -64 // negative limits: nothing is taken, every sender stays parked
					}
					exec(c, Case{Fn: fn, Cap: cp, Fill: seq(cp, 1), Parked: seq(np, 50), Limit: l})
				}
			}
		}
	}
	for i := c.N(60, 1500, 800); i > 0 && stuck < 3; i-- {
		cp := c.Rng.Size(c.N(20, 100, 100))
		np := 1 + c.Rng.Intn(6)
		fn := []string{"RecvQueued", "RecvQueuedFull"}[c.Rng.Intn(2)]
		exec(c, Case{Fn: fn, Cap: cp, Fill: c.Rng.Ints(cp, -2, 3), Parked: c.Rng.Ints(np, -2, 3), Limit: c.Rng.Range(0, cp+np+2)})
	}
	exec(c, Case{Fn: "NilChan", NoModel: true})
	// random: larger channels, repeated values (zero values included: a closed channel must not look like queued zeros)
	for i := c.N(300, 6000, 3000); i > 0 && stuck < 3; i-- {
		cp := c.Rng.Size(c.N(40, 200, 200))
		fill := c.Rng.Intn(cp + 1)
		fn := "RecvQueued"
		lim := c.Rng.Range(-2, cp+3)
		if c.Rng.Bool() {
			fn = "RecvQueuedFull"
			if lim < 0 {
				lim = 0
			}
		}
		exec(c, Case{Fn: fn, Cap: cp, Fill: c.Rng.Ints(fill, -2, 3), Closed: c.Rng.Bool(), Limit: lim})
	}
	// ---- timed helpers: every scenario kind on small channels ----
	for _, fn := range []string{"SendTimeout", "SendContext", "RecvTimeout", "RecvContext"} {
		for _, mode := range modesOf(fn) {
			for _, sit := range sits {
				for cp := 0; cp <= 3; cp++ {
					for fill := 0; fill <= cp; fill++ {
						for _, closed := range []bool{false, true} {
							cs := Case{Fn: fn, Cap: cp, Fill: seq(fill, 1), Closed: closed, Mode: mode, Sit: sit, Value: 77}
							if valid(cs) && stuck < 3 {
								exec(c, cs)
							}
						}
					}
				}
			}
		}
	}
	// random timed scenarios with arbitrary (also zero and repeated) values
	for i := c.N(150, 4000, 2000); i > 0 && stuck < 3; i-- {
		fn := []string{"SendTimeout", "SendContext", "RecvTimeout", "RecvContext"}[c.Rng.Intn(4)]
		ms := modesOf(fn)
		cp := c.Rng.Intn(6)
		cs := Case{Fn: fn, Cap: cp, Fill: c.Rng.Ints(c.Rng.Intn(cp+1), -1, 2), Closed: c.Rng.Chance(25),
			Mode: ms[c.Rng.Intn(len(ms))], Sit: sits[c.Rng.Intn(len(sits))], Value: c.Rng.Range(-1, 2)}
		if valid(cs) {
			exec(c, cs)
		}
	}
	// ---- large sizes: oracle on everything, model on a sample ----
	bigStreams(c)
	c.Note("large-size stream (direct oracle on every case, model on every 25th case of size <= 1100): capacity, fill level, " +
		"limit / len(buf), values per run and timeout magnitude spread over 0..~4100 (timeouts 1ns..1ms, <=0, >=1h), " +
		"dense at 15..17, 31..33, 63..65, 127..129, 255..257, 511..513, 1023..1025, 2047..2049, 4095..4097; " +
		"fill level below/at/above the limit, one batch of 64 above it, twice the limit; repeated calls draining one channel")
	// ---- timer and channel ready together: conservation only (oracle, no model run) ----
	for i := c.N(4, 40, 20); i > 0; i-- {
		exec(c, Case{Fn: "TimerRaceSend", N: 30000})
		exec(c, Case{Fn: "TimerRaceRecv", N: 30000})
	}
	// ---- RecvQueued / RecvQueuedFull against a concurrent producer: conservation only (oracle, no model run) ----
	for i := c.N(40, 1000, 600); i > 0 && stuck < 3; i-- {
		exec(c, Case{Fn: "QueuedConcurrent", Cap: c.Rng.Intn(5), N: c.Rng.Range(1, c.N(60, 400, 400)), Limit: c.Rng.Range(1, 7)})
	}
}

// execDrain: repeated calls on one channel, alternating RecvQueued and RecvQueuedFull with the same limit,
// until the queue is empty: every call must return exactly min(limit, remaining) values, in order.
func execDrain(c *core.Ctx, cs Case) {
	ch := mkchan(cs)
	fin := make(chan string, 1)
	msg := ""
	hb := baseOf(markHelper)
	go func() {
		fin <- core.Try(func() {
			rest := cs.Fill
			for call := 0; ; call++ {
				var got []int
				if call%2 == cs.N%2 {
					got = chans.RecvQueued(ch, cs.Limit)
				} else {
					buf := make([]int, cs.Limit)
					got = buf[:chans.RecvQueuedFull(ch, buf)]
				}
				want := cs.Limit
				if len(rest) < want {
					want = len(rest)
				}
				if !core.Eq(got, rest[:want]) {
					msg = fmt.Sprintf("call %d with %d values left: %s", call, len(rest), diff(got, rest[:want]))
					return
				}
				rest = rest[want:]
				if len(got) == 0 {
					return
				}
			}
		})
	}()
	if kind, status := await(c, fin, markHelper, hb); gaveUp(c, status, "call blocked", "draining with RecvQueued/RecvQueuedFull did not finish") {
		return
	} else if kind != "" {
		c.Fail("panic", kind)
	}
	c.Nontrivial()
	if msg != "" {
		c.Fail("repeated RecvQueued/RecvQueuedFull calls do not hand out the queue in limit-sized pieces", msg)
	}
	if left, closed := drain(ch); len(left) != 0 || closed != cs.Closed {
		c.Fail("channel after draining", fmt.Sprintf("%d values left, closed %v", len(left), closed))
	}
}

// bigStreams: the oracle-heavy part of the quick tier. Sizes (capacity, fill level, limit, len(buf), number
// of values, timeout) are spread over 0..~4100 with extra density at and around powers of two; every case is
// checked by the direct oracle, every sampleEvery-th one of moderate size also by the model.
func bigStreams(c *core.Ctx) {
	const top = 4100
	idx := 0
	sample := func(cs Case, size int) Case {
		idx++
		cs.NoModel = !(idx%25 == 0 && size <= 1100)
		return cs
	}
	clamp := func(v int) int {
		if v < 0 {
			return 0
		}
		if v > top+200 {
			return top + 200
		}
		return v
	}
	queued := func(fn string, lim, fill, spare, pat int, closed bool) {
		fill = clamp(fill)
		size := fill + spare
		if lim > size {
			size = lim
		}
		if fn == "RecvQueuedFull" && lim < 0 {
			lim = 0
		}
		exec(c, sample(Case{Fn: fn, Cap: fill + spare, NFill: fill, Pat: pat, Fill: nilIfBig(fill, pat), Closed: closed, Limit: lim}, size))
	}
	// (a) grid: every mark as the limit x fill level just below / at / above it, one batch above, more than twice
	for mi, m := range marks {
		if m < 15 {
			continue
		}
		for _, lim := range []int{m} {
			for fi, fill := range []int{lim - 1, lim, lim + 1, lim + 64, 2*lim + 1} {
				for _, fn := range []string{"RecvQueued", "RecvQueuedFull"} {
					queued(fn, lim, fill, (mi+fi)%2, 0, (mi+fi)%3 == 0)
				}
			}
		}
	}
	// (b) random: limit, fill level relative to the limit, spare capacity, value pattern, open/closed
	for i := c.N(2500, 40000, 20000); i > 0 && stuck < 3; i-- {
		lim := dim(c.Rng, top)
		var fill int
		switch c.Rng.Intn(10) {
		case 0:
			fill = lim - 1
		case 1:
			fill = lim
		case 2:
			fill = lim + 1
		case 3:
			fill = lim + []int{63, 64, 65}[c.Rng.Intn(3)]
		case 4:
			fill = 2*lim + c.Rng.Range(-1, 1)
		case 5:
			fill = lim + dim(c.Rng, top)
		case 6:
			fill = lim / 2
		default:
			fill = dim(c.Rng, top)
		}
		spare := 0
		if c.Rng.Chance(40) {
			spare = dim(c.Rng, 130)
		}
		fn := "RecvQueued"
		if c.Rng.Chance(40) {
			fn = "RecvQueuedFull"
		} else if c.Rng.Chance(6) { // count parameter: far beyond anything queued, and negative
			lim = []int{math.MaxInt, math.MaxInt32, 1 << 40, math.MinInt, -4097, -64}[c.Rng.Intn(6)]
		}
		queued(fn, lim, fill, spare, c.Rng.Intn(3), c.Rng.Chance(35))
	}
	// (c) repeated calls on one channel
	for i := c.N(400, 6000, 3000); i > 0 && stuck < 3; i-- {
		fill := dim(c.Rng, top)
		exec(c, Case{Fn: "QueuedDrain", Cap: fill + c.Rng.Intn(2), NFill: fill, Pat: c.Rng.Intn(3), Fill: nilIfBig(fill, 0),
			Closed: c.Rng.Chance(35), Limit: 1 + dim(c.Rng, top), N: c.Rng.Intn(2), NoModel: true})
	}
	// (d) concurrent producer, limits and capacities beyond the small scope
	for i := c.N(60, 1500, 800); i > 0 && stuck < 3; i-- {
		exec(c, Case{Fn: "QueuedConcurrent", Cap: dim(c.Rng, 300), N: 1 + dim(c.Rng, top), Limit: 1 + dim(c.Rng, 300), NoModel: true})
	}
	// (e) timed helpers on large channels and with timeouts of every magnitude: alone (ready / not ready)
	// and with a partner already there; exact outcomes
	nsFire := []int64{1, 2, 63, 64, 65, 127, 128, 129, 1023, 1024, 1025, 4095, 4096, 4097, 65535, 65536, 65537, 999999, 1000000, 1000001}
	nsNever := []int64{0, -1, -63, -64, -65, -4096, math.MinInt64, math.MinInt64 + 1, math.MaxInt64, math.MaxInt64 - 1, int64(time.Hour), 1 << 62}
	for i := c.N(700, 12000, 6000); i > 0 && stuck < 3; i-- {
		fn := []string{"SendTimeout", "SendContext", "RecvTimeout", "RecvContext"}[c.Rng.Intn(4)]
		isSend := strings.HasPrefix(fn, "Send")
		cp := dim(c.Rng, top)
		var fill int
		switch c.Rng.Intn(5) {
		case 0:
			fill = cp
		case 1:
			fill = cp - 1
		case 2:
			fill = 0
		case 3:
			fill = 1
		default:
			fill = dim(c.Rng, cp)
		}
		if fill > cp {
			fill = cp
		}
		if fill < 0 {
			fill = 0
		}
		cs := Case{Fn: fn, Cap: cp, NFill: fill, Pat: c.Rng.Intn(3), Fill: nilIfBig(fill, 0), Closed: c.Rng.Chance(15), Value: c.Rng.Range(-1, 99)}
		ready := cs.Closed || (isSend && fill < cp) || (!isSend && fill > 0)
		cs.Sit = "alone"
		if !cs.Closed && c.Rng.Chance(30) {
			cs.Sit = "partner"
		}
		if strings.HasSuffix(fn, "Timeout") {
			cs.Mode = "ns"
			if ready || cs.Sit == "partner" {
				cs.Ns = nsNever[c.Rng.Intn(len(nsNever))]
			} else {
				cs.Ns = nsFire[c.Rng.Intn(len(nsFire))]
			}
		} else if ready || cs.Sit == "partner" {
			cs.Mode = "live"
		} else {
			cs.Mode = "cancelled"
		}
		if valid(cs) {
			exec(c, sample(cs, cp))
		}
	}
}

// nilIfBig keeps small fills explicit in the case (readable replay files) and large ones generated.
func nilIfBig(n, pat int) []int {
	if n <= 16 && pat == 0 {
		return seq(n, 1)
	}
	return nil
}

// execTimerRace: the timer and the channel become ready at (almost) the same moment — a timeout of a few
// nanoseconds on a channel that is ready. Either outcome is allowed, but the result must tell the truth:
// SendTimeout true iff the value is now in the channel, RecvTimeout (v,true) iff v was taken. N rounds per case.
func execTimerRace(c *core.Ctx, cs Case) {
	for i := 0; i < cs.N; i++ {
		d := time.Duration(1 + i%3*40) // 1ns, 41ns, 81ns
		switch cs.Fn {
		case "TimerRaceSend":
			ch := make(chan int, 1)
			ok := chans.SendTimeout(ch, 7+i, d)
			if ok != (len(ch) == 1) {
				c.Fail("SendTimeout result does not say whether the value was sent (timer and channel ready together)",
					fmt.Sprintf("round %d timeout %v: returned %v, values in channel %d", i, d, ok, len(ch)))
				return
			}
			if ok {
				if v := <-ch; v != 7+i {
					c.Fail("SendTimeout sent a different value", fmt.Sprint(v))
					return
				}
				c.Count("timer_race_send_true")
			} else {
				c.Count("timer_race_send_false")
			}
		case "TimerRaceRecv":
			ch := make(chan int, 1)
			ch <- 7 + i
			v, ok := chans.RecvTimeout(ch, d)
			if ok != (len(ch) == 0) || (ok && v != 7+i) || (!ok && v != 0) {
				c.Fail("RecvTimeout result does not say whether a value was taken (timer and channel ready together)",
					fmt.Sprintf("round %d timeout %v: returned (%d,%v), values left %d", i, d, v, ok, len(ch)))
				return
			}
			if ok {
				c.Count("timer_race_recv_true")
			} else {
				c.Count("timer_race_recv_false")
			}
		}
	}
	c.Nontrivial()
}

func exec(c *core.Ctx, cs Case) {
	if stuck >= 3 {
		return // broken implementation: enough hangs recorded, do not wait for more
	}
	c.Begin(cs)
	c.Count("fn_" + cs.Fn)
	if cs.Fill == nil && cs.NFill > 0 {
		cs.Fill = genFill(cs.NFill, cs.Pat)
	}
	if cs.NoModel {
		c.Count("oracle_only")
	}
	switch cs.Fn {
	case "RecvQueued", "RecvQueuedFull":
		if len(cs.Parked) > 0 {
			execQueuedParked(c, cs)
		} else {
			execQueued(c, cs)
		}
	case "NilChan":
		execNil(c, cs)
	case "QueuedConcurrent":
		execConcurrent(c, cs)
	case "TimerRaceSend", "TimerRaceRecv":
		execTimerRace(c, cs)
	case "QueuedDrain":
		execDrain(c, cs)
	default:
		execTimed(c, cs)
	}
}

func mkchan(cs Case) chan int {
	ch := make(chan int, cs.Cap)
	for _, v := range cs.Fill {
		ch <- v
	}
	if cs.Closed {
		close(ch)
	}
	return ch
}

// drain empties the channel without blocking and reports whether it is closed.
func drain(ch chan int) (left []int, closed bool) {
	for {
		select {
		case v, ok := <-ch:
			if !ok {
				return left, true
			}
			left = append(left, v)
		default:
			return left, false
		}
	}
}

func execQueued(c *core.Ctx, cs Case) {
	ch := mkchan(cs)
	n := cs.Limit
	if n < 0 {
		n = 0
	}
	var slice []int
	if cs.Fn == "RecvQueuedFull" {
		slice = seq(n, 900) // sentinels: what RecvQueuedFull does not overwrite must stay
	}
	before := append([]int{}, slice...)
	emit := func(term string) {
		if !cs.NoModel && n <= 5000 { // the model takes limit+2 steps: never hand it an astronomic limit
			c.Emit(term)
		}
	}
	var got []int
	var cnt int
	resc := make(chan string, 1)
	hb := baseOf(markHelper)
	go func() {
		resc <- core.Try(func() {
			if cs.Fn == "RecvQueued" {
				got = chans.RecvQueued(ch, cs.Limit)
			} else {
				cnt = chans.RecvQueuedFull(ch, slice)
			}
		})
	}()
	kind, status := await(c, resc, markHelper, hb)
	if gaveUp(c, status, "call blocked", cs.Fn+" did not return; it must never block") {
		if status != unobserved {
			emit(coqCase(cs, before, fmt.Sprintf("[SHelp %d]", n+2), false, true, "OBlocked", nil, cs.Closed, nil))
		}
		return
	}
	left, closedAfter := drain(ch)
	k := n
	if len(cs.Fill) < k {
		k = len(cs.Fill)
	}
	if k > 0 && (k < len(cs.Fill) || cs.Closed) {
		c.Nontrivial() // values are transferred and the call has to stop before the queue does / at the closure
	}
	if cs.Closed {
		c.Count("closed")
	}
	// direct oracle: exactly the queued prefix, in order; the rest stays; nothing invented
	res := ""
	if !cs.NoModel {
		res = "OList " + core.ZList(got)
	}
	if kind != "" {
		c.Fail("panic", kind)
		res = "OPanic " + kind
	} else if cs.Fn == "RecvQueued" {
		if !core.Eq(got, cs.Fill[:k]) {
			c.Fail("RecvQueued result is not the queued prefix", diff(got, cs.Fill[:k]))
		}
	} else {
		if !cs.NoModel {
			res = fmt.Sprintf("OFull %s %s", core.Z(cnt), core.ZList(slice))
		}
		if cnt != k {
			c.Fail("RecvQueuedFull count", fmt.Sprintf("returned %d, want %d", cnt, k))
		} else if !core.Eq(slice[:k], cs.Fill[:k]) || !core.Eq(slice[k:], before[k:]) {
			c.Fail("RecvQueuedFull buffer", "buf is not the queued prefix followed by its untouched rest: "+
				diff(slice, append(append([]int{}, cs.Fill[:k]...), before[k:]...)))
		}
	}
	if !core.Eq(left, cs.Fill[k:]) {
		c.Fail("channel contents after the call", fmt.Sprintf("queued %d, limit %d, returned %d values; left in the channel: %s",
			len(cs.Fill), cs.Limit, len(got)+cnt, diff(left, cs.Fill[k:])))
	}
	if closedAfter != cs.Closed {
		c.Fail("closed state changed", fmt.Sprint(closedAfter))
	}
	emit(coqCase(cs, before, fmt.Sprintf("[SHelp %d]", n+2), false, true, res, left, closedAfter, nil))
}

// execQueuedParked: RecvQueued / RecvQueuedFull on a full (or unbuffered) channel on which sender goroutines are
// already parked. The senders are started one after the other, each only after the previous one has been SEEN
// parked (runtime.Stack), so their order in the channel's wait queue is known; after the call the harness reads
// len(ch) and the number of senders still parked, then drains the channel. Exact: Go hands out the buffered
// values followed by the parked senders' values, each parked sender completing as its value moves in.
func execQueuedParked(c *core.Ctx, cs Case) {
	ch := mkchan(cs) // open, len(Fill) == Cap
	np := len(cs.Parked)
	n := cs.Limit
	if n < 0 {
		n = 0
	}
	base := parkedCount(markPartner)
	sent := make([]bool, np)
	dones := make([]chan struct{}, np)
	sched := []string{}
	for i, v := range cs.Parked {
		dones[i] = make(chan struct{})
		go partnerSend(ch, v, &sent[i], dones[i])
		if parked, ok := waitParked(markPartner, base+i+1, dones[i]); !ok || !parked {
			c.Unobservable("C19 gate: a sender goroutine was never seen parked on the full channel")
			drain(ch)
			return
		}
		sched = append(sched, "SSend "+core.Z(v))
	}
	sched = append(sched, fmt.Sprintf("SExpect %d %d 0", len(ch), parkedCount(markPartner)-base))
	var slice []int
	if cs.Fn == "RecvQueuedFull" {
		slice = seq(n, 900)
	}
	before := append([]int{}, slice...)
	var got []int
	var cnt int
	resc := make(chan string, 1)
	hb := baseOf(markHelper)
	go func() {
		resc <- core.Try(func() {
			if cs.Fn == "RecvQueued" {
				got = chans.RecvQueued(ch, cs.Limit)
			} else {
				cnt = chans.RecvQueuedFull(ch, slice)
				got = slice[:cnt]
			}
		})
	}()
	kind, status := await(c, resc, markHelper, hb)
	if gaveUp(c, status, "call blocked", cs.Fn+" did not return; it must never block") {
		return
	}
	// every sender has now either completed or is still parked: wait until that is what the goroutine states say
	nbuf, left := -1, -1
	deadline := time.Now().Add(60 * time.Second)
	for i := 0; ; i++ {
		finished := 0
		for _, d := range dones {
			select {
			case <-d:
				finished++
			default:
			}
		}
		if l := parkedCount(markPartner) - base; finished+l == np {
			nbuf, left = len(ch), l
			break
		}
		runtime.Gosched()
		if i > 50 {
			time.Sleep(100 * time.Microsecond)
		}
		if i%64 == 63 && time.Now().After(deadline) {
			c.Unobservable("C19 gate: sender goroutines neither finished nor parked after the call")
			return
		}
	}
	sched = append(sched, fmt.Sprintf("SHelp %d", n+2), fmt.Sprintf("SExpect %d %d 0", nbuf, left))
	rest, closedAfter := drain(ch) // releases the senders that were still parked, in order
	for _, d := range dones {
		if _, status := await(c, d, markPartner, base); gaveUp(c, status, "partner stuck", "a parked sender never completed although the channel was drained") {
			return
		}
	}
	for range rest {
		sched = append(sched, "SRecv")
	}
	c.Nontrivial()
	c.Count("parked_senders")
	// direct oracle
	q := append(append([]int{}, cs.Fill...), cs.Parked...)
	k := n
	if len(q) < k {
		k = len(q)
	}
	moved := k // parked senders that completed during the call
	if moved > np {
		moved = np
	}
	res := "OList " + core.ZList(got)
	if cs.Fn == "RecvQueuedFull" {
		res = fmt.Sprintf("OFull %s %s", core.Z(cnt), core.ZList(slice))
	}
	if kind != "" {
		c.Fail("panic", kind)
		res = "OPanic " + kind
	} else {
		if !core.Eq(got, q[:k]) {
			c.Fail(cs.Fn+" result is not the queued prefix (buffered values, then parked senders' values)", diff(got, q[:k]))
		}
		if cs.Fn == "RecvQueuedFull" && !core.Eq(slice[k:], before[k:]) {
			c.Fail("RecvQueuedFull buffer", "the rest of buf was touched: "+diff(slice[k:], before[k:]))
		}
	}
	if left != np-moved || nbuf != len(q)-k-(np-moved) {
		c.Fail("channel state after the call", fmt.Sprintf("%d buffered and %d senders parked, want %d and %d", nbuf, left, len(q)-k-(np-moved), np-moved))
	}
	if !core.Eq(rest, q[k:]) {
		c.Fail("channel contents after the call", "drained (buffer, then parked senders): "+diff(rest, q[k:]))
	}
	for i, ok := range sent {
		if !ok {
			c.Fail("a parked sender's send did not complete", fmt.Sprint(i))
		}
	}
	if closedAfter {
		c.Fail("closed state changed", "")
	}
	if !cs.NoModel {
		c.Emit(coqCase(cs, before, "["+strings.Join(sched, "; ")+"]", false, true, res, nil, false, rest))
	}
}

// execNil: nil channels are outside the model; this probe is their only cover. A receive from / send to a nil
// channel never proceeds: the queued receivers return nothing at once, the timed helpers give up through their
// timer / context (with timeout <= 0 they would wait forever: not run).
func execNil(c *core.Ctx, cs Case) {
	var ch chan int
	fin := make(chan string, 1)
	msg := ""
	hb := baseOf(markHelper)
	go func() {
		fin <- core.Try(func() {
			if got := chans.RecvQueued(ch, 5); len(got) != 0 {
				msg += fmt.Sprintf("RecvQueued(nil, 5) = %v; ", got)
			}
			buf := []int{9, 9, 9}
			if n := chans.RecvQueuedFull(ch, buf); n != 0 || !core.Eq(buf, []int{9, 9, 9}) {
				msg += fmt.Sprintf("RecvQueuedFull(nil, buf) = %d, buf %v; ", n, buf)
			}
			if chans.SendTimeout(ch, 1, late) {
				msg += "SendTimeout(nil) = true; "
			}
			if v, ok := chans.RecvTimeout(ch, late); ok || v != 0 {
				msg += fmt.Sprintf("RecvTimeout(nil) = (%d,%v); ", v, ok)
			}
			ctx, cancel := context.WithCancel(context.Background())
			cancel()
			if chans.SendContext(ctx, ch, 1) {
				msg += "SendContext(cancelled, nil) = true; "
			}
			if v, ok := chans.RecvContext(ctx, (<-chan int)(ch)); ok || v != 0 {
				msg += fmt.Sprintf("RecvContext(cancelled, nil) = (%d,%v); ", v, ok)
			}
		})
	}()
	if kind, status := await(c, fin, markHelper, hb); gaveUp(c, status, "call blocked", "a helper blocked on a nil channel where it must return") {
		return
	} else if kind != "" {
		c.Fail("panic", kind)
	} else if msg != "" {
		c.Fail("nil channel", msg)
	}
}

// execConcurrent: a producer sends 1..N and closes while the consumer polls with
// RecvQueued / RecvQueuedFull; everything received, in order, must be exactly 1..N.
func execConcurrent(c *core.Ctx, cs Case) {
	ch := make(chan int, cs.Cap)
	prodDone := make(chan struct{})
	go func() {
		for i := 1; i <= cs.N; i++ {
			ch <- i
			if i%3 == 0 {
				runtime.Gosched()
			}
		}
		close(ch)
		close(prodDone)
	}()
	var all []int
	fin := make(chan string, 1)
	hb := baseOf(markHelper)
	go func() {
		fin <- core.Try(func() {
			full := false
			for {
				var got []int
				if full {
					buf := make([]int, cs.Limit)
					got = buf[:chans.RecvQueuedFull(ch, buf)]
				} else {
					got = chans.RecvQueued(ch, cs.Limit)
				}
				full = !full
				if len(got) > cs.Limit {
					panic("more values than the limit")
				}
				all = append(all, got...)
				if len(got) == 0 {
					select {
					case <-prodDone:
						all = append(all, chans.RecvQueued(ch, cs.N+1)...) // closed: must stop at the end of the queue
						return
					default:
						runtime.Gosched()
					}
				}
			}
		})
	}()
	if kind, status := await(c, fin, markHelper, hb); gaveUp(c, status, "call blocked", "consumer did not finish") {
		return
	} else if kind != "" {
		c.Fail("panic", kind)
	}
	c.Nontrivial()
	if !core.Eq(all, seq(cs.N, 1)) {
		c.Fail("values lost, duplicated, reordered or invented under a concurrent producer",
			fmt.Sprintf("received %v, want 1..%d", all, cs.N))
	}
}

// execTimed runs the scenario once if its outcome is fixed, and several times if a select may go
// either way (so that both branches are normally seen); the first failing run, or else the last
// run, is the one that is reported and compared with the model.
func execTimed(c *core.Ctx, cs Case) {
	_, exact := plan(cs, strings.HasPrefix(cs.Fn, "Send"))
	reps := 1
	if !exact {
		reps = 6
	}
	c.Count("mode_" + cs.Mode)
	c.Count("sit_" + cs.Sit)
	for r := 1; r <= reps; r++ {
		if execTimedOnce(c, cs, r == reps) {
			return
		}
	}
}

type failure struct{ what, detail string }

// execTimedOnce reports (failures, statistics, model case) and returns true if the run failed or report is set.
func execTimedOnce(c *core.Ctx, cs Case, report bool) bool {
	isSend := strings.HasPrefix(cs.Fn, "Send")
	var fails []failure
	fail := func(what, detail string) { fails = append(fails, failure{what, detail}) }
	count := func(stat string) {
		if report {
			c.Count(stat)
		}
	}
	ch := mkchan(cs)
	var timeout time.Duration
	ctx, cancel := context.WithCancel(context.Background())
	defer cancel()
	doneAtCall := false
	switch cs.Mode {
	case "long", "live":
		timeout = 30 * time.Second
	case "zero":
		timeout = 0
	case "neg":
		timeout = -1
	case "min":
		timeout = math.MinInt64
	case "short":
		timeout = late
	case "ns":
		timeout = time.Duration(cs.Ns)
	case "tiny":
		timeout = 1
	case "cancelled":
		cancel()
		doneAtCall = true
	case "cancel_late":
		go func() { time.Sleep(late); cancel() }()
	}
	// partner goroutine: a receiver for the send helpers, a sender of cs.Value for the receive helpers
	partnerDone := make(chan struct{})
	var envRcvd []int
	partnerSent := false
	partner := func() {
		if isSend {
			partnerRecv(ch, &envRcvd, partnerDone)
		} else {
			partnerSend(ch, cs.Value, &partnerSent, partnerDone)
		}
	}
	base := baseOf(markPartner) // partner goroutines of earlier (failed) cases that are parked for good
	if cs.Sit == "parked" || closesAtEnd(cs) {
		base = parkedCount(markPartner)
	}
	hb := baseOf(markHelper)
	observed := "" // what was seen on runtime.Stack / len(ch) at the gate, for the model
	switch cs.Sit {
	case "partner":
		go partner()
		for i := 0; i < 20; i++ {
			runtime.Gosched() // usually enough for the partner to be parked; the outcome does not depend on it
		}
	case "parked":
		go partner()
		parked, ok := waitParked(markPartner, base+1, partnerDone)
		if !ok || !parked {
			c.Unobservable("C19 gate: the partner goroutine was never seen parked on the channel")
			close(ch)
			return true
		}
		if isSend {
			observed = fmt.Sprintf("SExpect %d 0 1", len(ch))
		} else {
			observed = fmt.Sprintf("SExpect %d 1 0", len(ch))
		}
	case "partner_late":
		go func() { time.Sleep(late); partner() }()
	case "close_late":
		go func() { time.Sleep(late); close(ch); close(partnerDone) }()
	case "partner_after": // started below, once the helper has returned
	default:
		close(partnerDone)
	}

	type out struct {
		kind string
		b    bool
		v    int
		ok   bool
	}
	resc := make(chan out, 1)
	go func() {
		var o out
		o.kind = core.Try(func() {
			switch cs.Fn {
			case "SendTimeout":
				o.b = chans.SendTimeout(ch, cs.Value, timeout)
			case "SendContext":
				o.b = chans.SendContext(ctx, ch, cs.Value)
			case "RecvTimeout":
				o.v, o.ok = chans.RecvTimeout(ch, timeout)
			case "RecvContext":
				o.v, o.ok = chans.RecvContext(ctx, (<-chan int)(ch))
			}
		})
		resc <- o
	}()
	sched, exact := plan(cs, isSend)
	sched = strings.Replace(sched, "SExpect@", observed, 1)
	o, status := await(c, resc, markHelper, hb)
	if gaveUp(c, status, "call blocked", cs.Fn+" did not return in a scenario where it must") {
		if !cs.NoModel && status != unobserved {
			c.Emit(coqCase(cs, nil, sched, doneAtCall, exact, "OBlocked", nil, cs.Closed, nil))
		}
		return true
	}
	if cs.Sit == "partner_after" {
		go partner()
	}
	if closesAtEnd(cs) {
		// the partner has finished, or is parked for good (seen on runtime.Stack): only then release it by closing
		if _, ok := waitParked(markPartner, base+1, partnerDone); !ok {
			c.Unobservable("C19 gate: the partner goroutine neither finished nor parked")
			return true
		}
		close(ch)
	}
	if _, status := await(c, partnerDone, markPartner, base); gaveUp(c, status, "partner stuck",
		fmt.Sprintf("%s returned %+v but the partner goroutine never completed its operation", cs.Fn, o)) {
		if !cs.NoModel && status != unobserved {
			c.Emit(coqCase(cs, nil, sched, doneAtCall, exact, "OBlocked", nil, cs.Closed, nil))
		}
		return true
	}
	left, closedAfter := drain(ch)
	if cs.Sit != "alone" || !unlimitedCase(cs) || cs.Closed {
		c.Nontrivial() // a partner, a firing timer/context or a closed channel is involved
	}

	// ---- direct oracle ----
	// everything that entered the channel: initial contents, then completed sends
	in := append([]int{}, cs.Fill...)
	if partnerSent {
		in = append(in, cs.Value)
	}
	var res string
	switch {
	case o.kind != "":
		res = "OPanic " + o.kind
		count("res_panic")
		if !(isSend && o.kind == "SendOnClosed" && closedAfter) {
			fail("panic", o.kind)
		}
	case isSend:
		res = "OBool " + core.Bool(o.b)
		count("res_" + core.Bool(o.b))
		if o.b {
			in = append(in, cs.Value) // true: handed over exactly once
		} // false: not sent at all
	default:
		res = fmt.Sprintf("ORecv %s %s", core.Z(o.v), core.Bool(o.ok))
		count("res_" + core.Bool(o.ok))
		if !o.ok && o.v != 0 {
			fail("false with a non-zero value", fmt.Sprint(o.v))
		}
		if !o.ok && unlimitedCase(cs) && !closedAfter {
			fail("receive without limit returned false on an open channel", "")
		}
	}
	outv := append([]int{}, envRcvd...) // everything that left the channel, in order, then what is still in it
	if !isSend && o.kind == "" && o.ok {
		outv = append(outv, o.v)
	}
	outv = append(outv, left...)
	if !core.Eq(in, outv) {
		if len(in) > 12 {
			fail("conservation", fmt.Sprintf("result %s: values received then left in the channel against values that entered: %s", res, diff(outv, in)))
		} else {
			fail("conservation", fmt.Sprintf("result %s: values that entered %v, values received then left in the channel %v", res, in, outv))
		}
	}
	if closedAfter != (cs.Closed || cs.Sit == "close_late" || closesAtEnd(cs)) {
		fail("closed state", fmt.Sprint(closedAfter))
	}
	if exact {
		if want := expect(cs, isSend); want != res {
			fail("result", fmt.Sprintf("got %s, want %s (outcome does not depend on timing in this scenario)", res, want))
		}
		count("exact")
	} else {
		count("either")
	}
	if len(fails) == 0 && !report {
		return false
	}
	for _, f := range fails {
		c.Fail(f.what, f.detail)
	}
	if !cs.NoModel {
		c.Emit(coqCase(cs, nil, sched, doneAtCall, exact, res, left, closedAfter, envRcvd))
	}
	return true
}

// plan gives the model schedule of the scenario and whether its outcome is the same for every timing.
func plan(cs Case, isSend bool) (sched string, exact bool) {
	ready := cs.Closed || (isSend && len(cs.Fill) < cs.Cap) || (!isSend && len(cs.Fill) > 0)
	p := "SRecv"
	if !isSend {
		p = "SSend " + core.Z(cs.Value)
	}
	switch cs.Sit {
	case "partner":
		return "[" + p + "; SHelp 1]", true
	case "partner_late":
		if unlimitedCase(cs) {
			return "[SHelp 1; " + p + "; SHelp 1]", true
		}
	case "close_late":
		return "[SHelp 1; SClose; SHelp 1]", true
	case "parked": // SExpect@ is replaced by what the gate observed: len(ch) and the parked partner
		switch {
		case unlimitedCase(cs):
			return "[" + p + "; SExpect@; SHelp 1; SClose]", true
		case cs.Mode == "cancelled":
			return "[" + p + "; SExpect@; SHelp 1; SClose]", false
		}
		return "[" + p + "; SExpect@; SDone; SHelp 1; SClose]", false
	case "partner_after":
		return "[SHelp 1; SDone; SHelp 1; " + p + "; SClose]", true
	}
	if cs.Sit == "partner_late" && !unlimitedCase(cs) {
		return "[SHelp 1; " + p + "; SDone; SHelp 1; SClose]", false
	}
	switch {
	case unlimitedCase(cs):
		return "[SHelp 1]", true
	case cs.Mode == "cancelled": // c_done = true
		// closed and drained receive: both branches return (zero,false) and change nothing
		return "[SHelp 1]", !ready || (!isSend && cs.Closed && len(cs.Fill) == 0)
	case ready: // the timer/context may or may not win against a ready channel
		return "[SDone; SHelp 1]", !isSend && cs.Closed && len(cs.Fill) == 0
	default:
		return "[SHelp 1; SDone; SHelp 1]", true
	}
}

// expect is the reference outcome of an exact scenario.
func expect(cs Case, isSend bool) string {
	if isSend {
		room := len(cs.Fill) < cs.Cap
		switch {
		case cs.Closed:
			return "OPanic SendOnClosed"
		case cs.Sit == "close_late" && !room:
			return "OPanic SendOnClosed"
		case cs.Sit == "partner_after":
			return "OBool false"
		case cs.Sit != "alone" || (room && unlimitedCase(cs)):
			return "OBool true"
		}
		return "OBool false"
	}
	q := append([]int{}, cs.Fill...)
	if cs.Sit == "partner_after" {
		return "ORecv 0 false"
	}
	if cs.Sit == "partner" || cs.Sit == "partner_late" || cs.Sit == "parked" {
		q = append(q, cs.Value)
	}
	if len(q) > 0 && (cs.Sit != "alone" || unlimitedCase(cs)) {
		return fmt.Sprintf("ORecv %s true", core.Z(q[0]))
	}
	return "ORecv 0 false"
}

func coqCase(cs Case, slice []int, sched string, done, exact bool, res string, left []int, closedAfter bool, envRcvd []int) string {
	arg := int64(cs.Limit)
	switch cs.Mode {
	case "long":
		arg = int64(30 * time.Second)
	case "neg":
		arg = -1
	case "min":
		arg = math.MinInt64
	case "short":
		arg = int64(late)
	case "tiny":
		arg = 1
	case "ns":
		arg = cs.Ns
	case "zero", "live", "cancelled", "cancel_late":
		arg = 0
	}
	if cs.Fn == "RecvQueuedFull" {
		arg = 0
	}
	return fmt.Sprintf("Case F%s %s %s %s %s %s %s %s %s %s (%s) %s %s %s",
		cs.Fn, core.Z(cs.Cap), core.ZList(cs.Fill), core.Bool(cs.Closed), core.Bool(done), core.Z(cs.Value), core.Z64(arg),
		core.ZList(slice), sched, core.Bool(exact), res, core.ZList(left), core.Bool(closedAfter), core.ZList(envRcvd))
}
