// Package c19: chans.SendTimeout, SendContext, RecvTimeout, RecvContext,
// RecvQueued, RecvQueuedFull.
//
// Every case stages a scenario around ONE call of a real helper and records
// what could be observed afterwards: the result, the channel contents (drained
// by the harness after all partner goroutines were joined), whether it is
// closed, and what the partner received. No assertion depends on a wall-clock
// duration: scenarios are chosen so that the outcome is the same for every
// timing ("exact"), or the property allows either outcome and only
// conservation is checked ("either"). The only clocks are the sleeps that
// make a partner arrive late and a watchdog that turns a hang into a failure.
package c19

import (
	"context"
	"encoding/json"
	"fmt"
	"math"
	"runtime"
	"strings"
	"time"

	"gopkg.in/typ.v4/chans"
	"verif/harness/core"
)

type Case struct {
	Fn     string `json:"fn"` // SendTimeout|SendContext|RecvTimeout|RecvContext|RecvQueued|RecvQueuedFull|QueuedConcurrent
	Cap    int    `json:"cap"`
	Fill   []int  `json:"fill"`
	Closed bool   `json:"closed"`
	// timed helpers
	Mode  string `json:"mode,omitempty"` // long|zero|neg|min|short|tiny (timeouts)  live|cancelled|cancel_late (contexts)
	Sit   string `json:"sit,omitempty"`  // alone|partner|partner_late|close_late
	Value int    `json:"value,omitempty"`
	// queued receivers
	Limit int `json:"limit,omitempty"`
	// QueuedConcurrent
	N int `json:"n,omitempty"`
}

const (
	late     = 2 * time.Millisecond
	watchdog = 4 * time.Second
)

var stuck int // calls that never returned (only with a broken implementation); the run stops early

func init() {
	core.Register(&core.Prop{ID: "C19", Module: "Chans.HelpersCheck", Run: run, Replay: replay})
}

func replay(c *core.Ctx, raw json.RawMessage) error {
	var cs Case
	if err := json.Unmarshal(raw, &cs); err != nil {
		return err
	}
	exec(c, cs)
	return nil
}

func seq(n, from int) []int {
	s := make([]int, n)
	for i := range s {
		s[i] = from + i
	}
	return s
}

var timeoutModes = []string{"long", "zero", "neg", "min", "short", "tiny"}
var ctxModes = []string{"live", "cancelled", "cancel_late"}
var sits = []string{"alone", "partner", "partner_late", "close_late"}

func modesOf(fn string) []string {
	if strings.HasSuffix(fn, "Timeout") {
		return timeoutModes
	}
	return ctxModes
}

func unlimited(mode string) bool {
	return mode == "long" || mode == "zero" || mode == "neg" || mode == "min" || mode == "live"
}

// valid says whether the scenario has an outcome the harness can wait for.
func valid(cs Case) bool {
	isSend := strings.HasPrefix(cs.Fn, "Send")
	ready := cs.Closed || (isSend && len(cs.Fill) < cs.Cap) || (!isSend && len(cs.Fill) > 0)
	if cs.Sit == "close_late" && isSend && ready {
		return false // would the send or the close come first? depends on timing
	}
	if cs.Sit != "alone" {
		return unlimited(cs.Mode) && !cs.Closed
	}
	return ready || !unlimited(cs.Mode) // alone, unlimited and not ready would wait forever
}

func run(c *core.Ctx) {
	// ---- RecvQueued / RecvQueuedFull: exhaustive small scope, exact ----
	maxCap := c.N(4, 6, 6)
	maxLim := c.N(6, 9, 9)
	for cp := 0; cp <= maxCap; cp++ {
		for fill := 0; fill <= cp; fill++ {
			for _, closed := range []bool{false, true} {
				for lim := -1; lim <= maxLim; lim++ {
					exec(c, Case{Fn: "RecvQueued", Cap: cp, Fill: seq(fill, 1), Closed: closed, Limit: lim})
					if lim >= 0 {
						exec(c, Case{Fn: "RecvQueuedFull", Cap: cp, Fill: seq(fill, 1), Closed: closed, Limit: lim})
					}
				}
			}
		}
	}
	c.Exhaustive = true
	c.Note(fmt.Sprintf("exhaustive: RecvQueued/RecvQueuedFull for all cap<=%d x fill<=cap x open/closed x limit -1..%d; "+
		"timed helpers: all (mode, situation) scenarios with a waitable outcome for cap<=3 x fill<=cap x open/closed", maxCap, maxLim))
	// random: larger channels, repeated values (zero values included: a closed channel must not look like queued zeros)
	for i := c.N(300, 6000, 3000); i > 0 && stuck < 3; i-- {
		cp := c.Rng.Size(c.N(40, 200, 200))
		fill := c.Rng.Intn(cp + 1)
		fn := "RecvQueued"
		lim := c.Rng.Range(-2, cp+3)
		if c.Rng.Bool() {
			fn = "RecvQueuedFull"
			if lim < 0 {
				lim = 0
			}
		}
		exec(c, Case{Fn: fn, Cap: cp, Fill: c.Rng.Ints(fill, -2, 3), Closed: c.Rng.Bool(), Limit: lim})
	}
	// ---- timed helpers: every scenario kind on small channels ----
	for _, fn := range []string{"SendTimeout", "SendContext", "RecvTimeout", "RecvContext"} {
		for _, mode := range modesOf(fn) {
			for _, sit := range sits {
				for cp := 0; cp <= 3; cp++ {
					for fill := 0; fill <= cp; fill++ {
						for _, closed := range []bool{false, true} {
							cs := Case{Fn: fn, Cap: cp, Fill: seq(fill, 1), Closed: closed, Mode: mode, Sit: sit, Value: 77}
							if valid(cs) && stuck < 3 {
								exec(c, cs)
							}
						}
					}
				}
			}
		}
	}
	// random timed scenarios with arbitrary (also zero and repeated) values
	for i := c.N(150, 4000, 2000); i > 0 && stuck < 3; i-- {
		fn := []string{"SendTimeout", "SendContext", "RecvTimeout", "RecvContext"}[c.Rng.Intn(4)]
		ms := modesOf(fn)
		cp := c.Rng.Intn(6)
		cs := Case{Fn: fn, Cap: cp, Fill: c.Rng.Ints(c.Rng.Intn(cp+1), -1, 2), Closed: c.Rng.Chance(25),
			Mode: ms[c.Rng.Intn(len(ms))], Sit: sits[c.Rng.Intn(len(sits))], Value: c.Rng.Range(-1, 2)}
		if valid(cs) {
			exec(c, cs)
		}
	}
	// ---- timer and channel ready together: conservation only (oracle, no model run) ----
	for i := c.N(4, 40, 20); i > 0; i-- {
		exec(c, Case{Fn: "TimerRaceSend", N: 30000})
		exec(c, Case{Fn: "TimerRaceRecv", N: 30000})
	}
	// ---- RecvQueued / RecvQueuedFull against a concurrent producer: conservation only (oracle, no model run) ----
	for i := c.N(40, 1000, 600); i > 0 && stuck < 3; i-- {
		exec(c, Case{Fn: "QueuedConcurrent", Cap: c.Rng.Intn(5), N: c.Rng.Range(1, c.N(60, 400, 400)), Limit: c.Rng.Range(1, 7)})
	}
}

// execTimerRace: the timer and the channel become ready at (almost) the same moment — a timeout of a few
// nanoseconds on a channel that is ready. Either outcome is allowed, but the result must tell the truth:
// SendTimeout true iff the value is now in the channel, RecvTimeout (v,true) iff v was taken. N rounds per case.
func execTimerRace(c *core.Ctx, cs Case) {
	for i := 0; i < cs.N; i++ {
		d := time.Duration(1 + i%3*40) // 1ns, 41ns, 81ns
		switch cs.Fn {
		case "TimerRaceSend":
			ch := make(chan int, 1)
			ok := chans.SendTimeout(ch, 7+i, d)
			if ok != (len(ch) == 1) {
				c.Fail("SendTimeout result does not say whether the value was sent (timer and channel ready together)",
					fmt.Sprintf("round %d timeout %v: returned %v, values in channel %d", i, d, ok, len(ch)))
				return
			}
			if ok {
				if v := <-ch; v != 7+i {
					c.Fail("SendTimeout sent a different value", fmt.Sprint(v))
					return
				}
				c.Count("timer_race_send_true")
			} else {
				c.Count("timer_race_send_false")
			}
		case "TimerRaceRecv":
			ch := make(chan int, 1)
			ch <- 7 + i
			v, ok := chans.RecvTimeout(ch, d)
			if ok != (len(ch) == 0) || (ok && v != 7+i) || (!ok && v != 0) {
				c.Fail("RecvTimeout result does not say whether a value was taken (timer and channel ready together)",
					fmt.Sprintf("round %d timeout %v: returned (%d,%v), values left %d", i, d, v, ok, len(ch)))
				return
			}
			if ok {
				c.Count("timer_race_recv_true")
			} else {
				c.Count("timer_race_recv_false")
			}
		}
	}
	c.Nontrivial()
}

func exec(c *core.Ctx, cs Case) {
	if stuck >= 3 {
		return // broken implementation: enough hangs recorded, do not wait for more
	}
	c.Begin(cs)
	c.Count("fn_" + cs.Fn)
	switch cs.Fn {
	case "RecvQueued", "RecvQueuedFull":
		execQueued(c, cs)
	case "QueuedConcurrent":
		execConcurrent(c, cs)
	case "TimerRaceSend", "TimerRaceRecv":
		execTimerRace(c, cs)
	default:
		execTimed(c, cs)
	}
}

func mkchan(cs Case) chan int {
	ch := make(chan int, cs.Cap)
	for _, v := range cs.Fill {
		ch <- v
	}
	if cs.Closed {
		close(ch)
	}
	return ch
}

// drain empties the channel without blocking and reports whether it is closed.
func drain(ch chan int) (left []int, closed bool) {
	for {
		select {
		case v, ok := <-ch:
			if !ok {
				return left, true
			}
			left = append(left, v)
		default:
			return left, false
		}
	}
}

func execQueued(c *core.Ctx, cs Case) {
	ch := mkchan(cs)
	n := cs.Limit
	if n < 0 {
		n = 0
	}
	slice := seq(n, 900) // sentinels: what RecvQueuedFull does not overwrite must stay
	before := append([]int{}, slice...)
	var got []int
	var cnt int
	resc := make(chan string, 1)
	go func() {
		resc <- core.Try(func() {
			if cs.Fn == "RecvQueued" {
				got = chans.RecvQueued(ch, cs.Limit)
			} else {
				cnt = chans.RecvQueuedFull(ch, slice)
			}
		})
	}()
	var kind string
	select {
	case kind = <-resc:
	case <-time.After(watchdog):
		stuck++
		c.Fail("call blocked", fmt.Sprintf("%s did not return within %v; it must never block", cs.Fn, watchdog))
		c.Emit(coqCase(cs, before, fmt.Sprintf("[SHelp %d]", n+2), false, true, "OBlocked", nil, cs.Closed, nil))
		return
	}
	left, closedAfter := drain(ch)
	k := n
	if len(cs.Fill) < k {
		k = len(cs.Fill)
	}
	if k > 0 && (k < len(cs.Fill) || cs.Closed) {
		c.Nontrivial() // values are transferred and the call has to stop before the queue does / at the closure
	}
	if cs.Closed {
		c.Count("closed")
	}
	// direct oracle: exactly the queued prefix, in order; the rest stays; nothing invented
	res := "OList " + core.ZList(got)
	if kind != "" {
		c.Fail("panic", kind)
		res = "OPanic " + kind
	} else if cs.Fn == "RecvQueued" {
		if !core.Eq(got, cs.Fill[:k]) {
			c.Fail("RecvQueued result is not the queued prefix", fmt.Sprintf("got %v, want %v", got, cs.Fill[:k]))
		}
	} else {
		res = fmt.Sprintf("OFull %s %s", core.Z(cnt), core.ZList(slice))
		if cnt != k {
			c.Fail("RecvQueuedFull count", fmt.Sprintf("returned %d, want %d", cnt, k))
		} else if !core.Eq(slice[:k], cs.Fill[:k]) || !core.Eq(slice[k:], before[k:]) {
			c.Fail("RecvQueuedFull buffer", fmt.Sprintf("buf %v, want %v followed by the untouched %v", slice, cs.Fill[:k], before[k:]))
		}
	}
	if !core.Eq(left, cs.Fill[k:]) {
		c.Fail("channel contents after the call", fmt.Sprintf("left %v, want %v", left, cs.Fill[k:]))
	}
	if closedAfter != cs.Closed {
		c.Fail("closed state changed", fmt.Sprint(closedAfter))
	}
	c.Emit(coqCase(cs, before, fmt.Sprintf("[SHelp %d]", n+2), false, true, res, left, closedAfter, nil))
}

// execConcurrent: a producer sends 1..N and closes while the consumer polls with
// RecvQueued / RecvQueuedFull; everything received, in order, must be exactly 1..N.
func execConcurrent(c *core.Ctx, cs Case) {
	ch := make(chan int, cs.Cap)
	prodDone := make(chan struct{})
	go func() {
		for i := 1; i <= cs.N; i++ {
			ch <- i
			if i%3 == 0 {
				runtime.Gosched()
			}
		}
		close(ch)
		close(prodDone)
	}()
	var all []int
	fin := make(chan string, 1)
	go func() {
		fin <- core.Try(func() {
			full := false
			for {
				var got []int
				if full {
					buf := make([]int, cs.Limit)
					got = buf[:chans.RecvQueuedFull(ch, buf)]
				} else {
					got = chans.RecvQueued(ch, cs.Limit)
				}
				full = !full
				if len(got) > cs.Limit {
					panic("more values than the limit")
				}
				all = append(all, got...)
				if len(got) == 0 {
					select {
					case <-prodDone:
						all = append(all, chans.RecvQueued(ch, cs.N+1)...) // closed: must stop at the end of the queue
						return
					default:
						runtime.Gosched()
					}
				}
			}
		})
	}()
	select {
	case kind := <-fin:
		if kind != "" {
			c.Fail("panic", kind)
		}
	case <-time.After(watchdog):
		stuck++
		c.Fail("call blocked", "consumer did not finish")
		return
	}
	c.Nontrivial()
	if !core.Eq(all, seq(cs.N, 1)) {
		c.Fail("values lost, duplicated, reordered or invented under a concurrent producer",
			fmt.Sprintf("received %v, want 1..%d", all, cs.N))
	}
}

// execTimed runs the scenario once if its outcome is fixed, and several times if a select may go
// either way (so that both branches are normally seen); the first failing run, or else the last
// run, is the one that is reported and compared with the model.
func execTimed(c *core.Ctx, cs Case) {
	_, exact := plan(cs, strings.HasPrefix(cs.Fn, "Send"))
	reps := 1
	if !exact {
		reps = 6
	}
	c.Count("mode_" + cs.Mode)
	c.Count("sit_" + cs.Sit)
	for r := 1; r <= reps; r++ {
		if execTimedOnce(c, cs, r == reps) {
			return
		}
	}
}

type failure struct{ what, detail string }

// execTimedOnce reports (failures, statistics, model case) and returns true if the run failed or report is set.
func execTimedOnce(c *core.Ctx, cs Case, report bool) bool {
	isSend := strings.HasPrefix(cs.Fn, "Send")
	var fails []failure
	fail := func(what, detail string) { fails = append(fails, failure{what, detail}) }
	count := func(stat string) {
		if report {
			c.Count(stat)
		}
	}
	ch := mkchan(cs)
	var timeout time.Duration
	ctx, cancel := context.WithCancel(context.Background())
	defer cancel()
	doneAtCall := false
	switch cs.Mode {
	case "long", "live":
		timeout = 30 * time.Second
	case "zero":
		timeout = 0
	case "neg":
		timeout = -1
	case "min":
		timeout = math.MinInt64
	case "short":
		timeout = late
	case "tiny":
		timeout = 1
	case "cancelled":
		cancel()
		doneAtCall = true
	case "cancel_late":
		go func() { time.Sleep(late); cancel() }()
	}
	// partner goroutine: a receiver for the send helpers, a sender of cs.Value for the receive helpers
	partnerDone := make(chan struct{})
	var envRcvd []int
	partnerSent := false
	partner := func() {
		defer close(partnerDone)
		if isSend {
			if v, ok := <-ch; ok {
				envRcvd = append(envRcvd, v)
			}
		} else if core.Try(func() { ch <- cs.Value }) == "" {
			partnerSent = true
		}
	}
	switch cs.Sit {
	case "partner":
		go partner()
		for i := 0; i < 20; i++ {
			runtime.Gosched() // usually enough for the partner to be parked; the outcome does not depend on it
		}
	case "partner_late":
		go func() { time.Sleep(late); partner() }()
	case "close_late":
		go func() { time.Sleep(late); close(ch); close(partnerDone) }()
	default:
		close(partnerDone)
	}

	type out struct {
		kind string
		b    bool
		v    int
		ok   bool
	}
	resc := make(chan out, 1)
	go func() {
		var o out
		o.kind = core.Try(func() {
			switch cs.Fn {
			case "SendTimeout":
				o.b = chans.SendTimeout(ch, cs.Value, timeout)
			case "SendContext":
				o.b = chans.SendContext(ctx, ch, cs.Value)
			case "RecvTimeout":
				o.v, o.ok = chans.RecvTimeout(ch, timeout)
			case "RecvContext":
				o.v, o.ok = chans.RecvContext(ctx, (<-chan int)(ch))
			}
		})
		resc <- o
	}()
	sched, exact := plan(cs, isSend)
	var o out
	select {
	case o = <-resc:
	case <-time.After(watchdog):
		stuck++
		c.Fail("call blocked", fmt.Sprintf("%s did not return within %v in a scenario where it must", cs.Fn, watchdog))
		c.Emit(coqCase(cs, nil, sched, doneAtCall, exact, "OBlocked", nil, cs.Closed, nil))
		return true
	}
	select {
	case <-partnerDone:
	case <-time.After(watchdog):
		stuck++
		c.Fail("partner stuck", fmt.Sprintf("%s returned %+v but the partner goroutine never completed its operation", cs.Fn, o))
		c.Emit(coqCase(cs, nil, sched, doneAtCall, exact, "OBlocked", nil, cs.Closed, nil))
		return true
	}
	left, closedAfter := drain(ch)
	if cs.Sit != "alone" || !unlimited(cs.Mode) || cs.Closed {
		c.Nontrivial() // a partner, a firing timer/context or a closed channel is involved
	}

	// ---- direct oracle ----
	// everything that entered the channel: initial contents, then completed sends
	in := append([]int{}, cs.Fill...)
	if partnerSent {
		in = append(in, cs.Value)
	}
	var res string
	switch {
	case o.kind != "":
		res = "OPanic " + o.kind
		count("res_panic")
		if !(isSend && o.kind == "SendOnClosed" && closedAfter) {
			fail("panic", o.kind)
		}
	case isSend:
		res = "OBool " + core.Bool(o.b)
		count("res_" + core.Bool(o.b))
		if o.b {
			in = append(in, cs.Value) // true: handed over exactly once
		} // false: not sent at all
	default:
		res = fmt.Sprintf("ORecv %s %s", core.Z(o.v), core.Bool(o.ok))
		count("res_" + core.Bool(o.ok))
		if !o.ok && o.v != 0 {
			fail("false with a non-zero value", fmt.Sprint(o.v))
		}
		if !o.ok && unlimited(cs.Mode) && !closedAfter {
			fail("receive without limit returned false on an open channel", "")
		}
	}
	outv := append([]int{}, envRcvd...) // everything that left the channel, in order, then what is still in it
	if !isSend && o.kind == "" && o.ok {
		outv = append(outv, o.v)
	}
	outv = append(outv, left...)
	if !core.Eq(in, outv) {
		fail("conservation", fmt.Sprintf("result %s: values that entered %v, values received then left in the channel %v", res, in, outv))
	}
	if closedAfter != (cs.Closed || cs.Sit == "close_late") {
		fail("closed state", fmt.Sprint(closedAfter))
	}
	if exact {
		if want := expect(cs, isSend); want != res {
			fail("result", fmt.Sprintf("got %s, want %s (outcome does not depend on timing in this scenario)", res, want))
		}
		count("exact")
	} else {
		count("either")
	}
	if len(fails) == 0 && !report {
		return false
	}
	for _, f := range fails {
		c.Fail(f.what, f.detail)
	}
	c.Emit(coqCase(cs, nil, sched, doneAtCall, exact, res, left, closedAfter, envRcvd))
	return true
}

// plan gives the model schedule of the scenario and whether its outcome is the same for every timing.
func plan(cs Case, isSend bool) (sched string, exact bool) {
	ready := cs.Closed || (isSend && len(cs.Fill) < cs.Cap) || (!isSend && len(cs.Fill) > 0)
	p := "SRecv"
	if !isSend {
		p = "SSend " + core.Z(cs.Value)
	}
	switch cs.Sit {
	case "partner":
		return "[" + p + "; SHelp 1]", true
	case "partner_late":
		return "[SHelp 1; " + p + "; SHelp 1]", true
	case "close_late":
		return "[SHelp 1; SClose; SHelp 1]", true
	}
	switch {
	case unlimited(cs.Mode):
		return "[SHelp 1]", true
	case cs.Mode == "cancelled": // c_done = true
		// closed and drained receive: both branches return (zero,false) and change nothing
		return "[SHelp 1]", !ready || (!isSend && cs.Closed && len(cs.Fill) == 0)
	case ready: // the timer/context may or may not win against a ready channel
		return "[SDone; SHelp 1]", !isSend && cs.Closed && len(cs.Fill) == 0
	default:
		return "[SHelp 1; SDone; SHelp 1]", true
	}
}

// expect is the reference outcome of an exact scenario.
func expect(cs Case, isSend bool) string {
	if isSend {
		room := len(cs.Fill) < cs.Cap
		switch {
		case cs.Closed:
			return "OPanic SendOnClosed"
		case cs.Sit == "close_late" && !room:
			return "OPanic SendOnClosed"
		case cs.Sit != "alone" || (room && unlimited(cs.Mode)):
			return "OBool true"
		}
		return "OBool false"
	}
	q := append([]int{}, cs.Fill...)
	if cs.Sit == "partner" || cs.Sit == "partner_late" {
		q = append(q, cs.Value)
	}
	if len(q) > 0 && (cs.Sit != "alone" || unlimited(cs.Mode)) {
		return fmt.Sprintf("ORecv %s true", core.Z(q[0]))
	}
	return "ORecv 0 false"
}

func coqCase(cs Case, slice []int, sched string, done, exact bool, res string, left []int, closedAfter bool, envRcvd []int) string {
	arg := int64(cs.Limit)
	switch cs.Mode {
	case "long":
		arg = int64(30 * time.Second)
	case "neg":
		arg = -1
	case "min":
		arg = math.MinInt64
	case "short":
		arg = int64(late)
	case "tiny":
		arg = 1
	case "zero", "live", "cancelled", "cancel_late":
		arg = 0
	}
	if cs.Fn == "RecvQueuedFull" {
		arg = 0
	}
	return fmt.Sprintf("Case F%s %s %s %s %s %s %s %s %s %s (%s) %s %s %s",
		cs.Fn, core.Z(cs.Cap), core.ZList(cs.Fill), core.Bool(cs.Closed), core.Bool(done), core.Z(cs.Value), core.Z64(arg),
		core.ZList(slice), sched, core.Bool(exact), res, core.ZList(left), core.Bool(closedAfter), core.ZList(envRcvd))
}
