//go:build go1.20

// Interface-typed instantiations of util.go (TernCast[any], TernCast[error], IsZero[any], Coal[any]). The
// library's go.mod says go 1.18, where an interface type does not satisfy `comparable`; callers compiled with
// go >= 1.20 can instantiate IsZero and Coal at interface types, so this file raises its own language version.
package c20

import (
	"fmt"
	"math"
	"math/big"

	typ "gopkg.in/typ.v4"
	"verif/harness/core"
)

type myErr int

func (e myErr) Error() string { return fmt.Sprintf("myErr(%d)", int(e)) }

// interface values are coded dyn*100 + payload (0 <= payload < 100), nil = 0; dynamic types:
// 1 int, 2 zm (IsZero method returning .Z), 3 []int (not comparable), 4 *pz (IsZero method returning true), 7 myErr
func mkIface(dyn, payload, z int64) any {
	switch dyn {
	case 0:
		return nil
	case 1:
		return int(payload)
	case 2:
		return zm{int(payload), z != 0}
	case 3:
		return make([]int, payload)
	case 4:
		return &pz{int(payload), z != 0}
	case 7:
		return myErr(payload)
	}
	panic("c20: unknown dynamic type")
}

func codeOf(v any) *big.Int {
	switch x := v.(type) {
	case nil:
		return big.NewInt(0)
	case int:
		return big.NewInt(100 + int64(x))
	case zm:
		return big.NewInt(200 + int64(x.V))
	case []int:
		return big.NewInt(300 + int64(len(x)))
	case *pz:
		return big.NewInt(400 + int64(x.V))
	case myErr:
		return big.NewInt(700 + int64(x))
	}
	return big.NewInt(-1)
}

func execIface(c *core.Ctx, cs Case, t tinfo) {
	val := func(b int64) *big.Int { return big.NewInt(b) }
	call := func(a []int64) *big.Int {
		switch cs.Fn {
		case "IsZeroAny": // [dyn; v; z]
			return b2i(typ.IsZero[any](mkIface(a[0], a[1], a[2])))
		case "TernCastIface": // [tkind; cond; dyn; payload; ifFalse code]
			ifFalse := mkIface(a[4]/100, a[4]%100, 0)
			value := mkIface(a[2], a[3], 0)
			if a[0] == 0 {
				return codeOf(typ.TernCast[any](a[1] != 0, value, ifFalse))
			}
			var ef error
			if ifFalse != nil {
				ef = ifFalse.(error)
			}
			r := typ.TernCast[error](a[1] != 0, value, ef)
			if r == nil {
				return big.NewInt(0)
			}
			return codeOf(r)
		}
		panic("c20: unknown interface function " + cs.Fn)
	}
	oracle := func(a []int64, kind string, r *big.Int) (string, bool) {
		var want *big.Int
		wantPanic := false
		switch cs.Fn {
		case "IsZeroAny":
			// the nil interface is the zero value; otherwise only an IsZero method of the dynamic type can say "zero".
			// A slice inside the interface must not make the comparison with the zero value panic.
			want = b2i(a[0] == 0 || (a[0] == 2 && a[2] != 0) || a[0] == 4)
		case "TernCastIface":
			implements := a[2] != 0 && (a[0] == 0 || a[2] == 7)
			switch {
			case a[1] == 0:
				want = big.NewInt(a[4])
			case implements:
				want = big.NewInt(a[2]*100 + a[3])
			default:
				wantPanic = true
			}
		}
		if wantPanic {
			if kind == "" {
				return cs.Fn + " of a value that does not implement T did not panic", false
			}
			return "", true
		}
		if kind != "" {
			return "unexpected panic " + kind, false
		}
		if r.Cmp(want) != 0 {
			return cs.Fn + " result differs, want " + want.String(), false
		}
		return "", true
	}
	runCase(c, cs, t, true, val, call, oracle)
}

func ifaceCases(c *core.Ctx) {
	var tz, tc [][]int64
	for _, dyn := range []int64{0, 1, 2, 3, 4, 7} {
		for _, v := range []int64{0, 3} {
			for z := int64(0); z <= 1; z++ {
				if (dyn == 0 && (v != 0 || z != 0)) || (dyn != 2 && dyn != 4 && z != 0) {
					continue
				}
				tz = append(tz, []int64{dyn, v, z})
			}
		}
	}
	for tkind := int64(0); tkind <= 1; tkind++ {
		for cond := int64(0); cond <= 1; cond++ {
			for _, dyn := range []int64{0, 1, 2, 3, 7} {
				for _, ifFalse := range []int64{0, 705} {
					p := int64(2)
					if dyn == 0 {
						p = 0
					}
					tc = append(tc, []int64{tkind, cond, dyn, p, ifFalse})
					if tkind == 0 {
						tc = append(tc, []int64{tkind, cond, dyn, p, 104})
					}
				}
			}
		}
	}
	exec(c, Case{Fn: "IsZeroAny", Ty: "util", Tuples: tz})
	exec(c, Case{Fn: "TernCastIface", Ty: "util", Tuples: tc})
	ifaceProbes(c)
}

func ifaceProbes(c *core.Ctx) {
	// oracle-only probes: Coal at an interface type; uncomparable dynamic values never panic (the zero value
	// of an interface type is nil, and comparing with nil never compares the dynamic values)
	c.Begin(Case{Fn: "Probe", Ty: "util", Tuples: [][]int64{{1}}})
	c.Count("cases_Probe")
	check := func(ok bool, what string) {
		if !ok {
			c.Fail("interface probe: "+what, "the listed expressions are not all true; see ifaceCases in harness/c20/iface.go")
		}
	}
	kind := core.Try(func() {
		s := []int{1}
		r := typ.Coal[any](nil, nil, s, 3)
		rs, ok := r.([]int)
		check(ok && len(rs) == 1 && &rs[0] == &s[0], "Coal[any] returns the first non-nil value, a slice included")
		check(typ.Coal[any]() == nil && typ.Coal[any](nil, nil) == nil && typ.Coal[error](nil, myErr(1), myErr(2)) == myErr(1), "Coal of nil interfaces / errors")
		check(!typ.IsZero[any](map[int]int{}) && !typ.IsZero[any](func() {}) && typ.IsZero[error](nil) && !typ.IsZero[error](myErr(0)),
			"IsZero at interface types with uncomparable / zero-valued dynamic values")
		type holder struct{ X any }
		check(typ.IsZero(holder{}) && !typ.IsZero(holder{[]int{}}) && typ.Coal(holder{}, holder{[]int{2}}).X != nil, "struct with an interface field holding a slice")
		check(typ.IsNil[any](nil) && !typ.IsNil[any]([]int(nil)), "IsNil[any] of a nil slice inside an interface")
	})
	check(kind == "", "no panic ("+kind+")")
	c.Nontrivial()
}

// The float code must be order preserving and commute with negation, otherwise the model comparison of the
// float cases means nothing. A harness self-check, not a property of the library.
func encodingProbe(c *core.Ctx) {
	fs := append([]float64{}, floatBoundary...)
	for i := 0; i < 2000; i++ {
		fs = append(fs, math.Float64frombits(uint64(randFloat(c.Rng))))
	}
	for i, a := range fs {
		if encFloat(-a).Cmp(new(big.Int).Neg(encFloat(a))) != 0 {
			c.Unobservable(fmt.Sprintf("float code does not commute with negation at %g", a))
		}
		b := fs[(i*7+3)%len(fs)]
		if (a < b) != (encFloat(a).Cmp(encFloat(b)) < 0) || (a == b) != (encFloat(a).Cmp(encFloat(b)) == 0) {
			c.Unobservable(fmt.Sprintf("float code is not order preserving at %g, %g", a, b))
		}
	}
}
