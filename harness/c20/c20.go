// Package c20: math.go and util.go of package typ (Min, Max, Clamp, Clamp01, Sum,
// Product, Abs, Digits10, DigitsSign10, Compare, Less, Coal, Zero, ZeroOf, IsZero,
// Tern, TernCast, IsNil, Ref, DerefZero) over the whole value range.
//
// One case = one function at one type applied to a block of argument tuples
// (listed, or a cartesian product of ranges for the exhaustive tables). Values
// travel as int64 "bits": the low w bits of an integer, the float64 bits of a
// float, the index of a string in a sorted table, or a literal for the util
// functions. The Coq side sees true integer values, and for floats/strings an
// order preserving code in Z.
package c20

import (
	"encoding/json"
	"fmt"
	"math"
	"math/big"
	"runtime"
	"sort"
	"strconv"
	"strings"
	"sync"
	"time"
	"unsafe"

	typ "gopkg.in/typ.v4"
	"verif/harness/core"
)

type Dim struct {
	List []int64 `json:"list,omitempty"`
	Lo   int64   `json:"lo,omitempty"`
	N    int     `json:"n,omitempty"` // > 0: the range lo, lo+1, ..., lo+n-1
}

type Case struct {
	Fn     string    `json:"fn"`
	Ty     string    `json:"ty"`
	Tuples [][]int64 `json:"tuples,omitempty"`
	Dims   []Dim     `json:"dims,omitempty"` // cartesian product, first dimension slowest
	Oracle bool      `json:"oracle_only,omitempty"` // direct oracle only: the block is not sent to the model
}

func init() {
	core.Register(&core.Prop{ID: "C20", Module: "Num.MathUtilCheck", Run: run, Replay: replay})
}

func replay(c *core.Ctx, raw json.RawMessage) error {
	var cs Case
	if err := json.Unmarshal(raw, &cs); err != nil {
		return err
	}
	c.ShardSize = shardSize
	replaying = true
	exec(c, cs)
	return nil
}

const shardSize = 8

var replaying bool // a replayed case may legitimately be any recorded block

// ---------------------------------------------------------------- types

type tinfo struct {
	name   string
	kind   byte // 'i' integer, 'f' float, 's' string, 'u' util
	signed bool
	w      int
}

var typeList = []tinfo{
	{"int8", 'i', true, 8}, {"uint8", 'i', false, 8}, {"int16", 'i', true, 16}, {"uint16", 'i', false, 16},
	{"int32", 'i', true, 32}, {"uint32", 'i', false, 32}, {"int64", 'i', true, 64}, {"uint64", 'i', false, 64},
	{"int", 'i', true, 64}, {"uint", 'i', false, 64}, {"uintptr", 'i', false, 64},
	{"named8", 'i', true, 8}, {"namedu16", 'i', false, 16},
	{"float64", 'f', true, 64}, {"float32", 'f', true, 32},
	{"string", 's', false, 0}, {"util", 'u', false, 0},
	{"complex128", 'c', true, 64}, {"complex64", 'c', true, 32}, // Sum/Product, direct oracle only
}

type named8 int8
type namedu16 uint16

func lookup(name string) (tinfo, bool) {
	for _, t := range typeList {
		if t.name == name {
			return t, true
		}
	}
	return tinfo{}, false
}

func (t tinfo) coq() string {
	if t.kind == 'i' {
		return fmt.Sprintf("(TI %v %d)", t.signed, t.w)
	}
	return "TO"
}

// true value of the integer whose low w bits are in bits
func (t tinfo) intVal(bits int64) *big.Int {
	if t.signed {
		sh := uint(64 - t.w)
		return big.NewInt(bits << sh >> sh)
	}
	u := uint64(bits)
	if t.w < 64 {
		u &= 1<<uint(t.w) - 1
	}
	return new(big.Int).SetUint64(u)
}

func (t tinfo) minMax() (*big.Int, *big.Int) {
	one := big.NewInt(1)
	if t.signed {
		h := new(big.Int).Lsh(one, uint(t.w-1))
		return new(big.Int).Neg(h), new(big.Int).Sub(h, one)
	}
	return big.NewInt(0), new(big.Int).Sub(new(big.Int).Lsh(one, uint(t.w)), one)
}

// the value of type t congruent to x modulo 2^w
func (t tinfo) wrap(x *big.Int) *big.Int {
	m := new(big.Int).Lsh(big.NewInt(1), uint(t.w))
	r := new(big.Int).Mod(x, m) // Euclidean: 0 <= r < m
	if t.signed && r.Cmp(new(big.Int).Rsh(m, 1)) >= 0 {
		r.Sub(r, m)
	}
	return r
}

func bitsOf(x *big.Int) int64 {
	m := new(big.Int).Lsh(big.NewInt(1), 64)
	return int64(new(big.Int).Mod(x, m).Uint64())
}

// order preserving, negation-commuting code of a non-NaN float64 (both zeros -> 0)
func encFloat(f float64) *big.Int {
	b := math.Float64bits(f)
	m := int64(b & (1<<63 - 1))
	if b>>63 == 1 {
		m = -m
	}
	return big.NewInt(m)
}

var strTable []string

func init() {
	raw := []string{"", "a", "A", "Z", "aa", "ab", "b", "ba", "abc", "abd", "ab\x00", " ", "0", "10", "9", "z", "zz",
		"\x00", "\xff", "é", "日本", "a ", "~", "Ab", "aB"}
	sort.Strings(raw)
	for i, s := range raw {
		if i == 0 || s != raw[i-1] {
			strTable = append(strTable, s)
		}
	}
}

func strOf(bits int64) string {
	n := int64(len(strTable))
	return strTable[((bits%n)+n)%n]
}
func strIdx(s string) *big.Int {
	i := sort.SearchStrings(strTable, s)
	if i >= len(strTable) || strTable[i] != s {
		return big.NewInt(-1)
	}
	return big.NewInt(int64(i))
}

// ---------------------------------------------------------------- case runner

func zstr(x *big.Int) string {
	if x.Sign() < 0 {
		return "(" + x.String() + ")"
	}
	return x.String()
}

func b2i(b bool) *big.Int {
	if b {
		return big.NewInt(1)
	}
	return big.NewInt(0)
}

func forEachTuple(cs Case, f func(tup []int64)) int {
	n := 0
	if cs.Dims == nil {
		for _, t := range cs.Tuples {
			f(t)
			n++
		}
		return n
	}
	dims := make([][]int64, len(cs.Dims))
	for i, d := range cs.Dims {
		if d.N > 0 {
			for k := 0; k < d.N; k++ {
				dims[i] = append(dims[i], d.Lo+int64(k))
			}
		} else {
			dims[i] = d.List
		}
		if len(dims[i]) == 0 {
			return 0
		}
	}
	idx := make([]int, len(dims))
	tup := make([]int64, len(dims))
	for {
		for i := range dims {
			tup[i] = dims[i][idx[i]]
		}
		f(tup)
		n++
		k := len(dims) - 1
		for k >= 0 {
			idx[k]++
			if idx[k] < len(dims[k]) {
				break
			}
			idx[k] = 0
			k--
		}
		if k < 0 {
			return n
		}
	}
}

func argsCoq(cs Case, val func(int64) *big.Int) string {
	var sb strings.Builder
	zl := func(l []int64) {
		sb.WriteByte('[')
		for i, b := range l {
			if i > 0 {
				sb.WriteByte(';')
			}
			sb.WriteString(zstr(val(b)))
		}
		sb.WriteByte(']')
	}
	if cs.Dims == nil {
		sb.WriteString("(Each [")
		for i, t := range cs.Tuples {
			if i > 0 {
				sb.WriteByte(';')
			}
			zl(t)
		}
		sb.WriteString("])")
		return sb.String()
	}
	sb.WriteString("(Cross [")
	for i, d := range cs.Dims {
		if i > 0 {
			sb.WriteByte(';')
		}
		if d.N > 0 {
			// a range is only used where consecutive bits are consecutive values
			fmt.Fprintf(&sb, "R %s %d", zstr(val(d.Lo)), d.N)
		} else {
			sb.WriteString("L ")
			zl(d.List)
		}
	}
	sb.WriteString("])")
	return sb.String()
}

// runCase executes every tuple of the case with call (the real code), applies
// the direct oracle to every result and emits the case with the observed results.
//   val:    Coq value of an input
//   call:   returns the result as a Z (booleans 0/1); panics are recovered here
//   oracle: returns "" or what is wrong, and whether the call is non-trivial
//   show:   optional human readable form of an input / of a result, for failure reports
func runCase(c *core.Ctx, cs Case, t tinfo, emit bool, val func(int64) *big.Int,
	call func(tup []int64) *big.Int, oracle func(tup []int64, kind string, r *big.Int) (string, bool),
	show ...func(*big.Int) string) {
	c.Begin(cs)
	c.Count("cases_" + cs.Fn)
	var obs strings.Builder
	var pans []string
	var failing [][]int64
	nontrivial := false
	first := true
	i := 0
	skipped := 0
	n := forEachTuple(cs, func(tup []int64) {
		var r *big.Int
		kind := core.Try(func() { r = call(tup) })
		if cs.Fn == "Clamp" && len(tup) == 3 && val(tup[1]).Cmp(val(tup[2])) > 0 {
			// lo > hi is outside the property: the call is executed, but neither the oracle nor the model
			// comparison looks at its result (MathUtilCheck.compared skips the same tuples)
			skipped++
			if !cs.Oracle && !replaying {
				c.Unobservable("a Clamp block generated for comparison contains lo > hi")
			}
			return
		}
		what, nt := oracle(tup, kind, r)
		nontrivial = nontrivial || nt
		if what != "" {
			in := make([]string, len(tup))
			for k, b := range tup {
				in[k] = val(b).String()
				if len(show) > 0 {
					in[k] = show[0](val(b))
				}
			}
			got := "panic " + kind
			if kind == "" {
				got = r.String()
				if len(show) > 0 && cs.Fn != "Compare" && cs.Fn != "Less" {
					got = show[0](r)
				}
			}
			if len(in) > 40 {
				in = append(in[:40:40], fmt.Sprintf("... (%d arguments, see the replay case)", len(tup)))
			}
			if !emit && kind == "" { // the result is not expressed as a Z (float/complex Sum, Product): what carries it
				got = "(result above)"
			}
			c.Fail(what, fmt.Sprintf("%s[%s](%s) = %s", cs.Fn, cs.Ty, strings.Join(in, ", "), got))
			if len(failing) < 3 {
				failing = append(failing, append([]int64{}, tup...))
			}
		}
		if kind != "" {
			pans = append(pans, fmt.Sprintf("(%d,%s)", i, kind))
		} else {
			if !first {
				obs.WriteByte(';')
			}
			first = false
			obs.WriteString(zstr(r))
		}
		i++
	})
	if skipped > 0 {
		c.CountN("clamp_calls_with_inverted_bounds_not_compared", skipped)
	}
	c.CountN("calls", n)
	c.CountN("calls_"+cs.Fn, n)
	c.CountN("calls_ty_"+cs.Ty, n)
	if len(pans) > 0 {
		c.CountN("calls_panicked", len(pans))
	}
	if nontrivial {
		c.Nontrivial()
	}
	if emit && !cs.Oracle {
		c.CountN("calls_model_checked", n)
		c.Emit(fmt.Sprintf("Case F%s %s %s [%s] [%s]", cs.Fn, t.coq(), argsCoq(cs, val), obs.String(), strings.Join(pans, ";")))
	} else {
		c.CountN("calls_oracle_only", n)
	}
	// a failing block is re-run tuple by tuple so that the replay is one concrete call
	if n > 1 {
		for _, tup := range failing {
			exec(c, Case{Fn: cs.Fn, Ty: cs.Ty, Tuples: [][]int64{tup}})
		}
	}
}

func exec(c *core.Ctx, cs Case) {
	t, ok := lookup(cs.Ty)
	if !ok {
		panic("c20: unknown type " + cs.Ty)
	}
	if cs.Fn == "Probe" {
		if len(cs.Tuples) > 0 {
			ifaceProbes(c)
		} else {
			utilProbes(c)
		}
		return
	}
	switch cs.Ty {
	case "int8":
		execInt[int8](c, cs, t)
	case "uint8":
		execInt[uint8](c, cs, t)
	case "int16":
		execInt[int16](c, cs, t)
	case "uint16":
		execInt[uint16](c, cs, t)
	case "int32":
		execInt[int32](c, cs, t)
	case "uint32":
		execInt[uint32](c, cs, t)
	case "int64":
		execInt[int64](c, cs, t)
	case "uint64":
		execInt[uint64](c, cs, t)
	case "int":
		execInt[int](c, cs, t)
	case "uint":
		execInt[uint](c, cs, t)
	case "uintptr":
		execInt[uintptr](c, cs, t)
	case "named8":
		execInt[named8](c, cs, t)
	case "namedu16":
		execInt[namedu16](c, cs, t)
	case "float64":
		execFloat[float64](c, cs, t)
	case "float32":
		execFloat[float32](c, cs, t)
	case "complex128":
		execComplex[complex128](c, cs, t)
	case "complex64":
		execComplex[complex64](c, cs, t)
	case "string":
		execString(c, cs, t)
	case "util":
		if cs.Fn == "IsZeroAny" || cs.Fn == "TernCastIface" {
			execIface(c, cs, t)
		} else {
			execUtil(c, cs, t)
		}
	}
}

// ---------------------------------------------------------------- integers

func bigOf[T typ.Integer](x T, signed bool) *big.Int {
	if signed {
		return big.NewInt(int64(x))
	}
	return new(big.Int).SetUint64(uint64(x))
}

func execInt[T typ.Integer](c *core.Ctx, cs Case, t tinfo) {
	var probe T
	probe--
	if (probe < 0) != t.signed || int(unsafe.Sizeof(probe))*8 != t.w {
		panic("c20: type table wrong for " + t.name)
	}
	conv := func(tup []int64) []T {
		a := make([]T, len(tup))
		for i, b := range tup {
			a[i] = T(b)
		}
		return a
	}
	call := func(tup []int64) *big.Int {
		a := conv(tup)
		defer func() { // the variadic slice handed to the function must come back unmodified
			for i, b := range tup {
				if a[i] != T(b) {
					panic("arguments modified by " + cs.Fn)
				}
			}
		}()
		switch cs.Fn {
		case "Min":
			return bigOf(typ.Min(a...), t.signed)
		case "Max":
			return bigOf(typ.Max(a...), t.signed)
		case "Clamp":
			return bigOf(typ.Clamp(a[0], a[1], a[2]), t.signed)
		case "Clamp01":
			return bigOf(typ.Clamp01(a[0]), t.signed)
		case "Sum":
			return bigOf(typ.Sum(a...), t.signed)
		case "Product":
			return bigOf(typ.Product(a...), t.signed)
		case "Abs":
			return bigOf(typ.Abs(a[0]), t.signed)
		case "Digits10":
			return big.NewInt(int64(typ.Digits10(a[0])))
		case "DigitsSign10":
			return big.NewInt(int64(typ.DigitsSign10(a[0])))
		case "Compare":
			return big.NewInt(int64(typ.Compare(a[0], a[1])))
		case "Less":
			return b2i(typ.Less(a[0], a[1]))
		case "Coal":
			return bigOf(typ.Coal(a...), t.signed)
		}
		panic("c20: unknown function " + cs.Fn)
	}
	oracle := func(tup []int64, kind string, r *big.Int) (string, bool) {
		A := make([]*big.Int, len(tup))
		for i, b := range tup {
			A[i] = t.intVal(b)
		}
		what, nt := orderOracle(cs.Fn, A, kind, r, big.NewInt(1))
		if what != "?" {
			return what, nt
		}
		return intOracle(cs.Fn, t, A, r)
	}
	runCase(c, cs, t, true, t.intVal, call, oracle)
}

// Oracle for the functions that only depend on the order of the carrier; values
// are given through an order preserving map into the integers (the identity
// for integer types). Returns "?" for the other functions.
func orderOracle(fn string, A []*big.Int, kind string, r *big.Int, one *big.Int) (string, bool) {
	if fn == "Clamp" && len(A) == 3 && A[1].Cmp(A[2]) > 0 {
		return "", false // lo > hi is outside the property: nothing is required, nothing is compared
	}
	if kind != "" {
		if (fn == "Min" || fn == "Max") && len(A) == 0 && kind == "Explicit" {
			return "", true
		}
		return "unexpected panic " + kind, false
	}
	switch fn {
	case "Min", "Max":
		if len(A) == 0 {
			return fn + " of no arguments returned instead of panicking", false
		}
		found, distinct := false, false
		for _, x := range A {
			if x.Cmp(r) == 0 {
				found = true
			} else {
				distinct = true
			}
			if fn == "Min" && r.Cmp(x) > 0 {
				return "Min result is greater than an argument", false
			}
			if fn == "Max" && r.Cmp(x) < 0 {
				return "Max result is smaller than an argument", false
			}
		}
		if !found {
			return fn + " result is not one of the arguments", false
		}
		return "", distinct
	case "Clamp":
		v, lo, hi := A[0], A[1], A[2]
		want := v
		if v.Cmp(lo) < 0 {
			want = lo
		} else if v.Cmp(hi) > 0 {
			want = hi
		}
		if r.Cmp(want) != 0 {
			return "Clamp result differs, want " + want.String(), false
		}
		return "", want != v
	case "Clamp01":
		v := A[0]
		want := v
		if v.Sign() < 0 {
			want = big.NewInt(0)
		} else if v.Cmp(one) > 0 {
			want = one
		}
		if r.Cmp(want) != 0 {
			return "Clamp01 result differs, want " + want.String(), false
		}
		return "", want != v
	case "Compare":
		if want := A[0].Cmp(A[1]); r.Cmp(big.NewInt(int64(want))) != 0 {
			return fmt.Sprintf("Compare result differs, want %d", want), false
		}
		return "", A[0].Cmp(A[1]) != 0
	case "Less":
		if want := b2i(A[0].Cmp(A[1]) < 0); r.Cmp(want) != 0 {
			return "Less result differs, want " + want.String(), false
		}
		return "", A[0].Cmp(A[1]) != 0
	case "Coal":
		want := big.NewInt(0)
		idx := -1
		for i, x := range A {
			if x.Sign() != 0 {
				want, idx = x, i
				break
			}
		}
		if r.Cmp(want) != 0 {
			return "Coal result differs, want " + want.String(), false
		}
		return "", idx > 0
	}
	return "?", false
}

func intOracle(fn string, t tinfo, A []*big.Int, r *big.Int) (string, bool) {
	switch fn {
	case "Sum":
		s := big.NewInt(0)
		for _, x := range A {
			s.Add(s, x)
		}
		want := t.wrap(s)
		if r.Cmp(want) != 0 {
			return "Sum result differs, want " + want.String(), false
		}
		return "", want.Cmp(s) != 0 // wrapped
	case "Product":
		p := big.NewInt(1)
		reduced := false
		for _, x := range A {
			p.Mul(p, x)
			if p.BitLen() > 4096 { // (a mod m)*b = a*b (mod m): keeps the exact product small on long lists
				p = t.wrap(p)
				reduced = true
			}
		}
		want := t.wrap(p)
		if r.Cmp(want) != 0 {
			return "Product result differs, want " + want.String(), false
		}
		return "", reduced || want.Cmp(p) != 0
	case "Abs":
		want := new(big.Int).Abs(A[0])
		_, max := t.minMax()
		if want.Cmp(max) > 0 {
			return "", true // |min| is not representable: the property does not say
		}
		if r.Cmp(want) != 0 {
			return "Abs result differs, want " + want.String(), false
		}
		return "", A[0].Sign() < 0
	case "Digits10":
		want := len(new(big.Int).Abs(A[0]).String())
		if r.Cmp(big.NewInt(int64(want))) != 0 {
			return fmt.Sprintf("Digits10 result differs, want %d", want), false
		}
		return "", A[0].Sign() < 0
	case "DigitsSign10":
		want := len(A[0].String()) // includes the minus sign
		if r.Cmp(big.NewInt(int64(want))) != 0 {
			return fmt.Sprintf("DigitsSign10 result differs, want %d", want), false
		}
		return "", A[0].Sign() < 0
	}
	panic("c20: no oracle for " + fn)
}

// ---------------------------------------------------------------- floats

func execFloat[T typ.Float](c *core.Ctx, cs Case, t tinfo) {
	fval := func(b int64) T {
		f := math.Float64frombits(uint64(b))
		if f != f {
			f = 0 // NaN is outside the property
		}
		return T(f)
	}
	val := func(b int64) *big.Int { return encFloat(float64(fval(b))) }
	conv := func(tup []int64) []T {
		a := make([]T, len(tup))
		for i, b := range tup {
			a[i] = fval(b)
		}
		return a
	}
	enc := func(x T) *big.Int { return encFloat(float64(x)) }
	var raw T // result of Sum/Product (not expressed in the order code) and of Min/Max/Clamp/Clamp01 (to compare the bits)
	call := func(tup []int64) *big.Int {
		a := conv(tup)
		switch cs.Fn {
		case "Min":
			raw = typ.Min(a...)
			return enc(raw)
		case "Max":
			raw = typ.Max(a...)
			return enc(raw)
		case "Clamp":
			raw = typ.Clamp(a[0], a[1], a[2])
			return enc(raw)
		case "Clamp01":
			raw = typ.Clamp01(a[0])
			return enc(raw)
		case "Abs":
			return enc(typ.Abs(a[0]))
		case "Compare":
			return big.NewInt(int64(typ.Compare(a[0], a[1])))
		case "Less":
			return b2i(typ.Less(a[0], a[1]))
		case "Coal":
			return enc(typ.Coal(a...))
		case "Sum":
			raw = typ.Sum(a...)
			return big.NewInt(0)
		case "Product":
			raw = typ.Product(a...)
			return big.NewInt(0)
		}
		panic("c20: unknown float function " + cs.Fn)
	}
	oracle := func(tup []int64, kind string, r *big.Int) (string, bool) {
		a := conv(tup)
		switch cs.Fn {
		case "Sum", "Product":
			if kind != "" {
				return "unexpected panic " + kind, false
			}
			var want T
			if cs.Fn == "Product" {
				want = 1
			}
			for _, x := range a {
				if cs.Fn == "Sum" {
					want += x
				} else {
					want *= x
				}
			}
			// bit for bit (sign of zero included); a NaN result (Inf-Inf, 0*Inf) must be a NaN
			if math.Float64bits(float64(raw)) != math.Float64bits(float64(want)) && !(raw != raw && want != want) {
				return fmt.Sprintf("%s result %v differs from the left-to-right loop %v", cs.Fn, raw, want), false
			}
			return "", len(a) >= 2
		case "Abs":
			if kind != "" {
				return "unexpected panic " + kind, false
			}
			if want := encFloat(math.Abs(float64(a[0]))); r.Cmp(want) != 0 {
				return "Abs result differs", false
			}
			return "", a[0] < 0
		}
		A := make([]*big.Int, len(tup))
		for i, b := range tup {
			A[i] = val(b)
		}
		cand := a
		if cs.Fn == "Clamp01" {
			cand = []T{a[0], 0, 1} // "Clamp to [0,1]": v or one of the constants 0, 1
		}
		if (cs.Fn == "Min" || cs.Fn == "Max" || cs.Fn == "Clamp" || cs.Fn == "Clamp01") && kind == "" && len(a) > 0 {
			// "returns an argument" / "v or the nearer bound": bit for bit one of them (which of two equal zeros is not fixed)
			found := false
			for _, x := range cand {
				found = found || math.Float64bits(float64(x)) == math.Float64bits(float64(raw))
			}
			if !found {
				return fmt.Sprintf("%s result %v is not bit-identical to any argument", cs.Fn, raw), false
			}
		}
		return orderOracle(cs.Fn, A, kind, r, encFloat(1))
	}
	emit := cs.Fn != "Sum" && cs.Fn != "Product"
	runCase(c, cs, t, emit, val, call, oracle, func(code *big.Int) string {
		m := code.Int64()
		if m < 0 {
			return fmt.Sprintf("%g", -math.Float64frombits(uint64(-m)))
		}
		return fmt.Sprintf("%g", math.Float64frombits(uint64(m)))
	})
}

// ---------------------------------------------------------------- complex (direct oracle only)

// a tuple is re0, im0, re1, im1, ... as float64 bits
func execComplex[T typ.Complex](c *core.Ctx, cs Case, t tinfo) {
	part := func(b int64) float64 {
		f := math.Float64frombits(uint64(b))
		if f != f {
			f = 0
		}
		if t.w == 32 {
			f = float64(float32(f))
		}
		return f
	}
	conv := func(tup []int64) []T {
		a := make([]T, len(tup)/2)
		for i := range a {
			a[i] = T(complex(part(tup[2*i]), part(tup[2*i+1])))
		}
		return a
	}
	var raw T
	call := func(tup []int64) *big.Int {
		a := conv(tup)
		switch cs.Fn {
		case "Sum":
			raw = typ.Sum(a...)
		case "Product":
			raw = typ.Product(a...)
		default:
			panic("c20: unknown complex function " + cs.Fn)
		}
		return big.NewInt(0)
	}
	same := func(x, y float64) bool { return math.Float64bits(x) == math.Float64bits(y) || (x != x && y != y) }
	oracle := func(tup []int64, kind string, r *big.Int) (string, bool) {
		if kind != "" {
			return "unexpected panic " + kind, false
		}
		a := conv(tup)
		var want T
		if cs.Fn == "Product" {
			want = 1
		}
		for _, x := range a {
			if cs.Fn == "Sum" {
				want += x
			} else {
				want *= x
			}
		}
		g, w := complex128(raw), complex128(want)
		if !same(real(g), real(w)) || !same(imag(g), imag(w)) {
			return fmt.Sprintf("%s result %v differs from the left-to-right loop %v", cs.Fn, raw, want), false
		}
		return "", len(a) >= 2
	}
	runCase(c, cs, t, false, func(b int64) *big.Int { return encFloat(part(b)) }, call, oracle, func(code *big.Int) string {
		m := code.Int64()
		if m < 0 {
			return fmt.Sprintf("%g", -math.Float64frombits(uint64(-m)))
		}
		return fmt.Sprintf("%g", math.Float64frombits(uint64(m)))
	})
}

// ---------------------------------------------------------------- strings

func execString(c *core.Ctx, cs Case, t tinfo) {
	val := func(b int64) *big.Int { return strIdx(strOf(b)) }
	conv := func(tup []int64) []string {
		a := make([]string, len(tup))
		for i, b := range tup {
			a[i] = strOf(b)
		}
		return a
	}
	call := func(tup []int64) *big.Int {
		a := conv(tup)
		switch cs.Fn {
		case "Min":
			return strIdx(typ.Min(a...))
		case "Max":
			return strIdx(typ.Max(a...))
		case "Clamp":
			return strIdx(typ.Clamp(a[0], a[1], a[2]))
		case "Compare":
			return big.NewInt(int64(typ.Compare(a[0], a[1])))
		case "Less":
			return b2i(typ.Less(a[0], a[1]))
		case "Coal":
			return strIdx(typ.Coal(a...))
		}
		panic("c20: unknown string function " + cs.Fn)
	}
	oracle := func(tup []int64, kind string, r *big.Int) (string, bool) {
		A := make([]*big.Int, len(tup))
		for i, b := range tup {
			A[i] = val(b)
		}
		return orderOracle(cs.Fn, A, kind, r, big.NewInt(1))
	}
	runCase(c, cs, t, true, val, call, oracle, func(code *big.Int) string {
		if i := code.Int64(); i >= 0 && int(i) < len(strTable) {
			return strconv.Quote(strTable[i])
		}
		return "?"
	})
}

// ---------------------------------------------------------------- util.go

type zm struct {
	V int
	Z bool
}

func (x zm) IsZero() bool { return x.Z }

type pz struct {
	V int
	Z bool
}

func (x *pz) IsZero() bool { return true } // pointer receiver: not in the method set of pz

type intPtr *int

func execUtil(c *core.Ctx, cs Case, t tinfo) {
	val := func(b int64) *big.Int { return big.NewInt(b) }
	bi := func(x int) *big.Int { return big.NewInt(int64(x)) }
	// the interface value described by (dyn, payload): 0 nil, 1 int, 2 *int (payload 0: nil pointer), 3 int64, 4 string
	mkAny := func(dyn, payload int64) any {
		switch dyn {
		case 0:
			return nil
		case 1:
			return int(payload)
		case 2:
			if payload == 0 {
				return (*int)(nil)
			}
			p := int(payload)
			return &p
		case 3:
			return int64(payload)
		default:
			return strconv.FormatInt(payload, 10)
		}
	}
	call := func(a []int64) *big.Int {
		switch cs.Fn {
		case "Zero":
			return bi(typ.Zero[int]())
		case "ZeroOf":
			return bi(typ.ZeroOf(int(a[0])))
		case "IsZero":
			switch a[0] {
			case 0:
				return b2i(typ.IsZero(int(a[1])))
			case 1:
				return b2i(typ.IsZero(zm{int(a[1]), a[2] != 0}))
			default:
				return b2i(typ.IsZero(pz{int(a[1]), a[2] != 0}))
			}
		case "Tern":
			return bi(typ.Tern(a[0] != 0, int(a[1]), int(a[2])))
		case "TernCast":
			return bi(typ.TernCast(a[0] != 0, mkAny(a[1], a[2]), int(a[3])))
		case "IsNil":
			if a[0] == 0 { // T = any
				return b2i(typ.IsNil(mkAny(a[1], a[2])))
			}
			if a[0] == 2 { // T = error
				var e error
				if a[1] != 0 {
					e = fmt.Errorf("e%d", a[2])
				}
				return b2i(typ.IsNil(e))
			}
			switch a[1] { // T is a concrete type
			case 1:
				return b2i(typ.IsNil(int(a[2])))
			case 2:
				if a[2] == 0 {
					return b2i(typ.IsNil((*int)(nil)))
				}
				p := int(a[2])
				return b2i(typ.IsNil(&p))
			case 3:
				return b2i(typ.IsNil([]int(nil)))
			case 4:
				return b2i(typ.IsNil(map[int]int(nil)))
			case 5:
				return b2i(typ.IsNil((func())(nil)))
			default:
				return b2i(typ.IsNil((chan int)(nil)))
			}
		case "Ref":
			return bi(*typ.Ref(int(a[0])))
		case "DerefZero":
			var p *int
			if a[0] == 0 {
				x := int(a[1])
				p = &x
			}
			r1, r2 := typ.DerefZero(p), typ.DerefZero(intPtr(p))
			if r1 != r2 {
				panic("DerefZero differs between *int and a named pointer type")
			}
			return bi(r1)
		}
		panic("c20: unknown util function " + cs.Fn)
	}
	oracle := func(a []int64, kind string, r *big.Int) (string, bool) {
		var want *big.Int
		wantPanic, nt := false, false
		switch cs.Fn {
		case "Zero", "ZeroOf":
			want = big.NewInt(0)
			nt = len(a) > 0 && a[0] != 0
		case "IsZero":
			isZeroValue := a[1] == 0 && (a[0] == 0 || a[2] == 0)
			want = b2i(isZeroValue || (a[0] == 1 && a[2] != 0))
			nt = a[0] != 0
		case "Tern":
			want = big.NewInt(a[2])
			if a[0] != 0 {
				want = big.NewInt(a[1])
			}
			nt = a[1] != a[2]
		case "TernCast":
			if a[0] == 0 {
				want = big.NewInt(a[3])
			} else if a[1] == 1 {
				want = big.NewInt(a[2])
			} else {
				wantPanic = true
			}
			nt = a[0] != 0
		case "IsNil":
			want = b2i(a[0] != 1 && a[1] == 0)
			nt = true
		case "Ref":
			want = big.NewInt(a[0])
			nt = a[0] != 0
		case "DerefZero":
			want = big.NewInt(a[1])
			if a[0] != 0 {
				want = big.NewInt(0)
			}
			nt = true
		}
		if wantPanic {
			if kind == "" {
				return "TernCast of a value of another type did not panic", false
			}
			return "", nt
		}
		if kind != "" {
			return "unexpected panic " + kind, false
		}
		if r.Cmp(want) != 0 {
			return cs.Fn + " result differs, want " + want.String(), false
		}
		return "", nt
	}
	runCase(c, cs, t, true, val, call, oracle)
}

// probes of what the functional model does not express (no Coq case)
func utilProbes(c *core.Ctx) {
	c.Begin(Case{Fn: "Probe", Ty: "util"})
	c.Count("cases_Probe")
	check := func(ok bool, what string) {
		if !ok {
			c.Fail("util probe: "+what, "the listed expressions are not all true; see utilProbes in harness/c20/c20.go")
		}
	}
	x := 7
	p, q := typ.Ref(x), typ.Ref(x)
	check(p != q && p != &x, "Ref returns a fresh pointer")
	*p = 9
	check(x == 7 && *q == 7, "writing through Ref's pointer leaves the original and other refs alone")
	check(typ.Zero[string]() == "" && typ.Zero[*int]() == nil && typ.Zero[zm]() == zm{}, "Zero of string, pointer, struct")
	check(typ.ZeroOf("abc") == "" && typ.ZeroOf(zm{3, true}) == zm{}, "ZeroOf of string, struct")
	check(typ.IsZero("") && !typ.IsZero("a") && typ.IsZero((*int)(nil)) && !typ.IsZero(&x), "IsZero of string, pointer")
	check(typ.IsZero(time.Time{}) && !typ.IsZero(time.Unix(5, 0)) && typ.IsZero(time.Time{}.In(time.FixedZone("x", 3600))),
		"IsZero honours time.Time.IsZero")
	check(typ.Coal("", "", "x", "y") == "x" && typ.Coal[string]() == "" && typ.Coal((*int)(nil), &x, q) == &x, "Coal of strings, pointers")
	check(typ.Tern(true, "a", "b") == "a" && typ.Tern(false, "a", "b") == "b", "Tern of strings")
	check(typ.TernCast(true, any("s"), "d") == "s" && typ.TernCast(false, any(3), "d") == "d", "TernCast to string")
	var e error
	var ip *int
	var ia any = ip
	check(typ.IsNil(e) && !typ.IsNil(ip) && !typ.IsNil(ia) && typ.IsNil[any](nil) && !typ.IsNil(fmt.Errorf("x")), "IsNil of interfaces / typed nil")
	check(typ.DerefZero((*string)(nil)) == "" && typ.DerefZero(typ.Ref("s")) == "s", "DerefZero of *string")
	check(typ.Min("b", "a", "c") == "a" && typ.Max("b", "a", "c") == "c", "Min/Max of strings")
	check(typ.Sum[complex128]() == 0 && typ.Product[complex128]() == 1 && typ.Sum(1+2i, 3-1i) == 4+1i && typ.Product(1+2i, 3-1i) == (1+2i)*(3-1i),
		"Sum/Product of complex numbers")
	c.Nontrivial()
}

// ---------------------------------------------------------------- generators

func boundary(t tinfo) []int64 {
	min, max := t.minMax()
	set := map[string]*big.Int{}
	add := func(x *big.Int) {
		for _, d := range []int64{-1, 0, 1} {
			for _, s := range []int64{1, -1} {
				y := new(big.Int).Add(x, big.NewInt(d))
				y.Mul(y, big.NewInt(s))
				if y.Cmp(min) >= 0 && y.Cmp(max) <= 0 {
					set[y.String()] = y
				}
			}
		}
	}
	add(big.NewInt(0))
	add(big.NewInt(2))
	for k := 1; k <= 20; k++ {
		add(new(big.Int).Exp(big.NewInt(10), big.NewInt(int64(k)), nil))
	}
	for k := 2; k <= 64; k++ {
		add(new(big.Int).Lsh(big.NewInt(1), uint(k)))
	}
	add(min)
	add(max)
	vals := make([]*big.Int, 0, len(set))
	for _, v := range set {
		vals = append(vals, v)
	}
	sort.Slice(vals, func(i, j int) bool { return vals[i].Cmp(vals[j]) < 0 })
	out := make([]int64, len(vals))
	for i, v := range vals {
		out[i] = bitsOf(v)
	}
	return out
}

// canonical bits of a value of type t (sign/zero extended to 64 bits)
func canon(t tinfo, bits int64) int64 { return bitsOf(t.intVal(bits)) }

func randInt(r *core.Rand, t tinfo, bnd []int64) int64 {
	switch r.Intn(5) {
	case 0, 1:
		return bnd[r.Intn(len(bnd))]
	case 2:
		return canon(t, int64(r.Range(-12, 12)))
	case 3:
		k := uint(r.Intn(t.w + 1))
		v := r.Uint64()
		if k < 64 {
			v &= 1<<k - 1
		}
		if r.Bool() {
			v = -v
		}
		return canon(t, int64(v))
	}
	return canon(t, int64(r.Uint64()))
}

var floatBoundary = func() []float64 {
	b := []float64{0, math.Copysign(0, -1), 1, 0.5, 2, 1 - 1.0/(1<<53), 1 + 1.0/(1<<52), math.SmallestNonzeroFloat64,
		math.MaxFloat64, math.Inf(1), math.MaxFloat32, math.SmallestNonzeroFloat32, 1e-300, 1e300, 3.5, 1e10, 0.1, 16777216, 16777217}
	for _, x := range append([]float64{}, b...) {
		b = append(b, -x)
	}
	return b
}()

func randFloat(r *core.Rand) int64 {
	switch r.Intn(4) {
	case 0, 1:
		return int64(math.Float64bits(floatBoundary[r.Intn(len(floatBoundary))]))
	case 2:
		return int64(math.Float64bits(float64(r.Range(-30, 30)) / 8))
	}
	for {
		f := math.Float64frombits(r.Uint64())
		if f == f {
			return int64(math.Float64bits(f))
		}
	}
}

func tuplesOf(n int, arity func() int, gen func() int64) [][]int64 {
	ts := make([][]int64, n)
	for i := range ts {
		tp := make([]int64, arity())
		for k := range tp {
			tp[k] = gen()
		}
		ts[i] = tp
	}
	return ts
}

func fixed(k int) func() int { return func() int { return k } }

// sampled cases for one type; gen draws one value
func sampled(c *core.Ctx, t tinfo, gen func() int64, n int) {
	r := c.Rng
	listLen := func() int { return r.Intn(7) }
	for _, fn := range []string{"Min", "Max", "Coal"} {
		ts := tuplesOf(n/2, listLen, gen)
		if fn == "Coal" { // mostly leading zeros
			for _, tp := range ts {
				for k := range tp {
					if r.Chance(60) {
						tp[k] = 0
					}
				}
			}
		}
		exec(c, Case{Fn: fn, Ty: t.name, Tuples: append([][]int64{{}}, ts...)})
	}
	exec(c, Case{Fn: "Compare", Ty: t.name, Tuples: pairsWithTies(r, n, gen)})
	exec(c, Case{Fn: "Less", Ty: t.name, Tuples: pairsWithTies(r, n, gen)})
	// Clamp: lo <= hi always (the property requires it): draw, then order the bounds by the value order
	tr := tuplesOf(n, fixed(3), gen)
	var inverted [][]int64
	for i, tp := range tr {
		if valueOf(t, tp[1]).Cmp(valueOf(t, tp[2])) > 0 {
			tp[1], tp[2] = tp[2], tp[1]
		}
		if r.Chance(10) {
			tp[0] = tp[1+r.Intn(2)]
		}
		if i%20 == 0 && valueOf(t, tp[1]).Cmp(valueOf(t, tp[2])) < 0 {
			inverted = append(inverted, []int64{tp[0], tp[2], tp[1]})
		}
	}
	exec(c, Case{Fn: "Clamp", Ty: t.name, Tuples: tr})
	// lo > hi: executed only (no oracle, not sent to the model)
	exec(c, Case{Fn: "Clamp", Ty: t.name, Tuples: inverted, Oracle: true})
	if t.kind == 's' {
		return
	}
	exec(c, Case{Fn: "Clamp01", Ty: t.name, Tuples: tuplesOf(n, fixed(1), gen)})
	exec(c, Case{Fn: "Abs", Ty: t.name, Tuples: tuplesOf(n, fixed(1), gen)})
	exec(c, Case{Fn: "Sum", Ty: t.name, Tuples: append([][]int64{{}}, tuplesOf(n/2, listLen, gen)...)})
	exec(c, Case{Fn: "Product", Ty: t.name, Tuples: append([][]int64{{}}, tuplesOf(n/2, listLen, gen)...)})
	if t.kind == 'i' {
		exec(c, Case{Fn: "Digits10", Ty: t.name, Tuples: tuplesOf(n, fixed(1), gen)})
		exec(c, Case{Fn: "DigitsSign10", Ty: t.name, Tuples: tuplesOf(n, fixed(1), gen)})
	}
}

func valueOf(t tinfo, bits int64) *big.Int {
	switch t.kind {
	case 'i':
		return t.intVal(bits)
	case 'f':
		f := math.Float64frombits(uint64(bits))
		if t.w == 32 {
			f = float64(float32(f))
		}
		return encFloat(f)
	case 's':
		return strIdx(strOf(bits))
	}
	return big.NewInt(bits)
}

func pairsWithTies(r *core.Rand, n int, gen func() int64) [][]int64 {
	ts := tuplesOf(n, fixed(2), gen)
	for _, tp := range ts {
		if r.Chance(15) {
			tp[1] = tp[0]
		}
	}
	return ts
}

func singles(vals []int64) [][]int64 {
	ts := make([][]int64, len(vals))
	for i, v := range vals {
		ts[i] = []int64{v}
	}
	return ts
}

// ---------------------------------------------------------------- long argument lists

// argument counts: 0..20, then every power of two up to 4096 with its neighbours
func longLens(big bool) []int {
	var ls []int
	for n := 0; n <= 20; n++ {
		ls = append(ls, n)
	}
	for p := 32; p <= 1024; p *= 2 {
		ls = append(ls, p-1, p, p+1)
	}
	ls = append(ls, 24, 40, 100, 1000)
	if big {
		ls = append(ls, 2047, 2048, 2049, 4095, 4096, 4097)
	}
	sort.Ints(ls)
	return ls
}

func f64bits(f float64) int64 { return int64(math.Float64bits(f)) }

// a float with a random 52 bit mantissa and the given binary exponent and sign
func floatWith(r *core.Rand, exp int, neg bool) float64 {
	f := math.Ldexp(math.Float64frombits(0x3FF0000000000000|r.Uint64()&(1<<52-1)), exp)
	if neg {
		f = -f
	}
	return f
}

// Factors whose running left-to-right product stays finite and normal while the
// product of any run of consecutive factors over- or underflows: the binary
// exponent of the running product zigzags between -lim and +lim in large steps.
func zigzagFactors(r *core.Rand, n int, w int) []int64 {
	lim, lo, hi := 900, 90, 220
	if w == 32 {
		lim, lo, hi = 110, 11, 27
	}
	out := make([]int64, n)
	run, dir := 0.0, 1 // run: log2 of the magnitude of the running product (mantissas included)
	if r.Bool() {
		dir = -1
	}
	for i := range out {
		step := r.Range(lo, hi)
		if next := run + float64(dir*step); next > float64(lim) || next < -float64(lim) {
			dir = -dir
		}
		f := floatWith(r, dir*step, r.Chance(20))
		if w == 32 {
			f = float64(float32(f))
		}
		run += math.Log2(math.Abs(f))
		out[i] = f64bits(f)
	}
	return out
}

// Terms of very different magnitude with cancellation: any re-association or
// compensated summation changes the rounded result.
func cancelTerms(r *core.Rand, n int, w int) []int64 {
	span := 60
	if w == 32 {
		span = 30
	}
	out := make([]int64, n)
	for i := range out {
		if i > 0 && r.Chance(25) {
			out[i] = f64bits(-math.Float64frombits(uint64(out[r.Intn(i)])))
			continue
		}
		out[i] = f64bits(floatWith(r, r.Range(-span/2, span), r.Bool()))
	}
	return out
}

func nearOne(r *core.Rand, n int) []int64 {
	out := make([]int64, n)
	for i := range out {
		out[i] = f64bits(floatWith(r, r.Range(-1, 0), r.Chance(10)))
	}
	return out
}

// all arguments equal to base except one needle at position pos
func needleList(n int, base, needle int64, pos int) []int64 {
	out := make([]int64, n)
	for i := range out {
		out[i] = base
	}
	if n > 0 {
		out[pos%n] = needle
	}
	return out
}

func needlePos(r *core.Rand, n int) int {
	if n == 0 {
		return 0
	}
	switch r.Intn(6) {
	case 0:
		return 0
	case 1:
		return n - 1
	case 2:
		return (n - 2 + n) % n
	case 3:
		return n / 2
	}
	return r.Intn(n)
}

// Long argument lists for the variadic functions, for every type class. All of
// it goes to the direct oracle (for float and complex Sum/Product: bit for bit
// equality with the left-to-right loop); a small sample also goes to the model.
func longVariadic(c *core.Ctx) {
	r := c.Rng
	for _, t := range typeList {
		t := t
		if t.kind == 'u' {
			continue
		}
		alias := false
		switch t.name {
		case "int", "uint", "uintptr", "named8", "namedu16":
			alias = true
		}
		var bnd []int64
		if t.kind == 'i' {
			bnd = boundary(t)
		}
		// one value of the type
		gen := func() int64 {
			switch t.kind {
			case 'i':
				return randInt(r, t, bnd)
			case 'f':
				return randFloat(r)
			}
			return int64(r.Intn(len(strTable)))
		}
		// an ordered pair lo < hi of values (bits) for the needle lists
		pair := func() (int64, int64) {
			for {
				a, b := gen(), gen()
				switch valueOf(t, a).Cmp(valueOf(t, b)) {
				case -1:
					return a, b
				case 1:
					return b, a
				}
			}
		}
		// profile k of function fn: the list of length n
		profiles := func(fn string) []func(n int) []int64 {
			random := func(n int) []int64 { return tuplesOf(1, fixed(n), gen)[0] }
			if t.kind == 'c' {
				return []func(int) []int64{
					func(n int) []int64 { return nearOne(r, 2*n) },
					func(n int) []int64 { return cancelTerms(r, 2*n, t.w) },
					func(n int) []int64 { // zigzag magnitudes on the real axis, small imaginary parts
						z := zigzagFactors(r, n, t.w)
						out := make([]int64, 0, 2*n)
						for _, b := range z {
							im := 0.0
							if r.Chance(30) {
								im = math.Float64frombits(uint64(b)) * float64(r.Range(-3, 3)) / 8
							}
							out = append(out, b, f64bits(im))
						}
						return out
					},
				}
			}
			switch fn {
			case "Min", "Max":
				return []func(int) []int64{random,
					func(n int) []int64 { // the unique extreme at a chosen position, everything else equal
						lo, hi := pair()
						if fn == "Min" {
							return needleList(n, hi, lo, needlePos(r, n))
						}
						return needleList(n, lo, hi, needlePos(r, n))
					},
					func(n int) []int64 { // few distinct values, many ties
						a, b := pair()
						vals := []int64{a, b, gen()}
						return tuplesOf(1, fixed(n), func() int64 { return vals[r.Intn(3)] })[0]
					}}
			case "Coal":
				return []func(int) []int64{
					func(n int) []int64 { // zeros, the first non-zero value at a chosen position, then anything
						out := make([]int64, n)
						if n == 0 || r.Chance(10) {
							return out
						}
						p := needlePos(r, n)
						for i := p; i < n; i++ {
							for out[i] = gen(); valueOf(t, out[i]).Sign() == 0 && i == p; out[i] = gen() {
							}
						}
						return out
					}}
			case "Sum":
				if t.kind == 'f' {
					return []func(int) []int64{random,
						func(n int) []int64 { return cancelTerms(r, n, t.w) },
						func(n int) []int64 { return nearOne(r, n) }}
				}
				return []func(int) []int64{random,
					func(n int) []int64 { // extremes: wraps at every step
						_, max := t.minMax()
						min, _ := t.minMax()
						vals := []int64{bitsOf(max), bitsOf(min), canon(t, 1), canon(t, -1), bitsOf(max)}
						return tuplesOf(1, fixed(n), func() int64 { return vals[r.Intn(len(vals))] })[0]
					}}
			case "Product":
				if t.kind == 'f' {
					return []func(int) []int64{
						func(n int) []int64 { return zigzagFactors(r, n, t.w) },
						func(n int) []int64 { return nearOne(r, n) },
						func(n int) []int64 { // mostly ones, a few inexact factors far apart
							vals := []float64{0.1, 0.3, 0.7, 1.1, 3, -0.9, 1e-3, 1e3}
							return tuplesOf(1, fixed(n), func() int64 {
								if r.Chance(75) {
									return f64bits(1)
								}
								return f64bits(vals[r.Intn(len(vals))])
							})[0]
						},
						random}
				}
				return []func(int) []int64{random,
					func(n int) []int64 { // odd factors: the product never collapses to 0 modulo 2^w
						return tuplesOf(1, fixed(n), func() int64 { return canon(t, int64(2*r.Range(-6, 6)+1)) })[0]
					}}
			}
			return nil
		}
		fns := []string{"Min", "Max", "Sum", "Product", "Coal"}
		if t.kind == 's' {
			fns = []string{"Min", "Max", "Coal"}
		}
		if t.kind == 'c' {
			fns = []string{"Sum", "Product"}
		}
		for _, fn := range fns {
			ps := profiles(fn)
			for k, prof := range ps {
				lens := longLens(k == 0 && !alias)
				if alias { // same code instance class as another listed type: every third length
					var sub []int
					for i, n := range lens {
						if i%3 == k%3 {
							sub = append(sub, n)
						}
					}
					lens = sub
				}
				ts := make([][]int64, len(lens))
				for i, n := range lens {
					ts[i] = prof(n)
				}
				exec(c, Case{Fn: fn, Ty: t.name, Tuples: ts, Oracle: true})
			}
			// model sample: a few lengths around the first thresholds, one profile
			if t.kind != 'c' && !(t.kind == 'f' && (fn == "Sum" || fn == "Product")) && !alias {
				prof := ps[r.Intn(len(ps))]
				var ts [][]int64
				for _, n := range []int{16, 17, 33, 65} {
					ts = append(ts, prof(n))
				}
				exec(c, Case{Fn: fn, Ty: t.name, Tuples: ts})
			}
		}
	}
	c.Note("long argument lists (direct oracle; float/complex Sum and Product bit for bit against the left-to-right loop): Min, Max, Sum, Product, Coal " +
		"with 0..20, 24, 31..33, 40, 63..65, 100, 127..129, 255..257, 511..513, 1000, 1023..1025, 2047..2049, 4095..4097 arguments, for every integer type, float32/64, " +
		"complex64/128 (Sum, Product), string (Min, Max, Coal); profiles: random, extreme at a chosen position, many ties, wrapping extremes, odd factors, " +
		"zigzag magnitudes (running product finite, any block product over/underflows), cancelling sums, factors near one; lists of 16, 17, 33, 65 arguments also go to the model")
}

const block = 4096 // calls per exhaustive case

// every value of an 8 or 16 bit type for the one-argument functions. Every block goes to the direct
// oracle; all of them also go to the model, except that the quick tier sends only the blocks at the
// ends and around the middle (zero of a signed type, 2^(w-1) of an unsigned one) for Abs and Clamp01.
func exhaustiveUnary(c *core.Ctx, t tinfo) {
	min, _ := t.minMax()
	lo, total := min.Int64(), 1<<uint(t.w)
	for _, fn := range []string{"Abs", "Clamp01", "Digits10", "DigitsSign10"} {
		nblocks := (total + block - 1) / block
		for k, off := 0, 0; off < total; k, off = k+1, off+block {
			n := block
			if total-off < n {
				n = total - off
			}
			edge := k == 0 || k == nblocks-1 || k == nblocks/2 || k == nblocks/2-1
			oracleOnly := c.Tier == "quick" && (fn == "Abs" || fn == "Clamp01") && !edge
			exec(c, Case{Fn: fn, Ty: t.name, Dims: []Dim{{Lo: lo + int64(off), N: n}}, Oracle: oracleOnly})
		}
	}
}

// every pair of values of an 8 bit type for the two-argument functions (direct oracle: all; model:
// all in the thorough tier, 6 of the 16 row blocks — ends, middle, two more — in the quick tier;
// Compare, Less, Coal reach the model through the samples only), and Clamp with (lo, hi) from a
// boundary set against every v
func exhaustivePairs(c *core.Ctx, t tinfo) {
	min, _ := t.minMax()
	lo := min.Int64()
	rows := block / 256
	for _, fn := range []string{"Min", "Max", "Sum", "Product", "Compare", "Less", "Coal"} {
		for k, off := 0, 0; off < 256; k, off = k+1, off+rows {
			oracleOnly := fn == "Compare" || fn == "Less" || fn == "Coal" ||
				(c.Tier == "quick" && !(k == 0 || k == 3 || k == 7 || k == 8 || k == 12 || k == 15))
			exec(c, Case{Fn: fn, Ty: t.name, Dims: []Dim{{Lo: lo + int64(off), N: rows}, {Lo: lo, N: 256}}, Oracle: oracleOnly})
		}
	}
	var bs []int64
	for _, d := range []int64{0, 1, 2, 9, 10, 100, 126, 127, 128, 129, 200, 254, 255} {
		bs = append(bs, lo+d)
	}
	for i := 0; i < len(bs); i++ {
		exec(c, Case{Fn: "Clamp", Ty: t.name, Dims: []Dim{{Lo: lo, N: 256}, {List: []int64{bs[i]}}, {List: bs[i:]}}}) // lo <= hi
	}
}

// every (v, lo, hi) of an 8 bit type: direct oracle only (2^24 calls)
func sweepClamp8[T typ.Integer](c *core.Ctx, t tinfo) {
	min, _ := t.minMax()
	base := min.Int64()
	bad := 0
	for a := int64(0); a < 256; a++ {
		for b := int64(0); b < 256; b++ {
			for d := int64(0); d < 256; d++ {
				v, lo, hi := T(base+a), T(base+b), T(base+d)
				r := typ.Clamp(v, lo, hi)
				if lo > hi {
					continue
				}
				vi, li, hi2, ri := int64(v), int64(lo), int64(hi), int64(r)
				ok := li <= ri && ri <= hi2 && (vi < li || vi > hi2 || ri == vi) && (vi >= li || ri == li) && (vi <= hi2 || ri == hi2)
				if !ok && bad < 3 {
					bad++
					exec(c, Case{Fn: "Clamp", Ty: t.name, Tuples: [][]int64{{int64(v), int64(lo), int64(hi)}}})
				}
			}
		}
	}
	c.CountN("calls", 1<<24)
	c.CountN("calls_Clamp", 1<<24)
	c.CountN("calls_oracle_only", 1<<24)
}

// thorough tier: all 2^32 values of a 32 bit type for the one-argument functions, direct oracle only
func sweep32[T typ.Integer](c *core.Ctx, t tinfo) {
	workers := runtime.GOMAXPROCS(0)
	var mu sync.Mutex
	var bad []int64
	var wg sync.WaitGroup
	min, _ := t.minMax()
	base := min.Int64()
	const total = int64(1) << 32
	chunk := total / int64(workers)
	for w := 0; w < workers; w++ {
		from, to := int64(w)*chunk, int64(w+1)*chunk
		if w == workers-1 {
			to = total
		}
		wg.Add(1)
		go func() {
			defer wg.Done()
			var buf [24]byte
			for i := from; i < to; i++ {
				x := base + i
				v := T(x)
				ax := x
				if ax < 0 {
					ax = -ax
				}
				ok := typ.Digits10(v) == len(strconv.AppendInt(buf[:0], ax, 10)) &&
					typ.DigitsSign10(v) == len(strconv.AppendInt(buf[:0], x, 10))
				if x != base || !t.signed {
					ok = ok && int64(typ.Abs(v)) == ax
				}
				want := x
				if x < 0 {
					want = 0
				} else if x > 1 {
					want = 1
				}
				ok = ok && int64(typ.Clamp01(v)) == want
				if !ok {
					mu.Lock()
					if len(bad) < 3 {
						bad = append(bad, x)
					}
					mu.Unlock()
				}
			}
		}()
	}
	wg.Wait()
	for _, x := range bad {
		for _, fn := range []string{"Digits10", "DigitsSign10", "Abs", "Clamp01"} {
			exec(c, Case{Fn: fn, Ty: t.name, Tuples: [][]int64{{x}}})
		}
	}
	c.CountN("calls", 4<<32)
	c.CountN("calls_oracle_only", 4<<32)
	c.Note("all 2^32 values of " + t.name + " for Digits10, DigitsSign10, Abs, Clamp01 against strconv (direct oracle only)")
}

func run(c *core.Ctx) {
	c.ShardSize = shardSize
	r := c.Rng
	// 1. exhaustive small scopes
	for _, name := range []string{"int8", "uint8", "int16", "uint16"} {
		t, _ := lookup(name)
		exhaustiveUnary(c, t)
		if t.w == 8 {
			exhaustivePairs(c, t)
		}
	}
	t8, _ := lookup("int8")
	sweepClamp8[int8](c, t8)
	tu8, _ := lookup("uint8")
	sweepClamp8[uint8](c, tu8)
	c.Exhaustive = true
	c.Note("exhaustive, direct oracle: every value of int8/uint8/int16/uint16 for Abs, Clamp01, Digits10, DigitsSign10; every pair of int8/uint8 values " +
		"for Min, Max, Sum, Product, Compare, Less, Coal; every (v,lo,hi) triple of int8 and uint8 for Clamp (the 2 x 2^24 Clamp calls are not in 'evaluations')")
	if c.Tier == "quick" {
		c.Note("compared with the model (quick tier): every int8/uint8/int16/uint16 value for Digits10, DigitsSign10; every int8/uint8 value and the 4 blocks of 4096 " +
			"int16/uint16 values at the ends and around the middle for Abs, Clamp01; 96 of the 256 rows (ends, middle, two more blocks) of the int8/uint8 pair tables of " +
			"Min, Max, Sum, Product; Clamp of every int8/uint8 v against the 91 boundary pairs lo <= hi; the thorough tier sends every block")
	} else {
		c.Note("compared with the model: all of the above except the pair tables of Compare, Less, Coal and the Clamp triples (Clamp: every v against the 91 boundary pairs lo <= hi)")
	}
	// 2. boundary-dense and random samples of every type
	n0 := c.N(400, 2000, 3000)
	for _, t := range typeList {
		n := n0
		switch t.name { // same model instance as int64/uint64/int8/uint16: fewer samples
		case "int", "uint", "uintptr", "named8", "namedu16":
			n = n0 / 4
		}
		switch t.kind {
		case 'i':
			bnd := boundary(t)
			for _, fn := range []string{"Abs", "Clamp01", "Digits10", "DigitsSign10"} {
				exec(c, Case{Fn: fn, Ty: t.name, Tuples: singles(bnd)})
			}
			for rep := c.N(1, 3, 2); rep > 0; rep-- {
				sampled(c, t, func() int64 { return randInt(r, t, bnd) }, n)
			}
		case 'f':
			var bnd []int64
			for _, f := range floatBoundary {
				bnd = append(bnd, int64(math.Float64bits(f)))
			}
			for _, fn := range []string{"Abs", "Clamp01"} {
				exec(c, Case{Fn: fn, Ty: t.name, Tuples: singles(bnd)})
			}
			for rep := c.N(1, 3, 2); rep > 0; rep-- {
				sampled(c, t, func() int64 { return randFloat(r) }, n)
			}
		case 's':
			sampled(c, t, func() int64 { return int64(r.Intn(len(strTable))) }, n)
		}
	}
	// 2b. long argument lists of the variadic functions
	longVariadic(c)
	// 3. util.go
	small := func() int64 {
		if r.Chance(40) {
			return 0
		}
		return int64(r.Range(-5, 5))
	}
	exec(c, Case{Fn: "Zero", Ty: "util", Tuples: [][]int64{{}}})
	exec(c, Case{Fn: "ZeroOf", Ty: "util", Tuples: tuplesOf(20, fixed(1), small)})
	exec(c, Case{Fn: "Ref", Ty: "util", Tuples: tuplesOf(20, fixed(1), small)})
	var tz, tt, tc, tn, td [][]int64
	for kind := int64(0); kind <= 2; kind++ {
		for v := int64(-1); v <= 1; v++ {
			for z := int64(0); z <= 1; z++ {
				if kind == 0 && z == 1 {
					continue
				}
				tz = append(tz, []int64{kind, v, z})
			}
		}
	}
	for cond := int64(0); cond <= 1; cond++ {
		for a := int64(-1); a <= 1; a++ {
			for b := int64(-1); b <= 1; b++ {
				tt = append(tt, []int64{cond, a, b})
			}
		}
		for dyn := int64(0); dyn <= 4; dyn++ {
			for _, p := range []int64{0, 7} {
				if dyn == 0 && p != 0 {
					continue
				}
				tc = append(tc, []int64{cond, dyn, p, -3})
			}
		}
		td = append(td, []int64{cond, 0}, []int64{cond, 5}, []int64{cond, -5})
	}
	for dyn := int64(0); dyn <= 4; dyn++ {
		tn = append(tn, []int64{0, dyn, 0})
		if dyn > 0 {
			tn = append(tn, []int64{0, dyn, 3})
		}
	}
	tn = append(tn, []int64{2, 0, 0}, []int64{2, 7, 1}) // T = error: nil, non-nil
	for dyn := int64(1); dyn <= 6; dyn++ {
		tn = append(tn, []int64{1, dyn, 0})
	}
	tn = append(tn, []int64{1, 1, 4}, []int64{1, 2, 4})
	exec(c, Case{Fn: "IsZero", Ty: "util", Tuples: tz})
	exec(c, Case{Fn: "Tern", Ty: "util", Tuples: tt})
	exec(c, Case{Fn: "TernCast", Ty: "util", Tuples: tc})
	exec(c, Case{Fn: "IsNil", Ty: "util", Tuples: tn})
	exec(c, Case{Fn: "DerefZero", Ty: "util", Tuples: td})
	ifaceCases(c)
	encodingProbe(c)
	utilProbes(c)
	// 4. thorough: all 32 bit values
	if c.Tier == "thorough" {
		t32, _ := lookup("int32")
		sweep32[int32](c, t32)
		tu32, _ := lookup("uint32")
		sweep32[uint32](c, tu32)
	}
}
