// Package c02: the AVL tree stays height-balanced after every Add and Remove.
//
// A case is an operation history (several tree handles, walk observations
// placed by the generator). The real avl.Tree runs it; every output is emitted
// for exact comparison with the Coq model (Avl.CheckC02: for distinct values
// Pre+In pin the shape; with duplicate values the walks do not determine it).
// Direct oracle, after every mutating operation: the tree revealed by the
// pre-order and in-order walks (reconstructed; with duplicate values the node
// structure is read by reflection and checked against the walks; if that is
// not possible the oracle reports Unobservable, it never passes silently) is
// height-balanced at every node and no deeper than 1.4405*log2(n+2) levels.
// A further stream builds the tree with a call-counting comparator (natural
// order, or an arbitrary function: balance must not depend on the order) and
// also checks the cost consequence: at most one comparator call per level for
// Contains, Add and Remove; the natural-order ("counted") cases sent to the
// model carry the exact number of calls of every op, which must equal the
// model's run_calls (Avl/Cost.v, theorem C02_cost).
package c02

import (
	"encoding/json"
	"fmt"
	"math"
	"reflect"
	"runtime/debug"

	"gopkg.in/typ.v4/avl"
	"verif/harness/avlh"
	"verif/harness/core"
)

type Case struct {
	Elem string `json:"elem"` // int | pair (compared with the model) | counted (natural order + call counter: compared with the model, call counts included, unless NoModel) | weird (arbitrary comparator with a call counter, oracle only)
	Seed int    `json:"seed,omitempty"`
	// Dense = [from,to): the oracle runs after EVERY mutating op in that window whatever the tree size and
	// after every 16th outside it (without Dense: every op up to 300 nodes, every 16th above).
	// NoModel: oracle only, not emitted to Coq.
	Dense   []int     `json:"dense,omitempty"`
	NoModel bool      `json:"nomodel,omitempty"`
	Ops     []avlh.Op `json:"ops"`
}

// check: does the oracle run after mutating op #i on a tree of n nodes? With a Dense window: every op
// inside it, every 16th outside; without: every op up to 300 nodes, every 16th above; always the last 8.
func (cs Case) check(i, n int) bool {
	if i%16 == 0 || i >= len(cs.Ops)-8 {
		return true
	}
	if len(cs.Dense) == 2 {
		return i >= cs.Dense[0] && i < cs.Dense[1]
	}
	return n <= 300
}

func init() {
	core.Register(&core.Prop{ID: "C02", Module: "Avl.CheckC02", Run: run, Replay: replay})
}

func replay(c *core.Ctx, raw json.RawMessage) error {
	var cs Case
	if err := json.Unmarshal(raw, &cs); err != nil {
		return err
	}
	exec(c, cs)
	return nil
}

// ---------------------------------------------------------------------------
// shape of a tree and the property oracle

// verdict is what the oracle establishes about one tree.
type verdict struct {
	height, size int
	bad          string // first node found with |height(left)-height(right)| > 1
	postBad      bool   // the post-order walk is not the post-order of the tree given by pre+in
	cacheWrong   int    // nodes whose cached height field is not the real height (reflection only)
}

// position index for fromPreIn, reused across calls (values in [0,posLimit) use the stamped slices)
const posLimit = 1 << 16

var (
	posIdx [posLimit]int32
	posGen [posLimit]uint32
	posCur uint32
)

// analysePreIn rebuilds, without materialising it, the unique binary tree with the given pre-order and
// in-order sequences and measures it. ok = false if the values are not distinct (the two walks then do not
// determine the tree) or the walks are inconsistent.
func analysePreIn(pre, in, post []int) (v verdict, ok bool) {
	if len(pre) != len(in) {
		return v, false
	}
	posCur++
	if posCur == 0 {
		posGen = [posLimit]uint32{}
		posCur = 1
	}
	var big map[int]int32
	for i, x := range in {
		if x >= 0 && x < posLimit {
			if posGen[x] == posCur {
				return v, false // duplicate
			}
			posGen[x], posIdx[x] = posCur, int32(i)
		} else {
			if big == nil {
				big = map[int]int32{}
			}
			if _, dup := big[x]; dup {
				return v, false
			}
			big[x] = int32(i)
		}
	}
	lookup := func(x int) (int, bool) {
		if x >= 0 && x < posLimit {
			return int(posIdx[x]), posGen[x] == posCur
		}
		p, found := big[x]
		return int(p), found
	}
	next, pk := 0, 0
	ok = true
	var rec func(lo, hi int) int
	rec = func(lo, hi int) int {
		if lo >= hi || !ok {
			return -1
		}
		if next >= len(pre) {
			ok = false
			return -1
		}
		x := pre[next]
		p, found := lookup(x)
		if !found || p < lo || p >= hi {
			ok = false
			return -1
		}
		next++
		hl := rec(lo, p)
		hr := rec(p+1, hi)
		if pk >= len(post) || post[pk] != x {
			v.postBad = true
		}
		pk++
		if v.bad == "" && (hl-hr > 1 || hr-hl > 1) {
			v.bad = fmt.Sprintf("node %d: left subtree height %d, right subtree height %d", x, hl, hr)
		}
		v.size++
		return 1 + max(hl, hr)
	}
	v.height = rec(0, len(in))
	if pk != len(post) {
		v.postBad = true
	}
	return v, ok && next == len(pre)
}

// analyseReflect reads the node structure of an *avl.Tree[int] / *avl.Tree[Pair] by reflection, measures it
// and checks that it reproduces the three walks. ok = false if the fields cannot be read (why = whyFields) or
// if the node structure does not reproduce the three walks (why = whyWalks).
const (
	whyFields = "the private fields Tree.root / node.value,left,right,height could not be read by reflection"
	whyWalks  = "the node structure read by reflection does not reproduce the three observed walks"
)

func analyseReflect(tree any, pre, in, post []int) (v verdict, ok bool, why string) {
	why = whyFields
	defer func() {
		if recover() != nil {
			ok, why = false, whyFields
		}
	}()
	rv := reflect.ValueOf(tree)
	if rv.Kind() != reflect.Ptr || rv.IsNil() {
		return v, false, why
	}
	root := rv.Elem().FieldByName("root")
	if !root.IsValid() {
		return v, false, why
	}
	nt := root.Type().Elem() // node[T]
	fv, ok1 := nt.FieldByName("value")
	fl, ok2 := nt.FieldByName("left")
	fr, ok3 := nt.FieldByName("right")
	fh, ok4 := nt.FieldByName("height")
	if !(ok1 && ok2 && ok3 && ok4) {
		return v, false, why
	}
	iv, il, ir, ih := fv.Index[0], fl.Index[0], fr.Index[0], fh.Index[0]
	isStruct := fv.Type.Kind() == reflect.Struct
	pi, ii, oi := 0, 0, 0
	match := true
	var walk func(p reflect.Value) int
	walk = func(p reflect.Value) int {
		if p.IsNil() {
			return -1
		}
		n := p.Elem()
		val := n.Field(iv)
		var x int
		if isStruct {
			x = int(val.Field(0).Int())<<2 | int(val.Field(1).Int())
		} else {
			x = int(val.Int())
		}
		if pi >= len(pre) || pre[pi] != x {
			match = false
		}
		pi++
		hl := walk(n.Field(il))
		if ii >= len(in) || in[ii] != x {
			match = false
		}
		ii++
		hr := walk(n.Field(ir))
		if oi >= len(post) || post[oi] != x {
			match = false
		}
		oi++
		h := 1 + max(hl, hr)
		if int(n.Field(ih).Int()) != h {
			v.cacheWrong++
		}
		if v.bad == "" && (hl-hr > 1 || hr-hl > 1) {
			v.bad = fmt.Sprintf("node %d: left subtree height %d, right subtree height %d", x, hl, hr)
		}
		v.size++
		return h
	}
	v.height = walk(root)
	if match && pi == len(pre) && ii == len(in) && oi == len(post) {
		return v, true, ""
	}
	return v, false, whyWalks
}

func max(a, b int) int {
	if a > b {
		return a
	}
	return b
}

// oracle checks the property on the tree behind handle h. step is for messages.
// It returns the pre-order walk it used.
func oracle(c *core.Ctx, failed *bool, ts avlh.Trees, h int, step int, op avlh.Op) []int {
	pre, in, post := walksOf(ts.Root(h))
	checkWalks(c, failed, pre, in, post, ts.Root(h), step, op)
	return pre
}

// walksOf: the callback sequences of the three Walk* methods (avlh.Walks without the String() formatting).
func walksOf(root any) (pre, in, post []int) {
	switch t := root.(type) {
	case *avl.Tree[int]:
		n := t.Len()
		if n < 0 {
			n = 0
		}
		pre, in, post = make([]int, 0, n), make([]int, 0, n), make([]int, 0, n)
		t.WalkPreOrder(func(v int) { pre = append(pre, v) })
		t.WalkInOrder(func(v int) { in = append(in, v) })
		t.WalkPostOrder(func(v int) { post = append(post, v) })
	case *avl.Tree[avlh.Pair]:
		t.WalkPreOrder(func(v avlh.Pair) { pre = append(pre, v.A<<2|v.B) })
		t.WalkInOrder(func(v avlh.Pair) { in = append(in, v.A<<2|v.B) })
		t.WalkPostOrder(func(v avlh.Pair) { post = append(post, v.A<<2|v.B) })
	}
	return
}

// checkWalks returns the number of levels of the tree, or -1 if its shape could not be established.
func checkWalks(c *core.Ctx, failed *bool, pre, in, post []int, root any, step int, op avlh.Op) int {
	fail := func(what, detail string) {
		if !*failed {
			*failed = true
			c.Fail(what, fmt.Sprintf("after op #%d (%s h=%d v=%d): %s", step, op.K, op.H, op.V, detail))
		}
	}
	v, ok := analysePreIn(pre, in, post)
	how := "oracle_prein"
	if !ok {
		// duplicate values: pre+in do not determine the tree; read the nodes and check them against the walks
		how = "oracle_reflect"
		var why string
		if v, ok, why = analyseReflect(root, pre, in, post); !ok {
			// the shape of this tree was not established: the balance oracle did not observe it. Never silent
			// (bin/check reports a broken correspondence); it does not happen on the unchanged tree.
			c.Unobservable("C02 balance oracle: pre-order + in-order do not determine the tree (duplicate values, or inconsistent walks) and " + why +
				"; the balance and depth of that tree were not checked")
			return -1
		}
	} else {
		if v.postBad {
			fail("post-order walk is not the post-order of the tree given by pre-order and in-order", fmt.Sprint(clip(post)))
			return -1
		}
		if len(pre) <= 64 || step%16 == 0 {
			// the cached height fields, as a statistic only (not part of the property)
			if r, ok2, _ := analyseReflect(root, pre, in, post); ok2 && r.cacheWrong > 0 {
				c.Count("cached_height_fields_wrong")
			}
		}
	}
	c.Count(how)
	height, n, bad := v.height, v.size, v.bad
	if bad != "" {
		fail("tree is not height-balanced", fmt.Sprintf("%s (n=%d, height=%d, pre=%v in=%v)", bad, n, height, clip(pre), clip(in)))
		return height + 1
	}
	levels := height + 1
	if float64(levels) > 1.4405*math.Log2(float64(n+2)) {
		fail("depth exceeds 1.4405*log2(n+2)", fmt.Sprintf("levels=%d n=%d", levels, n))
	}
	if levels > c.Stats["max_levels"] {
		c.Stats["max_levels"] = levels
	}
	return levels
}

func clip(s []int) []int {
	if len(s) > 40 {
		return s[:40]
	}
	return s
}

// ---------------------------------------------------------------------------
// mirror: the model's decisions re-implemented in Go with counters, used (a)
// by the generators to aim at interesting operations (remove the root, remove
// the minimum) and (b) to measure which rotation cases a history triggers.
// It is NOT the oracle.

type mnode struct {
	v    int
	l, r *mnode
	h    int
}

const (
	ctxAdd = iota
	ctxRemove
	ctxPop
)
const (
	rotL = iota
	rotLR
	rotR
	rotRL
)

type mirror struct {
	cmp   func(a, b int) int
	roots []*mnode
	sizes []int
	rot   [3][4]int
	ctx   int
}

func newMirror(cmp func(a, b int) int) *mirror {
	return &mirror{cmp: cmp, roots: []*mnode{nil}, sizes: []int{0}}
}

func mh(n *mnode) int {
	if n == nil {
		return -1
	}
	return n.h
}
func (n *mnode) calc() int { return 1 + max(mh(n.l), mh(n.r)) }

func (n *mnode) rotateLeft() *mnode {
	nr := n.r
	n.r = nr.l
	n.h = n.calc()
	nr.l = n
	nr.h = nr.calc()
	return nr
}
func (n *mnode) rotateRight() *mnode {
	nr := n.l
	n.l = nr.r
	n.h = n.calc()
	nr.r = n
	nr.h = nr.calc()
	return nr
}
func (m *mirror) rebalance(n *mnode) *mnode {
	switch d := mh(n.l) - mh(n.r); {
	case d < -1:
		if n.r != nil && mh(n.r.l) > mh(n.r.r) {
			m.rot[m.ctx][rotLR]++
			n.r = n.r.rotateRight()
			return n.rotateLeft()
		}
		m.rot[m.ctx][rotL]++
		return n.rotateLeft()
	case d > 1:
		if n.l != nil && mh(n.l.r) > mh(n.l.l) {
			m.rot[m.ctx][rotRL]++
			n.l = n.l.rotateLeft()
			return n.rotateRight()
		}
		m.rot[m.ctx][rotR]++
		return n.rotateRight()
	}
	return n
}
func (m *mirror) add(n *mnode, v int) *mnode {
	if n == nil {
		return &mnode{v: v}
	}
	if m.cmp(v, n.v) < 0 {
		n.l = m.add(n.l, v)
	} else {
		n.r = m.add(n.r, v)
	}
	n.h = n.calc()
	return m.rebalance(n)
}
func (m *mirror) pop(n *mnode) (*mnode, *mnode) {
	if n.l == nil {
		return n.r, n
	}
	nl, p := m.pop(n.l)
	n.l = nl
	n.h = n.calc()
	return m.rebalance(n), p
}
func (m *mirror) remove(n *mnode, v int) (*mnode, bool) {
	if n.v == v {
		switch {
		case n.l == nil && n.r == nil:
			return nil, true
		case n.l == nil:
			return n.r, true
		case n.r == nil:
			return n.l, true
		}
		m.ctx = ctxPop
		nr, lm := m.pop(n.r)
		m.ctx = ctxRemove
		lm.l, lm.r = n.l, nr
		lm.h = lm.calc()
		return m.rebalance(lm), true
	}
	if n.l != nil && m.cmp(v, n.v) < 0 {
		if nn, ok := m.remove(n.l, v); ok {
			n.l = nn
			n.h = n.calc()
			return m.rebalance(n), true
		}
	} else if n.r != nil {
		if nn, ok := m.remove(n.r, v); ok {
			n.r = nn
			n.h = n.calc()
			return m.rebalance(n), true
		}
	}
	return n, false
}
func mpre(n *mnode, out *[]int) {
	if n != nil {
		*out = append(*out, n.v)
		mpre(n.l, out)
		mpre(n.r, out)
	}
}
func (m *mirror) exec(o avlh.Op) {
	if o.H < 0 || o.H >= len(m.roots) {
		return
	}
	switch o.K {
	case "Add":
		m.ctx = ctxAdd
		m.roots[o.H] = m.add(m.roots[o.H], o.V)
		m.sizes[o.H]++
	case "Remove":
		if m.roots[o.H] != nil {
			m.ctx = ctxRemove
			nr, ok := m.remove(m.roots[o.H], o.V)
			m.roots[o.H] = nr
			if ok {
				m.sizes[o.H]--
			}
		}
	case "Clear":
		m.roots[o.H], m.sizes[o.H] = nil, 0
	case "Clone":
		var pre []int
		mpre(m.roots[o.H], &pre)
		var r *mnode
		m.ctx = ctxAdd
		for _, v := range pre {
			r = m.add(r, v)
		}
		m.roots = append(m.roots, r)
		m.sizes = append(m.sizes, len(pre))
	}
}
func (m *mirror) min(h int) (int, bool) {
	n := m.roots[h]
	if n == nil {
		return 0, false
	}
	for n.l != nil {
		n = n.l
	}
	return n.v, true
}

// a node with two children whose right subtree is at least `deep` high (its removal runs popLeftMost)
func (m *mirror) twoChildNode(h int, r *core.Rand) (int, bool) {
	n := m.roots[h]
	if n == nil || n.l == nil || n.r == nil {
		return 0, false
	}
	for r.Chance(65) {
		var nx *mnode
		if r.Bool() {
			nx = n.l
		} else {
			nx = n.r
		}
		if nx == nil || nx.l == nil || nx.r == nil {
			break
		}
		n = nx
	}
	return n.v, true
}
func (m *mirror) randomPresent(h int, r *core.Rand) (int, bool) {
	n := m.roots[h]
	if n == nil {
		return 0, false
	}
	for {
		k := r.Intn(3)
		if k == 0 || (n.l == nil && n.r == nil) {
			return n.v, true
		}
		if (k == 1 && n.l != nil) || n.r == nil {
			n = n.l
		} else {
			n = n.r
		}
	}
}

func intCompare(a, b int) int {
	switch {
	case a < b:
		return -1
	case a > b:
		return 1
	}
	return 0
}

// weirdCompare is an arbitrary deterministic function into {-1,0,1}: not
// antisymmetric, not transitive, unrelated to ==. Balance must not depend on it.
func weirdCompare(seed int) func(a, b int) int {
	return func(a, b int) int {
		x := uint64(a)*0x9E3779B97F4A7C15 ^ uint64(b)*0xC2B2AE3D27D4EB4F ^ uint64(seed)*0x165667B19E3779F9
		x ^= x >> 29
		x *= 0xBF58476D1CE4E5B9
		x ^= x >> 32
		return int(x%3) - 1
	}
}

// ---------------------------------------------------------------------------
// running one case

func isMutating(k string) bool { return k == "Add" || k == "Remove" || k == "Clear" || k == "Clone" }

func exec(c *core.Ctx, cs Case) {
	c.Begin(cs)
	c.Count("elem_" + cs.Elem)
	if cs.Elem == "weird" || cs.Elem == "counted" {
		execWeird(c, cs)
		return
	}
	var ts avlh.Trees
	if cs.Elem == "pair" {
		ts = avlh.NewPair()
	} else {
		ts = avlh.NewInt()
	}
	m := newMirror(intCompare)
	outs := make([]avlh.Out, 0, len(cs.Ops))
	failed := false
	maxSize, dup := 0, false
	for i, o := range cs.Ops {
		out := ts.Exec(o)
		outs = append(outs, out)
		m.exec(o)
		c.Count("op_" + o.K)
		switch out.Kind {
		case "panic":
			c.Count("panic_" + out.Panic)
			if !failed {
				failed = true
				c.Fail("panic", fmt.Sprintf("op #%d (%s h=%d v=%d) panicked: %s", i, o.K, o.H, o.V, out.Panic))
			}
			continue
		case "badhandle":
			c.Count("bad_handle")
			continue
		}
		if !isMutating(o.K) {
			continue
		}
		h := o.H
		if o.K == "Clone" {
			h = ts.N() - 1
		}
		n := m.sizes[h]
		if n > maxSize {
			maxSize = n
		}
		// every mutation on small and medium trees; every 16th and the last on big ones
		if cs.check(i, n) {
			before := c.Stats["oracle_reflect"]
			pre := oracle(c, &failed, ts, h, i, o)
			if c.Stats["oracle_reflect"] != before {
				dup = true
			}
			var mp []int
			mpre(m.roots[h], &mp)
			if !core.Eq(pre, mp) {
				c.Count("mirror_shape_differs")
			}
		}
	}
	classify(c, m, maxSize, dup)
	if cs.NoModel {
		c.Count("oracle_only_cases")
		return
	}
	c.Emit(avlh.CoqCase(cs.Ops, outs))
}

func classify(c *core.Ctx, m *mirror, maxSize int, dup bool) {
	names := [4]string{"rotateLeft", "rotateLeftRight", "rotateRight", "rotateRightLeft"}
	ctxs := [3]string{"add", "remove", "popLeftMost"}
	all := true
	for x := 0; x < 3; x++ {
		any := false
		for k := 0; k < 4; k++ {
			if m.rot[x][k] > 0 {
				c.Count("case_with_" + ctxs[x] + "_" + names[k])
				any = true
			} else if x != ctxPop {
				all = false
			}
		}
		if x == ctxPop && !any {
			all = false
		}
	}
	if all {
		c.Nontrivial()
	}
	if dup {
		c.Count("case_with_duplicates")
	}
	switch {
	case maxSize <= 8:
		c.Count("size_le_8")
	case maxSize <= 64:
		c.Count("size_le_64")
	case maxSize <= 512:
		c.Count("size_le_512")
	case maxSize <= 2048:
		c.Count("size_le_2048")
	default:
		c.Count("size_gt_2048")
	}
}

// execWeird: trees built here with a call-counting comparator — the natural order ("counted") or an
// arbitrary function ("weird"). Besides balance and depth it checks the cost consequence: Contains, Add and
// Remove call the comparator at most once per level of the tree they start from, hence at most
// 1.4405*log2(n+2) times. A "counted" case that is not NoModel is also emitted to the Coq model with the
// EXACT number of comparator calls of every op (Avl/Check.v check_calls: must equal the model's run_calls,
// which is built from the cost functions theorem C02_cost speaks about) and with every output.
func execWeird(c *core.Ctx, cs Case) {
	base := intCompare
	if cs.Elem == "weird" {
		base = weirdCompare(cs.Seed)
	}
	calls := 0
	cmp := func(a, b int) int { calls++; return base(a, b) }
	ts := avlh.NewIntCmp(cmp)
	m := newMirror(base)
	failed := false
	maxSize := 0
	levels := []int{0} // number of levels of the current tree of every handle; -1 = not established
	outs := make([]avlh.Out, 0, len(cs.Ops))
	ncalls := make([]int, 0, len(cs.Ops))
	exactOps := 0
	for i, o := range cs.Ops {
		n := 0
		if t, ok := ts.Root(o.H).(*avl.Tree[int]); ok && t != nil {
			n = t.Len()
		}
		calls = 0
		out := ts.Exec(o)
		k := calls
		outs = append(outs, out)
		m.exec(o)
		c.Count("op_" + o.K)
		switch out.Kind {
		case "panic":
			ncalls = append(ncalls, -1)
			if !failed {
				failed = true
				c.Fail("panic", fmt.Sprintf("op #%d (%s h=%d v=%d) panicked: %s (comparator %s seed %d)", i, o.K, o.H, o.V, out.Panic, cs.Elem, cs.Seed))
			}
			continue
		case "badhandle":
			ncalls = append(ncalls, -1)
			c.Count("bad_handle")
			continue
		}
		if o.K == "Clone" {
			ncalls = append(ncalls, -1) // a run of Adds on a fresh tree: not counted by the model
		} else {
			ncalls = append(ncalls, k)
			exactOps++
		}
		if levels[o.H] >= 0 && (o.K == "Add" || o.K == "Remove" || o.K == "Contains") {
			c.Count("cost_checked")
			if k > c.Stats["max_comparator_calls"] {
				c.Stats["max_comparator_calls"] = k
			}
			what := ""
			switch {
			case float64(k) > 1.4405*math.Log2(float64(n+2)):
				what = "more comparator calls than 1.4405*log2(n+2)"
			case k > levels[o.H]:
				what = "more comparator calls than levels of the tree (theorem C02_cost allows one per level)"
			}
			if what != "" && !failed {
				failed = true
				c.Fail(what, fmt.Sprintf("op #%d (%s v=%d) made %d comparator calls on a tree of %d nodes and %d levels", i, o.K, o.V, k, n, levels[o.H]))
			}
		}
		if !isMutating(o.K) {
			continue
		}
		h := o.H
		if o.K == "Clone" {
			h = ts.N() - 1
			levels = append(levels, -1)
		}
		if m.sizes[h] > maxSize {
			maxSize = m.sizes[h]
		}
		if !cs.check(i, m.sizes[h]) {
			levels[h] = -1 // shape not established after this op: no cost check on the next one
			continue
		}
		pre, in, post := walksOf(ts.Root(h))
		levels[h] = checkWalks(c, &failed, pre, in, post, ts.Root(h), i, o)
	}
	classify(c, m, maxSize, false)
	if cs.Elem == "counted" && !cs.NoModel {
		c.Count("counted_cases_to_model")
		c.CountN("comparator_calls_compared_exactly_ops", exactOps)
		c.Emit(avlh.CoqCaseCalls(cs.Ops, outs, ncalls))
	} else {
		c.Count("oracle_only_cases")
	}
	if failed && cs.Elem == "weird" {
		// the same operations under the natural order, as a case of its own (compared with the model too)
		exec(c, Case{Elem: "int", Ops: cs.Ops})
	}
}

// ---------------------------------------------------------------------------
// generators

type gen struct {
	c   *core.Ctx
	m   *mirror
	ops []avlh.Op
}

func newGen(c *core.Ctx) *gen { return &gen{c: c, m: newMirror(intCompare)} }

func (g *gen) op(k string, h, v int) {
	o := avlh.Op{K: k, H: h, V: v}
	g.ops = append(g.ops, o)
	g.m.exec(o)
}
func (g *gen) observe(h int, post bool) {
	g.op("Pre", h, 0)
	g.op("In", h, 0)
	if post {
		g.op("Post", h, 0)
	}
}

func permutations(n int, f func(p []int)) {
	p := make([]int, n)
	for i := range p {
		p[i] = i + 1
	}
	var rec func(k int)
	rec = func(k int) {
		if k == n {
			f(p)
			return
		}
		for i := k; i < n; i++ {
			p[k], p[i] = p[i], p[k]
			rec(k + 1)
			p[k], p[i] = p[i], p[k]
		}
	}
	rec(0)
}

func run(c *core.Ctx) {
	r := c.Rng
	debug.SetGCPercent(400)
	c.ShardSize = 50 // histories are long: small shards keep every coqc run to a few seconds

	// 1. exhaustive: every insertion order of n distinct keys, then every single deletion
	maxN := c.N(6, 7, 7)
	for n := 0; n <= maxN; n++ {
		permutations(n, func(p []int) {
			g := newGen(c)
			for _, v := range p { // the build-up, observed after every Add
				g.op("Add", 0, v)
				g.observe(0, false)
			}
			g.op("Post", 0, 0)
			for d := 1; d <= n; d++ {
				g.op("Clear", 0, 0)
				for _, v := range p {
					g.op("Add", 0, v)
				}
				g.op("Remove", 0, d)
				g.observe(0, d == 1)
			}
			exec(c, Case{Elem: "int", Ops: g.ops})
		})
	}
	c.Exhaustive = true
	c.Note(fmt.Sprintf("exhaustive: all insertion orders of n distinct keys, n in 0..%d, each observed after every Add, then (rebuilt) followed by every single deletion; plus random and structured histories", maxN))

	// 2. small random histories, observed after every mutation (duplicates frequent)
	for i := c.N(500, 12000, 3000); i > 0; i-- {
		g := newGen(c)
		keys := r.Range(1, 14)
		nops := r.Range(3, 40)
		for k := 0; k < nops; k++ {
			g.randomOp(r, keys, 45, true)
		}
		exec(c, Case{Elem: pick(r), Ops: g.ops})
	}

	// 3. medium histories: grow, churn, shrink; observations every few operations
	for i := c.N(160, 3000, 700); i > 0; i-- {
		g := newGen(c)
		keys := r.Range(20, 400)
		if r.Chance(15) {
			keys = r.Range(3, 12) // many duplicates
		}
		target := r.Range(15, 120)
		nops := r.Range(150, 600)
		every := r.Range(8, 40)
		for k := 0; k < nops; k++ {
			pctAdd := 50
			if g.m.sizes[0] < target/2 {
				pctAdd = 80
			} else if g.m.sizes[0] > target {
				pctAdd = 25
			}
			g.randomOp(r, keys, pctAdd, false)
			if k%every == every-1 {
				g.observe(r.Intn(len(g.m.roots)), r.Chance(30))
			}
		}
		g.observe(0, true)
		exec(c, Case{Elem: pick(r), Ops: g.ops})
	}

	// 4. large structured trees: sorted, reverse, organ-pipe, random; then delete-min-heavy / delete-root-heavy
	big := c.N(7, 40, 10)
	for i := 0; i < big; i++ {
		g := newGen(c)
		n := r.Range(600, 1400)
		if i%7 == 0 {
			n = 2000
		}
		order := make([]int, n)
		switch i % 4 {
		case 0: // sorted
			for k := range order {
				order[k] = k
			}
		case 1: // reverse
			for k := range order {
				order[k] = n - k
			}
		case 2: // organ pipe: 0, n-1, 1, n-2, ...
			for k := range order {
				if k%2 == 0 {
					order[k] = k / 2
				} else {
					order[k] = n - 1 - k/2
				}
			}
		default:
			for k := range order {
				order[k] = r.Intn(4 * n)
			}
		}
		for _, v := range order {
			g.op("Add", 0, v)
		}
		g.observe(0, false)
		dels := r.Range(200, 500)
		for k := 0; k < dels; k++ {
			var v int
			var ok bool
			switch x := r.Intn(10); {
			case x < 4:
				v, ok = g.m.min(0)
			case x < 8:
				v, ok = g.m.twoChildNode(0, r)
			default:
				v, ok = g.m.randomPresent(0, r)
			}
			if ok {
				g.op("Remove", 0, v)
			}
			if r.Chance(10) {
				g.op("Add", 0, r.Intn(4*n))
			}
		}
		g.observe(0, true)
		exec(c, Case{Elem: "int", Ops: g.ops})
	}

	// 5. malformed: bad handles, operations on empty and cleared trees, removing absent values
	for i := c.N(60, 600, 200); i > 0; i-- {
		g := newGen(c)
		for k := r.Range(1, 25); k > 0; k-- {
			h := r.Range(-1, len(g.m.roots)+1)
			if h < 0 {
				h = 7
			}
			kinds := []string{"Add", "Remove", "Remove", "Contains", "Len", "Clear", "Clone", "Pre", "In", "Post"}
			kd := kinds[r.Intn(len(kinds))]
			if kd == "Clone" && len(g.m.roots) >= 4 {
				kd = "Remove"
			}
			g.op(kd, h, r.Range(-3, 6))
			if h < len(g.m.roots) && isMutating(kd) {
				g.observe(h, true)
			}
		}
		exec(c, Case{Elem: pick(r), Ops: g.ops})
	}

	// 6. call-counting comparator: arbitrary ("weird": balance must not depend on the order being an order; oracle only) or
	// the natural order ("counted": also sent to the model with the exact comparator-call count of every op)
	for i := c.N(240, 4000, 2000); i > 0; i-- {
		g := newGen(c)
		cs := Case{Elem: "counted"}
		if r.Chance(60) {
			cs.Elem = "weird"
			cs.Seed = r.Intn(1 << 30)
			g.m = newMirror(weirdCompare(cs.Seed))
		}
		keys := r.Range(2, 200)
		for k := r.Range(5, 300); k > 0; k-- {
			switch x := r.Intn(100); {
			case x < 55:
				g.op("Add", 0, r.Intn(keys))
			case x < 70:
				g.op("Contains", 0, r.Intn(keys))
			case x < 99:
				if v, ok := g.m.randomPresent(0, r); ok && r.Chance(80) {
					g.op("Remove", 0, v)
				} else {
					g.op("Remove", 0, r.Intn(keys))
				}
			default:
				g.op("Clear", 0, 0)
			}
			if cs.Elem == "counted" && k%29 == 0 { // counted cases go to the model: pin the shape now and then
				g.observe(0, false)
			}
		}
		if cs.Elem == "counted" {
			g.op("Len", 0, 0)
			g.observe(0, true)
		}
		cs.Ops = g.ops
		exec(c, cs)
	}

	// 7. oracle-heavy, model-sampled: grow to n, churn (oracle after every op), maybe shrink; n up to 4097
	heavyStream(c)

	// check_calls (Avl/Check.v) passes vacuously on a case without recorded calls: a run that sent no exact
	// comparator-call counts to the model did not tie the cost functions of C02_cost to the code. Never silent.
	// (search / race tiers emit nothing to the model.)
	if !c.NoModel && (c.Stats["counted_cases_to_model"] == 0 || c.Stats["comparator_calls_compared_exactly_ops"] == 0) {
		c.Unobservable("C02 exact comparator-call comparison: no 'counted' case with recorded call counts was sent to the model in this run " +
			"(check_calls compared nothing)")
	}
}

// heavy builds one "grow to n nodes, churn, maybe shrink" history. The churn window is checked by the
// oracle after every operation; removals aim at two-children nodes (popLeftMost), the minimum, the root.
func (g *gen) heavy(r *core.Rand, elem string, n int, model bool) Case {
	cs := Case{Elem: elem, NoModel: !model}
	natural := elem == "int" || elem == "pair"
	if elem == "weird" {
		cs.Seed = r.Intn(1 << 30)
		g.m = newMirror(weirdCompare(cs.Seed))
	}
	keys := 4*n + 8
	if r.Chance(20) {
		keys = n/4 + 2 // many duplicates
	}
	style := r.Intn(6)
	for k := 0; k < n; k++ {
		var v int
		switch style {
		case 0:
			v = k
		case 1:
			v = n - k
		case 2:
			if k%2 == 0 {
				v = k / 2
			} else {
				v = n - 1 - k/2
			}
		default:
			v = r.Intn(keys)
		}
		g.op("Add", 0, v)
	}
	remove := func() {
		var v int
		var ok bool
		switch y := r.Intn(20); {
		case y < 5 && n >= 100: // a two-children node within two levels of the root: tall nodes lose their successor
			if t := g.m.roots[0]; t != nil {
				for d := r.Intn(3); d > 0; d-- {
					nx := t.l
					if r.Bool() {
						nx = t.r
					}
					if nx == nil || nx.l == nil || nx.r == nil {
						break
					}
					t = nx
				}
				v, ok = t.v, true
			}
		case y < 12:
			v, ok = g.m.twoChildNode(0, r)
		case y < 15:
			v, ok = g.m.min(0)
		case y < 16:
			if g.m.roots[0] != nil {
				v, ok = g.m.roots[0].v, true
			}
		case y < 19:
			v, ok = g.m.randomPresent(0, r)
		}
		if !ok {
			v = r.Intn(keys)
		}
		g.op("Remove", 0, v)
	}
	from := len(g.ops)
	if model {
		g.observe(0, false)
	}
	churn := r.Range(120, 320)
	if n >= 200 {
		churn += r.Range(100, 300)
	}
	for k := 0; k < churn; k++ {
		switch x := r.Intn(100); {
		case x < 40:
			g.op("Add", 0, r.Intn(keys))
		case x < 47 && !natural:
			g.op("Contains", 0, r.Intn(keys))
		case x < 42 && natural && len(g.m.roots) < 3 && n <= 1100:
			g.op("Clone", 0, 0)
		default:
			remove()
		}
		if model && k%25 == 24 && g.m.sizes[0] <= 300 {
			g.observe(0, false)
		}
	}
	to := len(g.ops)
	if r.Chance(35) { // grown, then shrunk
		target := r.Intn(n/4 + 1)
		for it := 0; it < 2*n+50 && g.m.sizes[0] > target; it++ {
			remove()
		}
	}
	if model {
		g.observe(0, true)
	}
	cs.Dense = []int{from, to}
	cs.Ops = g.ops
	return cs
}

// heavyStream: the oracle-heavy, model-sampled stream (see the rule text).
func heavyStream(c *core.Ctx) {
	r := c.Rng
	mult := c.N(1, 5, 2)
	oracleElem := func() string {
		if r.Chance(50) {
			return "weird"
		}
		return "counted"
	}
	// (a) just below / at / just above powers of two
	for rep := 0; rep < mult; rep++ {
		for _, n := range []int{15, 16, 17, 31, 32, 33, 63, 64, 65, 127, 128, 129, 255, 256, 257, 511, 512, 513,
			1023, 1024, 1025, 2047, 2048, 2049, 4095, 4096, 4097} {
			exec(c, newGen(c).heavy(r, "int", n, rep == 0 && n <= 129))
			exec(c, newGen(c).heavy(r, pick(r), n, false))
			exec(c, newGen(c).heavy(r, oracleElem(), n, false))
			if rep == 0 && (n <= 257 || n == 1025) { // exact comparator-call counts compared with the model
				exec(c, newGen(c).heavy(r, "counted", n, true))
			}
		}
	}
	// (b) dense coverage of 13..200 nodes: every size several times
	for i := 0; i < 560*mult; i++ {
		n := 13 + i%188
		exec(c, newGen(c).heavy(r, pick(r), n, i%20 == 0))
	}
	for i := 0; i < 376*mult; i++ {
		n := 13 + i%188
		e := oracleElem()
		exec(c, newGen(c).heavy(r, e, n, e == "counted" && i%8 < 2))
	}
	// (c) sizes spread log-uniformly over 16..4096
	for i := 0; i < 90*mult; i++ {
		n := 16 << uint(r.Intn(8))
		n += r.Intn(n)
		e := "int"
		if i%2 == 1 {
			e = oracleElem()
		}
		exec(c, newGen(c).heavy(r, e, n, false))
	}
}

func pick(r *core.Rand) string {
	if r.Chance(25) {
		return "pair"
	}
	return "int"
}

// randomOp appends one random operation on a random handle (and, if observeAll, the walks after a mutation).
func (g *gen) randomOp(r *core.Rand, keys, pctAdd int, observeAll bool) {
	h := r.Intn(len(g.m.roots))
	if r.Chance(70) {
		h = 0
	}
	x := r.Intn(100)
	mut := true
	switch {
	case x < 3 && len(g.m.roots) < 3:
		g.op("Clone", h, 0)
		h = len(g.m.roots) - 1
	case x < 4:
		g.op("Clear", h, 0)
	case x < 7:
		g.op("Contains", h, r.Intn(keys))
		mut = false
	case x < 9:
		g.op("Len", h, 0)
		mut = false
	case r.Chance(pctAdd):
		g.op("Add", h, r.Intn(keys))
	default:
		var v int
		var ok bool
		switch y := r.Intn(10); {
		case y < 3:
			v, ok = g.m.min(h)
		case y < 7:
			v, ok = g.m.twoChildNode(h, r)
		case y < 9:
			v, ok = g.m.randomPresent(h, r)
		}
		if !ok {
			v = r.Intn(keys)
		}
		g.op("Remove", h, v)
	}
	if mut && observeAll {
		g.observe(h, r.Chance(50))
	}
}
