// Package c02: the AVL tree stays height-balanced after every Add and Remove.
//
// A case is an operation history (several tree handles, walk observations
// placed by the generator). The real avl.Tree runs it; every output is emitted
// for exact comparison with the Coq model (Avl.CheckC02: Pre+In+Post pin the
// shape). Direct oracle, after every mutating operation: the tree revealed by
// the pre-order and in-order walks (reconstructed; with duplicate values the
// node structure is read by reflection and checked against the walks) is
// height-balanced at every node and no deeper than 1.4405*log2(n+2) levels.
// A further oracle-only stream builds the tree with a call-counting comparator
// (natural order, or an arbitrary function: balance must not depend on the
// order) and also checks the cost consequence: at most one comparator call per
// level for Contains, Add and Remove.
package c02

import (
	"encoding/json"
	"fmt"
	"math"
	"reflect"

	"gopkg.in/typ.v4/avl"
	"verif/harness/avlh"
	"verif/harness/core"
)

type Case struct {
	Elem string    `json:"elem"` // int | pair (compared with the model) | counted | weird (natural / arbitrary comparator with a call counter, oracle only)
	Seed int       `json:"seed,omitempty"`
	Ops  []avlh.Op `json:"ops"`
}

func init() {
	core.Register(&core.Prop{ID: "C02", Module: "Avl.CheckC02", Run: run, Replay: replay})
}

func replay(c *core.Ctx, raw json.RawMessage) error {
	var cs Case
	if err := json.Unmarshal(raw, &cs); err != nil {
		return err
	}
	exec(c, cs)
	return nil
}

// ---------------------------------------------------------------------------
// shape of a tree and the property oracle

type shape struct {
	v      int
	l, r   *shape
	cached int
	hasC   bool
}

// fromPreIn rebuilds the unique binary tree with the given pre-order and
// in-order sequences (values must be distinct).
func fromPreIn(pre, in []int) (*shape, bool) {
	if len(pre) != len(in) {
		return nil, false
	}
	pos := make(map[int]int, len(in))
	for i, v := range in {
		pos[v] = i
	}
	if len(pos) != len(in) {
		return nil, false
	}
	next := 0
	ok := true
	var build func(lo, hi int) *shape
	build = func(lo, hi int) *shape {
		if lo >= hi || !ok {
			return nil
		}
		if next >= len(pre) {
			ok = false
			return nil
		}
		v := pre[next]
		p, found := pos[v]
		if !found || p < lo || p >= hi {
			ok = false
			return nil
		}
		next++
		n := &shape{v: v}
		n.l = build(lo, p)
		n.r = build(p+1, hi)
		return n
	}
	t := build(0, len(in))
	return t, ok && next == len(pre)
}

// fromReflect reads the node structure of an *avl.Tree[int] / *avl.Tree[Pair].
func fromReflect(tree any) (s *shape, ok bool) {
	defer func() {
		if recover() != nil {
			s, ok = nil, false
		}
	}()
	rv := reflect.ValueOf(tree)
	if rv.Kind() != reflect.Ptr || rv.IsNil() {
		return nil, false
	}
	root := rv.Elem().FieldByName("root")
	if !root.IsValid() {
		return nil, false
	}
	var walk func(p reflect.Value) *shape
	walk = func(p reflect.Value) *shape {
		if p.IsNil() {
			return nil
		}
		n := p.Elem()
		val := n.FieldByName("value")
		var v int
		if val.Kind() == reflect.Struct {
			v = int(val.Field(0).Int())<<2 | int(val.Field(1).Int())
		} else {
			v = int(val.Int())
		}
		s := &shape{v: v, cached: int(n.FieldByName("height").Int()), hasC: true}
		s.l = walk(n.FieldByName("left"))
		s.r = walk(n.FieldByName("right"))
		return s
	}
	return walk(root), true
}

func (s *shape) walks() (pre, in, post []int) {
	var rec func(n *shape)
	rec = func(n *shape) {
		if n == nil {
			return
		}
		pre = append(pre, n.v)
		rec(n.l)
		in = append(in, n.v)
		rec(n.r)
		post = append(post, n.v)
	}
	rec(s)
	return
}

// balanced returns the height (empty = -1, leaf = 0), the number of nodes and
// a description of the first node violating |height(left)-height(right)| <= 1.
func balanced(s *shape) (height, size int, bad string, cacheWrong int) {
	if s == nil {
		return -1, 0, "", 0
	}
	hl, sl, bl, cl := balanced(s.l)
	hr, sr, br, cr := balanced(s.r)
	height = 1 + max(hl, hr)
	size = sl + sr + 1
	cacheWrong = cl + cr
	if s.hasC && s.cached != height {
		cacheWrong++
	}
	switch {
	case bl != "":
		bad = bl
	case br != "":
		bad = br
	case hl-hr > 1 || hr-hl > 1:
		bad = fmt.Sprintf("node %d: left subtree height %d, right subtree height %d", s.v, hl, hr)
	}
	return
}

func max(a, b int) int {
	if a > b {
		return a
	}
	return b
}

// oracle checks the property on the tree behind handle h. step is for messages.
func oracle(c *core.Ctx, failed *bool, ts avlh.Trees, h int, step int, op avlh.Op) {
	pre, in, post, _ := avlh.Walks(ts, h)
	checkWalks(c, failed, pre, in, post, ts.Root(h), step, op)
}

// checkWalks returns the number of levels of the tree, or -1 if its shape could not be established.
func checkWalks(c *core.Ctx, failed *bool, pre, in, post []int, root any, step int, op avlh.Op) int {
	fail := func(what, detail string) {
		if !*failed {
			*failed = true
			c.Fail(what, fmt.Sprintf("after op #%d (%s h=%d v=%d): %s", step, op.K, op.H, op.V, detail))
		}
	}
	s, ok := fromPreIn(pre, in)
	how := "prein"
	if !ok {
		// duplicate values: pre+in do not determine the tree; read the nodes and check them against the walks
		how = "reflect"
		s, ok = fromReflect(root)
		if ok {
			p2, i2, o2 := s.walks()
			ok = core.Eq(p2, pre) && core.Eq(i2, in) && core.Eq(o2, post)
		}
		if !ok {
			c.Count("oracle_skipped_shape_unknown")
			return -1
		}
	} else {
		_, _, o2 := s.walks()
		if !core.Eq(o2, post) {
			fail("post-order walk is not the post-order of the tree given by pre-order and in-order", fmt.Sprint(post))
			return -1
		}
		if r, ok2 := fromReflect(root); ok2 {
			// the cached height fields, as a statistic only (not part of the property)
			if _, _, _, cw := balanced(r); cw > 0 {
				c.Count("cached_height_fields_wrong")
			}
		}
	}
	c.Count("oracle_" + how)
	height, n, bad, _ := balanced(s)
	if bad != "" {
		fail("tree is not height-balanced", fmt.Sprintf("%s (n=%d, height=%d, pre=%v in=%v)", bad, n, height, clip(pre), clip(in)))
		return height + 1
	}
	levels := height + 1
	if float64(levels) > 1.4405*math.Log2(float64(n+2)) {
		fail("depth exceeds 1.4405*log2(n+2)", fmt.Sprintf("levels=%d n=%d", levels, n))
	}
	if levels > c.Stats["max_levels"] {
		c.Stats["max_levels"] = levels
	}
	return levels
}

func clip(s []int) []int {
	if len(s) > 40 {
		return s[:40]
	}
	return s
}

// ---------------------------------------------------------------------------
// mirror: the model's decisions re-implemented in Go with counters, used (a)
// by the generators to aim at interesting operations (remove the root, remove
// the minimum) and (b) to measure which rotation cases a history triggers.
// It is NOT the oracle.

type mnode struct {
	v    int
	l, r *mnode
	h    int
}

const (
	ctxAdd = iota
	ctxRemove
	ctxPop
)
const (
	rotL = iota
	rotLR
	rotR
	rotRL
)

type mirror struct {
	cmp   func(a, b int) int
	roots []*mnode
	sizes []int
	rot   [3][4]int
	ctx   int
}

func newMirror(cmp func(a, b int) int) *mirror {
	return &mirror{cmp: cmp, roots: []*mnode{nil}, sizes: []int{0}}
}

func mh(n *mnode) int {
	if n == nil {
		return -1
	}
	return n.h
}
func (n *mnode) calc() int { return 1 + max(mh(n.l), mh(n.r)) }

func (n *mnode) rotateLeft() *mnode {
	nr := n.r
	n.r = nr.l
	n.h = n.calc()
	nr.l = n
	nr.h = nr.calc()
	return nr
}
func (n *mnode) rotateRight() *mnode {
	nr := n.l
	n.l = nr.r
	n.h = n.calc()
	nr.r = n
	nr.h = nr.calc()
	return nr
}
func (m *mirror) rebalance(n *mnode) *mnode {
	switch d := mh(n.l) - mh(n.r); {
	case d < -1:
		if n.r != nil && mh(n.r.l) > mh(n.r.r) {
			m.rot[m.ctx][rotLR]++
			n.r = n.r.rotateRight()
			return n.rotateLeft()
		}
		m.rot[m.ctx][rotL]++
		return n.rotateLeft()
	case d > 1:
		if n.l != nil && mh(n.l.r) > mh(n.l.l) {
			m.rot[m.ctx][rotRL]++
			n.l = n.l.rotateLeft()
			return n.rotateRight()
		}
		m.rot[m.ctx][rotR]++
		return n.rotateRight()
	}
	return n
}
func (m *mirror) add(n *mnode, v int) *mnode {
	if n == nil {
		return &mnode{v: v}
	}
	if m.cmp(v, n.v) < 0 {
		n.l = m.add(n.l, v)
	} else {
		n.r = m.add(n.r, v)
	}
	n.h = n.calc()
	return m.rebalance(n)
}
func (m *mirror) pop(n *mnode) (*mnode, *mnode) {
	if n.l == nil {
		return n.r, n
	}
	nl, p := m.pop(n.l)
	n.l = nl
	n.h = n.calc()
	return m.rebalance(n), p
}
func (m *mirror) remove(n *mnode, v int) (*mnode, bool) {
	if n.v == v {
		switch {
		case n.l == nil && n.r == nil:
			return nil, true
		case n.l == nil:
			return n.r, true
		case n.r == nil:
			return n.l, true
		}
		m.ctx = ctxPop
		nr, lm := m.pop(n.r)
		m.ctx = ctxRemove
		lm.l, lm.r = n.l, nr
		lm.h = lm.calc()
		return m.rebalance(lm), true
	}
	if n.l != nil && m.cmp(v, n.v) < 0 {
		if nn, ok := m.remove(n.l, v); ok {
			n.l = nn
			n.h = n.calc()
			return m.rebalance(n), true
		}
	} else if n.r != nil {
		if nn, ok := m.remove(n.r, v); ok {
			n.r = nn
			n.h = n.calc()
			return m.rebalance(n), true
		}
	}
	return n, false
}
func mpre(n *mnode, out *[]int) {
	if n != nil {
		*out = append(*out, n.v)
		mpre(n.l, out)
		mpre(n.r, out)
	}
}
func (m *mirror) exec(o avlh.Op) {
	if o.H < 0 || o.H >= len(m.roots) {
		return
	}
	switch o.K {
	case "Add":
		m.ctx = ctxAdd
		m.roots[o.H] = m.add(m.roots[o.H], o.V)
		m.sizes[o.H]++
	case "Remove":
		if m.roots[o.H] != nil {
			m.ctx = ctxRemove
			nr, ok := m.remove(m.roots[o.H], o.V)
			m.roots[o.H] = nr
			if ok {
				m.sizes[o.H]--
			}
		}
	case "Clear":
		m.roots[o.H], m.sizes[o.H] = nil, 0
	case "Clone":
		var pre []int
		mpre(m.roots[o.H], &pre)
		var r *mnode
		m.ctx = ctxAdd
		for _, v := range pre {
			r = m.add(r, v)
		}
		m.roots = append(m.roots, r)
		m.sizes = append(m.sizes, len(pre))
	}
}
func (m *mirror) min(h int) (int, bool) {
	n := m.roots[h]
	if n == nil {
		return 0, false
	}
	for n.l != nil {
		n = n.l
	}
	return n.v, true
}

// a node with two children whose right subtree is at least `deep` high (its removal runs popLeftMost)
func (m *mirror) twoChildNode(h int, r *core.Rand) (int, bool) {
	n := m.roots[h]
	if n == nil || n.l == nil || n.r == nil {
		return 0, false
	}
	for r.Chance(50) {
		var nx *mnode
		if r.Bool() {
			nx = n.l
		} else {
			nx = n.r
		}
		if nx == nil || nx.l == nil || nx.r == nil {
			break
		}
		n = nx
	}
	return n.v, true
}
func (m *mirror) randomPresent(h int, r *core.Rand) (int, bool) {
	n := m.roots[h]
	if n == nil {
		return 0, false
	}
	for {
		k := r.Intn(3)
		if k == 0 || (n.l == nil && n.r == nil) {
			return n.v, true
		}
		if (k == 1 && n.l != nil) || n.r == nil {
			n = n.l
		} else {
			n = n.r
		}
	}
}

func intCompare(a, b int) int {
	switch {
	case a < b:
		return -1
	case a > b:
		return 1
	}
	return 0
}

// weirdCompare is an arbitrary deterministic function into {-1,0,1}: not
// antisymmetric, not transitive, unrelated to ==. Balance must not depend on it.
func weirdCompare(seed int) func(a, b int) int {
	return func(a, b int) int {
		x := uint64(a)*0x9E3779B97F4A7C15 ^ uint64(b)*0xC2B2AE3D27D4EB4F ^ uint64(seed)*0x165667B19E3779F9
		x ^= x >> 29
		x *= 0xBF58476D1CE4E5B9
		x ^= x >> 32
		return int(x%3) - 1
	}
}

// ---------------------------------------------------------------------------
// running one case

func isMutating(k string) bool { return k == "Add" || k == "Remove" || k == "Clear" || k == "Clone" }

func exec(c *core.Ctx, cs Case) {
	c.Begin(cs)
	c.Count("elem_" + cs.Elem)
	if cs.Elem == "weird" || cs.Elem == "counted" {
		execWeird(c, cs)
		return
	}
	var ts avlh.Trees
	if cs.Elem == "pair" {
		ts = avlh.NewPair()
	} else {
		ts = avlh.NewInt()
	}
	m := newMirror(intCompare)
	outs := make([]avlh.Out, 0, len(cs.Ops))
	failed := false
	maxSize, dup := 0, false
	for i, o := range cs.Ops {
		out := ts.Exec(o)
		outs = append(outs, out)
		m.exec(o)
		c.Count("op_" + o.K)
		switch out.Kind {
		case "panic":
			c.Count("panic_" + out.Panic)
			if !failed {
				failed = true
				c.Fail("panic", fmt.Sprintf("op #%d (%s h=%d v=%d) panicked: %s", i, o.K, o.H, o.V, out.Panic))
			}
			continue
		case "badhandle":
			c.Count("bad_handle")
			continue
		}
		if !isMutating(o.K) {
			continue
		}
		h := o.H
		if o.K == "Clone" {
			h = ts.N() - 1
		}
		n := m.sizes[h]
		if n > maxSize {
			maxSize = n
		}
		// every mutation on small and medium trees; every 16th and the last on big ones
		if n <= 300 || i%16 == 0 || i >= len(cs.Ops)-8 {
			before := c.Stats["oracle_reflect"]
			oracle(c, &failed, ts, h, i, o)
			if c.Stats["oracle_reflect"] != before {
				dup = true
			}
			var mp []int
			mpre(m.roots[h], &mp)
			if pre, _, _, _ := avlh.Walks(ts, h); !core.Eq(pre, mp) {
				c.Count("mirror_shape_differs")
			}
		}
	}
	classify(c, m, maxSize, dup)
	c.Emit(avlh.CoqCase(cs.Ops, outs))
}

func classify(c *core.Ctx, m *mirror, maxSize int, dup bool) {
	names := [4]string{"rotateLeft", "rotateLeftRight", "rotateRight", "rotateRightLeft"}
	ctxs := [3]string{"add", "remove", "popLeftMost"}
	all := true
	for x := 0; x < 3; x++ {
		any := false
		for k := 0; k < 4; k++ {
			if m.rot[x][k] > 0 {
				c.Count("case_with_" + ctxs[x] + "_" + names[k])
				any = true
			} else if x != ctxPop {
				all = false
			}
		}
		if x == ctxPop && !any {
			all = false
		}
	}
	if all {
		c.Nontrivial()
	}
	if dup {
		c.Count("case_with_duplicates")
	}
	switch {
	case maxSize <= 8:
		c.Count("size_le_8")
	case maxSize <= 64:
		c.Count("size_le_64")
	case maxSize <= 512:
		c.Count("size_le_512")
	default:
		c.Count("size_gt_512")
	}
}

// execWeird: one tree built here with a call-counting comparator — the natural
// order ("counted") or an arbitrary function ("weird"); implementation + oracle
// only. Besides balance and depth it checks the cost consequence: Contains, Add
// and Remove call the comparator at most once per level of the tree they start
// from, hence at most 1.4405*log2(n+2) times.
func execWeird(c *core.Ctx, cs Case) {
	base := intCompare
	if cs.Elem == "weird" {
		base = weirdCompare(cs.Seed)
	}
	calls := 0
	cmp := func(a, b int) int { calls++; return base(a, b) }
	t := avl.New(cmp)
	m := newMirror(base)
	failed := false
	maxSize := 0
	levels := 0 // of the current tree; -1 = unknown
	for i, o := range cs.Ops {
		if o.H != 0 {
			continue
		}
		o := o
		calls = 0
		n := t.Len()
		kind := core.Try(func() {
			switch o.K {
			case "Add":
				t.Add(o.V)
			case "Remove":
				t.Remove(o.V)
			case "Contains":
				t.Contains(o.V)
			case "Clear":
				t.Clear()
			}
		})
		c.Count("op_" + o.K)
		if kind != "" {
			if !failed {
				failed = true
				c.Fail("panic", fmt.Sprintf("op #%d (%s v=%d) panicked: %s (comparator %s seed %d)", i, o.K, o.V, kind, cs.Elem, cs.Seed))
			}
			continue
		}
		if levels >= 0 && (o.K == "Add" || o.K == "Remove" || o.K == "Contains") {
			c.Count("cost_checked")
			if calls > c.Stats["max_comparator_calls"] {
				c.Stats["max_comparator_calls"] = calls
			}
			what := ""
			switch {
			case float64(calls) > 1.4405*math.Log2(float64(n+2)):
				what = "more comparator calls than 1.4405*log2(n+2)"
			case calls > levels:
				what = "more comparator calls than levels of the tree (theorem C02_cost allows one per level)"
			}
			if what != "" && !failed {
				failed = true
				c.Fail(what, fmt.Sprintf("op #%d (%s v=%d) made %d comparator calls on a tree of %d nodes and %d levels", i, o.K, o.V, calls, n, levels))
			}
		}
		if !isMutating(o.K) || o.K == "Clone" {
			continue
		}
		m.exec(o)
		if m.sizes[0] > maxSize {
			maxSize = m.sizes[0]
		}
		var pre, in, post []int
		t.WalkPreOrder(func(v int) { pre = append(pre, v) })
		t.WalkInOrder(func(v int) { in = append(in, v) })
		t.WalkPostOrder(func(v int) { post = append(post, v) })
		levels = checkWalks(c, &failed, pre, in, post, &t, i, o)
	}
	classify(c, m, maxSize, false)
	if failed && cs.Elem == "weird" {
		// the same operations under the natural order, as a case of its own (compared with the model too)
		exec(c, Case{Elem: "int", Ops: cs.Ops})
	}
}

// ---------------------------------------------------------------------------
// generators

type gen struct {
	c   *core.Ctx
	m   *mirror
	ops []avlh.Op
}

func newGen(c *core.Ctx) *gen { return &gen{c: c, m: newMirror(intCompare)} }

func (g *gen) op(k string, h, v int) {
	o := avlh.Op{K: k, H: h, V: v}
	g.ops = append(g.ops, o)
	g.m.exec(o)
}
func (g *gen) observe(h int, post bool) {
	g.op("Pre", h, 0)
	g.op("In", h, 0)
	if post {
		g.op("Post", h, 0)
	}
}

func permutations(n int, f func(p []int)) {
	p := make([]int, n)
	for i := range p {
		p[i] = i + 1
	}
	var rec func(k int)
	rec = func(k int) {
		if k == n {
			f(p)
			return
		}
		for i := k; i < n; i++ {
			p[k], p[i] = p[i], p[k]
			rec(k + 1)
			p[k], p[i] = p[i], p[k]
		}
	}
	rec(0)
}

func run(c *core.Ctx) {
	r := c.Rng
	c.ShardSize = 50 // histories are long: small shards keep every coqc run to a few seconds

	// 1. exhaustive: every insertion order of n distinct keys, then every single deletion
	maxN := c.N(6, 7, 7)
	for n := 0; n <= maxN; n++ {
		permutations(n, func(p []int) {
			g := newGen(c)
			for _, v := range p { // the build-up, observed after every Add
				g.op("Add", 0, v)
				g.observe(0, false)
			}
			g.op("Post", 0, 0)
			for d := 1; d <= n; d++ {
				g.op("Clear", 0, 0)
				for _, v := range p {
					g.op("Add", 0, v)
				}
				g.op("Remove", 0, d)
				g.observe(0, d == 1)
			}
			exec(c, Case{Elem: "int", Ops: g.ops})
		})
	}
	c.Exhaustive = true
	c.Note(fmt.Sprintf("exhaustive: all insertion orders of n distinct keys, n in 0..%d, each observed after every Add, then (rebuilt) followed by every single deletion; plus random and structured histories", maxN))

	// 2. small random histories, observed after every mutation (duplicates frequent)
	for i := c.N(500, 12000, 3000); i > 0; i-- {
		g := newGen(c)
		keys := r.Range(1, 14)
		nops := r.Range(3, 40)
		for k := 0; k < nops; k++ {
			g.randomOp(r, keys, 45, true)
		}
		exec(c, Case{Elem: pick(r), Ops: g.ops})
	}

	// 3. medium histories: grow, churn, shrink; observations every few operations
	for i := c.N(160, 3000, 700); i > 0; i-- {
		g := newGen(c)
		keys := r.Range(20, 400)
		if r.Chance(15) {
			keys = r.Range(3, 12) // many duplicates
		}
		target := r.Range(15, 120)
		nops := r.Range(150, 600)
		every := r.Range(8, 40)
		for k := 0; k < nops; k++ {
			pctAdd := 50
			if g.m.sizes[0] < target/2 {
				pctAdd = 80
			} else if g.m.sizes[0] > target {
				pctAdd = 25
			}
			g.randomOp(r, keys, pctAdd, false)
			if k%every == every-1 {
				g.observe(r.Intn(len(g.m.roots)), r.Chance(30))
			}
		}
		g.observe(0, true)
		exec(c, Case{Elem: pick(r), Ops: g.ops})
	}

	// 4. large structured trees: sorted, reverse, organ-pipe, random; then delete-min-heavy / delete-root-heavy
	big := c.N(7, 40, 10)
	for i := 0; i < big; i++ {
		g := newGen(c)
		n := r.Range(600, 1400)
		if i%7 == 0 {
			n = 2000
		}
		order := make([]int, n)
		switch i % 4 {
		case 0: // sorted
			for k := range order {
				order[k] = k
			}
		case 1: // reverse
			for k := range order {
				order[k] = n - k
			}
		case 2: // organ pipe: 0, n-1, 1, n-2, ...
			for k := range order {
				if k%2 == 0 {
					order[k] = k / 2
				} else {
					order[k] = n - 1 - k/2
				}
			}
		default:
			for k := range order {
				order[k] = r.Intn(4 * n)
			}
		}
		for _, v := range order {
			g.op("Add", 0, v)
		}
		g.observe(0, false)
		dels := r.Range(200, 500)
		for k := 0; k < dels; k++ {
			var v int
			var ok bool
			switch x := r.Intn(10); {
			case x < 4:
				v, ok = g.m.min(0)
			case x < 8:
				v, ok = g.m.twoChildNode(0, r)
			default:
				v, ok = g.m.randomPresent(0, r)
			}
			if ok {
				g.op("Remove", 0, v)
			}
			if r.Chance(10) {
				g.op("Add", 0, r.Intn(4*n))
			}
		}
		g.observe(0, true)
		exec(c, Case{Elem: "int", Ops: g.ops})
	}

	// 5. malformed: bad handles, operations on empty and cleared trees, removing absent values
	for i := c.N(60, 600, 200); i > 0; i-- {
		g := newGen(c)
		for k := r.Range(1, 25); k > 0; k-- {
			h := r.Range(-1, len(g.m.roots)+1)
			if h < 0 {
				h = 7
			}
			kinds := []string{"Add", "Remove", "Remove", "Contains", "Len", "Clear", "Clone", "Pre", "In", "Post"}
			kd := kinds[r.Intn(len(kinds))]
			if kd == "Clone" && len(g.m.roots) >= 4 {
				kd = "Remove"
			}
			g.op(kd, h, r.Range(-3, 6))
			if h < len(g.m.roots) && isMutating(kd) {
				g.observe(h, true)
			}
		}
		exec(c, Case{Elem: pick(r), Ops: g.ops})
	}

	// 6. call-counting comparator, natural order or arbitrary (balance must not depend on the order being an order): oracle only
	for i := c.N(240, 4000, 2000); i > 0; i-- {
		g := newGen(c)
		cs := Case{Elem: "counted"}
		if r.Chance(60) {
			cs.Elem = "weird"
			cs.Seed = r.Intn(1 << 30)
			g.m = newMirror(weirdCompare(cs.Seed))
		}
		keys := r.Range(2, 200)
		for k := r.Range(5, 300); k > 0; k-- {
			switch x := r.Intn(100); {
			case x < 55:
				g.op("Add", 0, r.Intn(keys))
			case x < 70:
				g.op("Contains", 0, r.Intn(keys))
			case x < 99:
				if v, ok := g.m.randomPresent(0, r); ok && r.Chance(80) {
					g.op("Remove", 0, v)
				} else {
					g.op("Remove", 0, r.Intn(keys))
				}
			default:
				g.op("Clear", 0, 0)
			}
		}
		cs.Ops = g.ops
		exec(c, cs)
	}
}

func pick(r *core.Rand) string {
	if r.Chance(25) {
		return "pair"
	}
	return "int"
}

// randomOp appends one random operation on a random handle (and, if observeAll, the walks after a mutation).
func (g *gen) randomOp(r *core.Rand, keys, pctAdd int, observeAll bool) {
	h := r.Intn(len(g.m.roots))
	if r.Chance(70) {
		h = 0
	}
	x := r.Intn(100)
	mut := true
	switch {
	case x < 3 && len(g.m.roots) < 3:
		g.op("Clone", h, 0)
		h = len(g.m.roots) - 1
	case x < 4:
		g.op("Clear", h, 0)
	case x < 7:
		g.op("Contains", h, r.Intn(keys))
		mut = false
	case x < 9:
		g.op("Len", h, 0)
		mut = false
	case r.Chance(pctAdd):
		g.op("Add", h, r.Intn(keys))
	default:
		var v int
		var ok bool
		switch y := r.Intn(10); {
		case y < 3:
			v, ok = g.m.min(h)
		case y < 7:
			v, ok = g.m.twoChildNode(h, r)
		case y < 9:
			v, ok = g.m.randomPresent(h, r)
		}
		if !ok {
			v = r.Intn(keys)
		}
		g.op("Remove", h, v)
	}
	if mut && observeAll {
		g.observe(h, r.Chance(50))
	}
}
