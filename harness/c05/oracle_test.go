package c05

// Self-test of the set linearizability checker on hand-made histories (no sync2.Set involved): run with
//   cd /verif/harness && go test -modfile /verif/work/go-C05.mod -tags verif ./c05

import "testing"

func TestLinSet(t *testing.T) {
	op := func(first, last int, kind string, v int, ok bool) sop {
		return sop{first: first, last: last, kind: kind, v: v, ok: ok, comp: -1}
	}
	// the possible element operations of the comp-th composite call over values 0..2
	wild := func(first, last int, kind string, comp int) []sop {
		var out []sop
		for v := 0; v < 3; v++ {
			out = append(out, sop{first: first, last: last, kind: kind, v: v, comp: comp})
		}
		return out
	}
	fin := func(at int, members ...int) []sop {
		var out []sop
		for v := 0; v < 3; v++ {
			in := false
			for _, m := range members {
				in = in || m == v
			}
			out = append(out, op(at, at, "Has", v, in))
		}
		return out
	}
	cat := func(parts ...[]sop) []sop {
		var out []sop
		for _, p := range parts {
			out = append(out, p...)
		}
		return out
	}
	tests := []struct {
		name string
		ops  []sop
		need []int
		want bool
	}{
		{"add then has", cat([]sop{op(0, 2, "Add", 0, true), op(3, 4, "Has", 0, true)}, fin(9, 0)), nil, true},
		{"has misses a stably present value", cat([]sop{op(0, 2, "Add", 0, true), op(3, 4, "Has", 0, false)}, fin(9, 0)), nil, false},
		{"has reports a value never added", cat([]sop{op(0, 2, "Has", 1, true)}, fin(9)), nil, false},
		{"two overlapping adds both succeed", cat([]sop{op(0, 4, "Add", 0, true), op(1, 5, "Add", 0, true)}, fin(9, 0)), nil, false},
		{"two overlapping adds, one succeeds", cat([]sop{op(0, 4, "Add", 0, true), op(1, 5, "Add", 0, false)}, fin(9, 0)), nil, true},
		{"sequential adds, the SECOND succeeds (not consistent with real time)", cat([]sop{op(0, 2, "Add", 0, false), op(3, 5, "Add", 0, true)}, fin(9, 0)), nil, false},
		{"two successful adds with an overlapping successful remove", cat([]sop{op(0, 2, "Add", 0, true), op(3, 9, "Remove", 0, true), op(4, 8, "Add", 0, true)}, fin(12, 0)), nil, true},
		{"same, but the set ends empty", cat([]sop{op(0, 2, "Add", 0, true), op(3, 9, "Remove", 0, true), op(4, 8, "Add", 0, true)}, fin(12)), nil, false},
		// AddSet into the set
		{"addset adds 2, final has them", cat(wild(0, 9, "Add", 0), fin(12, 0, 2)), []int{2}, true},
		{"addset reports 2, final has 1", cat(wild(0, 9, "Add", 0), fin(12, 0)), []int{2}, false},
		{"addset reports 1 but two new members", cat(wild(0, 9, "Add", 0), fin(12, 0, 1)), []int{1}, false},
		{"addset and an overlapping add of the same value both count it", cat(wild(0, 9, "Add", 0), []sop{op(2, 5, "Add", 1, true)}, fin(12, 1)), []int{1}, false},
		{"addset and an overlapping add/remove: both adds can count", cat(wild(0, 9, "Add", 0), []sop{op(2, 3, "Add", 1, true), op(4, 5, "Remove", 1, true)}, fin(12, 1)), []int{1}, true},
		{"addset's success cannot come after a later call", cat(wild(0, 3, "Add", 0), []sop{op(5, 6, "Has", 1, false)}, fin(12, 1)), []int{1}, false},
		{"has during the addset may see the value or not", cat(wild(0, 9, "Add", 0), []sop{op(2, 3, "Has", 1, false), op(5, 6, "Has", 1, true)}, fin(12, 1)), []int{1}, true},
		{"has sees the value, then not, with no remove", cat(wild(0, 9, "Add", 0), []sop{op(2, 3, "Has", 1, true), op(5, 6, "Has", 1, false)}, fin(12, 1)), []int{1}, false},
		{"removeset removes 1 of 2", cat([]sop{op(0, 1, "Add", 0, true), op(2, 3, "Add", 1, true)}, wild(4, 9, "Remove", 0), fin(12, 1)), []int{1}, true},
		{"removeset reports 0 but a member is gone", cat([]sop{op(0, 1, "Add", 0, true), op(2, 3, "Add", 1, true)}, wild(4, 9, "Remove", 0), fin(12, 1)), []int{0}, false},
		{"removeset before the add cannot remove it", cat(wild(0, 3, "Remove", 0), []sop{op(5, 6, "Add", 0, true)}, fin(12)), []int{1}, false},
		{"two composite calls, counts 1 and 1", cat([]sop{op(0, 1, "Add", 0, true)}, wild(2, 9, "Remove", 0), wild(3, 8, "Add", 1), fin(12, 0)), []int{1, 1}, true},
		{"two composite calls, counts 1 and 1, value ends absent", cat([]sop{op(0, 1, "Add", 0, true)}, wild(2, 5, "Remove", 0), wild(6, 8, "Add", 1), fin(12)), []int{1, 1}, false},
	}
	for _, tc := range tests {
		if got := linSet(tc.ops, tc.need); got != tc.want {
			t.Errorf("%s: linSet = %v, want %v", tc.name, got, tc.want)
		}
	}
}
