// Package c05: sync2.Set is an atomic set under concurrent use — controlled
// schedules, trace validation against the Coq model and a per-value
// linearizability/alternation oracle.
package c05

import (
	"encoding/json"
	"fmt"
	"sort"
	"strings"
	"sync"

	"gopkg.in/typ.v4/sync2"
	"verif/harness/core"
	"verif/harness/sched"
)

type CallSpec struct {
	Op  string `json:"op"` // Add Remove Has Len AddSet RemoveSet
	S   int    `json:"s"`  // receiver set (0 or 1)
	V   int    `json:"v,omitempty"`
	Arg int    `json:"arg,omitempty"` // argument set of AddSet/RemoveSet
}

type Case struct {
	Prefix  []CallSpec   `json:"prefix"`
	Progs   [][]CallSpec `json:"progs"`
	Choices []int        `json:"choices"`
	Kind    string       `json:"kind"`
}

func init() {
	core.Register(&core.Prop{ID: "C05", Module: "SyncMap.Check", Run: run, Replay: replay})
}

func replay(c *core.Ctx, raw json.RawMessage) error {
	var cs Case
	if err := json.Unmarshal(raw, &cs); err != nil {
		return err
	}
	r, info := execute(cs, sched.Prefix(cs.Choices))
	report(c, cs, r, info)
	return nil
}

type callInfo struct {
	spec  CallSpec
	endAt int
	b     bool
	n     int
}
type runInfo struct {
	calls    [][]*callInfo
	final    [2][]int
	finalLen [2]int // Len() of each set after the run, at quiescence
}

func coqCall(s CallSpec) string {
	switch s.Op {
	case "Add":
		return fmt.Sprintf("CLoadOrStore %d %s 0 PNone", s.S, core.Z(s.V))
	case "Remove":
		return fmt.Sprintf("CLoadAndDelete %d %s", s.S, core.Z(s.V))
	case "Has":
		return fmt.Sprintf("CLoad %d %s", s.S, core.Z(s.V))
	case "Len":
		return fmt.Sprintf("CRange %d (CbStop None)", s.S)
	case "AddSet":
		return fmt.Sprintf("CRange %d (CbAdd %d)", s.Arg, s.S)
	case "RemoveSet":
		return fmt.Sprintf("CRange %d (CbRemove %d)", s.Arg, s.S)
	}
	panic("bad op")
}

func execute(cs Case, choose sched.Chooser) (sched.Result, *runInfo) {
	sets := [2]*sync2.Set[int]{{}, {}}
	info := &runInfo{calls: make([][]*callInfo, len(cs.Progs))}
	threads := make([]sched.Thread, len(cs.Progs))
	for t, prog := range cs.Progs {
		full := prog
		if t == 0 {
			full = append(append([]CallSpec{}, cs.Prefix...), prog...)
		}
		for _, spec := range full {
			spec := spec
			ci := &callInfo{spec: spec}
			info.calls[t] = append(info.calls[t], ci)
			threads[t].Calls = append(threads[t].Calls, func() string {
				var out string
				s := sets[spec.S]
				switch spec.Op {
				case "Add":
					ci.b = s.Add(spec.V)
					out = "RLos 0 " + core.Bool(!ci.b)
				case "Remove":
					ci.b = s.Remove(spec.V)
					out = "ROpt " + core.Opt(ci.b, "0")
				case "Has":
					ci.b = s.Has(spec.V)
					out = "ROpt " + core.Opt(ci.b, "0")
				case "Len":
					ci.n = s.Len()
					out = fmt.Sprintf("RCount %d", ci.n)
				case "AddSet":
					ci.n = s.AddSet(sets[spec.Arg])
					out = fmt.Sprintf("RCount %d", ci.n)
				case "RemoveSet":
					ci.n = s.RemoveSet(sets[spec.Arg])
					out = fmt.Sprintf("RCount %d", ci.n)
				}
				ci.endAt = sched.StepsSoFar()
				return out
			})
		}
	}
	r := sched.Run(threads, choose, 6000)
	if r.Panic != "" || r.Deadlock {
		return r, info // goroutines may be parked inside a set (holding its m.mu): Slice() -> Range could block on it for real
	}
	for i := range sets {
		info.final[i] = sets[i].Slice()
		sort.Ints(info.final[i])
		info.finalLen[i] = sets[i].Len()
	}
	return r, info
}

// all explored schedules are checked by the oracle; one in emitEvery of the passing ones also goes to the Coq model,
// and so does every run that contains a coverage feature (a model label, or a label-to-label transition inside a
// call) which fewer than coverK model-replayed cases contain so far
var emitEvery = 1
var emitCount int

// ---- label coverage of the model replay (audit item H5/H1) ----

// setLabels: the labels of SyncMap/Model.v that a sync2.Set program can execute: Add = LoadOrStore, Remove =
// LoadAndDelete, Has = Load, Len/AddSet/RemoveSet = Range (with nested calls). Store is never called, so the
// Store_*, TryStore_* and StoreLocked labels are not reachable, nor are the keyed-mutex labels.
var setLabels = []string{
	"Load_read1", "Load_lock", "Load_read2", "Load_unlock", "E_load",
	"Unexpunge_cas",
	"LOS_read1", "LOS_lock", "LOS_read2", "LOS_amend", "LOS_unlock",
	"Tlos_load1", "Tlos_cas", "Tlos_load2",
	"LAD_read1", "LAD_lock", "LAD_read2", "LAD_unlock", "Delete_load", "Delete_cas",
	"Range_read1", "Range_lock", "Range_read2", "Range_promote", "Range_unlock", "Range_iter",
	"Miss_store", "Dirty_read", "Dirty_iter", "Expunge_load1", "Expunge_cas", "Expunge_load2",
}

// branches: transitions (consecutive labels of one goroutine inside one call) that show a failed CAS or a further
// iteration of a CAS loop, and a nested call made from a Range callback (AddSet / RemoveSet)
var branches = [][2]string{
	{"cas_retry_delete", "Delete_cas>Delete_load"},
	{"cas_fail_tlos", "Tlos_cas>Tlos_load2"},
	{"cas_loop_tlos", "Tlos_load2>Tlos_cas"},
	{"cas_fail_expunge", "Expunge_cas>Expunge_load2"},
	{"cas_loop_expunge", "Expunge_load2>Expunge_cas"},
	{"nested_add", "E_load>>LOS_read1"},
	{"nested_remove", "E_load>>LAD_read1"},
}

const coverK = 5 // every feature is replayed on the model in at least its first coverK runs

type coverage struct {
	executed map[string]int // feature -> runs of the real code containing it
	replayed map[string]int // feature -> runs sent to the Coq model containing it
}

var cov = coverage{map[string]int{}, map[string]int{}}

// features of a run: every label; every transition a>b between consecutive steps of one goroutine where b is not the
// first label of a call; and a>>b where b is the first label of a call and a is the E_load of a Range iteration (the
// call is then a nested Add / Remove made by an AddSet / RemoveSet callback).
func features(steps []sched.Step, topStart map[int]bool) []string {
	set := map[string]bool{}
	last := map[int]string{}
	for i, s := range steps {
		set[s.Label] = true
		if p, ok := last[s.T]; ok && !topStart[i] {
			if !strings.HasSuffix(s.Label, "_read1") {
				set[p+">"+s.Label] = true
			} else {
				set[p+">>"+s.Label] = true
			}
		}
		last[s.T] = s.Label
	}
	out := make([]string, 0, len(set))
	for f := range set {
		out = append(out, f)
	}
	sort.Strings(out)
	return out
}

// coverageReport writes the table into the statistics (label_<name> = number of model-replayed cases that contain
// the label) and names what was never reached.
func coverageReport(c *core.Ctx, labels []string) {
	var neverRun, neverReplayed []string
	labelsReplayed := 0
	for _, l := range labels {
		c.Stats["label_"+l] = cov.replayed[l]
		if cov.executed[l] == 0 {
			neverRun = append(neverRun, l)
		} else if cov.replayed[l] == 0 {
			neverReplayed = append(neverReplayed, l)
		} else {
			labelsReplayed++
		}
	}
	for _, b := range branches {
		c.Stats["branch_"+b[0]] = cov.replayed[b[1]]
		c.Stats["branch_"+b[0]+"_runs"] = cov.executed[b[1]]
		if cov.executed[b[1]] == 0 {
			neverRun = append(neverRun, b[0])
		} else if cov.replayed[b[1]] == 0 {
			neverReplayed = append(neverReplayed, b[0])
		}
	}
	trans, transReplayed := 0, 0
	var transOnlyRun []string
	for f, n := range cov.executed {
		if !strings.Contains(f, ">") || n == 0 {
			continue
		}
		trans++
		if cov.replayed[f] > 0 {
			transReplayed++
		} else {
			transOnlyRun = append(transOnlyRun, f)
		}
	}
	sort.Strings(transOnlyRun)
	c.Stats["transitions_executed"] = trans
	c.Stats["transitions_replayed_on_model"] = transReplayed
	var foreign []string
	known := map[string]bool{}
	for _, l := range labels {
		known[l] = true
	}
	for f := range cov.executed {
		if !strings.Contains(f, ">") && !known[f] {
			foreign = append(foreign, f)
		}
	}
	sort.Strings(foreign)
	if c.NoModel {
		c.Note(fmt.Sprintf("label coverage (tier %s, no model replay): %d of %d model labels executed by the real code; never executed: %v",
			c.Tier, labelsReplayed+len(neverReplayed), len(labels), neverRun))
		return
	}
	c.Note(fmt.Sprintf("label coverage of the model replay: %d of the %d model labels a Set program can reach and %d of %d executed in-call label transitions occur in a model-replayed case "+
		"(each in at least min(%d, number of runs containing it) replayed cases); never executed by the real code: %v; "+
		"executed but never replayed on the model: labels/branches %v, transitions %v; labels executed that a Set program was not expected to reach: %v",
		labelsReplayed, len(labels), transReplayed, trans, coverK, neverRun, neverReplayed, transOnlyRun, foreign))
}

func report(c *core.Ctx, cs Case, r sched.Result, info *runInfo) {
	cs.Choices = r.Chosen
	c.Begin(cs)
	c.Count("kind_" + cs.Kind)
	c.CountN("steps", len(r.Steps))
	pre := 0
	for i := 1; i < len(r.Chosen); i++ {
		if r.Chosen[i] != r.Chosen[i-1] {
			for _, e := range r.Enabled[i] {
				if e == r.Chosen[i-1] {
					pre++
				}
			}
		}
	}
	c.CountN("preemptions", pre)
	if len(cs.Progs) > 1 && pre > 0 {
		c.Nontrivial()
	}
	failedNow := true
	if r.Panic != "" {
		c.Fail("panic or runaway schedule in sync2.Set", r.Panic)
	} else if r.Deadlock {
		c.Fail("deadlock in sync2.Set", fmt.Sprint(r.Steps))
	} else if msg := oracle(c, cs, r, info); msg != "" {
		c.Fail(msg, describe(info))
	} else {
		failedNow = false
	}
	topStart := map[int]bool{}
	for _, iv := range intervals(r, info) {
		topStart[iv[0]] = true
	}
	feats := features(r.Steps, topStart)
	rare := false
	for _, f := range feats {
		cov.executed[f]++
		if cov.replayed[f] < coverK {
			rare = true
		}
	}
	rare = rare && !c.NoModel
	emitCount++
	sampled := emitEvery <= 1 || emitCount%emitEvery == 0
	if !sampled && !failedNow && !rare {
		c.Count("explored_oracle_only")
		return
	}
	if !sampled && !failedNow {
		c.Count("replayed_for_label_coverage")
	}
	if !c.NoModel {
		for _, f := range feats {
			cov.replayed[f]++
		}
	}
	progs := make([]string, len(cs.Progs))
	results := make([]string, len(cs.Progs))
	for t := range cs.Progs {
		var a []string
		for _, ci := range info.calls[t] {
			a = append(a, coqCall(ci.spec))
		}
		progs[t] = core.List(a)
		results[t] = core.List(r.Results[t])
	}
	fin := make([]string, 2)
	for i := range fin {
		ps := make([]string, len(info.final[i]))
		for j, v := range info.final[i] {
			ps[j] = core.Pair(core.Z(v), "0")
		}
		fin[i] = core.List(ps)
	}
	c.Emit(fmt.Sprintf("%s 2 %s %s %s %s %s%s", caseCtor, core.List(progs), sched.CoqSteps(r.Steps), core.List(results),
		core.Bool(r.Deadlock), core.List(fin), caseTail))
}

// The Coq case constructor (SyncMap/Check.v): `CaseZ` = the six fields of `Case` and a seventh, "the stored values are
// zero-size" - true for a Set, whose values are struct{}{}: all of them share one address, so a CompareAndSwap from a
// stale pointer to such a value succeeds (Model.cas_ok).
const caseCtor, caseTail = "CaseZ", " true"

func describe(info *runInfo) string {
	s := ""
	for t, cs := range info.calls {
		for _, ci := range cs {
			s += fmt.Sprintf("t%d %s(set%d,%d,arg%d)=>(%v,%d); ", t, ci.spec.Op, ci.spec.S, ci.spec.V, ci.spec.Arg, ci.b, ci.n)
		}
	}
	return s + fmt.Sprintf("final=%v", info.final)
}

// intervals: per call (in the order of info.calls, thread by thread) the indices of its first and last atomic step:
// the k-th call of thread t owns t's steps between the previous call's end and its own end. {-1,-1} = no step.
func intervals(r sched.Result, info *runInfo) [][2]int {
	var out [][2]int
	for t, calls := range info.calls {
		prevEnd := 0
		for _, ci := range calls {
			first, last := -1, -1
			for i := prevEnd; i < ci.endAt && i < len(r.Steps); i++ {
				if r.Steps[i].T == t {
					if first < 0 {
						first = i
					}
					last = i
				}
			}
			prevEnd = ci.endAt
			out = append(out, [2]int{first, last})
		}
	}
	return out
}

// ---- linearizability of one Set's history, with the element operations of AddSet / RemoveSet ----

// sop is one operation on one set. comp < 0: a completed Add / Remove / Has call with its result ok. comp >= 0: an
// element operation that the comp-th AddSet / RemoveSet call of this set MAY have made on value v (kind Add or
// Remove) somewhere inside that call's interval: whether it was made and what it reported is not observable, only
// the number of successes of the whole call is.
type sop struct {
	first, last int
	kind        string
	v           int
	ok          bool
	comp        int
}

type linKey struct {
	m0, m1 uint64
	st     uint64
}

const linMaxOps = 128

// linSet: is there a linearization of ops - every completed call at one instant inside its interval, each possible
// element operation of a composite call either not made (or made without success, which changes nothing) or made
// with success at one instant inside the composite call's interval, exactly need[comp] successes per composite call -
// that is a legal history of a sequential set starting empty? (Values are 0..63.)
func linSet(ops []sop, need []int) bool {
	if len(ops) > linMaxOps {
		panic("linSet: history too long")
	}
	var done [2]uint64
	var st uint64
	count := make([]int, len(need))
	seen := map[linKey]bool{}
	isDone := func(i int) bool { return done[i>>6]&(1<<uint(i&63)) != 0 }
	var rec func() bool
	rec = func() bool {
		minLast, pending := int(^uint(0)>>1), false
		maxFirstDone := -1
		for i, o := range ops {
			if isDone(i) {
				if o.first > maxFirstDone {
					maxFirstDone = o.first
				}
			} else if o.comp < 0 {
				pending = true
				if o.last < minLast {
					minLast = o.last
				}
			}
		}
		if !pending {
			for i := range need {
				if count[i] != need[i] {
					return false
				}
			}
			return true
		}
		k := linKey{done[0], done[1], st}
		if seen[k] {
			return false
		}
		seen[k] = true
		for i, o := range ops {
			if isDone(i) || o.first > minLast {
				continue
			}
			bit := uint64(1) << uint(o.v)
			present := st&bit != 0
			old := st
			if o.comp < 0 {
				switch o.kind {
				case "Add":
					if o.ok == present {
						continue
					}
					st |= bit
				case "Remove":
					if o.ok != present {
						continue
					}
					st &^= bit
				default: // Has
					if o.ok != present {
						continue
					}
				}
			} else {
				// a possible element operation: only its success is an event; it must lie inside the composite call's
				// interval, so it cannot come after an operation that began after that call's last step
				if o.last < maxFirstDone || count[o.comp] >= need[o.comp] || (o.kind == "Add") == present {
					continue
				}
				st ^= bit
				count[o.comp]++
			}
			done[i>>6] |= 1 << uint(i&63)
			if rec() {
				return true
			}
			done[i>>6] &^= 1 << uint(i&63)
			st = old
			if o.comp >= 0 {
				count[o.comp]--
			}
		}
		return false
	}
	return rec()
}

// oracle: the property on the observed history, per set.
// (1) conservation: successful Adds - successful Removes + counts of AddSets - counts of RemoveSets = final size.
// (2) the history of the set - its Add / Remove / Has calls, one Has per value after the end (the final contents), and,
// for every AddSet / RemoveSet call INTO this set, one possible element operation per value of the case's universe -
// must be linearizable to a sequential set (linSet): successful Adds and Removes of each value (those of the composite
// calls included, however their counts are attributed to values) alternate starting with an Add consistently with
// real time, Has agrees with them, and the counts of the composite calls are exactly met. A set that is only an
// ARGUMENT of composite calls is just iterated by them, so its own history is checked like that of any other set.
// (3) Len is between 0 and the number of values of the universe.
func oracle(c *core.Ctx, cs Case, r sched.Result, info *runInfo) string {
	ivs := intervals(r, info)
	var ops [2][]sop
	var need [2][]int
	adds, removes := [2]int{}, [2]int{}
	universe := map[int]bool{}
	for _, calls := range info.calls {
		for _, ci := range calls {
			if ci.spec.Op == "Add" || ci.spec.Op == "Remove" || ci.spec.Op == "Has" {
				universe[ci.spec.V] = true
			}
		}
	}
	for s := 0; s < 2; s++ {
		for _, v := range info.final[s] {
			universe[v] = true
		}
	}
	var values []int
	for v := range universe {
		if v < 0 || v > 63 {
			c.Unobservable("C05 oracle: value outside 0..63")
			return ""
		}
		values = append(values, v)
	}
	sort.Ints(values)
	idx := 0
	for t, calls := range info.calls {
		for _, ci := range calls {
			first, last := ivs[idx][0], ivs[idx][1]
			idx++
			if first < 0 {
				return fmt.Sprintf("call %s of thread %d took no atomic step", ci.spec.Op, t)
			}
			s := ci.spec.S
			switch ci.spec.Op {
			case "Add", "Remove", "Has":
				ops[s] = append(ops[s], sop{first: first, last: last, kind: ci.spec.Op, v: ci.spec.V, ok: ci.b, comp: -1})
				if ci.b && ci.spec.Op == "Add" {
					adds[s]++
				}
				if ci.b && ci.spec.Op == "Remove" {
					removes[s]++
				}
			case "AddSet", "RemoveSet":
				if ci.n < 0 {
					return ci.spec.Op + " returned a negative count"
				}
				kind := "Add"
				if ci.spec.Op == "AddSet" {
					adds[s] += ci.n
				} else {
					removes[s] += ci.n
					kind = "Remove"
				}
				if ci.n > len(values) {
					return fmt.Sprintf("%s returned %d, more than the %d values that exist in this run", ci.spec.Op, ci.n, len(values))
				}
				for _, v := range values {
					ops[s] = append(ops[s], sop{first: first, last: last, kind: kind, v: v, comp: len(need[s])})
				}
				need[s] = append(need[s], ci.n)
			case "Len":
				if ci.n < 0 || ci.n > len(values) {
					return fmt.Sprintf("Len returned %d; the run has %d values", ci.n, len(values))
				}
			}
		}
	}
	end := len(r.Steps) + 1
	for s := 0; s < 2; s++ {
		// at quiescence Len is the number of members (C05_set_counts_quiescent / C05_len_constant)
		if info.finalLen[s] != len(info.final[s]) {
			return fmt.Sprintf("set %d: Len() = %d at quiescence, the set has %d members", s, info.finalLen[s], len(info.final[s]))
		}
		// conservation: successful adds - successful removes = final size (counts of AddSet/RemoveSet included)
		if adds[s]-removes[s] != len(info.final[s]) {
			return fmt.Sprintf("set %d: %d successful adds - %d successful removes != final size %d", s, adds[s], removes[s], len(info.final[s]))
		}
	}
	for s := 0; s < 2; s++ {
		all := append([]sop{}, ops[s]...)
		for _, v := range values {
			all = append(all, sop{first: end, last: end, kind: "Has", v: v, ok: has(info.final[s], v), comp: -1})
		}
		if len(all) > linMaxOps {
			// never with the generators of run(): at most 7 set-up calls + 12 calls (12 x 6 possible element operations if all are composite) + 6 values
			c.Count("lin_unchecked_history_too_long")
			c.Unobservable("C05 linearizability oracle: history of more than 128 operations, not checked")
			continue
		}
		if len(need[s]) > 0 {
			c.Count("lin_checked_sets_receiving_addset_removeset")
		} else {
			c.Count("lin_checked_sets_plain")
		}
		if !linSet(all, need[s]) {
			if len(need[s]) > 0 {
				return fmt.Sprintf("set %d: no linearization: the Add/Remove/Has results, the counts of the AddSet/RemoveSet calls into this set (attributed to values in any way) and the final contents are not those of one atomic set", s)
			}
			return fmt.Sprintf("set %d: Add/Remove/Has history is not linearizable to a set (successful Adds and Removes of some value do not alternate consistently with real time)", s)
		}
	}
	return ""
}

func layout(which int) []CallSpec { return layoutOn(0, which) }

// layoutOn puts set s into one of six internal states of its map
func layoutOn(s, which int) []CallSpec {
	A := func(v int) CallSpec { return CallSpec{Op: "Add", S: s, V: v} }
	R := func(v int) CallSpec { return CallSpec{Op: "Remove", S: s, V: v} }
	H := func(v int) CallSpec { return CallSpec{Op: "Has", S: s, V: v} }
	L := CallSpec{Op: "Len", S: s}
	switch which {
	case 0:
		return nil
	case 1:
		return []CallSpec{A(0), L} // 0 in read map
	case 2:
		return []CallSpec{A(0), L, A(1)} // 1 only in dirty
	case 3:
		return []CallSpec{A(0), A(1), L, R(0)} // nil entry
	case 4:
		return []CallSpec{A(0), A(1), L, R(0), A(2)} // expunged entry for 0
	default:
		return []CallSpec{A(0), L, A(1), A(2), H(1)} // one miss before promotion
	}
}

// explore enumerates, breadth-first by number of pre-emptions, the schedules of the concurrent part (the set-up
// prefix runs alone first).
//
// A schedule is explored by re-running the program along a prefix of thread choices taken from an earlier run and
// deviating at its end. The runs are not deterministic, though: dirtyLocked and Range iterate a Go map, whose order
// the runtime randomises on every iteration, so the re-run may process the keys in another order and the deviation
// would then land at a different point (and the point aimed at would never be visited). Therefore every run records,
// for each of its prefixes, a signature of the steps (goroutine, label, key) executed so far, and a re-run that does
// not reproduce the signature of the prefix it was derived from is repeated (a fresh iteration order each time) until
// it does, at most exploreTries times.
const exploreTries = 40

func explore(c *core.Ctx, cs Case, maxPre, limit int) int {
	r0, _ := execute(Case{Prefix: cs.Prefix, Progs: [][]CallSpec{{}}}, sched.NonPreemptive)
	base := r0.Chosen
	sigs := map[uint64]uint64{} // hash of a prefix of choices -> hash of the steps executed along it (set-up excluded)
	const off, prime = 14695981039346656037, 1099511628211
	mix := func(h uint64, x int) uint64 { return (h ^ uint64(x+1)) * prime }
	stepSig := func(h uint64, s sched.Step) uint64 {
		h = mix(h, s.T)
		for i := 0; i < len(s.Label); i++ {
			h = mix(h, int(s.Label[i]))
		}
		return mix(h, s.Key)
	}
	return sched.ExploreBFS(func(prefix []int) sched.Result {
		var want uint64
		have := false
		if len(prefix) > len(base) {
			hc := uint64(off)
			for _, t := range prefix[:len(prefix)-1] {
				hc = mix(hc, t)
			}
			want, have = sigs[hc]
		}
		var r sched.Result
		var info *runInfo
		for try := 1; ; try++ {
			pc := cs
			pc.Choices = prefix
			c.Pending(pc) // if the run kills the process, this is the failing input
			r, info = execute(cs, sched.Prefix(prefix))
			if !have {
				break
			}
			hs := uint64(off)
			for j := len(base); j < len(prefix)-1 && j < len(r.Steps); j++ {
				hs = stepSig(hs, r.Steps[j])
			}
			if hs == want {
				break
			}
			if try >= exploreTries {
				c.Count("explore_runs_that_did_not_reproduce_their_prefix")
				break
			}
			c.Count("explore_reruns_for_map_iteration_order")
		}
		report(c, cs, r, info)
		hc, hs := uint64(off), uint64(off)
		for j := 0; j < len(r.Steps) && j < len(r.Chosen); j++ {
			if j >= len(base) {
				sigs[hc] = hs // the steps before step j, for children that deviate at step j
				hs = stepSig(hs, r.Steps[j])
			}
			hc = mix(hc, r.Chosen[j])
		}
		return r
	}, base, maxPre, limit, func(sched.Result) {})
}

func has(s []int, x int) bool {
	for _, v := range s {
		if v == x {
			return true
		}
	}
	return false
}

// stress: uncontrolled goroutines on two sets, for the race-detector build (tier "race").
func stress(c *core.Ctx) {
	for round := 0; round < 12; round++ {
		c.Begin(Case{Kind: "race-stress"})
		sets := [2]*sync2.Set[int]{{}, {}}
		var wg sync.WaitGroup
		for g := 0; g < 8; g++ {
			wg.Add(1)
			rng := core.NewRand(c.Seed*1000 + uint64(round*16+g))
			go func() {
				defer wg.Done()
				for i := 0; i < 800; i++ {
					s, v := sets[rng.Intn(2)], rng.Intn(3)
					switch rng.Intn(8) {
					case 0, 1:
						s.Add(v)
					case 2, 3:
						s.Remove(v)
					case 4:
						s.Has(v)
					case 5:
						s.Len()
					case 6:
						s.AddSet(sets[rng.Intn(2)])
					default:
						s.RemoveSet(sets[rng.Intn(2)])
					}
				}
			}()
		}
		wg.Wait()
		c.Count("race_stress_rounds")
	}
}

func run(c *core.Ctx) {
	if c.Tier == "race" {
		stress(c)
		return
	}
	mk := func(op string, v int) CallSpec { return CallSpec{Op: op, V: v} }
	// 1. all schedules with <= P pre-emptions of two-thread programs on one value, over internal layouts
	var battery [][2][]CallSpec
	for _, a := range []string{"Add", "Remove", "Has"} {
		for _, b := range []string{"Add", "Remove", "Has", "Len"} {
			battery = append(battery, [2][]CallSpec{{mk(a, 0)}, {mk(b, 0)}})
			battery = append(battery, [2][]CallSpec{{mk(a, 2)}, {mk(b, 2), mk("Has", 0)}})
		}
	}
	battery = append(battery, [2][]CallSpec{{{Op: "AddSet", S: 0, Arg: 1}}, {mk("Remove", 0)}})
	battery = append(battery, [2][]CallSpec{{{Op: "RemoveSet", S: 0, Arg: 0}}, {mk("Add", 1)}})
	// AddSet / RemoveSet into set 0 (from set 1 = {0,3}) racing with a plain Add / Remove of the same value of set 0, and
	// with another AddSet / RemoveSet into set 0: an element is counted by exactly one of the overlapping calls
	comp := func(op string) CallSpec { return CallSpec{Op: op, S: 0, Arg: 1} }
	for _, a := range []string{"AddSet", "RemoveSet"} {
		for _, b := range []CallSpec{mk("Add", 0), mk("Remove", 0), comp("AddSet"), comp("RemoveSet")} {
			battery = append(battery, [2][]CallSpec{{comp(a)}, {b, mk("Has", 0)}})
		}
	}
	// more programs: a racing pair followed by calls that promote the dirty map and re-observe
	for _, a := range []string{"Add", "Remove"} {
		for _, v := range []int{0, 1} {
			battery = append(battery, [2][]CallSpec{{mk("Add", 2)}, {mk(a, v), mk("Len", 0), mk("Has", v)}})
			battery = append(battery, [2][]CallSpec{{mk("Add", 2), mk("Len", 0)}, {mk(a, v), mk("Has", v), mk("Add", v)}})
		}
	}
	// the argument set of AddSet / RemoveSet is mutated by the other goroutine while it is being iterated: set 1 is
	// put into each internal layout (values 0,1,2), set 0 holds 0 and 1; the second goroutine adds / removes members of
	// set 1 (a present value, a removed one, a new one) and then observes set 0
	type argProg struct {
		a, b []CallSpec
	}
	var argBattery []argProg
	for _, comp := range []string{"AddSet", "RemoveSet"} {
		for _, m := range []CallSpec{{Op: "Add", S: 1, V: 0}, {Op: "Remove", S: 1, V: 0}, {Op: "Add", S: 1, V: 4}, {Op: "Remove", S: 1, V: 1}} {
			argBattery = append(argBattery, argProg{[]CallSpec{{Op: comp, S: 0, Arg: 1}}, []CallSpec{m, {Op: "Has", S: 0, V: m.V}}})
		}
		// ... and both at once: the receiver is changed and the argument is changed
		argBattery = append(argBattery, argProg{[]CallSpec{{Op: comp, S: 0, Arg: 1}}, []CallSpec{{Op: "Remove", S: 1, V: 1}, {Op: "Add", S: 0, V: 2}}})
	}
	maxPre := c.N(2, 3, 2)
	limit := c.N(1000, 1500, 600) // a cap only: the largest <= 2 pre-emption space of the battery has about 630 schedules
	emitEvery, emitCount = c.N(40, 40, 1), 0
	exploreCounted := func(cs Case, limit int) {
		c.Count("explore_programs")
		n := explore(c, cs, maxPre, limit)
		if n > c.Stats["explore_max_schedules_of_one_program"] {
			c.Stats["explore_max_schedules_of_one_program"] = n
		}
		if n >= limit {
			c.Count("explore_programs_cut_at_limit") // the <= maxPre pre-emption space of this program was NOT enumerated completely
		}
	}
	for _, b := range battery {
		for lay := 0; lay < 6; lay++ {
			cs := Case{Prefix: layout(lay), Progs: [][]CallSpec{b[0], b[1]}, Kind: fmt.Sprintf("explore_l%d", lay)}
			if b[0][0].Op == "AddSet" || b[0][0].Op == "RemoveSet" { // give set 1 some contents for AddSet
				cs.Prefix = append(append([]CallSpec{}, cs.Prefix...), CallSpec{Op: "Add", S: 1, V: 0}, CallSpec{Op: "Add", S: 1, V: 3})
			}
			exploreCounted(cs, limit)
		}
	}
	for _, b := range argBattery {
		for lay := 0; lay < 6; lay++ {
			pre := append(append([]CallSpec{}, layoutOn(1, lay)...), CallSpec{Op: "Add", S: 0, V: 0}, CallSpec{Op: "Add", S: 0, V: 1})
			exploreCounted(Case{Prefix: pre, Progs: [][]CallSpec{b.a, b.b}, Kind: fmt.Sprintf("explore_arg_l%d", lay)}, limit)
		}
	}
	// a second turn of the CAS loop of tryLoadOrStore / tryExpungeLocked needs the entry to change twice around the failing
	// CAS: three goroutines (the looping one, one that adds the value, one that removes it), two pre-emptions
	for _, first := range []CallSpec{mk("Add", 0), mk("Add", 5)} {
		for lay := 0; lay < 6; lay++ {
			exploreCounted(Case{Prefix: layout(lay), Progs: [][]CallSpec{{first}, {mk("Add", 0)}, {mk("Remove", 0)}}, Kind: fmt.Sprintf("explore_l%d", lay)}, limit)
		}
	}
	emitEvery = 1
	if n := c.Stats["explore_programs_cut_at_limit"]; n > 0 {
		c.Note(fmt.Sprintf("exploration: %d of %d (program, layout) pairs reached the limit of %d schedules before their <= %d pre-emption space was exhausted", n, c.Stats["explore_programs"], limit, maxPre))
	} else {
		c.Note(fmt.Sprintf("exploration: the <= %d pre-emption schedule space of all %d (program, layout) pairs was enumerated completely (no pair reached the limit of %d schedules; largest space: %d schedules)", maxPre, c.Stats["explore_programs"], limit, c.Stats["explore_max_schedules_of_one_program"]))
	}
	// 2. random schedules: 2-8 goroutines over universe {0,1} (8 only with one call each)
	opsA := []string{"Add", "Add", "Remove", "Remove", "Has", "Len", "AddSet", "RemoveSet"}
	for i := c.N(500, 40000, 8000); i > 0; i-- {
		nt := 2 + c.Rng.Intn(7)
		progs := make([][]CallSpec, nt)
		for t := range progs {
			n := 1
			if nt <= 4 {
				n = 1 + c.Rng.Intn(3)
			}
			for j := 0; j < n; j++ {
				op := opsA[c.Rng.Intn(len(opsA))]
				if (op == "AddSet" || op == "RemoveSet" || op == "Len") && c.Rng.Chance(60) {
					op = "Add"
				}
				// receiver: mostly set 0, one call in four on set 1 - so that a set which is the ARGUMENT of another
				// goroutine's AddSet / RemoveSet is changed while it is being iterated
				recv := 0
				if c.Rng.Chance(25) {
					recv = 1
				}
				progs[t] = append(progs[t], CallSpec{Op: op, S: recv, V: c.Rng.Intn(2), Arg: c.Rng.Intn(2)})
			}
		}
		pre := layout(c.Rng.Intn(6))
		if c.Rng.Bool() {
			pre = append(append([]CallSpec{}, pre...), CallSpec{Op: "Add", S: 1, V: c.Rng.Intn(3)}, CallSpec{Op: "Add", S: 1, V: 3})
		}
		cs := Case{Prefix: pre, Progs: progs, Kind: "random"}
		c.Pending(cs)
		r, info := execute(cs, sched.Random(c.Rng.Intn, 50))
		report(c, cs, r, info)
	}
	coverageReport(c, setLabels)
}
