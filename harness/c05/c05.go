// Package c05: sync2.Set is an atomic set under concurrent use — controlled
// schedules, trace validation against the Coq model and a per-value
// linearizability/alternation oracle.
package c05

import (
	"encoding/json"
	"fmt"
	"sort"
	"sync"

	"gopkg.in/typ.v4/sync2"
	"verif/harness/core"
	"verif/harness/lin"
	"verif/harness/sched"
)

type CallSpec struct {
	Op  string `json:"op"` // Add Remove Has Len AddSet RemoveSet
	S   int    `json:"s"`  // receiver set (0 or 1)
	V   int    `json:"v,omitempty"`
	Arg int    `json:"arg,omitempty"` // argument set of AddSet/RemoveSet
}

type Case struct {
	Prefix  []CallSpec   `json:"prefix"`
	Progs   [][]CallSpec `json:"progs"`
	Choices []int        `json:"choices"`
	Kind    string       `json:"kind"`
}

func init() {
	core.Register(&core.Prop{ID: "C05", Module: "SyncMap.Check", Run: run, Replay: replay})
}

func replay(c *core.Ctx, raw json.RawMessage) error {
	var cs Case
	if err := json.Unmarshal(raw, &cs); err != nil {
		return err
	}
	r, info := execute(cs, sched.Prefix(cs.Choices))
	report(c, cs, r, info)
	return nil
}

type callInfo struct {
	spec  CallSpec
	endAt int
	b     bool
	n     int
}
type runInfo struct {
	calls [][]*callInfo
	final [2][]int
}

func coqCall(s CallSpec) string {
	switch s.Op {
	case "Add":
		return fmt.Sprintf("CLoadOrStore %d %s 0 PNone", s.S, core.Z(s.V))
	case "Remove":
		return fmt.Sprintf("CLoadAndDelete %d %s", s.S, core.Z(s.V))
	case "Has":
		return fmt.Sprintf("CLoad %d %s", s.S, core.Z(s.V))
	case "Len":
		return fmt.Sprintf("CRange %d (CbStop None)", s.S)
	case "AddSet":
		return fmt.Sprintf("CRange %d (CbAdd %d)", s.Arg, s.S)
	case "RemoveSet":
		return fmt.Sprintf("CRange %d (CbRemove %d)", s.Arg, s.S)
	}
	panic("bad op")
}

func execute(cs Case, choose sched.Chooser) (sched.Result, *runInfo) {
	sets := [2]*sync2.Set[int]{{}, {}}
	info := &runInfo{calls: make([][]*callInfo, len(cs.Progs))}
	threads := make([]sched.Thread, len(cs.Progs))
	for t, prog := range cs.Progs {
		full := prog
		if t == 0 {
			full = append(append([]CallSpec{}, cs.Prefix...), prog...)
		}
		for _, spec := range full {
			spec := spec
			ci := &callInfo{spec: spec}
			info.calls[t] = append(info.calls[t], ci)
			threads[t].Calls = append(threads[t].Calls, func() string {
				var out string
				s := sets[spec.S]
				switch spec.Op {
				case "Add":
					ci.b = s.Add(spec.V)
					out = "RLos 0 " + core.Bool(!ci.b)
				case "Remove":
					ci.b = s.Remove(spec.V)
					out = "ROpt " + core.Opt(ci.b, "0")
				case "Has":
					ci.b = s.Has(spec.V)
					out = "ROpt " + core.Opt(ci.b, "0")
				case "Len":
					ci.n = s.Len()
					out = fmt.Sprintf("RCount %d", ci.n)
				case "AddSet":
					ci.n = s.AddSet(sets[spec.Arg])
					out = fmt.Sprintf("RCount %d", ci.n)
				case "RemoveSet":
					ci.n = s.RemoveSet(sets[spec.Arg])
					out = fmt.Sprintf("RCount %d", ci.n)
				}
				ci.endAt = sched.StepsSoFar()
				return out
			})
		}
	}
	r := sched.Run(threads, choose, 6000)
	for i := range sets {
		info.final[i] = sets[i].Slice()
		sort.Ints(info.final[i])
	}
	return r, info
}

// all explored schedules are checked by the oracle; one in emitEvery of the passing ones also goes to the Coq model
var emitEvery = 1
var emitCount int

func report(c *core.Ctx, cs Case, r sched.Result, info *runInfo) {
	cs.Choices = r.Chosen
	c.Begin(cs)
	c.Count("kind_" + cs.Kind)
	c.CountN("steps", len(r.Steps))
	pre := 0
	for i := 1; i < len(r.Chosen); i++ {
		if r.Chosen[i] != r.Chosen[i-1] {
			for _, e := range r.Enabled[i] {
				if e == r.Chosen[i-1] {
					pre++
				}
			}
		}
	}
	c.CountN("preemptions", pre)
	if len(cs.Progs) > 1 && pre > 0 {
		c.Nontrivial()
	}
	failsBefore := c.Stats["oracle_failures"]
	if r.Panic != "" {
		c.Fail("panic or runaway schedule in sync2.Set", r.Panic)
	} else if r.Deadlock {
		c.Fail("deadlock in sync2.Set", fmt.Sprint(r.Steps))
	} else if msg := oracle(cs, r, info); msg != "" {
		c.Fail(msg, describe(info))
	}
	emitCount++
	if emitEvery > 1 && emitCount%emitEvery != 0 && c.Stats["oracle_failures"] == failsBefore {
		c.Count("explored_oracle_only")
		return
	}
	progs := make([]string, len(cs.Progs))
	results := make([]string, len(cs.Progs))
	for t := range cs.Progs {
		var a []string
		for _, ci := range info.calls[t] {
			a = append(a, coqCall(ci.spec))
		}
		progs[t] = core.List(a)
		results[t] = core.List(r.Results[t])
	}
	fin := make([]string, 2)
	for i := range fin {
		ps := make([]string, len(info.final[i]))
		for j, v := range info.final[i] {
			ps[j] = core.Pair(core.Z(v), "0")
		}
		fin[i] = core.List(ps)
	}
	c.Emit(fmt.Sprintf("Case 2 %s %s %s %s %s", core.List(progs), sched.CoqSteps(r.Steps), core.List(results),
		core.Bool(r.Deadlock), core.List(fin)))
}

func describe(info *runInfo) string {
	s := ""
	for t, cs := range info.calls {
		for _, ci := range cs {
			s += fmt.Sprintf("t%d %s(set%d,%d,arg%d)=>(%v,%d); ", t, ci.spec.Op, ci.spec.S, ci.spec.V, ci.spec.Arg, ci.b, ci.n)
		}
	}
	return s + fmt.Sprintf("final=%v", info.final)
}

// oracle: single-element calls of each set must be linearizable to a set (which is exactly
// "successful Adds and Removes of a value alternate, starting with an Add, consistently with real
// time; Has agrees"); composite calls contribute to the conservation law.
func oracle(cs Case, r sched.Result, info *runInfo) string {
	composite := false
	var ops [2][]lin.Op
	adds, removes := [2]int{}, [2]int{}
	for t, calls := range info.calls {
		prevEnd := 0
		for _, ci := range calls {
			first, last := -1, -1
			for i := prevEnd; i < ci.endAt && i < len(r.Steps); i++ {
				if r.Steps[i].T == t {
					if first < 0 {
						first = i
					}
					last = i
				}
			}
			prevEnd = ci.endAt
			s := ci.spec.S
			switch ci.spec.Op {
			case "Add":
				ops[s] = append(ops[s], lin.Op{T: t, First: first, Last: last, Kind: "LoadOrStore", K: ci.spec.V, ROK: !ci.b})
				if ci.b {
					adds[s]++
				}
			case "Remove":
				ops[s] = append(ops[s], lin.Op{T: t, First: first, Last: last, Kind: "LoadAndDelete", K: ci.spec.V, ROK: ci.b})
				if ci.b {
					removes[s]++
				}
			case "Has":
				ops[s] = append(ops[s], lin.Op{T: t, First: first, Last: last, Kind: "Load", K: ci.spec.V, ROK: ci.b})
			case "AddSet":
				composite = true
				adds[s] += ci.n
				if ci.n < 0 {
					return "AddSet returned a negative count"
				}
			case "RemoveSet":
				composite = true
				removes[s] += ci.n
				if ci.n < 0 {
					return "RemoveSet returned a negative count"
				}
			case "Len":
				if ci.n < 0 {
					return "Len returned a negative count"
				}
			}
		}
	}
	end := len(r.Steps) + 1
	for s := 0; s < 2; s++ {
		// conservation: successful adds - successful removes = final size (counts of AddSet/RemoveSet included)
		if adds[s]-removes[s] != len(info.final[s]) {
			return fmt.Sprintf("set %d: %d successful adds - %d successful removes != final size %d", s, adds[s], removes[s], len(info.final[s]))
		}
		if composite {
			continue // element-level effects of AddSet/RemoveSet are not individually observable
		}
		all := append([]lin.Op{}, ops[s]...)
		fin := map[int]bool{}
		for _, v := range info.final[s] {
			fin[v] = true
		}
		keys := map[int]bool{}
		for _, o := range all {
			keys[o.K] = true
		}
		for v := range fin {
			keys[v] = true
		}
		for k := range keys {
			all = append(all, lin.Op{T: -1, First: end, Last: end, Kind: "Load", K: k, ROK: fin[k]})
		}
		if len(all) <= 64 {
			if ok, _ := lin.Check(nil, all); !ok {
				return fmt.Sprintf("set %d: Add/Remove/Has history is not linearizable to a set (successful Adds and Removes of some value do not alternate consistently with real time)", s)
			}
		}
	}
	return ""
}

func layout(which int) []CallSpec {
	A := func(v int) CallSpec { return CallSpec{Op: "Add", V: v} }
	R := func(v int) CallSpec { return CallSpec{Op: "Remove", V: v} }
	H := func(v int) CallSpec { return CallSpec{Op: "Has", V: v} }
	L := CallSpec{Op: "Len"}
	switch which {
	case 0:
		return nil
	case 1:
		return []CallSpec{A(0), L} // 0 in read map
	case 2:
		return []CallSpec{A(0), L, A(1)} // 1 only in dirty
	case 3:
		return []CallSpec{A(0), A(1), L, R(0)} // nil entry
	case 4:
		return []CallSpec{A(0), A(1), L, R(0), A(2)} // expunged entry for 0
	default:
		return []CallSpec{A(0), L, A(1), A(2), H(1)} // one miss before promotion
	}
}

func explore(c *core.Ctx, cs Case, maxPre, limit int) {
	r0, _ := execute(Case{Prefix: cs.Prefix, Progs: [][]CallSpec{{}}}, sched.NonPreemptive)
	sched.ExploreBFS(func(prefix []int) sched.Result {
		r, info := execute(cs, sched.Prefix(prefix))
		report(c, cs, r, info)
		return r
	}, r0.Chosen, maxPre, limit, func(sched.Result) {})
}

func has(s []int, x int) bool {
	for _, v := range s {
		if v == x {
			return true
		}
	}
	return false
}

// stress: uncontrolled goroutines on two sets, for the race-detector build (tier "race").
func stress(c *core.Ctx) {
	for round := 0; round < 12; round++ {
		c.Begin(Case{Kind: "race-stress"})
		sets := [2]*sync2.Set[int]{{}, {}}
		var wg sync.WaitGroup
		for g := 0; g < 8; g++ {
			wg.Add(1)
			rng := core.NewRand(c.Seed*1000 + uint64(round*16+g))
			go func() {
				defer wg.Done()
				for i := 0; i < 800; i++ {
					s, v := sets[rng.Intn(2)], rng.Intn(3)
					switch rng.Intn(8) {
					case 0, 1:
						s.Add(v)
					case 2, 3:
						s.Remove(v)
					case 4:
						s.Has(v)
					case 5:
						s.Len()
					case 6:
						s.AddSet(sets[rng.Intn(2)])
					default:
						s.RemoveSet(sets[rng.Intn(2)])
					}
				}
			}()
		}
		wg.Wait()
		c.Count("race_stress_rounds")
	}
}

func run(c *core.Ctx) {
	if c.Tier == "race" {
		stress(c)
		return
	}
	mk := func(op string, v int) CallSpec { return CallSpec{Op: op, V: v} }
	// 1. all schedules with <= P pre-emptions of two-thread programs on one value, over internal layouts
	var battery [][2][]CallSpec
	for _, a := range []string{"Add", "Remove", "Has"} {
		for _, b := range []string{"Add", "Remove", "Has", "Len"} {
			battery = append(battery, [2][]CallSpec{{mk(a, 0)}, {mk(b, 0)}})
			battery = append(battery, [2][]CallSpec{{mk(a, 2)}, {mk(b, 2), mk("Has", 0)}})
		}
	}
	battery = append(battery, [2][]CallSpec{{{Op: "AddSet", S: 0, Arg: 1}}, {mk("Remove", 0)}})
	battery = append(battery, [2][]CallSpec{{{Op: "RemoveSet", S: 0, Arg: 0}}, {mk("Add", 1)}})
	// more programs: a racing pair followed by calls that promote the dirty map and re-observe
	for _, a := range []string{"Add", "Remove"} {
		for _, v := range []int{0, 1} {
			battery = append(battery, [2][]CallSpec{{mk("Add", 2)}, {mk(a, v), mk("Len", 0), mk("Has", v)}})
			battery = append(battery, [2][]CallSpec{{mk("Add", 2), mk("Len", 0)}, {mk(a, v), mk("Has", v), mk("Add", v)}})
		}
	}
	maxPre := c.N(2, 3, 2)
	limit := c.N(300, 1500, 600)
	emitEvery, emitCount = c.N(40, 40, 1), 0
	for _, b := range battery {
		for lay := 0; lay < 6; lay++ {
			cs := Case{Prefix: layout(lay), Progs: [][]CallSpec{b[0], b[1]}, Kind: fmt.Sprintf("explore_l%d", lay)}
			if b[0][0].Op == "AddSet" || b[0][0].Op == "RemoveSet" { // give set 1 some contents for AddSet
				cs.Prefix = append(append([]CallSpec{}, cs.Prefix...), CallSpec{Op: "Add", S: 1, V: 0}, CallSpec{Op: "Add", S: 1, V: 3})
			}
			explore(c, cs, maxPre, limit)
		}
	}
	emitEvery = 1
	// 2. random schedules: 2-8 goroutines over universe {0,1} (8 only with one call each)
	opsA := []string{"Add", "Add", "Remove", "Remove", "Has", "Len", "AddSet", "RemoveSet"}
	for i := c.N(500, 40000, 8000); i > 0; i-- {
		nt := 2 + c.Rng.Intn(7)
		progs := make([][]CallSpec, nt)
		for t := range progs {
			n := 1
			if nt <= 4 {
				n = 1 + c.Rng.Intn(3)
			}
			for j := 0; j < n; j++ {
				op := opsA[c.Rng.Intn(len(opsA))]
				if (op == "AddSet" || op == "RemoveSet" || op == "Len") && c.Rng.Chance(60) {
					op = "Add"
				}
				progs[t] = append(progs[t], CallSpec{Op: op, S: 0, V: c.Rng.Intn(2), Arg: c.Rng.Intn(2)})
			}
		}
		pre := layout(c.Rng.Intn(6))
		if c.Rng.Bool() {
			pre = append(append([]CallSpec{}, pre...), CallSpec{Op: "Add", S: 1, V: c.Rng.Intn(3)}, CallSpec{Op: "Add", S: 1, V: 3})
		}
		cs := Case{Prefix: pre, Progs: progs, Kind: "random"}
		r, info := execute(cs, sched.Random(c.Rng.Intn, 50))
		report(c, cs, r, info)
	}
}
