module verif/harness

go 1.18

require gopkg.in/typ.v4 v4.0.0

replace gopkg.in/typ.v4 => /repo
