// Package core is the property-independent part of the correspondence
// harness: PRNG, case bookkeeping, Coq term printing, shard files, panic
// classification, results.
package core

import (
	"bufio"
	"encoding/json"
	"fmt"
	"hash/fnv"
	"os"
	"path/filepath"
	"runtime"
	"sort"
	"strings"
	"sync/atomic"
	"time"
)

// Rand is splitmix64; every random choice of a run derives from one seed.
type Rand struct{ s uint64 }

func NewRand(seed uint64) *Rand { return &Rand{s: seed*0x9E3779B97F4A7C15 + 0x1234567} }
func (r *Rand) Uint64() uint64 {
	r.s += 0x9E3779B97F4A7C15
	z := r.s
	z = (z ^ (z >> 30)) * 0xBF58476D1CE4E5B9
	z = (z ^ (z >> 27)) * 0x94D049BB133111EB
	return z ^ (z >> 31)
}
func (r *Rand) Intn(n int) int {
	if n <= 0 {
		return 0
	}
	return int(r.Uint64() % uint64(n))
}

// Range returns a value in [lo,hi].
func (r *Rand) Range(lo, hi int) int { return lo + r.Intn(hi-lo+1) }
func (r *Rand) Bool() bool           { return r.Uint64()&1 == 1 }
func (r *Rand) Chance(pct int) bool  { return r.Intn(100) < pct }

// Size draws a skewed size: mostly small, sometimes up to max.
func (r *Rand) Size(max int) int {
	switch k := r.Intn(10); {
	case k < 5:
		return r.Intn(min(max, 8) + 1)
	case k < 8:
		return r.Intn(min(max, 40) + 1)
	default:
		return r.Intn(max + 1)
	}
}
func (r *Rand) Ints(n, lo, hi int) []int {
	s := make([]int, n)
	for i := range s {
		s[i] = r.Range(lo, hi)
	}
	return s
}
func min(a, b int) int {
	if a < b {
		return a
	}
	return b
}

type Failure struct {
	What   string          `json:"what"`
	Detail string          `json:"detail"`
	Case   json.RawMessage `json:"case"`
}

type Prop struct {
	ID     string
	Module string                                  // Coq module with [case] and [check_case]
	Run    func(c *Ctx)                            // generate and execute cases for c.Tier
	Replay func(c *Ctx, raw json.RawMessage) error // execute one recorded case
}

var Props = map[string]*Prop{}

func Register(p *Prop) { Props[p.ID] = p }

type Ctx struct {
	Prop      *Prop
	Tier      string // quick | thorough | search
	Seed      uint64
	OutDir    string
	Rng       *Rand
	ShardSize int
	NoModel   bool // search tier: implementation + oracle only, no Coq shards

	shard      []string
	shardIdx   int
	emitted    int
	casesW     *bufio.Writer
	casesF     *os.File
	cur        json.RawMessage
	Stats      map[string]int
	Failures   []Failure
	Samples    []json.RawMessage
	nontrivial map[uint64]struct{}
	distinct   map[uint64]struct{}
	Evals      int
	Exhaustive bool
	Notes      []string
	Blind      []string // oracles that could not observe what they check (see Unobservable)

	// CaseTimeout: if one case (from Begin to the next Begin / Finish) takes longer, the code under test is
	// taken to be stuck (endless loop, deadlock): the case is recorded as a failure and the harness exits.
	CaseTimeout time.Duration
	deadline    atomic.Int64 // unix nanoseconds, 0 = no case running
}

func NewCtx(p *Prop, tier string, seed uint64, out string) *Ctx {
	c := &Ctx{Prop: p, Tier: tier, Seed: seed, OutDir: out, Rng: NewRand(seed), ShardSize: 400,
		Stats: map[string]int{}, nontrivial: map[uint64]struct{}{}, distinct: map[uint64]struct{}{}}
	c.NoModel = tier == "search" || tier == "race"
	os.MkdirAll(out, 0o755)
	f, err := os.Create(filepath.Join(out, "cases.jsonl"))
	if err != nil {
		panic(err)
	}
	c.casesF = f
	c.casesW = bufio.NewWriterSize(f, 1<<20)
	c.CaseTimeout = 120 * time.Second
	if tier == "thorough" {
		c.CaseTimeout = 900 * time.Second
	}
	go c.watchdog()
	return c
}

// watchdog turns a case that never finishes into a recorded failure with that case as the replay,
// instead of a hung harness. (A goroutine stuck in a tight loop is pre-empted asynchronously by the Go
// runtime, so this goroutine keeps running.)
func (c *Ctx) watchdog() {
	for {
		time.Sleep(500 * time.Millisecond)
		d := c.deadline.Load()
		if d != 0 && time.Now().UnixNano() > d {
			c.deadline.Store(0)
			c.Failures = append([]Failure{{What: fmt.Sprintf("the code under test did not return within %v on this case (endless loop or deadlock)", c.CaseTimeout),
				Detail: "killed by the harness watchdog", Case: c.cur}}, c.Failures...)
			c.Stats["oracle_failures"]++
			c.Finish()
			os.Exit(0)
		}
	}
}

// N picks a case count by tier.
func (c *Ctx) N(quick, thorough, search int) int {
	switch c.Tier {
	case "thorough":
		return thorough
	case "search":
		return search
	case "race":
		return (quick + 3) / 4 // the race detector makes everything 5-10x slower
	}
	return quick
}

// Begin starts a case; cs must be JSON-marshalable and sufficient to replay it.
func (c *Ctx) Begin(cs any) {
	b, err := json.Marshal(cs)
	if err != nil {
		panic(err)
	}
	c.cur = b
	c.deadline.Store(time.Now().Add(c.CaseTimeout).UnixNano())
	c.Evals++
	// leave a trace of the case being executed: if the code under test kills the process with an
	// unrecoverable runtime error (stack overflow, fatal "unlock of unlocked mutex", deadlock),
	// bin/check reports this case as the failing input
	os.WriteFile(filepath.Join(c.OutDir, "current.json"), b, 0o644)
	h := fnv.New64a()
	h.Write(b)
	c.distinct[h.Sum64()] = struct{}{}
	if len(c.Samples) < 5 || (c.Evals%997 == 0 && len(c.Samples) < 12) {
		c.Samples = append(c.Samples, b)
	}
}

// Pending leaves a trace (current.json) of a case that is ABOUT to be executed and will only be registered with
// Begin afterwards (harnesses that learn part of the case, e.g. the schedule, from the run itself). If the code
// under test kills the process during the run (fatal "unlock of unlocked mutex", all goroutines asleep), bin/check
// reports this case as the failing input. It counts nothing.
func (c *Ctx) Pending(cs any) {
	if b, err := json.Marshal(cs); err == nil {
		os.WriteFile(filepath.Join(c.OutDir, "current.json"), b, 0o644)
		c.deadline.Store(time.Now().Add(c.CaseTimeout).UnixNano())
		c.cur = b
	}
}

// Emit adds the current case, as a Coq term of type [case], to the model shards.
func (c *Ctx) Emit(coq string) {
	if c.NoModel {
		return
	}
	c.shard = append(c.shard, coq)
	c.casesW.Write(c.cur)
	c.casesW.WriteByte('\n')
	c.emitted++
	if len(c.shard) >= c.ShardSize {
		c.flush()
	}
}

func (c *Ctx) flush() {
	if len(c.shard) == 0 {
		return
	}
	name := filepath.Join(c.OutDir, fmt.Sprintf("shard_%04d.v", c.shardIdx))
	var sb strings.Builder
	sb.WriteString(fmt.Sprintf("(* cases: %d *)\n", len(c.shard)))
	sb.WriteString("From Typ Require Import " + c.Prop.Module + ".\nLocal Open Scope Z_scope.\n")
	sb.WriteString("Definition cases : list case := [\n")
	for i, s := range c.shard {
		if i > 0 {
			sb.WriteString(";\n")
		}
		sb.WriteString(s)
	}
	sb.WriteString("\n].\nDefinition bad := Eval vm_compute in bad_indices check_case cases.\nPrint bad.\n")
	if err := os.WriteFile(name, []byte(sb.String()), 0o644); err != nil {
		panic(err)
	}
	c.shardIdx++
	c.shard = c.shard[:0]
}

func (c *Ctx) Count(stat string)         { c.Stats[stat]++ }
func (c *Ctx) CountN(stat string, n int) { c.Stats[stat] += n }

// Nontrivial marks the current case as non-trivial by the property's rule.
func (c *Ctx) Nontrivial() {
	h := fnv.New64a()
	h.Write(c.cur)
	c.nontrivial[h.Sum64()] = struct{}{}
}

// Fail records that the implementation violated the property on the current case.
func (c *Ctx) Fail(what, detail string) {
	if len(c.Failures) < 200 {
		c.Failures = append(c.Failures, Failure{What: what, Detail: detail, Case: c.cur})
	}
	c.Stats["oracle_failures"]++
}

func (c *Ctx) Note(s string) { c.Notes = append(c.Notes, s) }

// Unobservable records that an oracle of this harness could not observe what it is there to check on the
// current tree (e.g. a reflection probe of private fields no longer finds them, a budget ran out before a
// structural check). It is not a property failure; bin/check treats it as a broken correspondence (the
// property is no longer shown to hold by this oracle): failing-input search, then VIOLATION ...
// no-failing-input-found naming the oracle. Never called on the unchanged tree.
func (c *Ctx) Unobservable(what string) {
	for _, b := range c.Blind {
		if b == what {
			return
		}
	}
	if len(c.Blind) < 20 {
		c.Blind = append(c.Blind, what)
	}
	c.Stats["oracle_unobservable"]++
}

func (c *Ctx) Finish() {
	c.deadline.Store(0)
	c.flush()
	c.casesW.Flush()
	c.casesF.Close()
	keys := make([]string, 0, len(c.Stats))
	for k := range c.Stats {
		keys = append(keys, k)
	}
	sort.Strings(keys)
	res := map[string]any{
		"property": c.Prop.ID, "tier": c.Tier, "seed": c.Seed,
		"evaluations": c.Evals, "distinct": len(c.distinct), "distinct_nontrivial": len(c.nontrivial),
		"emitted": c.emitted, "shards": c.shardIdx, "shard_size": c.ShardSize,
		"stats": c.Stats, "failures": c.Failures, "samples": c.Samples,
		"exhaustive": c.Exhaustive, "notes": c.Notes, "blind": c.Blind,
	}
	b, _ := json.MarshalIndent(res, "", " ")
	os.WriteFile(filepath.Join(c.OutDir, "result.json"), b, 0o644)
	os.Remove(filepath.Join(c.OutDir, "current.json"))
}

// ---- panics ----

// Try runs f and returns "" or the Coq panic_kind constructor of its panic.
func Try(f func()) (kind string) {
	defer func() {
		if r := recover(); r != nil {
			kind = Classify(r)
		}
	}()
	f()
	return ""
}

func Classify(r any) string {
	var msg string
	switch v := r.(type) {
	case runtime.Error:
		msg = v.Error()
		switch {
		case strings.Contains(msg, "index out of range"), strings.Contains(msg, "slice bounds out of range"):
			return "IndexOutOfRange"
		case strings.Contains(msg, "nil pointer dereference"), strings.Contains(msg, "nil map"):
			return "NilDeref"
		case strings.Contains(msg, "divide by zero"):
			return "DivByZero"
		case strings.Contains(msg, "send on closed channel"), strings.Contains(msg, "close of closed channel"):
			return "SendOnClosed"
		}
		return "OtherPanic"
	case string:
		if strings.Contains(v, "out of range") {
			return "IndexOutOfRange"
		}
		return "Explicit"
	case error:
		return "OtherPanic"
	}
	return "Explicit"
}

// ---- Coq term printing (all numbers in Z_scope) ----

func Z(n int) string {
	if n < 0 {
		return fmt.Sprintf("(%d)", n)
	}
	return fmt.Sprintf("%d", n)
}
func Z64(n int64) string {
	if n < 0 {
		return fmt.Sprintf("(%d)", n)
	}
	return fmt.Sprintf("%d", n)
}
func U64(n uint64) string { return fmt.Sprintf("%d", n) }
func Bool(b bool) string {
	if b {
		return "true"
	}
	return "false"
}
func ZList(s []int) string {
	var sb strings.Builder
	sb.WriteByte('[')
	for i, v := range s {
		if i > 0 {
			sb.WriteByte(';')
		}
		sb.WriteString(Z(v))
	}
	sb.WriteByte(']')
	return sb.String()
}
func ZListList(ss [][]int) string {
	parts := make([]string, len(ss))
	for i, s := range ss {
		parts[i] = ZList(s)
	}
	return "[" + strings.Join(parts, ";") + "]"
}
func List(parts []string) string { return "[" + strings.Join(parts, ";") + "]" }
func Pair(a, b string) string    { return "(" + a + "," + b + ")" }
func Some(a string) string       { return "(Some " + a + ")" }
func Opt(ok bool, a string) string {
	if ok {
		return Some(a)
	}
	return "None"
}

// Res prints a result: Ok v, or Panic kind when kind != "".
func Res(kind, v string) string {
	if kind != "" {
		return "(Panic " + kind + ")"
	}
	return "(Ok " + v + ")"
}

func Eq(a, b []int) bool {
	if len(a) != len(b) {
		return false
	}
	for i := range a {
		if a[i] != b[i] {
			return false
		}
	}
	return true
}
