// Main is the entry point of every generated harness command: it drives the real go-typ/typ code (module replaced by /repo,
// so it always compiles the current working tree) for one property and writes
// the observed behaviour as Coq case files for the model, plus the verdicts of
// the direct property oracles.
package core

import (
	"encoding/json"
	"flag"
	"fmt"
	"os"
	"strconv"
)

func Main() {
	tier := flag.String("tier", "quick", "quick|thorough|search")
	seed := flag.Uint64("seed", 0, "PRNG seed (default VERIF_SEED or 1)")
	out := flag.String("out", "", "output directory")
	replay := flag.String("replay", "", "replay file")
	flag.Parse()
	if flag.NArg() != 1 {
		fmt.Fprintln(os.Stderr, "usage: harness [flags] <property-id>")
		os.Exit(2)
	}
	id := flag.Arg(0)
	p := Props[id]
	if p == nil {
		fmt.Fprintln(os.Stderr, "unknown property", id)
		os.Exit(2)
	}
	if *seed == 0 {
		if s, err := strconv.ParseUint(os.Getenv("VERIF_SEED"), 10, 64); err == nil {
			*seed = s
		} else {
			*seed = 1
		}
	}
	if *out == "" {
		*out = "/verif/work/" + id
	}
	c := NewCtx(p, *tier, *seed, *out)
	if *replay != "" {
		b, err := os.ReadFile(*replay)
		if err != nil {
			fmt.Fprintln(os.Stderr, err)
			os.Exit(2)
		}
		var r struct {
			Case json.RawMessage `json:"case"`
		}
		if err := json.Unmarshal(b, &r); err != nil || r.Case == nil {
			fmt.Fprintln(os.Stderr, "replay file has no case:", err)
			os.Exit(2)
		}
		if err := p.Replay(c, r.Case); err != nil {
			fmt.Fprintln(os.Stderr, err)
			os.Exit(2)
		}
	} else {
		p.Run(c)
	}
	c.Finish()
}
