// Package c06: lists.List / lists.Ring against container/list / container/ring,
// driven in lock-step through parallel handle tables. Any difference between
// the two is a direct oracle failure (that is property C06); the observations
// of the fork are also emitted for the Coq model.
package c06

import (
	stdlist "container/list"
	stdring "container/ring"
	"encoding/json"
	"fmt"
	"strings"

	"gopkg.in/typ.v4/lists"
	"verif/harness/core"
)

type Op struct {
	K string `json:"k"`
	A int    `json:"a"`
	B int    `json:"b"`
	C int    `json:"c"`
}

type Case struct {
	Kind string `json:"kind"` // "list" | "ring"
	Ops  []Op   `json:"ops"`
}

func init() {
	core.Register(&core.Prop{ID: "C06", Module: "Lists.ListCheck", Run: run, Replay: replay})
}

func replay(c *core.Ctx, raw json.RawMessage) error {
	var cs Case
	if err := json.Unmarshal(raw, &cs); err != nil {
		return err
	}
	execCase(c, cs, true)
	return nil
}

// walkBound guards walks over a corrupted structure; it is above every size the generators produce
// (lists up to 8194 elements, rings up to about 10000 nodes). If the reference side ever reaches it the
// oracle is blind and says so (core.Unobservable).
const walkBound = 1 << 15

// ---- return values and observations -------------------------------------------------

type ret struct {
	Kind  string // U | H | V | S | P
	V     int
	Seq   []int
	Panic string
}

func (r ret) coq() string {
	switch r.Kind {
	case "H":
		return "(RH " + core.Z(r.V) + ")"
	case "V":
		return "(RV " + core.Z(r.V) + ")"
	case "S":
		return "(RS " + core.ZList(r.Seq) + ")"
	case "P":
		return "(RP " + r.Panic + ")"
	}
	return "RU"
}

func (r ret) String() string { return r.coq() }

const hashP = 2147483647

func mix(h, x int) int {
	x %= hashP
	if x < 0 {
		x += hashP
	}
	return (h*1000003 + x + 7) % hashP
}

func mixList(h int, l []int) int {
	h = mix(h, len(l))
	for _, x := range l {
		h = mix(h, x)
	}
	return h
}

// listObs: per list Len, forward walk, backward walk ((handle index, value) flattened; nil = corrupt walk)
type listObs struct {
	Len      int
	Fwd, Bwd []int
	FwdOK    bool
	BwdOK    bool
}

type lstate struct {
	Lists []listObs
	Nbrs  []int // per handle: idx(Next), idx(Prev)
}

func (s lstate) blind() bool {
	for _, l := range s.Lists {
		if !l.FwdOK || !l.BwdOK {
			return true
		}
	}
	return false
}

func (s lstate) hash() int {
	h := 0
	for _, l := range s.Lists {
		h = mix(h, l.Len)
		if l.FwdOK {
			h = mixList(h, l.Fwd)
		} else {
			h = mixList(h, []int{-99})
		}
		if l.BwdOK {
			h = mixList(h, l.Bwd)
		} else {
			h = mixList(h, []int{-99})
		}
	}
	for _, x := range s.Nbrs {
		h = mix(h, x)
	}
	return h
}

func pairs(flat []int) string {
	parts := make([]string, 0, len(flat)/2)
	for i := 0; i+1 < len(flat); i += 2 {
		parts = append(parts, core.Pair(core.Z(flat[i]), core.Z(flat[i+1])))
	}
	return core.List(parts)
}

func (s lstate) coqFinal() string {
	parts := make([]string, len(s.Lists))
	for i, l := range s.Lists {
		parts[i] = "(" + core.Z(l.Len) + "," + pairs(l.Fwd) + "," + pairs(l.Bwd) + ")"
	}
	return core.List(parts)
}

// ---- side A: the fork -------------------------------------------------------------------

type sideA struct {
	ls []*lists.List[int]
	hs []*lists.Element[int]
	ix map[*lists.Element[int]]int
}

func (a *sideA) idx(e *lists.Element[int]) int {
	if e == nil {
		return -1
	}
	if i, ok := a.ix[e]; ok {
		return i
	}
	return -2
}

func (a *sideA) add(e *lists.Element[int]) int {
	if e == nil {
		return -1
	}
	if i := a.idx(e); i >= 0 {
		return i
	}
	if a.ix == nil {
		a.ix = map[*lists.Element[int]]int{}
	}
	a.ix[e] = len(a.hs)
	a.hs = append(a.hs, e)
	return len(a.hs) - 1
}

func (a *sideA) h(k int) *lists.Element[int] {
	if k < 0 || k >= len(a.hs) {
		return nil
	}
	return a.hs[k]
}

func (a *sideA) do(op Op) (r ret) {
	kind := core.Try(func() {
		switch op.K {
		case "New":
			a.ls = append(a.ls, new(lists.List[int]))
			r = ret{Kind: "V", V: len(a.ls) - 1}
		case "NewInit":
			a.ls = append(a.ls, lists.New[int]())
			r = ret{Kind: "V", V: len(a.ls) - 1}
		case "Elem":
			r = ret{Kind: "H", V: a.add(&lists.Element[int]{Value: op.A})}
		case "Init":
			a.ls[op.A].Init()
			r = ret{Kind: "U"}
		case "Len":
			r = ret{Kind: "V", V: a.ls[op.A].Len()}
		case "Front":
			r = ret{Kind: "H", V: a.add(a.ls[op.A].Front())}
		case "Back":
			r = ret{Kind: "H", V: a.add(a.ls[op.A].Back())}
		case "PushFront":
			r = ret{Kind: "H", V: a.add(a.ls[op.A].PushFront(op.B))}
		case "PushBack":
			r = ret{Kind: "H", V: a.add(a.ls[op.A].PushBack(op.B))}
		case "InsertBefore":
			r = ret{Kind: "H", V: a.add(a.ls[op.A].InsertBefore(op.B, a.h(op.C)))}
		case "InsertAfter":
			r = ret{Kind: "H", V: a.add(a.ls[op.A].InsertAfter(op.B, a.h(op.C)))}
		case "Remove":
			r = ret{Kind: "V", V: a.ls[op.A].Remove(a.h(op.B))}
		case "MoveToFront":
			a.ls[op.A].MoveToFront(a.h(op.B))
			r = ret{Kind: "U"}
		case "MoveToBack":
			a.ls[op.A].MoveToBack(a.h(op.B))
			r = ret{Kind: "U"}
		case "MoveBefore":
			a.ls[op.A].MoveBefore(a.h(op.B), a.h(op.C))
			r = ret{Kind: "U"}
		case "MoveAfter":
			a.ls[op.A].MoveAfter(a.h(op.B), a.h(op.C))
			r = ret{Kind: "U"}
		case "PushBackList":
			a.ls[op.A].PushBackList(a.ls[op.B])
			r = ret{Kind: "U"}
		case "PushFrontList":
			a.ls[op.A].PushFrontList(a.ls[op.B])
			r = ret{Kind: "U"}
		case "Next":
			r = ret{Kind: "H", V: a.add(a.h(op.A).Next())}
		case "Prev":
			r = ret{Kind: "H", V: a.add(a.h(op.A).Prev())}
		default:
			panic("bad op " + op.K)
		}
	})
	if kind != "" {
		r = ret{Kind: "P", Panic: kind}
	}
	return r
}

func (a *sideA) observe() lstate {
	var s lstate
	for _, l := range a.ls {
		o := listObs{Len: l.Len(), FwdOK: true, BwdOK: true}
		n := 0
		for e := l.Front(); e != nil; e = e.Next() {
			if n++; n > walkBound {
				o.FwdOK, o.Fwd = false, nil
				break
			}
			o.Fwd = append(o.Fwd, a.idx(e), e.Value)
		}
		n = 0
		for e := l.Back(); e != nil; e = e.Prev() {
			if n++; n > walkBound {
				o.BwdOK, o.Bwd = false, nil
				break
			}
			o.Bwd = append(o.Bwd, a.idx(e), e.Value)
		}
		s.Lists = append(s.Lists, o)
	}
	for _, e := range a.hs {
		s.Nbrs = append(s.Nbrs, a.idx(e.Next()), a.idx(e.Prev()))
	}
	return s
}

// ---- side B: container/list ----------------------------------------------------------------

type sideB struct {
	ls []*stdlist.List
	hs []*stdlist.Element
	ix map[*stdlist.Element]int
}

func (a *sideB) idx(e *stdlist.Element) int {
	if e == nil {
		return -1
	}
	if i, ok := a.ix[e]; ok {
		return i
	}
	return -2
}

func (a *sideB) add(e *stdlist.Element) int {
	if e == nil {
		return -1
	}
	if i := a.idx(e); i >= 0 {
		return i
	}
	if a.ix == nil {
		a.ix = map[*stdlist.Element]int{}
	}
	a.ix[e] = len(a.hs)
	a.hs = append(a.hs, e)
	return len(a.hs) - 1
}

func (a *sideB) h(k int) *stdlist.Element {
	if k < 0 || k >= len(a.hs) {
		return nil
	}
	return a.hs[k]
}

func (a *sideB) do(op Op) (r ret) {
	kind := core.Try(func() {
		switch op.K {
		case "New":
			a.ls = append(a.ls, new(stdlist.List))
			r = ret{Kind: "V", V: len(a.ls) - 1}
		case "NewInit":
			a.ls = append(a.ls, stdlist.New())
			r = ret{Kind: "V", V: len(a.ls) - 1}
		case "Elem":
			r = ret{Kind: "H", V: a.add(&stdlist.Element{Value: op.A})}
		case "Init":
			a.ls[op.A].Init()
			r = ret{Kind: "U"}
		case "Len":
			r = ret{Kind: "V", V: a.ls[op.A].Len()}
		case "Front":
			r = ret{Kind: "H", V: a.add(a.ls[op.A].Front())}
		case "Back":
			r = ret{Kind: "H", V: a.add(a.ls[op.A].Back())}
		case "PushFront":
			r = ret{Kind: "H", V: a.add(a.ls[op.A].PushFront(op.B))}
		case "PushBack":
			r = ret{Kind: "H", V: a.add(a.ls[op.A].PushBack(op.B))}
		case "InsertBefore":
			r = ret{Kind: "H", V: a.add(a.ls[op.A].InsertBefore(op.B, a.h(op.C)))}
		case "InsertAfter":
			r = ret{Kind: "H", V: a.add(a.ls[op.A].InsertAfter(op.B, a.h(op.C)))}
		case "Remove":
			r = ret{Kind: "V", V: ival(a.ls[op.A].Remove(a.h(op.B)))}
		case "MoveToFront":
			a.ls[op.A].MoveToFront(a.h(op.B))
			r = ret{Kind: "U"}
		case "MoveToBack":
			a.ls[op.A].MoveToBack(a.h(op.B))
			r = ret{Kind: "U"}
		case "MoveBefore":
			a.ls[op.A].MoveBefore(a.h(op.B), a.h(op.C))
			r = ret{Kind: "U"}
		case "MoveAfter":
			a.ls[op.A].MoveAfter(a.h(op.B), a.h(op.C))
			r = ret{Kind: "U"}
		case "PushBackList":
			a.ls[op.A].PushBackList(a.ls[op.B])
			r = ret{Kind: "U"}
		case "PushFrontList":
			a.ls[op.A].PushFrontList(a.ls[op.B])
			r = ret{Kind: "U"}
		case "Next":
			r = ret{Kind: "H", V: a.add(a.h(op.A).Next())}
		case "Prev":
			r = ret{Kind: "H", V: a.add(a.h(op.A).Prev())}
		default:
			panic("bad op " + op.K)
		}
	})
	if kind != "" {
		r = ret{Kind: "P", Panic: kind}
	}
	return r
}

func (a *sideB) observe() lstate {
	var s lstate
	for _, l := range a.ls {
		o := listObs{Len: l.Len(), FwdOK: true, BwdOK: true}
		n := 0
		for e := l.Front(); e != nil; e = e.Next() {
			if n++; n > walkBound {
				o.FwdOK, o.Fwd = false, nil
				break
			}
			o.Fwd = append(o.Fwd, a.idx(e), ival(e.Value))
		}
		n = 0
		for e := l.Back(); e != nil; e = e.Prev() {
			if n++; n > walkBound {
				o.BwdOK, o.Bwd = false, nil
				break
			}
			o.Bwd = append(o.Bwd, a.idx(e), ival(e.Value))
		}
		s.Lists = append(s.Lists, o)
	}
	for _, e := range a.hs {
		s.Nbrs = append(s.Nbrs, a.idx(e.Next()), a.idx(e.Prev()))
	}
	return s
}

// owner of handle k on the reference side: list index, -1 = in no list
func (a *sideB) owner(k int) int {
	e := a.h(k)
	if e == nil {
		return -1
	}
	for li, l := range a.ls {
		n := 0
		for x := l.Front(); x != nil && n < walkBound; x, n = x.Next(), n+1 {
			if x == e {
				return li
			}
		}
	}
	return -1
}

// ---- rings -------------------------------------------------------------------------------

type ringObs struct {
	Len  int
	Seq  []int
	N, P int
}

type rstate []ringObs

func (s rstate) hash() int {
	h := 0
	for _, o := range s {
		h = mix(h, o.Len)
		h = mixList(h, o.Seq)
		h = mix(h, o.N)
		h = mix(h, o.P)
	}
	return h
}

func (s rstate) coqFinal() string {
	parts := make([]string, len(s))
	for i, o := range s {
		parts[i] = core.Pair(core.Z(o.Len), core.ZList(o.Seq))
	}
	return core.List(parts)
}

type guard struct{}

// ival: a container/list sentinel or a fresh container/ring node has a nil Value where the fork has 0.
func ival(v any) int {
	if v == nil {
		return 0
	}
	return v.(int)
}

type ringA struct {
	hs    []*lists.Ring[int]
	blind bool         // a walk hit walkBound
	fresh map[int]bool // handles of zero Rings no operation has named yet (shared by both sides)
}

func (a *ringA) idx(r *lists.Ring[int]) int {
	if r == nil {
		return -1
	}
	for i, x := range a.hs {
		if x == r {
			return i
		}
	}
	return -2
}
func (a *ringA) add(r *lists.Ring[int]) int {
	if r == nil {
		return -1
	}
	if i := a.idx(r); i >= 0 {
		return i
	}
	a.hs = append(a.hs, r)
	return len(a.hs) - 1
}
func (a *ringA) h(k int) *lists.Ring[int] {
	if k < 0 || k >= len(a.hs) {
		return nil
	}
	return a.hs[k]
}

func doSeqA(r *lists.Ring[int]) (seq []int, ok bool) {
	ok = true
	defer func() {
		if x := recover(); x != nil {
			if _, is := x.(guard); !is {
				// Do ran into a broken link (nil next): a corrupted ring, reported as such
				seq, ok = []int{-96}, false
				return
			}
			seq, ok = []int{-99}, false
		}
	}()
	r.Do(func(v int) {
		if len(seq) >= walkBound {
			panic(guard{})
		}
		seq = append(seq, v)
	})
	return
}

func (a *ringA) do(op Op) (r ret) {
	kind := core.Try(func() {
		switch op.K {
		case "RZero":
			r = ret{Kind: "H", V: a.add(&lists.Ring[int]{Value: op.A})}
		case "RNew":
			x := lists.NewRing[int](op.A)
			p := x
			for i := 0; i < op.A; i++ {
				p.Value = op.B + i
				p = p.Next()
			}
			r = ret{Kind: "H", V: a.add(x)}
		case "RNext":
			r = ret{Kind: "H", V: a.add(a.h(op.A).Next())}
		case "RPrev":
			r = ret{Kind: "H", V: a.add(a.h(op.A).Prev())}
		case "RMove":
			r = ret{Kind: "H", V: a.add(a.h(op.A).Move(op.B))}
		case "RLink":
			r = ret{Kind: "H", V: a.add(a.h(op.A).Link(a.h(op.B)))}
		case "RUnlink":
			r = ret{Kind: "H", V: a.add(a.h(op.A).Unlink(op.B))}
		case "RLen":
			x := a.h(op.A)
			if a.fresh[op.A] {
				// a zero Ring nothing has touched yet: Len itself must be the first call (its own lazy
				// initialisation is what is compared); a fresh zero Ring cannot be large
				r = ret{Kind: "V", V: x.Len()}
			} else if seq, ok := doSeqA(x); !ok {
				r = ret{Kind: "V", V: -98}
				a.blind = a.blind || (len(seq) == 1 && seq[0] == -99)
			} else {
				r = ret{Kind: "V", V: x.Len()}
			}
		case "RDo":
			seq, _ := doSeqA(a.h(op.A))
			if seq == nil {
				seq = []int{}
			}
			r = ret{Kind: "S", Seq: seq}
		default:
			panic("bad op " + op.K)
		}
	})
	if kind != "" {
		r = ret{Kind: "P", Panic: kind}
	}
	return r
}

// observe: Len, Do, Next, Prev of every handle except the zero Rings no operation has touched yet
// (fresh): observing one would initialise it, and the lazy initialisation inside Prev / Move / Link /
// Len / Do is itself part of what is compared.
func (a *ringA) observe(fresh map[int]bool) rstate {
	var s rstate
	for i, x := range a.hs {
		if fresh[i] {
			continue
		}
		var o ringObs
		// Do first as a guard for Len (same loop shape); the model calls Len first, which
		// is indistinguishable: both only initialise a zero Ring.
		seq, ok := doSeqA(x)
		if ok {
			o.Len = x.Len()
		} else {
			o.Len = -98
			a.blind = a.blind || (len(seq) == 1 && seq[0] == -99)
		}
		o.Seq = seq
		o.N = a.idx(x.Next())
		o.P = a.idx(x.Prev())
		s = append(s, o)
	}
	return s
}

type ringB struct {
	hs    []*stdring.Ring
	blind bool         // a walk hit walkBound
	fresh map[int]bool // handles of zero Rings no operation has named yet (shared by both sides)
}

func (a *ringB) idx(r *stdring.Ring) int {
	if r == nil {
		return -1
	}
	for i, x := range a.hs {
		if x == r {
			return i
		}
	}
	return -2
}
func (a *ringB) add(r *stdring.Ring) int {
	if r == nil {
		return -1
	}
	if i := a.idx(r); i >= 0 {
		return i
	}
	a.hs = append(a.hs, r)
	return len(a.hs) - 1
}
func (a *ringB) h(k int) *stdring.Ring {
	if k < 0 || k >= len(a.hs) {
		return nil
	}
	return a.hs[k]
}

func doSeqB(r *stdring.Ring) (seq []int, ok bool) {
	ok = true
	defer func() {
		if x := recover(); x != nil {
			if _, is := x.(guard); !is {
				// Do ran into a broken link (nil next): a corrupted ring, reported as such
				seq, ok = []int{-96}, false
				return
			}
			seq, ok = []int{-99}, false
		}
	}()
	r.Do(func(v any) {
		if len(seq) >= walkBound {
			panic(guard{})
		}
		seq = append(seq, ival(v))
	})
	return
}

func (a *ringB) do(op Op) (r ret) {
	kind := core.Try(func() {
		switch op.K {
		case "RZero":
			r = ret{Kind: "H", V: a.add(&stdring.Ring{Value: op.A})}
		case "RNew":
			x := stdring.New(op.A)
			p := x
			for i := 0; i < op.A; i++ {
				p.Value = op.B + i
				p = p.Next()
			}
			r = ret{Kind: "H", V: a.add(x)}
		case "RNext":
			r = ret{Kind: "H", V: a.add(a.h(op.A).Next())}
		case "RPrev":
			r = ret{Kind: "H", V: a.add(a.h(op.A).Prev())}
		case "RMove":
			r = ret{Kind: "H", V: a.add(a.h(op.A).Move(op.B))}
		case "RLink":
			r = ret{Kind: "H", V: a.add(a.h(op.A).Link(a.h(op.B)))}
		case "RUnlink":
			r = ret{Kind: "H", V: a.add(a.h(op.A).Unlink(op.B))}
		case "RLen":
			x := a.h(op.A)
			if a.fresh[op.A] {
				// a zero Ring nothing has touched yet: Len itself must be the first call (its own lazy
				// initialisation is what is compared); a fresh zero Ring cannot be large
				r = ret{Kind: "V", V: x.Len()}
			} else if seq, ok := doSeqB(x); !ok {
				r = ret{Kind: "V", V: -98}
				a.blind = a.blind || (len(seq) == 1 && seq[0] == -99)
			} else {
				r = ret{Kind: "V", V: x.Len()}
			}
		case "RDo":
			seq, _ := doSeqB(a.h(op.A))
			if seq == nil {
				seq = []int{}
			}
			r = ret{Kind: "S", Seq: seq}
		default:
			panic("bad op " + op.K)
		}
	})
	if kind != "" {
		r = ret{Kind: "P", Panic: kind}
	}
	return r
}

// observe: Len, Do, Next, Prev of every handle except the zero Rings no operation has touched yet
// (fresh): observing one would initialise it, and the lazy initialisation inside Prev / Move / Link /
// Len / Do is itself part of what is compared.
func (a *ringB) observe(fresh map[int]bool) rstate {
	var s rstate
	for i, x := range a.hs {
		if fresh[i] {
			continue
		}
		var o ringObs
		// Do first as a guard for Len (same loop shape); the model calls Len first, which
		// is indistinguishable: both only initialise a zero Ring.
		seq, ok := doSeqB(x)
		if ok {
			o.Len = x.Len()
		} else {
			o.Len = -98
			a.blind = a.blind || (len(seq) == 1 && seq[0] == -99)
		}
		o.Seq = seq
		o.N = a.idx(x.Next())
		o.P = a.idx(x.Prev())
		s = append(s, o)
	}
	return s
}

// sameRing reports whether handles r and s are non-nil nodes of one ring (reference side).
func (a *ringB) sameRing(r, s int) (same, both bool) {
	x, y := a.h(r), a.h(s)
	if x == nil || y == nil {
		return false, false
	}
	p := x
	for i := 0; i < walkBound; i++ {
		if p == y {
			return true, true
		}
		p = p.Next()
		if p == x {
			break
		}
	}
	return false, true
}

// touch maintains the set of fresh zero Rings (handle indices): RZero creates one, any operation that
// names a handle as an argument ends its freshness (the Coq side applies the same syntactic rule).
func touch(c *core.Ctx, fresh map[int]bool, op Op, r ret) {
	hit := func(k int, what string) {
		if fresh[k] {
			c.Count("fresh_zero_" + what) // this call was the first one on a zero Ring
			delete(fresh, k)
		}
	}
	switch op.K {
	case "RZero":
		if r.Kind == "H" && r.V >= 0 {
			fresh[r.V] = true
		}
	case "RNew":
	case "RLink":
		if fresh[op.A] && op.A == op.B {
			c.Count("fresh_zero_RLink_self")
		}
		hit(op.A, "RLink_r")
		hit(op.B, "RLink_s")
	case "RUnlink":
		if op.B > 0 {
			hit(op.A, "RUnlink")
		} else {
			delete(fresh, op.A) // returns nil before touching the ring; the observation will initialise it
		}
	default:
		hit(op.A, op.K)
	}
}

// freshZeroOps: every one of these must have been the first call on a zero Ring at least once per run,
// otherwise the lazy-initialisation branches are not compared and the oracle says so.
var freshZeroOps = []string{"RNext", "RPrev", "RMove", "RLink_r", "RLink_s", "RUnlink", "RLen", "RDo"}

// ---- executing a case ----------------------------------------------------------------------

func coqOp(kind string, op Op) string {
	switch kind {
	case "list":
		switch op.K {
		case "New", "NewInit":
			return "L" + op.K
		case "Elem", "Init", "Len", "Front", "Back", "Next", "Prev":
			return "L" + op.K + " " + core.Z(op.A)
		case "PushFront", "PushBack", "Remove", "MoveToFront", "MoveToBack", "PushBackList", "PushFrontList":
			return "L" + op.K + " " + core.Z(op.A) + " " + core.Z(op.B)
		default:
			return "L" + op.K + " " + core.Z(op.A) + " " + core.Z(op.B) + " " + core.Z(op.C)
		}
	default:
		switch op.K {
		case "RZero", "RNext", "RPrev", "RLen", "RDo":
			return op.K + " " + core.Z(op.A)
		default:
			return op.K + " " + core.Z(op.A) + " " + core.Z(op.B)
		}
	}
}

func retEq(a, b ret) bool {
	return a.Kind == b.Kind && a.V == b.V && a.Panic == b.Panic && core.Eq(a.Seq, b.Seq)
}

func execCase(c *core.Ctx, cs Case, emit bool) {
	if cs.Kind == "biglist" || cs.Kind == "bigring" {
		execBig(c, cs)
		return
	}
	c.Begin(cs)
	c.Count("kind_" + cs.Kind)
	c.CountN("ops", len(cs.Ops))
	ops := make([]string, len(cs.Ops))
	obs := make([]string, len(cs.Ops))
	final := "[]"
	failed := false
	fail := func(what, detail string) {
		if !failed {
			c.Fail(what, detail)
			failed = true
		}
	}
	if cs.Kind == "list" {
		a, b := &sideA{}, &sideB{}
		foreign, removed, self, nilh := false, false, false, false
		for i, op := range cs.Ops {
			c.Count("op_" + op.K)
			// classification of the handle arguments (reference side, before the call)
			switch op.K {
			case "Remove", "MoveToFront", "MoveToBack", "MoveBefore", "MoveAfter", "InsertBefore", "InsertAfter":
				hk := []int{op.B}
				if op.K == "InsertBefore" || op.K == "InsertAfter" {
					hk = []int{op.C}
				} else if op.K == "MoveBefore" || op.K == "MoveAfter" {
					hk = []int{op.B, op.C}
				}
				for _, k := range hk {
					switch ow := b.owner(k); {
					case b.h(k) == nil:
						nilh = true
						c.Count("handle_nil")
					case ow == op.A:
						c.Count("handle_live")
					case ow >= 0:
						foreign = true
						c.Count("handle_foreign")
					default:
						removed = true
						c.Count("handle_removed_or_zero")
					}
				}
			case "PushBackList", "PushFrontList":
				if op.A == op.B {
					self = true
					c.Count("pushlist_self")
				}
			}
			if op.K != "New" && op.K != "NewInit" && op.K != "Elem" && op.K != "Next" && op.K != "Prev" &&
				(op.A < 0 || op.A >= len(b.ls)) {
				fail("harness: list index out of range", fmt.Sprint(op))
				return
			}
			if (op.K == "PushBackList" || op.K == "PushFrontList") && (op.B < 0 || op.B >= len(b.ls)) {
				fail("harness: list index out of range", fmt.Sprint(op))
				return
			}
			ra, rb := a.do(op), b.do(op)
			if !retEq(ra, rb) {
				fail("return value differs from container/list", fmt.Sprintf("op %d %v: lists %v, container/list %v", i, op, ra, rb))
			}
			if ra.Kind == "P" {
				c.Count("panic_" + ra.Panic)
			}
			sa, sb := a.observe(), b.observe()
			if sb.blind() {
				c.Unobservable("list walk bound reached on container/list: traversals not compared")
			}
			if da, db := fmt.Sprint(sa), fmt.Sprint(sb); da != db {
				fail("state differs from container/list", fmt.Sprintf("after op %d %v: lists %s, container/list %s", i, op, da, db))
			}
			ops[i] = coqOp("list", op)
			obs[i] = core.Pair(ra.coq(), core.Z(sa.hash()))
			final = sa.coqFinal()
		}
		if (foreign || removed) && len(cs.Ops) >= 4 {
			c.Nontrivial()
		}
		if foreign {
			c.Count("case_foreign")
		}
		if removed {
			c.Count("case_removed")
		}
		if self {
			c.Count("case_self_pushlist")
		}
		if nilh {
			c.Count("case_nil_handle")
		}
		if emit {
			c.Emit("CList " + core.List(ops) + " " + core.List(obs) + " " + final)
		}
		return
	}
	fresh := map[int]bool{}
	a, b := &ringA{fresh: fresh}, &ringB{fresh: fresh}
	sameL, diffL := false, false
	for i, op := range cs.Ops {
		c.Count("op_" + op.K)
		if op.K == "RLink" {
			if same, both := b.sameRing(op.A, op.B); both {
				if same {
					sameL = true
					c.Count("link_same_ring")
				} else {
					diffL = true
					c.Count("link_other_ring")
				}
			} else {
				c.Count("link_nil")
			}
		}
		ra, rb := a.do(op), b.do(op)
		if !retEq(ra, rb) {
			fail("return value differs from container/ring", fmt.Sprintf("op %d %v: lists %v, container/ring %v", i, op, ra, rb))
		}
		if ra.Kind == "P" {
			c.Count("panic_" + ra.Panic)
		}
		touch(c, fresh, op, ra)
		sa, sb := a.observe(fresh), b.observe(fresh)
		if da, db := fmt.Sprint(sa), fmt.Sprint(sb); da != db {
			fail("state differs from container/ring", fmt.Sprintf("after op %d %v: lists %s, container/ring %s", i, op, da, db))
		}
		ops[i] = coqOp("ring", op)
		obs[i] = core.Pair(ra.coq(), core.Z(sa.hash()))
	}
	// at the end every handle is observed, also the zero Rings that were never used
	sa, sb := a.observe(nil), b.observe(nil)
	if da, db := fmt.Sprint(sa), fmt.Sprint(sb); da != db {
		fail("final state differs from container/ring", fmt.Sprintf("lists %s, container/ring %s", da, db))
	}
	final = sa.coqFinal()
	if b.blind {
		c.Unobservable("ring walk bound reached on container/ring: Len/Do not compared")
	}
	if sameL || diffL {
		c.Nontrivial()
	}
	if sameL && diffL {
		c.Count("case_both_links")
	}
	if emit {
		c.Emit("CRing " + core.List(ops) + " " + core.List(obs) + " " + final)
	}
}

// ---- generators ------------------------------------------------------------------------------

var listPrefix = []Op{
	{K: "New"}, {K: "NewInit"},
	{K: "PushBack", A: 0, B: 10}, {K: "PushBack", A: 0, B: 11}, // h0 h1 live in list 0
	{K: "PushBack", A: 1, B: 12},                             // h2 live in list 1
	{K: "Elem", A: 13},                                       // h3 zero Element
	{K: "PushFront", A: 0, B: 14}, {K: "Remove", A: 0, B: 4}, // h4 removed
}

// every operation over 2 lists and handle indices 0..nh (nh = nil)
func listAlphabet(nh int) []Op {
	var al []Op
	for l := 0; l < 2; l++ {
		al = append(al, Op{K: "Init", A: l}, Op{K: "PushFront", A: l, B: 20}, Op{K: "PushBack", A: l, B: 21},
			Op{K: "Front", A: l}, Op{K: "Back", A: l})
		for o := 0; o < 2; o++ {
			al = append(al, Op{K: "PushBackList", A: l, B: o}, Op{K: "PushFrontList", A: l, B: o})
		}
		for h := 0; h <= nh; h++ {
			al = append(al, Op{K: "InsertBefore", A: l, B: 22, C: h}, Op{K: "InsertAfter", A: l, B: 23, C: h},
				Op{K: "Remove", A: l, B: h}, Op{K: "MoveToFront", A: l, B: h}, Op{K: "MoveToBack", A: l, B: h})
			for m := 0; m <= nh; m++ {
				al = append(al, Op{K: "MoveBefore", A: l, B: h, C: m}, Op{K: "MoveAfter", A: l, B: h, C: m})
			}
		}
	}
	for h := 0; h <= nh; h++ {
		al = append(al, Op{K: "Next", A: h}, Op{K: "Prev", A: h})
	}
	return al
}

var ringPrefix = []Op{
	{K: "RNew", A: 3, B: 10}, // h0
	{K: "RZero", A: 20},      // h1 zero ring
	{K: "RNew", A: 2, B: 30}, // h2
	{K: "RNext", A: 0},       // h3 same ring as h0
}

func ringAlphabet(nh int) []Op {
	var al []Op
	for h := 0; h <= nh; h++ {
		al = append(al, Op{K: "RNext", A: h}, Op{K: "RPrev", A: h}, Op{K: "RLen", A: h}, Op{K: "RDo", A: h})
		for n := -4; n <= 5; n++ {
			al = append(al, Op{K: "RMove", A: h, B: n}, Op{K: "RUnlink", A: h, B: n})
		}
		for s := 0; s <= nh; s++ {
			al = append(al, Op{K: "RLink", A: h, B: s})
		}
	}
	al = append(al, Op{K: "RNew", A: 0, B: 1}, Op{K: "RNew", A: -1, B: 1}, Op{K: "RNew", A: 1, B: 40}, Op{K: "RZero", A: 50})
	return al
}

// regression cases that run on every check
var fixedCases = []Case{
	// other.Len() exceeds what is reachable from other.Front()/Back() (Init of a non-empty list, then
	// inserts next to its stale element): PushBackList / PushFrontList copy the sentinel, run off the
	// chain and panic after having inserted; the partial effect must be kept
	{"list", []Op{{K: "NewInit"}, {K: "NewInit"}, {K: "PushBack", A: 1, B: 10}, {K: "Init", A: 1},
		{K: "InsertAfter", A: 1, B: 20, C: 0}, {K: "InsertAfter", A: 1, B: 21, C: 0},
		{K: "PushBackList", A: 0, B: 1}, {K: "PushFrontList", A: 0, B: 1}, {K: "PushBack", A: 0, B: 30},
		{K: "PushBackList", A: 1, B: 1}, {K: "PushFrontList", A: 1, B: 1}}},
	// the history of the thorough run that first showed it
	{"list", []Op{{K: "New", A: 0, B: 0, C: 0}, {K: "NewInit", A: 0, B: 0, C: 0}, {K: "InsertBefore", A: 1, B: 101, C: 0}, {K: "InsertBefore", A: 0, B: 102, C: 0}, {K: "PushBack", A: 1, B: 103, C: 0}, {K: "InsertBefore", A: 1, B: 104, C: 0}, {K: "PushBack", A: 0, B: 105, C: 0}, {K: "MoveToFront", A: 1, B: 0, C: 0}, {K: "MoveBefore", A: 1, B: 0, C: 0}, {K: "InsertBefore", A: 0, B: 108, C: 0}, {K: "InsertBefore", A: 0, B: 109, C: 2}, {K: "PushFrontList", A: 0, B: 0, C: 0}, {K: "Prev", A: 1, B: 0, C: 0}, {K: "PushBackList", A: 1, B: 1, C: 0}, {K: "PushFront", A: 1, B: 113, C: 0}, {K: "Prev", A: 3, B: 0, C: 0}, {K: "PushBack", A: 0, B: 115, C: 0}, {K: "PushFront", A: 0, B: 116, C: 0}, {K: "Init", A: 1, B: 0, C: 0}, {K: "Remove", A: 0, B: 0, C: 0}, {K: "Front", A: 0, B: 0, C: 0}, {K: "InsertAfter", A: 1, B: 120, C: 4}, {K: "InsertBefore", A: 1, B: 121, C: 1}, {K: "PushFrontList", A: 0, B: 0, C: 0}, {K: "PushBack", A: 0, B: 123, C: 0}, {K: "PushFrontList", A: 0, B: 1, C: 0}, {K: "PushBack", A: 1, B: 125, C: 0}, {K: "PushBack", A: 1, B: 126, C: 0}, {K: "PushBack", A: 0, B: 127, C: 0}, {K: "PushBack", A: 1, B: 128, C: 0}}},
}

func cat(p []Op, more ...Op) []Op { return append(append([]Op{}, p...), more...) }

func run(c *core.Ctx) {
	// exhaustive small scope: every operation, and every pair of operations, after a prefix that
	// provides live, foreign, removed, zero-Element and nil handles (rings: two rings, a zero Ring, nil)
	for _, cs := range fixedCases {
		execCase(c, cs, true)
	}
	la, ra := listAlphabet(5), ringAlphabet(4)
	every := c.N(32, 2, 1) // of the pairs, every n-th goes to the model as well
	k := 0
	for _, x := range la {
		execCase(c, Case{"list", cat(listPrefix, x)}, true)
		for _, y := range la {
			k++
			execCase(c, Case{"list", cat(listPrefix, x, y)}, k%every == 0)
		}
	}
	for _, x := range ra {
		execCase(c, Case{"ring", cat(ringPrefix, x)}, true)
		for _, y := range ra {
			k++
			execCase(c, Case{"ring", cat(ringPrefix, x, y)}, k%every == 0)
		}
	}
	c.Exhaustive = true
	c.Note(fmt.Sprintf("exhaustive: after a fixed prefix (2 lists, live/foreign/removed/zero/nil handles; 2 rings + zero Ring + nil) "+
		"every operation and every pair of operations: %d list ops, %d ring ops; all run in lock-step against the standard library, "+
		"every %d-th pair also evaluated by the Coq model; plus random histories", len(la), len(ra), every))
	for i := c.N(500, 12000, 20000); i > 0; i-- {
		execCase(c, Case{"list", genList(c.Rng, 4+c.Rng.Size(c.N(26, 60, 80)))}, true)
	}
	for i := c.N(400, 8000, 20000); i > 0; i-- {
		execCase(c, Case{"ring", genRing(c.Rng, 3+c.Rng.Size(c.N(16, 40, 60)))}, true)
	}
	runBig(c)
	for _, k := range freshZeroOps {
		if c.Stats["fresh_zero_"+k] == 0 {
			c.Unobservable("no case had " + k + " as the first call on a zero Ring: its lazy initialisation was not compared")
		}
	}
}

// genList builds a history while running it on container/list, so that handles can be chosen by
// category: 60% live in the target list, 20% removed, 15% of another list, 5% zero Element / nil.
func genList(r *core.Rand, n int) []Op {
	b := &sideB{}
	var ops []Op
	emit := func(op Op) { ops = append(ops, op); b.do(op) }
	emit(Op{K: "New"})
	emit(Op{K: "NewInit"})
	if r.Chance(40) {
		emit(Op{K: "New"})
	}
	val := 100
	pick := func(l int) int {
		var live, foreign, dead []int
		for k := range b.hs {
			switch ow := b.owner(k); {
			case ow == l:
				live = append(live, k)
			case ow >= 0:
				foreign = append(foreign, k)
			default:
				dead = append(dead, k)
			}
		}
		x := r.Intn(100)
		switch {
		case x < 60 && len(live) > 0:
			return live[r.Intn(len(live))]
		case x < 80 && len(dead) > 0:
			return dead[r.Intn(len(dead))]
		case x < 95 && len(foreign) > 0:
			return foreign[r.Intn(len(foreign))]
		case x >= 98:
			return len(b.hs) + r.Intn(2) // nil
		}
		if len(b.hs) == 0 {
			return 0
		}
		return r.Intn(len(b.hs))
	}
	for len(ops) < n {
		l := r.Intn(len(b.ls))
		val++
		switch x := r.Intn(100); {
		case x < 14:
			emit(Op{K: "PushBack", A: l, B: val})
		case x < 26:
			emit(Op{K: "PushFront", A: l, B: val})
		case x < 34:
			emit(Op{K: "InsertBefore", A: l, B: val, C: pick(l)})
		case x < 42:
			emit(Op{K: "InsertAfter", A: l, B: val, C: pick(l)})
		case x < 54:
			emit(Op{K: "Remove", A: l, B: pick(l)})
		case x < 60:
			emit(Op{K: "MoveToFront", A: l, B: pick(l)})
		case x < 66:
			emit(Op{K: "MoveToBack", A: l, B: pick(l)})
		case x < 73:
			emit(Op{K: "MoveBefore", A: l, B: pick(l), C: pick(l)})
		case x < 80:
			emit(Op{K: "MoveAfter", A: l, B: pick(l), C: pick(l)})
		case x < 84:
			o := l
			if r.Chance(50) {
				o = r.Intn(len(b.ls))
			}
			if b.ls[l].Len()+b.ls[o].Len() < 40 {
				emit(Op{K: "PushBackList", A: l, B: o})
			}
		case x < 88:
			o := l
			if r.Chance(50) {
				o = r.Intn(len(b.ls))
			}
			if b.ls[l].Len()+b.ls[o].Len() < 40 {
				emit(Op{K: "PushFrontList", A: l, B: o})
			}
		case x < 90:
			emit(Op{K: "Front", A: l})
		case x < 92:
			emit(Op{K: "Back", A: l})
		case x < 94:
			emit(Op{K: "Next", A: pick(l)})
		case x < 96:
			emit(Op{K: "Prev", A: pick(l)})
		case x < 97:
			emit(Op{K: "Elem", A: val})
		case x < 98:
			emit(Op{K: "Len", A: l})
		case x < 99:
			emit(Op{K: "Init", A: l}) // also on non-empty lists: the stale elements keep e.list == l
		default:
			if len(b.ls) < 4 {
				emit(Op{K: []string{"New", "NewInit"}[r.Intn(2)]})
			}
		}
	}
	return ops
}

func genRing(r *core.Rand, n int) []Op {
	b := &ringB{}
	var ops []Op
	nodes := 0
	emit := func(op Op) { ops = append(ops, op); b.do(op) }
	emit(Op{K: "RNew", A: 1 + r.Intn(5), B: 10})
	nodes += ops[0].A
	pick := func() int {
		if r.Chance(4) || len(b.hs) == 0 {
			return len(b.hs) + r.Intn(2) // nil
		}
		return r.Intn(len(b.hs))
	}
	count := func(h int) int {
		ln := 1
		if x := b.h(h); x != nil {
			ln = x.Len()
		}
		if r.Chance(15) {
			return 0
		}
		return r.Range(-2*ln, 2*ln+1)
	}
	for len(ops) < n {
		switch x := r.Intn(100); {
		case x < 8 && nodes < 24:
			k := r.Range(-1, 5)
			emit(Op{K: "RNew", A: k, B: 10 * (len(ops) + 2)})
			if k > 0 {
				nodes += k
			}
		case x < 14 && nodes < 24:
			emit(Op{K: "RZero", A: 10*(len(ops)+2) + 5})
			nodes++
		case x < 24:
			emit(Op{K: "RNext", A: pick()})
		case x < 32:
			emit(Op{K: "RPrev", A: pick()})
		case x < 46:
			h := pick()
			emit(Op{K: "RMove", A: h, B: count(h)})
		case x < 72:
			emit(Op{K: "RLink", A: pick(), B: pick()})
		case x < 90:
			h := pick()
			emit(Op{K: "RUnlink", A: h, B: count(h)})
		case x < 95:
			emit(Op{K: "RLen", A: pick()})
		default:
			emit(Op{K: "RDo", A: pick()})
		}
	}
	return ops
}

var _ = strings.Join
