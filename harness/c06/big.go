package c06

// Oracle-heavy, model-sampled stream: large lists and rings, and Ring.Move /
// Unlink counts of large magnitude and both signs, run in lock-step against
// container/list and container/ring. These cases are checked by the Go oracle
// only (kind "biglist" / "bigring": return value, value of the returned node
// and Len after every call, the complete observable state every few calls and
// at the end); a small sample of moderately large ones also goes through the
// ordinary path and is evaluated by the Coq model.

import (
	"fmt"
	"reflect"

	"verif/harness/core"
)

// lengths with extra density around powers of two
var bigSizes = []int{15, 16, 17, 31, 32, 33, 63, 64, 65, 100, 127, 128, 129, 255, 256, 257, 511, 512, 513,
	1000, 1023, 1024, 1025, 2047, 2048, 2049, 4095, 4096, 4097}

var ringLens = []int{1, 2, 3, 4, 5, 6, 7, 8, 9, 12, 15, 16, 17, 31, 32, 33, 41, 63, 64, 65, 100, 127, 128, 129,
	255, 256, 257, 1000, 1023, 1024, 1025, 2047, 2048, 2049, 4095, 4096, 4097}

const maxCount = 1 << 20 // container/ring's Move walks |n| steps

func clip(s string) string {
	if len(s) > 700 {
		return s[:700] + "..."
	}
	return s
}

func execBig(c *core.Ctx, cs Case) {
	c.Begin(cs)
	c.Count("kind_" + cs.Kind)
	c.CountN("ops", len(cs.Ops))
	failed := false
	fail := func(what, detail string) {
		if !failed {
			c.Fail(what, clip(detail))
			failed = true
		}
	}
	every := 1 + len(cs.Ops)/12
	if cs.Kind == "biglist" {
		a, b := &sideA{}, &sideB{}
		for i, op := range cs.Ops {
			switch op.K {
			case "New", "NewInit", "Elem", "Next", "Prev":
			default:
				if op.A < 0 || op.A >= len(b.ls) ||
					((op.K == "PushBackList" || op.K == "PushFrontList") && (op.B < 0 || op.B >= len(b.ls))) {
					fail("harness: list index out of range", fmt.Sprint(op))
					return
				}
			}
			ra, rb := a.do(op), b.do(op)
			if !retEq(ra, rb) {
				fail("return value differs from container/list", fmt.Sprintf("op %d %v: lists %v, container/list %v", i, op, ra, rb))
			}
			if ra.Kind == "H" && ra.V >= 0 && rb.Kind == "H" && rb.V == ra.V {
				if va, vb := a.h(ra.V).Value, ival(b.h(rb.V).Value); va != vb {
					fail("returned element differs from container/list", fmt.Sprintf("op %d %v: Value %d vs %d", i, op, va, vb))
				}
			}
			for li := range a.ls {
				if la, lb := a.ls[li].Len(), b.ls[li].Len(); la != lb {
					fail("Len differs from container/list", fmt.Sprintf("after op %d %v: list %d Len %d vs %d", i, op, li, la, lb))
				}
			}
			if i%every == every-1 || i == len(cs.Ops)-1 {
				sa, sb := a.observe(), b.observe()
				if sb.blind() {
					c.Unobservable("list walk bound reached on container/list: traversals not compared")
				}
				if !reflect.DeepEqual(sa, sb) {
					fail("state differs from container/list", fmt.Sprintf("after op %d %v: lists %v, container/list %v", i, op, sa, sb))
				}
			}
			if failed {
				return
			}
		}
		n := 0
		for _, l := range b.ls {
			if l.Len() > n {
				n = l.Len()
			}
		}
		c.Count(fmt.Sprintf("biglist_len_le_%d", bucket(n)))
		c.Nontrivial()
		return
	}
	fresh := map[int]bool{}
	a, b := &ringA{fresh: fresh}, &ringB{fresh: fresh}
	for i, op := range cs.Ops {
		if (op.K == "RMove" || op.K == "RUnlink") && (op.B > 1<<25 || op.B < -(1<<25)) {
			fail("harness: count too large for the reference implementation", fmt.Sprint(op))
			return
		}
		ra, rb := a.do(op), b.do(op)
		if !retEq(ra, rb) {
			fail("return value differs from container/ring", fmt.Sprintf("op %d %v: lists %v, container/ring %v", i, op, ra, rb))
		}
		if ra.Kind == "H" && ra.V >= 0 && rb.Kind == "H" && rb.V == ra.V {
			if va, vb := a.h(ra.V).Value, ival(b.h(rb.V).Value); va != vb {
				fail("returned node differs from container/ring",
					fmt.Sprintf("op %d %v: lists returns the node with Value %d, container/ring the node with Value %d", i, op, va, vb))
			}
		}
		if op.K == "RMove" || op.K == "RUnlink" {
			switch n := op.B; {
			case n <= -1024:
				c.Count("count_le_-1024")
			case n < 0:
				c.Count("count_negative")
			case n >= 1024:
				c.Count("count_ge_1024")
			default:
				c.Count("count_small")
			}
		}
		touch(c, fresh, op, ra)
		if i%every == every-1 {
			sa, sb := a.observe(fresh), b.observe(fresh)
			if !reflect.DeepEqual(sa, sb) {
				fail("state differs from container/ring", fmt.Sprintf("after op %d %v: lists %v, container/ring %v", i, op, sa, sb))
			}
		}
		if failed {
			return
		}
	}
	sa, sb := a.observe(nil), b.observe(nil)
	if !reflect.DeepEqual(sa, sb) {
		fail("final state differs from container/ring", fmt.Sprintf("lists %v, container/ring %v", sa, sb))
	}
	if b.blind {
		c.Unobservable("ring walk bound reached on container/ring: Len/Do not compared")
	}
	c.Nontrivial()
}

func bucket(n int) int {
	b := 16
	for b < n {
		b *= 2
	}
	return b
}

// counts of both signs: +-2^k, +-(2^k-1), +-(2^k+1) for k <= maxK, multiples of the length and their
// neighbours, capped at maxCount
func moveCounts(L, maxK int) []int {
	seen := map[int]bool{}
	var out []int
	add := func(n int) {
		if n > maxCount+1 || n < -maxCount-1 || seen[n] {
			return
		}
		seen[n] = true
		out = append(out, n)
	}
	for k := 0; k <= maxK; k++ {
		for _, d := range []int{-1, 0, 1} {
			add((1 << k) + d)
			add(-((1 << k) + d))
		}
	}
	for _, m := range []int{1, 2, 3, 1000, maxCount / L} {
		for _, d := range []int{-1, 0, 1} {
			add(L*m + d)
			add(-(L*m + d))
		}
	}
	return out
}

func shuffle(r *core.Rand, s []int) {
	for i := len(s) - 1; i > 0; i-- {
		j := r.Intn(i + 1)
		s[i], s[j] = s[j], s[i]
	}
}

// Move with the given counts from handles spread over one ring of length L (the handle table is
// simulated: a node is named by its position)
func ringMoves(r *core.Rand, L int, counts []int) []Op {
	ops := []Op{{K: "RNew", A: L, B: 0}}
	pos := []int{0}
	has := map[int]bool{0: true}
	for i, n := range counts {
		h := r.Intn(len(pos))
		ops = append(ops, Op{K: "RMove", A: h, B: n})
		q := ((pos[h]+n)%L + L) % L
		if !has[q] {
			has[q] = true
			pos = append(pos, q)
		}
		if i%16 == 15 {
			ops = append(ops, Op{K: []string{"RLen", "RDo"}[r.Intn(2)], A: r.Intn(len(pos))})
		}
	}
	return ops
}

func genRingMoves(r *core.Rand, L, maxK int) []Op {
	cs := moveCounts(L, maxK)
	shuffle(r, cs)
	return ringMoves(r, L, cs)
}

// big rings: splice, cut far apart, Unlink by large counts and by multiples of the length
func genRingStruct(r *core.Rand, La, Lb int) []Op {
	b := &ringB{}
	var ops []Op
	emit := func(op Op) { ops = append(ops, op); b.do(op) }
	emit(Op{K: "RNew", A: La, B: 0})
	emit(Op{K: "RNew", A: Lb, B: 10000})
	emit(Op{K: "RZero", A: 20000})
	pick := func() int {
		if r.Chance(3) {
			return len(b.hs) + 1 // nil
		}
		return r.Intn(len(b.hs))
	}
	lenOf := func(h int) int {
		if x := b.h(h); x != nil {
			return x.Len()
		}
		return 1
	}
	for len(ops) < 48 {
		h := pick()
		L := lenOf(h)
		switch x := r.Intn(100); {
		case x < 30:
			n := []int{r.Range(-2*L, 2*L), L / 2, -L / 2, L - 1, -(L - 1), L + 1, r.Range(1, 3) * 1024, -r.Range(1, 3) * 1024,
				-(1024 + r.Intn(3)), 1 << uint(r.Range(8, 17)), -(1 << uint(r.Range(8, 17)))}[r.Intn(11)]
			emit(Op{K: "RMove", A: h, B: n})
		case x < 55:
			emit(Op{K: "RLink", A: h, B: pick()})
		case x < 80:
			n := []int{r.Range(0, L), L, 2 * L, 3 * L, L*r.Range(2, 40) - 1, L*r.Range(2, 40) + 1, L * r.Range(2, 200),
				1 << uint(r.Range(8, 17)), (1 << uint(r.Range(8, 17))) + 1, 0, -r.Range(1, 5000)}[r.Intn(11)]
			if n > maxCount {
				n = maxCount
			}
			emit(Op{K: "RUnlink", A: h, B: n})
		case x < 86:
			emit(Op{K: "RNext", A: h})
		case x < 92:
			emit(Op{K: "RPrev", A: h})
		case x < 96:
			emit(Op{K: "RLen", A: h})
		case x < 98:
			emit(Op{K: "RDo", A: h})
		default:
			emit(Op{K: "RNew", A: []int{0, -3, 1, 2, 17, 256}[r.Intn(6)], B: 30000 + 1000*len(ops)})
		}
	}
	return ops
}

// a list of N elements built by every insertion method, then moves (also of adjacent elements, to
// the ends, with foreign and removed handles), removals, inserts, list copies (also onto itself)
func genBigList(r *core.Rand, N, extra int) []Op {
	b := &sideB{}
	var ops []Op
	emit := func(op Op) { ops = append(ops, op); b.do(op) }
	emit(Op{K: "New"})
	emit(Op{K: "NewInit"})
	val := 0
	any := func() int {
		if len(b.hs) == 0 || r.Chance(1) {
			return len(b.hs) + 1
		}
		return r.Intn(len(b.hs))
	}
	// neighbour of handle k in its list (or k itself)
	nbr := func(k int, fwd bool) int {
		e := b.h(k)
		if e == nil {
			return k
		}
		x := e.Prev()
		if fwd {
			x = e.Next()
		}
		if i := b.idx(x); i >= 0 {
			return i
		}
		return k
	}
	for i := 0; i < 3; i++ { // a few elements of the other list: foreign handles
		val++
		emit(Op{K: "PushBack", A: 1, B: -val})
	}
	for b.ls[0].Len() < N {
		val++
		switch x := r.Intn(10); {
		case x < 5:
			emit(Op{K: "PushBack", A: 0, B: val})
		case x < 7:
			emit(Op{K: "PushFront", A: 0, B: val})
		case x < 8 && b.ls[0].Len() > 0:
			emit(Op{K: "InsertBefore", A: 0, B: val, C: any()})
		case b.ls[0].Len() > 0:
			emit(Op{K: "InsertAfter", A: 0, B: val, C: any()})
		}
	}
	for k := 0; k < extra; k++ {
		val++
		l := 0
		if r.Chance(10) {
			l = 1
		}
		e := any()
		switch x := r.Intn(100); {
		case x < 10:
			emit(Op{K: "MoveToFront", A: l, B: e})
		case x < 20:
			emit(Op{K: "MoveToBack", A: l, B: e})
		case x < 32:
			m := []int{any(), nbr(e, true), nbr(e, false), e}[r.Intn(4)]
			emit(Op{K: "MoveBefore", A: l, B: e, C: m})
		case x < 44:
			m := []int{any(), nbr(e, true), nbr(e, false), e}[r.Intn(4)]
			emit(Op{K: "MoveAfter", A: l, B: e, C: m})
		case x < 60:
			emit(Op{K: "Remove", A: l, B: e})
		case x < 68:
			emit(Op{K: "InsertBefore", A: l, B: val, C: e})
		case x < 76:
			emit(Op{K: "InsertAfter", A: l, B: val, C: e})
		case x < 80:
			emit(Op{K: "PushBack", A: l, B: val})
		case x < 84:
			emit(Op{K: "PushFront", A: l, B: val})
		case x < 87:
			emit(Op{K: "Front", A: l})
		case x < 90:
			emit(Op{K: "Back", A: l})
		case x < 93:
			emit(Op{K: "Next", A: e})
		case x < 96:
			emit(Op{K: "Prev", A: e})
		default:
			o := r.Intn(2)
			if b.ls[l].Len()+b.ls[o].Len() <= 2*4097 {
				emit(Op{K: []string{"PushBackList", "PushFrontList"}[r.Intn(2)], A: l, B: o})
			}
		}
	}
	// remove a run from the front, refill, copy the list onto itself
	for k := 0; k < 20 && b.ls[0].Len() > 0; k++ {
		emit(Op{K: "Remove", A: 0, B: b.idx(b.ls[0].Front())})
	}
	if b.ls[0].Len() <= 4097 {
		emit(Op{K: "PushBackList", A: 0, B: 0})
	}
	emit(Op{K: "Len", A: 0})
	return ops
}

// drain a list completely and reuse it
func genDrain(r *core.Rand, N int) []Op {
	ops := []Op{{K: "New"}}
	for i := 0; i < N; i++ {
		ops = append(ops, Op{K: []string{"PushBack", "PushFront"}[r.Intn(2)], A: 0, B: i})
	}
	order := make([]int, N)
	for i := range order {
		order[i] = i
	}
	shuffle(r, order)
	for _, h := range order {
		ops = append(ops, Op{K: "Remove", A: 0, B: h})
	}
	ops = append(ops, Op{K: "Remove", A: 0, B: 0}, Op{K: "PushBack", A: 0, B: -1}, Op{K: "PushFrontList", A: 0, B: 0}, Op{K: "Len", A: 0})
	return ops
}

func runBig(c *core.Ctx) {
	nb := 0
	// ---- rings: every count of both signs on every length ----
	for _, L := range ringLens {
		maxK := 20
		if L > 65 && L != 1000 && L != 1025 && L != 4097 {
			maxK = 13 // the big counts on a subset of the big rings
		}
		execCase(c, Case{"bigring", genRingMoves(c.Rng, L, maxK)}, false)
		nb++
	}
	// a few counts beyond 2^20 where the reference loop is still affordable
	for _, L := range []int{3, 5, 7, 8, 12, 17, 1000} {
		execCase(c, Case{"bigring", []Op{{K: "RNew", A: L, B: 0}, {K: "RMove", A: 0, B: -(1<<22 + 1)}, {K: "RMove", A: 0, B: 1<<22 + 1},
			{K: "RMove", A: 1, B: -(1 << 22)}, {K: "RUnlink", A: 0, B: 1<<21 + 1}, {K: "RLen", A: 0}}}, false)
		nb++
	}
	for _, L := range []int{5, 16} {
		execCase(c, Case{"bigring", []Op{{K: "RNew", A: L, B: 0}, {K: "RMove", A: 0, B: -(1<<24 - 1)}, {K: "RMove", A: 0, B: 1<<24 + 1}}}, false)
		nb++
	}
	// ---- rings: structure ----
	for i := c.N(60, 400, 400); i > 0; i-- {
		La := bigSizes[c.Rng.Intn(len(bigSizes))]
		Lb := ringLens[c.Rng.Intn(len(ringLens))]
		execCase(c, Case{"bigring", genRingStruct(c.Rng, La, Lb)}, false)
		nb++
	}
	// ---- lists ----
	for _, N := range bigSizes {
		execCase(c, Case{"biglist", genBigList(c.Rng, N, 160)}, false)
		nb++
	}
	for _, N := range []int{17, 64, 257, 1025, 4096} {
		execCase(c, Case{"biglist", genDrain(c.Rng, N)}, false)
		nb++
	}
	// ---- the sample that also goes to the Coq model ----
	ns := 0
	for _, L := range []int{3, 5, 7, 8, 12} {
		ops := ringMoves(c.Rng, L, []int{-1024, 1024, -1025, -1023, 1025, 65536, -65537, -(1<<20 + 1), 3*L + 1})
		ops = append(ops, Op{K: "RUnlink", A: 0, B: 4096 + L}, Op{K: "RLen", A: 0})
		execCase(c, Case{"ring", ops}, true)
		ns++
	}
	for _, L := range []int{33, 64, 100} {
		ops := genRingMoves(c.Rng, L, 12)
		if len(ops) > 28 {
			ops = ops[:28]
		}
		execCase(c, Case{"ring", ops}, true)
		ns++
	}
	for _, N := range []int{33, 64} {
		execCase(c, Case{"list", genBigList(c.Rng, N, 40)}, true)
		ns++
	}
	c.Note(fmt.Sprintf("oracle-heavy stream: %d large cases in lock-step with the standard library only (rings of every length in %v with Move by +-2^k, +-(2^k+-1), k<=20 (13 on most rings above 65), multiples of the length +-1, a few counts up to +-2^24; %d structural ring histories on rings up to 4097 nodes with Unlink by large counts and multiples of Len; lists of %v elements with moves of adjacent/foreign/removed elements, removals, copies onto themselves; complete drains); %d moderately large cases also evaluated by the model",
		nb, ringLens, c.N(60, 400, 400), bigSizes, ns))
}
