// Package c08: arrays.Array2D as a grid of independent cells (Get, Set, Row,
// RowSpan, Fill, Clone, String, New2D, New2DFilled, New2DFromJagged).
//
// A case is one array (shape + constructor) and a sequence of calls on it. The
// harness keeps a reference grid ref[y][x] in plain Go (the property itself),
// applies the expected effect of every call to it, re-reads the whole array
// with Get after every call and compares (direct oracle), and writes every
// observation into the Coq case for the model comparison.
package c08

import (
	"encoding/json"
	"fmt"
	"strconv"

	"gopkg.in/typ.v4/arrays"
	"verif/harness/core"
)

type WOp struct {
	K string `json:"k"` // "write": win[I] = V; "set": a.Set(X, Y, V)
	I int    `json:"i,omitempty"`
	X int    `json:"x,omitempty"`
	Y int    `json:"y,omitempty"`
	V int    `json:"v"`
}

type Op struct {
	K  string `json:"k"` // get x y | set x y v | row y | rowspan x1 x2 y | fill x1 y1 x2 y2 v | clone | string | dims
	A  []int  `json:"a,omitempty"`
	Ws []WOp  `json:"ws,omitempty"`
}

type Case struct {
	W      int     `json:"w"`
	H      int     `json:"h"`
	Ctor   string  `json:"ctor"`        // zero (the zero value Array2D) | new | filled | jagged
	T      string  `json:"t,omitempty"` // element type: "" = int, "elem" = a 24-byte struct (oracle only)
	V      int     `json:"v,omitempty"`
	Jagged [][]int `json:"jagged,omitempty"`
	Ops    []Op    `json:"ops"`
}

func init() {
	core.Register(&core.Prop{ID: "C08", Module: "Arrays.Array2DCheck", Run: run, Replay: replay})
}

func replay(c *core.Ctx, raw json.RawMessage) error {
	var cs Case
	if err := json.Unmarshal(raw, &cs); err != nil {
		return err
	}
	exec(c, cs)
	return nil
}

// ---------------------------------------------------------------- generators

// distinctJagged gives exactly h rows of w distinct positive values.
func distinctJagged(w, h int) [][]int {
	j := make([][]int, h)
	for y := range j {
		j[y] = make([]int, w)
		for x := range j[y] {
			j[y][x] = 1 + x + y*w
		}
	}
	return j
}

func run(c *core.Ctx) {
	maxS := c.N(6, 6, 10)
	fillS := c.N(6, 6, 10)
	val := 1000
	next := func() int { val++; return val }
	// every case runs on Array2D[int] (oracle + model); every third one again on Array2D[elem],
	// a struct element type (oracle only: the model check is on ints)
	nth := 0
	ex := func(cs Case) {
		exec(c, cs)
		if nth++; nth%3 == 0 {
			cs.T = "elem"
			exec(c, cs)
		}
	}
	edgeStream(c, ex)
	for w := 0; w <= maxS; w++ {
		for h := 0; h <= maxS; h++ {
			dj := distinctJagged(w, h)
			// every coordinate in -1..max+1 (max+1 = w resp. h)
			// Get on distinct contents, plus the read-only observers
			var ops []Op
			for y := -1; y <= h; y++ {
				for x := -1; x <= w; x++ {
					ops = append(ops, Op{K: "get", A: []int{x, y}})
				}
			}
			ops = append(ops, Op{K: "dims"}, Op{K: "string"}, Op{K: "clone"})
			ex(Case{W: w, H: h, Ctor: "jagged", Jagged: dj, Ops: ops})
			// Set everywhere, one after the other, on a zero array
			ops = nil
			for y := -1; y <= h; y++ {
				for x := -1; x <= w; x++ {
					ops = append(ops, Op{K: "set", A: []int{x, y, next()}})
				}
			}
			ops = append(ops, Op{K: "string"})
			ex(Case{W: w, H: h, Ctor: "new", Ops: ops})
			// Row: read, write every position through the window, Set a cell of that row while holding it
			ops = nil
			for y := -1; y <= h; y++ {
				var ws []WOp
				if y >= 0 && y < h {
					for i := 0; i < w; i++ {
						ws = append(ws, WOp{K: "write", I: i, V: next()})
					}
					if w > 0 {
						ws = append(ws, WOp{K: "set", X: w / 2, Y: y, V: next()})
						if h > 1 {
							ws = append(ws, WOp{K: "set", X: w - 1, Y: (y + 1) % h, V: next()})
						}
					}
				}
				ops = append(ops, Op{K: "row", A: []int{y}, Ws: ws})
			}
			ex(Case{W: w, H: h, Ctor: "jagged", Jagged: dj, Ops: ops})
			// RowSpan: every x1, x2 (also x1 > x2) for every y
			for y := -1; y <= h; y++ {
				ops = nil
				for x1 := -1; x1 <= w; x1++ {
					for x2 := -1; x2 <= w; x2++ {
						var ws []WOp
						if y >= 0 && y < h && x1 >= 0 && x2 < w && x1 <= x2 {
							ws = append(ws, WOp{K: "write", I: 0, V: next()}, WOp{K: "write", I: x2 - x1, V: next()},
								WOp{K: "set", X: x1, Y: y, V: next()}, WOp{K: "set", X: (x2 + 1) % w, Y: y, V: next()})
						}
						ops = append(ops, Op{K: "rowspan", A: []int{x1, x2, y}, Ws: ws})
					}
				}
				ex(Case{W: w, H: h, Ctor: "jagged", Jagged: dj, Ops: ops})
			}
			// Fill: every pair of corners
			if w <= fillS && h <= fillS {
				for y1 := -1; y1 <= h; y1++ {
					for x1 := -1; x1 <= w; x1++ {
						ops = nil
						for y2 := -1; y2 <= h; y2++ {
							for x2 := -1; x2 <= w; x2++ {
								ops = append(ops, Op{K: "fill", A: []int{x1, y1, x2, y2, next()}})
							}
						}
						ex(Case{W: w, H: h, Ctor: "jagged", Jagged: dj, Ops: ops})
					}
				}
			}
			// constructors: filled, and jagged inputs with fewer/more rows, shorter/longer rows
			obsv := []Op{{K: "dims"}, {K: "string"}, {K: "clone"}}
			ex(Case{W: w, H: h, Ctor: "new", Ops: obsv})
			ex(Case{W: w, H: h, Ctor: "filled", V: 7, Ops: obsv})
			for dh := -2; dh <= 2; dh++ {
				for dw := -2; dw <= 2; dw++ {
					if h+dh < 0 || w+dw < 0 {
						continue
					}
					ex(Case{W: w, H: h, Ctor: "jagged", Jagged: distinctJagged(w+dw, h+dh), Ops: obsv})
				}
			}
			ex(Case{W: w, H: h, Ctor: "jagged", Jagged: nil, Ops: obsv})
			ex(Case{W: w, H: h, Ctor: "jagged", Jagged: raggedJagged(w, h), Ops: obsv})
		}
	}
	c.Exhaustive = true
	c.Note(fmt.Sprintf("exhaustive: all shapes 0<=w,h<=%d x every coordinate in -1..max+1 for Get, Set, Row, RowSpan (all x1,x2), Fill (all corner pairs, shapes <=%d); "+
		"windows read and written through; constructors with jagged inputs of h-2..h+2 rows of w-2..w+2 values; plus random shapes up to 40x40 with random call sequences", maxS, fillS))

	// random shapes and call sequences
	for i := c.N(250, 6000, 4000); i > 0; i-- {
		ex(randomCase(c.Rng))
	}
	bigStream(c)
}

// ---- large shapes and extreme aspect ratios: oracle on every case, model on a small sample ----

// edgeSizes: dense around powers of two, up to a few thousand.
var edgeSizes = []int{15, 16, 17, 31, 32, 33, 63, 64, 65, 127, 128, 129, 255, 256, 257, 1023, 1024, 1025, 2047, 2048, 2049, 4095, 4096, 4097}

func bigSize(r *core.Rand) int {
	if r.Chance(70) {
		return edgeSizes[r.Intn(len(edgeSizes))]
	}
	return r.Intn(4100)
}

// fourOrders appends Fill for the rectangle lo..hi in all four corner orders.
func fourOrders(ops []Op, lx, ly, hx, hy int, v *int) []Op {
	for _, o := range [][4]int{{lx, ly, hx, hy}, {hx, hy, lx, ly}, {hx, ly, lx, hy}, {lx, hy, hx, ly}} {
		*v++
		ops = append(ops, Op{K: "fill", A: []int{o[0], o[1], o[2], o[3], *v}})
	}
	return ops
}

// bigCases builds the structured cases for one shape (w,h >= 1).
func bigCases(r *core.Rand, w, h int) []Case {
	v := 5000
	nv := func() int { v++; return v }
	var out []Case
	ctor := func(ops []Op) Case {
		cs := Case{W: w, H: h, Ops: ops}
		switch r.Intn(3) {
		case 0:
			cs.Ctor = "new"
		case 1:
			cs.Ctor, cs.V = "filled", r.Range(-9, 9)
		default:
			cs.Ctor, cs.Jagged = "jagged", distinctJagged(w, h)
		}
		return cs
	}
	xs := []int{0, w / 2, w - 1}
	ys := []int{0, h / 2, h - 1}
	// Fill: whole rows, whole columns, single cells, everything, a random rectangle; all four corner orders; then corners out of bounds
	var ops []Op
	for _, y := range ys {
		ops = fourOrders(ops, 0, y, w-1, y, &v)
	}
	for _, x := range xs {
		ops = fourOrders(ops, x, 0, x, h-1, &v)
	}
	out = append(out, ctor(ops))
	ops = nil
	for _, p := range [][2]int{{0, 0}, {w - 1, h - 1}, {w - 1, 0}, {0, h - 1}, {w / 2, h / 2}} {
		ops = append(ops, Op{K: "fill", A: []int{p[0], p[1], p[0], p[1], nv()}})
	}
	ops = fourOrders(ops, 0, 0, w-1, h-1, &v)
	x1, x2, y1, y2 := r.Intn(w), r.Intn(w), r.Intn(h), r.Intn(h)
	ops = fourOrders(ops, x1, y1, x2, y2, &v)
	ops = fourOrders(ops, w-1-r.Intn(min(w, 3)), h-1-r.Intn(min(h, 3)), w-1, h-1, &v) // at the last row/column
	for _, o := range [][4]int{{0, 0, w, h - 1}, {0, 0, w - 1, h}, {w, 0, 0, 0}, {0, h, 0, 0}, {-1, 0, w - 1, h - 1}, {0, -1, w - 1, h - 1}, {w - 1, h - 1, w, h}} {
		ops = append(ops, Op{K: "fill", A: []int{o[0], o[1], o[2], o[3], nv()}})
	}
	out = append(out, ctor(ops))
	// Row / RowSpan windows, in particular at the last row and the last column
	ops = nil
	for _, y := range []int{0, h / 2, h - 1, h, -1} {
		var ws []WOp
		if y >= 0 && y < h {
			ws = []WOp{{K: "write", I: 0, V: nv()}, {K: "write", I: w - 1, V: nv()}, {K: "write", I: w / 2, V: nv()},
				{K: "set", X: w - 1, Y: y, V: nv()}, {K: "set", X: 0, Y: h - 1 - y, V: nv()}}
		}
		ops = append(ops, Op{K: "row", A: []int{y}, Ws: ws})
	}
	for _, y := range []int{h - 1, 0, h / 2} {
		for _, sp := range [][2]int{{0, w - 1}, {w - 1, w - 1}, {0, 0}, {w / 2, w - 1}, {r.Intn(w), w - 1}, {0, r.Intn(w)}} {
			a, b := sp[0], sp[1]
			ws := []WOp{{K: "write", I: 0, V: nv()}, {K: "write", I: b - a, V: nv()}, {K: "set", X: b, Y: y, V: nv()}, {K: "set", X: a, Y: y, V: nv()}}
			ops = append(ops, Op{K: "rowspan", A: []int{a, b, y}, Ws: ws})
		}
	}
	for _, o := range [][3]int{{0, w, h - 1}, {0, w - 1, h}, {w, w, 0}, {-1, w - 1, h - 1}, {w - 1, 0, h - 1}, {0, w + 1, 0}} {
		ops = append(ops, Op{K: "rowspan", A: []int{o[0], o[1], o[2]}})
	}
	out = append(out, ctor(ops))
	// Get / Set at and just beyond the far corner, String, Clone
	ops = nil
	for _, p := range [][2]int{{w - 1, h - 1}, {w, h - 1}, {w - 1, h}, {0, h}, {w, 0}, {0, 0}, {w - 1, 0}, {0, h - 1}, {w / 2, h / 2}, {-1, h - 1}, {w - 1, -1}, {w * h, 0}, {0, w * h}, {h, w}} {
		ops = append(ops, Op{K: "set", A: []int{p[0], p[1], nv()}}, Op{K: "get", A: []int{p[0], p[1]}})
	}
	ops = append(ops, Op{K: "dims"}, Op{K: "clone"}, Op{K: "string"})
	out = append(out, ctor(ops))
	// constructors: filled; jagged with very many / very long / short / nil rows
	obsv := []Op{{K: "get", A: []int{w - 1, h - 1}}, {K: "clone"}}
	out = append(out, Case{W: w, H: h, Ctor: "filled", V: nv(), Ops: obsv})
	out = append(out, Case{W: w, H: h, Ctor: "jagged", Jagged: distinctJagged(w+r.Intn(3), h+1+r.Intn(3)), Ops: obsv})
	if w*h <= 2000 {
		out = append(out, Case{W: w, H: h, Ctor: "jagged", Jagged: distinctJagged(w+1000+r.Intn(64), h), Ops: obsv}) // very long rows
		out = append(out, Case{W: w, H: h, Ctor: "jagged", Jagged: distinctJagged(w, h+1000+r.Intn(64)), Ops: obsv}) // very many rows
		out = append(out, Case{W: w, H: h, Ctor: "jagged", Jagged: distinctJagged(w+17, h+1025), Ops: obsv[:1]})     // both
	}
	rg := make([][]int, h+r.Intn(3))
	for y := range rg {
		switch r.Intn(5) {
		case 0: // nil row
		case 1:
			rg[y] = r.Ints(r.Intn(w+1), 1, 99)
		case 2:
			rg[y] = r.Ints(w+1+r.Intn(40), 1, 99)
		default:
			rg[y] = r.Ints(w, 1, 99)
		}
	}
	out = append(out, Case{W: w, H: h, Ctor: "jagged", Jagged: rg, Ops: obsv})
	return out
}

func bigStream(c *core.Ctx) {
	r := c.Rng
	var shapes [][2]int
	// extreme aspect ratios: 1xN, Nx1, 2xN, Nx2, 3xN, Nx3 for every edge size
	for _, n := range edgeSizes {
		for k := 1; k <= 3; k++ {
			shapes = append(shapes, [2]int{k, n}, [2]int{n, k})
		}
	}
	// larger two-dimensional shapes around powers of two
	shapes = append(shapes, [][2]int{{33, 65}, {65, 33}, {64, 64}, {65, 63}, {63, 65}, {129, 3}, {3, 129}, {16, 17}, {17, 16}, {17, 17},
		{32, 33}, {33, 32}, {31, 33}, {128, 32}, {32, 128}, {127, 33}, {15, 257}, {257, 15}, {16, 256}, {256, 16}, {1025, 7}, {7, 1025}, {5, 17}, {17, 5}, {9, 33}, {33, 9}}...)
	// random: one dimension from the size distribution, the other so that the array stays below ~10000 cells
	for i := c.N(60, 600, 300); i > 0; i-- {
		a := 1 + bigSize(r)
		b := 1 + r.Intn(10000/a+1)
		if r.Chance(50) && a <= 100 {
			b = 1 + r.Intn(min(a+3, 10000/a+1))
		}
		if r.Bool() {
			a, b = b, a
		}
		shapes = append(shapes, [2]int{a, b})
	}
	sampled, big := 0, 0
	maxSampled := c.N(100, 400, 0)
	for _, sh := range shapes {
		for _, cs := range bigCases(r, sh[0], sh[1]) {
			c.Count("big_stream")
			jn := 0
			for _, row := range cs.Jagged {
				jn += len(row)
			}
			emit := sampled < maxSampled && cs.W*cs.H <= 400 && jn <= 600 && modelCost(cs) <= 1_500_000
			if emit {
				sampled++
			}
			execE(c, cs, emit)
			if big++; big%5 == 0 {
				cs.T = "elem"
				execE(c, cs, false)
			}
		}
	}
	c.Note(fmt.Sprintf("large/extreme shapes: %d shapes (1xN, Nx1, 2xN, Nx2, 3xN, Nx3 for N in 15..4097 dense around powers of two; 33x65, 64x64, 65x63, 129x3, ...; random up to ~10000 cells) "+
		"with Fill of whole rows/columns/single cells/everything/random rectangles in all four corner orders, Row/RowSpan windows at the last row and column, far-corner Get/Set, "+
		"jagged inputs with >1000 extra rows / >1000 extra values per row: oracle on all, %d of them also evaluated by the model", len(shapes), sampled))
}

func min(a, b int) int {
	if a < b {
		return a
	}
	return b
}

// edgeStream: the zero-value Array2D, and shapes with a negative width or height. The latter
// are outside the property (w, h >= 0) and are not judged (neither by the oracle nor by
// check_case); they are run so that the model's make-panic branch (new2d, w*h < 0) and the
// check's constructor-panic arm are evaluated, and agreement is recorded as a stat:
// New2D(-1,5) panics in make; New2D(-2,-3) builds an array on which every call panics.
func edgeStream(c *core.Ctx, ex func(Case)) {
	probe := func(w, h int) []Op {
		var ops []Op
		for _, p := range [][2]int{{0, 0}, {-1, -1}, {1, 1}, {w, h}, {w - 1, h - 1}, {-1, 0}, {0, -1}} {
			ops = append(ops, Op{K: "get", A: []int{p[0], p[1]}}, Op{K: "set", A: []int{p[0], p[1], 9}},
				Op{K: "row", A: []int{p[1]}}, Op{K: "rowspan", A: []int{p[0], p[0], p[1]}},
				Op{K: "fill", A: []int{p[0], p[1], p[0], p[1], 8}}, Op{K: "fill", A: []int{0, 0, p[0], p[1], 8}})
		}
		return append(ops, Op{K: "dims"}, Op{K: "string"}, Op{K: "clone"})
	}
	ex(Case{W: 0, H: 0, Ctor: "zero", Ops: probe(0, 0)})
	ex(Case{W: 0, H: 0, Ctor: "zero", Ops: []Op{{K: "clone"}, {K: "string"}, {K: "dims"}}})
	ex(Case{W: 0, H: 0, Ctor: "zero"})
	for _, d := range [][2]int{{-1, 5}, {-2, -3}, {-1, 0}, {5, -1}, {0, -1}, {-1, -1}, {-3, 2}, {-4, -4}} {
		ex(Case{W: d[0], H: d[1], Ctor: "new", Ops: probe(d[0], d[1])})
		ex(Case{W: d[0], H: d[1], Ctor: "filled", V: 7, Ops: probe(d[0], d[1])})
		ex(Case{W: d[0], H: d[1], Ctor: "jagged", Jagged: distinctJagged(abs(d[0])+1, abs(d[1])+1), Ops: probe(d[0], d[1])})
	}
}

// raggedJagged: rows of every length 0..w+2 in turn, h+1 rows, some nil.
func raggedJagged(w, h int) [][]int {
	j := make([][]int, h+1)
	for y := range j {
		n := (y * 3) % (w + 3)
		if y%4 == 3 {
			continue // nil row
		}
		j[y] = make([]int, n)
		for x := range j[y] {
			j[y][x] = 500 + x + 10*y
		}
	}
	return j
}

func randCoord(r *core.Rand, n int) int {
	if n > 0 && r.Chance(88) {
		return r.Intn(n)
	}
	switch r.Intn(6) {
	case 0:
		return -1
	case 1:
		return n
	case 2:
		return n + 1
	case 3:
		return -2 - r.Intn(50)
	case 4:
		return n + r.Intn(50)
	}
	return -n
}

func randomCase(r *core.Rand) Case {
	w, h := r.Size(40), r.Size(40)
	if r.Chance(25) { // strongly rectangular
		if r.Bool() {
			w, h = 2+r.Intn(4), 10+r.Intn(31)
		} else {
			w, h = 10+r.Intn(31), 2+r.Intn(4)
		}
	}
	cs := Case{W: w, H: h}
	switch r.Intn(4) {
	case 0:
		cs.Ctor = "new"
	case 1:
		cs.Ctor, cs.V = "filled", r.Range(-9, 9)
	default:
		cs.Ctor = "jagged"
		rows := h
		switch r.Intn(5) {
		case 0:
			rows = r.Intn(h + 1)
		case 1:
			rows = h + 1 + r.Intn(3)
		}
		cs.Jagged = make([][]int, rows)
		for y := range cs.Jagged {
			n := w
			switch r.Intn(6) {
			case 0:
				n = r.Intn(w + 1)
			case 1:
				n = w + 1 + r.Intn(4)
			case 2:
				if r.Chance(30) {
					continue // nil row
				}
			}
			cs.Jagged[y] = r.Ints(n, -99, 99)
		}
	}
	v := func() int { return r.Range(-99, 99) }
	for k := 2 + r.Intn(9); k > 0; k-- {
		switch p := r.Intn(100); {
		case p < 12:
			cs.Ops = append(cs.Ops, Op{K: "get", A: []int{randCoord(r, w), randCoord(r, h)}})
		case p < 32:
			cs.Ops = append(cs.Ops, Op{K: "set", A: []int{randCoord(r, w), randCoord(r, h), v()}})
		case p < 47:
			y := randCoord(r, h)
			var ws []WOp
			if y >= 0 && y < h && w > 0 {
				for n := r.Intn(4); n > 0; n-- {
					if r.Chance(70) {
						ws = append(ws, WOp{K: "write", I: r.Intn(w), V: v()})
					} else {
						ws = append(ws, WOp{K: "set", X: r.Intn(w), Y: r.Intn(h), V: v()})
					}
				}
			}
			cs.Ops = append(cs.Ops, Op{K: "row", A: []int{y}, Ws: ws})
		case p < 65:
			x1, x2, y := randCoord(r, w), randCoord(r, w), randCoord(r, h)
			if x1 > x2 && r.Chance(80) {
				x1, x2 = x2, x1
			}
			var ws []WOp
			if y >= 0 && y < h && x1 >= 0 && x2 < w && x1 <= x2 {
				for n := r.Intn(4); n > 0; n-- {
					if r.Chance(70) {
						ws = append(ws, WOp{K: "write", I: r.Intn(x2 - x1 + 1), V: v()})
					} else {
						ws = append(ws, WOp{K: "set", X: r.Intn(w), Y: r.Intn(h), V: v()})
					}
				}
			}
			cs.Ops = append(cs.Ops, Op{K: "rowspan", A: []int{x1, x2, y}, Ws: ws})
		case p < 90:
			cs.Ops = append(cs.Ops, Op{K: "fill", A: []int{randCoord(r, w), randCoord(r, h), randCoord(r, w), randCoord(r, h), v()}})
		case p < 94:
			cs.Ops = append(cs.Ops, Op{K: "clone"})
		case p < 98:
			cs.Ops = append(cs.Ops, Op{K: "string"})
		default:
			cs.Ops = append(cs.Ops, Op{K: "dims"})
		}
	}
	return cs
}

// ---------------------------------------------------------------- execution

const sentinel = -987654321

func copy2(j [][]int) [][]int {
	if j == nil {
		return nil
	}
	o := make([][]int, len(j))
	for i, r := range j {
		if r != nil {
			o[i] = append([]int{}, r...)
		}
	}
	return o
}

func eq2(a, b [][]int) bool {
	if len(a) != len(b) {
		return false
	}
	for i := range a {
		if (a[i] == nil) != (b[i] == nil) || !core.Eq(a[i], b[i]) {
			return false
		}
	}
	return true
}

// readGrid reads every cell with Get, row by row.
func readGrid(c *core.Ctx, a grid, w, h int, when string) []int {
	return readGridInto(c, a, w, h, when, nil)
}

// readGridInto is readGrid reusing buf's storage.
func readGridInto(c *core.Ctx, a grid, w, h int, when string, buf []int) []int {
	g := buf[:0]
	if cap(g) < max0(w)*max0(h) {
		g = make([]int, 0, max0(w)*max0(h))
	}
	// fast path: one recover for the whole grid; per-cell recovery only if some Get panics
	if k := core.Try(func() {
		for y := 0; y < h; y++ {
			for x := 0; x < w; x++ {
				g = append(g, a.Get(x, y))
			}
		}
	}); k == "" {
		return g
	}
	g = g[:0]
	for y := 0; y < h; y++ {
		for x := 0; x < w; x++ {
			v := sentinel
			if k := core.Try(func() { v = a.Get(x, y) }); k != "" {
				c.Fail("Get in bounds panicked", fmt.Sprintf("%s: Get(%d,%d) on %dx%d: %s", when, x, y, w, h, k))
			}
			g = append(g, v)
		}
	}
	return g
}

func delta(old, cur []int) string {
	var parts []string
	for i := range cur {
		if i >= len(old) || old[i] != cur[i] {
			parts = append(parts, core.Pair(core.Z(i), core.Z(cur[i])))
		}
	}
	return core.List(parts)
}

func optPanic(kind string) string {
	if kind == "" {
		return "None"
	}
	return "(Some " + kind + ")"
}

// diffRef compares a grid read row by row with the reference grid, without allocating.
func diffRef(got []int, ref [][]int, w int) string {
	if len(got) != len(ref)*w {
		return fmt.Sprintf("grid has %d cells, want %d", len(got), len(ref)*w)
	}
	for y, row := range ref {
		base := y * w
		for x, v := range row {
			if got[base+x] != v {
				return fmt.Sprintf("cell (%d,%d) is %d, want %d", x, y, got[base+x], v)
			}
		}
	}
	return ""
}

// parseRows reads the cell values out of String()'s text without fixing its format: any of
// ( [ { open and ) ] } close a group, integers are the cells, everything else separates.
// The rows are the innermost groups of a two-level nesting ("[[1 2] [3 4]]", "((1,2),(3,4))",
// "[\n [1, 2]\n [3, 4]\n]"); with a single level of grouping or none, the lines are the rows
// ("1 2\n3 4") or, for one group on one line, that group is one row. ok = false: not understood.
func parseRows(s string) (rows [][]int, ok bool) {
	depth, maxDepth := 0, 0
	for _, ch := range s {
		switch ch {
		case '[', '(', '{':
			depth++
			if depth > maxDepth {
				maxDepth = depth
			}
		case ']', ')', '}':
			depth--
			if depth < 0 {
				return nil, false
			}
		}
	}
	if depth != 0 || maxDepth > 2 {
		return nil, false
	}
	rows = [][]int{}
	var cur []int
	open := false // inside a row
	flush := func() {
		if open {
			if cur == nil {
				cur = []int{}
			}
			rows = append(rows, cur)
			cur, open = nil, false
		}
	}
	rowDepth := maxDepth // rows are the innermost groups; 0: lines
	depth = 0
	for i := 0; i < len(s); {
		ch := s[i]
		switch {
		case ch == '[' || ch == '(' || ch == '{':
			depth++
			if rowDepth == 2 && depth == 2 {
				open, cur = true, nil
			}
			i++
		case ch == ']' || ch == ')' || ch == '}':
			if rowDepth == 2 && depth == 2 {
				flush()
			}
			depth--
			i++
		case ch == '\n':
			if rowDepth < 2 {
				flush()
			}
			i++
		case ch == '-' || (ch >= '0' && ch <= '9'):
			j := i + 1
			for j < len(s) && s[j] >= '0' && s[j] <= '9' {
				j++
			}
			n, err := strconv.Atoi(s[i:j])
			if err != nil {
				return nil, false
			}
			if rowDepth == 2 && depth != 2 {
				return nil, false // a value outside every row
			}
			open = true
			cur = append(cur, n)
			i = j
		default:
			i++
		}
	}
	if rowDepth < 2 {
		flush()
	}
	return rows, true
}

func coqCtor(cs Case) string {
	switch cs.Ctor {
	case "zero":
		return "CZero"
	case "new":
		return "CNew"
	case "filled":
		return "(CFilled " + core.Z(cs.V) + ")"
	}
	return "(CJagged " + core.ZListList(cs.Jagged) + ")"
}

// ---- the array under test behind an int-valued view, so that the same oracle drives
// Array2D[int] and Array2D[elem] (a struct element type; values are mapped by conv/back) ----

type grid interface {
	Get(x, y int) int
	Set(x, y, v int)
	Fill(x1, y1, x2, y2, v int)
	Row(y int) window
	RowSpan(x1, x2, y int) window
	Clone() grid
	String() string
	Width() int
	Height() int
}

// window is a slice returned by Row/RowSpan.
type window interface {
	Put(i, v int)    // win[i] = v
	Snapshot() []int // copy of the current contents
}

type elem struct {
	v   int
	tag [3]byte
	neg int32
}

func (e elem) String() string { return strconv.Itoa(e.v) }

func toElem(v int) elem { return elem{v, [3]byte{byte(v), byte(v >> 8), 0xA5}, int32(-v)} }
func fromElem(e elem) int {
	if e == (elem{}) {
		return 0 // the zero value make() fills with
	}
	if e != toElem(e.v) {
		return sentinel + 1 // torn / mixed-up element
	}
	return e.v
}

type adapt[T any] struct {
	a    arrays.Array2D[T]
	conv func(int) T
	back func(T) int
}

type awin[T any] struct {
	s    []T
	conv func(int) T
	back func(T) int
}

func (w awin[T]) Put(i, v int) { w.s[i] = w.conv(v) }
func (w awin[T]) Snapshot() []int {
	o := make([]int, len(w.s))
	for i, e := range w.s {
		o[i] = w.back(e)
	}
	return o
}

func (g adapt[T]) Get(x, y int) int           { return g.back(g.a.Get(x, y)) }
func (g adapt[T]) Set(x, y, v int)            { g.a.Set(x, y, g.conv(v)) }
func (g adapt[T]) Fill(x1, y1, x2, y2, v int) { g.a.Fill(x1, y1, x2, y2, g.conv(v)) }
func (g adapt[T]) Row(y int) window           { return awin[T]{g.a.Row(y), g.conv, g.back} }
func (g adapt[T]) RowSpan(x1, x2, y int) window {
	return awin[T]{g.a.RowSpan(x1, x2, y), g.conv, g.back}
}
func (g adapt[T]) Clone() grid    { return adapt[T]{g.a.Clone(), g.conv, g.back} }
func (g adapt[T]) String() string { return g.a.String() }
func (g adapt[T]) Width() int     { return g.a.Width() }
func (g adapt[T]) Height() int    { return g.a.Height() }

// construct builds the array of the case; jag is the harness's own copy of the jagged input
// (converted to the element type), returned so that the caller can mutate it afterwards.
func construct[T any](cs Case, conv func(int) T, back func(T) int) (grid, func() [][]int, func()) {
	var a arrays.Array2D[T]
	var jag [][]T
	switch cs.Ctor {
	case "zero":
	case "new":
		a = arrays.New2D[T](cs.W, cs.H)
	case "filled":
		a = arrays.New2DFilled(cs.W, cs.H, conv(cs.V))
	default:
		if cs.Jagged != nil {
			jag = make([][]T, len(cs.Jagged))
			for y, r := range cs.Jagged {
				if r != nil {
					jag[y] = make([]T, len(r))
					for x, v := range r {
						jag[y][x] = conv(v)
					}
				}
			}
		}
		a = arrays.New2DFromJagged(cs.W, cs.H, jag)
	}
	readJag := func() [][]int {
		if jag == nil {
			return nil
		}
		o := make([][]int, len(jag))
		for y, r := range jag {
			if r != nil {
				o[y] = make([]int, len(r))
				for x, e := range r {
					o[y][x] = back(e)
				}
			}
		}
		return o
	}
	scribble := func() {
		for _, r := range jag {
			for x := range r {
				r[x] = conv(back(r[x]) + 31)
			}
		}
	}
	return adapt[T]{a, conv, back}, readJag, scribble
}

// modelCost estimates the work of the Coq model on a case (the model re-reads
// the whole grid through a list after every call: ~cells^2/2 per call).
func modelCost(cs Case) int {
	cells := cs.W * cs.H
	return cells * cells / 2 * (len(cs.Ops) + 2)
}

// exec runs a case with oracle and, when the model can evaluate it in reasonable time, the model comparison.
func exec(c *core.Ctx, cs Case) { execE(c, cs, modelCost(cs) <= 20_000_000) }

func abs(n int) int {
	if n < 0 {
		return -n
	}
	return n
}

func max0(n int) int {
	if n < 0 {
		return 0
	}
	return n
}

func execE(c *core.Ctx, cs Case, emit bool) {
	c.Begin(cs)
	if cs.T != "" {
		emit = false // the model check is on Array2D[int]; other element types are oracle only
		c.Count("elem_type_" + cs.T)
	}
	if emit {
		c.Count("model_emitted")
	} else {
		c.Count("oracle_only")
	}
	w, h := cs.W, cs.H
	c.Count("ctor_" + cs.Ctor)
	if w != h && w >= 2 && h >= 2 {
		c.Nontrivial()
		c.Count("shape_rect_nontrivial")
	} else if w == 0 || h == 0 {
		c.Count("shape_empty")
	} else if w == h {
		c.Count("shape_square")
	} else {
		c.Count("shape_thin")
	}
	// width or height < 0 is outside the property: neither the property oracle nor check_case
	// judges it. What the transcribed code does there (make panics iff w*h < 0, otherwise an
	// array of that shape on which every cell access panics) is what the oracle's expectations
	// below amount to, so agreement is recorded as a stat only.
	outside := w < 0 || h < 0
	outsideDiffers := false
	if outside {
		c.Count("negative_dims_outside_property")
		defer func() {
			if outsideDiffers {
				c.Count("negative_dims_differs_from_model")
			} else {
				c.Count("negative_dims_as_model")
			}
		}()
	}
	fail := func(what, detail string) {
		if outside {
			if what != "constructor panicked" {
				outsideDiffers = true
			}
			return
		}
		c.Fail(what, fmt.Sprintf("%dx%d %s%s: %s", w, h, cs.Ctor, cs.T, detail))
	}

	// reference grid: the property's cell model
	ref := make([][]int, max0(h))
	for y := range ref {
		ref[y] = make([]int, max0(w))
	}
	var a grid
	var readJag func() [][]int
	var scribble func()
	kind := core.Try(func() {
		if cs.T == "elem" {
			a, readJag, scribble = construct(cs, toElem, fromElem)
		} else {
			a, readJag, scribble = construct(cs, func(v int) int { return v }, func(v int) int { return v })
		}
		switch cs.Ctor {
		case "zero", "new":
		case "filled":
			for y := range ref {
				for x := range ref[y] {
					ref[y][x] = cs.V
				}
			}
		default:
			for y := 0; y < h && y < len(cs.Jagged); y++ {
				for x := 0; x < w && x < len(cs.Jagged[y]); x++ {
					ref[y][x] = cs.Jagged[y][x]
				}
			}
			rows := len(cs.Jagged)
			switch {
			case rows < h:
				c.Count("jagged_fewer_rows")
			case rows > h:
				c.Count("jagged_more_rows")
			}
			for _, r := range cs.Jagged {
				if len(r) < w {
					c.Count("jagged_short_row")
				} else if len(r) > w {
					c.Count("jagged_long_row")
				}
			}
		}
	})
	if outside && (kind != "") != (w*h < 0) {
		outsideDiffers = true
	}
	if kind != "" {
		c.Count("constructor_panicked")
		fail("constructor panicked", kind)
		if emit {
			c.Emit(fmt.Sprintf("Case %s %s %s (Panic %s) []", core.Z(w), core.Z(h), coqCtor(cs), kind))
		}
		return
	}
	if jag := readJag(); !eq2(jag, cs.Jagged) {
		fail("New2DFromJagged modified its input", fmt.Sprint(jag))
	}
	if a.Width() != w || a.Height() != h {
		fail("Width/Height after construction", fmt.Sprintf("%dx%d", a.Width(), a.Height()))
	}
	og := readGrid(c, a, w, h, "after construction")
	if d := diffRef(og, ref, w); d != "" {
		fail("constructor: cells differ from the cell model", d)
	}
	if cs.Ctor == "jagged" {
		// the array must not alias the jagged input
		scribble()
		if d := diffRef(readGrid(c, a, w, h, "after mutating the jagged input"), ref, w); d != "" {
			fail("array aliases the jagged input", d)
		}
	}
	grid0 := core.ZList(og)

	inb := func(x, y int) bool { return x >= 0 && x < w && y >= 0 && y < h }
	steps := make([]string, 0, len(cs.Ops))
	var spare []int
	for n, op := range cs.Ops {
		c.Count("op_" + op.K)
		at := fmt.Sprintf("op %d %s%v", n, op.K, op.A)
		var coqOp, coqObs string
		// grid after the call, its delta, and the comparison with the cell model
		after := func() string {
			g := readGridInto(c, a, w, h, "after "+at, spare)
			if d := diffRef(g, ref, w); d != "" {
				fail("array differs from the cell model after "+op.K, at+": "+d)
			}
			d := "[]"
			if emit {
				d = delta(og, g)
			} else if !core.Eq(og, g) {
				d = "[changed]"
			}
			og, spare = g, og
			return d
		}
		switch op.K {
		case "get":
			x, y := op.A[0], op.A[1]
			var v int
			k := core.Try(func() { v = a.Get(x, y) })
			if inb(x, y) {
				c.Count("get_in")
				if k != "" {
					fail("Get in bounds panicked", at+": "+k)
				} else if v != ref[y][x] {
					fail("Get returns a value that was not the last stored", fmt.Sprintf("%s = %d, want %d", at, v, ref[y][x]))
				}
			} else {
				c.Count("get_out")
				if k == "" {
					fail("Get out of bounds did not panic", fmt.Sprintf("%s = %d", at, v))
				}
			}
			if d := after(); d != "[]" {
				fail("Get altered the array", at)
			}
			coqOp = fmt.Sprintf("OGet %s %s", core.Z(x), core.Z(y))
			coqObs = "BGet " + core.Res(k, core.Z(v))
		case "set":
			x, y, v := op.A[0], op.A[1], op.A[2]
			k := core.Try(func() { a.Set(x, y, v) })
			if inb(x, y) {
				c.Count("set_in")
				ref[y][x] = v
				if k != "" {
					fail("Set in bounds panicked", at+": "+k)
				}
			} else {
				c.Count("set_out")
				if k == "" {
					fail("Set out of bounds did not panic", at)
				}
			}
			coqOp = fmt.Sprintf("OSet %s %s %s", core.Z(x), core.Z(y), core.Z(v))
			coqObs = fmt.Sprintf("BMut %s %s", optPanic(k), after())
		case "fill":
			x1, y1, x2, y2, v := op.A[0], op.A[1], op.A[2], op.A[3], op.A[4]
			k := core.Try(func() { a.Fill(x1, y1, x2, y2, v) })
			if inb(x1, y1) && inb(x2, y2) {
				c.Count("fill_in")
				if x2 < x1 || y2 < y1 {
					c.Count("fill_corners_swapped")
				}
				lox, hix, loy, hiy := x1, x2, y1, y2
				if hix < lox {
					lox, hix = hix, lox
				}
				if hiy < loy {
					loy, hiy = hiy, loy
				}
				for y := loy; y <= hiy; y++ {
					for x := lox; x <= hix; x++ {
						ref[y][x] = v
					}
				}
				if k != "" {
					fail("Fill in bounds panicked", at+": "+k)
				}
			} else {
				c.Count("fill_out")
				if k == "" {
					fail("Fill out of bounds did not panic", at)
				}
			}
			coqOp = fmt.Sprintf("OFill %s %s %s %s %s", core.Z(x1), core.Z(y1), core.Z(x2), core.Z(y2), core.Z(v))
			coqObs = fmt.Sprintf("BMut %s %s", optPanic(k), after())
		case "row", "rowspan":
			var x1, x2, y int
			var win window
			var k string
			if op.K == "row" {
				y = op.A[0]
				x1, x2 = 0, w-1
				k = core.Try(func() { win = a.Row(y) })
				coqOp = fmt.Sprintf("ORow %s", core.Z(y))
			} else {
				x1, x2, y = op.A[0], op.A[1], op.A[2]
				k = core.Try(func() { win = a.RowSpan(x1, x2, y) })
				coqOp = fmt.Sprintf("ORowSpan %s %s %s", core.Z(x1), core.Z(x2), core.Z(y))
			}
			var seen []int
			if k == "" {
				seen = win.Snapshot()
			}
			valid := y >= 0 && y < h && (op.K == "row" || (x1 >= 0 && x1 < w && x2 >= 0 && x2 < w))
			covered := valid && x1 <= x2+1 // Row on width 0 gives x2 = x1-1: the empty window; RowSpan with x1 > x2 is outside the property
			if op.K == "rowspan" && x1 > x2 {
				covered = false
			}
			switch {
			case !valid:
				c.Count(op.K + "_out")
				if k == "" {
					fail(op.K+" out of bounds did not panic", at)
				}
			case covered:
				c.Count(op.K + "_in")
				if k != "" {
					fail(op.K+" in bounds panicked", at+": "+k)
				} else if !core.Eq(seen, ref[y][x1:x2+1]) {
					fail(op.K+" window is not exactly those cells", fmt.Sprintf("%s = %v, want %v", at, seen, ref[y][x1:x2+1]))
				}
			default:
				c.Count("rowspan_x1_gt_x2")
			}
			var ws []string
			if k == "" {
				for _, wo := range op.Ws {
					if wo.K == "write" {
						c.Count("window_write")
						if wk := core.Try(func() { win.Put(wo.I, wo.V) }); wk != "" {
							fail("write through the window panicked", fmt.Sprintf("%s win[%d]: %s", at, wo.I, wk))
						}
						if covered && x1+wo.I <= x2 {
							ref[y][x1+wo.I] = wo.V
						}
						ws = append(ws, fmt.Sprintf("WWrite %s %s", core.Z(wo.I), core.Z(wo.V)))
					} else {
						c.Count("set_while_window")
						if wk := core.Try(func() { a.Set(wo.X, wo.Y, wo.V) }); wk != "" {
							fail("Set in bounds panicked", fmt.Sprintf("%s Set(%d,%d): %s", at, wo.X, wo.Y, wk))
						}
						if inb(wo.X, wo.Y) {
							ref[wo.Y][wo.X] = wo.V
						}
						ws = append(ws, fmt.Sprintf("WSet %s %s %s", core.Z(wo.X), core.Z(wo.Y), core.Z(wo.V)))
					}
				}
			}
			var again []int
			if k == "" {
				again = win.Snapshot()
			}
			if k == "" && covered && !core.Eq(again, ref[y][x1:x2+1]) {
				fail(op.K+" window is not live (Set not visible through it)", fmt.Sprintf("%s = %v, want %v", at, again, ref[y][x1:x2+1]))
			}
			coqOp += " " + core.List(ws)
			coqObs = fmt.Sprintf("BWin %s %s %s", core.Res(k, core.ZList(seen)), core.ZList(again), after())
		case "clone":
			var cl grid
			if k := core.Try(func() { cl = a.Clone() }); k != "" {
				fail("Clone panicked", k)
				cl = a
			}
			cg := readGrid(c, cl, cl.Width(), cl.Height(), "clone")
			if cl.Width() != w || cl.Height() != h {
				fail("Clone has a different shape", fmt.Sprintf("%dx%d", cl.Width(), cl.Height()))
			} else if d := diffRef(cg, ref, w); d != "" {
				fail("Clone differs from the original", d)
			} else if k := core.Try(func() {
				// independence, both directions
				for y := 0; y < h; y++ {
					for x := 0; x < w; x++ {
						cl.Set(x, y, ref[y][x]+77)
					}
				}
				if d := diffRef(readGrid(c, a, w, h, "after writing the clone"), ref, w); d != "" {
					fail("writing the clone altered the original", d)
				}
				if w > 0 && h > 0 {
					a.Fill(0, 0, w-1, h-1, 5)
					for y := 0; y < h; y++ {
						for x := 0; x < w; x++ {
							if cl.Get(x, y) != ref[y][x]+77 {
								fail("writing the original altered the clone", fmt.Sprintf("(%d,%d)", x, y))
							}
							a.Set(x, y, ref[y][x])
						}
					}
				}
			}); k != "" {
				fail("Clone independence probe panicked", k)
			}
			if d := after(); d != "[]" {
				fail("Clone altered the array", at)
			}
			coqOp = "OClone"
			coqObs = fmt.Sprintf("BClone %s %s %s", core.Z(cl.Width()), core.Z(cl.Height()), core.ZList(cg))
		case "string":
			var s string
			if k := core.Try(func() { s = a.String() }); k != "" {
				fail("String panicked", k)
			}
			// the property fixes no format: only the cell values, as h rows of w values, are compared
			rows, ok := parseRows(s)
			if !ok {
				c.Unobservable("String output not understood by the harness's liberal parser (cannot compare its cells): " + s)
			} else if !eq2(rows, ref) && !(len(ref) == 0 && len(rows) == 0) {
				fail("String disagrees with the cell model", fmt.Sprintf("%q parsed as %v, want rows %v", s, rows, ref))
			}
			if d := after(); d != "[]" {
				fail("String altered the array", at)
			}
			coqOp = "OString"
			coqObs = "BString " + core.ZListList(rows)
		default: // dims
			if a.Width() != w || a.Height() != h {
				fail("Width/Height", fmt.Sprintf("%dx%d", a.Width(), a.Height()))
			}
			coqOp = "ODims"
			coqObs = fmt.Sprintf("BDims %s %s", core.Z(a.Width()), core.Z(a.Height()))
		}
		steps = append(steps, "("+coqOp+", "+coqObs+")")
	}
	if emit {
		c.Emit(fmt.Sprintf("Case %s %s %s (Ok %s) %s", core.Z(w), core.Z(h), coqCtor(cs), grid0, core.List(steps)))
	}
}
