// Package avlh runs operation histories on the real avl.Tree and prints them
// as Coq cases for Avl/Check.v. Shared by the C01 and C02 harnesses.
package avlh

import (
	"fmt"
	"strconv"
	"strings"

	"gopkg.in/typ.v4"
	"gopkg.in/typ.v4/avl"
	"verif/harness/core"
)

// Op is one step of a history. H is a tree handle (0 = the initial empty
// tree; every Clone appends a new handle).
type Op struct {
	K string `json:"k"` // Add Remove Contains Len Clear Clone Pre In Post
	H int    `json:"h"`
	V int    `json:"v,omitempty"`
}

// Out is what the implementation returned. Kind: unit bool int list panic badhandle
type Out struct {
	Kind  string
	B     bool
	I     int
	L     []int
	Panic string
}

// Pair is the two-field element type used to exercise a non-primitive ==.
type Pair struct{ A, B int }

func pairOf(v int) Pair { return Pair{v >> 2, v & 3} } // order isomorphism int -> (A,B) lexicographic for v >= 0
func comparePair(a, b Pair) int {
	if c := typ.Compare(a.A, b.A); c != 0 {
		return c
	}
	return typ.Compare(a.B, b.B)
}
func unpair(p Pair) int { return p.A<<2 | p.B }

// Trees abstracts over the element type.
type Trees interface {
	Exec(o Op) Out
	N() int
	Root(h int) any // *avl.Tree for white-box probes (nil if bad handle)
}

type intTrees struct{ ts []*avl.Tree[int] }
type pairTrees struct{ ts []*avl.Tree[Pair] }

func NewInt() Trees {
	t := avl.NewOrdered[int]()
	return &intTrees{[]*avl.Tree[int]{&t}}
}
// NewIntCmp: an int tree built with avl.New(cmp), e.g. a call-counting comparator (clones inherit it).
func NewIntCmp(cmp func(a, b int) int) Trees {
	t := avl.New(cmp)
	return &intTrees{[]*avl.Tree[int]{&t}}
}
func NewPair() Trees {
	t := avl.New(comparePair)
	return &pairTrees{[]*avl.Tree[Pair]{&t}}
}
func (s *intTrees) N() int  { return len(s.ts) }
func (s *pairTrees) N() int { return len(s.ts) }
func (s *intTrees) Root(h int) any {
	if h < 0 || h >= len(s.ts) {
		return nil
	}
	return s.ts[h]
}
func (s *pairTrees) Root(h int) any {
	if h < 0 || h >= len(s.ts) {
		return nil
	}
	return s.ts[h]
}

func (s *intTrees) Exec(o Op) (out Out) {
	if o.H < 0 || o.H >= len(s.ts) {
		return Out{Kind: "badhandle"}
	}
	t := s.ts[o.H]
	if k := core.Try(func() { out = execOn(t, o, func(v int) int { return v }, func(v int) int { return v }, func(c avl.Tree[int]) { s.ts = append(s.ts, &c) }) }); k != "" {
		return Out{Kind: "panic", Panic: k}
	}
	return out
}
func (s *pairTrees) Exec(o Op) (out Out) {
	if o.H < 0 || o.H >= len(s.ts) {
		return Out{Kind: "badhandle"}
	}
	t := s.ts[o.H]
	if k := core.Try(func() { out = execOn(t, o, pairOf, unpair, func(c avl.Tree[Pair]) { s.ts = append(s.ts, &c) }) }); k != "" {
		return Out{Kind: "panic", Panic: k}
	}
	return out
}

func execOn[T comparable](t *avl.Tree[T], o Op, enc func(int) T, dec func(T) int, addClone func(avl.Tree[T])) Out {
	list := func(vs []T) Out {
		l := make([]int, len(vs))
		for i, v := range vs {
			l[i] = dec(v)
		}
		return Out{Kind: "list", L: l}
	}
	switch o.K {
	case "Add":
		t.Add(enc(o.V))
		return Out{Kind: "unit"}
	case "Remove":
		return Out{Kind: "bool", B: t.Remove(enc(o.V))}
	case "Contains":
		return Out{Kind: "bool", B: t.Contains(enc(o.V))}
	case "Len":
		return Out{Kind: "int", I: t.Len()}
	case "Clear":
		t.Clear()
		return Out{Kind: "unit"}
	case "Clone":
		addClone(t.Clone())
		return Out{Kind: "unit"}
	case "Pre":
		return list(t.SlicePreOrder())
	case "In":
		return list(t.SliceInOrder())
	case "Post":
		return list(t.SlicePostOrder())
	}
	panic("unknown op " + o.K)
}

// Walks returns the callback sequences of the three Walk* methods and String() parsed, for oracle use.
func Walks(ts Trees, h int) (pre, in, post []int, str string) {
	switch t := ts.Root(h).(type) {
	case *avl.Tree[int]:
		t.WalkPreOrder(func(v int) { pre = append(pre, v) })
		t.WalkInOrder(func(v int) { in = append(in, v) })
		t.WalkPostOrder(func(v int) { post = append(post, v) })
		str = t.String()
	case *avl.Tree[Pair]:
		t.WalkPreOrder(func(v Pair) { pre = append(pre, unpair(v)) })
		t.WalkInOrder(func(v Pair) { in = append(in, unpair(v)) })
		t.WalkPostOrder(func(v Pair) { post = append(post, unpair(v)) })
		str = "" // struct formatting is not parsed
	}
	return
}

// ParseIntList parses fmt.Sprint of an []int ("[1 2 3]").
func ParseIntList(s string) ([]int, bool) {
	s = strings.TrimSpace(s)
	if len(s) < 2 || s[0] != '[' || s[len(s)-1] != ']' {
		return nil, false
	}
	var out []int
	for _, f := range strings.Fields(s[1 : len(s)-1]) {
		n, err := strconv.Atoi(f)
		if err != nil {
			return nil, false
		}
		out = append(out, n)
	}
	return out, true
}

// ---- Coq printing ----

func CoqOp(o Op) string {
	switch o.K {
	case "Add", "Remove", "Contains":
		return fmt.Sprintf("Op%s %d%%nat %s", o.K, o.H, core.Z(o.V))
	}
	return fmt.Sprintf("Op%s %d%%nat", o.K, o.H)
}
func CoqOut(o Out) string {
	switch o.Kind {
	case "unit":
		return "OUnit"
	case "bool":
		return "OBool " + core.Bool(o.B)
	case "int":
		return "OInt " + core.Z(o.I)
	case "list":
		return "OList " + core.ZList(o.L)
	case "panic":
		return "OPanic " + o.Panic
	}
	return "OBadHandle"
}

// CoqCase prints a case for Avl/Check.v (comparator calls not recorded).
func CoqCase(ops []Op, outs []Out) string { return CoqCaseCalls(ops, outs, nil) }

// CoqCaseCalls prints a case with the number of comparator calls the real code made in each op
// (one entry per op, -1 = not recorded for that op; nil = not recorded at all).
func CoqCaseCalls(ops []Op, outs []Out, calls []int) string {
	a := make([]string, len(ops))
	b := make([]string, len(outs))
	for i := range ops {
		a[i] = CoqOp(ops[i])
	}
	for i := range outs {
		b[i] = CoqOut(outs[i])
	}
	return "Case " + core.List(a) + " " + core.List(b) + " " + core.ZList(calls)
}
