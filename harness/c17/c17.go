// Package c17: sync2.Once1/Once2/Once3 run the action exactly once and share
// its results. Scenarios of 1..16 goroutines, each making one or more Do calls
// with its own distinguishable function, optionally with the invoked function
// held on a gate while the harness looks for callers that returned too early,
// optionally with late callers that start after everything has completed.
package c17

import (
	"encoding/json"
	"fmt"
	"runtime"
	"strings"
	"sync"
	"sync/atomic"
	"time"

	"gopkg.in/typ.v4/sync2"
	"verif/harness/core"
)

type Call struct {
	Steps int   `json:"steps"` // user steps (visible effects) the function performs before returning
	Res   []int `json:"res"`   // the tuple it returns (len = arity)
	// "" = returns Res; "panic" / "goexit" = after its steps the function panics (the caller recovers and goes
	// on with its next calls) / calls runtime.Goexit (the calling goroutine ends) instead of returning
	Exit string `json:"exit,omitempty"`
}

// panicVal is what an aborting function panics with: the caller must observe exactly this value.
type panicVal struct{ t, i int }

type Case struct {
	Arity  int      `json:"arity"`
	Progs  [][]Call `json:"progs"`  // per goroutine: the functions of its successive Do calls
	Gate   bool     `json:"gate"`   // the invoked function waits on a gate; nobody may return before it opens
	Late   int      `json:"late"`   // the last Late goroutines start only after the others have finished
	Jitter uint64   `json:"jitter"` // seed of the per-goroutine yields before each call

	// scenarios in which the first invoked function does not return normally (Exit != ""):
	// goroutine 0 calls Do with a function that leaves through Exit; Waiters goroutines call Do while
	// that function is still running (held on a gate); Later goroutines call Do after it has left.
	Exit    string `json:"exit,omitempty"` // goexit | panic | return
	Waiters int    `json:"waiters,omitempty"`
	Later   int    `json:"later,omitempty"`
}

func init() {
	core.Register(&core.Prop{ID: "C17", Module: "Sync.OnceCheck", Run: run, Replay: replay})
}

func replay(c *core.Ctx, raw json.RawMessage) error {
	var cs Case
	if err := json.Unmarshal(raw, &cs); err != nil {
		return err
	}
	// scheduling is not ours to repeat exactly: replay the scenario many times (the first run also goes to the model)
	exec(c, cs)
	c.NoModel = true
	t0 := time.Now()
	for i := 0; i < 20000 && len(c.Failures) == 0 && time.Since(t0) < 8*time.Second; i++ {
		exec(c, cs)
	}
	return nil
}

// doer hides the arity: results travel as slices.
type doer interface {
	Do(f func() []int) []int
	Fields() []int
}
type d1 struct{ o sync2.Once1[int] }
type d2 struct{ o sync2.Once2[int, int] }
type d3 struct{ o sync2.Once3[int, int, int] }

func (d *d1) Do(f func() []int) []int {
	a := d.o.Do(func() int { return f()[0] })
	return []int{a}
}
func (d *d1) Fields() []int { return []int{d.o.R1} }
func (d *d2) Do(f func() []int) []int {
	a, b := d.o.Do(func() (int, int) { r := f(); return r[0], r[1] })
	return []int{a, b}
}
func (d *d2) Fields() []int { return []int{d.o.R1, d.o.R2} }
func (d *d3) Do(f func() []int) []int {
	a, b, cc := d.o.Do(func() (int, int, int) { r := f(); return r[0], r[1], r[2] })
	return []int{a, b, cc}
}
func (d *d3) Fields() []int { return []int{d.o.R1, d.o.R2, d.o.R3} }

func newDoer(arity int) doer {
	switch arity {
	case 1:
		return &d1{}
	case 2:
		return &d2{}
	}
	return &d3{}
}

func mkProgs(r *core.Rand, arity, n, maxCalls, maxSteps int, distinct bool) [][]Call {
	progs := make([][]Call, n)
	for t := range progs {
		k := 1 + r.Intn(maxCalls)
		for i := 0; i < k; i++ {
			res := make([]int, arity)
			for j := range res {
				if distinct {
					res[j] = 100*(t+1) + 10*i + j
				} else {
					res[j] = r.Range(-2, 6) // different functions may return equal tuples, zero included
				}
			}
			progs[t] = append(progs[t], Call{Steps: r.Intn(maxSteps + 1), Res: res})
		}
	}
	return progs
}

func run(c *core.Ctx) {
	if c.Tier == "race" {
		hang, barrierMax = 30*time.Second, 8
	}
	// small scenarios (also explored exhaustively by the model): one goroutine making 1-2 calls,
	// or two goroutines making one call each; 0-1 user steps
	for arity := 1; arity <= 3; arity++ {
		for shape := 0; shape < 6; shape++ {
			for rep := 0; rep < c.N(3, 10, 10); rep++ {
				n, calls, steps := 1, 1+shape%2, shape/4
				if shape >= 2 {
					n, calls, steps = 2, 1, shape%2
				}
				progs := make([][]Call, n)
				for t := range progs {
					for i := 0; i < calls; i++ {
						res := make([]int, arity)
						for j := range res {
							res[j] = 10*(t+1) + 3*i + j
						}
						progs[t] = append(progs[t], Call{Steps: steps * (1 - t), Res: res})
					}
				}
				exec(c, Case{Arity: arity, Progs: progs, Gate: n == 2 && rep%2 == 1, Jitter: c.Rng.Uint64()})
			}
		}
	}
	// gate scenarios: the invoked function is held while k-1 other goroutines call Do
	for rep := 0; rep < c.N(1, 6, 4); rep++ {
		for k := 1; k <= 16; k++ {
			for arity := 1; arity <= 3; arity++ {
				for _, late := range []int{0, 1 + c.Rng.Intn(3)} {
					if late >= k {
						continue
					}
					exec(c, Case{Arity: arity, Progs: mkProgs(c.Rng, arity, k, 2, 2, true), Gate: true, Late: late, Jitter: c.Rng.Uint64()})
				}
			}
		}
	}
	// the first invoked function does not return normally: sync.Once counts it as done all the same
	for rep := 0; rep < c.N(2, 6, 4); rep++ {
		for _, exit := range []string{"goexit", "panic", "return"} {
			for arity := 1; arity <= 3; arity++ {
				for _, k := range []int{1, 2, 3, 15, 16, 17, 63, 64, 65} {
					exec(c, Case{Arity: arity, Exit: exit, Later: k})                   // later callers only
					exec(c, Case{Arity: arity, Exit: exit, Waiters: k, Later: 1 + k%3}) // callers already waiting
					exec(c, Case{Arity: arity, Exit: exit, Waiters: 1 + k%3, Later: k})
				}
			}
		}
	}
	// the aborting function is anybody's: after user steps, in a goroutine other than 0, with further calls
	// of the same goroutine afterwards (recover, then Do again on the same Once), functions of second calls
	for arity := 1; arity <= 3; arity++ {
		for _, exit := range []string{"panic", "goexit"} {
			for steps := 0; steps <= 2; steps++ {
				res := func(k int) []int { return []int{k, k + 1, k + 2}[:arity] }
				// one goroutine: the first function aborts, two more calls follow
				exec(c, Case{Arity: arity, Progs: [][]Call{{{steps, res(1), exit}, {1, res(4), ""}, {0, res(7), exit}}}, Jitter: c.Rng.Uint64()})
				// three goroutines: goroutine 0 makes no call, goroutine 1 is therefore the only caller at first and
				// its function aborts (with a further call after recover); goroutine 2 is a late caller
				exec(c, Case{Arity: arity, Progs: [][]Call{{}, {{steps, res(4), exit}, {0, res(7), ""}}, {{0, res(1), ""}, {0, res(2), ""}}},
					Late: 1, Gate: steps == 1, Jitter: c.Rng.Uint64()})
				// two goroutines racing, both functions abort
				exec(c, Case{Arity: arity, Progs: [][]Call{{{steps, res(1), exit}}, {{2 - steps, res(4), exit}, {0, res(7), ""}}}, Jitter: c.Rng.Uint64()})
			}
		}
	}
	for i := c.N(400, 5000, 2500); i > 0; i-- {
		arity := 1 + c.Rng.Intn(3)
		n := 1 + c.Rng.Intn(8)
		progs := mkProgs(c.Rng, arity, n, 3, 3, c.Rng.Chance(60))
		for t := range progs {
			for k := range progs[t] {
				if c.Rng.Chance(45) {
					progs[t][k].Exit = []string{"panic", "goexit"}[c.Rng.Intn(2)]
				}
			}
		}
		late := 0
		if c.Rng.Chance(30) {
			late = c.Rng.Intn(n)
		}
		exec(c, Case{Arity: arity, Progs: progs, Gate: c.Rng.Chance(15), Late: late, Jitter: c.Rng.Uint64()})
	}
	// oracle-heavy stream: many goroutines / many calls per goroutine (model-sampled: only the small ones go to Coq)
	sizes := []int{15, 16, 17, 31, 32, 33, 63, 64, 65, 127, 128, 129, 255, 256, 257, 1023, 1024, 1025, 2047, 2048, 2049, 4095, 4096, 4097}
	if c.Tier == "race" {
		sizes = sizes[:12] // the race detector is slow with thousands of goroutines
	}
	for _, sz := range sizes {
		arity := 1 + sz%3
		// sz goroutines, one call each
		exec(c, Case{Arity: arity, Progs: mkProgs(c.Rng, arity, sz, 1, 1, true), Gate: sz%2 == 1, Late: sz / 3, Jitter: c.Rng.Uint64()})
		// few goroutines, sz calls in total
		g := 1 + c.Rng.Intn(4)
		progs := make([][]Call, g)
		for i := 0; i < sz; i++ {
			t := i % g
			res := make([]int, arity)
			for j := range res {
				res[j] = 1000*(t+1) + i + j
			}
			progs[t] = append(progs[t], Call{Steps: c.Rng.Intn(2), Res: res})
		}
		exec(c, Case{Arity: arity, Progs: progs, Jitter: c.Rng.Uint64()})
		// one function with sz user steps
		exec(c, Case{Arity: arity, Progs: [][]Call{{{Steps: sz, Res: make([]int, arity)}}, {{Steps: 1, Res: []int{7, 8, 9}[:arity]}}}, Jitter: c.Rng.Uint64()})
	}
	c.Note("all of: arity 1..3 x 1..16 goroutines with the invoked function gated, with and without late callers; small scenarios (<= 2 goroutines) also checked against every schedule of the model; plus random free-running scenarios")
	// free-running random scenarios
	for i := c.N(900, 12000, 6000); i > 0; i-- {
		arity := 1 + c.Rng.Intn(3)
		n := 1 + c.Rng.Intn(16)
		if c.Rng.Chance(40) {
			n = 1 + c.Rng.Intn(4)
		}
		late := 0
		if c.Rng.Chance(30) {
			late = c.Rng.Intn(n)
		}
		exec(c, Case{Arity: arity, Progs: mkProgs(c.Rng, arity, n, 3, 3, c.Rng.Chance(60)), Gate: c.Rng.Chance(10), Late: late, Jitter: c.Rng.Uint64()})
	}
	for _, k := range []string{"aborting_function_of_a_goroutine_other_than_0", "aborting_function_after_user_steps", "recover_then_Do_again",
		"invoked_function_exits_by_panic", "invoked_function_exits_by_goexit"} {
		if c.Stats[k] == 0 {
			c.Unobservable("no scenario reached: " + k)
		}
	}
}

// hang is how long a scenario may take before it is reported as blocked; after 3 such reports the run
// stops executing scenarios (a deadlocking implementation would otherwise take for ever).
// hangFor scales the limit with the number of goroutines (a loaded machine schedules thousands of them slowly).
func hangFor(goroutines int) time.Duration {
	return hang + time.Duration(goroutines)*5*time.Millisecond
}

var (
	hang       = 10 * time.Second
	hangs      int32
	barrierMax = 64
)

func exec(c *core.Ctx, cs Case) {
	if atomic.LoadInt32(&hangs) >= 3 {
		return
	}
	c.Begin(cs)
	if cs.Exit != "" {
		execExit(c, cs)
		return
	}
	n := len(cs.Progs)
	c.Count(fmt.Sprintf("arity_%d", cs.Arity))
	switch {
	case n == 1:
		c.Count("goroutines_1")
	case n <= 4:
		c.Count("goroutines_2-4")
	default:
		c.Count("goroutines_5-16")
	}
	if cs.Gate {
		c.Count("gated")
	}
	if cs.Late > 0 {
		c.Count("late_callers")
	}
	total := 0
	for _, p := range cs.Progs {
		total += len(p)
	}
	if n >= 2 {
		c.Nontrivial() // at least two goroutines compete
	}

	d := newDoer(cs.Arity)
	var mu sync.Mutex
	var ran [][2]int
	var effects, returned int64
	marker := 0 // plain variable: written by the invoked function, read by every caller after Do
	gate := make(chan struct{})
	entered := make(chan struct{}, total+1)
	rets := make([][][]int, n)
	seen := make([][]int, n)

	mkf := func(t, i int, call Call) func() []int {
		return func() []int {
			mu.Lock()
			ran = append(ran, [2]int{t, i})
			mu.Unlock()
			for s := 0; s < call.Steps; s++ {
				atomic.AddInt64(&effects, 1)
				runtime.Gosched()
			}
			if cs.Gate {
				entered <- struct{}{}
				<-gate
			}
			marker = 1000*(t+1) + i + 1
			switch call.Exit {
			case "panic":
				panic(panicVal{t, i})
			case "goexit":
				runtime.Goexit()
			}
			return append([]int{}, call.Res...)
		}
	}
	var wg sync.WaitGroup
	var ready int32
	abortedAt := make([]int, n) // index of the call of goroutine t whose function panicked (-1: none)
	goexitAt := make([]int, n)  // index of the call during which goroutine t ended through Goexit (-1: none)
	for t := range abortedAt {
		abortedAt[t], goexitAt[t] = -1, -1
	}
	var badPanic atomic.Value // a panic value other than the function's own reached a caller
	// doCall makes one call; ok = false when the call did not return (its function panicked; recovered here)
	doCall := func(t, i int, call Call) (r []int, ok bool) {
		defer func() {
			if p := recover(); p != nil {
				if pv, is := p.(panicVal); !is || pv != (panicVal{t, i}) {
					badPanic.Store(fmt.Sprintf("goroutine %d call %d recovered %v, want the function's own panic value %v", t, i, p, panicVal{t, i}))
				}
				abortedAt[t] = i
			}
		}()
		r = d.Do(mkf(t, i, call))
		return r, true
	}
	worker := func(t int, group int) {
		defer wg.Done()
		cur := -1
		defer func() {
			if cur >= 0 {
				goexitAt[t] = cur // the goroutine is ending inside call cur without a panic: Goexit
			}
		}()
		jr := core.NewRand(cs.Jitter + uint64(t)*7919)
		// release the goroutines of a group at the same instant (spin, so that they really run in parallel)
		atomic.AddInt32(&ready, 1)
		for i := 0; group <= barrierMax && atomic.LoadInt32(&ready) < int32(group); i++ {
			if i%200000 == 199999 {
				runtime.Gosched()
			}
		}
		for i, call := range cs.Progs[t] {
			for y := jr.Intn(4); y > 0 && cs.Jitter%2 == 1; y-- {
				runtime.Gosched()
			}
			cur = i
			r, ok := doCall(t, i, call)
			cur = -1
			if !ok {
				continue // recovered: go on with the next call on the same Once
			}
			m := marker
			atomic.AddInt64(&returned, 1)
			rets[t] = append(rets[t], r)
			seen[t] = append(seen[t], m)
		}
	}
	waitAll := func() bool {
		done := make(chan struct{})
		go func() { wg.Wait(); close(done) }()
		select {
		case <-done:
			return true
		case <-time.After(hangFor(n)):
			atomic.AddInt32(&hangs, 1)
			return false
		}
	}

	first := n - cs.Late
	early := int64(0)
	hung := false
	wg.Add(first)
	for t := 0; t < first; t++ {
		go worker(t, first)
	}
	if cs.Gate {
		select {
		case <-entered:
			// some function is now running and held: give the other callers time to (wrongly) return
			time.Sleep(300 * time.Microsecond)
			for y := 0; y < 20; y++ {
				runtime.Gosched()
			}
			early = atomic.LoadInt64(&returned)
		case <-time.After(hangFor(n)):
			atomic.AddInt32(&hangs, 1)
			hung = true
			c.Fail("no function was invoked", fmt.Sprintf("goroutines called Do but none of the functions ran within %v", hangFor(n)))
		}
		close(gate)
	}
	if !waitAll() {
		hung = true
		c.Fail("Do did not return", fmt.Sprintf("%d of the calls had returned after %v", atomic.LoadInt64(&returned), hangFor(n)))
	}
	if !hung && cs.Late > 0 {
		wg.Add(cs.Late)
		for t := first; t < n; t++ {
			go worker(t, n)
		}
		if !waitAll() {
			hung = true
			c.Fail("Do did not return", "late callers blocked")
		}
	}
	if hung {
		return
	}

	// ---- direct oracle: the property on the implementation's behaviour ----
	mu.Lock()
	ranCopy := append([][2]int{}, ran...)
	mu.Unlock()
	if len(ranCopy) != 1 {
		c.Fail(fmt.Sprintf("%d functions were invoked, want exactly 1", len(ranCopy)), fmt.Sprint(ranCopy))
	}
	if early != 0 {
		c.Fail("Do returned before the invocation completed", fmt.Sprintf("%d calls had returned while the invoked function was still held on the gate", early))
	}
	if len(ranCopy) >= 1 && first >= 2 {
		if ranCopy[0][0] == 0 {
			c.Count("winner_is_goroutine_0")
		} else {
			c.Count("winner_is_another_goroutine")
		}
	}
	if msg := badPanic.Load(); msg != nil {
		c.Fail("the panic value of the function did not reach the caller of Do unchanged", msg.(string))
	}
	if len(ranCopy) >= 1 {
		w := ranCopy[0]
		win := cs.Progs[w[0]][w[1]]
		want := win.Res
		if win.Exit != "" {
			c.Count("invoked_function_exits_by_" + win.Exit)
			want = make([]int, cs.Arity) // the Once is consumed, nothing was assigned
			if w[0] != 0 {
				c.Count("aborting_function_of_a_goroutine_other_than_0")
			}
			if win.Steps > 0 {
				c.Count("aborting_function_after_user_steps")
			}
			if win.Exit == "panic" && len(cs.Progs[w[0]]) > w[1]+1 {
				c.Count("recover_then_Do_again")
			}
		}
		wantMarker := 1000*(w[0]+1) + w[1] + 1
		for t := range rets {
			wantN := len(cs.Progs[t])
			if goexitAt[t] >= 0 {
				wantN = goexitAt[t]
			} else if abortedAt[t] >= 0 {
				wantN--
			}
			if len(rets[t]) != wantN {
				c.Fail("missing results", fmt.Sprintf("goroutine %d returned from %d calls, want %d", t, len(rets[t]), wantN))
			}
			for i, r := range rets[t] {
				if !core.Eq(r, want) {
					c.Fail("Do returned values other than those of the invocation",
						fmt.Sprintf("goroutine %d return %d got %v, invocation (goroutine %d call %d, exit %q) gives %v", t, i, r, w[0], w[1], win.Exit, want))
				}
				if len(ranCopy) == 1 && seen[t][i] != wantMarker {
					c.Fail("effects of the invocation not visible after Do returned",
						fmt.Sprintf("goroutine %d return %d read marker %d, want %d", t, i, seen[t][i], wantMarker))
				}
			}
			if len(ranCopy) == 1 && (abortedAt[t] >= 0 || goexitAt[t] >= 0) {
				at := abortedAt[t]
				if at < 0 {
					at = goexitAt[t]
				}
				if t != w[0] || at != w[1] || win.Exit == "" {
					c.Fail("a Do call did not return although its function was not the aborting invocation", fmt.Sprintf("goroutine %d call %d", t, at))
				}
			}
		}
		if len(ranCopy) == 1 && win.Exit != "" && abortedAt[w[0]] != w[1] && goexitAt[w[0]] != w[1] {
			c.Fail("Do returned although its function did not", fmt.Sprintf("goroutine %d call %d exits by %s", w[0], w[1], win.Exit))
		}
		if len(ranCopy) == 1 && int(atomic.LoadInt64(&effects)) != win.Steps {
			c.Fail("user steps executed differ from those of the single invocation", fmt.Sprintf("%d vs %d", effects, win.Steps))
		}
		if !core.Eq(d.Fields(), want) {
			c.Fail("fields R1.. differ from the invocation's results", fmt.Sprint(d.Fields()))
		}
	}

	// ---- the observation as a Coq case (large scenarios are checked by the oracle only) ----
	if n > 33 || total > 100 {
		c.Count("oracle_only_large")
		return
	}
	// In the model an aborting caller makes no further calls; a goroutine that recovered the panic and went
	// on is the same as another goroutine arriving later: its remaining calls become an extra thread.
	term := func(call Call) string {
		return "(" + core.Z(call.Steps) + "," + core.ZList(call.Res) + "," + core.Bool(call.Exit != "") + ")"
	}
	var progs, rt []string
	var contProg, contRets string
	for t, p := range cs.Progs {
		cut := len(p)
		if abortedAt[t] >= 0 {
			cut = abortedAt[t] + 1
		}
		calls := make([]string, 0, cut)
		for _, call := range p[:cut] {
			calls = append(calls, term(call))
		}
		progs = append(progs, core.List(calls))
		if abortedAt[t] >= 0 {
			k := abortedAt[t] // results before the aborted call stay with t, those after it go to the extra thread
			if k > len(rets[t]) {
				k = len(rets[t])
			}
			rt = append(rt, core.ZListList(rets[t][:k]))
			var rest []string
			for _, call := range p[cut:] {
				rest = append(rest, term(call))
			}
			contProg, contRets = core.List(rest), core.ZListList(rets[t][k:])
		} else {
			rt = append(rt, core.ZListList(rets[t]))
		}
	}
	if contProg != "" {
		progs, rt = append(progs, contProg), append(rt, contRets)
	}
	rs := make([]string, len(ranCopy))
	for i, w := range ranCopy {
		rs[i] = core.Pair(core.Z(w[0]), core.Z(w[1]))
	}
	c.Emit(strings.Join([]string{"Case", core.Z(cs.Arity), core.List(progs), core.List(rs), core.List(rt), core.Z(int(early))}, " "))
}

// execExit: goroutine 0's function is the first to be invoked and leaves through cs.Exit. Whatever the
// exit, the Once is consumed: no other function may ever be invoked (with the real sync.Once the other
// calls return the fields as they are: the results on a normal return, zero values otherwise).
// Scenarios with at most 33 goroutines are also replayed on the Coq model (whose functions may abort).
func execExit(c *core.Ctx, cs Case) {
	c.Count("exit_" + cs.Exit)
	c.Count(fmt.Sprintf("arity_%d", cs.Arity))
	if cs.Waiters > 0 {
		c.Count("exit_with_waiting_callers")
	}
	c.Nontrivial()
	d := newDoer(cs.Arity)
	var invoked int64
	var mu sync.Mutex
	var who []int
	res0 := []int{11, 12, 13}[:cs.Arity]
	want := make([]int, cs.Arity) // zero values
	if cs.Exit == "return" {
		want = res0
	}
	entered := make(chan struct{})
	gate := make(chan struct{})
	done0 := make(chan struct{})
	note := func(id int) {
		atomic.AddInt64(&invoked, 1)
		mu.Lock()
		who = append(who, id)
		mu.Unlock()
	}
	var ret0 []int // what the first caller's own Do returned (stays nil when it left by panic / Goexit)
	var returnedEarly int64
	gotPanic := "" // a panic value other than the function's own
	go func() {
		defer close(done0)
		defer func() {
			if p := recover(); p != nil && p != any("c17: the action panics") {
				gotPanic = fmt.Sprint(p)
			}
		}()
		ret0 = d.Do(func() []int {
			note(0)
			close(entered)
			<-gate
			switch cs.Exit {
			case "goexit":
				runtime.Goexit()
			case "panic":
				panic("c17: the action panics")
			}
			return res0
		})
	}()
	select {
	case <-entered:
	case <-time.After(hangFor(cs.Waiters + cs.Later + 1)):
		atomic.AddInt32(&hangs, 1)
		c.Fail("no function was invoked", "exit scenario")
		close(gate)
		return
	}
	total := cs.Waiters + cs.Later
	rets := make([][]int, total)
	caller := func(id int, wg *sync.WaitGroup) {
		defer wg.Done()
		defer atomic.AddInt64(&returnedEarly, 1)
		rets[id-1] = d.Do(func() []int {
			note(id)
			r := make([]int, cs.Arity)
			for j := range r {
				r[j] = 100*id + j
			}
			return r
		})
	}
	wait := func(wg *sync.WaitGroup) bool {
		ch := make(chan struct{})
		go func() { wg.Wait(); close(ch) }()
		select {
		case <-ch:
			return true
		case <-time.After(hangFor(cs.Waiters + cs.Later + 1)):
			atomic.AddInt32(&hangs, 1)
			return false
		}
	}
	var wg1 sync.WaitGroup
	wg1.Add(cs.Waiters)
	for i := 1; i <= cs.Waiters; i++ {
		go caller(i, &wg1)
	}
	if cs.Waiters > 0 {
		time.Sleep(200 * time.Microsecond) // let them reach the Once
	}
	early := atomic.LoadInt64(&returnedEarly) // callers that returned while the first function was still running
	close(gate)
	select {
	case <-done0:
	case <-time.After(hangFor(cs.Waiters + cs.Later + 1)):
		atomic.AddInt32(&hangs, 1)
		c.Fail("Do did not return", "first caller")
		return
	}
	if !wait(&wg1) {
		c.Fail("Do did not return", "a caller that was waiting while the first function ran is still blocked after it left through "+cs.Exit)
		return
	}
	var wg2 sync.WaitGroup
	wg2.Add(cs.Later)
	for i := cs.Waiters + 1; i <= total; i++ {
		go caller(i, &wg2)
	}
	if !wait(&wg2) {
		c.Fail("Do did not return", "later caller blocked after the first function left through "+cs.Exit)
		return
	}
	if n := atomic.LoadInt64(&invoked); n != 1 {
		mu.Lock()
		c.Fail(fmt.Sprintf("%d functions were invoked, want exactly 1", n),
			fmt.Sprintf("the first function left through %s; functions invoked (0 = first caller): %v", cs.Exit, who))
		mu.Unlock()
	}
	for i, r := range rets {
		if !core.Eq(r, want) {
			c.Fail("Do returned values other than those of the invocation",
				fmt.Sprintf("first function left through %s; caller %d got %v, want %v", cs.Exit, i+1, r, want))
			break
		}
	}
	if !core.Eq(d.Fields(), want) {
		c.Fail("fields R1.. differ from the invocation's results", fmt.Sprintf("%v after exit through %s", d.Fields(), cs.Exit))
	}
	if early != 0 {
		c.Fail("Do returned before the invocation completed", fmt.Sprintf("%d callers had returned while the first function was still running (exit %s)", early, cs.Exit))
	}
	if cs.Exit == "return" && !core.Eq(ret0, res0) {
		c.Fail("Do returned values other than those of the invocation", fmt.Sprintf("the first caller itself got %v, want %v", ret0, res0))
	}
	if gotPanic != "" {
		c.Fail("the panic value of the function did not reach the caller of Do unchanged", gotPanic)
	}
	if cs.Exit != "return" && ret0 != nil {
		c.Fail("Do returned although its function did not", fmt.Sprintf("exit %s, got %v", cs.Exit, ret0))
	}
	// ---- the observation as a Coq case: goroutine 0's function aborts (panic and Goexit are the same to
	// sync.Once) or returns; every other goroutine makes one call with a returning function ----
	if total+1 > 33 {
		c.Count("oracle_only_large")
		return
	}
	abort := "false"
	if cs.Exit != "return" {
		abort = "true"
	}
	progs := []string{core.List([]string{"(0," + core.ZList(res0) + "," + abort + ")"})}
	rt := []string{"[]"}
	if ret0 != nil {
		rt[0] = core.ZListList([][]int{ret0})
	}
	for id := 1; id <= total; id++ {
		r := make([]int, cs.Arity)
		for j := range r {
			r[j] = 100*id + j
		}
		progs = append(progs, core.List([]string{"(0," + core.ZList(r) + ",false)"}))
		rt = append(rt, core.ZListList([][]int{rets[id-1]}))
	}
	mu.Lock()
	rs := make([]string, len(who))
	for i, id := range who {
		rs[i] = core.Pair(core.Z(id), "0")
	}
	mu.Unlock()
	c.Emit(strings.Join([]string{"Case", core.Z(cs.Arity), core.List(progs), core.List(rs), core.List(rt), core.Z(int(early))}, " "))
}
