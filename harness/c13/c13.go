// Package c13: Chunk, Windowed, Pairs and their ...Func variants.
package c13

import (
	"encoding/json"
	"fmt"
	"math"

	"gopkg.in/typ.v4/slices"
	"verif/harness/core"
)

type Case struct {
	Fn    string `json:"fn"`
	Input []int  `json:"input"`
	Size  int    `json:"size"`
	Nil   bool   `json:"nil,omitempty"` // with an empty Input: pass the nil slice
}

var fns = []string{"Chunk", "ChunkFunc", "Windowed", "WindowedFunc", "Pairs", "PairsFunc"}

func init() {
	core.Register(&core.Prop{ID: "C13", Module: "Slices.PartitionCheck", Run: run, Replay: replay})
}

func replay(c *core.Ctx, raw json.RawMessage) error {
	var cs Case
	if err := json.Unmarshal(raw, &cs); err != nil {
		return err
	}
	exec(c, cs)
	return nil
}

func distinct(n int) []int {
	s := make([]int, n)
	for i := range s {
		s[i] = i + 1
	}
	return s
}

func run(c *core.Ctx) {
	// exhaustive small scope: every n and size (every remainder, size = n, size > n)
	maxN := c.N(24, 48, 40)
	for n := 0; n <= maxN; n++ {
		for size := 1; size <= maxN+2; size++ {
			for _, fn := range fns {
				if (fn == "Pairs" || fn == "PairsFunc") && size > 1 {
					continue
				}
				exec(c, Case{Fn: fn, Input: distinct(n), Size: size})
			}
		}
	}
	c.Exhaustive = true
	c.Note(fmt.Sprintf("exhaustive: all n in 0..%d x size in 1..%d x 6 functions with distinct elements; plus random", maxN, maxN+2))
	// edge stream: the nil slice with ordinary sizes (all six functions), and the largest size (MaxInt)
	// on the nil slice, the empty slice and short slices
	for size := 1; size <= 3; size++ {
		for _, fn := range fns {
			if (fn == "Pairs" || fn == "PairsFunc") && size > 1 {
				continue
			}
			exec(c, Case{Fn: fn, Input: []int{}, Size: size, Nil: true})
		}
	}
	edge := func(size int) {
		for n := 0; n <= 6; n++ {
			for _, fn := range fns[:4] {
				exec(c, Case{Fn: fn, Input: distinct(n), Size: size})
				if n == 0 {
					exec(c, Case{Fn: fn, Input: []int{}, Size: size, Nil: true})
				}
			}
		}
	}
	edge(math.MaxInt)
	c.Note("edge streams: nil slice x sizes 1..3 x 6 functions; sizes MaxInt, 0 and -1 x n in 0..6 (and the nil slice) x Chunk/ChunkFunc/Windowed/WindowedFunc")
	// oracle-heavy, model-sampled: lengths and sizes around powers of two up to 4097 (a defect may hide
	// behind a size threshold); every case goes through the oracle, one in 40 through the model
	var dims []int
	for _, b := range []int{8, 16, 32, 64, 128, 256, 512, 1024, 2048, 4096} {
		dims = append(dims, b-1, b, b+1)
	}
	k := 0
	for _, n := range dims {
		in := c.Rng.Ints(n, -3, 9)
		sizes := append([]int{1, 2, 3, 5, n - 1, n, n + 1, n / 2, n/2 + 1, n / 3}, dims...)
		for _, size := range sizes {
			if size < 1 {
				continue
			}
			for _, fn := range fns {
				if (fn == "Pairs" || fn == "PairsFunc") && size > 1 {
					continue
				}
				if (fn == "Windowed" || fn == "WindowedFunc") && n >= size && (n-size+1)*size > 200000 {
					continue // quadratic output
				}
				k++
				small := n <= 130 || fn == "Pairs" || fn == "PairsFunc" || fn == "Chunk" || fn == "ChunkFunc"
				execEmit(c, Case{Fn: fn, Input: in, Size: size}, k%40 == 0 && small && ((fn != "Windowed" && fn != "WindowedFunc") || (n-size+1)*size < 4000))
			}
		}
	}
	// random: larger n, repeated elements
	for i := c.N(300, 6000, 5000); i > 0; i-- {
		n := c.Rng.Size(c.N(300, 2000, 600))
		in := c.Rng.Ints(n, -3, 9)
		size := 1 + c.Rng.Size(n+3)
		fn := fns[c.Rng.Intn(len(fns))]
		if (fn == "Windowed" || fn == "WindowedFunc") && n >= size && (n-size+1)*size > 4000 {
			// the output of Windowed is (n-size+1)*size numbers: keep it small by taking very small or near-n sizes
			if c.Rng.Bool() {
				size = 1 + c.Rng.Intn(3)
			} else {
				size = n - c.Rng.Intn(3)
			}
		}
		exec(c, Case{Fn: fn, Input: in, Size: size})
	}
	// malformed stream: sizes outside the property, 0 and -1. Nothing can fail here and nothing is sent to
	// the model; stats record whether the Func variant did what the slice-returning variant did, and for
	// size 0 whether the code did what the model's size-0 branches say.
	edge(0)
	edge(-1)
}

func exec(c *core.Ctx, cs Case) { execEmit(c, cs, true) }

// ---- guarded inputs (as in harness/c14, with a front guard as well): the slice handed to the code is
// a window of a larger buffer whose other cells hold sentinels, so that a write outside the visible
// elements (before the slice, or into its spare capacity) is seen ----

const (
	sentinel   = 777777
	frontGuard = 2
	backGuard  = 3
)

type guard struct {
	buf  []int // frontGuard sentinels, the input, backGuard sentinels (the input's spare capacity)
	snap []int // buf as it was built
}

func guarded(l []int, isNil bool) (in []int, g *guard) {
	if isNil && len(l) == 0 {
		return nil, nil
	}
	buf := make([]int, frontGuard+len(l)+backGuard)
	for i := range buf {
		buf[i] = sentinel + i
	}
	copy(buf[frontGuard:], l)
	return buf[frontGuard : frontGuard+len(l)], &guard{buf, append([]int{}, buf...)}
}

// changed lists the cells of the buffer (input and guards) that differ from what was built
func (g *guard) changed() []int {
	var d []int
	for i, v := range g.buf {
		if v != g.snap[i] {
			d = append(d, i-frontGuard) // as an index of the input: negative = front guard, >= n = spare capacity
		}
	}
	return d
}

func twin(fn string) string {
	if len(fn) > 4 && fn[len(fn)-4:] == "Func" {
		return fn[:len(fn)-4]
	}
	return fn + "Func"
}

// runaway is the outcome of a call that delivered more than n+2 pieces (no function of the property
// delivers more than n+1, whatever the size): the harness stops it there, so that a callback loop that
// never ends is a recorded failure with its input instead of a process that eats the memory.
const runaway = "Runaway"

type stopRunaway struct{}

// call runs fn of the real package on in and returns copies of the pieces it returned (or passed to its
// callback), in order, and "" / the panic kind / runaway. probe, if not nil, is given every piece as
// delivered (the returned sub-slice, or the callback's argument while the callback runs) together with
// its position.
func call(fn string, in []int, size int, probe func(k int, p []int)) (pieces [][]int, kind string) {
	limit := len(in) + 2
	add := func(cp []int) {
		if len(pieces) >= limit {
			panic(stopRunaway{})
		}
		pieces = append(pieces, cp)
	}
	take := func(p []int) {
		add(append([]int{}, p...))
		if probe != nil {
			probe(len(pieces)-1, p)
		}
	}
	stopped := false
	kind = core.Try(func() {
		defer func() {
			if r := recover(); r != nil {
				if _, ok := r.(stopRunaway); !ok {
					panic(r)
				}
				stopped = true
			}
		}()
		switch fn {
		case "Chunk":
			for _, p := range slices.Chunk(in, size) {
				take(p)
			}
		case "ChunkFunc":
			slices.ChunkFunc(in, size, take)
		case "Windowed":
			for _, p := range slices.Windowed(in, size) {
				take(p)
			}
		case "WindowedFunc":
			slices.WindowedFunc(in, size, take)
		case "Pairs":
			for _, p := range slices.Pairs(in) {
				add([]int{p[0], p[1]})
			}
		case "PairsFunc":
			slices.PairsFunc(in, func(a, b int) { add([]int{a, b}) })
		}
	})
	if stopped {
		kind = runaway
	}
	return pieces, kind
}

// outcome: what is compared for sizes < 1 (never the panic message or a kind derived from it)
func outcome(kind string) string {
	switch kind {
	case "":
		return "returned"
	case runaway:
		return "did not stop delivering pieces"
	}
	return "panicked"
}

// size0AsModel: what Slices/Partition.v computes for size 0, written out
func size0AsModel(cs Case, n int, pieces [][]int, kind string) bool {
	switch cs.Fn {
	case "Chunk", "ChunkFunc":
		if n == 0 {
			return kind == "" && len(pieces) == 0
		}
		return outcome(kind) == "panicked"
	}
	if kind != "" || len(pieces) != n+1 {
		return false
	}
	for _, p := range pieces {
		if len(p) != 0 {
			return false
		}
	}
	return true
}

func eqPieces(a, b [][]int) bool {
	if len(a) != len(b) {
		return false
	}
	for i := range a {
		if !core.Eq(a[i], b[i]) {
			return false
		}
	}
	return true
}

// execEmit: with emit=false the case is checked by the direct oracle only (large inputs: the Go side
// is cheap, the Coq replay is not)
func execEmit(c *core.Ctx, cs Case, emit bool) {
	c.Begin(cs)
	c.Count("fn_" + cs.Fn)
	n := len(cs.Input)
	isPairs := cs.Fn == "Pairs" || cs.Fn == "PairsFunc"
	in, g := guarded(cs.Input, cs.Nil)
	if in == nil {
		c.Count("nil_input")
	}
	switch {
	case isPairs:
	case cs.Size == 0:
		c.Count("size_0")
	case cs.Size < 0:
		c.Count("size_negative")
	case cs.Size == math.MaxInt:
		c.Count("size_maxint")
	}
	// sub-slice probe (oracle only; the value model cannot express it): a write through a delivered
	// piece either changes nothing of the input (the piece is a copy: the property does not forbid it)
	// or exactly the input element the piece element stands for (the piece is the documented sub-slice
	// slice[j:j+size]); anything else (another element, a guard cell) is a failure.
	step := 1 // Windowed: piece k starts at k
	if cs.Fn == "Chunk" || cs.Fn == "ChunkFunc" {
		step = cs.Size // piece k starts at k*size
	}
	var probe func(k int, p []int)
	var probeFail []string
	if g != nil && !isPairs && cs.Size >= 1 {
		probe = func(k int, p []int) {
			if len(p) == 0 || !(n <= 64 || k < 2 || k%61 == 0) {
				return
			}
			for _, o := range []int{0, len(p) - 1} {
				old := p[o]
				p[o] = old + 1000003
				d := g.changed()
				p[o] = old
				switch {
				case len(d) == 0:
					c.Count("probe_piece_is_copy")
				case len(d) == 1 && d[0] == k*step+o:
					c.Count("probe_piece_is_subslice")
				default:
					probeFail = append(probeFail, fmt.Sprintf("piece %d offset %d: changed input indices %v, want [%d] (or none)", k, o, d, k*step+o))
				}
			}
		}
	}
	pieces, kind := call(cs.Fn, in, cs.Size, probe)
	if n > cs.Size && cs.Size > 1 && n%cs.Size != 0 {
		c.Nontrivial() // several pieces and a remainder
	}
	if kind != "" {
		c.Count("panic")
	}
	// direct oracle: the property itself, on the implementation's output
	inDomain := cs.Size >= 1 || isPairs
	if g != nil {
		if d := g.changed(); len(d) > 0 {
			if inDomain {
				c.Fail("input or memory around it modified", fmt.Sprintf("changed input indices %v (negative: before the slice; >= %d: spare capacity)", d, n))
			} else {
				c.Count("size_below_1_input_modified")
			}
		}
	}
	if inDomain {
		if kind == runaway {
			c.Fail(fmt.Sprintf("more than %d pieces delivered (stopped by the harness)", n+2), fmt.Sprint(pieces))
		} else if kind != "" {
			c.Fail("panic", kind)
		} else if msg := oracle(cs, pieces); msg != "" {
			c.Fail(msg, fmt.Sprint(pieces))
		} else if len(probeFail) > 0 {
			// the pieces have the right contents (so k*step+o is where each element came from)
			c.Fail("write through a piece lands in the wrong place", probeFail[0])
		}
	} else {
		// size < 1 is outside the property: what the pieces are, whether the call panics, whether the
		// Func variant does what the slice-returning variant does - nothing is fixed, so NOTHING here
		// fails (a hardening such as `if size < 1 { panic(...) }` in one variant only is harmless).
		// The run only records, as stats, what it saw: the two variants differing (one panics and the
		// other does not, or different pieces), a variant that went on delivering pieces (cut off by
		// the harness after n+2), an input modified.
		in2, g2 := guarded(cs.Input, cs.Nil)
		pieces2, kind2 := call(twin(cs.Fn), in2, cs.Size, nil)
		if kind == runaway || kind2 == runaway {
			c.Count("size_below_1_runaway")
		}
		if outcome(kind) != outcome(kind2) || (kind == "" && !eqPieces(pieces, pieces2)) {
			c.Count("size_below_1_func_differs")
		}
		if g2 != nil && len(g2.changed()) > 0 {
			c.Count("size_below_1_input_modified")
		}
		// Not a check, a record: does the code still do at size 0 what the model's size-0 branches say
		// (Chunk/ChunkFunc: nothing for the empty input, else a panic; Windowed/WindowedFunc: n+1 empty
		// windows)? No theorem uses those branches and a difference is not a failure.
		if cs.Size == 0 {
			if size0AsModel(cs, n, pieces, kind) {
				c.Count("size0_matches_model")
			} else {
				c.Count("size0_differs_from_model")
			}
		}
		// sizes < 1 are never compared with the model (check_case rejects them): oracle only
		c.Count("oracle_only")
		return
	}
	if kind == runaway {
		kind = "OtherPanic" // for the model comparison: did not return
	}
	if !emit {
		c.Count("oracle_only")
		return
	}
	c.Emit(fmt.Sprintf("Case F%s %s %s %s", cs.Fn, core.ZList(cs.Input), core.Z(cs.Size), core.Res(kind, core.ZListList(pieces))))
}

func oracle(cs Case, pieces [][]int) string {
	n, size := len(cs.Input), cs.Size
	switch cs.Fn {
	case "Chunk", "ChunkFunc":
		want := n / size // ceil(n/size), without overflow for sizes near MaxInt
		if n%size != 0 {
			want++
		}
		if len(pieces) != want {
			return fmt.Sprintf("chunk count %d, want ceil(%d/%d)=%d", len(pieces), n, size, want)
		}
		var cat []int
		for i, p := range pieces {
			if len(p) == 0 {
				return fmt.Sprintf("empty chunk %d", i)
			}
			if i < len(pieces)-1 && len(p) != size {
				return fmt.Sprintf("chunk %d has length %d, want %d", i, len(p), size)
			}
			if len(p) > size {
				return fmt.Sprintf("chunk %d longer than size", i)
			}
			cat = append(cat, p...)
		}
		if !core.Eq(cat, cs.Input) {
			return "concatenation of chunks differs from input"
		}
	case "Windowed", "WindowedFunc":
		want := 0
		if n >= size {
			want = n - size + 1
		}
		if len(pieces) != want {
			return fmt.Sprintf("window count %d, want %d", len(pieces), want)
		}
		for i, p := range pieces {
			if !core.Eq(p, cs.Input[i:i+size]) {
				return fmt.Sprintf("window %d is not input[%d:%d]", i, i, i+size)
			}
		}
	default:
		want := 0
		if n >= 2 {
			want = n - 1
		}
		if len(pieces) != want {
			return fmt.Sprintf("pair count %d, want %d", len(pieces), want)
		}
		for i, p := range pieces {
			if p[0] != cs.Input[i] || p[1] != cs.Input[i+1] {
				return fmt.Sprintf("pair %d is not (input[%d], input[%d])", i, i, i+1)
			}
		}
	}
	return ""
}
