// Package c13: Chunk, Windowed, Pairs and their ...Func variants.
package c13

import (
	"encoding/json"
	"fmt"

	"gopkg.in/typ.v4/slices"
	"verif/harness/core"
)

type Case struct {
	Fn    string `json:"fn"`
	Input []int  `json:"input"`
	Size  int    `json:"size"`
}

var fns = []string{"Chunk", "ChunkFunc", "Windowed", "WindowedFunc", "Pairs", "PairsFunc"}

func init() {
	core.Register(&core.Prop{ID: "C13", Module: "Slices.PartitionCheck", Run: run, Replay: replay})
}

func replay(c *core.Ctx, raw json.RawMessage) error {
	var cs Case
	if err := json.Unmarshal(raw, &cs); err != nil {
		return err
	}
	exec(c, cs)
	return nil
}

func distinct(n int) []int {
	s := make([]int, n)
	for i := range s {
		s[i] = i + 1
	}
	return s
}

func run(c *core.Ctx) {
	// exhaustive small scope: every n and size (every remainder, size = n, size > n)
	maxN := c.N(24, 48, 40)
	for n := 0; n <= maxN; n++ {
		for size := 1; size <= maxN+2; size++ {
			for _, fn := range fns {
				if (fn == "Pairs" || fn == "PairsFunc") && size > 1 {
					continue
				}
				exec(c, Case{fn, distinct(n), size})
			}
		}
	}
	c.Exhaustive = true
	c.Note(fmt.Sprintf("exhaustive: all n in 0..%d x size in 1..%d x 6 functions with distinct elements; plus random", maxN, maxN+2))
	// oracle-heavy, model-sampled: lengths and sizes around powers of two up to 4097 (a defect may hide
	// behind a size threshold); every case goes through the oracle, one in 40 through the model
	var dims []int
	for _, b := range []int{8, 16, 32, 64, 128, 256, 512, 1024, 2048, 4096} {
		dims = append(dims, b-1, b, b+1)
	}
	k := 0
	for _, n := range dims {
		in := c.Rng.Ints(n, -3, 9)
		sizes := append([]int{1, 2, 3, 5, n - 1, n, n + 1, n / 2, n/2 + 1, n / 3}, dims...)
		for _, size := range sizes {
			if size < 1 {
				continue
			}
			for _, fn := range fns {
				if (fn == "Pairs" || fn == "PairsFunc") && size > 1 {
					continue
				}
				if (fn == "Windowed" || fn == "WindowedFunc") && n >= size && (n-size+1)*size > 200000 {
					continue // quadratic output
				}
				k++
				small := n <= 130 || fn == "Pairs" || fn == "PairsFunc" || fn == "Chunk" || fn == "ChunkFunc"
				execEmit(c, Case{fn, in, size}, k%40 == 0 && small && ((fn != "Windowed" && fn != "WindowedFunc") || (n-size+1)*size < 4000))
			}
		}
	}
	// random: larger n, repeated elements
	for i := c.N(300, 6000, 5000); i > 0; i-- {
		n := c.Rng.Size(c.N(300, 2000, 600))
		in := c.Rng.Ints(n, -3, 9)
		size := 1 + c.Rng.Size(n+3)
		fn := fns[c.Rng.Intn(len(fns))]
		if (fn == "Windowed" || fn == "WindowedFunc") && n >= size && (n-size+1)*size > 4000 {
			// the output of Windowed is (n-size+1)*size numbers: keep it small by taking very small or near-n sizes
			if c.Rng.Bool() {
				size = 1 + c.Rng.Intn(3)
			} else {
				size = n - c.Rng.Intn(3)
			}
		}
		exec(c, Case{fn, in, size})
	}
}

func exec(c *core.Ctx, cs Case) { execEmit(c, cs, true) }

// execEmit: with emit=false the case is checked by the direct oracle only (large inputs: the Go side
// is cheap, the Coq replay is not)
func execEmit(c *core.Ctx, cs Case, emit bool) {
	c.Begin(cs)
	c.Count("fn_" + cs.Fn)
	in := append([]int{}, cs.Input...)
	var pieces [][]int
	kind := core.Try(func() {
		switch cs.Fn {
		case "Chunk":
			for _, p := range slices.Chunk(in, cs.Size) {
				pieces = append(pieces, append([]int{}, p...))
			}
		case "ChunkFunc":
			slices.ChunkFunc(in, cs.Size, func(p []int) { pieces = append(pieces, append([]int{}, p...)) })
		case "Windowed":
			for _, p := range slices.Windowed(in, cs.Size) {
				pieces = append(pieces, append([]int{}, p...))
			}
		case "WindowedFunc":
			slices.WindowedFunc(in, cs.Size, func(p []int) { pieces = append(pieces, append([]int{}, p...)) })
		case "Pairs":
			for _, p := range slices.Pairs(in) {
				pieces = append(pieces, []int{p[0], p[1]})
			}
		case "PairsFunc":
			slices.PairsFunc(in, func(a, b int) { pieces = append(pieces, []int{a, b}) })
		}
	})
	n := len(cs.Input)
	if n > cs.Size && cs.Size > 1 && n%cs.Size != 0 {
		c.Nontrivial() // several pieces and a remainder
	}
	if kind != "" {
		c.Count("panic_" + kind)
	}
	// direct oracle: the property itself, on the implementation's output
	if !core.Eq(in, cs.Input) {
		c.Fail("input modified", fmt.Sprint(in))
	}
	if cs.Size >= 1 {
		if kind != "" {
			c.Fail("panic", kind)
		} else if msg := oracle(cs, pieces); msg != "" {
			c.Fail(msg, fmt.Sprint(pieces))
		}
	}
	if !emit {
		c.Count("oracle_only")
		return
	}
	c.Emit(fmt.Sprintf("Case F%s %s %s %s", cs.Fn, core.ZList(cs.Input), core.Z(cs.Size), core.Res(kind, core.ZListList(pieces))))
}

func oracle(cs Case, pieces [][]int) string {
	n, size := len(cs.Input), cs.Size
	switch cs.Fn {
	case "Chunk", "ChunkFunc":
		want := (n + size - 1) / size
		if len(pieces) != want {
			return fmt.Sprintf("chunk count %d, want ceil(%d/%d)=%d", len(pieces), n, size, want)
		}
		var cat []int
		for i, p := range pieces {
			if len(p) == 0 {
				return fmt.Sprintf("empty chunk %d", i)
			}
			if i < len(pieces)-1 && len(p) != size {
				return fmt.Sprintf("chunk %d has length %d, want %d", i, len(p), size)
			}
			if len(p) > size {
				return fmt.Sprintf("chunk %d longer than size", i)
			}
			cat = append(cat, p...)
		}
		if !core.Eq(cat, cs.Input) {
			return "concatenation of chunks differs from input"
		}
	case "Windowed", "WindowedFunc":
		want := 0
		if n >= size {
			want = n - size + 1
		}
		if len(pieces) != want {
			return fmt.Sprintf("window count %d, want %d", len(pieces), want)
		}
		for i, p := range pieces {
			if !core.Eq(p, cs.Input[i:i+size]) {
				return fmt.Sprintf("window %d is not input[%d:%d]", i, i, i+size)
			}
		}
	default:
		want := 0
		if n >= 2 {
			want = n - 1
		}
		if len(pieces) != want {
			return fmt.Sprintf("pair count %d, want %d", len(pieces), want)
		}
		for i, p := range pieces {
			if p[0] != cs.Input[i] || p[1] != cs.Input[i+1] {
				return fmt.Sprintf("pair %d is not (input[%d], input[%d])", i, i, i+1)
			}
		}
	}
	return ""
}
