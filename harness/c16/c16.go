// Package c16: lists.Queue is FIFO, lists.Stack is LIFO.
package c16

import (
	"encoding/json"
	"fmt"

	"gopkg.in/typ.v4/lists"
	"verif/harness/core"
)

// Op: K = E(nqueue) D(equeue) P(eek) L(en) for queues; U(push) O(pop) P(eek) L(en) for stacks.
type Op struct {
	K string `json:"k"`
	V int    `json:"v"`
}

type Case struct {
	Kind string `json:"kind"` // queue | stack | nilstack
	Ops  []Op   `json:"ops"`
}

func init() {
	core.Register(&core.Prop{ID: "C16", Module: "Lists.QueueStackCheck", Run: run, Replay: replay})
}

func replay(c *core.Ctx, raw json.RawMessage) error {
	var cs Case
	if err := json.Unmarshal(raw, &cs); err != nil {
		return err
	}
	exec(c, cs)
	return nil
}

type out struct {
	kind  string // U V N P
	v     int
	ok    bool
	panic string
}

func (o out) coq() string {
	switch o.kind {
	case "V":
		return "(QVal " + core.Z(o.v) + " " + core.Bool(o.ok) + ")"
	case "N":
		return "(QInt " + core.Z(o.v) + ")"
	case "P":
		return "(QPanic " + o.panic + ")"
	}
	return "QUnit"
}

func exec(c *core.Ctx, cs Case) {
	c.Begin(cs)
	c.Count("kind_" + cs.Kind)
	c.CountN("ops", len(cs.Ops))
	ops := make([]string, len(cs.Ops))
	obs := make([]string, len(cs.Ops))
	var ref []int // reference contents: queue front = ref[0]; stack top = ref[len-1]
	failed := false
	fail := func(what, detail string) {
		if !failed {
			c.Fail(what, detail)
			failed = true
		}
	}
	var q lists.Queue[int] // zero value
	var st lists.Stack[int]
	sp := &st
	if cs.Kind == "nilstack" {
		sp = nil
	}
	drained, refilled := false, false
	for i, op := range cs.Ops {
		var o out
		var length int
		kind := core.Try(func() {
			if cs.Kind == "queue" {
				switch op.K {
				case "E":
					q.Enqueue(op.V)
					o = out{kind: "U"}
				case "D":
					v, ok := q.Dequeue()
					o = out{kind: "V", v: v, ok: ok}
				case "P":
					v, ok := q.Peek()
					o = out{kind: "V", v: v, ok: ok}
				case "L":
					o = out{kind: "N", v: q.Len()}
				}
			} else {
				switch op.K {
				case "U":
					sp.Push(op.V)
					o = out{kind: "U"}
				case "O":
					v, ok := sp.Pop()
					o = out{kind: "V", v: v, ok: ok}
				case "P":
					v, ok := sp.Peek()
					o = out{kind: "V", v: v, ok: ok}
				case "L":
					o = out{kind: "N", v: len(*sp)}
				}
			}
		})
		if kind != "" {
			o = out{kind: "P", panic: kind}
			c.Count("panic_" + kind)
		}
		switch {
		case cs.Kind == "queue":
			length = q.Len()
		case sp != nil:
			length = len(*sp)
		default:
			length = -1
		}
		// ---- direct oracle ----
		where := fmt.Sprintf("op %d %v", i, op)
		if cs.Kind == "nilstack" {
			switch op.K {
			case "O", "P":
				if o.kind != "V" || o.ok || o.v != 0 {
					fail("Pop/Peek on a nil *Stack must return (0,false)", where+": "+o.coq())
				}
			}
		} else {
			if o.kind == "P" {
				fail("panic", where+": "+o.panic)
			}
			switch op.K {
			case "E", "U":
				ref = append(ref, op.V)
				if drained {
					refilled = true
				}
			case "D":
				if len(ref) == 0 {
					if o.ok || o.v != 0 {
						fail("Dequeue on empty queue must return (0,false)", where+": "+o.coq())
					}
				} else {
					if !o.ok || o.v != ref[0] {
						fail("Dequeue is not FIFO", fmt.Sprintf("%s: got %s, want (%d,true)", where, o.coq(), ref[0]))
					}
					ref = ref[1:]
					drained = drained || len(ref) == 0
				}
			case "O":
				if len(ref) == 0 {
					if o.ok || o.v != 0 {
						fail("Pop on empty stack must return (0,false)", where+": "+o.coq())
					}
				} else {
					if !o.ok || o.v != ref[len(ref)-1] {
						fail("Pop is not LIFO", fmt.Sprintf("%s: got %s, want (%d,true)", where, o.coq(), ref[len(ref)-1]))
					}
					ref = ref[:len(ref)-1]
					drained = drained || len(ref) == 0
				}
			case "P":
				if len(ref) == 0 {
					if o.ok || o.v != 0 {
						fail("Peek on empty container must return (0,false)", where+": "+o.coq())
					}
				} else {
					want := ref[0]
					if cs.Kind == "stack" {
						want = ref[len(ref)-1]
					}
					if !o.ok || o.v != want {
						fail("Peek does not return the next value", fmt.Sprintf("%s: got %s, want (%d,true)", where, o.coq(), want))
					}
				}
			case "L":
				if o.v != len(ref) {
					fail("Len is not the number of values inside", fmt.Sprintf("%s: got %d, want %d", where, o.v, len(ref)))
				}
			}
			if length != len(ref) {
				fail("length after the call is wrong", fmt.Sprintf("%s: got %d, want %d", where, length, len(ref)))
			}
		}
		switch cs.Kind {
		case "queue":
			ops[i] = map[string]string{"E": "QEnqueue " + core.Z(op.V), "D": "QDequeue", "P": "QPeek", "L": "QLen"}[op.K]
		default:
			ops[i] = map[string]string{"U": "SPush " + core.Z(op.V), "O": "SPop", "P": "SPeek", "L": "SLen"}[op.K]
		}
		obs[i] = core.Pair(o.coq(), core.Z(length))
	}
	if drained && refilled {
		c.Nontrivial() // drained to empty and used again
		c.Count("drain_and_refill")
	}
	switch cs.Kind {
	case "queue":
		c.Emit("CQueue " + core.List(ops) + " " + core.List(obs))
	case "stack":
		c.Emit("CStack false " + core.List(ops) + " " + core.List(obs))
	default:
		c.Emit("CStack true " + core.List(ops) + " " + core.List(obs))
	}
}

func run(c *core.Ctx) {
	// exhaustive: every op list up to length n over {insert fresh value, remove, peek} (+ Len as last op)
	n := c.N(7, 9, 9)
	for _, kind := range []string{"queue", "stack"} {
		ins, rem := "E", "D"
		if kind == "stack" {
			ins, rem = "U", "O"
		}
		var rec func(ops []Op, next int)
		rec = func(ops []Op, next int) {
			exec(c, Case{kind, append(append([]Op{}, ops...), Op{K: "L"})})
			if len(ops) == n {
				return
			}
			rec(append(ops, Op{ins, next}), next+1)
			rec(append(ops, Op{K: rem}), next)
			rec(append(ops, Op{K: "P"}), next)
		}
		rec(nil, 1)
	}
	c.Exhaustive = true
	c.Note(fmt.Sprintf("exhaustive: every history of Enqueue/Dequeue/Peek (Push/Pop/Peek) up to length %d followed by Len, from the zero value; plus random interleavings up to length 300 with drain-to-empty and refill; plus calls on a nil *Stack", n))
	// calls on a nil *Stack
	exec(c, Case{"nilstack", []Op{{K: "P"}, {K: "O"}, {K: "P"}, {K: "O"}}})
	exec(c, Case{"nilstack", []Op{{K: "O"}, {K: "U", V: 1}, {K: "P"}}})
	// random interleavings, phases biased towards filling or draining
	for i := c.N(400, 6000, 20000); i > 0; i-- {
		kind := []string{"queue", "stack"}[c.Rng.Intn(2)]
		ins, rem := "E", "D"
		if kind == "stack" {
			ins, rem = "U", "O"
		}
		ln := 1 + c.Rng.Size(c.N(120, 300, 600))
		var ops []Op
		fill := 70
		for len(ops) < ln {
			if c.Rng.Chance(6) {
				fill = []int{15, 50, 85}[c.Rng.Intn(3)]
			}
			switch x := c.Rng.Intn(100); {
			case x < 8:
				ops = append(ops, Op{K: "P"})
			case x < 12:
				ops = append(ops, Op{K: "L"})
			case c.Rng.Chance(fill):
				ops = append(ops, Op{ins, c.Rng.Range(-50, 50)})
			default:
				ops = append(ops, Op{K: rem})
			}
		}
		exec(c, Case{kind, ops})
	}
}
