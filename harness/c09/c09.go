// Package c09: keyed mutexes — per-key mutual exclusion and cross-key
// independence, under the controlled scheduler.
package c09

import (
	"encoding/json"
	"fmt"
	"sort"
	"sync"

	"gopkg.in/typ.v4/sync2"
	"verif/harness/core"
	"verif/harness/sched"
)

// Block is "acquire key K in some way, run Inner while holding it, release".
type Block struct {
	How   string  `json:"how"` // Lock TryLock RLock TryRLock Clear Hold (= Lock that is never released)
	K     int     `json:"k"`
	Inner []Block `json:"inner,omitempty"`
}

type Case struct {
	RW      bool      `json:"rw"`     // KeyedRWMutex instead of KeyedMutex
	Prefix  []Block   `json:"prefix"` // sequential set-up run by thread 0 alone before the others start
	Progs   [][]Block `json:"progs"`
	Choices []int     `json:"choices"`
	Kind    string    `json:"kind"`
}

func init() {
	core.Register(&core.Prop{ID: "C09", Module: "SyncMap.Check", Run: run, Replay: replay})
}

func replay(c *core.Ctx, raw json.RawMessage) error {
	var cs Case
	if err := json.Unmarshal(raw, &cs); err != nil {
		return err
	}
	r, info := execute(cs, sched.Prefix(cs.Choices), true)
	report(c, cs, r, info)
	return nil
}

type call struct {
	coq   string // Coq call term
	op    string // Lock TryLock Unlock RLock TryRLock RUnlock Clear
	k     int
	ok    bool // TryLock/TryRLock result
	endAt int
}

type runInfo struct {
	calls   [][]*call
	nprefix int // thread 0's first nprefix calls are the sequential set-up prefix
}

type locker interface {
	LockKey(int)
	TryLockKey(int) bool
	UnlockKey(int)
	ClearKey(int)
}

// keysOf collects the keys a case uses (sorted).
func keysOf(cs Case) []int {
	seen := map[int]bool{}
	var walk func(bs []Block)
	walk = func(bs []Block) {
		for _, b := range bs {
			seen[b.K] = true
			walk(b.Inner)
		}
	}
	walk(cs.Prefix)
	for _, p := range cs.Progs {
		walk(p)
	}
	var ks []int
	for k := range seen {
		ks = append(ks, k)
	}
	sort.Ints(ks)
	return ks
}

// execute runs the case. With probe set, an extra goroutine (index len(cs.Progs)) runs after all the
// others have finished or are blocked and probes the FINAL state of every key's mutex: TryLockKey(k)
// (and UnlockKey(k) when it succeeded). Its calls are part of the replayed program, so the model must
// agree with the real mutexes on which keys are still held at the end, and the occupancy oracle checks
// "succeeds iff nobody holds the key". The probe goroutine is never offered to the explorer as an
// alternative (it only runs when nothing else can).
func execute(cs Case, choose sched.Chooser, probe bool) (sched.Result, *runInfo) {
	var km sync2.KeyedMutex[int]
	var rw sync2.KeyedRWMutex[int]
	np := len(cs.Progs)
	nthreads := np
	if probe {
		nthreads++
	}
	info := &runInfo{calls: make([][]*call, nthreads)}
	threads := make([]sched.Thread, nthreads)
	for t := 0; t < nthreads; t++ {
		t := t
		n := 0
		threads[t].Dyn = func(rec func(string)) {
			do := func(op string, k int, post string, f func() (string, bool)) bool {
				n++
				c := &call{op: op, k: k}
				if op == "Clear" {
					c.coq = fmt.Sprintf("CDelete 0 %s", core.Z(k))
				} else {
					c.coq = fmt.Sprintf("CLoadOrStore 0 %s %d %s", core.Z(k), 1000*(t+1)+n, post)
				}
				info.calls[t] = append(info.calls[t], c)
				res, ok := f()
				c.ok = ok
				c.endAt = sched.StepsSoFar()
				rec(res)
				return ok
			}
			var runBlocks func(bs []Block)
			runBlocks = func(bs []Block) {
				for _, b := range bs {
					k := b.K
					unit := func(f func()) func() (string, bool) { return func() (string, bool) { f(); return "RUnit", true } }
					try := func(f func() bool) func() (string, bool) {
						return func() (string, bool) { ok := f(); return "RBool " + core.Bool(ok), ok }
					}
					switch {
					case b.How == "Clear":
						if cs.RW {
							do("Clear", k, "", unit(func() { rw.ClearKey(k) }))
						} else {
							do("Clear", k, "", unit(func() { km.ClearKey(k) }))
						}
					case !cs.RW && b.How == "Hold":
						do("Lock", k, "PLock", unit(func() { km.LockKey(k) }))
					case cs.RW && b.How == "Hold":
						do("Lock", k, "PWLock", unit(func() { rw.LockKey(k) }))
					case !cs.RW && b.How == "Lock":
						do("Lock", k, "PLock", unit(func() { km.LockKey(k) }))
						runBlocks(b.Inner)
						do("Unlock", k, "PUnlock", unit(func() { km.UnlockKey(k) }))
					case !cs.RW && b.How == "TryLock":
						if do("TryLock", k, "PTryLock", try(func() bool { return km.TryLockKey(k) })) {
							runBlocks(b.Inner)
							do("Unlock", k, "PUnlock", unit(func() { km.UnlockKey(k) }))
						}
					case cs.RW && b.How == "Lock":
						do("Lock", k, "PWLock", unit(func() { rw.LockKey(k) }))
						runBlocks(b.Inner)
						do("Unlock", k, "PWUnlock", unit(func() { rw.UnlockKey(k) }))
					case cs.RW && b.How == "TryLock":
						if do("TryLock", k, "PWTryLock", try(func() bool { return rw.TryLockKey(k) })) {
							runBlocks(b.Inner)
							do("Unlock", k, "PWUnlock", unit(func() { rw.UnlockKey(k) }))
						}
					case cs.RW && b.How == "RLock":
						do("RLock", k, "PRLock", unit(func() { rw.RLockKey(k) }))
						runBlocks(b.Inner)
						do("RUnlock", k, "PRUnlock", unit(func() { rw.RUnlockKey(k) }))
					case cs.RW && b.How == "TryRLock":
						if do("TryRLock", k, "PTryRLock", try(func() bool { return rw.TryRLockKey(k) })) {
							runBlocks(b.Inner)
							do("RUnlock", k, "PRUnlock", unit(func() { rw.RUnlockKey(k) }))
						}
					}
				}
			}
			if t == np { // the final probe
				for _, k := range keysOf(cs) {
					runBlocks([]Block{{How: "TryLock", K: k}})
				}
				return
			}
			if t == 0 {
				runBlocks(cs.Prefix)
				info.nprefix = len(info.calls[0])
			}
			runBlocks(cs.Progs[t])
		}
	}
	ch := choose
	if probe {
		ch = func(step int, enabled []int, last int) int {
			var others []int
			for _, e := range enabled {
				if e != np {
					others = append(others, e)
				}
			}
			if len(others) > 0 {
				return choose(step, others, last)
			}
			return np
		}
	}
	r := sched.Run(threads, ch, 6000)
	if probe { // the probe is not an alternative the explorer may pick
		for j, en := range r.Enabled {
			if len(en) > 1 {
				var others []int
				for _, e := range en {
					if e != np {
						others = append(others, e)
					}
				}
				r.Enabled[j] = others
			}
		}
	}
	return r, info
}

func isLockStep(l string) bool {
	switch l {
	case "KM_Lock", "KM_TryLock", "KM_Unlock", "KRW_Lock", "KRW_TryLock", "KRW_Unlock", "KRW_RLock", "KRW_TryRLock", "KRW_RUnlock":
		return true
	}
	return false
}

// all explored schedules are checked by the occupancy oracle; one in emitEvery of the passing ones also goes to the Coq model
var emitEvery = 1
var emitCount int

func report(c *core.Ctx, cs Case, r sched.Result, info *runInfo) {
	cs.Choices = r.Chosen
	c.Begin(cs)
	c.Count("kind_" + cs.Kind)
	if cs.RW {
		c.Count("rwmutex")
	} else {
		c.Count("mutex")
	}
	c.CountN("steps", len(r.Steps))
	if r.Deadlock {
		c.Count("deadlocked_runs")
	}
	// map every mutex step to its call (thread t's k-th call owns t's steps up to its end)
	type ev struct {
		t    int
		c    *call
		step int
	}
	var evs []ev
	for t, calls := range info.calls {
		prev := 0
		for _, cl := range calls {
			end := cl.endAt
			if end == 0 { // call did not finish (deadlock): it owns the rest
				end = len(r.Steps)
			}
			for i := prev; i < end; i++ {
				if r.Steps[i].T == t && isLockStep(r.Steps[i].Label) {
					evs = append(evs, ev{t, cl, i})
				}
			}
			prev = end
		}
	}
	// order by step index
	for i := 1; i < len(evs); i++ {
		for j := i; j > 0 && evs[j].step < evs[j-1].step; j-- {
			evs[j], evs[j-1] = evs[j-1], evs[j]
		}
	}
	// "Try* succeed when the key is free AND UNCONTENDED": in Go a Try* may legitimately fail on a free key
	// while another goroutine is operating on or queued at the same mutex (RWMutex refuses readers while a
	// writer waits; Mutex.TryLock fails in starvation mode; RWMutex.TryLock/Unlock are not atomic). Under the
	// CONTROLLED scheduler this never happens: exactly one goroutine runs between two hooks and a goroutine
	// parked at a hook is not inside the real mutex, so here a Try* that fails on a free key is ALWAYS a
	// violation (strict check, no contention excuse). The excuse would only apply where goroutines really
	// block inside the mutexes, i.e. in the race-tier stress test, which has no Try-success oracle.
	// oracle: per-key occupancy
	writers := map[int]int{} // key -> thread+1 holding exclusively
	readers := map[int]int{}
	contended := false
	fail := ""
	for _, e := range evs {
		k := e.c.k
		switch e.c.op {
		case "Lock":
			if writers[k] != 0 || readers[k] != 0 {
				fail = fmt.Sprintf("thread %d acquired key %d exclusively while it was held (writer %d, readers %d)", e.t, k, writers[k]-1, readers[k])
			}
			writers[k] = e.t + 1
		case "TryLock":
			free := writers[k] == 0 && readers[k] == 0
			if e.c.endAt != 0 {
				if e.c.ok && !free {
					fail = fmt.Sprintf("TryLockKey(%d) by thread %d succeeded while the key was held", k, e.t)
				}
				if !e.c.ok && free {
					fail = fmt.Sprintf("TryLockKey(%d) by thread %d failed although the key was free (controlled run: nobody is inside the real mutex, so no contention excuse)", k, e.t)
				}
				if e.c.ok {
					writers[k] = e.t + 1
				} else {
					contended = true
				}
			}
		case "Unlock":
			writers[k] = 0
		case "RLock":
			if writers[k] != 0 {
				fail = fmt.Sprintf("thread %d read-acquired key %d while a writer held it", e.t, k)
			}
			readers[k]++
		case "TryRLock":
			if e.c.endAt != 0 {
				if e.c.ok && writers[k] != 0 {
					fail = fmt.Sprintf("TryRLockKey(%d) succeeded while a writer held the key", k)
				}
				if !e.c.ok && writers[k] == 0 {
					fail = fmt.Sprintf("TryRLockKey(%d) failed although no writer held the key (controlled run: no writer can be waiting inside the real mutex)", k)
				}
				if e.c.ok {
					readers[k]++
				} else {
					contended = true
				}
			}
		case "RUnlock":
			readers[k]--
		}
		if fail != "" {
			break
		}
	}
	// cross-key independence: a goroutine waiting at a Lock step of key k may only wait while k is held;
	// in a deadlocked run every blocked goroutine must be blocked on a key that some goroutine holds.
	if fail == "" && r.Deadlock && r.Panic == "" {
		for t, calls := range info.calls {
			if len(calls) == 0 {
				continue
			}
			last := calls[len(calls)-1]
			if last.endAt == 0 && (last.op == "Lock" || last.op == "RLock") {
				if writers[last.k] == 0 && (last.op == "RLock" || readers[last.k] == 0) {
					fail = fmt.Sprintf("thread %d is blocked acquiring key %d although nobody holds it", t, last.k)
				}
			}
		}
	}
	if fail == "" && r.Panic != "" {
		fail = "panic or runaway schedule: " + r.Panic
	}
	if fail != "" {
		c.Fail(fail, fmt.Sprint(r.Steps))
	}
	nt := len(info.calls) // the programs' goroutines plus the final probe
	sameKey := false
	seen := map[int]int{}
	for t, calls := range info.calls {
		if t >= len(cs.Progs) {
			break // the probe touches every key: it does not make a case non-trivial
		}
		for i, cl := range calls {
			if t == 0 && i < info.nprefix {
				continue // the set-up prefix runs alone: it does not make thread 0 a user of the key
			}
			if p, ok := seen[cl.k]; ok && p != t {
				sameKey = true
			}
			seen[cl.k] = t
		}
	}
	if len(cs.Progs) > 1 && sameKey && (contended || len(r.Steps) > 0) {
		c.Nontrivial()
	}
	emitCount++
	if emitEvery > 1 && emitCount%emitEvery != 0 && fail == "" {
		c.Count("explored_oracle_only")
		return
	}
	progs := make([]string, nt)
	results := make([]string, nt)
	for t := range info.calls {
		var a []string
		for _, cl := range info.calls[t] {
			a = append(a, cl.coq)
		}
		progs[t] = core.List(a)
		results[t] = core.List(r.Results[t])
	}
	c.Emit(fmt.Sprintf("Case 1 %s %s %s %s []", core.List(progs), sched.CoqSteps(r.Steps), core.List(results), core.Bool(r.Deadlock)))
}

// randBlocks generates n blocks over the shared keys 0..nkeys-1. priv >= 0 is a key that only this
// goroutine ever uses: on it the goroutine may also call ClearKey, concurrently with whatever the others
// do on the other keys - nobody else holds or awaits priv, as the property requires for ClearKey
// (disc2_from of Props/C09ck.v); ClearKey is only generated at the top level of a program, never while
// the goroutine itself holds priv. noRead is a key this goroutine already holds a read lock on (-1: none):
// a nested RLock/TryRLock of the same key is outside sync.RWMutex's contract (recursive read locking
// deadlocks in Go when a writer queues up in between) and is not generated.
func randBlocks(c *core.Ctx, rw bool, nkeys, depth, n, priv, noRead int) []Block {
	hows := []string{"Lock", "Lock", "TryLock"}
	if rw {
		hows = []string{"Lock", "TryLock", "RLock", "RLock", "TryRLock"}
	}
	var bs []Block
	for i := 0; i < n; i++ {
		b := Block{How: hows[c.Rng.Intn(len(hows))], K: c.Rng.Intn(nkeys)}
		if priv >= 0 && c.Rng.Chance(30) {
			b.K = priv
			if c.Rng.Chance(50) {
				b.How = "Clear"
			}
		}
		if (b.How == "RLock" || b.How == "TryRLock") && b.K == noRead {
			b.How = "TryLock"
		}
		if b.How != "Clear" && depth > 0 && c.Rng.Chance(25) {
			nr := noRead
			if b.How == "RLock" || b.How == "TryRLock" {
				nr = b.K
			}
			b.Inner = randBlocks(c, rw, nkeys, depth-1, 1, -1, nr)
		}
		bs = append(bs, b)
	}
	return bs
}

func explore(c *core.Ctx, cs Case, maxPre, limit int) {
	var base []int // the set-up prefix runs alone: thread 0 is forced while it executes it
	if len(cs.Prefix) > 0 {
		r, _ := execute(Case{RW: cs.RW, Prefix: cs.Prefix, Progs: [][]Block{{}}}, sched.NonPreemptive, false)
		base = r.Chosen
	}
	sched.ExploreBFS(func(prefix []int) sched.Result {
		pc := cs
		pc.Choices = prefix
		c.Pending(pc) // if the run kills the process, this is the failing input
		r, info := execute(cs, sched.Prefix(prefix), true)
		report(c, cs, r, info)
		return r
	}, base, maxPre, limit, func(sched.Result) {})
}

func has(s []int, x int) bool {
	for _, v := range s {
		if v == x {
			return true
		}
	}
	return false
}

// stress: uncontrolled goroutines; a plain (non-atomic) counter per key is written inside the write-locked
// section and read inside the read-locked section, so the race detector reports any failure of per-key exclusion.
func stress(c *core.Ctx) {
	for round := 0; round < 10; round++ {
		c.Begin(Case{Kind: "race-stress"})
		var km sync2.KeyedMutex[int]
		var rw sync2.KeyedRWMutex[int]
		var cnt, cntRW [3]int
		var wg sync.WaitGroup
		for g := 0; g < 8; g++ {
			wg.Add(1)
			rng := core.NewRand(c.Seed*1000 + uint64(round*16+g))
			go func() {
				defer wg.Done()
				sink := 0
				for i := 0; i < 600; i++ {
					k := rng.Intn(3)
					switch rng.Intn(6) {
					case 0, 1:
						km.LockKey(k)
						cnt[k]++
						km.UnlockKey(k)
					case 2:
						if km.TryLockKey(k) {
							cnt[k]++
							km.UnlockKey(k)
						}
					case 3:
						rw.LockKey(k)
						cntRW[k]++
						rw.UnlockKey(k)
					case 4:
						rw.RLockKey(k)
						sink += cntRW[k]
						rw.RUnlockKey(k)
					default:
						if rw.TryRLockKey(k) {
							sink += cntRW[k]
							rw.RUnlockKey(k)
						}
					}
				}
				_ = sink
			}()
		}
		wg.Wait()
		c.Count("race_stress_rounds")
	}
}

func run(c *core.Ctx) {
	if c.Tier == "race" {
		stress(c)
		return
	}
	L := func(how string, k int, inner ...Block) Block { return Block{How: how, K: k, Inner: inner} }
	// 1. systematic: first simultaneous use of a never-seen key, all schedules with <= P pre-emptions
	battery := []Case{
		{Progs: [][]Block{{L("Lock", 0)}, {L("Lock", 0)}}},
		{Progs: [][]Block{{L("Lock", 0)}, {L("TryLock", 0)}}},
		{Progs: [][]Block{{L("TryLock", 0)}, {L("TryLock", 0)}}},
		{Progs: [][]Block{{L("Lock", 0)}, {L("Lock", 1)}}},
		{Progs: [][]Block{{L("Lock", 0, L("Lock", 1))}, {L("Lock", 1)}}},
		{Progs: [][]Block{{L("Lock", 0), L("Lock", 0)}, {L("Lock", 0)}}},
		{RW: true, Progs: [][]Block{{L("RLock", 0)}, {L("RLock", 0)}}},
		{RW: true, Progs: [][]Block{{L("RLock", 0)}, {L("Lock", 0)}}},
		{RW: true, Progs: [][]Block{{L("Lock", 0)}, {L("TryRLock", 0)}}},
		{RW: true, Progs: [][]Block{{L("TryLock", 0)}, {L("RLock", 0)}}},
		{RW: true, Progs: [][]Block{{L("Lock", 0)}, {L("Lock", 0)}}},
		{Progs: [][]Block{{L("Lock", 0)}, {L("Lock", 0)}, {L("TryLock", 0)}}},
	}
	maxPre := c.N(2, 3, 2)
	limit := c.N(400, 3000, 800)
	emitEvery, emitCount = c.N(25, 25, 1), 0
	for i, b := range battery {
		b.Kind = fmt.Sprintf("explore_%d", i)
		explore(c, b, maxPre, limit)
	}
	// 1b. the same races when the key's entry in the underlying map is in each of its internal states
	// (promoted to the read map; cleared = nil entry; expunged after a fresh key rebuilt the dirty map;
	// ClearKey happens only while nobody holds or awaits the key, as the property requires)
	LU := func(k int) Block { return L("Lock", k) }
	C := func(k int) Block { return Block{How: "Clear", K: k} }
	H := func(k int) Block { return Block{How: "Hold", K: k} }
	layouts := [][]Block{
		{LU(0)},                    // key 0 promoted into the read map
		{LU(0), C(0)},              // key 0 cleared: nil entry in the read map
		{LU(0), C(0), H(2)},        // key 0 expunged (fresh key 2 rebuilt the dirty map and is still held)
		{LU(0), LU(1), C(0), H(2)}, // the same with another live key
		{LU(0), C(0), LU(2)},       // expunged then dropped at the next promotion
		{LU(0), H(2)},              // amended dirty map, key 0 in both
	}
	small := []Case{
		// first use of a fresh key (rebuilds the dirty map, expunges cleared keys) racing the re-acquisition of key 0,
		// followed by an unlock that promotes the dirty map and a TryLock that must see the key held
		{Progs: [][]Block{{L("Lock", 3)}, {H(0)}, {L("TryLock", 0)}}},
		{Progs: [][]Block{{L("Lock", 3), L("TryLock", 0)}, {H(0)}}},
		{RW: true, Progs: [][]Block{{L("Lock", 3), L("TryRLock", 0)}, {H(0)}}},
		{Progs: [][]Block{{L("Lock", 0)}, {L("Lock", 0)}}},
		{Progs: [][]Block{{L("Lock", 0)}, {L("TryLock", 0)}}},
		{RW: true, Progs: [][]Block{{L("RLock", 0)}, {L("Lock", 0)}}},
		{RW: true, Progs: [][]Block{{L("Lock", 0)}, {L("TryRLock", 0)}}},
		{Progs: [][]Block{{L("Lock", 0)}, {L("Lock", 0)}, {L("Lock", 1)}}},
	}
	smallClear := []Case{
		// ClearKey CONCURRENT with the others, on a key nobody else holds or awaits (key 0 / key 5 are used by
		// thread 1 only): it races the others' first use of fresh keys (dirtyLocked expunges the cleared entry,
		// promotion drops it) and is followed by a re-acquisition that must create a new mutex
		{Progs: [][]Block{{L("Lock", 3), L("TryLock", 4)}, {C(0), L("Lock", 0)}}},
		{Progs: [][]Block{{L("Lock", 3)}, {L("Lock", 5), C(5), L("TryLock", 5)}}},
		{RW: true, Progs: [][]Block{{L("RLock", 3), L("Lock", 4)}, {C(0), L("RLock", 0)}}},
	}
	lim2 := c.N(400, 3000, 800)
	lim3 := c.N(100, 1500, 300)
	for li, lay := range layouts {
		for _, b := range small {
			b.Prefix = lay
			b.Kind = fmt.Sprintf("layout_%d", li)
			explore(c, b, maxPre, lim2)
		}
		for _, b := range smallClear {
			b.Prefix = lay
			b.Kind = fmt.Sprintf("layout_%d_clear", li)
			explore(c, b, maxPre, lim3)
		}
	}
	emitEvery = 1
	// 2. random programs and schedules: 2-4 goroutines, 1-3 keys
	for i := c.N(600, 40000, 8000); i > 0; i-- {
		rw := c.Rng.Bool()
		nt := 2 + c.Rng.Intn(3)
		nkeys := 1 + c.Rng.Intn(3)
		progs := make([][]Block, nt)
		for t := range progs {
			priv := -1
			if c.Rng.Chance(50) {
				priv = 10 + t // a key of its own, for concurrent ClearKey
			}
			progs[t] = randBlocks(c, rw, nkeys, 1, 1+c.Rng.Intn(3), priv, -1)
		}
		cs := Case{RW: rw, Progs: progs, Kind: "random"}
		if c.Rng.Chance(50) {
			var pre []Block
			for j := c.Rng.Intn(5); j > 0; j-- {
				k := c.Rng.Intn(nkeys)
				switch c.Rng.Intn(3) {
				case 0:
					pre = append(pre, Block{How: "Lock", K: k})
				case 1:
					pre = append(pre, Block{How: "Clear", K: k})
				default:
					pre = append(pre, Block{How: "Lock", K: 3 + c.Rng.Intn(2)})
				}
			}
			cs.Prefix = pre
			cs.Kind = "random_prefix"
		}
		var base []int // the set-up prefix runs alone first (ClearKey only while nobody holds or awaits the key)
		if len(cs.Prefix) > 0 {
			r0, _ := execute(Case{RW: cs.RW, Prefix: cs.Prefix, Progs: [][]Block{{}}}, sched.NonPreemptive, false)
			base = r0.Chosen
		}
		c.Pending(cs)
		r, info := execute(cs, sched.Then(base, sched.Random(c.Rng.Intn, 40)), true)
		report(c, cs, r, info)
	}
}
