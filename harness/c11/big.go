package c11

// Large Bimaps (oracle-heavy, model-sampled stream).
//
// A big case is a scripted history generated from (kind, n, seed, stride):
//
//	kind "grow": one Bimap is built up to n pairs, hit with every collision
//	  pattern of Add at that size, cloned (clones of clones), the copies are
//	  mutated differently (one emptied and reused, one half torn down, one left
//	  alone), the big one is torn down pair by pair to empty with both kinds of
//	  removal and then reused, cleared, cloned while empty.
//	kind "handles": n handles made by cloning earlier handles (chains of clones
//	  of clones), each small, each mutated after it has been cloned.
//
// The history runs on the real code next to a reference made of two Go maps.
// After EVERY operation the keys and values the operation touches and Len are
// re-read; whenever the size of the handle operated on becomes a threshold size
// (0..5, 2^k-1, 2^k, 2^k+1, 6.5*2^k and +1 = Go's map growth points, ...) every
// pair is looked up in both directions and Range must visit each exactly once;
// a full check (all four look-ups over the whole universe, inverse, Len, Range
// exactly once, Range stopping at several counts) is made after every Clone (copy
// and source) and Clear, and for ALL handles at the end of every phase.
// A few small instances are also given to the Coq model (prefixes of the same
// scripts as ordinary cases); the rest is checked by the Go oracle only.

import (
	"fmt"
	"sort"

	"gopkg.in/typ.v4/maps"
	"verif/harness/core"
)

type BigSpec struct {
	Kind   string `json:"kind"` // grow | handles
	N      int    `json:"n"`
	Seed   uint64 `json:"seed"`
	Stride int    `json:"stride"` // keys and values are base + i*stride
	Base   int    `json:"base"`
}

// sizes with extra density around powers of two
var bigSizes = []int{0, 1, 2, 3, 4, 5, 7, 8, 9, 12, 13, 14, 15, 16, 17, 26, 27, 31, 32, 33, 52, 53, 63, 64, 65, 100, 104, 105, 127, 128, 129,
	208, 209, 255, 256, 257, 416, 417, 500, 511, 512, 513, 832, 833, 1000, 1023, 1024, 1025, 1664, 1665, 2047, 2048, 2049, 3000, 3328, 3329, 4095, 4096, 4097}

var thresholdSet = func() map[int]bool {
	m := map[int]bool{}
	for _, s := range bigSizes {
		m[s] = true
	}
	return m
}()

type refBig struct{ fwd, rev map[int]int }

func newRefBig() *refBig { return &refBig{fwd: map[int]int{}, rev: map[int]int{}} }
func (r *refBig) add(k, v int) {
	if ov, ok := r.fwd[k]; ok {
		delete(r.rev, ov)
	}
	if ok, ok2 := r.rev[v]; ok2 {
		delete(r.fwd, ok)
	}
	r.fwd[k], r.rev[v] = v, k
}
func (r *refBig) removeKey(k int) {
	if v, ok := r.fwd[k]; ok {
		delete(r.fwd, k)
		delete(r.rev, v)
	}
}
func (r *refBig) removeValue(v int) {
	if k, ok := r.rev[v]; ok {
		delete(r.fwd, k)
		delete(r.rev, v)
	}
}
func (r *refBig) clone() *refBig {
	c := newRefBig()
	for k, v := range r.fwd {
		c.fwd[k], c.rev[v] = v, k
	}
	return c
}

// sortedKeys: deterministic choice of "a random existing pair"
func (r *refBig) keys() []int {
	ks := make([]int, 0, len(r.fwd))
	for k := range r.fwd {
		ks = append(ks, k)
	}
	sort.Ints(ks)
	return ks
}

// ---- script generation ----

type bigScript struct {
	univ []int // every key and value that occurs
	ops  []Op
	cuts []int // phase ends (prefix lengths)
}

type gen struct {
	r    *core.Rand
	univ []int
	refs []*refBig
	ops  []Op
	cuts []int
}

func (g *gen) do(o Op) {
	r := g.refs[o.H]
	switch o.Op {
	case "Add":
		r.add(o.K, o.V)
	case "RemoveForward":
		r.removeKey(o.K)
	case "RemoveReverse":
		r.removeValue(o.V)
	case "Clear":
		g.refs[o.H] = newRefBig()
	case "Clone":
		g.refs = append(g.refs, r.clone())
	}
	g.ops = append(g.ops, o)
}
func (g *gen) cut() { g.cuts = append(g.cuts, len(g.ops)) }

// an unused key / value of handle h (the universe always has spare elements), ok=false if none
func (g *gen) freeKey(h int) (int, bool) {
	for tries := 0; tries < 64; tries++ {
		k := g.univ[g.r.Intn(len(g.univ))]
		if _, ok := g.refs[h].fwd[k]; !ok {
			return k, true
		}
	}
	for _, k := range g.univ {
		if _, ok := g.refs[h].fwd[k]; !ok {
			return k, true
		}
	}
	return 0, false
}
func (g *gen) freeValue(h int) (int, bool) {
	for tries := 0; tries < 64; tries++ {
		v := g.univ[g.r.Intn(len(g.univ))]
		if _, ok := g.refs[h].rev[v]; !ok {
			return v, true
		}
	}
	for _, v := range g.univ {
		if _, ok := g.refs[h].rev[v]; !ok {
			return v, true
		}
	}
	return 0, false
}
func (g *gen) somePair(h int, ks []int) (int, int, bool) {
	for tries := 0; tries < 8 && len(ks) > 0; tries++ {
		k := ks[g.r.Intn(len(ks))]
		if v, ok := g.refs[h].fwd[k]; ok {
			return k, v, true
		}
	}
	for k, v := range g.refs[h].fwd { // rare fallback; made deterministic by taking the smallest key
		best, bv := k, v
		for k2, v2 := range g.refs[h].fwd {
			if k2 < best {
				best, bv = k2, v2
			}
		}
		return best, bv, true
	}
	return 0, 0, false
}

// every collision pattern of Add on handle h at its current size, several times
func (g *gen) collisions(h, rounds int) {
	ks := g.refs[h].keys()
	for i := 0; i < rounds; i++ {
		if k, v, ok := g.somePair(h, ks); ok { // the same pair again
			g.do(Op{Op: "Add", H: h, K: k, V: v})
		}
		if k, _, ok := g.somePair(h, ks); ok { // same key, free value
			if v, ok := g.freeValue(h); ok {
				g.do(Op{Op: "Add", H: h, K: k, V: v})
			}
		}
		if _, v, ok := g.somePair(h, ks); ok { // free key, same value
			if k, ok := g.freeKey(h); ok {
				g.do(Op{Op: "Add", H: h, K: k, V: v})
			}
		}
		k1, v1, ok1 := g.somePair(h, ks) // key of one pair, value of another: two pairs evicted
		_, v2, ok2 := g.somePair(h, ks)
		if ok1 && ok2 && v1 != v2 {
			g.do(Op{Op: "Add", H: h, K: k1, V: v2})
			if k, ok := g.freeKey(h); ok { // back to the old size with a fresh pair
				if v, ok := g.freeValue(h); ok {
					g.do(Op{Op: "Add", H: h, K: k, V: v})
				}
			}
		}
	}
}

// remove pairs of handle h until `keep` are left, alternating the two removals, with some removals of absent keys/values
func (g *gen) teardown(h, keep int) {
	ks := perm(g.r, g.refs[h].keys())
	for i, k := range ks {
		if len(g.refs[h].fwd) <= keep {
			break
		}
		v, ok := g.refs[h].fwd[k]
		if !ok {
			continue
		}
		if i%2 == 0 {
			g.do(Op{Op: "RemoveForward", H: h, K: k})
		} else {
			g.do(Op{Op: "RemoveReverse", H: h, V: v})
		}
		if i%5 == 0 { // the pair is gone: removing it again (either way) must change nothing
			g.do(Op{Op: "RemoveForward", H: h, K: k})
			g.do(Op{Op: "RemoveReverse", H: h, V: v})
		}
	}
}

func genBig(sp BigSpec) bigScript {
	r := core.NewRand(sp.Seed)
	stride := sp.Stride
	if stride == 0 {
		stride = 1
	}
	g := &gen{r: r, refs: []*refBig{newRefBig()}}
	switch sp.Kind {
	case "handles":
		m := 12
		for i := 0; i < m; i++ {
			g.univ = append(g.univ, sp.Base+i*stride)
		}
		for len(g.refs) < sp.N {
			src := len(g.refs) - 1 // chains: a clone of the latest clone ...
			if r.Chance(40) {
				src = r.Intn(len(g.refs)) // ... or of any earlier handle
			}
			g.do(Op{Op: "Clone", H: src})
			nh := len(g.refs) - 1
			// mutate the new handle and its source differently
			g.do(Op{Op: "Add", H: nh, K: g.univ[r.Intn(m)], V: g.univ[r.Intn(m)]})
			switch r.Intn(4) {
			case 0:
				g.do(Op{Op: "RemoveForward", H: src, K: g.univ[r.Intn(m)]})
			case 1:
				g.do(Op{Op: "RemoveReverse", H: src, V: g.univ[r.Intn(m)]})
			case 2:
				g.do(Op{Op: "Add", H: src, K: g.univ[r.Intn(m)], V: g.univ[r.Intn(m)]})
			default:
				if r.Chance(10) {
					g.do(Op{Op: "Clear", H: src})
				}
			}
			if thresholdSet[len(g.refs)] {
				g.cut()
			}
		}
		g.cut()
	default: // grow
		n := sp.N
		m := n + 8
		for i := 0; i < m; i++ {
			g.univ = append(g.univ, sp.Base+i*stride)
		}
		ks, vs := perm(r, g.univ), perm(r, g.univ)
		// 1. build up to n pairs
		for i := 0; i < n; i++ {
			g.do(Op{Op: "Add", H: 0, K: ks[i], V: vs[i]})
		}
		g.cut()
		// 2. every collision pattern at that size
		g.collisions(0, 6)
		g.cut()
		// 3. clones, clones of clones, mutated differently
		g.do(Op{Op: "Clone", H: 0}) // 1
		g.do(Op{Op: "Clone", H: 1}) // 2: clone of a clone
		g.do(Op{Op: "Clone", H: 0}) // 3: left alone from here on
		g.teardown(1, n/2)          // 1: half torn down
		g.collisions(2, 3)          // 2: collisions on the clone of the clone
		g.do(Op{Op: "Clear", H: 0}) // 0: emptied at full size ...
		for i := 0; i < 5 && i < m; i++ {
			g.do(Op{Op: "Add", H: 0, K: vs[i], V: ks[i]}) // ... and reused
		}
		g.cut()
		// 4. the clone of the clone is torn down to nothing, pair by pair, and reused
		g.teardown(2, 0)
		g.cut()
		for i := 0; i < n/2+1; i++ {
			g.do(Op{Op: "Add", H: 2, K: vs[i], V: ks[m-1-i]})
		}
		g.collisions(2, 2)
		g.do(Op{Op: "Clone", H: 2}) // 4: clone of a clone of a clone, of a grown-shrunk-regrown map
		g.do(Op{Op: "Clear", H: 2})
		g.do(Op{Op: "Clone", H: 2}) // 5: clone of an emptied map
		g.do(Op{Op: "Add", H: 5, K: ks[0], V: vs[0]})
		g.do(Op{Op: "Add", H: 2, K: ks[0], V: vs[1%m]})
		g.teardown(4, 1)
		g.cut()
	}
	return bigScript{univ: g.univ, ops: g.ops, cuts: g.cuts}
}

// ---- execution against the real code, Go oracle only ----

type bigWorld struct {
	c      *core.Ctx
	univ   []int
	idx    map[int]int // position in univ
	bs     []*maps.Bimap[int, int]
	refs   []*refBig
	failed bool
}

func (w *bigWorld) fail(what, detail string) {
	if !w.failed {
		w.c.Fail(what, detail)
		w.failed = true
	}
}

// pairsCheck (cost proportional to the number of pairs, not to the universe): every pair of the
// reference is found in both directions, Len, Range visits each pair exactly once, a few absent
// keys/values are probed.
func (w *bigWorld) pairsCheck(h int, where string) {
	b, r := w.bs[h], w.refs[h]
	bad := func(format string, a ...any) {
		w.fail(fmt.Sprintf(format, a...), fmt.Sprintf("handle %d (%d pairs) %s", h, len(r.fwd), where))
	}
	for k, v := range r.fwd {
		if v2, ok := b.GetForward(k); !ok || v2 != v || !b.ContainsForward(k) {
			bad("GetForward(%d) = (%d,%v), want (%d,true)", k, v2, ok, v)
			return
		}
		if k2, ok := b.GetReverse(v); !ok || k2 != k || !b.ContainsReverse(v) {
			bad("GetReverse(%d) = (%d,%v), want (%d,true)", v, k2, ok, k)
			return
		}
	}
	for i := 0; i < 24 && i < len(w.univ); i++ {
		x := w.univ[(i*2654435761+len(r.fwd))%len(w.univ)]
		if _, in := r.fwd[x]; !in {
			if v, ok := b.GetForward(x); ok || v != 0 || b.ContainsForward(x) {
				bad("GetForward(%d) = (%d,%v), want (0,false)", x, v, ok)
				return
			}
		}
		if _, in := r.rev[x]; !in {
			if k, ok := b.GetReverse(x); ok || k != 0 || b.ContainsReverse(x) {
				bad("GetReverse(%d) = (%d,%v), want (0,false)", x, k, ok)
				return
			}
		}
	}
	if b.Len() != len(r.fwd) {
		bad("Len = %d, want %d", b.Len(), len(r.fwd))
		return
	}
	w.rangeCheck(h, where, 0)
}

// rangeCheck: Range with a callback that returns false on call number stop (0 = never):
// min(stop, n) calls, each with a pair of the Bimap, none twice.
func (w *bigWorld) rangeCheck(h int, where string, stop int) {
	b, r := w.bs[h], w.refs[h]
	seen := make([]bool, len(w.univ))
	calls, msg := 0, ""
	b.Range(func(k, v int) bool {
		calls++
		if wv, ok := r.fwd[k]; !ok || wv != v || seen[w.idx[k]] {
			msg = fmt.Sprintf("Range called back with (%d,%d): not a pair, or visited twice", k, v)
		} else {
			seen[w.idx[k]] = true
		}
		return calls != stop
	})
	want := len(r.fwd)
	if stop > 0 && stop < want {
		want = stop
	}
	if msg == "" && calls != want {
		msg = fmt.Sprintf("Range with a callback returning false on call %d (0 = never) made %d calls, want %d", stop, calls, want)
	}
	if msg != "" {
		w.fail(msg, fmt.Sprintf("handle %d (%d pairs) %s", h, len(r.fwd), where))
	}
}

// fullCheck: every observer of handle h against the reference, over the whole universe
func (w *bigWorld) fullCheck(h int, where string) {
	b, r := w.bs[h], w.refs[h]
	bad := func(format string, a ...any) {
		w.fail(fmt.Sprintf(format, a...), fmt.Sprintf("handle %d (%d pairs) %s", h, len(r.fwd), where))
	}
	for _, x := range w.univ {
		v, ok := b.GetForward(x)
		wv, wok := r.fwd[x]
		if v != wv || ok != wok {
			bad("GetForward(%d) = (%d,%v), want (%d,%v)", x, v, ok, wv, wok)
			return
		}
		if b.ContainsForward(x) != wok {
			bad("ContainsForward(%d) = %v, want %v", x, !wok, wok)
			return
		}
		if ok { // inverse, stated on the implementation alone
			if k2, ok2 := b.GetReverse(v); !ok2 || k2 != x {
				bad("GetForward(%d)=(%d,true) but GetReverse(%d)=(%d,%v): not inverse", x, v, v, k2, ok2)
				return
			}
		}
		k, ok := b.GetReverse(x)
		wk, wok := r.rev[x]
		if k != wk || ok != wok {
			bad("GetReverse(%d) = (%d,%v), want (%d,%v)", x, k, ok, wk, wok)
			return
		}
		if b.ContainsReverse(x) != wok {
			bad("ContainsReverse(%d) = %v, want %v", x, !wok, wok)
			return
		}
		if ok {
			if v2, ok2 := b.GetForward(k); !ok2 || v2 != x {
				bad("GetReverse(%d)=(%d,true) but GetForward(%d)=(%d,%v): not inverse", x, k, k, v2, ok2)
				return
			}
		}
	}
	if b.Len() != len(r.fwd) {
		bad("Len = %d, want %d", b.Len(), len(r.fwd))
		return
	}
	n := len(r.fwd)
	for _, stop := range []int{0, 1, n / 2, n, n + 1} {
		if stop >= 0 && !w.failed {
			w.rangeCheck(h, where, stop)
		}
	}
}

func execBig(c *core.Ctx, sp BigSpec) {
	c.Begin(Case{Mode: "big", Big: &sp})
	sc := genBig(sp)
	var zero maps.Bimap[int, int]
	w := &bigWorld{c: c, univ: sc.univ, idx: make(map[int]int, len(sc.univ)), bs: []*maps.Bimap[int, int]{&zero}, refs: []*refBig{newRefBig()}}
	for i, x := range sc.univ {
		w.idx[x] = i
	}
	c.Count("big_" + sp.Kind)
	c.CountN("big_ops", len(sc.ops))
	switch {
	case sp.N <= 65:
		c.Count("big_n_0_65")
	case sp.N <= 1025:
		c.Count("big_n_66_1025")
	default:
		c.Count("big_n_1026_up")
	}
	c.Nontrivial()
	cut := 0
	touched := map[int]bool{}
	w.fullCheck(0, "at the start")
	for i, o := range sc.ops {
		if w.failed {
			break
		}
		b, r := w.bs[o.H], w.refs[o.H]
		i, o := i, o
		where := func() string { return fmt.Sprintf("after op #%d %s(h=%d,k=%d,v=%d)", i+1, o.Op, o.H, o.K, o.V) }
		bad := func(format string, a ...any) {
			w.fail(fmt.Sprintf(format, a...), fmt.Sprintf("handle %d (%d pairs) %s", o.H, len(r.fwd), where()))
		}
		target := o.H
		sizeBefore := len(r.fwd)
		kind := core.Try(func() {
			switch o.Op {
			case "Add":
				ov, hadK := r.fwd[o.K]
				okey, hadV := r.rev[o.V]
				r.add(o.K, o.V)
				b.Add(o.K, o.V)
				if v, ok := b.GetForward(o.K); !ok || v != o.V {
					bad("GetForward(%d) = (%d,%v), want (%d,true)", o.K, v, ok, o.V)
				}
				if k, ok := b.GetReverse(o.V); !ok || k != o.K {
					bad("GetReverse(%d) = (%d,%v), want (%d,true)", o.V, k, ok, o.K)
				}
				if hadK && ov != o.V {
					if k, ok := b.GetReverse(ov); ok || k != 0 || b.ContainsReverse(ov) {
						bad("GetReverse(%d) = (%d,%v), want (0,false): the old value of the key was not evicted", ov, k, ok)
					}
				}
				if hadV && okey != o.K {
					if v, ok := b.GetForward(okey); ok || v != 0 || b.ContainsForward(okey) {
						bad("GetForward(%d) = (%d,%v), want (0,false): the old key of the value was not evicted", okey, v, ok)
					}
				}
			case "RemoveForward":
				v0, had := r.fwd[o.K]
				r.removeKey(o.K)
				b.RemoveForward(o.K)
				if v, ok := b.GetForward(o.K); ok || v != 0 {
					bad("GetForward(%d) = (%d,%v), want (0,false)", o.K, v, ok)
				}
				if had {
					if k, ok := b.GetReverse(v0); ok || k != 0 {
						bad("GetReverse(%d) = (%d,%v), want (0,false): the pair was removed by its key", v0, k, ok)
					}
				}
			case "RemoveReverse":
				k0, had := r.rev[o.V]
				r.removeValue(o.V)
				b.RemoveReverse(o.V)
				if k, ok := b.GetReverse(o.V); ok || k != 0 {
					bad("GetReverse(%d) = (%d,%v), want (0,false)", o.V, k, ok)
				}
				if had {
					if v, ok := b.GetForward(k0); ok || v != 0 {
						bad("GetForward(%d) = (%d,%v), want (0,false): the pair was removed by its value", k0, v, ok)
					}
				}
			case "Clear":
				w.refs[o.H] = newRefBig()
				r = w.refs[o.H]
				b.Clear()
			case "Clone":
				w.refs = append(w.refs, r.clone())
				cl := b.Clone()
				w.bs = append(w.bs, &cl)
				target = len(w.bs) - 1
			}
		})
		if kind != "" {
			bad("panic %s", kind)
			break
		}
		if got := w.bs[target].Len(); got != len(w.refs[target].fwd) {
			w.fail(fmt.Sprintf("Len = %d, want %d", got, len(w.refs[target].fwd)), fmt.Sprintf("handle %d %s", target, where()))
		}
		switch size := len(w.refs[target].fwd); {
		case o.Op == "Clone":
			w.fullCheck(target, where())
			w.pairsCheck(o.H, where()+" (the source)")
		case o.Op == "Clear":
			w.fullCheck(target, where())
		case size != sizeBefore && thresholdSet[size]: // the size has just become a threshold size
			w.pairsCheck(target, where())
		}
		touched[target] = true
		if cut < len(sc.cuts) && i+1 == sc.cuts[cut] { // end of a phase: every handle, whether touched or not
			for h := range w.bs {
				if touched[h] || len(w.univ) <= 64 {
					w.fullCheck(h, where()+" (end of phase)")
				} else { // not operated on in this phase: must still hold exactly its pairs
					w.pairsCheck(h, where()+" (end of phase, handle not touched in it)")
				}
			}
			touched = map[int]bool{}
			cut++
		}
	}
}

// the big stream of the quick/thorough/search tiers: Go oracle only
func runBig(c *core.Ctx) (cases, maxN int) {
	strides := []int{1, 1, 7, 1 << 20, -3}
	for rep := 0; rep < c.N(1, 8, 2); rep++ {
		for _, n := range bigSizes {
			st := strides[c.Rng.Intn(len(strides))]
			execBig(c, BigSpec{Kind: "grow", N: n, Seed: c.Rng.Uint64(), Stride: st, Base: c.Rng.Range(-n, 3)})
			cases++
		}
	}
	for i := c.N(70, 1200, 150); i > 0; i-- {
		n := c.Rng.Intn(4200)
		switch p := c.Rng.Intn(100); {
		case p < 30: // just around a power of two
			n = (1 << c.Rng.Range(3, 12)) + c.Rng.Range(-2, 2)
		case p < 70:
			n = c.Rng.Intn(400)
		}
		execBig(c, BigSpec{Kind: "grow", N: n, Seed: c.Rng.Uint64(), Stride: strides[c.Rng.Intn(len(strides))], Base: c.Rng.Range(-n, 3)})
		cases++
	}
	for _, n := range bigSizes {
		if n >= 2 && n <= 1025 {
			execBig(c, BigSpec{Kind: "handles", N: n, Seed: c.Rng.Uint64(), Stride: 1})
			cases++
		}
	}
	return cases, bigSizes[len(bigSizes)-1]
}

// the model sample: prefixes (one per phase) of small big scripts, as ordinary cases
func bigSamples(c *core.Ctx) []Case {
	var out []Case
	for _, sp := range []BigSpec{
		{Kind: "grow", N: 17, Seed: c.Rng.Uint64(), Stride: 1},
		{Kind: "grow", N: 33, Seed: c.Rng.Uint64(), Stride: 7, Base: -20},
		{Kind: "grow", N: 65, Seed: c.Rng.Uint64(), Stride: 1},
		{Kind: "handles", N: 33, Seed: c.Rng.Uint64(), Stride: 1},
	} {
		sc := genBig(sp)
		univ := append([]int(nil), sc.univ...)
		sort.Ints(univ)
		cuts := sc.cuts
		if sp.Kind == "handles" { // one cut per threshold handle count: keep the one at 17 handles and the last
			cuts = []int{sc.cuts[len(sc.cuts)/2], sc.cuts[len(sc.cuts)-1]}
		}
		for _, cut := range cuts {
			out = append(out, Case{Univ: univ, Ops: append([]Op(nil), sc.ops[:cut]...), Mode: "last"})
		}
	}
	return out
}
