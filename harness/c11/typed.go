package c11

// Other instantiations of the generic Bimap (Go oracle only, nothing is given
// to the Coq model, whose keys and values are integers): the same histories are
// run on Bimap[string,int] and on Bimap[struct{A int16; B bool}, string], i.e.
// with key and value types that differ from each other, are not integers, and
// whose zero values ("" / {0,false}) occur as real keys and values.
// A case is an ordinary history (Univ, Ops) or a large-Bimap script (Big);
// element number i of the universe is mapped to the i-th key / value of the
// instantiation.

import (
	"fmt"
	"strconv"

	"gopkg.in/typ.v4/maps"
	"verif/harness/core"
)

type pointKey struct {
	A int16
	B bool
}

var typedInsts = []string{"string,int", "struct,string"}

func execTyped(c *core.Ctx, cs Case) {
	c.Begin(cs)
	univ, ops, cuts := cs.Univ, cs.Ops, []int(nil)
	if cs.Big != nil {
		sc := genBig(*cs.Big)
		univ, ops, cuts = sc.univ, sc.ops, sc.cuts
	}
	c.Count("typed_" + cs.Inst)
	c.CountN("typed_ops", len(ops))
	switch cs.Inst {
	case "string,int":
		runTyped(c, univ, ops, cuts,
			func(i int) string { // "" (the zero key), then strings sharing prefixes
				if i == 0 {
					return ""
				}
				return "k" + strconv.Itoa(i/3) + "/" + strconv.Itoa(i%3)
			},
			func(i int) int { return i*7 - 14 }) // 0 (the zero value) is the value number 2
	case "struct,string":
		runTyped(c, univ, ops, cuts,
			func(i int) pointKey { return pointKey{A: int16(i / 2), B: i%2 == 1} }, // {0,false} is key number 0
			func(i int) string {
				if i == 1 {
					return ""
				}
				return strconv.Itoa(i)
			})
	default:
		c.Fail("bad case", "unknown instantiation "+cs.Inst)
	}
}

func runTyped[K, V comparable](c *core.Ctx, univ []int, ops []Op, cuts []int, kf func(int) K, vf func(int) V) {
	type ref struct {
		fwd map[K]V
		rev map[V]K
	}
	newRef := func() *ref { return &ref{fwd: map[K]V{}, rev: map[V]K{}} }
	idx := make(map[int]int, len(univ))
	keys, vals := make([]K, len(univ)), make([]V, len(univ))
	for i, x := range univ {
		idx[x], keys[i], vals[i] = i, kf(i), vf(i)
	}
	var zeroK K
	var zeroV V
	var zero maps.Bimap[K, V]
	bs := []*maps.Bimap[K, V]{&zero}
	refs := []*ref{newRef()}
	failed := false
	fail := func(what, detail string) {
		if !failed {
			c.Fail(what, detail)
			failed = true
		}
	}
	// every observer of handle h, over the whole universe
	check := func(h int, where string) {
		b, r := bs[h], refs[h]
		bad := func(format string, a ...any) {
			fail(fmt.Sprintf(format, a...), fmt.Sprintf("handle %d (%d pairs) %s", h, len(r.fwd), where))
		}
		for i := range univ {
			k, v := keys[i], vals[i]
			gv, ok := b.GetForward(k)
			wv, wok := r.fwd[k]
			if gv != wv || ok != wok || (!ok && gv != zeroV) || b.ContainsForward(k) != wok {
				bad("GetForward(%v) = (%v,%v), ContainsForward = %v, want (%v,%v)", k, gv, ok, b.ContainsForward(k), wv, wok)
				return
			}
			if ok {
				if k2, ok2 := b.GetReverse(gv); !ok2 || k2 != k {
					bad("GetForward(%v)=(%v,true) but GetReverse(%v)=(%v,%v): not inverse", k, gv, gv, k2, ok2)
					return
				}
			}
			gk, ok := b.GetReverse(v)
			wk, wok := r.rev[v]
			if gk != wk || ok != wok || (!ok && gk != zeroK) || b.ContainsReverse(v) != wok {
				bad("GetReverse(%v) = (%v,%v), ContainsReverse = %v, want (%v,%v)", v, gk, ok, b.ContainsReverse(v), wk, wok)
				return
			}
			if ok {
				if v2, ok2 := b.GetForward(gk); !ok2 || v2 != v {
					bad("GetReverse(%v)=(%v,true) but GetForward(%v)=(%v,%v): not inverse", v, gk, gk, v2, ok2)
					return
				}
			}
		}
		if b.Len() != len(r.fwd) {
			bad("Len = %d, want %d", b.Len(), len(r.fwd))
			return
		}
		n := len(r.fwd)
		for _, stop := range []int{0, 1, n / 2, n + 1} {
			seen := make(map[K]bool, n)
			calls, msg := 0, ""
			b.Range(func(k K, v V) bool {
				calls++
				if wv, ok := r.fwd[k]; !ok || wv != v || seen[k] {
					msg = fmt.Sprintf("Range called back with (%v,%v): not a pair, or visited twice", k, v)
				}
				seen[k] = true
				return calls != stop
			})
			want := n
			if stop > 0 && stop < n {
				want = stop
			}
			if msg == "" && calls != want {
				msg = fmt.Sprintf("Range with a callback returning false on call %d (0 = never) made %d calls, want %d", stop, calls, want)
			}
			if msg != "" {
				bad("%s", msg)
				return
			}
		}
	}
	small := len(univ) <= 16
	cut := 0
	check(0, "at the start")
	for i, o := range ops {
		if failed {
			break
		}
		if o.H < 0 || o.H >= len(bs) {
			fail("bad case", fmt.Sprintf("op #%d names handle %d of %d", i+1, o.H, len(bs)))
			break
		}
		where := func() string { return fmt.Sprintf("after op #%d %s(h=%d,k=%d,v=%d)", i+1, o.Op, o.H, o.K, o.V) }
		b, r := bs[o.H], refs[o.H]
		target := o.H
		kind := core.Try(func() {
			switch o.Op {
			case "Add":
				k, v := keys[idx[o.K]], vals[idx[o.V]]
				if ov, ok := r.fwd[k]; ok {
					delete(r.rev, ov)
				}
				if okey, ok := r.rev[v]; ok {
					delete(r.fwd, okey)
				}
				r.fwd[k], r.rev[v] = v, k
				b.Add(k, v)
			case "RemoveForward":
				k := keys[idx[o.K]]
				if v, ok := r.fwd[k]; ok {
					delete(r.fwd, k)
					delete(r.rev, v)
				}
				b.RemoveForward(k)
			case "RemoveReverse":
				v := vals[idx[o.V]]
				if k, ok := r.rev[v]; ok {
					delete(r.fwd, k)
					delete(r.rev, v)
				}
				b.RemoveReverse(v)
			case "Clear":
				refs[o.H] = newRef()
				b.Clear()
			case "Clone":
				nr := newRef()
				for k, v := range r.fwd {
					nr.fwd[k], nr.rev[v] = v, k
				}
				refs = append(refs, nr)
				cl := b.Clone()
				bs = append(bs, &cl)
				target = len(bs) - 1
			default:
				panic("unknown op " + o.Op)
			}
		})
		if kind != "" {
			fail("panic", kind+" "+where())
			break
		}
		if got := bs[target].Len(); got != len(refs[target].fwd) {
			fail(fmt.Sprintf("Len = %d, want %d", got, len(refs[target].fwd)), fmt.Sprintf("handle %d %s", target, where()))
		}
		atCut := cut < len(cuts) && i+1 == cuts[cut]
		switch {
		case small || atCut || i == len(ops)-1: // every handle: an operation on one must not show on another
			for h := range bs {
				check(h, where())
			}
		case o.Op == "Clone":
			check(target, where())
			check(o.H, where()+" (the source)")
		case o.Op == "Clear" || i%61 == 0:
			check(target, where())
		}
		if atCut {
			cut++
		}
	}
}

// the stream of the other instantiations
func runTypedStream(c *core.Ctx) (cases int) {
	u8 := []int{0, 1, 2, 3, 4, 5, 6, 7}
	for i := c.N(150, 3000, 600); i > 0; i-- {
		univ := u8[:c.Rng.Range(2, 8)]
		ops := randomOps(c.Rng, univ, 1+c.Rng.Size(80), 6)
		for _, inst := range typedInsts {
			execTyped(c, Case{Univ: univ, Ops: ops, Mode: "typed", Inst: inst})
			cases++
		}
	}
	for _, n := range []int{0, 1, 8, 9, 17, 33, 65, 129, 257, 1025} {
		for _, inst := range typedInsts {
			sp := BigSpec{Kind: "grow", N: n, Seed: c.Rng.Uint64(), Stride: 1}
			execTyped(c, Case{Mode: "typed", Inst: inst, Big: &sp})
			cases++
		}
	}
	for _, inst := range typedInsts {
		sp := BigSpec{Kind: "handles", N: 65, Seed: c.Rng.Uint64(), Stride: 1}
		execTyped(c, Case{Mode: "typed", Inst: inst, Big: &sp})
		cases++
	}
	return cases
}
