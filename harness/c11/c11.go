// Package c11: maps.Bimap keeps its two directions mutually inverse.
//
// A case is a history of Add / RemoveForward / RemoveReverse / Clear / Clone on
// real maps.Bimap[int,int] values (handle 0 = a zero value, every Clone makes a
// new handle). After every operation the direct oracle re-reads every observer
// of EVERY handle and compares it with a reference written as a plain list of
// pairs; a subset of these observations is recorded for the Coq model.
package c11

import (
	"encoding/json"
	"fmt"
	"sort"
	"strings"

	"gopkg.in/typ.v4/maps"
	"verif/harness/core"
)

type Op struct {
	Op string `json:"op"` // Add | RemoveForward | RemoveReverse | Clear | Clone
	H  int    `json:"h"`
	K  int    `json:"k"`
	V  int    `json:"v"`
}

type Case struct {
	Univ []int `json:"univ"`
	Ops  []Op  `json:"ops"`
	// Mode "all": the model is given, after every operation, the observation of
	// the handle operated on (for Clone: the new handle) and of one other handle.
	// Mode "last": the observation of every handle after the last operation only.
	// Mode "fan": Ops is a prefix (not observed: the shorter histories are cases
	// of their own); each operation of Fan is tried, on its own, after that
	// prefix and every handle is observed after it, i.e. the case stands for the
	// len(Fan) histories Ops+[Fan[i]].
	// Mode "big": a scripted history on large Bimaps generated from Big (see big.go), Go oracle only.
	Mode string   `json:"mode"`
	Fan  []Op     `json:"fan,omitempty"`
	Big  *BigSpec `json:"big,omitempty"`
	// Mode "typed": the history (Ops, or the script Big) runs on another instantiation of the generic Bimap
	// (Inst = "string,int" | "struct,string", see typed.go), Go oracle only.
	Inst string `json:"inst,omitempty"`
}

func init() {
	core.Register(&core.Prop{ID: "C11", Module: "Maps.BimapCheck", Run: run, Replay: replay})
}

func replay(c *core.Ctx, raw json.RawMessage) error {
	var cs Case
	if err := json.Unmarshal(raw, &cs); err != nil {
		return err
	}
	if cs.Mode == "typed" {
		execTyped(c, cs)
		return nil
	}
	if cs.Big != nil {
		execBig(c, *cs.Big)
		return nil
	}
	exec(c, cs)
	return nil
}

// ---- reference: a set of pairs with no key and no value occurring twice ----

type ref struct{ pairs [][2]int }

func (r *ref) without(keep func(p [2]int) bool) {
	out := r.pairs[:0:0]
	for _, p := range r.pairs {
		if keep(p) {
			out = append(out, p)
		}
	}
	r.pairs = out
}
func (r *ref) add(k, v int) {
	r.without(func(p [2]int) bool { return p[0] != k && p[1] != v })
	r.pairs = append(r.pairs, [2]int{k, v})
}
func (r *ref) removeKey(k int)   { r.without(func(p [2]int) bool { return p[0] != k }) }
func (r *ref) removeValue(v int) { r.without(func(p [2]int) bool { return p[1] != v }) }
func (r *ref) clear()            { r.pairs = nil }
func (r *ref) clone() *ref       { return &ref{pairs: append([][2]int(nil), r.pairs...)} }
func (r *ref) byKey(k int) (int, bool) {
	for _, p := range r.pairs {
		if p[0] == k {
			return p[1], true
		}
	}
	return 0, false
}
func (r *ref) byValue(v int) (int, bool) {
	for _, p := range r.pairs {
		if p[1] == v {
			return p[0], true
		}
	}
	return 0, false
}
func (r *ref) sorted() [][2]int {
	s := append([][2]int(nil), r.pairs...)
	sortPairs(s)
	return s
}
func sortPairs(s [][2]int) {
	sort.Slice(s, func(i, j int) bool {
		if s[i][0] != s[j][0] {
			return s[i][0] < s[j][0]
		}
		return s[i][1] < s[j][1]
	})
}

// ---- observation of one real Bimap ----

type obs struct {
	fwdV, revV []int
	fwdOk      []bool
	revOk      []bool
	cf, cr     []bool
	length     int
	rng        [][2]int
	stop       int
	stopped    [][2]int
}

func observe(b *maps.Bimap[int, int], univ []int, stop int) obs {
	var o obs
	for _, x := range univ {
		v, ok := b.GetForward(x)
		o.fwdV, o.fwdOk = append(o.fwdV, v), append(o.fwdOk, ok)
		k, ok2 := b.GetReverse(x)
		o.revV, o.revOk = append(o.revV, k), append(o.revOk, ok2)
		o.cf = append(o.cf, b.ContainsForward(x))
		o.cr = append(o.cr, b.ContainsReverse(x))
	}
	o.length = b.Len()
	b.Range(func(k, v int) bool { o.rng = append(o.rng, [2]int{k, v}); return true })
	o.stop = stop
	n := 0
	b.Range(func(k, v int) bool { o.stopped = append(o.stopped, [2]int{k, v}); n++; return n < stop })
	return o
}

// z prints an int as a Coq Z term; the extreme values are written as powers of
// two (a 19-digit literal costs coqc about a millisecond to parse).
func z(n int) string {
	switch n {
	case 1 << 40:
		return "(2^40)"
	case -1 << 63:
		return "(-2^63)"
	case 1<<63 - 1:
		return "(2^63-1)"
	}
	return core.Z(n)
}
func zList(s []int) string {
	parts := make([]string, len(s))
	for i, v := range s {
		parts[i] = z(v)
	}
	return core.List(parts)
}

func pairList(ps [][2]int) string {
	parts := make([]string, len(ps))
	for i, p := range ps {
		parts[i] = "ZZ " + z(p[0]) + " " + z(p[1])
	}
	return core.List(parts)
}
func zbList(vs []int, oks []bool) string {
	parts := make([]string, len(vs))
	for i := range vs {
		parts[i] = "ZB " + z(vs[i]) + " " + core.Bool(oks[i])
	}
	return core.List(parts)
}
func boolList(bs []bool) string {
	parts := make([]string, len(bs))
	for i, b := range bs {
		parts[i] = core.Bool(b)
	}
	return core.List(parts)
}
func (o obs) coq() string {
	return fmt.Sprintf("Obs %s %s %s %s %s %s %s %s", zbList(o.fwdV, o.fwdOk), zbList(o.revV, o.revOk),
		boolList(o.cf), boolList(o.cr), z(o.length), pairList(o.rng), z(o.stop), pairList(o.stopped))
}

// oracle: the property itself, on one observed Bimap against its reference.
func oracle(o obs, r *ref, univ []int) string {
	for i, x := range univ {
		wv, wok := r.byKey(x)
		if o.fwdV[i] != wv || o.fwdOk[i] != wok {
			return fmt.Sprintf("GetForward(%d) = (%d,%v), want (%d,%v)", x, o.fwdV[i], o.fwdOk[i], wv, wok)
		}
		if o.cf[i] != wok {
			return fmt.Sprintf("ContainsForward(%d) = %v, want %v", x, o.cf[i], wok)
		}
		wk, wok2 := r.byValue(x)
		if o.revV[i] != wk || o.revOk[i] != wok2 {
			return fmt.Sprintf("GetReverse(%d) = (%d,%v), want (%d,%v)", x, o.revV[i], o.revOk[i], wk, wok2)
		}
		if o.cr[i] != wok2 {
			return fmt.Sprintf("ContainsReverse(%d) = %v, want %v", x, o.cr[i], wok2)
		}
	}
	// mutually inverse, stated without the reference
	pairs := 0
	for i, k := range univ {
		for j, v := range univ {
			f := o.fwdOk[i] && o.fwdV[i] == v
			b := o.revOk[j] && o.revV[j] == k
			if f != b {
				return fmt.Sprintf("GetForward(%d)=(%d,%v) but GetReverse(%d)=(%d,%v): not inverse", k, o.fwdV[i], o.fwdOk[i], v, o.revV[j], o.revOk[j])
			}
			if f {
				pairs++
			}
		}
	}
	if o.length != len(r.pairs) || o.length != pairs {
		return fmt.Sprintf("Len = %d, want %d pairs (%d inverse pairs over the universe)", o.length, len(r.pairs), pairs)
	}
	got := append([][2]int(nil), o.rng...)
	sortPairs(got)
	if fmt.Sprint(got) != fmt.Sprint(r.sorted()) {
		return fmt.Sprintf("Range visited %v, want each of %v exactly once", o.rng, r.sorted())
	}
	wantCalls := o.stop
	if wantCalls < 1 {
		wantCalls = 1
	}
	if wantCalls > len(r.pairs) {
		wantCalls = len(r.pairs)
	}
	if len(o.stopped) != wantCalls {
		return fmt.Sprintf("Range with a callback returning false on call %d made %d calls %v, want %d", o.stop, len(o.stopped), o.stopped, wantCalls)
	}
	seen := map[[2]int]bool{}
	for _, p := range o.stopped {
		if v, ok := r.byKey(p[0]); !ok || v != p[1] || seen[p] {
			return fmt.Sprintf("stopped Range called back with %v (all calls %v), pairs are %v", p, o.stopped, r.sorted())
		}
		seen[p] = true
	}
	return ""
}

// ---- generation ----

func run(c *core.Ctx) {
	c.ShardSize = 230
	u2 := []int{0, 1}
	var alpha1 []Op
	for _, k := range u2 {
		for _, v := range u2 {
			alpha1 = append(alpha1, Op{Op: "Add", K: k, V: v})
		}
	}
	for _, k := range u2 {
		alpha1 = append(alpha1, Op{Op: "RemoveForward", K: k}, Op{Op: "RemoveReverse", V: k})
	}
	alpha1 = append(alpha1, Op{Op: "Clear"})
	// rec enumerates the histories of at most depth further operations after prefix (at most cloneBudget of them
	// Clone) as fan cases: one case per prefix with all its one-operation extensions. onlyCloned keeps only the
	// histories that contain a Clone.
	var rec func(prefix []Op, handles, cloneBudget, depth int, onlyCloned bool, visit func(prefix, fan []Op))
	rec = func(prefix []Op, handles, cloneBudget, depth int, onlyCloned bool, visit func(prefix, fan []Op)) {
		if depth == 0 {
			return
		}
		var fan []Op
		for h := 0; h < handles; h++ {
			if !onlyCloned || handles > 1 {
				for _, o := range alpha1 {
					o.H = h
					fan = append(fan, o)
				}
			}
			if cloneBudget > 0 {
				fan = append(fan, Op{Op: "Clone", H: h})
			}
		}
		visit(prefix, fan)
		for h := 0; h < handles; h++ {
			for _, o := range alpha1 {
				o.H = h
				rec(append(prefix, o), handles, cloneBudget, depth-1, onlyCloned, visit)
			}
			if cloneBudget > 0 {
				rec(append(prefix, Op{Op: "Clone", H: h}), handles+1, cloneBudget-1, depth-1, onlyCloned, visit)
			}
		}
	}
	// 1. exhaustive: every history of length <= L over keys {0,1} x values {0,1} on the zero value
	// 2. exhaustive with Clone: every history of length <= LC with exactly one Clone, acting on both handles
	L, LC := c.N(5, 6, 5), c.N(4, 4, 4)
	// The fan cases of part 2 (two handles, 18 alternatives) are several times larger than those of part 1:
	// they are collected and dealt evenly among them, so that all shards cost about the same.
	type fanCase struct{ prefix, fan []Op }
	var part1, part2 []fanCase
	rec(nil, 1, 0, L, false, func(p, f []Op) { part1 = append(part1, fanCase{append([]Op(nil), p...), f}) })
	rec(nil, 1, 1, LC, true, func(p, f []Op) { part2 = append(part2, fanCase{append([]Op(nil), p...), f}) })
	exhaustive := func(visit func(prefix, fan []Op)) {
		every, j := len(part1)/(len(part2)+1), 0
		if every < 1 {
			every = 1
		}
		for i, fc := range part1 {
			visit(fc.prefix, fc.fan)
			if (i+1)%every == 0 && j < len(part2) {
				visit(part2[j].prefix, part2[j].fan)
				j++
			}
		}
		for ; j < len(part2); j++ {
			visit(part2[j].prefix, part2[j].fan)
		}
	}
	// 3. random histories over 0..3 x 0..3 with up to 5 clones, observed after every operation
	// 4. unusual keys and values: negative, huge, the extreme ints (and 0, the zero value a failed lookup returns)
	u4 := []int{0, 1, 2, 3}
	odd := []int{-3, 0, 5, 1 << 40, -1 << 63, 1<<63 - 1}
	nRandom, nOdd := c.N(500, 8000, 8000), c.N(100, 1500, 1500)
	// 5. a model sample of the large-Bimap scripts (prefixes of small instances; the large ones are oracle-only, below)
	samples := bigSamples(c)
	nExtra := nRandom + nOdd + len(samples)
	every, j := nExtra/len(samples), 0 // the (heavier) samples are spread evenly among the other extra cases
	random := func(i int) Case {
		if i%every == 0 && i/every < len(samples) {
			return samples[i/every]
		}
		if j++; j > nRandom {
			return Case{Univ: odd, Ops: randomOps(c.Rng, odd, 1+c.Rng.Size(40), 4), Mode: "all"}
		}
		n, univ := 1+c.Rng.Size(60), u4
		if c.Tier == "search" {
			n = 1 + c.Rng.Size(400)
			univ = []int{0, 1, 2, 3, 4, 5, 6, 7}[:c.Rng.Range(2, 8)]
		}
		return Case{Univ: univ, Ops: randomOps(c.Rng, univ, n, 6), Mode: "all"}
	}
	// the (long) random cases are spread evenly among the exhaustive ones so that all shards cost about the same
	nExh, nHist := 0, 1
	exhaustive(func(_, fan []Op) { nExh++; nHist += len(fan) })
	stride := nExh / nExtra
	if stride < 1 {
		stride = 1
	}
	i, r := 0, 0
	exec(c, Case{Univ: u2, Mode: "last"}) // the empty history: a zero-value Bimap
	exhaustive(func(prefix, fan []Op) {
		exec(c, Case{Univ: u2, Ops: append([]Op(nil), prefix...), Mode: "fan", Fan: fan})
		if i++; i%stride == 0 && r < nExtra {
			exec(c, random(r))
			r++
		}
	})
	for ; r < nExtra; r++ {
		exec(c, random(r))
	}
	// 6. large Bimaps, Go oracle only
	nBig, maxBig := runBig(c)
	c.Note(fmt.Sprintf("large-Bimap stream: %d scripted histories checked by the Go oracle only (Bimaps built up to n pairs for n = 0..%d dense around powers of two and Go map growth points, "+
		"every collision pattern of Add at that size, clones of clones mutated differently, teardown to empty pair by pair, reuse, Clear/Clone/Range/Len at full size; up to 1025 handles); "+
		"%d prefixes of small instances (n = 17, 33, 65; 33 handles) also given to the model", nBig, maxBig, len(samples)))
	// 7. other instantiations of the generic type, Go oracle only
	nTyped := runTypedStream(c)
	c.Note(fmt.Sprintf("other instantiations: %d histories (random over 2..8 keys/values with clones, and large-Bimap scripts up to 1025 pairs / 65 handles) on Bimap[string,int] and "+
		"Bimap[struct{A int16; B bool},string], zero values of K and V used as real keys/values, checked by the Go oracle only", nTyped))
	c.Exhaustive = true
	c.Note(fmt.Sprintf("exhaustive (%d histories in %d fan cases = a prefix with all its one-operation extensions, every handle observed after the last operation): "+
		"every history of length <= %d of Add/RemoveForward/RemoveReverse/Clear over keys {0,1} x values {0,1} on a zero-value Bimap; "+
		"every history of length <= %d with one Clone at any position and the same operations on either handle; "+
		"plus %d random histories of up to 60 operations over 0..3 x 0..3 with up to 5 clones and %d over unusual ints, observed after every operation",
		nHist, nExh, L, LC, nRandom, nOdd))
}

func randomOps(r *core.Rand, univ []int, n, maxHandles int) []Op {
	ops := make([]Op, 0, n)
	handles := 1
	// sometimes start by cloning the zero value (clone of nil maps)
	if r.Chance(15) {
		ops = append(ops, Op{Op: "Clone", H: 0})
		handles++
	}
	// often start from a random bijection of 1..|univ| pairs (full maps are otherwise rare)
	if r.Chance(40) {
		ks, vs := perm(r, univ), perm(r, univ)
		for i := r.Range(1, len(univ)); i > 0; i-- {
			ops = append(ops, Op{Op: "Add", H: handles - 1, K: ks[i-1], V: vs[i-1]})
		}
		switch r.Intn(4) { // Clear / Clone of a well-filled Bimap
		case 0:
			ops = append(ops, Op{Op: "Clear", H: handles - 1})
		case 1:
			ops = append(ops, Op{Op: "Clone", H: handles - 1})
			handles++
		}
	}
	for len(ops) < n {
		h := r.Intn(handles)
		k, v := univ[r.Intn(len(univ))], univ[r.Intn(len(univ))]
		switch p := r.Intn(100); {
		case p < 52:
			ops = append(ops, Op{Op: "Add", H: h, K: k, V: v})
		case p < 67:
			ops = append(ops, Op{Op: "RemoveForward", H: h, K: k})
		case p < 82:
			ops = append(ops, Op{Op: "RemoveReverse", H: h, V: v})
		case p < 90:
			ops = append(ops, Op{Op: "Clear", H: h})
		default:
			if handles < maxHandles {
				ops = append(ops, Op{Op: "Clone", H: h})
				handles++
			} else {
				ops = append(ops, Op{Op: "Add", H: h, K: k, V: v})
			}
		}
	}
	return ops
}

func perm(r *core.Rand, s []int) []int {
	p := append([]int(nil), s...)
	for i := len(p) - 1; i > 0; i-- {
		j := r.Intn(i + 1)
		p[i], p[j] = p[j], p[i]
	}
	return p
}

// ---- execution of one case ----

// world: the real Bimaps of a history next to their references.
type world struct {
	c                 *core.Ctx
	univ              []int
	bs                []*maps.Bimap[int, int]
	refs              []*ref
	failed            *bool
	quiet             bool // replay of an already counted and checked prefix
	both, removedPair bool // the history so far has an Add evicting two pairs / a removal of an existing pair
}

func newWorld(c *core.Ctx, univ []int, failed *bool) *world {
	var zero maps.Bimap[int, int]
	return &world{c: c, univ: univ, bs: []*maps.Bimap[int, int]{&zero}, refs: []*ref{{}}, failed: failed}
}

func (w *world) fail(what, detail string) {
	if !*w.failed { // one failure per case: the first one is the informative one
		w.c.Fail(what, detail)
		*w.failed = true
	}
}

func (w *world) count(stat string) {
	if !w.quiet {
		w.c.Count(stat)
	}
}

func stopFor(i, h int) int { return 1 + (i*7+h*3)%4 }

// checkAll: the direct oracle on every handle (an operation on one handle must
// not change what any other handle - its clone, its original - shows); returns the observations.
func (w *world) checkAll(i int, after string) []obs {
	os := make([]obs, len(w.bs))
	n := len(w.univ)
	for h := range w.bs {
		var o obs
		if kind := core.Try(func() { o = observe(w.bs[h], w.univ, stopFor(i, h)) }); kind != "" {
			w.fail("panic in an observer", fmt.Sprintf("%s, handle %d, after %s", kind, h, after))
			o = obs{stop: stopFor(i, h), fwdV: make([]int, n), fwdOk: make([]bool, n), revV: make([]int, n),
				revOk: make([]bool, n), cf: make([]bool, n), cr: make([]bool, n)}
		} else if msg := oracle(o, w.refs[h], w.univ); msg != "" {
			w.fail(msg, fmt.Sprintf("handle %d after op #%d %s", h, i, after))
		}
		os[h] = o
	}
	return os
}

func hobs(os []obs, hs ...int) string {
	var parts []string
	done := map[int]bool{}
	for _, h := range hs {
		if !done[h] {
			parts = append(parts, "H "+z(h)+" ("+os[h].coq()+")")
			done[h] = true
		}
	}
	return core.List(parts)
}

func (w *world) allHandles() []int {
	hs := make([]int, len(w.bs))
	for i := range hs {
		hs[i] = i
	}
	return hs
}

// apply runs operation number i (from 1) on the real Bimap and on the reference;
// it returns the Coq term of the operation, the handle to look at, and the observations of all handles.
func (w *world) apply(i int, o Op) (term string, target int, os []obs, ok bool) {
	if o.H < 0 || o.H >= len(w.bs) {
		w.fail("bad case", fmt.Sprintf("op #%d names handle %d of %d", i, o.H, len(w.bs)))
		return "", 0, nil, false
	}
	b, r := w.bs[o.H], w.refs[o.H]
	target = o.H
	kind := core.Try(func() {
		switch o.Op {
		case "Add":
			ov, okK := r.byKey(o.K)
			_, okV := r.byValue(o.V)
			switch {
			case okK && okV && ov == o.V:
				w.count("add_same_pair")
			case okK && okV:
				w.count("add_evicts_two_pairs")
				w.both = true
			case okK:
				w.count("add_same_key")
			case okV:
				w.count("add_same_value")
			default:
				w.count("add_fresh")
			}
			term = fmt.Sprintf("CAdd %s %s %s", z(o.H), z(o.K), z(o.V))
			r.add(o.K, o.V)
			b.Add(o.K, o.V)
		case "RemoveForward":
			if _, ok := r.byKey(o.K); ok {
				w.count("remove_forward_present")
				w.removedPair = true
			} else {
				w.count("remove_forward_absent")
			}
			term = fmt.Sprintf("CRemoveForward %s %s", z(o.H), z(o.K))
			r.removeKey(o.K)
			b.RemoveForward(o.K)
		case "RemoveReverse":
			if _, ok := r.byValue(o.V); ok {
				w.count("remove_reverse_present")
				w.removedPair = true
			} else {
				w.count("remove_reverse_absent")
			}
			term = fmt.Sprintf("CRemoveReverse %s %s", z(o.H), z(o.V))
			r.removeValue(o.V)
			b.RemoveReverse(o.V)
		case "Clear":
			if len(r.pairs) == 0 {
				w.count("clear_empty")
			} else {
				w.count("clear_nonempty")
			}
			term = fmt.Sprintf("CClear %s", z(o.H))
			r.clear()
			b.Clear()
		case "Clone":
			if len(r.pairs) == 0 {
				w.count("clone_empty")
			} else {
				w.count("clone_nonempty")
			}
			term = fmt.Sprintf("CClone %s", z(o.H))
			w.refs = append(w.refs, r.clone())
			cl := b.Clone()
			w.bs = append(w.bs, &cl)
			target = len(w.bs) - 1
		default:
			panic("unknown op " + o.Op)
		}
	})
	after := fmt.Sprintf("%s(h=%d,k=%d,v=%d)", o.Op, o.H, o.K, o.V)
	if kind != "" {
		w.fail("panic", fmt.Sprintf("%s in op #%d %s", kind, i, after))
		if len(w.bs) < len(w.refs) {
			w.refs = w.refs[:len(w.bs)]
		}
	}
	return term, target, w.checkAll(i, after), true
}

func exec(c *core.Ctx, cs Case) {
	c.Begin(cs)
	failed := false
	w := newWorld(c, cs.Univ, &failed)
	var nilB *maps.Bimap[int, int]
	nilLen := -1
	if kind := core.Try(func() { nilLen = nilB.Len() }); kind != "" || nilLen != 0 {
		w.fail("Len on a nil *Bimap", fmt.Sprintf("= %d, panic %q, want 0", nilLen, kind))
	}
	os0 := w.checkAll(0, "start")
	initObs := "[]"
	if len(cs.Ops) == 0 || cs.Mode == "all" {
		initObs = hobs(os0, 0)
	}
	steps := make([]string, 0, len(cs.Ops))
	for i, o := range cs.Ops {
		term, target, os, ok := w.apply(i+1, o)
		if !ok {
			break
		}
		switch {
		case cs.Mode == "all":
			witness := (i*5 + 1) % len(w.bs)
			if o.Op == "Clone" {
				witness = o.H
			}
			steps = append(steps, "St ("+term+") "+hobs(os, target, witness))
		case i == len(cs.Ops)-1 && cs.Mode == "last":
			steps = append(steps, "St ("+term+") "+hobs(os, w.allHandles()...))
		default:
			steps = append(steps, "St ("+term+") []")
		}
	}
	nontrivial := w.both && w.removedPair
	// mode "fan": every operation of cs.Fan is tried, on its own, after the history cs.Ops
	fan := make([]string, 0, len(cs.Fan))
	for _, o := range cs.Fan {
		w2 := newWorld(c, cs.Univ, &failed)
		w2.quiet = true
		for i, p := range cs.Ops {
			w2.apply(i+1, p)
		}
		w2.quiet = false
		term, _, os, ok := w2.apply(len(cs.Ops)+1, o)
		if !ok {
			break
		}
		fan = append(fan, "St ("+term+") "+hobs(os, w2.allHandles()...))
		nontrivial = nontrivial || (w2.both && w2.removedPair)
		c.Count("fan_histories")
	}
	if nontrivial {
		c.Nontrivial() // an Add that evicted two different pairs, and a removal of an existing pair
	}
	c.Emit(fmt.Sprintf("Case %s %s %s [%s] [%s]", zList(cs.Univ), z(nilLen), initObs, strings.Join(steps, "; "), strings.Join(fan, "; ")))
}
