// Package c04: sync2.Map is linearizable to an ordinary map — controlled
// schedules on the real code, trace validation against the Coq model, and a
// brute-force linearizability oracle.
package c04

import (
	"encoding/json"
	"fmt"
	"sort"
	"strings"
	"sync"

	"gopkg.in/typ.v4/sync2"
	"verif/harness/core"
	"verif/harness/lin"
	"verif/harness/sched"
)

type CallSpec struct {
	Op string `json:"op"` // Load Store LoadOrStore LoadAndDelete Delete Range
	K  int    `json:"k,omitempty"`
	V  int    `json:"v,omitempty"`
	N  int    `json:"n,omitempty"` // Range: callback returns false at its N-th call (0 = never)
}

type Case struct {
	Prefix  []CallSpec   `json:"prefix"` // sequential set-up run by thread 0 before the others start (part of thread 0's program)
	Progs   [][]CallSpec `json:"progs"`
	Choices []int        `json:"choices"` // thread chosen at every step
	Kind    string       `json:"kind"`
}

func init() {
	core.Register(&core.Prop{ID: "C04", Module: "SyncMap.Check", Run: run, Replay: replay})
}

func replay(c *core.Ctx, raw json.RawMessage) error {
	var cs Case
	if err := json.Unmarshal(raw, &cs); err != nil {
		return err
	}
	r, info := execute(cs, sched.Prefix(cs.Choices))
	report(c, cs, r, info)
	return nil
}

type callInfo struct {
	spec  CallSpec
	t     int
	endAt int // len(steps) when the call returned
	rv    int
	rok   bool
	pairs [][2]int
}

type runInfo struct {
	calls [][]*callInfo
	final [][2]int
}

func coqCall(s CallSpec) string {
	switch s.Op {
	case "Load":
		return fmt.Sprintf("CLoad 0 %s", core.Z(s.K))
	case "Store":
		return fmt.Sprintf("CStore 0 %s %s", core.Z(s.K), core.Z(s.V))
	case "LoadOrStore":
		return fmt.Sprintf("CLoadOrStore 0 %s %s PNone", core.Z(s.K), core.Z(s.V))
	case "LoadAndDelete":
		return fmt.Sprintf("CLoadAndDelete 0 %s", core.Z(s.K))
	case "Delete":
		return fmt.Sprintf("CDelete 0 %s", core.Z(s.K))
	case "Range":
		if s.N > 0 {
			return fmt.Sprintf("CRange 0 (CbStop (Some %d%%nat))", s.N)
		}
		return "CRange 0 (CbStop None)"
	}
	panic("bad op " + s.Op)
}

func pairsCoq(ps [][2]int) string {
	parts := make([]string, len(ps))
	for i, p := range ps {
		parts[i] = core.Pair(core.Z(p[0]), core.Z(p[1]))
	}
	return core.List(parts)
}

func execute(cs Case, choose sched.Chooser) (sched.Result, *runInfo) {
	m := &sync2.Map[int, int]{}
	info := &runInfo{calls: make([][]*callInfo, len(cs.Progs))}
	threads := make([]sched.Thread, len(cs.Progs))
	for t, prog := range cs.Progs {
		t := t
		full := prog
		if t == 0 {
			full = append(append([]CallSpec{}, cs.Prefix...), prog...)
		}
		for _, spec := range full {
			spec := spec
			ci := &callInfo{spec: spec, t: t}
			info.calls[t] = append(info.calls[t], ci)
			threads[t].Calls = append(threads[t].Calls, func() string {
				var out string
				switch spec.Op {
				case "Load":
					v, ok := m.Load(spec.K)
					ci.rv, ci.rok = v, ok
					out = "ROpt " + core.Opt(ok, core.Z(v))
				case "Store":
					m.Store(spec.K, spec.V)
					out = "RUnit"
				case "LoadOrStore":
					v, loaded := m.LoadOrStore(spec.K, spec.V)
					ci.rv, ci.rok = v, loaded
					out = fmt.Sprintf("RLos %s %s", core.Z(v), core.Bool(loaded))
				case "LoadAndDelete":
					v, ok := m.LoadAndDelete(spec.K)
					ci.rv, ci.rok = v, ok
					out = "ROpt " + core.Opt(ok, core.Z(v))
				case "Delete":
					m.Delete(spec.K)
					out = "RUnit"
				case "Range":
					n := 0
					m.Range(func(k, v int) bool {
						ci.pairs = append(ci.pairs, [2]int{k, v})
						n++
						return spec.N == 0 || n < spec.N
					})
					out = fmt.Sprintf("RRange %s %d", pairsCoq(ci.pairs), n)
				}
				ci.endAt = sched.StepsSoFar()
				return out
			})
		}
	}
	ncalls := len(cs.Prefix)
	for _, p := range cs.Progs {
		ncalls += len(p)
	}
	bound := 4000 + 60*ncalls // catches runaway CAS loops under adversarial schedules
	if len(cs.Progs) == 1 {
		bound = 1 << 30 // a single goroutine cannot livelock
	}
	r := sched.Run(threads, choose, bound)
	if r.Panic != "" || r.Deadlock {
		return r, info // goroutines may be parked inside the map (holding m.mu): do not touch it again
	}
	m.Range(func(k, v int) bool { info.final = append(info.final, [2]int{k, v}); return true })
	sort.Slice(info.final, func(i, j int) bool { return info.final[i][0] < info.final[j][0] })
	return r, info
}

// emitEvery: explored schedules are all checked by the oracle; one in emitEvery of the passing ones is
// also sent to the Coq model (the model replay is the expensive part).
var emitEvery = 1
var emitCount int

func report(c *core.Ctx, cs Case, r sched.Result, info *runInfo) {
	cs.Choices = r.Chosen
	c.Begin(cs)
	c.Count("kind_" + cs.Kind)
	c.CountN("steps", len(r.Steps))
	pre := 0
	for i := 1; i < len(r.Chosen); i++ {
		if r.Chosen[i] != r.Chosen[i-1] {
			for _, e := range r.Enabled[i] {
				if e == r.Chosen[i-1] {
					pre++
				}
			}
		}
	}
	c.CountN("preemptions", pre)
	labels := map[string]bool{}
	for _, s := range r.Steps {
		labels[s.Label] = true
	}
	if labels["Miss_store"] || labels["Range_promote"] {
		c.Count("with_promotion")
	}
	if labels["Expunge_cas"] {
		c.Count("with_expunge")
	}
	if labels["Unexpunge_cas"] {
		c.Count("with_unexpunge_attempt")
	}
	if (labels["Miss_store"] || labels["Range_promote"]) && labels["Expunge_cas"] || (len(cs.Progs) > 1 && pre > 0) {
		c.Nontrivial()
	}
	failedNow := true
	if r.Panic != "" {
		c.Fail("panic or runaway schedule in sync2.Map", r.Panic)
	} else if r.Deadlock {
		c.Fail("deadlock in sync2.Map", fmt.Sprint(r.Steps))
	} else if msg := oracle(cs, r, info); msg != "" {
		c.Fail(msg, describe(info))
	} else {
		failedNow = false
	}
	// Coq case
	emitCount++
	if emitEvery > 1 && emitCount%emitEvery != 0 && !failedNow {
		c.Count("explored_oracle_only")
		return
	}
	progs := make([]string, len(cs.Progs))
	results := make([]string, len(cs.Progs))
	for t := range cs.Progs {
		var a []string
		for _, ci := range info.calls[t] {
			a = append(a, coqCall(ci.spec))
		}
		progs[t] = core.List(a)
		rs := make([]string, len(r.Results[t]))
		copy(rs, r.Results[t])
		results[t] = core.List(rs)
	}
	c.Emit(fmt.Sprintf("Case 1 %s %s %s %s [%s]", core.List(progs), sched.CoqSteps(r.Steps), core.List(results),
		core.Bool(r.Deadlock), pairsCoq(info.final)))
}

func describe(info *runInfo) string {
	var sb strings.Builder
	for t, cs := range info.calls {
		for _, ci := range cs {
			fmt.Fprintf(&sb, "t%d %s(%d,%d)=>(%d,%v)%v; ", t, ci.spec.Op, ci.spec.K, ci.spec.V, ci.rv, ci.rok, ci.pairs)
		}
	}
	fmt.Fprintf(&sb, "final=%v", info.final)
	return sb.String()
}

// oracle: the property itself on the observed history.
func oracle(cs Case, r sched.Result, info *runInfo) string {
	// intervals: the k-th call of thread t owns t's steps between the previous call's end and its own end
	var ops []lin.Op
	type rng struct {
		ci          *callInfo
		first, last int
	}
	var ranges []rng
	for t, calls := range info.calls {
		prevEnd := 0
		for _, ci := range calls {
			first, last := -1, -1
			for i := prevEnd; i < ci.endAt && i < len(r.Steps); i++ {
				if r.Steps[i].T == t {
					if first < 0 {
						first = i
					}
					last = i
				}
			}
			prevEnd = ci.endAt
			if first < 0 {
				return fmt.Sprintf("call %s of thread %d took no atomic step", ci.spec.Op, t)
			}
			if ci.spec.Op == "Range" {
				ranges = append(ranges, rng{ci, first, last})
				continue
			}
			ops = append(ops, lin.Op{T: t, First: first, Last: last, Kind: ci.spec.Op, K: ci.spec.K, V: ci.spec.V, RV: ci.rv, ROK: ci.rok})
		}
	}
	// the final contents are a Load of every key after everything else
	end := len(r.Steps) + 1
	fin := map[int]int{}
	for _, p := range info.final {
		fin[p[0]] = p[1]
	}
	keys := map[int]bool{}
	for _, o := range ops {
		keys[o.K] = true
	}
	for k := range fin {
		keys[k] = true
	}
	all := append([]lin.Op{}, ops...)
	for k := range keys {
		v, ok := fin[k]
		all = append(all, lin.Op{T: -1, First: end, Last: end, Kind: "Load", K: k, RV: v, ROK: ok})
	}
	if len(cs.Progs) == 1 {
		// one goroutine: the history is sequential, compare call by call with an ordinary map (any length)
		ref := map[int]int{}
		for _, ci := range info.calls[0] {
			v, had := ref[ci.spec.K]
			bad := false
			switch ci.spec.Op {
			case "Load":
				bad = ci.rok != had || (had && ci.rv != v)
			case "Store":
				ref[ci.spec.K] = ci.spec.V
			case "LoadOrStore":
				if had {
					bad = !ci.rok || ci.rv != v
				} else {
					bad = ci.rok || ci.rv != ci.spec.V
					ref[ci.spec.K] = ci.spec.V
				}
			case "LoadAndDelete":
				bad = ci.rok != had || (had && ci.rv != v)
				delete(ref, ci.spec.K)
			case "Delete":
				delete(ref, ci.spec.K)
			case "Range":
				seen := map[int]bool{}
				for _, p := range ci.pairs {
					if rv, ok := ref[p[0]]; !ok || rv != p[1] || seen[p[0]] {
						bad = true
					}
					seen[p[0]] = true
				}
				if (ci.spec.N == 0 || len(ci.pairs) < ci.spec.N) && len(ci.pairs) != len(ref) {
					bad = true
				}
			}
			if bad {
				return fmt.Sprintf("sequential history: %s(%d,%d) returned (%d,%v) %v, an ordinary map holds %v", ci.spec.Op, ci.spec.K, ci.spec.V, ci.rv, ci.rok, ci.pairs, ref)
			}
		}
		if len(fin) != len(ref) {
			return fmt.Sprintf("sequential history: final contents %v, an ordinary map holds %v", fin, ref)
		}
		for k, v := range ref {
			if fin[k] != v {
				return fmt.Sprintf("sequential history: final contents %v, an ordinary map holds %v", fin, ref)
			}
		}
	} else if len(all) <= 64 {
		if ok, _ := lin.Check(nil, all); !ok {
			return "history is not linearizable to a map"
		}
	}
	// Range: at most once per key; only values the key could have held; keys present and untouched throughout are visited
	for _, rg := range ranges {
		seen := map[int]bool{}
		for _, p := range rg.ci.pairs {
			if seen[p[0]] {
				return fmt.Sprintf("Range passed key %d twice", p[0])
			}
			seen[p[0]] = true
			okv := false
			for _, o := range ops {
				if o.K == p[0] && (o.Kind == "Store" || o.Kind == "LoadOrStore") && o.V == p[1] && o.First <= rg.last {
					okv = true
				}
			}
			if !okv {
				return fmt.Sprintf("Range passed (%d,%d), a value never stored for that key before the Range ended", p[0], p[1])
			}
		}
		if rg.ci.spec.N == 0 || len(rg.ci.pairs) < rg.ci.spec.N {
			// complete iteration: every key whose last write finished before the Range started, which held a value then,
			// and which no call touched during the Range, must be visited. Decide "held a value" with the sequential
			// replay of the calls that finished before the Range began, only when none of them overlaps another call.
			before := map[int]int{}
			ok := true
			var prior []lin.Op
			for _, o := range ops {
				if o.Last < rg.first {
					prior = append(prior, o)
				} else if o.First <= rg.last {
					before[o.K] = -1 // touched during the Range
				}
			}
			sort.Slice(prior, func(i, j int) bool { return prior[i].First < prior[j].First })
			for i := 1; i < len(prior); i++ {
				if prior[i].First <= prior[i-1].Last {
					ok = false // overlapping earlier calls: skip the completeness check
				}
			}
			if ok {
				st := map[int]int{}
				for _, o := range prior {
					switch o.Kind {
					case "Store":
						st[o.K] = o.V
					case "LoadOrStore":
						if _, had := st[o.K]; !had {
							st[o.K] = o.V
						}
					case "LoadAndDelete", "Delete":
						delete(st, o.K)
					}
				}
				for k, v := range st {
					if _, touched := before[k]; touched {
						continue
					}
					found := false
					for _, p := range rg.ci.pairs {
						if p[0] == k && p[1] == v {
							found = true
						}
					}
					if !found {
						return fmt.Sprintf("Range missed key %d (value %d) that was present and untouched for the whole call", k, v)
					}
				}
			}
		}
	}
	return ""
}

// ---- generation ----

var ops = []string{"Load", "Store", "LoadOrStore", "LoadAndDelete", "Delete", "Range"}

func randCall(c *core.Ctx, nkeys int, rangePct int) CallSpec {
	if c.Rng.Chance(rangePct) {
		return CallSpec{Op: "Range", N: c.Rng.Intn(3)}
	}
	return CallSpec{Op: ops[c.Rng.Intn(5)], K: c.Rng.Intn(nkeys), V: 10 + c.Rng.Intn(90)}
}

// layouts put the map into a chosen internal state before the concurrent part
func layout(c *core.Ctx, which int) []CallSpec {
	S := func(k, v int) CallSpec { return CallSpec{Op: "Store", K: k, V: v} }
	L := func(k int) CallSpec { return CallSpec{Op: "Load", K: k} }
	D := func(k int) CallSpec { return CallSpec{Op: "Delete", K: k} }
	R := CallSpec{Op: "Range"}
	switch which {
	case 0:
		return nil // empty map
	case 1:
		return []CallSpec{S(0, 1), S(1, 2), R} // all in read
	case 2:
		return []CallSpec{S(0, 1), R, S(1, 2)} // key 1 only in dirty, amended
	case 3:
		return []CallSpec{S(0, 1), S(1, 2), R, D(0)} // nil entry in read, dirty nil
	case 4:
		return []CallSpec{S(0, 1), S(1, 2), R, D(0), S(2, 3)} // expunged entry for key 0, amended
	case 5:
		return []CallSpec{S(0, 1), R, S(1, 2), S(2, 3), L(1)} // one miss recorded, promotion after one more
	default:
		return []CallSpec{S(0, 1), S(1, 2), R, D(0), S(2, 3), R, D(1)} // promoted, entry for key 0 dropped, key 1 nil
	}
}

// stress runs uncontrolled goroutines on one Map (no hook installed): only meaningful in the binary built with
// the race detector (tier "race"), where any unsynchronised access is reported by the runtime.
func stress(c *core.Ctx) {
	for round := 0; round < c.N(12, 12, 12); round++ {
		cs := Case{Kind: "race-stress"}
		c.Begin(cs)
		m := &sync2.Map[int, int]{}
		var wg sync.WaitGroup
		for g := 0; g < 8; g++ {
			wg.Add(1)
			rng := core.NewRand(c.Seed*1000 + uint64(round*16+g))
			go func() {
				defer wg.Done()
				for i := 0; i < 1500; i++ {
					k, v := rng.Intn(4), rng.Intn(100)
					switch rng.Intn(7) {
					case 0:
						m.Load(k)
					case 1:
						m.Store(k, v)
					case 2:
						m.LoadOrStore(k, v)
					case 3:
						m.LoadAndDelete(k)
					case 4:
						m.Delete(k)
					case 5:
						m.Range(func(k, v int) bool { return v%7 != 0 })
					default:
						m.Load(k + 4)
					}
				}
			}()
		}
		wg.Wait()
		c.Count("race_stress_rounds")
	}
}

func run(c *core.Ctx) {
	if c.Tier == "race" {
		stress(c)
		return
	}
	// 1. sequential histories (drive the read/dirty/expunged state machine)
	for i := c.N(250, 6000, 2000); i > 0; i-- {
		n := 3 + c.Rng.Size(c.N(60, 200, 120))
		nkeys := 2 + c.Rng.Intn(5)
		prog := make([]CallSpec, n)
		rp := []int{3, 10, 25}[c.Rng.Intn(3)]
		for j := range prog {
			prog[j] = randCall(c, nkeys, rp)
		}
		cs := Case{Progs: [][]CallSpec{prog}, Kind: "sequential"}
		r, info := execute(cs, sched.NonPreemptive)
		report(c, cs, r, info)
	}
	// 1b. long sequential histories over many keys (the promotion threshold, the dirty map size and any
	// size-dependent shortcut depend on the number of keys): oracle only, a few of moderate size on the model
	for i, nkeys := range []int{9, 17, 33, 65, 129, 257, 700} {
		for rep := 0; rep < c.N(3, 12, 6); rep++ {
			n := 40 * nkeys
			if n > 6000 {
				n = 6000
			}
			prog := make([]CallSpec, n)
			rp := []int{1, 3, 8}[rep%3]
			for j := range prog {
				prog[j] = randCall(c, nkeys, rp)
				if prog[j].Op == "Range" {
					prog[j].N = 0
				}
			}
			cs := Case{Progs: [][]CallSpec{prog}, Kind: "sequential_big"}
			r, info := execute(cs, sched.NonPreemptive)
			emitEvery, emitCount = 1000000, 1 // oracle only ...
			if i < 2 && rep == 0 {
				emitEvery = 1 // ... except two of the smaller ones
			}
			report(c, cs, r, info)
			emitEvery = 1
		}
	}
	// 2. all schedules with at most P pre-emptions of small two-thread programs on chosen layouts
	type prog2 struct{ a, b []CallSpec }
	mk := func(op string, k, v int) CallSpec { return CallSpec{Op: op, K: k, V: v} }
	var battery []prog2
	for _, oa := range []string{"Load", "Store", "LoadOrStore", "LoadAndDelete"} {
		for _, ob := range []string{"Load", "Store", "LoadOrStore", "LoadAndDelete", "Range"} {
			battery = append(battery, prog2{[]CallSpec{mk(oa, 0, 50)}, []CallSpec{mk(ob, 0, 60)}})
			battery = append(battery, prog2{[]CallSpec{mk(oa, 2, 50)}, []CallSpec{mk(ob, 0, 60), mk("Load", 2, 0)}})
		}
	}
	maxPre := c.N(2, 3, 2)
	limit := c.N(300, 1500, 600)
	nlay := 7
	emitEvery, emitCount = c.N(60, 60, 1), 0 // all explored schedules go through the oracle, one in 60 through the model
	for _, b := range battery {
		for lay := 0; lay < nlay; lay++ {
			cs := Case{Prefix: layout(c, lay), Progs: [][]CallSpec{b.a, b.b}, Kind: fmt.Sprintf("explore_l%d", lay)}
			exploreCase(c, cs, maxPre, limit)
		}
	}
	emitEvery = 1
	// 3. random schedules of random 2-4 thread programs
	for i := c.N(400, 30000, 6000); i > 0; i-- {
		nt := 2 + c.Rng.Intn(3)
		progs := make([][]CallSpec, nt)
		for t := range progs {
			progs[t] = make([]CallSpec, 1+c.Rng.Intn(3))
			for j := range progs[t] {
				progs[t][j] = randCall(c, 3, 10)
			}
		}
		cs := Case{Prefix: layout(c, c.Rng.Intn(7)), Progs: progs, Kind: "random"}
		r, info := execute(cs, sched.Random(c.Rng.Intn, 50))
		report(c, cs, r, info)
	}
}

// exploreCase enumerates, breadth-first by number of pre-emptions, schedules of the concurrent part;
// the set-up prefix runs alone first (thread 0 is forced while it still executes prefix calls).
func exploreCase(c *core.Ctx, cs Case, maxPre, limit int) {
	probe := Case{Prefix: cs.Prefix, Progs: [][]CallSpec{{}}, Kind: "probe"}
	r0, _ := execute(probe, sched.NonPreemptive)
	base := r0.Chosen
	sched.ExploreBFS(func(prefix []int) sched.Result {
		r, info := execute(cs, sched.Prefix(prefix))
		report(c, cs, r, info)
		return r
	}, base, maxPre, limit, func(sched.Result) {})
}

func has(s []int, x int) bool {
	for _, v := range s {
		if v == x {
			return true
		}
	}
	return false
}
