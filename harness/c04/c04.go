// Package c04: sync2.Map is linearizable to an ordinary map — controlled
// schedules on the real code, trace validation against the Coq model, and a
// brute-force linearizability oracle.
package c04

import (
	"encoding/json"
	"fmt"
	"sort"
	"strings"
	"sync"

	"gopkg.in/typ.v4/sync2"
	"verif/harness/core"
	"verif/harness/lin"
	"verif/harness/sched"
)

type CallSpec struct {
	Op string `json:"op"` // Load Store LoadOrStore LoadAndDelete Delete Range
	K  int    `json:"k,omitempty"`
	V  int    `json:"v,omitempty"`
	N  int    `json:"n,omitempty"` // Range: callback returns false at its N-th call (0 = never)
}

type Case struct {
	Prefix  []CallSpec   `json:"prefix"` // sequential set-up run by thread 0 before the others start (part of thread 0's program)
	Progs   [][]CallSpec `json:"progs"`
	Choices []int        `json:"choices"` // thread chosen at every step
	Kind    string       `json:"kind"`
}

func init() {
	core.Register(&core.Prop{ID: "C04", Module: "SyncMap.Check", Run: run, Replay: replay})
}

func replay(c *core.Ctx, raw json.RawMessage) error {
	var cs Case
	if err := json.Unmarshal(raw, &cs); err != nil {
		return err
	}
	r, info := execute(cs, sched.Prefix(cs.Choices))
	report(c, cs, r, info)
	return nil
}

type callInfo struct {
	spec  CallSpec
	t     int
	endAt int // len(steps) when the call returned
	rv    int
	rok   bool
	pairs [][2]int
}

type runInfo struct {
	calls [][]*callInfo
	final [][2]int
}

func coqCall(s CallSpec) string {
	switch s.Op {
	case "Load":
		return fmt.Sprintf("CLoad 0 %s", core.Z(s.K))
	case "Store":
		return fmt.Sprintf("CStore 0 %s %s", core.Z(s.K), core.Z(s.V))
	case "LoadOrStore":
		return fmt.Sprintf("CLoadOrStore 0 %s %s PNone", core.Z(s.K), core.Z(s.V))
	case "LoadAndDelete":
		return fmt.Sprintf("CLoadAndDelete 0 %s", core.Z(s.K))
	case "Delete":
		return fmt.Sprintf("CDelete 0 %s", core.Z(s.K))
	case "Range":
		if s.N > 0 {
			return fmt.Sprintf("CRange 0 (CbStop (Some %d%%nat))", s.N)
		}
		return "CRange 0 (CbStop None)"
	}
	panic("bad op " + s.Op)
}

func pairsCoq(ps [][2]int) string {
	parts := make([]string, len(ps))
	for i, p := range ps {
		parts[i] = core.Pair(core.Z(p[0]), core.Z(p[1]))
	}
	return core.List(parts)
}

func execute(cs Case, choose sched.Chooser) (sched.Result, *runInfo) {
	m := &sync2.Map[int, int]{}
	info := &runInfo{calls: make([][]*callInfo, len(cs.Progs))}
	threads := make([]sched.Thread, len(cs.Progs))
	for t, prog := range cs.Progs {
		t := t
		full := prog
		if t == 0 {
			full = append(append([]CallSpec{}, cs.Prefix...), prog...)
		}
		for _, spec := range full {
			spec := spec
			ci := &callInfo{spec: spec, t: t}
			info.calls[t] = append(info.calls[t], ci)
			threads[t].Calls = append(threads[t].Calls, func() string {
				var out string
				switch spec.Op {
				case "Load":
					v, ok := m.Load(spec.K)
					ci.rv, ci.rok = v, ok
					out = "ROpt " + core.Opt(ok, core.Z(v))
				case "Store":
					m.Store(spec.K, spec.V)
					out = "RUnit"
				case "LoadOrStore":
					v, loaded := m.LoadOrStore(spec.K, spec.V)
					ci.rv, ci.rok = v, loaded
					out = fmt.Sprintf("RLos %s %s", core.Z(v), core.Bool(loaded))
				case "LoadAndDelete":
					v, ok := m.LoadAndDelete(spec.K)
					ci.rv, ci.rok = v, ok
					out = "ROpt " + core.Opt(ok, core.Z(v))
				case "Delete":
					m.Delete(spec.K)
					out = "RUnit"
				case "Range":
					n := 0
					m.Range(func(k, v int) bool {
						ci.pairs = append(ci.pairs, [2]int{k, v})
						n++
						return spec.N == 0 || n < spec.N
					})
					out = fmt.Sprintf("RRange %s %d", pairsCoq(ci.pairs), n)
				}
				ci.endAt = sched.StepsSoFar()
				return out
			})
		}
	}
	ncalls := len(cs.Prefix)
	for _, p := range cs.Progs {
		ncalls += len(p)
	}
	bound := 4000 + 60*ncalls // catches runaway CAS loops under adversarial schedules
	if len(cs.Progs) == 1 {
		bound = 1 << 30 // a single goroutine cannot livelock
	}
	r := sched.Run(threads, choose, bound)
	if r.Panic != "" || r.Deadlock {
		return r, info // goroutines may be parked inside the map (holding m.mu): do not touch it again
	}
	m.Range(func(k, v int) bool { info.final = append(info.final, [2]int{k, v}); return true })
	sort.Slice(info.final, func(i, j int) bool { return info.final[i][0] < info.final[j][0] })
	return r, info
}

// emitEvery: explored schedules are all checked by the oracle; one in emitEvery of the passing ones is
// also sent to the Coq model (the model replay is the expensive part). Independently of that sample, a run
// that contains a coverage feature (a model label, or a label-to-label transition inside a call) which fewer
// than coverK model-replayed cases contain so far is always sent to the model (see coverage below).
var emitEvery = 1
var emitCount int

// ---- label coverage of the model replay (audit item H1) ----

// mapLabels: the labels of SyncMap/Model.v that a sync2.Map[int,int] program can execute (all but the keyed-mutex
// labels KM_*/KRW_*), in the order of the Inductive.
var mapLabels = []string{
	"Load_read1", "Load_lock", "Load_read2", "Load_unlock", "E_load",
	"Store_read1", "Store_lock", "Store_read2", "Store_amend", "Store_unlock",
	"TryStore_load", "TryStore_cas", "Unexpunge_cas", "StoreLocked",
	"LOS_read1", "LOS_lock", "LOS_read2", "LOS_amend", "LOS_unlock",
	"Tlos_load1", "Tlos_cas", "Tlos_load2",
	"LAD_read1", "LAD_lock", "LAD_read2", "LAD_unlock", "Delete_load", "Delete_cas",
	"Range_read1", "Range_lock", "Range_read2", "Range_promote", "Range_unlock", "Range_iter",
	"Miss_store", "Dirty_read", "Dirty_iter", "Expunge_load1", "Expunge_cas", "Expunge_load2",
}

// branches: transitions (consecutive labels of one goroutine inside one call) that show a failed CAS or a
// further iteration of a CAS loop; reported by name in the statistics.
var branches = [][2]string{
	{"cas_retry_tryStore", "TryStore_cas>TryStore_load"},
	{"cas_retry_delete", "Delete_cas>Delete_load"},
	{"cas_fail_tlos", "Tlos_cas>Tlos_load2"},
	{"cas_loop_tlos", "Tlos_load2>Tlos_cas"},
	{"cas_fail_expunge", "Expunge_cas>Expunge_load2"},
	{"cas_loop_expunge", "Expunge_load2>Expunge_cas"},
}

const coverK = 5          // every feature is replayed on the model in at least its first coverK runs
const coverMaxSteps = 400 // ... unless the run is one of the deliberately huge oracle-only histories

type coverage struct {
	executed map[string]int // feature -> runs of the real code containing it
	replayed map[string]int // feature -> runs sent to the Coq model containing it
}

var cov = coverage{map[string]int{}, map[string]int{}}

// features of a run: every label, and every transition a>b between consecutive steps of the same goroutine
// where b is not the first label of a call (so a transition is a branch taken inside a call, nested calls of a
// callback included).
func features(steps []sched.Step) []string {
	set := map[string]bool{}
	last := map[int]string{}
	for _, s := range steps {
		set[s.Label] = true
		if p, ok := last[s.T]; ok && !strings.HasSuffix(s.Label, "_read1") {
			set[p+">"+s.Label] = true
		}
		last[s.T] = s.Label
	}
	out := make([]string, 0, len(set))
	for f := range set {
		out = append(out, f)
	}
	sort.Strings(out)
	return out
}

// coverageReport writes the table into the statistics (label_<name> = number of model-replayed cases that contain
// the label) and names what was never reached.
func coverageReport(c *core.Ctx, labels []string) {
	var neverRun, neverReplayed []string
	labelsReplayed := 0
	for _, l := range labels {
		c.Stats["label_"+l] = cov.replayed[l]
		if cov.executed[l] == 0 {
			neverRun = append(neverRun, l)
		} else if cov.replayed[l] == 0 {
			neverReplayed = append(neverReplayed, l)
		} else {
			labelsReplayed++
		}
	}
	for _, b := range branches {
		c.Stats["branch_"+b[0]] = cov.replayed[b[1]]
		c.Stats["branch_"+b[0]+"_runs"] = cov.executed[b[1]]
		if cov.executed[b[1]] == 0 {
			neverRun = append(neverRun, b[0])
		} else if cov.replayed[b[1]] == 0 {
			neverReplayed = append(neverReplayed, b[0])
		}
	}
	trans, transReplayed := 0, 0
	var transOnlyRun []string
	zeroRun, zeroReplayed := 0, 0
	for f, n := range cov.executed {
		if n > 0 && strings.HasPrefix(f, "zero:") {
			zeroRun++
			if cov.replayed[f] > 0 {
				zeroReplayed++
			} else {
				transOnlyRun = append(transOnlyRun, f)
			}
			continue
		}
		if !strings.Contains(f, ">") || n == 0 {
			continue
		}
		trans++
		if cov.replayed[f] > 0 {
			transReplayed++
		} else {
			transOnlyRun = append(transOnlyRun, f)
		}
	}
	sort.Strings(transOnlyRun)
	c.Stats["transitions_executed"] = trans
	c.Stats["transitions_replayed_on_model"] = transReplayed
	// the same features within programs that store the int 0, and the runs in which a CompareAndSwap failed although the
	// entry held the value 0 both when the pointer was loaded and at the CAS (equal value, different pointer)
	c.Stats["zero_features_executed"] = zeroRun
	c.Stats["zero_features_replayed_on_model"] = zeroReplayed
	c.Stats["zero_stale_cas_runs"] = cov.executed[zeroStaleCAS]
	c.Stats["zero_stale_cas_runs_replayed_on_model"] = cov.replayed[zeroStaleCAS]
	if c.NoModel {
		c.Note(fmt.Sprintf("label coverage (tier %s, no model replay): %d of %d model labels executed by the real code; never executed: %v",
			c.Tier, labelsReplayed+len(neverReplayed), len(labels), neverRun))
		return
	}
	c.Note(fmt.Sprintf("label coverage of the model replay: %d of %d model labels and %d of %d executed in-call label transitions occur in a model-replayed case "+
		"(each in at least min(%d, number of runs containing it) replayed cases, runs longer than %d steps excepted); never executed by the real code: %v; "+
		"executed but never replayed on the model: labels/branches %v, transitions %v. Programs that store the int 0: %d of their %d features (counted apart, prefix zero:) replayed; "+
		"%d runs with a CompareAndSwap that failed on an equal value 0 (stale pointer), %d of them replayed on the model",
		labelsReplayed, len(labels), transReplayed, trans, coverK, coverMaxSteps, neverRun, neverReplayed, transOnlyRun,
		zeroReplayed, zeroRun, cov.executed[zeroStaleCAS], cov.replayed[zeroStaleCAS]))
}

const zeroStaleCAS = "zero:stale_cas_on_equal_value_0"

func storesZero(info *runInfo) bool {
	for _, calls := range info.calls {
		for _, ci := range calls {
			if (ci.spec.Op == "Store" || ci.spec.Op == "LoadOrStore") && ci.spec.V == 0 {
				return true
			}
		}
	}
	return false
}

// staleZeroCAS counts the failed CompareAndSwaps of tryStore / entry.delete (a X_cas step followed, in the same call,
// by another X_load) for which key k held the int 0 when the pointer was loaded and held the int 0 again at the CAS:
// the value is equal, the pointer is not, the CAS must fail (in a Set, where all values share one address, it would
// succeed). "Held" is decided from the calls alone, conservatively: the writes to k that began before the moment must
// all have returned, the last one to return must not overlap the one before it, and it must have left the int 0.
func staleZeroCAS(r sched.Result, info *runInfo) int {
	type wr struct {
		first, last int
		ci          *callInfo
	}
	writes := map[int][]wr{}
	type iv struct {
		first, last int
		ci          *callInfo
	}
	var calls []iv
	for t, cs := range info.calls {
		prevEnd := 0
		for _, ci := range cs {
			first, last := -1, -1
			for i := prevEnd; i < ci.endAt && i < len(r.Steps); i++ {
				if r.Steps[i].T == t {
					if first < 0 {
						first = i
					}
					last = i
				}
			}
			prevEnd = ci.endAt
			if first < 0 || ci.spec.Op == "Range" || ci.spec.Op == "Load" {
				continue
			}
			calls = append(calls, iv{first, last, ci})
			writes[ci.spec.K] = append(writes[ci.spec.K], wr{first, last, ci})
		}
	}
	holdsZero := func(k, at int, self *callInfo) bool {
		var top, second *wr
		for i := range writes[k] {
			w := &writes[k][i]
			if w.ci == self || w.first >= at {
				continue
			}
			if w.last >= at {
				return false // a write to k is in progress
			}
			if top == nil || w.last > top.last {
				top, second = w, top
			} else if second == nil || w.last > second.last {
				second = w
			}
		}
		if top == nil || (second != nil && second.last >= top.first) {
			return false
		}
		switch top.ci.spec.Op {
		case "Store":
			return top.ci.spec.V == 0
		case "LoadOrStore":
			return top.ci.rv == 0 // the value it found or stored
		}
		return false
	}
	n := 0
	for _, c := range calls {
		if c.ci.spec.Op == "LoadOrStore" {
			continue // its CAS is from nil, not from a pointer to a value
		}
		var mine []int
		for i := c.first; i <= c.last; i++ {
			if r.Steps[i].T == c.ci.t {
				mine = append(mine, i)
			}
		}
		for x := 0; x+2 < len(mine); x++ {
			a, b, d := r.Steps[mine[x]].Label, r.Steps[mine[x+1]].Label, r.Steps[mine[x+2]].Label
			if (a == "TryStore_load" && b == "TryStore_cas" && d == "TryStore_load") || (a == "Delete_load" && b == "Delete_cas" && d == "Delete_load") {
				if holdsZero(c.ci.spec.K, mine[x], c.ci) && holdsZero(c.ci.spec.K, mine[x+1], c.ci) {
					n++
				}
			}
		}
	}
	return n
}

func report(c *core.Ctx, cs Case, r sched.Result, info *runInfo) {
	cs.Choices = r.Chosen
	c.Begin(cs)
	c.Count("kind_" + cs.Kind)
	c.CountN("steps", len(r.Steps))
	pre := 0
	for i := 1; i < len(r.Chosen); i++ {
		if r.Chosen[i] != r.Chosen[i-1] {
			for _, e := range r.Enabled[i] {
				if e == r.Chosen[i-1] {
					pre++
				}
			}
		}
	}
	c.CountN("preemptions", pre)
	for _, calls := range info.calls {
		for _, ci := range calls {
			if (ci.spec.Op == "Store" || ci.spec.Op == "LoadOrStore") && ci.spec.V == 0 {
				c.Count("calls_storing_the_value_0")
			}
		}
	}
	labels := map[string]bool{}
	for _, s := range r.Steps {
		labels[s.Label] = true
	}
	if labels["Miss_store"] || labels["Range_promote"] {
		c.Count("with_promotion")
	}
	if labels["Expunge_cas"] {
		c.Count("with_expunge")
	}
	if labels["Unexpunge_cas"] {
		c.Count("with_unexpunge_attempt")
	}
	if (labels["Miss_store"] || labels["Range_promote"]) && labels["Expunge_cas"] || (len(cs.Progs) > 1 && pre > 0) {
		c.Nontrivial()
	}
	failedNow := true
	if r.Panic != "" {
		c.Fail("panic or runaway schedule in sync2.Map", r.Panic)
	} else if r.Deadlock {
		c.Fail("deadlock in sync2.Map", fmt.Sprint(r.Steps))
	} else if msg := oracle(c, cs, r, info); msg != "" {
		c.Fail(msg, describe(info))
	} else {
		failedNow = false
	}
	// Coq case: the 1-in-emitEvery sample, every failing run, and every run with a feature the model has seen
	// in fewer than coverK cases
	feats := features(r.Steps)
	stale := false
	if storesZero(info) {
		// a program that stores the int 0 runs the flag-false branch of the model's cas_ok on the value 0: its
		// features are counted a second time under a "zero:" name, so that they get their own coverK model replays
		// instead of sharing those of the programs with non-zero values (audit round 2, item 2)
		c.Count("runs_of_programs_storing_0")
		zf := make([]string, 0, len(feats)+1)
		for _, f := range feats {
			zf = append(zf, "zero:"+f)
		}
		if n := staleZeroCAS(r, info); n > 0 {
			zf = append(zf, zeroStaleCAS)
			c.CountN("zero_stale_cas_failures_executed", n)
			stale = true
		}
		feats = append(feats, zf...)
	}
	rare := stale // every run with a stale CAS on the value 0 goes to the model, not only the first coverK
	for _, f := range feats {
		cov.executed[f]++
		if cov.replayed[f] < coverK {
			rare = true
		}
	}
	rare = rare && len(r.Steps) <= coverMaxSteps && !c.NoModel
	emitCount++
	sampled := emitEvery <= 1 || emitCount%emitEvery == 0
	if !sampled && !failedNow && !rare {
		c.Count("explored_oracle_only")
		return
	}
	if !sampled && !failedNow {
		c.Count("replayed_for_label_coverage")
	}
	if !c.NoModel {
		for _, f := range feats {
			cov.replayed[f]++
		}
	}
	progs := make([]string, len(cs.Progs))
	results := make([]string, len(cs.Progs))
	for t := range cs.Progs {
		var a []string
		for _, ci := range info.calls[t] {
			a = append(a, coqCall(ci.spec))
		}
		progs[t] = core.List(a)
		rs := make([]string, len(r.Results[t]))
		copy(rs, r.Results[t])
		results[t] = core.List(rs)
	}
	c.Emit(fmt.Sprintf("Case 1 %s %s %s %s [%s]", core.List(progs), sched.CoqSteps(r.Steps), core.List(results),
		core.Bool(r.Deadlock), pairsCoq(info.final)))
}

func describe(info *runInfo) string {
	var sb strings.Builder
	for t, cs := range info.calls {
		for _, ci := range cs {
			fmt.Fprintf(&sb, "t%d %s(%d,%d)=>(%d,%v)%v; ", t, ci.spec.Op, ci.spec.K, ci.spec.V, ci.rv, ci.rok, ci.pairs)
		}
	}
	fmt.Fprintf(&sb, "final=%v", info.final)
	return sb.String()
}

// mutates: the call may change the map (everything but Load); such a call "touches" its key.
func mutates(kind string) bool { return kind != "Load" }

// oracle: the property itself on the observed history.
//
// One goroutine: call-by-call comparison with an ordinary map (any length), Range compared exactly.
//
// Several goroutines: (a) the history of the five calls, closed by a Load of every key after the end (the final
// contents), must be linearizable to an ordinary map (brute force, harness/lin); (b) every Range call is held
// against the SAME linearization: each pair (k,v) it passed to its function is added to the history as an
// observation "k holds v" (a Load(k) = (v,true)) that has to take effect between the first and the last step of
// that Range call - so a value overwritten before the Range began, or stored only after it ended, is rejected -
// and, for a Range that was not stopped by its function, each key it did not pass and that no Store / LoadOrStore /
// LoadAndDelete / Delete call overlapping the Range touched is added as an observation "k is absent" (Load(k) =
// (_,false)) in the same interval - so a key that every linearization has present for the whole call, untouched,
// must have been visited, whether or not the calls that set it up overlapped one another. (c) No key twice.
func oracle(c *core.Ctx, cs Case, r sched.Result, info *runInfo) string {
	// intervals: the k-th call of thread t owns t's steps between the previous call's end and its own end
	var ops []lin.Op
	type rng struct {
		ci          *callInfo
		first, last int
	}
	var ranges []rng
	for t, calls := range info.calls {
		prevEnd := 0
		for _, ci := range calls {
			first, last := -1, -1
			for i := prevEnd; i < ci.endAt && i < len(r.Steps); i++ {
				if r.Steps[i].T == t {
					if first < 0 {
						first = i
					}
					last = i
				}
			}
			prevEnd = ci.endAt
			if first < 0 {
				return fmt.Sprintf("call %s of thread %d took no atomic step", ci.spec.Op, t)
			}
			if ci.spec.Op == "Range" {
				ranges = append(ranges, rng{ci, first, last})
				continue
			}
			ops = append(ops, lin.Op{T: t, First: first, Last: last, Kind: ci.spec.Op, K: ci.spec.K, V: ci.spec.V, RV: ci.rv, ROK: ci.rok})
		}
	}
	// the final contents are a Load of every key after everything else
	end := len(r.Steps) + 1
	fin := map[int]int{}
	for _, p := range info.final {
		fin[p[0]] = p[1]
	}
	keys := map[int]bool{}
	for _, o := range ops {
		keys[o.K] = true
	}
	for k := range fin {
		keys[k] = true
	}
	for _, rg := range ranges {
		for _, p := range rg.ci.pairs {
			keys[p[0]] = true
		}
	}
	keyList := make([]int, 0, len(keys))
	for k := range keys {
		keyList = append(keyList, k)
	}
	sort.Ints(keyList)
	all := append([]lin.Op{}, ops...)
	for _, k := range keyList {
		v, ok := fin[k]
		all = append(all, lin.Op{T: -1, First: end, Last: end, Kind: "Load", K: k, RV: v, ROK: ok})
	}
	if len(cs.Progs) == 1 {
		// one goroutine: the history is sequential, compare call by call with an ordinary map (any length)
		ref := map[int]int{}
		for _, ci := range info.calls[0] {
			v, had := ref[ci.spec.K]
			bad := false
			switch ci.spec.Op {
			case "Load":
				bad = ci.rok != had || (had && ci.rv != v)
			case "Store":
				ref[ci.spec.K] = ci.spec.V
			case "LoadOrStore":
				if had {
					bad = !ci.rok || ci.rv != v
				} else {
					bad = ci.rok || ci.rv != ci.spec.V
					ref[ci.spec.K] = ci.spec.V
				}
			case "LoadAndDelete":
				bad = ci.rok != had || (had && ci.rv != v)
				delete(ref, ci.spec.K)
			case "Delete":
				delete(ref, ci.spec.K)
			case "Range":
				seen := map[int]bool{}
				for _, p := range ci.pairs {
					if rv, ok := ref[p[0]]; !ok || rv != p[1] || seen[p[0]] {
						bad = true
					}
					seen[p[0]] = true
				}
				if (ci.spec.N == 0 || len(ci.pairs) < ci.spec.N) && len(ci.pairs) != len(ref) {
					bad = true
				}
				if ci.spec.N > 0 && len(ci.pairs) > ci.spec.N {
					bad = true // called again after the function returned false
				}
			}
			if bad {
				return fmt.Sprintf("sequential history: %s(%d,%d) returned (%d,%v) %v, an ordinary map holds %v", ci.spec.Op, ci.spec.K, ci.spec.V, ci.rv, ci.rok, ci.pairs, ref)
			}
		}
		if len(fin) != len(ref) {
			return fmt.Sprintf("sequential history: final contents %v, an ordinary map holds %v", fin, ref)
		}
		for k, v := range ref {
			if fv, ok := fin[k]; !ok || fv != v {
				return fmt.Sprintf("sequential history: final contents %v, an ordinary map holds %v", fin, ref)
			}
		}
		return ""
	}
	// ---- several goroutines ----
	if len(all) > 64 {
		// never with the generators of run(): at most 7 set-up calls + 4 goroutines x 3 calls + one Load per key
		c.Count("lin_unchecked_history_too_long")
		c.Unobservable("C04 linearizability oracle: concurrent history of more than 64 calls (harness/lin limit), not checked")
		return ""
	}
	c.Count("lin_checked")
	if ok, _ := lin.Check(nil, all); !ok {
		return "history is not linearizable to a map"
	}
	// Range observations
	type obs struct {
		op   lin.Op
		what string
	}
	var perRange [][]obs
	var perRangeCall []*callInfo
	for _, rg := range ranges {
		c.Count("range_concurrent_calls")
		seen := map[int]bool{}
		var os []obs
		touched := map[int]bool{}
		for _, o := range ops {
			if mutates(o.Kind) && o.First <= rg.last && o.Last >= rg.first {
				touched[o.K] = true
			}
		}
		overlapped := len(touched) > 0
		for _, p := range rg.ci.pairs {
			if seen[p[0]] {
				return fmt.Sprintf("Range passed key %d twice", p[0])
			}
			seen[p[0]] = true
			os = append(os, obs{lin.Op{T: -2, First: rg.first, Last: rg.last, Kind: "Load", K: p[0], RV: p[1], ROK: true},
				fmt.Sprintf("Range passed (%d,%d), a value key %d did not hold at any moment between the first and the last step of that Range call", p[0], p[1], p[0])})
			c.Count("range_pairs_checked")
			if !touched[p[0]] {
				c.Count("range_untouched_keys_visited")
			}
		}
		if rg.ci.spec.N > 0 && len(rg.ci.pairs) > rg.ci.spec.N {
			return fmt.Sprintf("Range called its function %d times although it returned false at call %d", len(rg.ci.pairs), rg.ci.spec.N)
		}
		if rg.ci.spec.N == 0 || len(rg.ci.pairs) < rg.ci.spec.N {
			// complete iteration: a key that was not passed and not touched during the call must have been absent at some moment of it
			c.Count("range_complete_calls")
			if overlapped {
				c.Count("range_complete_calls_overlapping_a_write")
			}
			for _, k := range keyList {
				if seen[k] || touched[k] {
					continue
				}
				os = append(os, obs{lin.Op{T: -2, First: rg.first, Last: rg.last, Kind: "Load", K: k, ROK: false},
					fmt.Sprintf("Range missed key %d that was present and untouched for the whole call", k)})
				c.Count("range_untouched_keys_not_visited_checked_absent")
			}
		}
		perRange = append(perRange, os)
		perRangeCall = append(perRangeCall, rg.ci)
	}
	joint := append([]lin.Op{}, all...)
	for _, os := range perRange {
		for _, o := range os {
			joint = append(joint, o.op)
		}
	}
	if len(joint) == len(all) {
		return ""
	}
	if len(joint) <= 64 {
		if ok, _ := lin.Check(nil, joint); ok {
			return ""
		}
	} else {
		c.Count("range_checked_one_call_at_a_time")
	}
	// the joint check failed (or the joint history is too long): find the Range call / the observation at fault
	for i, os := range perRange {
		one := append([]lin.Op{}, all...)
		for _, o := range os {
			one = append(one, o.op)
		}
		if len(one) > 64 {
			c.Count("range_unchecked_history_too_long")
			c.Unobservable("C04 Range oracle: history of more than 64 calls and Range observations, not checked")
			continue
		}
		if ok, _ := lin.Check(nil, one); ok {
			continue
		}
		for _, o := range os {
			if ok, _ := lin.Check(nil, append(append([]lin.Op{}, all...), o.op)); !ok {
				return o.what
			}
		}
		return fmt.Sprintf("Range of thread %d passed %v: no linearization of the history has all of this (the pairs passed held, the untouched keys not passed absent) at moments within the Range call", perRangeCall[i].t, perRangeCall[i].pairs)
	}
	if len(joint) <= 64 {
		return "the Range calls of this run are each consistent with a linearization of the history, but no single linearization agrees with all of them"
	}
	return ""
}

// ---- generation ----

var ops = []string{"Load", "Store", "LoadOrStore", "LoadAndDelete", "Delete", "Range"}

func randCall(c *core.Ctx, nkeys int, rangePct int) CallSpec {
	if c.Rng.Chance(rangePct) {
		return CallSpec{Op: "Range", N: c.Rng.Intn(3)}
	}
	v := 10 + c.Rng.Intn(90)
	if c.Rng.Chance(15) {
		v = 0 // the int 0 is an ordinary value of a Map[int,int] (audit item P3): equal values, different pointers
	}
	return CallSpec{Op: ops[c.Rng.Intn(5)], K: c.Rng.Intn(nkeys), V: v}
}

// layouts put the map into a chosen internal state before the concurrent part
func layout(c *core.Ctx, which int) []CallSpec {
	S := func(k, v int) CallSpec { return CallSpec{Op: "Store", K: k, V: v} }
	L := func(k int) CallSpec { return CallSpec{Op: "Load", K: k} }
	D := func(k int) CallSpec { return CallSpec{Op: "Delete", K: k} }
	R := CallSpec{Op: "Range"}
	switch which {
	case 0:
		return nil // empty map
	case 1:
		return []CallSpec{S(0, 1), S(1, 2), R} // all in read
	case 2:
		return []CallSpec{S(0, 1), R, S(1, 2)} // key 1 only in dirty, amended
	case 3:
		return []CallSpec{S(0, 1), S(1, 2), R, D(0)} // nil entry in read, dirty nil
	case 4:
		return []CallSpec{S(0, 1), S(1, 2), R, D(0), S(2, 3)} // expunged entry for key 0, amended
	case 5:
		return []CallSpec{S(0, 1), R, S(1, 2), S(2, 3), L(1)} // one miss recorded, promotion after one more
	default:
		return []CallSpec{S(0, 1), S(1, 2), R, D(0), S(2, 3), R, D(1)} // promoted, entry for key 0 dropped, key 1 nil
	}
}

// stress runs uncontrolled goroutines on one Map (no hook installed): only meaningful in the binary built with
// the race detector (tier "race"), where any unsynchronised access is reported by the runtime.
func stress(c *core.Ctx) {
	for round := 0; round < c.N(12, 12, 12); round++ {
		cs := Case{Kind: "race-stress"}
		c.Begin(cs)
		m := &sync2.Map[int, int]{}
		var wg sync.WaitGroup
		for g := 0; g < 8; g++ {
			wg.Add(1)
			rng := core.NewRand(c.Seed*1000 + uint64(round*16+g))
			go func() {
				defer wg.Done()
				for i := 0; i < 1500; i++ {
					k, v := rng.Intn(4), rng.Intn(100)
					switch rng.Intn(7) {
					case 0:
						m.Load(k)
					case 1:
						m.Store(k, v)
					case 2:
						m.LoadOrStore(k, v)
					case 3:
						m.LoadAndDelete(k)
					case 4:
						m.Delete(k)
					case 5:
						m.Range(func(k, v int) bool { return v%7 != 0 })
					default:
						m.Load(k + 4)
					}
				}
			}()
		}
		wg.Wait()
		c.Count("race_stress_rounds")
	}
}

func run(c *core.Ctx) {
	if c.Tier == "race" {
		stress(c)
		return
	}
	// 1. sequential histories (drive the read/dirty/expunged state machine)
	for i := c.N(250, 6000, 2000); i > 0; i-- {
		n := 3 + c.Rng.Size(c.N(60, 200, 120))
		nkeys := 2 + c.Rng.Intn(5)
		prog := make([]CallSpec, n)
		rp := []int{3, 10, 25}[c.Rng.Intn(3)]
		for j := range prog {
			prog[j] = randCall(c, nkeys, rp)
		}
		cs := Case{Progs: [][]CallSpec{prog}, Kind: "sequential"}
		r, info := execute(cs, sched.NonPreemptive)
		report(c, cs, r, info)
	}
	// 1b. long sequential histories over many keys (the promotion threshold, the dirty map size and any
	// size-dependent shortcut depend on the number of keys): oracle only, a few of moderate size on the model
	for i, nkeys := range []int{9, 17, 33, 65, 129, 257, 700} {
		for rep := 0; rep < c.N(3, 12, 6); rep++ {
			n := 40 * nkeys
			if n > 6000 {
				n = 6000
			}
			prog := make([]CallSpec, n)
			rp := []int{1, 3, 8}[rep%3]
			for j := range prog {
				prog[j] = randCall(c, nkeys, rp)
				if prog[j].Op == "Range" {
					prog[j].N = 0
				}
			}
			cs := Case{Progs: [][]CallSpec{prog}, Kind: "sequential_big"}
			r, info := execute(cs, sched.NonPreemptive)
			emitEvery, emitCount = 1000000, 1 // oracle only ...
			if i < 2 && rep == 0 {
				emitEvery = 1 // ... except two of the smaller ones
			}
			report(c, cs, r, info)
			emitEvery = 1
		}
	}
	// 2. all schedules with at most P pre-emptions of small two-thread programs on chosen layouts.
	// Battery: every pair (first goroutine: one of the five calls) x (second goroutine: one of the five calls, a full
	// Range, a Range whose function stops at its first / second call), on the same key and on different keys (the
	// second form ends with a Load that observes the first goroutine's key), plus programs aimed at the CAS loops.
	type prog2 struct {
		a, b, c []CallSpec
		zero    bool // key 0 holds the value 0 when the goroutines start
	}
	mk := func(op string, k, v int) CallSpec { return CallSpec{Op: op, K: k, V: v} }
	var battery []prog2
	five := []string{"Load", "Store", "LoadOrStore", "LoadAndDelete", "Delete"}
	var seconds []CallSpec
	for _, ob := range five {
		seconds = append(seconds, mk(ob, 0, 60))
	}
	seconds = append(seconds, CallSpec{Op: "Range"}, CallSpec{Op: "Range", N: 1}, CallSpec{Op: "Range", N: 2})
	for _, oa := range five {
		for _, sb := range seconds {
			battery = append(battery, prog2{a: []CallSpec{mk(oa, 0, 50)}, b: []CallSpec{sb}})
			battery = append(battery, prog2{a: []CallSpec{mk(oa, 2, 50)}, b: []CallSpec{sb, mk("Load", 2, 0)}})
		}
	}
	// CAS loops: the second goroutine changes key 0's entry twice (value, then nil again) while the first one sits
	// between a load and its CAS: second iteration of tryLoadOrStore's / tryExpungeLocked's loop (layouts with a nil
	// entry for key 0), retries of tryStore and entry.delete
	for _, oa := range []CallSpec{mk("LoadOrStore", 0, 50), mk("Store", 2, 50), mk("LoadOrStore", 2, 50), mk("Store", 0, 50), mk("LoadAndDelete", 0, 0), mk("Delete", 0, 0)} {
		battery = append(battery, prog2{a: []CallSpec{oa}, b: []CallSpec{mk("Store", 0, 60), mk("Delete", 0, 0)}})
		battery = append(battery, prog2{a: []CallSpec{oa}, b: []CallSpec{mk("LoadOrStore", 0, 60), mk("LoadAndDelete", 0, 0)}})
	}
	// value 0 (audit item P3): key 0 holds the int 0 (stored at the end of the set-up), the second goroutine stores 0
	// again - same value, new pointer - while the first one sits between its load and its CAS: the CAS must fail
	for _, oa := range []CallSpec{mk("Store", 0, 50), mk("LoadAndDelete", 0, 0), mk("Delete", 0, 0), mk("LoadOrStore", 0, 50), mk("Load", 0, 0)} {
		battery = append(battery, prog2{a: []CallSpec{oa}, b: []CallSpec{mk("Store", 0, 0), mk("Load", 0, 0)}, zero: true})
		battery = append(battery, prog2{a: []CallSpec{oa}, b: []CallSpec{mk("LoadAndDelete", 0, 0), mk("LoadOrStore", 0, 0)}, zero: true})
	}
	// a second turn of the loop in tryLoadOrStore / tryExpungeLocked needs the entry to change twice around the failing
	// CAS; with two goroutines that takes three pre-emptions, with three goroutines (one stores, one deletes) two
	for _, oa := range []CallSpec{mk("LoadOrStore", 0, 50), mk("Store", 2, 50)} {
		battery = append(battery, prog2{a: []CallSpec{oa}, b: []CallSpec{mk("Store", 0, 60)}, c: []CallSpec{mk("Delete", 0, 0)}})
	}
	maxPre := c.N(2, 3, 2)
	limit := c.N(1000, 1500, 600) // a cap only: the largest <= 2 pre-emption space of the battery has about 650 schedules
	nlay := 7
	emitEvery, emitCount = c.N(60, 60, 1), 0 // all explored schedules go through the oracle, one in 60 (and every run with a rarely replayed label) through the model
	for _, b := range battery {
		for lay := 0; lay < nlay; lay++ {
			cs := Case{Prefix: layout(c, lay), Progs: [][]CallSpec{b.a, b.b}, Kind: fmt.Sprintf("explore_l%d", lay)}
			if b.c != nil {
				cs.Progs = append(cs.Progs, b.c)
			}
			if b.zero {
				cs.Prefix = append(append([]CallSpec{}, cs.Prefix...), mk("Store", 0, 0))
				cs.Kind = fmt.Sprintf("explore_zero_l%d", lay)
			}
			c.Count("explore_programs")
			n := exploreCase(c, cs, maxPre, limit)
			if n > c.Stats["explore_max_schedules_of_one_program"] {
				c.Stats["explore_max_schedules_of_one_program"] = n
			}
			if n >= limit {
				c.Count("explore_programs_cut_at_limit") // the <= maxPre pre-emption space of this program was NOT enumerated completely
			}
		}
	}
	emitEvery = 1
	if n := c.Stats["explore_programs_cut_at_limit"]; n > 0 {
		c.Note(fmt.Sprintf("exploration: %d of %d (program, layout) pairs reached the limit of %d schedules before their <= %d pre-emption space was exhausted", n, c.Stats["explore_programs"], limit, maxPre))
	} else {
		c.Note(fmt.Sprintf("exploration: the <= %d pre-emption schedule space of all %d (program, layout) pairs was enumerated completely (no pair reached the limit of %d schedules; largest space: %d schedules)", maxPre, c.Stats["explore_programs"], limit, c.Stats["explore_max_schedules_of_one_program"]))
	}
	// 3. random schedules of random 2-4 thread programs
	for i := c.N(400, 30000, 6000); i > 0; i-- {
		nt := 2 + c.Rng.Intn(3)
		progs := make([][]CallSpec, nt)
		for t := range progs {
			progs[t] = make([]CallSpec, 1+c.Rng.Intn(3))
			for j := range progs[t] {
				progs[t][j] = randCall(c, 3, 10)
			}
		}
		cs := Case{Prefix: layout(c, c.Rng.Intn(7)), Progs: progs, Kind: "random"}
		c.Pending(cs)
		r, info := execute(cs, sched.Random(c.Rng.Intn, 50))
		report(c, cs, r, info)
	}
	coverageReport(c, mapLabels)
}

// exploreCase enumerates, breadth-first by number of pre-emptions, schedules of the concurrent part;
// the set-up prefix runs alone first (thread 0 is forced while it still executes prefix calls).
//
// A schedule is explored by re-running the program along a prefix of thread choices taken from an earlier run and
// deviating at its end. The runs are not deterministic, though: dirtyLocked and Range iterate a Go map, whose order
// the runtime randomises on every iteration, so the re-run may process the keys in another order and the deviation
// would then land at a different point (and the point aimed at would never be visited). Therefore every run records,
// for each of its prefixes, a signature of the steps (goroutine, label, key) executed so far, and a re-run that does
// not reproduce the signature of the prefix it was derived from is repeated (a fresh iteration order each time) until
// it does, at most exploreTries times.
const exploreTries = 40

func exploreCase(c *core.Ctx, cs Case, maxPre, limit int) int {
	probe := Case{Prefix: cs.Prefix, Progs: [][]CallSpec{{}}, Kind: "probe"}
	r0, _ := execute(probe, sched.NonPreemptive)
	base := r0.Chosen
	sigs := map[uint64]uint64{} // hash of a prefix of choices -> hash of the steps executed along it (set-up excluded)
	const off, prime = 14695981039346656037, 1099511628211
	mix := func(h uint64, x int) uint64 { return (h ^ uint64(x+1)) * prime }
	stepSig := func(h uint64, s sched.Step) uint64 {
		h = mix(h, s.T)
		for i := 0; i < len(s.Label); i++ {
			h = mix(h, int(s.Label[i]))
		}
		return mix(h, s.Key)
	}
	return sched.ExploreBFS(func(prefix []int) sched.Result {
		var want uint64
		have := false
		if len(prefix) > len(base) {
			hc := uint64(off)
			for _, t := range prefix[:len(prefix)-1] {
				hc = mix(hc, t)
			}
			want, have = sigs[hc]
		}
		var r sched.Result
		var info *runInfo
		for try := 1; ; try++ {
			pc := cs
			pc.Choices = prefix
			c.Pending(pc) // if the run kills the process, this is the failing input
			r, info = execute(cs, sched.Prefix(prefix))
			if !have {
				break
			}
			hs := uint64(off)
			for j := len(base); j < len(prefix)-1 && j < len(r.Steps); j++ {
				hs = stepSig(hs, r.Steps[j])
			}
			if hs == want {
				break
			}
			if try >= exploreTries {
				c.Count("explore_runs_that_did_not_reproduce_their_prefix")
				break
			}
			c.Count("explore_reruns_for_map_iteration_order")
		}
		report(c, cs, r, info)
		hc, hs := uint64(off), uint64(off)
		for j := 0; j < len(r.Steps) && j < len(r.Chosen); j++ {
			if j >= len(base) {
				sigs[hc] = hs // the steps before step j, for children that deviate at step j
				hs = stepSig(hs, r.Steps[j])
			}
			hc = mix(hc, r.Chosen[j])
		}
		return r
	}, base, maxPre, limit, func(sched.Result) {})
}

func has(s []int, x int) bool {
	for _, v := range s {
		if v == x {
			return true
		}
	}
	return false
}
