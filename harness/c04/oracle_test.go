package c04

// Self-test of the direct oracle on hand-made histories (no sync2.Map involved): run with
//   cd /verif/harness && go test -modfile /verif/work/go-C04.mod -tags verif ./c04
// Each history is a list of calls with the thread, the number of atomic steps and the result; calls are laid out
// in the order given, `par` calls are interleaved step by step with the previous call.

import (
	"strings"
	"testing"

	"verif/harness/core"
	"verif/harness/sched"
)

type hcall struct {
	t     int
	spec  CallSpec
	rv    int
	rok   bool
	pairs [][2]int
	steps int
	par   bool // overlaps the previous call (steps alternate)
}

func build(nthreads int, calls []hcall, final [][2]int) (Case, sched.Result, *runInfo) {
	cs := Case{Progs: make([][]CallSpec, nthreads), Kind: "selftest"}
	info := &runInfo{calls: make([][]*callInfo, nthreads), final: final}
	var r sched.Result
	var cis []*callInfo
	for i := 0; i < len(calls); i++ {
		group := []int{i}
		for i+1 < len(calls) && calls[i+1].par {
			i++
			group = append(group, i)
		}
		left := make([]int, len(group))
		gci := make([]*callInfo, len(group))
		for j, g := range group {
			h := calls[g]
			left[j] = h.steps
			gci[j] = &callInfo{spec: h.spec, t: h.t, rv: h.rv, rok: h.rok, pairs: h.pairs}
			cs.Progs[h.t] = append(cs.Progs[h.t], h.spec)
			info.calls[h.t] = append(info.calls[h.t], gci[j])
			cis = append(cis, gci[j])
		}
		for more := true; more; {
			more = false
			for j, g := range group {
				if left[j] > 0 {
					r.Steps = append(r.Steps, sched.Step{T: calls[g].t, Label: "E_load"})
					left[j]--
					if left[j] == 0 {
						gci[j].endAt = len(r.Steps)
					} else {
						more = true
					}
				}
			}
		}
	}
	return cs, r, info
}

func TestOracle(t *testing.T) {
	c := core.NewCtx(core.Props["C04"], "quick", 1, t.TempDir())
	S := func(k, v int) CallSpec { return CallSpec{Op: "Store", K: k, V: v} }
	R := CallSpec{Op: "Range"}
	tests := []struct {
		name   string
		n      int
		calls  []hcall
		final  [][2]int
		expect string // substring of the oracle's message, "" = accepted
	}{
		{"range sees current value", 2, []hcall{{t: 0, spec: S(0, 5), steps: 3}, {t: 0, spec: S(0, 6), steps: 3}, {t: 1, spec: R, pairs: [][2]int{{0, 6}}, steps: 4}}, [][2]int{{0, 6}}, ""},
		{"range reports a value overwritten before it began (audit H2)", 2, []hcall{{t: 0, spec: S(0, 5), steps: 3}, {t: 0, spec: S(0, 6), steps: 3}, {t: 1, spec: R, pairs: [][2]int{{0, 5}}, steps: 4}}, [][2]int{{0, 6}}, "did not hold at any moment"},
		{"range overlapping the overwrite may report either", 2, []hcall{{t: 0, spec: S(0, 5), steps: 3}, {t: 0, spec: S(0, 6), steps: 3}, {t: 1, spec: R, pairs: [][2]int{{0, 5}}, steps: 4, par: true}}, [][2]int{{0, 6}}, ""},
		{"range reports a value stored only after it ended", 2, []hcall{{t: 0, spec: S(0, 5), steps: 3}, {t: 1, spec: R, pairs: [][2]int{{0, 6}}, steps: 4}, {t: 0, spec: S(0, 6), steps: 3}}, [][2]int{{0, 6}}, "did not hold at any moment"},
		{"range misses an untouched key whose set-up calls overlapped (audit H3)", 3, []hcall{{t: 0, spec: S(0, 5), steps: 3}, {t: 2, spec: S(1, 7), steps: 3, par: true}, {t: 1, spec: R, pairs: [][2]int{{0, 5}}, steps: 4}}, [][2]int{{0, 5}, {1, 7}}, "Range missed key 1"},
		{"range may miss a key written during the call", 3, []hcall{{t: 0, spec: S(0, 5), steps: 3}, {t: 1, spec: R, pairs: [][2]int{{0, 5}}, steps: 4}, {t: 2, spec: S(1, 7), steps: 3, par: true}}, [][2]int{{0, 5}, {1, 7}}, ""},
		{"range misses a key that is only being loaded during the call", 3, []hcall{{t: 0, spec: S(0, 5), steps: 3}, {t: 0, spec: S(1, 7), steps: 3}, {t: 1, spec: R, pairs: [][2]int{{0, 5}}, steps: 4}, {t: 2, spec: CallSpec{Op: "Load", K: 1}, rv: 7, rok: true, steps: 2, par: true}}, [][2]int{{0, 5}, {1, 7}}, "Range missed key 1"},
		{"stopped range need not be complete", 2, []hcall{{t: 0, spec: S(0, 5), steps: 3}, {t: 0, spec: S(1, 7), steps: 3}, {t: 1, spec: CallSpec{Op: "Range", N: 1}, pairs: [][2]int{{1, 7}}, steps: 4}}, [][2]int{{0, 5}, {1, 7}}, ""},
		{"stopped range called again", 2, []hcall{{t: 0, spec: S(0, 5), steps: 3}, {t: 0, spec: S(1, 7), steps: 3}, {t: 1, spec: CallSpec{Op: "Range", N: 1}, pairs: [][2]int{{1, 7}, {0, 5}}, steps: 4}}, [][2]int{{0, 5}, {1, 7}}, "although it returned false"},
		{"key twice", 2, []hcall{{t: 0, spec: S(0, 5), steps: 3}, {t: 1, spec: R, pairs: [][2]int{{0, 5}, {0, 5}}, steps: 4}}, [][2]int{{0, 5}}, "twice"},
		{"two overlapping ranges that see different states", 3, []hcall{
			{t: 0, spec: S(0, 5), steps: 2}, {t: 0, spec: S(1, 5), steps: 2},
			// Store(0,6) and Store(1,6) run concurrently with two Ranges; one sees (0 new, 1 old), the other (0 old, 1 new): each alone is fine, and so are both together (the stores are concurrent with both)
			{t: 0, spec: S(0, 6), steps: 4}, {t: 1, spec: R, pairs: [][2]int{{0, 6}, {1, 5}}, steps: 4, par: true}, {t: 2, spec: R, pairs: [][2]int{{0, 5}, {1, 5}}, steps: 4, par: true},
		}, [][2]int{{0, 6}, {1, 5}}, ""},
		{"lost update", 2, []hcall{{t: 0, spec: S(0, 5), steps: 3}, {t: 1, spec: S(0, 6), steps: 3}}, [][2]int{{0, 5}}, "not linearizable"},
	}
	for _, tc := range tests {
		cs, r, info := build(tc.n, tc.calls, tc.final)
		c.Begin(cs)
		got := oracle(c, cs, r, info)
		t.Logf("%s: %q", tc.name, got)
		if (tc.expect == "") != (got == "") || !strings.Contains(got, tc.expect) {
			t.Errorf("%s: oracle said %q, expected %q", tc.name, got, tc.expect)
		}
	}
	if len(c.Blind) != 0 {
		t.Errorf("unobservable: %v", c.Blind)
	}
}
