"""Per-property static information for bin/check and bin/mkmanifest, loaded from bin/props/<ID>.json.

Keys of each file: module (Coq module with [case]/[check_case]), rule (how cases are generated, what makes one
non-trivial/distinct), assumptions (what is assumed / not carried by the proof), level_text, technique, design_ref,
extra_trusted (additions to the common trusted base), optional harness_timeout (s), race (bool: also run the -race binary).
"""
import json, os, glob

KERNEL = "Coq 8.16.1 kernel (coqc; vm_compute used for closed computations and for evaluating the model on the harness cases; native_compute not used)"
TIE = ("hand transcription Go->Gallina, tied to /repo by the correspondence check: Go harness (module replace => /repo, "
       "rebuilt on every run) + coqc evaluation of the model on the same inputs (bin/check, harness/)")
GO = "Go 1.23.5 compiler and runtime, linux/amd64 (int = 64 bit)"
NOAX = "axioms: none (every Print Assumptions reports 'Closed under the global context')"

PROPS = {}
for f in sorted(glob.glob(os.path.join(os.path.dirname(os.path.abspath(__file__)), "props", "C*.json"))):
    d = json.load(open(f))
    d["trusted_base"] = [KERNEL, NOAX, TIE, GO] + list(d.get("extra_trusted", []))
    PROPS[os.path.basename(f)[:-5]] = d
