"""Static per-property information used by bin/check for the evidence files."""

KERNEL = "Coq 8.16.1 kernel (coqc; vm_compute used for closed computations and for evaluating the model on the harness cases; native_compute not used)"
TIE = ("hand transcription Go->Gallina, tied to /repo by the correspondence check: Go harness (module replace => /repo, "
       "rebuilt on every run) + coqc evaluation of the model on the same inputs (bin/check, harness/)")
GO = "Go 1.23.5 compiler and runtime, linux/amd64 (int = 64 bit)"
NOAX = "axioms: none (every Print Assumptions reports 'Closed under the global context')"


def P(module, rule, assumptions, extra_trusted=(), level="", technique="", design_ref="", **kw):
    d = dict(module=module, rule=rule, assumptions=list(assumptions), level_text=level, technique=technique,
             design_ref=design_ref, trusted_base=[KERNEL, NOAX, TIE, GO] + list(extra_trusted))
    d.update(kw)
    return d


PROPS = {
    "C13": P("Slices.PartitionCheck",
             "cases = (function, input slice, size); exhaustive over n<=24 (quick) / 48 (thorough), size 1..n+2, 6 functions, "
             "plus random slices up to 300/2000 elements with repeated values; non-trivial = more than one piece and a remainder "
             "(n > size > 1, n mod size != 0); distinct = distinct (fn,input,size) triples",
             ["size <= 0 is outside the property (size 0 panics with a division by zero in Chunk, modelled; negative sizes not modelled)",
              "that the returned pieces are sub-slices sharing memory with the input is not modelled (value model of slices)"],
             level="Coq theorems for every element type, every list and every size >= 1: the transcribed loops of Chunk/ChunkFunc/"
                   "Windowed/WindowedFunc/Pairs/PairsFunc compute closed-form reference partitions, whose concatenation, count "
                   "(ceil(n/size)), piece lengths and non-emptiness are proved; model tied to the code by exhaustive small-scope + "
                   "random differential runs evaluated with vm_compute, and a direct oracle on the implementation",
             technique="Coq proof by induction on loop iterations over a Gallina transcription; vm_compute correspondence check",
             design_ref="6/C13"),
}
