(* C11 — Bimap keeps its two directions mutually inverse.
   Statements only; every proof is [exact] of a lemma from Maps/BimapProofs.v.

   Quantifiers: every history [ops] (any length) of Add / RemoveForward /
   RemoveReverse / Clear / Clone over arbitrary integer keys and values, starting
   from one zero-value Bimap (handle 0; every Clone appends a handle), every
   handle h of the resulting state, every key and value, every callback, and
   every order in which Go's range statement may produce the keys.
   [run ops = Ok st] holds exactly for the histories that only name existing
   handles (C11_no_panic); [abs b] is the set of pairs of b (its forward map). *)
From Typ Require Import Lib.Base Maps.BimapCheck Maps.Bimap Maps.BimapProofs.
Local Open Scope Z_scope.

(* No operation of a history ever panics (in particular no write to the nil
   maps of the zero value): a history fails only by naming a handle that does
   not exist, which is not a Go program. *)
Theorem C11_no_panic : forall ops,
  (wf_ops ops = true -> exists st, run ops = Ok st) /\
  (wf_ops ops = false -> run ops = Panic OtherPanic) /\
  (forall st, run ops = Ok st -> wf_ops ops = true).
Proof. exact run_total. Qed.
Print Assumptions C11_no_panic.

(* The two directions are inverse of each other after every history. *)
Theorem C11_inverse : forall ops st h b,
  run ops = Ok st -> st !! h = Some b ->
  forall k v, GetForward b k = (v, true) <-> GetReverse b v = (k, true).
Proof. exact run_inverse. Qed.
Print Assumptions C11_inverse.

(* Refinement: the pair sets of all handles are what the reference computes
   (Add k v = delete the pair with key k, delete the pair with value v, insert
   (k,v); RemoveForward / RemoveReverse delete the pair with that key / value;
   Clear empties; Clone copies), and each of them is injective. *)
Theorem C11_refines : forall ops st,
  run ops = Ok st ->
  Forall inv st /\ spec_run ops = Some (abs <$> st) /\ Forall injective (abs <$> st).
Proof. exact run_refines. Qed.
Print Assumptions C11_refines.

(* The reference operations, read pointwise: what Add evicts and keeps ... *)
Theorem C11_spec_add : forall (m : gmap Z Z) k v k' v',
  spec_add k v m !! k' = Some v' <->
  (k' = k /\ v' = v) \/ (k' <> k /\ v' <> v /\ m !! k' = Some v').
Proof. exact spec_add_lookup. Qed.
Print Assumptions C11_spec_add.

(* ... and what RemoveReverse removes (RemoveForward is [delete k]). *)
Theorem C11_spec_remove_value : forall (m : gmap Z Z) v k' v',
  spec_remove_value v m !! k' = Some v' <-> m !! k' = Some v' /\ v' <> v.
Proof. exact spec_remove_value_lookup. Qed.
Print Assumptions C11_spec_remove_value.

(* Every reachable reference state is injective (stated on the reference alone). *)
Theorem C11_spec_injective : forall ops sp, spec_run ops = Some sp -> Forall injective sp.
Proof. exact spec_run_injective. Qed.
Print Assumptions C11_spec_injective.

(* The effect of each operation, in terms of the observers only and at full
   strength (what changes, and that nothing else does; [st' = <[h:=b']> st]
   says that every other handle is untouched).
   Add(k,v): k now maps to v and v to k; a key that was paired with v and a
   value that was paired with k lose their pair; everything else is as before. *)
Theorem C11_add_effect : forall ops h k v st',
  run (ops ++ [OAdd h k v]) = Ok st' ->
  exists st b b', run ops = Ok st /\ st !! h = Some b /\ st' = <[h:=b']> st /\ st' !! h = Some b' /\
  (forall k', GetForward b' k' =
     if decide (k' = k) then (v, true)
     else if decide (GetForward b k' = (v, true)) then (0, false) else GetForward b k') /\
  (forall v', GetReverse b' v' =
     if decide (v' = v) then (k, true)
     else if decide (GetReverse b v' = (k, true)) then (0, false) else GetReverse b v').
Proof. exact run_add_effect. Qed.
Print Assumptions C11_add_effect.

(* RemoveForward(k) deletes the whole pair of k from both directions, nothing else. *)
Theorem C11_remove_forward_effect : forall ops h k st',
  run (ops ++ [ORemoveForward h k]) = Ok st' ->
  exists st b b', run ops = Ok st /\ st !! h = Some b /\ st' = <[h:=b']> st /\ st' !! h = Some b' /\
  (forall k', GetForward b' k' = if decide (k' = k) then (0, false) else GetForward b k') /\
  (forall v', GetReverse b' v' = if decide (GetReverse b v' = (k, true)) then (0, false) else GetReverse b v').
Proof. exact run_remove_forward_effect. Qed.
Print Assumptions C11_remove_forward_effect.

(* RemoveReverse(v) deletes the whole pair of v from both directions, nothing else. *)
Theorem C11_remove_reverse_effect : forall ops h v st',
  run (ops ++ [ORemoveReverse h v]) = Ok st' ->
  exists st b b', run ops = Ok st /\ st !! h = Some b /\ st' = <[h:=b']> st /\ st' !! h = Some b' /\
  (forall v', GetReverse b' v' = if decide (v' = v) then (0, false) else GetReverse b v') /\
  (forall k', GetForward b' k' = if decide (GetForward b k' = (v, true)) then (0, false) else GetForward b k').
Proof. exact run_remove_reverse_effect. Qed.
Print Assumptions C11_remove_reverse_effect.

(* Clear leaves no pair in either direction. *)
Theorem C11_clear_effect : forall ops h st',
  run (ops ++ [OClear h]) = Ok st' ->
  exists st b b', run ops = Ok st /\ st !! h = Some b /\ st' = <[h:=b']> st /\ st' !! h = Some b' /\
  (forall k', GetForward b' k' = (0, false)) /\ (forall v', GetReverse b' v' = (0, false)) /\ Len (Some b') = 0.
Proof. exact run_clear_effect. Qed.
Print Assumptions C11_clear_effect.

(* Every observer of every handle agrees with the reference state m of that
   handle: GetForward is the look-up in m (zero value and false when absent),
   GetReverse v finds the unique key paired with v (zero and false when there is
   none), Contains* are the ok results, Len is the number of pairs, and the
   reverse map has as many entries as the forward map. *)
Theorem C11_observers : forall ops st h b,
  run ops = Ok st -> st !! h = Some b ->
  exists sp m, spec_run ops = Some sp /\ sp !! h = Some m /\ injective m /\ m = abs b /\
    (forall k, GetForward b k = match m !! k with Some v => (v, true) | None => (0, false) end) /\
    (forall k, ContainsForward b k = bool_decide (is_Some (m !! k))) /\
    (forall v k, GetReverse b v = (k, true) <-> m !! k = Some v) /\
    (forall v, GetReverse b v = (0, false) \/ exists k, GetReverse b v = (k, true)) /\
    (forall v, ContainsReverse b v = true <-> exists k, m !! k = Some v) /\
    (forall v, ContainsReverse b v = snd (GetReverse b v)) /\
    Len (Some b) = Z.of_nat (size m) /\
    map_len (reverse b) = map_len (forward b).
Proof. exact observers. Qed.
Print Assumptions C11_observers.

(* Range, for every Bimap value (reachable or not) and every order in which the
   range statement may produce the keys of the forward map: the callback is called on a list ps of pairs, in turn, until
   it returns false ([visit]); ps lists the pair set without repetition
   (a permutation of [map_to_list], which has no duplicates) in that order. *)
Theorem C11_range : forall b order,
  order ≡ₚ map_keys (forward b) ->
  exists ps, ps.*1 = order /\ ps ≡ₚ map_to_list (abs b) /\
    forall T (f : T -> Z -> Z -> T * bool) s, Range b order f s = visit ps f s.
Proof. exact Range_spec. Qed.
Print Assumptions C11_range.

(* the keys the range statement produces are the keys of the pair set *)
Theorem C11_range_keys : forall b, map_keys (forward b) = (map_to_list (abs b)).*1.
Proof. exact map_keys_abs. Qed.
Print Assumptions C11_range_keys.

(* A callback that never returns false is called with every pair exactly once,
   whatever its state and whatever the order. *)
Theorem C11_range_exactly_once : forall b order T (f : T -> Z -> Z -> T * bool) s,
  order ≡ₚ map_keys (forward b) ->
  (forall s k v, snd (f s k v) = true) ->
  fst (Range b order (recording f) ([], s)) ≡ₚ map_to_list (abs b) /\
  (fst (Range b order (recording f) ([], s))).*1 = order.
Proof. exact Range_exactly_once. Qed.
Print Assumptions C11_range_exactly_once.

(* Whatever the callback does, the calls it receives are an initial segment of
   such an enumeration (so: no pair twice, only pairs of the Bimap), and
   recording the calls does not change the outcome. *)
Theorem C11_range_prefix : forall b order T (f : T -> Z -> Z -> T * bool) s,
  order ≡ₚ map_keys (forward b) ->
  exists ps n, ps.*1 = order /\ ps ≡ₚ map_to_list (abs b) /\
    fst (Range b order (recording f) ([], s)) = take n ps /\
    snd (Range b order (recording f) ([], s)) = Range b order f s.
Proof. exact Range_prefix. Qed.
Print Assumptions C11_range_prefix.

(* Range stops at the first false: a callback that returns false exactly on the
   pair (k,v) is called on the pairs before it and on it, never after it. *)
Theorem C11_range_stops : forall b order T (f : T -> Z -> Z -> T * bool) s k v,
  order ≡ₚ map_keys (forward b) ->
  abs b !! k = Some v ->
  (forall s k' v', (k', v') <> (k, v) -> snd (f s k' v') = true) ->
  (forall s, snd (f s k v) = false) ->
  exists ps1 ps2, (ps1 ++ (k, v) :: ps2).*1 = order /\ ps1 ++ (k, v) :: ps2 ≡ₚ map_to_list (abs b) /\
    fst (Range b order (recording f) ([], s)) = ps1 ++ [(k, v)].
Proof. exact Range_stop. Qed.
Print Assumptions C11_range_stops.

(* Clone: the new handle reads exactly like its source (same pair set, hence by
   C11_observers / C11_range the same answers), satisfies the invariant, and
   owns allocated maps even when the source is the zero value. *)
Theorem C11_clone_copy : forall ops h st',
  run (ops ++ [OClone h]) = Ok st' ->
  exists st b c, run ops = Ok st /\ st !! h = Some b /\ st' = st ++ [c] /\
    inv c /\ abs c = abs b /\ forward c <> None.
Proof. exact run_clone. Qed.
Print Assumptions C11_clone_copy.

(* Frame fact OF THE VALUE MODEL (not a proof that the real Clone is
   independent): in the model a state is a list of Bimap VALUES, so an
   operation on one handle rewrites one list index and cannot touch another;
   hence whatever is done later to other handles — to clones of h, to the
   original h was cloned from, cloning h itself — leaves handle h the same value
   and all its observations unchanged. This is close to definitional: the
   model cannot express two handles sharing a Go map, so the clause "Clone is
   independent of the original" of the property is NOT established by this
   theorem for the real code. It is established by the harness only, which
   re-reads all handles and compares each with its own reference — after every
   operation in the exhaustive, random, unusual-int and small typed streams, at
   the end of every script phase in the large-Bimap and large typed streams —
   so that a Clone sharing a map with its receiver shows up as a changed
   observation of the other handle. What IS proved about
   Clone is C11_clone_copy: the copy reads like its source and its two maps are
   allocated by maps.Clone's make, never the receiver's fields. *)
Theorem C11_frame_value_model : forall ops1 ops2 st1 st2 h,
  run ops1 = Ok st1 -> run (ops1 ++ ops2) = Ok st2 -> (h < length st1)%nat ->
  Forall (fun o => op_target o <> Some h) ops2 -> st2 !! h = st1 !! h.
Proof. exact run_frame. Qed.
Print Assumptions C11_frame_value_model.

(* The loops of maps.Clear and maps.Clone give the same result for every order
   in which their range statements produce the keys. *)
Theorem C11_iteration_order_irrelevant : forall b order_f order_r,
  order_f ≡ₚ map_keys (forward b) -> order_r ≡ₚ map_keys (reverse b) ->
  Clear_order order_f order_r b = Clear b /\ Clone_order order_f order_r b = Clone b.
Proof. exact order_irrelevant. Qed.
Print Assumptions C11_iteration_order_irrelevant.

(* Non-vacuity: a history with all collision patterns (fresh pair, same pair,
   same key, same value, an Add evicting two different pairs), a clone, removals
   on the clone and Clear + Add on the original, evaluated. *)
Definition C11_example_ops : list op :=
  [OAdd 0 0 0; OAdd 0 1 1; OAdd 0 2 2; OAdd 0 3 3;   (* fresh pairs on the zero value *)
   OAdd 0 0 0;                                        (* the same pair again *)
   OAdd 0 1 0;                                        (* key 1 was with 1, value 0 was with 0: two pairs evicted *)
   OAdd 0 2 1;                                        (* same key 2, free value 1 *)
   OAdd 0 0 3;                                        (* free key 0, same value 3: (3,3) evicted *)
   OClone 0;
   ORemoveForward 1 2; ORemoveReverse 1 3; ORemoveReverse 1 2;
   OClear 0; OAdd 0 3 3].

Example C11_example :
  wf_ops C11_example_ops = true /\
  (do st <- run (firstn 8 C11_example_ops); Ok (map (fun b => map_to_list (abs b)) st)) = Ok [[(0, 3); (1, 0); (2, 1)]] /\
  (do st <- run C11_example_ops;
   Ok (map (fun b => (map (GetForward b) [0; 1; 2; 3], map (GetReverse b) [0; 1; 2; 3], Len (Some b))) st)) =
  Ok [([(0, false); (0, false); (0, false); (3, true)], [(0, false); (0, false); (0, false); (3, true)], 1);
      ([(0, false); (0, true); (0, false); (0, false)], [(1, true); (0, false); (0, false); (0, false)], 1)] /\
  (do st <- run (firstn 9 C11_example_ops);
   Ok (map (fun b => fst (Range b [2; 0; 1] (recording (fun (n : Z) _ _ => (n + 1, n + 1 <? 2))) ([], 0))) st)) =
  Ok [[(2, 1); (0, 3)]; [(2, 1); (0, 3)]].
Proof. vm_compute. repeat split. Qed.

(* The correspondence check itself is not vacuous: it accepts a correct
   recorded observation and rejects one with a single wrong entry, and a
   stopped Range that was handed the same pair twice. *)
Example C11_check_case_discriminates :
  let good := Obs [ZB 0 false; ZB 0 true] [ZB 1 true; ZB 0 false] [false; true] [true; false] 1 [ZZ 1 0] 1 [ZZ 1 0] in
  let bad := Obs [ZB 0 false; ZB 0 true] [ZB 0 false; ZB 0 false] [false; true] [true; false] 1 [ZZ 1 0] 1 [ZZ 1 0] in
  check_case (Case [0; 1] 0 [] [St (CAdd 0 1 0) [H 0 good]] [St (CClear 0) []; St (CAdd 0 1 0) [H 0 good]]) = true /\
  check_case (Case [0; 1] 0 [] [St (CAdd 0 1 0) [H 0 bad]] []) = false /\
  check_case (Case [0; 1] 0 [] [] [St (CAdd 0 1 0) [H 0 good]; St (CAdd 0 1 0) [H 0 bad]]) = false /\
  (let two stopped := Obs [ZB 0 true; ZB 1 true] [ZB 0 true; ZB 1 true] [true; true] [true; true] 2 [ZZ 0 0; ZZ 1 1] 2 stopped in
   check_case (Case [0; 1] 0 [] [St (CAdd 0 0 0) []; St (CAdd 0 1 1) [H 0 (two [ZZ 1 1; ZZ 0 0])]] []) = true /\
   check_case (Case [0; 1] 0 [] [St (CAdd 0 0 0) []; St (CAdd 0 1 1) [H 0 (two [ZZ 0 0; ZZ 0 0])]] []) = false).
Proof. vm_compute. repeat split. Qed.
