(* C13 — Chunk, Windowed and Pairs partition a slice exactly.
   Statements only; every proof is [exact] of a lemma from
   Slices/PartitionProofs.v. Quantifiers: every element type, every list,
   every size >= 1 (no bound). Sizes < 1 are outside the property: no theorem
   covers them and the correspondence check rejects them (see the last Example). *)
From Typ Require Import Lib.Base Slices.Partition Slices.PartitionCheck Slices.PartitionProofs.

(* ceil(n/size) *)
Theorem C13_cdiv_is_ceiling : forall n size, 1 <= size ->
  cdiv n size * size < n + size /\ n <= cdiv n size * size.
Proof. exact cdiv_bounds. Qed.
Print Assumptions C13_cdiv_is_ceiling.

(* Chunk returns the reference chunks ... *)
Theorem C13_chunk : forall (A : Type) (l : list A) (size : nat), 1 <= size ->
  chunk l size = Ok (chunk_ref l size).
Proof. exact @chunk_correct. Qed.
Print Assumptions C13_chunk.

(* ... whose concatenation is the input, ... *)
Theorem C13_chunk_concat : forall (A : Type) (l : list A) (size : nat), 1 <= size ->
  concat (chunk_ref l size) = l.
Proof. exact @chunk_ref_concat. Qed.
Print Assumptions C13_chunk_concat.

(* ... of which there are ceil(n/size), ... *)
Theorem C13_chunk_count : forall (A : Type) (l : list A) (size : nat),
  length (chunk_ref l size) = cdiv (length l) size.
Proof. exact @chunk_ref_count. Qed.
Print Assumptions C13_chunk_count.

(* ... each non-empty, of length size except a possibly shorter last one. *)
Theorem C13_chunk_pieces : forall (A : Type) (l : list A) (size k : nat), 1 <= size -> k < cdiv (length l) size ->
  nth_error (chunk_ref l size) k = Some (piece l size k) /\
  length (piece l size k) = (if S k =? cdiv (length l) size then length l - k * size else size) /\
  1 <= length (piece l size k) <= size.
Proof. exact @chunk_ref_piece_length. Qed.
Print Assumptions C13_chunk_pieces.

Theorem C13_windowed : forall (A : Type) (l : list A) (size : nat),
  windowed l size = Ok (windowed_ref l size).
Proof. exact @windowed_correct. Qed.
Print Assumptions C13_windowed.

(* none when n < size *)
Theorem C13_windowed_none : forall (A : Type) (l : list A) (size : nat), length l < size ->
  windowed l size = Ok [] /\ windowedfunc l size = Ok [].
Proof. exact @windowed_none. Qed.
Print Assumptions C13_windowed_none.

(* n-size+1 windows, window i = l[i : i+size] *)
Theorem C13_windowed_windows : forall (A : Type) (l : list A) (size : nat), size <= length l ->
  length (windowed_ref l size) = length l - size + 1 /\
  forall i, i < length l - size + 1 ->
    nth_error (windowed_ref l size) i = Some (firstn size (skipn i l)) /\
    length (firstn size (skipn i l)) = size.
Proof. exact @windowed_ref_spec. Qed.
Print Assumptions C13_windowed_windows.

Theorem C13_pairs : forall (A : Type) (l : list A) (zero : A), pairs l zero = Ok (pairs_ref l).
Proof. exact @pairs_correct. Qed.
Print Assumptions C13_pairs.

Theorem C13_pairs_adjacent : forall (A : Type) (l : list A),
  length (pairs_ref l) = length l - 1 /\
  forall i a b, nth_error l i = Some a -> nth_error l (S i) = Some b -> nth_error (pairs_ref l) i = Some (a, b).
Proof. exact @pairs_ref_spec. Qed.
Print Assumptions C13_pairs_adjacent.

(* The ...Func variants call back with exactly the pieces the slice-returning variant returns. *)
Theorem C13_func_variants : forall (A : Type) (l : list A) (size : nat) (zero : A),
  (1 <= size -> chunkfunc l size = chunk l size) /\
  windowedfunc l size = windowed l size /\
  pairsfunc l = pairs l zero.
Proof.
  exact (fun A l size zero => conj
    (fun H => eq_trans (chunkfunc_correct l size H) (eq_sym (chunk_correct l size H)))
    (conj (eq_trans (windowedfunc_correct l size) (eq_sym (windowed_correct l size)))
          (eq_trans (pairsfunc_correct l) (eq_sym (pairs_correct l zero))))).
Qed.
Print Assumptions C13_func_variants.

(* size > n: one chunk holding the whole input (none for the empty input) *)
Theorem C13_chunk_size_above_n : forall (A : Type) (l : list A) (size : nat), length l < size ->
  chunk l size = Ok (match l with [] => [] | _ :: _ => [l] end) /\
  chunkfunc l size = Ok (match l with [] => [] | _ :: _ => [l] end).
Proof. exact @chunk_size_above. Qed.
Print Assumptions C13_chunk_size_above_n.

(* Correspondence check only: replacing a size above n by n + 1 (what run_case does, so that a size
   like 2^63-1 is never built as a unary nat) does not change any model result. *)
Theorem C13_clamp_size : forall (A : Type) (l : list A) (z : Z),
  chunk l (Z.to_nat z) = chunk l (clamp_size l z) /\ chunkfunc l (Z.to_nat z) = chunkfunc l (clamp_size l z) /\
  windowed l (Z.to_nat z) = windowed l (clamp_size l z) /\ windowedfunc l (Z.to_nat z) = windowedfunc l (clamp_size l z).
Proof. exact @clamp_size_sound. Qed.
Print Assumptions C13_clamp_size.

(* Non-vacuity: the remainder case and size > n, evaluated. *)
Example C13_example :
  chunk [1;2;3;4;5]%Z 3 = Ok [[1;2;3];[4;5]]%Z /\ chunk [1;2]%Z 5 = Ok [[1;2]]%Z /\
  windowed [1;2;3;4]%Z 2 = Ok [[1;2];[2;3];[3;4]]%Z /\ pairs [1;2;3]%Z 0%Z = Ok [(1,2);(2,3)]%Z.
Proof. vm_compute. repeat split. Qed.

(* size > n and n < size instances of the two theorems above; the size of a MaxInt case is clamped *)
Example C13_example_size_above :
  windowed [1;2]%Z 3 = Ok [] /\ windowedfunc [1;2]%Z 3 = Ok [] /\
  chunk [1;2]%Z 3 = Ok [[1;2]]%Z /\ chunkfunc (@nil Z) 3 = Ok [] /\
  clamp_size [1;2]%Z 9223372036854775807%Z = 3.
Proof. vm_compute. repeat split. Qed.

(* Outside the property (size < 1): the model's size-0 branches as transcribed (no theorem uses them, and
   they are not compared with Go: the harness only counts whether Go agreed), and check_case rejects every
   case of a sized function with a size below 1 whatever was observed (Pairs/PairsFunc take no size: their
   cases are compared as usual whatever c_size holds). *)
Example C13_example_size_below_1 :
  chunk [1;2]%Z 0 = Panic DivByZero /\ chunk (@nil Z) 0 = Ok [] /\ windowed [1;2]%Z 0 = Ok [[];[];[]] /\
  check_case (Case FWindowed [1;2;3]%Z (-1)%Z (Ok [[];[];[];[]])) = false /\
  check_case (Case FWindowed [1;2;3]%Z (-1)%Z (Panic IndexOutOfRange)) = false /\
  check_case (Case FChunk [1;2]%Z 0%Z (Panic DivByZero)) = false /\
  check_case (Case FWindowed [1;2]%Z 0%Z (Ok [[];[];[]])) = false /\
  check_case (Case FWindowed [1;2]%Z 1%Z (Ok [[1];[2]]%Z)) = true /\
  check_case (Case FPairs [1;2;3]%Z 0%Z (Ok [[1;2];[2;3]]%Z)) = true /\
  check_case (Case FPairsFunc [1;2;3]%Z (-1)%Z (Ok [[1;2]]%Z)) = false.
Proof. vm_compute. repeat split. Qed.
