(* C12 — Slice splicing helpers equal the splice model for every index and capacity. *)
From Typ Require Import Lib.Base Slices.Splice Slices.SpliceProofs.

Theorem C12_append : forall (A : Type) growth (zero : A) (s : gslice A) (xs : list A), wf s ->
  append growth zero s xs =
  GS (visible s ++ xs ++ append_tail growth zero s (length xs)) (len s + length xs).
Proof. exact @append_spec. Qed.
Print Assumptions C12_append.
