(* C12 — Slice splicing helpers equal the splice model for every index and capacity.
   Statements only; every proof is [exact] of a lemma from
   Slices/SpliceProofs.v. Quantifiers: every element type, every backing array
   [arr s] (so every capacity and every garbage content of the spare capacity
   [skipn (len s) (arr s)]), every length [len s <= cap s] ([wf s]), every
   position, every inserted / removed length, every growth policy of append
   (no bound anywhere).

   Reading guide (definitions in Slices/Splice.v):
     visible s = firstn (len s) (arr s)            spare s = skipn (len s) (arr s)
     splice_in l i xs = firstn i l ++ xs ++ skipn i l
     splice_out l i k = firstn i l ++ skipn (i + k) l
     append_tail growth zero s k = what follows the k appended elements in the
       array append returns (C12_append_tail).
   Insert, InsertSlice, Remove, RemoveSlice return the final value of [*slice]
   and the outcome; the other functions return [Ok result] or [Panic]. *)
From Typ Require Import Lib.Base Slices.Splice Slices.SpliceProofs.

(* ---- the splice model itself: what is where afterwards ---- *)

Theorem C12_splice_in_elements : forall (A : Type) (l : list A) (i : nat) (xs : list A) (j : nat),
  i <= length l ->
  nth_error (splice_in l i xs) j =
  if j <? i then nth_error l j
  else if j <? i + length xs then nth_error xs (j - i)
  else nth_error l (j - length xs).
Proof. exact @splice_in_nth. Qed.
Print Assumptions C12_splice_in_elements.

Theorem C12_splice_out_elements : forall (A : Type) (l : list A) (i k j : nat),
  i + k <= length l ->
  nth_error (splice_out l i k) j = if j <? i then nth_error l j else nth_error l (j + k).
Proof. exact @splice_out_nth. Qed.
Print Assumptions C12_splice_out_elements.

(* MODEL PRIMITIVE (trusted append contract), not evidence for the property: C12_append and
   C12_append_tail only unfold the model's [append] (in place, rest of the spare capacity untouched,
   iff there is room; otherwise a new array, zero behind the appended elements). They are reading
   aids for the statements below; the contract itself is trusted Go runtime behaviour, compared
   with the real runtime by the harness. *)
Theorem C12_append : forall (A : Type) growth (zero : A) (s : gslice A) (xs : list A), wf s ->
  append growth zero s xs =
  GS (visible s ++ xs ++ append_tail growth zero s (length xs)) (len s + length xs).
Proof. exact @append_spec. Qed.
Print Assumptions C12_append.

Theorem C12_append_tail : forall (A : Type) growth (zero : A) (s : gslice A) (k : nat),
  (len s + k <= cap s -> append_tail growth zero s k = skipn (len s + k) (arr s)) /\
  (cap s < len s + k ->
     append_tail growth zero s k = repeat zero (new_cap growth (cap s) (len s + k) - (len s + k)) /\
     len s + k <= new_cap growth (cap s) (len s + k)).
Proof. exact @append_tail_cases. Qed.
Print Assumptions C12_append_tail.

(* Note on strength: the closed forms below describe the WHOLE backing array and the capacity.
   The property only fixes the visible part (the [..._visible] theorems, C12_fill, C12_reverse and the
   visible parts of C12_concat / C12_clone / C12_repeat / C12_grow). What the closed forms say in
   addition (in-place append, stale cells behind the new length after a removal, capacity = length of
   the Repeat / Concat / Clone results, the slice's state after a panicking Insert) is true of the
   transcribed code but is not required by the property and not part of the correspondence comparison.
   The inserted [vs] is a separate array: values aliasing the destination are excluded. *)

(* ---- Insert / InsertSlice: the whole resulting array, for every valid position ---- *)

Theorem C12_insert : forall (A : Type) growth (zero : A) (s : gslice A) (i : nat) (v : A),
  wf s -> i <= len s ->
  insert growth zero s (Z.of_nat i) v =
  (GS (splice_in (visible s) i [v] ++ append_tail growth zero s 1) (len s + 1), Ok tt).
Proof. exact @insert_correct. Qed.
Print Assumptions C12_insert.

Theorem C12_insert_slice : forall (A : Type) growth (zero : A) (s : gslice A) (i : nat) (vs : list A),
  wf s -> i <= len s ->
  insert_slice growth zero s (Z.of_nat i) vs =
  (GS (splice_in (visible s) i vs ++ append_tail growth zero s (length vs)) (len s + length vs), Ok tt).
Proof. exact @insert_slice_correct. Qed.
Print Assumptions C12_insert_slice.

(* the same, read as visible part / spare capacity of a well-formed slice *)
Theorem C12_insert_visible : forall (A : Type) growth (zero : A) (s : gslice A) (i : nat) (v : A),
  wf s -> i <= len s ->
  let r := fst (insert growth zero s (Z.of_nat i) v) in
  snd (insert growth zero s (Z.of_nat i) v) = Ok tt /\ wf r /\ len r = len s + 1 /\
  visible r = splice_in (visible s) i [v] /\ spare r = append_tail growth zero s 1.
Proof. exact @insert_visible. Qed.
Print Assumptions C12_insert_visible.

Theorem C12_insert_slice_visible : forall (A : Type) growth (zero : A) (s : gslice A) (i : nat) (vs : list A),
  wf s -> i <= len s ->
  let r := fst (insert_slice growth zero s (Z.of_nat i) vs) in
  snd (insert_slice growth zero s (Z.of_nat i) vs) = Ok tt /\ wf r /\ len r = len s + length vs /\
  visible r = splice_in (visible s) i vs /\ spare r = append_tail growth zero s (length vs).
Proof. exact @insert_slice_visible. Qed.
Print Assumptions C12_insert_slice_visible.

(* invalid positions panic, after the append: the slice is left grown by the appended value(s) *)
Theorem C12_insert_panics : forall (A : Type) growth (zero : A) (s : gslice A) (index : Z) (v : A),
  (index < 0 \/ Z.of_nat (len s) < index)%Z ->
  insert growth zero s index v = (append growth zero s [v], Panic IndexOutOfRange).
Proof. exact @insert_panics. Qed.
Print Assumptions C12_insert_panics.

Theorem C12_insert_slice_panics : forall (A : Type) growth (zero : A) (s : gslice A) (index : Z) (vs : list A),
  (index < 0 \/ Z.of_nat (len s) < index)%Z ->
  insert_slice growth zero s index vs = (append growth zero s vs, Panic IndexOutOfRange).
Proof. exact @insert_slice_panics. Qed.
Print Assumptions C12_insert_slice_panics.

(* ---- Remove / RemoveSlice: same array; behind the new length everything is as before ---- *)

Theorem C12_remove : forall (A : Type) (s : gslice A) (i : nat), wf s -> i < len s ->
  remove s (Z.of_nat i) =
  (GS (splice_out (visible s) i 1 ++ skipn (len s - 1) (arr s)) (len s - 1), Ok tt).
Proof. exact @remove_correct. Qed.
Print Assumptions C12_remove.

Theorem C12_remove_slice : forall (A : Type) (s : gslice A) (i k : nat), wf s -> i + k <= len s ->
  remove_slice s (Z.of_nat i) (Z.of_nat k) =
  (GS (splice_out (visible s) i k ++ skipn (len s - k) (arr s)) (len s - k), Ok tt).
Proof. exact @remove_slice_correct. Qed.
Print Assumptions C12_remove_slice.

Theorem C12_remove_visible : forall (A : Type) (s : gslice A) (i : nat), wf s -> i < len s ->
  let r := fst (remove s (Z.of_nat i)) in
  snd (remove s (Z.of_nat i)) = Ok tt /\ wf r /\ len r = len s - 1 /\ cap r = cap s /\
  visible r = splice_out (visible s) i 1 /\ spare r = skipn (len s - 1) (arr s).
Proof. exact @remove_visible. Qed.
Print Assumptions C12_remove_visible.

Theorem C12_remove_slice_visible : forall (A : Type) (s : gslice A) (i k : nat), wf s -> i + k <= len s ->
  let r := fst (remove_slice s (Z.of_nat i) (Z.of_nat k)) in
  snd (remove_slice s (Z.of_nat i) (Z.of_nat k)) = Ok tt /\ wf r /\ len r = len s - k /\ cap r = cap s /\
  visible r = splice_out (visible s) i k /\ spare r = skipn (len s - k) (arr s).
Proof. exact @remove_slice_visible. Qed.
Print Assumptions C12_remove_slice_visible.

(* invalid positions panic before anything is written: slice and array unchanged
   (RemoveSlice: for length >= 0; negative lengths are outside the property, no theorem) *)
Theorem C12_remove_panics : forall (A : Type) (s : gslice A) (index : Z),
  (index < 0 \/ Z.of_nat (len s) <= index)%Z ->
  remove s index = (s, Panic IndexOutOfRange).
Proof. exact @remove_panics. Qed.
Print Assumptions C12_remove_panics.

Theorem C12_remove_slice_panics : forall (A : Type) (s : gslice A) (index length : Z),
  (0 <= length)%Z -> (index < 0 \/ Z.of_nat (len s) < index + length)%Z ->
  remove_slice s index length = (s, Panic IndexOutOfRange).
Proof. exact @remove_slice_panics. Qed.
Print Assumptions C12_remove_slice_panics.

(* ---- Fill, Repeat, Reverse: in place, nothing beyond the length changes ---- *)

Theorem C12_fill : forall (A : Type) (s : gslice A) (v : A), wf s ->
  fill s v = Ok (GS (repeat v (len s) ++ skipn (len s) (arr s)) (len s)).
Proof. exact @fill_correct. Qed.
Print Assumptions C12_fill.

Theorem C12_repeat : forall (A : Type) (zero v : A) (count : nat),
  repeat_ zero v (Z.of_nat count) = Ok (GS (repeat v count) count).
Proof. exact @repeat_correct. Qed.
Print Assumptions C12_repeat.

Theorem C12_repeat_negative : forall (A : Type) (zero v : A) (count : Z), (count < 0)%Z ->
  repeat_ zero v count = Panic OtherPanic.
Proof. exact @repeat_panics. Qed.
Print Assumptions C12_repeat_negative.

Theorem C12_reverse : forall (A : Type) (s : gslice A), wf s ->
  reverse s = Ok (GS (rev (visible s) ++ skipn (len s) (arr s)) (len s)).
Proof. exact @reverse_correct. Qed.
Print Assumptions C12_reverse.

(* ---- Concat, Clone: a new array of exactly the needed capacity; Grow: append of n zero values ---- *)

Theorem C12_concat : forall (A : Type) (zero : A) (a b : gslice A), wf a -> wf b ->
  concat_ zero a b = Ok (GS (visible a ++ visible b) (len a + len b)).
Proof. exact @concat_correct. Qed.
Print Assumptions C12_concat.

Theorem C12_clone : forall (A : Type) (zero : A) (s : gslice A), wf s ->
  clone zero s = Ok (GS (visible s) (len s)).
Proof. exact @clone_correct. Qed.
Print Assumptions C12_clone.

Theorem C12_grow : forall (A : Type) growth (zero : A) (s : gslice A) (n : nat), wf s ->
  grow growth zero s (Z.of_nat n) =
  Ok (GS (visible s ++ repeat zero n ++ append_tail growth zero s n) (len s + n)).
Proof. exact @grow_correct. Qed.
Print Assumptions C12_grow.

Theorem C12_grow_negative : forall (A : Type) growth (zero : A) (s : gslice A) (n : Z), (n < 0)%Z ->
  grow growth zero s n = Panic OtherPanic.
Proof. exact @grow_panics. Qed.
Print Assumptions C12_grow_negative.

(* Non-vacuity: a slice [1;2;3] with two garbage cells of spare capacity (so wf, 1 <= len):
   insert in place, insert a slice with reallocation (growth policy "double"), removals that
   leave the stale tail in place, an invalid position, Fill across two doublings, Reverse. *)
Example C12_example :
  let s := GS [1;2;3;-7;-8]%Z 3 in
  let dbl := fun c _ : nat => 2 * c in
  wf s /\
  insert dbl 0%Z s 1 9%Z = (GS [1;9;2;3;-8]%Z 4, Ok tt) /\
  insert_slice dbl 0%Z s 1 [7;8;9]%Z = (GS [1;7;8;9;2;3;0;0;0;0]%Z 6, Ok tt) /\
  insert dbl 0%Z s 4 9%Z = (GS [1;2;3;9;-8]%Z 4, Panic IndexOutOfRange) /\
  remove s 0 = (GS [2;3;3;-7;-8]%Z 2, Ok tt) /\
  remove_slice s 1 2 = (GS [1;2;3;-7;-8]%Z 1, Ok tt) /\
  remove s 3 = (s, Panic IndexOutOfRange) /\
  fill (GS [1;2;3;4;5;-7]%Z 5) 6%Z = Ok (GS [6;6;6;6;6;-7]%Z 5) /\
  reverse s = Ok (GS [3;2;1;-7;-8]%Z 3) /\
  concat_ 0%Z s s = Ok (GS [1;2;3;1;2;3]%Z 6) /\
  grow dbl 0%Z s 2 = Ok (GS [1;2;3;0;0]%Z 5).
Proof. vm_compute. repeat split. apply le_S, le_S, le_n. Qed.
