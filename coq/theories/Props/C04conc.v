(* C04 (concurrent part) — invariants of sync2.Map over ALL interleavings.
   Statements only; every proof is [exact] of a theorem of SyncMap/Inv.v.
   Quantifiers: every list of instances (each with its zero-size flag, see
   cas_ok in SyncMap/Model.v: the theorems hold for both values of the flag),
   every list of programs (one per goroutine, any calls, any length), every
   schedule (list of (thread, iteration choice); entries that are not enabled
   are skipped), i.e. every reachable configuration of the small-step model
   SyncMap/Model.v. No bound. One of the files of property C04 (bin/props/
   C04.json, props_files): C04 (sequential), C04conc, C04refs, C04lin, C04range. *)
From Typ Require Import SyncMap.Model SyncMap.Inv.

(* ---- 1. lock discipline ---- *)
(* m.mu of instance j is held by t exactly when t's current frame works on j
   and is between the step after its *_lock and its *_unlock ([holder],
   [in_cs]: by program counter) ... *)
Theorem C04_mu_held_iff_in_critical_section : forall zs progs sched j i t,
  let c := run_schedule (init_config_z zs progs) sched in
  nth_error (c_insts c) j = Some i ->
  (i_mu i = Some t <-> holder c j t).
Proof. exact mu_held_iff_in_cs_z. Qed.
Print Assumptions C04_mu_held_iff_in_critical_section.

(* ... so at most one thread is inside the critical section of an instance. *)
Theorem C04_mutual_exclusion : forall zs progs sched j i t1 t2,
  let c := run_schedule (init_config_z zs progs) sched in
  nth_error (c_insts c) j = Some i -> holder c j t1 -> holder c j t2 -> t1 = t2.
Proof. exact mutual_exclusion_z. Qed.
Print Assumptions C04_mutual_exclusion.

(* Every step that changes m.dirty, m.misses, read.m or read.amended of an
   instance is taken by the thread that holds its mu: a step of a thread that
   does not hold it leaves all of them unchanged, allocates no entry, leaves
   the expunged status of every entry as it is, and at most acquires the free lock. *)
Theorem C04_lock_discipline : forall zs progs sched t ch c' j i i',
  let c := run_schedule (init_config_z zs progs) sched in
  step c t ch = Some c' -> nth_error (c_insts c) j = Some i -> nth_error (c_insts c') j = Some i' ->
  i_mu i <> Some t ->
  dirty (i_st i') = dirty (i_st i) /\ misses (i_st i') = misses (i_st i) /\
  read_m (i_st i') = read_m (i_st i) /\ amended (i_st i') = amended (i_st i) /\
  next_e (i_st i') = next_e (i_st i) /\
  (forall e, get_ent (i_st i') e = PExpunged <-> get_ent (i_st i) e = PExpunged) /\
  (i_mu i' = i_mu i \/ (i_mu i = None /\ i_mu i' = Some t)).
Proof. exact lock_discipline_z. Qed.
Print Assumptions C04_lock_discipline.

(* ---- 2. no panic ---- *)
(* Programs of Load / Store / LoadOrStore / LoadAndDelete / Delete / Range
   (with any callback, including the nested LoadOrStore / LoadAndDelete of
   Set.AddSet / RemoveSet) never panic: no assignment to a nil dirty map, no
   nil entry dereference. ([nopost] only excludes the keyed-mutex wrappers,
   whose Unlock of an unlocked mutex panics by design.) *)
Theorem C04_no_panic : forall zs progs sched,
  Forall (Forall nopost) progs -> c_panicked (run_schedule (init_config_z zs progs) sched) = false.
Proof. exact no_panic_z. Qed.
Print Assumptions C04_no_panic.

(* ---- 3. structure ---- *)
(* Whenever mu is free the read map, the dirty map and the entries satisfy WF:
   entry ids unique per key and allocated; no expunged entry in dirty; amended
   iff dirty non-nil; dirty nil => no expunged entry in read.m; dirty non-nil =>
   every entry of read.m is in dirty under the same key unless expunged, and
   then the key is absent from dirty. *)
Theorem C04_structure_when_unlocked : forall zs progs sched j i,
  let c := run_schedule (init_config_z zs progs) sched in
  nth_error (c_insts c) j = Some i -> i_mu i = None -> WF (i_st i).
Proof. exact structure_lock_free_z. Qed.
Print Assumptions C04_structure_when_unlocked.

(* While mu is held, the relaxation WFL indexed by the holder's pc holds
   (e.g. during dirtyLocked's loop only the visited keys are covered). *)
Theorem C04_structure_when_locked : forall zs progs sched j i t,
  let c := run_schedule (init_config_z zs progs) sched in
  nth_error (c_insts c) j = Some i -> i_mu i = Some t ->
  exists f, top_frame c t = Some f /\ call_inst (f_call f) = j /\ in_cs f = true /\ WFL (i_st i) f.
Proof. exact structure_locked_z. Qed.
Print Assumptions C04_structure_when_locked.

(* The part that is never suspended. *)
Theorem C04_structure_always : forall zs progs sched j i,
  let c := run_schedule (init_config_z zs progs) sched in
  nth_error (c_insts c) j = Some i -> WF_core (i_st i).
Proof. exact structure_always_z. Qed.
Print Assumptions C04_structure_always.

(* Expunged is final: the only step that takes an entry out of the expunged
   state is Unexpunge_cas on that entry by the thread holding mu. *)
Theorem C04_expunged_final : forall zs progs sched t ch c' j i i' e,
  let c := run_schedule (init_config_z zs progs) sched in
  step c t ch = Some c' -> nth_error (c_insts c) j = Some i -> nth_error (c_insts c') j = Some i' ->
  get_ent (i_st i) e = PExpunged -> get_ent (i_st i') e <> PExpunged ->
  i_mu i = Some t /\
  exists f, top_frame c t = Some f /\ call_inst (f_call f) = j /\ f_pc f = Unexpunge_cas /\ f_e f = Some e.
Proof. exact expunged_final_z. Qed.
Print Assumptions C04_expunged_final.

(* ---- non-vacuity: the interesting interleavings are reachable ---- *)
(* Two goroutines on one Map. G1 stores key 1 (it lands in the dirty map, read
   is amended). G0 starts Load(1): misses in read.m, sees amended, is about to
   lock. G1's Load(7) misses, which promotes dirty (misses = len(dirty)) —
   between G0's Load_read1 and Load_lock. G0 then locks, re-reads m.read, finds
   key 1 there and returns (10, true): the double-checked read. *)
Definition ex_progs : list (list call) := [[CLoad 0 1]; [CStore 0 1 10; CLoad 0 7]]%Z.
Definition sch (l : list nat) : list (nat * Z) := map (fun t => (t, 0%Z)) l.   (* no iteration choices needed *)
Definition ex_sched1 := sch [1;1;1;1;1;1;0].   (* G1: Store completes; G0: Load_read1 *)
Definition ex_sched2 := sch [1;1;1;1;1].       (* G1: Load(7) with promotion *)
Definition ex_sched3 := sch [0;0;0;0].         (* G0: lock, read2, unlock, e.load *)

Definition ex_view (c : config) :=
  (map thread_label (c_threads c),
   map (fun i => (read_m (i_st i) !! 1%Z, amended (i_st i), dirty_lookup (i_st i) 1%Z, i_mu i)) (c_insts c),
   map t_results (c_threads c), c_panicked c).

Example C04conc_promotion_between_read1_and_lock :
  let c1 := run_schedule (init_config 1 ex_progs) ex_sched1 in
  let c2 := run_schedule c1 ex_sched2 in
  let c3 := run_schedule c2 ex_sched3 in
  ex_view c1 = ([Some Load_lock; Some Load_read1], [(None, true, Some 0, None)], [[]; [RUnit]], false) /\
  ex_view c2 = ([Some Load_lock; None], [(Some 0, false, None, None)], [[]; [RUnit; ROpt None]], false) /\
  ex_view c3 = ([None; None], [(Some 0, false, None, None)], [[ROpt (Some 10%Z)]; [RUnit; ROpt None]], false) /\
  Forall (Forall nopost) ex_progs.
Proof. vm_compute. repeat split; repeat constructor. Qed.

(* A configuration in which mu is held by G1 (inside dirtyLocked) while G0
   takes a step: the hypotheses of C04_lock_discipline and
   C04_structure_when_locked are satisfiable. *)
Example C04conc_step_while_locked :
  let c := run_schedule (init_config 1 ex_progs) (sch [1;1;1]) in
  map (fun i => i_mu i) (c_insts c) = [Some 1] /\ map thread_label (c_threads c) = [Some Load_read1; Some Dirty_read] /\
  exists c', step c 0 0%Z = Some c' /\ map thread_label (c_threads c') = [None; Some Dirty_read].
Proof. vm_compute. repeat split. eexists. split; reflexivity. Qed.
