(* C10 — PubSub delivers every event exactly once to every subscriber.
   Statements only; every proof is [exact] of a lemma of Chans/PubSubProofs.v
   or Chans/PubSubTrace.v.

   The model (Chans/PubSubModel.v) is a small-step machine transcribed from
   chans/pubsub.go and SendTimeout of chans/chans.go: one step per lock
   operation, channel operation (send / select with timer / receive / close),
   wg.Add/Done/Wait, go statement and OnPubTimeout call. Quantifiers of every
   run-level theorem: every configuration of the root PubSub (PubTimeoutAfter
   [timeout], OnPubTimeout set or nil [cb], DefaultBuffer [defbuf]), every number
   of threads and every program per thread [progs] (any sequence of Pub,
   PubSlice, PubWait, PubSliceWait, PubSync, PubSliceSync, WithOnly, Sub, SubBuf,
   Unsub, UnsubAll on any PubSub object, receives and range loops on any channel;
   any events, slice lengths, buffer sizes), every schedule [s] (any interleaving
   of the atomic steps, any choice of select branch and rendezvous partner;
   entries naming a disabled thread are skipped; no length bound).
   [run (init timeout cb defbuf progs) s] is thus an arbitrary reachable
   configuration. [c_trace] is a ghost log of the steps taken, NEWEST FIRST.
   A publish call is identified by [callid] = (thread, index of the call in the
   thread, variant); a pair = (index of the event in the slice, event,
   subscriber channel). Channels, select/timers, RWMutex and WaitGroup are the
   trusted abstract machines described at the top of PubSubModel.v. *)
From Typ Require Import Lib.Base Chans.PubSubModel Chans.PubSubProofs Chans.PubSubTrace Chans.PubSubCalls.

(* ---------------------------------------------------------------- *)
(* Unsub, UnsubAll, WithOnly: what one call does when run alone       *)
(* (uninterrupted, lock free at the start); the statements for EVERY  *)
(* schedule follow in the next section                               *)
(* ---------------------------------------------------------------- *)

(* In every reachable configuration the subscription lists are duplicate
   free and name existing channels (hypotheses of the theorems below). *)
Theorem C10_subscriptions_wellformed : forall timeout cb defbuf progs s o ob,
  nth_error (c_objs (run (init timeout cb defbuf progs) s)) o = Some ob ->
  NoDup (o_subs ob) /\
  forall ci, In ci (o_subs ob) -> ci < length (c_chans (run (init timeout cb defbuf progs) s)).
Proof.
  exact (fun timeout cb defbuf progs s o ob H =>
    let W := wf_inv_run timeout cb defbuf progs s in
    conj (proj1 (proj2 W) o ob H) (fun ci Hi => proj1 W o ob ci H Hi)).
Qed.
Print Assumptions C10_subscriptions_wellformed.

(* Unsub(nil) returns ErrSubscriptionNotInitalized in one step and changes
   nothing else (in any configuration, whatever the other threads are doing). *)
Theorem C10_unsub_nil : forall c t th o rest ch,
  c_panic c = None -> nth_error (c_threads c) t = Some th ->
  th_pc th = PIdle -> th_prog th = CUnsub o None :: rest ->
  step c t ch = Some (set_thread c t (Thread rest PIdle (th_rets th ++ [RErr ErrSubscriptionNotInitalized]))).
Proof. exact unsub_nil_step. Qed.
Print Assumptions C10_unsub_nil.

(* Unsub of a channel that is not subscribed (never was, already removed, or
   foreign): ErrAlreadyUnsubscribed; subscriptions, channels, ghost log and all
   other threads unchanged; the lock is free again. *)
Theorem C10_unsub_unknown : forall c t th o ob sub rest ch1 ch2,
  c_panic c = None -> nth_error (c_threads c) t = Some th ->
  th_pc th = PIdle -> th_prog th = CUnsub o (Some sub) :: rest ->
  nth_error (c_objs c) o = Some ob -> lock_free t ob = true ->
  ~ In sub (o_subs ob) ->
  run c [(t, ch1); (t, ch2)] =
  Config (upd o (set_wr ob None) (c_objs c)) (c_chans c) (c_wg c)
         (upd t (Thread rest PIdle (th_rets th ++ [RErr ErrAlreadyUnsubscribed])) (c_threads c))
         (EUnlock t (length (th_rets th)) o (RErr ErrAlreadyUnsubscribed) (o_subs ob) ::
          ELock t (length (th_rets th)) o (CUnsub o (Some sub)) (o_subs ob) :: c_trace c) None.
Proof. exact unsub_unknown_solo. Qed.
Print Assumptions C10_unsub_unknown.

(* Unsub of a subscribed channel: returns nil; closes exactly that channel
   (buffer kept) and removes exactly it; every other subscription, channel and
   thread is unchanged; one EClose is logged. *)
Theorem C10_unsub_known : forall c t th o ob sub rest chn ch1 ch2 ch3,
  c_panic c = None -> nth_error (c_threads c) t = Some th ->
  th_pc th = PIdle -> th_prog th = CUnsub o (Some sub) :: rest ->
  nth_error (c_objs c) o = Some ob -> lock_free t ob = true ->
  In sub (o_subs ob) -> NoDup (o_subs ob) ->
  nth_error (c_chans c) sub = Some chn -> ch_closed chn = false ->
  run c [(t, ch1); (t, ch2); (t, ch3)] =
  Config (upd o (set_wr (set_subs ob (remove Nat.eq_dec sub (o_subs ob))) None) (c_objs c))
         (upd sub (Chan (ch_buf chn) (ch_cap chn) true) (c_chans c)) (c_wg c)
         (upd t (Thread rest PIdle (th_rets th ++ [RNil])) (c_threads c))
         (EUnlock t (length (th_rets th)) o RNil (remove Nat.eq_dec sub (o_subs ob)) :: EClose t o sub ::
          ELock t (length (th_rets th)) o (CUnsub o (Some sub)) (o_subs ob) :: c_trace c) None.
Proof. exact unsub_known_solo. Qed.
Print Assumptions C10_unsub_known.

(* UnsubAll: returns nil; closes exactly the subscribed channels, in order,
   leaves the subscription list empty, touches nothing else. *)
Theorem C10_unsuball : forall c t th o ob rest,
  c_panic c = None -> nth_error (c_threads c) t = Some th ->
  th_pc th = PIdle -> th_prog th = CUnsubAll o :: rest ->
  nth_error (c_objs c) o = Some ob -> lock_free t ob = true ->
  NoDup (o_subs ob) -> (forall ci, In ci (o_subs ob) -> is_open (c_chans c) ci) ->
  run c (repeat (t, Plain) (length (o_subs ob) + 2)) =
  Config (upd o (set_wr (set_subs ob []) None) (c_objs c))
         (close_all (o_subs ob) (c_chans c)) (c_wg c)
         (upd t (Thread rest PIdle (th_rets th ++ [RNil])) (c_threads c))
         (EUnlock t (length (th_rets th)) o RNil [] :: rev (map (EClose t o) (o_subs ob)) ++
          ELock t (length (th_rets th)) o (CUnsubAll o) (o_subs ob) :: c_trace c) None.
Proof. exact unsuball_solo. Qed.
Print Assumptions C10_unsuball.

Theorem C10_unsuball_closes_exactly : forall l chs ci,
  (~ In ci l -> nth_error (close_all l chs) ci = nth_error chs ci) /\
  (forall chn, In ci l -> nth_error chs ci = Some chn ->
     nth_error (close_all l chs) ci = Some (Chan (ch_buf chn) (ch_cap chn) true)).
Proof. exact (fun l chs ci => conj (close_all_notin l chs ci) (fun chn => close_all_in l chs ci chn)). Qed.
Print Assumptions C10_unsuball_closes_exactly.

(* WithOnly(sub): a new PubSub listing exactly [sub] if it is subscribed
   (nothing for nil or an unknown channel), same timeout configuration; the
   parent, the channels and the log are unchanged. A publish on the view
   therefore targets that one subscription only (C10_resolved_was_subscribed). *)
Theorem C10_withonly : forall c t th o ob sub rest ch1 ch2,
  c_panic c = None -> nth_error (c_threads c) t = Some th ->
  th_pc th = PIdle -> th_prog th = CWithOnly o sub :: rest ->
  nth_error (c_objs c) o = Some ob -> rlock_free ob = true -> NoDup (o_subs ob) ->
  run c [(t, ch1); (t, ch2)] =
  Config (c_objs c ++
            [PsObj (match sub with
                    | Some s => if in_dec Nat.eq_dec s (o_subs ob) then [s] else []
                    | None => []
                    end) [] None None (o_timeout ob) (o_cb ob) 0%Z])
         (c_chans c) (c_wg c)
         (upd t (Thread rest PIdle (th_rets th ++ [RView (length (c_objs c))])) (c_threads c))
         (EViewRet t (length (th_rets th)) o (length (c_objs c))
                   (match sub with
                    | Some s => if in_dec Nat.eq_dec s (o_subs ob) then [s] else []
                    | None => []
                    end) (o_subs ob) :: EViewLock t (length (th_rets th)) o sub (o_subs ob) :: c_trace c) None.
Proof. exact withonly_solo. Qed.
Print Assumptions C10_withonly.

(* ---------------------------------------------------------------- *)
(* Sub, Unsub, UnsubAll, WithOnly in EVERY schedule                   *)
(* ---------------------------------------------------------------- *)

(* Ghost log entries used here: [ELock t n o cl subs] is logged by the step in
   which thread t, making its n-th call cl, acquires the write lock of PubSub o
   (directly or after having waited, PLockWait), subs = o.subs at that moment;
   [EUnlock t n o r subs1] by the step that releases it and returns r, subs1 =
   o.subs at that moment; [EClose t o ci] by every close. [osect o log] reads
   off the log the write section open on o: holder, call index, call, o.subs at
   the lock, channels closed on o since (newest first); it is reset by every
   ELock/EUnlock on o, so "osect o earlier = Some (t, n, cl, subs0, cls)" says
   that between this ELock and the end of [earlier] no other thread locked or
   unlocked o and exactly the channels [rev cls] were closed on o (by anybody).

   For every run and every unlock in its log: the section was opened by the same
   thread for the same call; for Unsub(ci) the result is nil iff ci was
   subscribed to o when the lock was taken, then exactly ci was closed on o and
   o.subs lost exactly ci, otherwise ErrAlreadyUnsubscribed, nothing closed and
   o.subs unchanged; UnsubAll closes exactly o.subs (in order) and empties it;
   Sub/SubBuf append the new channel, which was not subscribed before, and close
   nothing. No interleaving of other
   threads changes this (they cannot touch o.subs while the lock is held). *)
Theorem C10_write_calls_every_schedule : forall timeout cb defbuf progs s later t n o r subs1 earlier,
  c_trace (run (init timeout cb defbuf progs) s) = later ++ EUnlock t n o r subs1 :: earlier ->
  exists cl subs0 cls, osect o earlier = Some (t, n, cl, subs0, cls) /\
                       unlock_spec o cl subs0 (rev cls) r subs1.
Proof. exact unlock_ok_run. Qed.
Print Assumptions C10_write_calls_every_schedule.

(* WithOnly in every run: [EViewLock t n o sub subs0] is logged when the call
   takes the read lock, [EViewRet t n o v vsubs subs1] when it releases it and
   returns view v. The view lists exactly [sub] if it was subscribed to o when the
   read lock was taken (nothing for nil or an unknown channel), and o.subs was
   the same at the unlock (nobody can change it under the read lock). *)
Theorem C10_withonly_every_schedule : forall timeout cb defbuf progs s later t n o v vsubs subs1 earlier,
  c_trace (run (init timeout cb defbuf progs) s) = later ++ EViewRet t n o v vsubs subs1 :: earlier ->
  exists sub subs0, vsect t earlier = Some (n, o, sub, subs0) /\ NoDup subs0 /\ subs1 = subs0 /\
    vsubs = match sub with
            | Some s => if in_dec Nat.eq_dec s subs0 then [s] else []
            | None => []
            end.
Proof. exact view_ok_run. Qed.
Print Assumptions C10_withonly_every_schedule.

(* ... and, from its return on and in every schedule, the view has the
   PubTimeoutAfter and the "OnPubTimeout set" of its parent ([ocfg]). *)
Theorem C10_view_config : forall timeout cb defbuf progs s t n o v vsubs subs1,
  let c := run (init timeout cb defbuf progs) s in
  In (EViewRet t n o v vsubs subs1) (c_trace c) -> ocfg c v = ocfg c o /\ ocfg c o <> None.
Proof. exact view_config. Qed.
Print Assumptions C10_view_config.

(* Where a log entry comes from: every entry of the log of a run was logged by
   one step of the run, taken by thread t in a configuration with the properties
   [logged_by]. [logged_by] has content for ERLock, ELock, EUnlock, EViewLock,
   EViewRet, EPubRet and EClose (it is True for EHandoff, ETimeout, ECallback,
   EDone, ERecv, ESub, EPanic, about which the counting theorems speak): e.g. for [ERLock k o evs subs]: t = k_tid k had returned from
   exactly k_n k calls, its next call was the publish call with these events
   and this variant on o, and subs = o.subs in that configuration; for
   [ELock t n o cl subs]: cl was t's next call (or the one it was parked in
   Lock for), n calls returned, subs = o.subs, lock free; for [EUnlock t n o r
   subs1]: in the next configuration t has n+1 results, the last one r, and
   o.subs = subs1, write lock released; similarly EViewLock, EViewRet, EPubRet,
   EClose (the closed channel was open; t holds the write lock of o). *)
Theorem C10_log_origin : forall timeout cb defbuf progs s e,
  In e (c_trace (run (init timeout cb defbuf progs) s)) ->
  exists s1 t ch s2 th,
    s = s1 ++ (t, ch) :: s2 /\ c_panic (run (init timeout cb defbuf progs) s1) = None /\
    nth_error (c_threads (run (init timeout cb defbuf progs) s1)) t = Some th /\
    step (run (init timeout cb defbuf progs) s1) t ch = Some (run (init timeout cb defbuf progs) (s1 ++ [(t, ch)])) /\
    logged_by (run (init timeout cb defbuf progs) s1) t th (run (init timeout cb defbuf progs) (s1 ++ [(t, ch)])) e.
Proof. exact log_origin_init. Qed.
Print Assumptions C10_log_origin.

(* The log and the calls: if the n-th call of thread t's program has returned
   (t has more than n results), then: a publish call returned () and its
   EPubRet (CallId t n variant) and its ERLock with the call's PubSub and events
   are in the log; Sub/SubBuf/Unsub/UnsubAll have their ELock and their EUnlock
   with the returned value in the log; WithOnly its EViewLock and EViewRet with
   the returned view; Unsub(nil) returned ErrSubscriptionNotInitalized. *)
Theorem C10_returned_logged : forall timeout cb defbuf progs s t th p n cl r,
  let c := run (init timeout cb defbuf progs) s in
  nth_error (c_threads c) t = Some th -> nth_error progs t = Some p ->
  nth_error p n = Some cl -> nth_error (th_rets th) n = Some r ->
  call_logged t n cl r (c_trace c).
Proof. exact returned_logged. Qed.
Print Assumptions C10_returned_logged.

(* Conversely the ERLock / ELock / EViewLock entries of the log name calls of
   the programs, at the positions they name. *)
Theorem C10_logged_calls : forall timeout cb defbuf progs s,
  let c := run (init timeout cb defbuf progs) s in
  (forall k o evs subs p, In (ERLock k o evs subs) (c_trace c) -> nth_error progs (k_tid k) = Some p ->
     exists cl, nth_error p (k_n k) = Some cl /\ is_pub_call cl (k_var k) o evs) /\
  (forall t n o cl subs p, In (ELock t n o cl subs) (c_trace c) -> nth_error progs t = Some p ->
     nth_error p n = Some cl) /\
  (forall t n o sub subs p, In (EViewLock t n o sub subs) (c_trace c) -> nth_error progs t = Some p ->
     nth_error p n = Some (CWithOnly o sub)).
Proof. exact logged_calls. Qed.
Print Assumptions C10_logged_calls.

(* Nothing is handed to a channel after the step that closed (removed) it,
   in any run; and it stays closed. *)
Theorem C10_nothing_after_removal : forall timeout cb defbuf progs s later t o ci earlier,
  c_trace (run (init timeout cb defbuf progs) s) = later ++ EClose t o ci :: earlier ->
  (forall k p, In (EHandoff k p) later -> p_sub p <> ci) /\
  is_closed (c_chans (run (init timeout cb defbuf progs) s)) ci.
Proof. exact nothing_after_close. Qed.
Print Assumptions C10_nothing_after_removal.

(* ---------------------------------------------------------------- *)
(* Delivery                                                           *)
(* ---------------------------------------------------------------- *)

(* What receivers have received from a channel, in order, followed by what
   its buffer holds, is exactly what was handed to it, in order: the receives
   are a prefix of the hand-offs (nothing lost, duplicated, reordered or
   invented), for any receiver programs. *)
Theorem C10_received_is_handed : forall timeout cb defbuf progs s ci chn,
  let c := run (init timeout cb defbuf progs) s in
  nth_error (c_chans c) ci = Some chn ->
  handed_to ci c = received_from ci c ++ ch_buf chn /\ length (ch_buf chn) <= ch_cap chn.
Proof. exact fifo_conservation. Qed.
Print Assumptions C10_received_is_handed.

(* Conservation, for every publish variant: each (call, event index,
   subscriber) pair is resolved (handed off or timed out) at most once at all
   times; its send() returns at most once; once send() has returned it has
   been resolved exactly once; and only pairs built at the call's read-lock
   step are ever resolved (at most one of each). *)
Theorem C10_conservation : forall timeout cb defbuf progs s k p,
  let c := run (init timeout cb defbuf progs) s in
  res_count k p c <= 1 /\ done_count k p c <= 1 /\
  (1 <= done_count k p c -> res_count k p c = 1) /\
  res_count k p c <= exp_count k p c /\ exp_count k p c <= 1.
Proof. exact conservation. Qed.
Print Assumptions C10_conservation.

(* A hand-off or timeout of call k concerns a channel that was subscribed, at
   the call's read-lock step, to the PubSub the call was made on (the root, or
   the one-subscription view made by WithOnly). *)
Theorem C10_resolved_was_subscribed : forall timeout cb defbuf progs s k p,
  let c := run (init timeout cb defbuf progs) s in
  In (EHandoff k p) (c_trace c) \/ (exists b, In (ETimeout k p b) (c_trace c)) ->
  exists o evs subs, In (ERLock k o evs subs) (c_trace c) /\
                     In p (pub_ps (fst (k_var k)) evs subs) /\ In (p_sub p) subs.
Proof. exact resolved_was_subscribed. Qed.
Print Assumptions C10_resolved_was_subscribed.

(* PubWait, PubSliceWait, PubSync and PubSliceSync return only after every
   pair of the call has finished: in the log BEFORE the return of call k, every
   pair the call set out to deliver has had its send() return (counts per pair;
   both are at most 1 by C10_conservation); and the call's ERLock (which lists
   those pairs: its events x the subscribers at that moment, C10_log_origin) is
   in the log before the return, for every variant, so the counts are not
   vacuously 0. *)
Theorem C10_wait_returns_after : forall timeout cb defbuf progs s later k earlier,
  c_trace (run (init timeout cb defbuf progs) s) = later ++ EPubRet k :: earlier ->
  (exists o evs subs, In (ERLock k o evs subs) earlier) /\
  (snd (k_var k) <> Async -> forall p, total (ev_exp k p) earlier = total (ev_done k p) earlier).
Proof. exact wait_returns_after_rlock. Qed.
Print Assumptions C10_wait_returns_after.

(* Exactly one of a delivery or a timeout, and exactly one OnPubTimeout call
   per timeout taken with the callback set: at all times hand-offs + timeouts
   of a pair <= 1 and callbacks <= timeouts taken with the callback set; once
   the pair's send() has returned, hand-offs + timeouts = 1 and callbacks =
   timeouts taken with the callback set. *)
Theorem C10_delivery_or_timeout : forall timeout cb defbuf progs s k p,
  let tr := c_trace (run (init timeout cb defbuf progs) s) in
  total (ev_handoff k p) tr + total (ev_timeout k p) tr <= 1 /\
  total (ev_cb k p) tr <= total (ev_tcb k p) tr /\ total (ev_tcb k p) tr <= total (ev_timeout k p) tr /\
  (1 <= total (ev_done k p) tr ->
     total (ev_handoff k p) tr + total (ev_timeout k p) tr = 1 /\ total (ev_cb k p) tr = total (ev_tcb k p) tr).
Proof. exact delivery_or_timeout. Qed.
Print Assumptions C10_delivery_or_timeout.

(* A timeout is taken only by a call made on a PubSub whose PubTimeoutAfter is
   positive, and the flag of the event is that PubSub's "OnPubTimeout != nil". *)
Theorem C10_timeout_needs_config : forall timeout cb defbuf progs s k p b,
  let c := run (init timeout cb defbuf progs) s in
  In (ETimeout k p b) (c_trace c) ->
  exists o evs subs tm, In (ERLock k o evs subs) (c_trace c) /\ ocfg c o = Some (tm, b) /\ (0 < tm)%Z.
Proof. exact timeout_needs_config. Qed.
Print Assumptions C10_timeout_needs_config.

(* With PubTimeoutAfter <= 0 a finished pair was handed off (exactly once). *)
Theorem C10_no_timeout_means_handoff : forall timeout cb defbuf progs s k p,
  let c := run (init timeout cb defbuf progs) s in
  (forall o evs subs tm b, In (ERLock k o evs subs) (c_trace c) -> ocfg c o = Some (tm, b) -> (tm <= 0)%Z) ->
  1 <= total (ev_done k p) (c_trace c) -> total (ev_handoff k p) (c_trace c) = 1.
Proof. exact no_timeout_means_handoff. Qed.
Print Assumptions C10_no_timeout_means_handoff.

(* PubSync and PubSliceSync resolve their pairs in publication order: when
   the call returns, the sequence of pairs it handed off or timed out, oldest
   first, is the list built at its read-lock step: for each event of the slice
   in order, every subscriber in subscription order. So every subscriber gets
   the events of a Sync call in publication order. *)
Theorem C10_sync_order : forall timeout cb defbuf progs s later k earlier,
  c_trace (run (init timeout cb defbuf progs) s) = later ++ EPubRet k :: earlier ->
  snd (k_var k) = Sync ->
  exists o evs subs, In (ERLock k o evs subs) earlier /\
                     rev (res_rev k earlier) = pub_ps (fst (k_var k)) evs subs.
Proof. exact sync_order. Qed.
Print Assumptions C10_sync_order.

(* Channels are closed by the close steps of Unsub/UnsubAll only. *)
Theorem C10_closed_only_by_unsub : forall timeout cb defbuf progs s ci,
  is_closed (c_chans (run (init timeout cb defbuf progs) s)) ci ->
  exists t o, In (EClose t o ci) (c_trace (run (init timeout cb defbuf progs) s)).
Proof. exact closed_only_by_unsub. Qed.
Print Assumptions C10_closed_only_by_unsub.

(* ---------------------------------------------------------------- *)
(* No panic                                                           *)
(* ---------------------------------------------------------------- *)

(* For all variants: no run panics in which every close step (of Unsub or
   UnsubAll) happens while no asynchronous sender goroutine for the channel
   being closed is alive and no other PubSub (WithOnly view) lists it
   ([safe_sched], a condition on the schedule), buffer sizes being >= 0.
   Moreover in such runs every channel listed by an unlocked PubSub is open.
   The two hypotheses exclude at least the five known findings: (a) no live
   asynchronous sender at a close (pubsub-async-unsub-panic); (b) no other PubSub
   listing the closed channel, i.e. no stale list left behind on the other side
   of a WithOnly: a later publish or Unsub/UnsubAll through the stale view after
   the parent removed the channel (pubsub-stale-withonly-view-panic,
   pubsub-stale-withonly-view-unsub-panic), or on the stale parent after the
   channel was removed through the view (pubsub-stale-parent-after-view-unsub-panic,
   pubsub-stale-parent-unsub-after-view-unsub-panic); see
   C10_stale_view_histories_not_safe. (b) is conservative: it also excludes
   harmless runs in which the stale side is never used again. Unsubscribing
   through a view is otherwise in scope: any program may call Unsub/UnsubAll on
   any PubSub object. *)
Theorem C10_no_panic_quiesced : forall timeout cb defbuf progs s,
  (0 <= defbuf)%Z -> (forall p cl, In p progs -> In cl p -> call_ok cl) ->
  safe_sched (init timeout cb defbuf progs) s ->
  c_panic (run (init timeout cb defbuf progs) s) = None /\ open_inv (run (init timeout cb defbuf progs) s).
Proof. exact no_panic_safe. Qed.
Print Assumptions C10_no_panic_quiesced.

(* Runs whose publishes are all PubSync/PubSliceSync (any Sub, SubBuf, Unsub,
   UnsubAll, receives; no WithOnly) never panic, under every schedule. *)
Theorem C10_no_panic_sync : forall timeout cb defbuf progs s,
  (0 <= defbuf)%Z -> (forall p cl, In p progs -> In cl p -> call_ok cl /\ sync_only_call cl) ->
  c_panic (run (init timeout cb defbuf progs) s) = None.
Proof. exact no_panic_sync. Qed.
Print Assumptions C10_no_panic_sync.

(* The known finding (DESIGN section 5 row 13), in theorem form: one
   unbuffered subscriber nobody receives from, Pub 5, then Unsub: the sender
   goroutine sends on the closed channel after both calls returned normally. *)
Theorem C10_async_unsub_panic_reachable :
  exists progs s, Panicked (run (init 0%Z false 0%Z progs) s) /\
    c_panic (run (init 0%Z false 0%Z progs) s) = Some PSendOnClosed /\
    (exists th, nth_error (c_threads (run (init 0%Z false 0%Z progs) s)) 0 = Some th /\
                th_rets th = [RChan 0; RUnit; RNil]).
Proof. exact async_unsub_panic_reachable. Qed.
Print Assumptions C10_async_unsub_panic_reachable.

(* The second known finding (id pubsub-stale-withonly-view-panic), in theorem
   form: s := SubBuf(1); v := WithOnly(s); Unsub(s); v.PubSync(1) panics with
   "send on closed channel", sequentially: the view keeps its own copy of the
   subscription list. This is hypothesis (b) of C10_no_panic_quiesced. *)
Theorem C10_stale_view_panic_reachable :
  c_panic (run (init 0%Z false 0%Z [[CSubBuf 0 1%Z; CWithOnly 0 (Some 0); CUnsub 0 (Some 0); CPubOne Sync 1 1%Z]])
               (repeat (0, Plain) 9)) = Some PSendOnClosed.
Proof. exact stale_view_panic_reachable. Qed.
Print Assumptions C10_stale_view_panic_reachable.

(* The third known finding (id pubsub-stale-withonly-view-unsub-panic), in theorem
   form: s := SubBuf(1); v := WithOnly(s); Unsub(s) on the parent; Unsub(s)
   through v panics with "close of closed channel": the view still lists s. *)
Theorem C10_stale_view_unsub_panic_reachable :
  c_panic (run (init 0%Z false 0%Z [[CSubBuf 0 1%Z; CWithOnly 0 (Some 0); CUnsub 0 (Some 0); CUnsub 1 (Some 0)]])
               (repeat (0, Plain) 9)) = Some PCloseOfClosed.
Proof. exact stale_view_unsub_panic_reachable. Qed.
Print Assumptions C10_stale_view_unsub_panic_reachable.

(* Known findings 4 and 5 (mirrored): s := SubBuf(1); v := WithOnly(s); Unsub(s)
   THROUGH v closes s while the parent still lists it; then PubSync(1) on the
   parent sends on the closed channel (pubsub-stale-parent-after-view-unsub-panic),
   Unsub(s) on the parent closes it again
   (pubsub-stale-parent-unsub-after-view-unsub-panic). *)
Theorem C10_parent_after_view_unsub_panic_reachable :
  c_panic (run (init 0%Z false 0%Z [[CSubBuf 0 1%Z; CWithOnly 0 (Some 0); CUnsub 1 (Some 0); CPubOne Sync 0 1%Z]])
               (repeat (0, Plain) 9)) = Some PSendOnClosed /\
  c_panic (run (init 0%Z false 0%Z [[CSubBuf 0 1%Z; CWithOnly 0 (Some 0); CUnsub 1 (Some 0); CUnsub 0 (Some 0)]])
               (repeat (0, Plain) 9)) = Some PCloseOfClosed.
Proof. exact (conj view_first_pub_panic_reachable view_first_unsub_panic_reachable). Qed.
Print Assumptions C10_parent_after_view_unsub_panic_reachable.

(* All four stale-list histories are excluded EXPLICITLY by hypothesis (b) of
   C10_no_panic_quiesced: their schedules are not [safe_sched], because at the
   close step of the first Unsub another PubSub (the view, resp. the parent)
   lists the channel. (C10_no_panic_sync excludes them by having no WithOnly.) *)
Theorem C10_stale_view_histories_not_safe :
  ~ safe_sched (init 0%Z false 0%Z [[CSubBuf 0 1%Z; CWithOnly 0 (Some 0); CUnsub 0 (Some 0); CPubOne Sync 1 1%Z]])
               (repeat (0, Plain) 9) /\
  ~ safe_sched (init 0%Z false 0%Z [[CSubBuf 0 1%Z; CWithOnly 0 (Some 0); CUnsub 0 (Some 0); CUnsub 1 (Some 0)]])
               (repeat (0, Plain) 9) /\
  ~ safe_sched (init 0%Z false 0%Z [[CSubBuf 0 1%Z; CWithOnly 0 (Some 0); CUnsub 1 (Some 0); CPubOne Sync 0 1%Z]])
               (repeat (0, Plain) 9) /\
  ~ safe_sched (init 0%Z false 0%Z [[CSubBuf 0 1%Z; CWithOnly 0 (Some 0); CUnsub 1 (Some 0); CUnsub 0 (Some 0)]])
               (repeat (0, Plain) 9).
Proof.
  exact (conj stale_view_not_safe (conj stale_view_unsub_not_safe (conj view_first_pub_not_safe view_first_unsub_not_safe))).
Qed.
Print Assumptions C10_stale_view_histories_not_safe.

(* [safe_sched] can be decided for a concrete schedule. *)
Theorem C10_safe_sched_decidable : forall c s, safe_schedb c s = true -> safe_sched c s.
Proof. exact safe_schedb_sound. Qed.
Print Assumptions C10_safe_sched_decidable.

(* Non-vacuity of C10_no_panic_quiesced for asynchronous variants, and of the
   every-schedule theorems: two subscribers (buffers 0 and 1), a range receiver
   on channel 0; PubWait 5; Pub 6 (whose sender to the full channel 1 stays
   blocked and alive); Unsub(0) while that sender is alive but no sender for
   channel 0 is; Unsub(0) again; WithOnly(1). The schedule satisfies [safe_sched],
   the run does not panic, and the log has the entries the theorems speak of. *)
Example C10_example_async :
  let progs := [[CSubBuf 0 0%Z; CSubBuf 0 1%Z; CPubOne Wait 0 5%Z; CPubOne Async 0 6%Z;
                 CUnsub 0 (Some 0); CUnsub 0 (Some 0); CWithOnly 0 (Some 1)]; [CRange 0]] in
  let s := [(0, Plain); (0, Plain); (0, Plain); (0, Plain);                 (* two SubBuf *)
            (0, Plain); (0, Plain); (0, Plain); (0, Plain); (0, Plain);      (* PubWait: RLock; wg.Add; go; go; RUnlock *)
            (2, With 1); (3, Plain); (2, Plain); (3, Plain);                 (* senders: rendezvous / buffer; wg.Done twice *)
            (0, Plain);                                                      (* wg.Wait returns *)
            (0, Plain); (0, Plain); (0, Plain); (0, Plain);                 (* Pub: RLock; go; go; RUnlock *)
            (4, With 1); (5, Timer); (5, Plain);                             (* 6 -> receiver of 0; sender to 1: buffer full: blocked *)
            (0, Plain); (0, Plain); (0, Plain);                              (* Unsub 0 *)
            (1, Plain);                                                      (* the receiver sees the close *)
            (0, Plain); (0, Plain); (0, Plain); (0, Plain)] in               (* Unsub 0 again; WithOnly 1 *)
  let c0 := init 0%Z true 0%Z progs in
  let c := run c0 s in
  safe_schedb c0 s = true /\ c_panic c = None /\
  map (@th_rets) (c_threads c) =
    [[RChan 0; RChan 1; RUnit; RUnit; RNil; RErr ErrAlreadyUnsubscribed; RView 1]; [RRange [5; 6]%Z]; []; []; []; []] /\
  (exists th, nth_error (c_threads c) 5 = Some th /\
              th_pc th = PGoSend (CallId 0 3 (false, Async)) (0, 6%Z, 1) 0%Z true false) /\
  firstn 7 (c_trace c) =
    [EViewRet 0 6 0 1 [1] [1]; EViewLock 0 6 0 (Some 1) [1];
     EUnlock 0 5 0 (RErr ErrAlreadyUnsubscribed) [1]; ELock 0 5 0 (CUnsub 0 (Some 0)) [1];
     EUnlock 0 4 0 RNil [1]; EClose 0 0 0; ELock 0 4 0 (CUnsub 0 (Some 0)) [0; 1]] /\
  osect 0 (skipn 5 (c_trace c)) = Some (0, 4, CUnsub 0 (Some 0), [0; 1], [0]) /\
  vsect 0 (skipn 1 (c_trace c)) = Some (6, 0, Some 1, [1]).
Proof. vm_compute. repeat split. eexists. split; reflexivity. Qed.

(* Non-vacuity: two subscribers (buffers 2 and 0) and a range receiver on the
   unbuffered one; PubSliceSync of two events; Unsub of a subscribed channel, of
   an unknown one and of nil; WithOnly. Evaluated. *)
Example C10_example :
  let progs := [[CSubBuf 0 2%Z; CSubBuf 0 0%Z; CPubSlice Sync 0 [7; 8]%Z; CUnsub 0 (Some 1); CUnsub 0 (Some 5);
                 CUnsub 0 None; CWithOnly 0 (Some 0)];
                [CRange 1]] in
  let s := [(0, Plain); (0, Plain); (0, Plain); (0, Plain);            (* SubBuf 2; SubBuf 0 *)
            (0, Plain); (0, Plain); (0, With 1); (0, Plain); (0, With 1); (0, Plain);
                                                                       (* RLock; 7->buffer of 0; 7->receiver; 8; 8; RUnlock *)
            (0, Plain); (0, Plain); (0, Plain);                        (* Unsub 1: Lock; close + splice; Unlock *)
            (1, Plain);                                                (* the range loop sees the close *)
            (0, Plain); (0, Plain); (0, Plain); (0, Plain); (0, Plain)] in
  let c := run (init 0%Z true 0%Z progs) s in
  c_panic c = None /\
  map (@th_rets) (c_threads c) =
    [[RChan 0; RChan 1; RUnit; RNil; RErr ErrAlreadyUnsubscribed; RErr ErrSubscriptionNotInitalized; RView 1];
     [RRange [7; 8]%Z]] /\
  handed_to 0 c = [7; 8]%Z /\ handed_to 1 c = [7; 8]%Z /\ received_from 1 c = [7; 8]%Z /\
  map o_subs (c_objs c) = [[0]; [0]] /\
  res_count (CallId 0 2 (true, Sync)) (1, 8%Z, 1) c = 1 /\ exp_count (CallId 0 2 (true, Sync)) (1, 8%Z, 1) c = 1 /\
  rev (res_rev (CallId 0 2 (true, Sync)) (c_trace c)) = [(0, 7%Z, 0); (0, 7%Z, 1); (1, 8%Z, 0); (1, 8%Z, 1)].
Proof. vm_compute. repeat split. Qed.
