(* C10 — PubSub delivers every event exactly once to every subscriber.
   Statements only; every proof is [exact] of a lemma of Chans/PubSubProofs.v. *)
From Typ Require Import Lib.Base Chans.PubSubModel Chans.PubSubProofs.

(* The known finding (DESIGN section 5 row 13), in theorem form. *)
Theorem C10_async_unsub_panic_reachable :
  exists progs s, Panicked (run (init 0%Z false 0%Z progs) s) /\
    c_panic (run (init 0%Z false 0%Z progs) s) = Some SendOnClosed /\
    (exists th, nth_error (c_threads (run (init 0%Z false 0%Z progs) s)) 0 = Some th /\
                th_rets th = [RChan 0; RUnit; RNil]).
Proof. exact async_unsub_panic_reachable. Qed.
Print Assumptions C10_async_unsub_panic_reachable.
