(* C19 — Channel helpers never lose, duplicate or invent a value.
   Statements only; every proof is [exact] of a lemma from
   Chans/HelpersProofs.v.  Quantifiers: every value type V (with its zero
   value), every channel state (capacity, contents, open/closed, parked
   partners), every schedule [sched : list action] interleaving the helper's
   steps with environment actions (other goroutines sending, receiving,
   closing, giving up; the timer firing / the context being cancelled at any
   moment), both outcomes of a select with two ready branches.  No bound.
   [log] is the machine's ghost record of completed sends and receives;
   [sent_by Helper] / [rcvd_by Helper] are the helper's own entries. *)
From Coq Require Import Permutation.
From Typ Require Import Lib.Base Lib.Chan Chans.Helpers Chans.HelpersProofs.
(* imported only so that bin/check's build closure keeps the correspondence module up to date *)
From Typ Require Chans.HelpersCheck.

(* ---- the channel machine: nothing is lost, duplicated or invented ---- *)

(* From a runtime-reachable channel state c and an empty log, under every
   schedule and whatever the helper is: the state stays runtime-reachable, and
   initial contents ++ completed sends (in completion order) = all receives
   (in order) ++ current contents.  FIFO form; implies the multiset form. *)
Theorem C19_conservation : forall (V : Type) (zero : V) (sched : list (action V)) (c : chan V) (dn : bool) (p : pc V),
  wf c ->
  let w' := fst (run zero sched (World c dn [], p)) in
  wf (ch w') /\ buf c ++ sent_vals (log w') = rcvd_vals (log w') ++ buf (ch w').
Proof. exact @conservation. Qed.
Print Assumptions C19_conservation.

(* multiset received + buffered = multiset sent (+ initially buffered) *)
Theorem C19_conservation_multiset : forall (V : Type) (zero : V) (sched : list (action V)) (c : chan V) (dn : bool) (p : pc V),
  wf c ->
  let w' := fst (run zero sched (World c dn [], p)) in
  Permutation (sent_vals (log w') ++ buf c) (rcvd_vals (log w') ++ buf (ch w')).
Proof. exact @conservation_multiset. Qed.
Print Assumptions C19_conservation_multiset.

(* AUXILIARY LEMMA about the log projections used in the statements below (not a
   statement about the Go code): every logged operation is the helper's or the
   environment's, and the per-agent projections keep the order *)
Theorem C19_log_parts : forall (V : Type) (l : list (event V)),
  length (sent_vals l) = length (sent_by Helper l) + length (sent_by Env l) /\
  length (rcvd_vals l) = length (rcvd_by Helper l) + length (rcvd_by Env l) /\
  subseq (sent_by Helper l) (sent_vals l) /\ subseq (rcvd_by Helper l) (rcvd_vals l).
Proof. exact @log_parts. Qed.
Print Assumptions C19_log_parts.

(* ---- SendTimeout / SendContext ---- *)

(* After ANY schedule the call has received nothing, and: it is still waiting
   and has sent nothing; or returned true and handed its value over exactly
   once; or returned false — only through the timer/context branch, which has
   fired — and sent nothing; or panicked on a closed channel and sent nothing. *)
Theorem C19_send_iff_handed : forall (V : Type) (zero : V) (sched : list (action V)) (w : world V) (v : V) (p0 : pc V),
  (exists timeout, p0 = SendTimeout v timeout) \/ p0 = SendContext v ->
  send_outcome v p0 w (run zero sched (w, p0)).
Proof. exact @send_iff_handed. Qed.
Print Assumptions C19_send_iff_handed.

(* timeout <= 0: no timer branch; false is never returned whatever the timer does *)
Theorem C19_send_no_limit : forall (V : Type) (zero : V) (sched : list (action V)) (w : world V) (v : V) (timeout : Z),
  (timeout <= 0)%Z -> snd (run zero sched (w, SendTimeout v timeout)) <> PRet (RBool false).
Proof. exact @send_no_limit. Qed.
Print Assumptions C19_send_no_limit.

(* ---- RecvTimeout / RecvContext ---- *)

(* After ANY schedule the call has sent nothing, and: it is still waiting and
   has taken nothing; or returned (x,true) having taken exactly x; or returned
   (zero,false) having taken nothing, either through the fired timer/context
   branch or because the channel is closed and drained. *)
Theorem C19_recv_iff_taken : forall (V : Type) (zero : V) (sched : list (action V)) (w : world V) (p0 : pc V),
  (exists timeout, p0 = RecvTimeout timeout) \/ p0 = RecvContext ->
  recv_outcome zero p0 w (run zero sched (w, p0)).
Proof. exact @recv_iff_taken. Qed.
Print Assumptions C19_recv_iff_taken.

(* timeout <= 0: no timer branch; false only from a closed and drained channel *)
Theorem C19_recv_no_limit : forall (V : Type) (zero : V) (sched : list (action V)) (w : world V) (timeout : Z) (x : V),
  (timeout <= 0)%Z ->
  let st' := run zero sched (w, RecvTimeout timeout) in
  snd st' = PRet (RRecv x false) -> closed (ch (fst st')) = true /\ buf (ch (fst st')) = [].
Proof. exact @recv_no_limit. Qed.
Print Assumptions C19_recv_no_limit.

(* a closed and drained channel counts as false: at once, world unchanged, whichever select branch is taken *)
Theorem C19_recv_closed_false : forall (V : Type) (zero : V) (choice : bool) (w : world V) (p0 : pc V),
  p0 = PRecvBlock \/ p0 = PRecvSelect ->
  closed (ch w) = true -> buf (ch w) = [] -> sendq (ch w) = [] ->
  hstep zero choice w p0 = Some (w, PRet (RRecv zero false)).
Proof. exact @recv_closed_false. Qed.
Print Assumptions C19_recv_closed_false.

(* ---- RecvQueued / RecvQueuedFull ---- *)

(* never block: the next step is enabled in every world *)
Theorem C19_queued_never_block : forall (V : Type) (zero : V) (choice : bool) (w : world V),
  (forall buffer m, hstep zero choice w (PQueued buffer m) <> None) /\
  (forall index bf, hstep zero choice w (PQueuedFull index bf) <> None).
Proof. exact @queued_never_blocks. Qed.
Print Assumptions C19_queued_never_block.

(* with a concurrent environment: sends nothing; holds/returns exactly the
   values it took, in order, at most maxValues; has returned after
   maxValues+1 of its own steps *)
Theorem C19_recv_queued_any_schedule : forall (V : Type) (zero : V) (sched : list (action V)) (w : world V) (m : Z),
  queued_outcome m w sched (run zero sched (w, RecvQueued m)).
Proof. exact @recv_queued_any_schedule. Qed.
Print Assumptions C19_recv_queued_any_schedule.

(* Everything about RecvQueued under a concurrent environment in ONE statement,
   from a runtime-reachable channel and an empty log: the helper holds / has
   returned l; l is EXACTLY the helper's own receives, in order (its Rcvd
   entries in the log: the helper itself loses, duplicates, reorders, invents
   nothing); at most maxValues of them; it sent nothing; it has returned after
   maxValues+1 own steps; and those receives are an order-preserving part of
   all receives from the channel, which are a prefix of initial contents ++
   completed sends (FIFO conservation). *)
Theorem C19_recv_queued_fifo : forall (V : Type) (zero : V) (sched : list (action V)) (c : chan V) (dn : bool) (m : Z),
  wf c ->
  let st' := run zero sched (World c dn [], RecvQueued m) in
  exists l, (snd st' = PQueued l m \/ snd st' = PRet (RList l)) /\
    (Z.to_nat m + 1 <= count_help sched -> snd st' = PRet (RList l)) /\
    (Z.of_nat (length l) <= Z.max 0 m)%Z /\
    rcvd_by Helper (log (fst st')) = l /\ sent_by Helper (log (fst st')) = [] /\
    subseq l (rcvd_vals (log (fst st'))) /\
    buf c ++ sent_vals (log (fst st')) = rcvd_vals (log (fst st')) ++ buf (ch (fst st')).
Proof. exact @recv_queued_fifo. Qed.
Print Assumptions C19_recv_queued_fifo.

(* the same for RecvQueuedFull: buf = own receives ++ untouched rest of the caller's buf *)
Theorem C19_recv_queued_full_fifo : forall (V : Type) (zero : V) (sched : list (action V)) (c : chan V) (dn : bool) (buf0 : list V),
  wf c ->
  let st' := run zero sched (World c dn [], RecvQueuedFull buf0) in
  exists l, (snd st' = PQueuedFull (length l) (l ++ skipn (length l) buf0) \/
             snd st' = PRet (RFull (length l) (l ++ skipn (length l) buf0))) /\
    (length buf0 + 1 <= count_help sched -> snd st' = PRet (RFull (length l) (l ++ skipn (length l) buf0))) /\
    length l <= length buf0 /\
    rcvd_by Helper (log (fst st')) = l /\ sent_by Helper (log (fst st')) = [] /\
    subseq l (rcvd_vals (log (fst st'))) /\
    buf c ++ sent_vals (log (fst st')) = rcvd_vals (log (fst st')) ++ buf (ch (fst st')).
Proof. exact @recv_queued_full_fifo. Qed.
Print Assumptions C19_recv_queued_full_fifo.

Theorem C19_recv_queued_full_any_schedule : forall (V : Type) (zero : V) (sched : list (action V)) (w : world V) (buf0 : list V),
  full_outcome buf0 w sched (run zero sched (w, RecvQueuedFull buf0)).
Proof. exact @recv_queued_full_any_schedule. Qed.
Print Assumptions C19_recv_queued_full_any_schedule.

(* "Exactly the values already queued, up to the limit", in general: no other
   goroutine RUNS during the call, but any number of senders may already be
   parked on the channel (sq, oldest first; every capacity, contents b,
   open/closed state, limit m).  Any m+1 own steps return exactly
   firstn m (b ++ sq): the buffered values followed by the parked senders'
   values.  [parked_after]: the first min(m,|sq|) parked senders have completed,
   in order; the rest of the queue is still there (front b' in the buffer,
   b' ++ skipn m sq = skipn m (b ++ sq), tail skipn m sq still parked); the log
   gained exactly those receives by the helper and those completed sends.
   There is deliberately NO [wf] hypothesis: the statement therefore also covers
   channel states the Go runtime cannot reach (e.g. senders parked although the
   buffer has room, or parked receivers next to buffered values); that is
   harmless generality, the reachable states are the instances with [wf]. *)
Theorem C19_recv_queued_alone_parked : forall (V : Type) (zero : V) (b sq : list V) (cp : nat) (cl : bool) (rq : nat)
    (dn : bool) (lg : list (event V)) (m : Z) (choices : list bool),
  Z.to_nat m + 1 <= length choices ->
  let k := Z.to_nat m in
  exists w', run zero (map AHelp choices) (World (Chan b cp cl sq rq) dn lg, RecvQueued m)
             = (w', PRet (RList (firstn k (b ++ sq)))) /\
             parked_after b sq cp cl rq dn lg k w'.
Proof. exact @recv_queued_alone_parked. Qed.
Print Assumptions C19_recv_queued_alone_parked.

Theorem C19_recv_queued_full_alone_parked : forall (V : Type) (zero : V) (b sq : list V) (cp : nat) (cl : bool) (rq : nat)
    (dn : bool) (lg : list (event V)) (buf0 : list V) (choices : list bool),
  length buf0 + 1 <= length choices ->
  let k := length buf0 in
  let taken := firstn k (b ++ sq) in
  exists w', run zero (map AHelp choices) (World (Chan b cp cl sq rq) dn lg, RecvQueuedFull buf0)
             = (w', PRet (RFull (length taken) (taken ++ skipn (length taken) buf0))) /\
             parked_after b sq cp cl rq dn lg k w'.
Proof. exact @recv_queued_full_alone_parked. Qed.
Print Assumptions C19_recv_queued_full_alone_parked.

(* Corollaries (sq = []), with the final world and log written out.  No [wf]
   hypothesis here either (rq > 0 next to a non-empty b is not runtime-reachable). *)
(* no other goroutine on the channel: every capacity, contents b, open/closed
   state and limit m; any m+1 own steps give exactly firstn m b, leave skipn m
   b, log one receive per value and change nothing else *)
Theorem C19_recv_queued_alone : forall (V : Type) (zero : V) (b : list V) (cp : nat) (cl : bool) (rq : nat) (dn : bool)
    (lg : list (event V)) (m : Z) (choices : list bool),
  Z.to_nat m + 1 <= length choices ->
  run zero (map AHelp choices) (World (Chan b cp cl [] rq) dn lg, RecvQueued m)
  = (World (Chan (skipn (Z.to_nat m) b) cp cl [] rq) dn (lg ++ map (Rcvd Helper) (firstn (Z.to_nat m) b)),
     PRet (RList (firstn (Z.to_nat m) b))).
Proof. exact @recv_queued_alone. Qed.
Print Assumptions C19_recv_queued_alone.

(* RecvQueuedFull alone: takes firstn (len buf) b, writes it to the front of
   buf, leaves the rest of buf and of the channel, returns the count *)
Theorem C19_recv_queued_full_alone : forall (V : Type) (zero : V) (b : list V) (cp : nat) (cl : bool) (rq : nat) (dn : bool)
    (lg : list (event V)) (buf0 : list V) (choices : list bool),
  length buf0 + 1 <= length choices ->
  let taken := firstn (length buf0) b in
  run zero (map AHelp choices) (World (Chan b cp cl [] rq) dn lg, RecvQueuedFull buf0)
  = (World (Chan (skipn (length buf0) b) cp cl [] rq) dn (lg ++ map (Rcvd Helper) taken),
     PRet (RFull (length taken) (taken ++ skipn (length taken) buf0))).
Proof. exact @recv_queued_full_alone. Qed.
Print Assumptions C19_recv_queued_full_alone.

(* ---- frame and enabledness ---- *)

(* the helper changes the world only through operations recorded in its part
   of the log: a step that logs nothing leaves channel, queues, closed flag,
   timer and log exactly as they were (so "returned false" = channel untouched) *)
Theorem C19_no_log_no_change : forall (V : Type) (zero : V) (choice : bool) (w : world V) (p : pc V) (w' : world V) (p' : pc V),
  hstep zero choice w p = Some (w', p') ->
  sent_by Helper (log w') = sent_by Helper (log w) ->
  rcvd_by Helper (log w') = rcvd_by Helper (log w) -> w' = w.
Proof. exact @no_log_no_change. Qed.
Print Assumptions C19_no_log_no_change.

(* a fired timer / cancelled context always lets a select helper return; a
   helper without limit is blocked exactly while the channel is not ready *)
Theorem C19_enabledness : forall (V : Type) (zero : V) (choice : bool) (w : world V) (v : V),
  (done w = true -> hstep zero choice w (PSendSelect v) <> None /\ hstep zero choice w PRecvSelect <> None) /\
  (hstep zero choice w (PSendBlock v) = None <-> try_send Helper v w = WouldBlock) /\
  (hstep zero choice w PRecvBlock = None <-> try_recv zero Helper w = None).
Proof. exact @enabledness. Qed.
Print Assumptions C19_enabledness.

(* ---- non-vacuity: concrete runs of the machine ---- *)

(* the hypothesis [wf] is satisfiable: full buffer with a parked sender; unbuffered with two parked receivers; closed with a value left *)
Example C19_wf_example : wf (Chan [1; 2]%Z 2 false [3]%Z 0) /\ wf (Chan ([] : list Z) 0 false [] 2) /\
                         wf (Chan [5]%Z 3 true [] 0).
Proof. exact wf_example. Qed.

Example C19_example :
  let open0 := World (Chan ([] : list Z) 0 false [] 0) false [] in
  (* unbuffered, receiver arrives late, timer fires afterwards: true, handed over exactly once *)
  run 0%Z [AHelp true; AEnv ERecv; AHelp true; AEnv EDone] (open0, SendTimeout 7%Z 5%Z)
    = (World (Chan [] 0 false [] 0) true [Sent Helper 7%Z; Rcvd Env 7%Z], PRet (RBool true)) /\
  (* the timer fires first: false, nothing sent, the late receiver stays parked *)
  run 0%Z [AHelp true; AEnv EDone; AHelp true; AEnv ERecv] (open0, SendTimeout 7%Z 5%Z)
    = (World (Chan [] 0 false [] 1) true [], PRet (RBool false)) /\
  (* timeout <= 0: the fired timer is ignored, the call waits for the receiver *)
  run 0%Z [AEnv EDone; AHelp false; AEnv ERecv; AHelp false] (open0, SendTimeout 7%Z 0%Z)
    = (World (Chan [] 0 false [] 0) true [Sent Helper 7%Z; Rcvd Env 7%Z], PRet (RBool true)) /\
  (* both branches ready: either outcome, conservation in both *)
  run 0%Z [AHelp true] (World (Chan [1]%Z 2 false [] 0) true [], SendContext 7%Z)
    = (World (Chan [1; 7]%Z 2 false [] 0) true [Sent Helper 7%Z], PRet (RBool true)) /\
  run 0%Z [AHelp false] (World (Chan [1]%Z 2 false [] 0) true [], SendContext 7%Z)
    = (World (Chan [1]%Z 2 false [] 0) true [], PRet (RBool false)) /\
  (* receive: parked sender on an unbuffered channel; closed and drained channel *)
  run 0%Z [AEnv (ESend 4%Z); AHelp true] (open0, RecvContext)
    = (World (Chan [] 0 false [] 0) false [Sent Env 4%Z; Rcvd Helper 4%Z], PRet (RRecv 4%Z true)) /\
  run 0%Z [AHelp true; AEnv EClose; AHelp true] (open0, RecvTimeout (-1)%Z)
    = (World (Chan [] 0 true [] 0) false [], PRet (RRecv 0%Z false)) /\
  (* RecvQueued alone: prefix taken, rest left, stops at the closure without inventing zeros *)
  run 0%Z (map AHelp [true; true; true]) (World (Chan [1; 2; 3]%Z 3 true [] 0) false [], RecvQueued 2%Z)
    = (World (Chan [3]%Z 3 true [] 0) false [Rcvd Helper 1%Z; Rcvd Helper 2%Z], PRet (RList [1; 2]%Z)) /\
  run 0%Z (map AHelp [true; true; true; true; true; true]) (World (Chan [1; 2]%Z 3 true [] 0) false [], RecvQueued 5%Z)
    = (World (Chan [] 3 true [] 0) false [Rcvd Helper 1%Z; Rcvd Helper 2%Z], PRet (RList [1; 2]%Z)) /\
  (* RecvQueued with concurrent senders (one parked on the full buffer) *)
  run 0%Z [AEnv (ESend 1%Z); AEnv (ESend 2%Z); AHelp true; AEnv (ESend 3%Z); AHelp true; AHelp true; AHelp true; AHelp true]
      (World (Chan ([] : list Z) 1 false [] 0) false [], RecvQueued 5%Z)
    = (World (Chan [] 1 false [] 0) false
         [Sent Env 1%Z; Rcvd Helper 1%Z; Sent Env 2%Z; Rcvd Helper 2%Z; Sent Env 3%Z; Rcvd Helper 3%Z],
       PRet (RList [1; 2; 3]%Z)) /\
  (* RecvQueuedFull: two queued values into a buf of three *)
  run 0%Z (map AHelp [true; true; true; true]) (World (Chan [1; 2]%Z 2 false [] 0) false [], RecvQueuedFull [9; 9; 9]%Z)
    = (World (Chan [] 2 false [] 0) false [Rcvd Helper 1%Z; Rcvd Helper 2%Z], PRet (RFull 2 [1; 2; 9]%Z)).
Proof. vm_compute. repeat split. Qed.

(* parked senders: full buffer [1;2] with senders 3,4,5 parked; RecvQueued 4 takes 1,2,3,4, senders 3,4,5 complete
   (5 moves into the buffer); unbuffered channel with senders 7,8 parked, RecvQueuedFull into a buf of 3 *)
Example C19_parked_example :
  run 0%Z (map AHelp [true; true; true; true; true]) (World (Chan [1; 2]%Z 2 false [3; 4; 5]%Z 0) false [], RecvQueued 4%Z)
    = (World (Chan [5]%Z 2 false [] 0) false
         [Rcvd Helper 1%Z; Sent Env 3%Z; Rcvd Helper 2%Z; Sent Env 4%Z; Rcvd Helper 3%Z; Sent Env 5%Z; Rcvd Helper 4%Z],
       PRet (RList [1; 2; 3; 4]%Z)) /\
  run 0%Z (map AHelp [true; true; true; true]) (World (Chan ([] : list Z) 0 false [7; 8]%Z 0) false [], RecvQueuedFull [9; 9; 9]%Z)
    = (World (Chan [] 0 false [] 0) false [Sent Env 7%Z; Rcvd Helper 7%Z; Sent Env 8%Z; Rcvd Helper 8%Z],
       PRet (RFull 2 [7; 8; 9]%Z))
  /\
  (* the same instance in the terms of the theorem: senders 3,4,5 completed, 5 sits in the buffer, nobody parked *)
  parked_after [1; 2]%Z [3; 4; 5]%Z 2 false 0 false [] 4
    (World (Chan [5]%Z 2 false [] 0) false
       [Rcvd Helper 1%Z; Sent Env 3%Z; Rcvd Helper 2%Z; Sent Env 4%Z; Rcvd Helper 3%Z; Sent Env 5%Z; Rcvd Helper 4%Z]).
Proof. exact parked_example. Qed.
