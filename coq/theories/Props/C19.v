(* C19 — Channel helpers never lose, duplicate or invent a value.
   Statements only; every proof is [exact] of a lemma from
   Chans/HelpersProofs.v.  Quantifiers: every value type, every channel state,
   every schedule of environment actions and helper steps (no bound). *)
From Typ Require Import Lib.Base Lib.Chan Chans.Helpers Chans.HelpersProofs.

(* SendTimeout / SendContext, after ANY interleaving with the other goroutines,
   the timer and the context: the call received nothing; it is still waiting and
   has sent nothing, or returned true and handed its value over exactly once,
   or returned false (only through the timer/context branch) and sent nothing,
   or panicked on a closed channel and sent nothing. *)
Theorem C19_send_iff_handed : forall (V : Type) (zero : V) (sched : list (action V)) (w : world V) (v : V) (p0 : pc V),
  (exists timeout, p0 = SendTimeout v timeout) \/ p0 = SendContext v ->
  send_outcome v p0 w (run zero sched (w, p0)).
Proof. exact @send_iff_handed. Qed.
Print Assumptions C19_send_iff_handed.

Theorem C19_send_no_limit : forall (V : Type) (zero : V) (sched : list (action V)) (w : world V) (v : V) (timeout : Z),
  (timeout <= 0)%Z -> snd (run zero sched (w, SendTimeout v timeout)) <> PRet (RBool false).
Proof. exact @send_no_limit. Qed.
Print Assumptions C19_send_no_limit.
