(* C17 — Once1/Once2/Once3 run the action exactly once and share its results.
   Statements only; every proof is [exact] of a lemma of Sync/OnceProofs.v.

   Quantifiers: every value type V with zero value [zero], every arity (1, 2,
   3 and beyond), every number of goroutines [progs] (one list entry each),
   every list of Do calls per goroutine, every user function (any number of
   steps, any result) per call, every schedule [s] (any interleaving of the
   atomic steps of Sync/Once.v; entries naming a disabled thread are skipped;
   no length bound). [run (init progs) s] is therefore an arbitrary reachable
   configuration. The trace is a ghost log of the steps taken, newest first.
   sync.Once itself is the trusted abstract machine described in Sync/Once.v.
   A user function either returns its result tuple [f_res] or, when
   [f_aborts] is set, leaves by a panic or runtime.Goexit: the Once is then
   consumed all the same, nothing is written to the fields, and the caller of
   that Do produces no response. [outcome_tuple f] is what every Do returns
   once f was the function invoked: its results, or the zero values if it
   aborted. With no aborting function the statements below are literally the
   ones about returning functions only. *)
From Typ Require Import Lib.Base Sync.Once Sync.OnceProofs.

(* Exactly once: at most one function is ever started; never more completions
   than starts; and as soon as any Do has returned, exactly one function has
   been started and exactly that one has completed, once (or, if it aborted,
   none has completed). *)
Theorem C17_exactly_once : forall (V : Type) (zero : V) (arity : nat) (progs : list (list (ufun V))) (s : list tid),
  let tr := c_trace (run zero arity (init zero arity progs) s) in
  length (starts tr) <= 1 /\ length (fins tr) <= length (starts tr) /\
  ((exists t r, In (ERet t r) tr) ->
     exists w f, starts tr = [(w, f)] /\ fins tr = (if f_aborts f then [] else [(w, f_res f)])).
Proof. exact exactly_once. Qed.
Print Assumptions C17_exactly_once.

(* The function that was started is one of those passed to Do, started by the
   thread that passed it. *)
Theorem C17_started_was_passed : forall (V : Type) (zero : V) (arity : nat) (progs : list (list (ufun V))) (s : list tid) t f,
  In (t, f) (starts (c_trace (run zero arity (init zero arity progs) s))) ->
  In (EInv t f) (c_trace (run zero arity (init zero arity progs) s)).
Proof. exact started_was_passed. Qed.
Print Assumptions C17_started_was_passed.

(* Same results: every tuple returned by any Do call, of any thread, at any
   time, is the tuple returned by the single invocation (its first [arity]
   components; all of it when it has [arity] components, as Go's types force);
   the zero values if that invocation panicked or called Goexit. *)
Theorem C17_same_results : forall (V : Type) (zero : V) (arity : nat) (progs : list (list (ufun V))) (s : list tid) t r,
  let c := run zero arity (init zero arity progs) s in
  In (ERet t r) (c_trace c) ->
  exists w f, starts (c_trace c) = [(w, f)] /\ fins (c_trace c) = (if f_aborts f then [] else [(w, f_res f)]) /\
    r = outcome_tuple zero arity f /\
    (f_aborts f = false -> r = tuple zero arity (f_res f) /\ (length (f_res f) = arity -> r = f_res f)) /\
    (f_aborts f = true -> r = repeat zero arity).
Proof. exact same_results. Qed.
Print Assumptions C17_same_results.

(* The same, for the values handed to the callers (per-thread result lists)
   and for the shared fields they were read from. *)
Theorem C17_rets_are_results : forall (V : Type) (zero : V) (arity : nat) (progs : list (list (ufun V))) (s : list tid) t th r,
  let c := run zero arity (init zero arity progs) s in
  nth_error (c_threads c) t = Some th -> In r (th_rets th) ->
  c_once c = ODone /\ r = c_R c /\ exists w f, starts (c_trace c) = [(w, f)] /\ r = outcome_tuple zero arity f.
Proof. exact rets_are_results. Qed.
Print Assumptions C17_rets_are_results.

(* Returns after completion: whenever a Do call returns, the start, every
   step, the completion of the invocation and the release of the Once (or the
   abort that released it) all lie earlier in the trace, and nothing of the
   invocation (no user step, no field write) happens after any response.
   (Trace is newest first.) *)
Theorem C17_returns_after_completion : forall (V : Type) (zero : V) (arity : nat) (progs : list (list (ufun V))) (s : list tid)
    later t r earlier,
  c_trace (run zero arity (init zero arity progs) s) = later ++ ERet t r :: earlier ->
  (exists w f, In (EStart w f) earlier /\
     ((f_aborts f = false /\ In (EFin w (f_res f)) earlier /\ In (EDone w) earlier) \/
      (f_aborts f = true /\ In (EAbort w) earlier))) /\
  (forall e, In e later -> ~ is_work e).
Proof. exact returns_after_completion. Qed.
Print Assumptions C17_returns_after_completion.

(* A function that panics or calls runtime.Goexit consumes the Once: from the
   abort on, in every reachable configuration, the Once is done; the fields
   were never written (no write event at all) and hold the zero values; the
   aborting function is the only one ever started and it never completed;
   every Do that returns - callers that were waiting and callers arriving
   later alike - returns the zero values; the aborting caller itself is gone.
   (That no other function is started afterwards is C17_exactly_once; that the
   waiting callers are released is C17_no_deadlock.) *)
Theorem C17_abort_consumes : forall (V : Type) (zero : V) (arity : nat) (progs : list (list (ufun V))) (s : list tid) w,
  let c := run zero arity (init zero arity progs) s in
  In (EAbort w) (c_trace c) ->
  c_once c = ODone /\ c_R c = repeat zero arity /\
  (exists f, starts (c_trace c) = [(w, f)] /\ f_aborts f = true) /\ fins (c_trace c) = [] /\
  (forall e, In e (c_trace c) -> ~ is_write e) /\
  (forall t r, In (ERet t r) (c_trace c) -> r = repeat zero arity) /\
  (exists th, nth_error (c_threads c) w = Some th /\ th_pc th = PDead).
Proof. exact abort_consumes. Qed.
Print Assumptions C17_abort_consumes.

(* Lock-discipline form of race freedom: a thread about to make the plain
   write of field i holds the Once (state Running t); a thread about to make a
   plain read does so in state ODone ... *)
Theorem C17_access_discipline : forall (V : Type) (zero : V) (arity : nat) (progs : list (list (ufun V))) (s : list tid) t a,
  let c := run zero arity (init zero arity progs) s in
  next_access arity c t = Some a ->
  match a with AWrite i => c_once c = Running t /\ i < arity | ARead i => c_once c = ODone /\ i < arity end.
Proof. exact access_discipline. Qed.
Print Assumptions C17_access_discipline.

(* ... hence in no reachable configuration are two different threads about to
   access the fields unless both only read. *)
Theorem C17_no_plain_race : forall (V : Type) (zero : V) (arity : nat) (progs : list (list (ufun V))) (s : list tid) t1 t2 a1 a2,
  let c := run zero arity (init zero arity progs) s in
  t1 <> t2 -> next_access arity c t1 = Some a1 -> next_access arity c t2 = Some a2 ->
  exists i j, a1 = ARead i /\ a2 = ARead j.
Proof. exact no_plain_race. Qed.
Print Assumptions C17_no_plain_race.

(* The wrapper adds no deadlock: some thread can move until every call has
   returned or its goroutine is gone ([finished]); in particular callers
   waiting while the invoked function aborts are released. *)
Theorem C17_no_deadlock : forall (V : Type) (zero : V) (arity : nat) (progs : list (list (ufun V))) (s : list tid),
  let c := run zero arity (init zero arity progs) s in
  finished c \/ exists t c', step zero arity c t = Some c'.
Proof. exact no_deadlock. Qed.
Print Assumptions C17_no_deadlock.

(* Non-vacuity: three goroutines on a Once2; thread 1 wins the race while
   thread 0 is already inside Do, thread 2 arrives later, thread 0 calls twice.
   Every call returns thread 1's (5,6), one function ran, all calls returned.
   Second scenario: thread 0's function panics / calls Goexit after one step
   while thread 1 is waiting inside Do; thread 2 arrives later. Thread 0 never
   returns, the others get the zero values (0,0), no other function starts. *)
Example C17_example :
  let progs := [[UFun 1 [7;8] false; UFun 0 [1;1] false]; [UFun 2 [5;6] false]; [UFun 0 [9;9] false]]%Z in
  let c := run 0%Z 2 (init 0%Z 2 progs) ([0;1;1;0;1;1;1;1;1;1;1;1;1] ++ repeat 0 20 ++ repeat 2 10) in
  starts (c_trace c) = [(1, UFun 2 [5;6]%Z false)] /\ fins (c_trace c) = [(1, [5;6]%Z)] /\
  map (@th_rets Z) (c_threads c) = [[[5;6];[5;6]]; [[5;6]]; [[5;6]]]%Z /\
  (exists t r, In (ERet t r) (c_trace c)) /\ c_once c = ODone /\
  let progs' := [[UFun 1 [7;8] true; UFun 0 [1;1] false]; [UFun 2 [5;6] false]; [UFun 0 [9;9] false]]%Z in
  let c' := run 0%Z 2 (init 0%Z 2 progs') ([0;0;1;1;1;0;0] ++ repeat 1 10 ++ repeat 2 10 ++ repeat 0 10) in
  starts (c_trace c') = [(0, UFun 1 [7;8]%Z true)] /\ fins (c_trace c') = [] /\ In (EAbort 0) (c_trace c') /\
  map (@th_rets Z) (c_threads c') = [[]; [[0;0]]; [[0;0]]]%Z /\ c_R c' = [0;0]%Z /\
  map (@th_pc Z) (c_threads c') = [PDead; PIdle; PIdle].
Proof.
  vm_compute. repeat split; try reflexivity.
  - exists 2, [5;6]%Z. left. reflexivity.
  - tauto.
Qed.
