(* C17 — Once1/Once2/Once3 run the action exactly once and share its results.
   Statements only; every proof is [exact] of a lemma of Sync/OnceProofs.v
   (abstract Once machine) or Sync/OnceImplProofs.v (transcription of
   sync.Once and the refinement).

   Quantifiers: every value type V with zero value [zero], every arity (1, 2,
   3 and beyond), every number of goroutines [progs] (one list entry each),
   every list of Do calls per goroutine, every user function (any number of
   steps, any result) per call, every schedule [s] (any interleaving of the
   atomic steps of Sync/Once.v; entries naming a disabled thread are skipped;
   no length bound). [run (init progs) s] is therefore an arbitrary reachable
   configuration. The trace is a ghost log of the steps taken, newest first.
   sync.Once is the abstract machine described in Sync/Once.v; the second part
   of this file (C17_once_refinement and the C17_impl_* theorems) shows that
   this machine is a sound abstraction of sync.Once's own code transcribed
   over sync.Mutex and an atomic flag (Sync/OnceImpl.v), so that what is
   trusted is the mutex and the atomic load/store, not a contract of Once.
   A user function either returns its result tuple [f_res] or, when
   [f_aborts] is set, leaves by a panic or runtime.Goexit: the Once is then
   consumed all the same, nothing is written to the fields, and the caller of
   that Do produces no response. [outcome_tuple f] is what every Do returns
   once f was the function invoked: its results, or the zero values if it
   aborted. With no aborting function the statements below are literally the
   ones about returning functions only. *)
From Typ Require Import Lib.Base Sync.Once Sync.OnceProofs Sync.OnceImpl Sync.OnceImplProofs.

(* Exactly once: at most one function is ever started; never more completions
   than starts; and as soon as any Do has returned, exactly one function has
   been started and exactly that one has completed, once (or, if it aborted,
   none has completed). *)
Theorem C17_exactly_once : forall (V : Type) (zero : V) (arity : nat) (progs : list (list (ufun V))) (s : list tid),
  let tr := c_trace (run zero arity (init zero arity progs) s) in
  length (starts tr) <= 1 /\ length (fins tr) <= length (starts tr) /\
  ((exists t r, In (ERet t r) tr) ->
     exists w f, starts tr = [(w, f)] /\ fins tr = (if f_aborts f then [] else [(w, f_res f)])).
Proof. exact exactly_once. Qed.
Print Assumptions C17_exactly_once.

(* The function that was started is one of those passed to Do, started by the
   thread that passed it. *)
Theorem C17_started_was_passed : forall (V : Type) (zero : V) (arity : nat) (progs : list (list (ufun V))) (s : list tid) t f,
  In (t, f) (starts (c_trace (run zero arity (init zero arity progs) s))) ->
  In (EInv t f) (c_trace (run zero arity (init zero arity progs) s)).
Proof. exact started_was_passed. Qed.
Print Assumptions C17_started_was_passed.

(* Same results: every tuple returned by any Do call, of any thread, at any
   time, is the tuple returned by the single invocation (its first [arity]
   components; all of it when it has [arity] components, as Go's types force);
   the zero values if that invocation panicked or called Goexit. *)
Theorem C17_same_results : forall (V : Type) (zero : V) (arity : nat) (progs : list (list (ufun V))) (s : list tid) t r,
  let c := run zero arity (init zero arity progs) s in
  In (ERet t r) (c_trace c) ->
  exists w f, starts (c_trace c) = [(w, f)] /\ fins (c_trace c) = (if f_aborts f then [] else [(w, f_res f)]) /\
    r = outcome_tuple zero arity f /\
    (f_aborts f = false -> r = tuple zero arity (f_res f) /\ (length (f_res f) = arity -> r = f_res f)) /\
    (f_aborts f = true -> r = repeat zero arity).
Proof. exact same_results. Qed.
Print Assumptions C17_same_results.

(* The same, for the values handed to the callers (per-thread result lists)
   and for the shared fields they were read from. *)
Theorem C17_rets_are_results : forall (V : Type) (zero : V) (arity : nat) (progs : list (list (ufun V))) (s : list tid) t th r,
  let c := run zero arity (init zero arity progs) s in
  nth_error (c_threads c) t = Some th -> In r (th_rets th) ->
  c_once c = ODone /\ r = c_R c /\ exists w f, starts (c_trace c) = [(w, f)] /\ r = outcome_tuple zero arity f.
Proof. exact rets_are_results. Qed.
Print Assumptions C17_rets_are_results.

(* Returns after completion: whenever a Do call returns, the start, every
   step, the completion of the invocation and the release of the Once (or the
   abort that released it) all lie earlier in the trace, and nothing of the
   invocation (no user step, no field write) happens after any response.
   (Trace is newest first.) *)
Theorem C17_returns_after_completion : forall (V : Type) (zero : V) (arity : nat) (progs : list (list (ufun V))) (s : list tid)
    later t r earlier,
  c_trace (run zero arity (init zero arity progs) s) = later ++ ERet t r :: earlier ->
  (exists w f, In (EStart w f) earlier /\
     ((f_aborts f = false /\ In (EFin w (f_res f)) earlier /\ In (EDone w) earlier) \/
      (f_aborts f = true /\ In (EAbort w) earlier))) /\
  (forall e, In e later -> ~ is_work e).
Proof. exact returns_after_completion. Qed.
Print Assumptions C17_returns_after_completion.

(* A function that panics or calls runtime.Goexit consumes the Once: from the
   abort on, in every reachable configuration, the Once is done; the fields
   were never written (no write event at all) and hold the zero values; the
   aborting function is the only one ever started and it never completed;
   every Do that returns - callers that were waiting and callers arriving
   later alike - returns the zero values; the aborting caller itself is gone.
   (That no other function is started afterwards is C17_exactly_once; that the
   waiting callers are released is C17_no_deadlock.) *)
Theorem C17_abort_consumes : forall (V : Type) (zero : V) (arity : nat) (progs : list (list (ufun V))) (s : list tid) w,
  let c := run zero arity (init zero arity progs) s in
  In (EAbort w) (c_trace c) ->
  c_once c = ODone /\ c_R c = repeat zero arity /\
  (exists f, starts (c_trace c) = [(w, f)] /\ f_aborts f = true) /\ fins (c_trace c) = [] /\
  (forall e, In e (c_trace c) -> ~ is_write e) /\
  (forall t r, In (ERet t r) (c_trace c) -> r = repeat zero arity) /\
  (exists th, nth_error (c_threads c) w = Some th /\ th_pc th = PDead).
Proof. exact abort_consumes. Qed.
Print Assumptions C17_abort_consumes.

(* Lock-discipline form of race freedom: a thread about to make the plain
   write of field i holds the Once (state Running t); a thread about to make a
   plain read does so in state ODone ... *)
Theorem C17_access_discipline : forall (V : Type) (zero : V) (arity : nat) (progs : list (list (ufun V))) (s : list tid) t a,
  let c := run zero arity (init zero arity progs) s in
  next_access arity c t = Some a ->
  match a with AWrite i => c_once c = Running t /\ i < arity | ARead i => c_once c = ODone /\ i < arity end.
Proof. exact access_discipline. Qed.
Print Assumptions C17_access_discipline.

(* ... hence in no reachable configuration are two different threads about to
   access the fields unless both only read. *)
Theorem C17_no_plain_race : forall (V : Type) (zero : V) (arity : nat) (progs : list (list (ufun V))) (s : list tid) t1 t2 a1 a2,
  let c := run zero arity (init zero arity progs) s in
  t1 <> t2 -> next_access arity c t1 = Some a1 -> next_access arity c t2 = Some a2 ->
  exists i j, a1 = ARead i /\ a2 = ARead j.
Proof. exact no_plain_race. Qed.
Print Assumptions C17_no_plain_race.

(* The wrapper adds no deadlock: some thread can move until every call has
   returned or its goroutine is gone ([finished]); in particular callers
   waiting while the invoked function aborts are released. *)
Theorem C17_no_deadlock : forall (V : Type) (zero : V) (arity : nat) (progs : list (list (ufun V))) (s : list tid),
  let c := run zero arity (init zero arity progs) s in
  finished c \/ exists t c', step zero arity c t = Some c'.
Proof. exact no_deadlock. Qed.
Print Assumptions C17_no_deadlock.

(* Finished runs: if anybody called Do at all and every call has returned (or
   its goroutine is gone), exactly one function was started, and it completed
   exactly once unless it aborted - no response needs to be exhibited. *)
Theorem C17_finished_exactly_one : forall (V : Type) (zero : V) (arity : nat) (progs : list (list (ufun V))) (s : list tid),
  let c := run zero arity (init zero arity progs) s in
  finished c -> (exists t f, In (EInv t f) (c_trace c)) ->
  length (starts (c_trace c)) = 1 /\
  exists w f, starts (c_trace c) = [(w, f)] /\ fins (c_trace c) = (if f_aborts f then [] else [(w, f_res f)]).
Proof. exact finished_exactly_one. Qed.
Print Assumptions C17_finished_exactly_one.

(* Termination: every step of the machine decreases a measure (the steps each
   thread still has to make), ... *)
Theorem C17_step_decreases : forall (V : Type) (zero : V) (arity : nat) (c : config V) (t : tid) (c' : config V),
  step zero arity c t = Some c' -> cost V arity c' < cost V arity c.
Proof. exact step_decreases. Qed.
Print Assumptions C17_step_decreases.

(* ... so, with C17_no_deadlock, every run can be extended to a finished one:
   "exactly one function is invoked" is not only true of runs that happen to
   exhibit a response. (No fairness is claimed: an unfair schedule may keep
   naming disabled or finished threads for ever.) *)
Theorem C17_can_finish : forall (V : Type) (zero : V) (arity : nat) (progs : list (list (ufun V))) (s : list tid),
  exists s2, finished (run zero arity (init zero arity progs) (s ++ s2)).
Proof. exact can_finish. Qed.
Print Assumptions C17_can_finish.

(* ================================================================== *)
(*  sync.Once itself: transcription over Mutex + atomic flag, and the   *)
(*  proof that the abstract machine above simulates it                   *)
(* ================================================================== *)

(* REFINEMENT. [crun (cinit progs) s] is an arbitrary reachable configuration
   of OnceN.Do with sync.Once's code inlined (fast path done.Load, doSlow:
   m.Lock, defer m.Unlock, done.Load, defer done.Store(1), the closure; one
   step per atomic operation, deferred calls also on panic / Goexit). Seen
   through [abs] (Once state := ODone if done = 1, Running w if the mutex
   holder w is between the second done.Load and the done.Store, NotStarted
   otherwise; program counters collapsed) it is a configuration the abstract
   machine reaches under some schedule s'. [abs] keeps the trace, the fields
   and every thread's results, so every theorem above transfers. *)
Theorem C17_once_refinement : forall (V : Type) (zero : V) (arity : nat) (progs : list (list (ufun V))) (s : list tid),
  exists s', abs (crun zero arity (cinit zero arity progs) s) = run zero arity (init zero arity progs) s'.
Proof. exact once_refines. Qed.
Print Assumptions C17_once_refinement.

Theorem C17_abs_observables : forall (V : Type) (c : cconfig V),
  c_trace (abs c) = cc_trace c /\ c_R (abs c) = cc_R c /\
  map (@th_rets V) (c_threads (abs c)) = map (@ct_rets V) (cc_threads c) /\
  map (@th_prog V) (c_threads (abs c)) = map (@ct_prog V) (cc_threads c).
Proof. exact abs_observables. Qed.
Print Assumptions C17_abs_observables.

(* The contract of sync.Once, now proved of its code: at most one function is
   ever started; ... *)
Theorem C17_impl_exactly_once : forall (V : Type) (zero : V) (arity : nat) (progs : list (list (ufun V))) (s : list tid),
  let tr := cc_trace (crun zero arity (cinit zero arity progs) s) in
  length (starts tr) <= 1 /\ length (fins tr) <= length (starts tr) /\
  ((exists t r, In (ERet t r) tr) ->
     exists w f, starts tr = [(w, f)] /\ fins tr = (if f_aborts f then [] else [(w, f_res f)])).
Proof. exact impl_exactly_once. Qed.
Print Assumptions C17_impl_exactly_once.

(* ... every Do returns the invocation's results, which are what the fields hold; ... *)
Theorem C17_impl_same_results : forall (V : Type) (zero : V) (arity : nat) (progs : list (list (ufun V))) (s : list tid) t r,
  let c := crun zero arity (cinit zero arity progs) s in
  In (ERet t r) (cc_trace c) ->
  exists w f, starts (cc_trace c) = [(w, f)] /\ r = outcome_tuple zero arity f /\ cc_R c = outcome_tuple zero arity f.
Proof. exact impl_same_results. Qed.
Print Assumptions C17_impl_same_results.

(* ... no Do returns before done = 1 was stored ([EDone] / [EAbort] are logged
   by exactly the two done.Store steps), which is after the closure returned
   or aborted; and no step of the closure happens after any return, i.e. no
   Do returns while the function runs; ... *)
Theorem C17_impl_returns_after_store : forall (V : Type) (zero : V) (arity : nat) (progs : list (list (ufun V))) (s : list tid)
    later t r earlier,
  cc_trace (crun zero arity (cinit zero arity progs) s) = later ++ ERet t r :: earlier ->
  (exists w f, In (EStart w f) earlier /\
     ((f_aborts f = false /\ In (EFin w (f_res f)) earlier /\ In (EDone w) earlier) \/
      (f_aborts f = true /\ In (EAbort w) earlier))) /\
  (forall e, In e later -> ~ is_work e).
Proof. exact impl_returns_after_store. Qed.
Print Assumptions C17_impl_returns_after_store.

(* ... a function that panics or calls Goexit consumes the Once (done = 1, no
   field ever written, every response carries the zero values); ... *)
Theorem C17_impl_abort_consumes : forall (V : Type) (zero : V) (arity : nat) (progs : list (list (ufun V))) (s : list tid) w,
  let c := crun zero arity (cinit zero arity progs) s in
  In (EAbort w) (cc_trace c) ->
  cc_done c = true /\ cc_R c = repeat zero arity /\
  (exists f, starts (cc_trace c) = [(w, f)] /\ f_aborts f = true) /\ fins (cc_trace c) = [] /\
  (forall e, In e (cc_trace c) -> ~ is_write e) /\
  (forall t r, In (ERet t r) (cc_trace c) -> r = repeat zero arity).
Proof. exact impl_abort_consumes. Qed.
Print Assumptions C17_impl_abort_consumes.

(* ... and the code does not deadlock: the mutex is always released (also on
   panic / Goexit), so some thread can move until every call has returned. *)
Theorem C17_impl_no_deadlock : forall (V : Type) (zero : V) (arity : nat) (progs : list (list (ufun V))) (s : list tid),
  let c := crun zero arity (cinit zero arity progs) s in
  cfinished c \/ exists t c', cstep zero arity c t = Some c'.
Proof. exact impl_no_deadlock. Qed.
Print Assumptions C17_impl_no_deadlock.

(* (For the transcription no termination measure is proved: a run of it can be
   continued while it is unfinished; if it is finished, then ...) *)
Theorem C17_impl_finished_exactly_one : forall (V : Type) (zero : V) (arity : nat) (progs : list (list (ufun V))) (s : list tid),
  let c := crun zero arity (cinit zero arity progs) s in
  cfinished c -> (exists t f, In (EInv t f) (cc_trace c)) ->
  length (starts (cc_trace c)) = 1 /\
  exists w f, starts (cc_trace c) = [(w, f)] /\ fins (cc_trace c) = (if f_aborts f then [] else [(w, f_res f)]).
Proof. exact impl_finished_exactly_one. Qed.
Print Assumptions C17_impl_finished_exactly_one.

(* Lock discipline of the plain field accesses in the transcription: a thread
   about to write field i holds the mutex and done is still 0; a thread about
   to read a field does so in a configuration in which done = 1 has been
   stored (it got there by loading done = 1 on the fast path, or under the
   mutex, or by storing it itself) ... *)
Theorem C17_impl_access_discipline : forall (V : Type) (zero : V) (arity : nat) (progs : list (list (ufun V))) (s : list tid) t a,
  let c := crun zero arity (cinit zero arity progs) s in
  cnext_access arity c t = Some a ->
  match a with
  | AWrite i => cc_done c = false /\ cc_mutex c = Some t /\ i < arity
  | ARead i => cc_done c = true /\ i < arity
  end.
Proof. exact impl_access_discipline. Qed.
Print Assumptions C17_impl_access_discipline.

(* ... hence never two conflicting plain accesses enabled at once. *)
Theorem C17_impl_no_plain_race : forall (V : Type) (zero : V) (arity : nat) (progs : list (list (ufun V))) (s : list tid) t1 t2 a1 a2,
  let c := crun zero arity (cinit zero arity progs) s in
  t1 <> t2 -> cnext_access arity c t1 = Some a1 -> cnext_access arity c t2 = Some a2 ->
  exists i j, a1 = ARead i /\ a2 = ARead j.
Proof. exact impl_no_plain_race. Qed.
Print Assumptions C17_impl_no_plain_race.

(* Non-vacuity: three goroutines on a Once2; thread 1 wins the race while
   thread 0 is already inside Do, thread 2 arrives later, thread 0 calls twice.
   Every call returns thread 1's (5,6), one function ran, all calls returned.
   Second scenario: thread 0's function panics / calls Goexit after one step
   while thread 1 is waiting inside Do; thread 2 arrives later. Thread 0 never
   returns, the others get the zero values (0,0), no other function starts. *)
Example C17_example :
  let progs := [[UFun 1 [7;8] false; UFun 0 [1;1] false]; [UFun 2 [5;6] false]; [UFun 0 [9;9] false]]%Z in
  let c := run 0%Z 2 (init 0%Z 2 progs) ([0;1;1;0;1;1;1;1;1;1;1;1;1] ++ repeat 0 20 ++ repeat 2 10) in
  starts (c_trace c) = [(1, UFun 2 [5;6]%Z false)] /\ fins (c_trace c) = [(1, [5;6]%Z)] /\
  map (@th_rets Z) (c_threads c) = [[[5;6];[5;6]]; [[5;6]]; [[5;6]]]%Z /\
  (exists t r, In (ERet t r) (c_trace c)) /\ c_once c = ODone /\
  let progs' := [[UFun 1 [7;8] true; UFun 0 [1;1] false]; [UFun 2 [5;6] false]; [UFun 0 [9;9] false]]%Z in
  let c' := run 0%Z 2 (init 0%Z 2 progs') ([0;0;1;1;1;0;0] ++ repeat 1 10 ++ repeat 2 10 ++ repeat 0 10) in
  starts (c_trace c') = [(0, UFun 1 [7;8]%Z true)] /\ fins (c_trace c') = [] /\ In (EAbort 0) (c_trace c') /\
  map (@th_rets Z) (c_threads c') = [[]; [[0;0]]; [[0;0]]]%Z /\ c_R c' = [0;0]%Z /\
  map (@th_pc Z) (c_threads c') = [PDead; PIdle; PIdle].
Proof.
  vm_compute. repeat split; try reflexivity.
  - exists 2, [5;6]%Z. left. reflexivity.
  - tauto.
Qed.

(* Non-vacuity for the transcription: thread 0 passes the fast path, takes the
   mutex and runs its function; thread 1 passes the fast path too (done is
   still 0) and blocks on the mutex; after thread 0 stored done and unlocked,
   thread 1 locks, sees done = 1, unlocks and reads; thread 2 arrives later
   and takes the fast path. All get (7,8); the run is finished; an aborting
   variant leaves the others with (0,0) and the mutex free. *)
Example C17_impl_example :
  let progs := [[UFun 1 [7;8] false]; [UFun 0 [5;6] false]; [UFun 0 [9;9] false]]%Z in
  let c := crun 0%Z 2 (cinit 0%Z 2 progs) ([0;0;1;1;0;0;1;0;1] ++ repeat 0 12 ++ repeat 1 8 ++ repeat 2 8) in
  starts (cc_trace c) = [(0, UFun 1 [7;8]%Z false)] /\ cc_done c = true /\ cc_mutex c = None /\
  map (@ct_rets Z) (cc_threads c) = [[[7;8]]; [[7;8]]; [[7;8]]]%Z /\
  map (@ct_pc Z) (cc_threads c) = [CIdle; CIdle; CIdle] /\
  (exists t f, In (EInv t f) (cc_trace c)) /\ cfinished c /\ finished (abs c) /\
  let progs' := [[UFun 1 [7;8] true]; [UFun 0 [5;6] false]; [UFun 0 [9;9] false]]%Z in
  let c' := crun 0%Z 2 (cinit 0%Z 2 progs') ([0;0;1;1;0;0;1;0;1] ++ repeat 0 12 ++ repeat 1 8 ++ repeat 2 8) in
  In (EAbort 0) (cc_trace c') /\ cc_done c' = true /\ cc_mutex c' = None /\
  map (@ct_rets Z) (cc_threads c') = [[]; [[0;0]]; [[0;0]]]%Z /\
  map (@ct_pc Z) (cc_threads c') = [CDead; CIdle; CIdle].
Proof.
  assert (F3 : forall (A : Type) (P : nat -> A -> Prop) (a b c : A),
            P 0 a -> P 1 b -> P 2 c -> forall t x, nth_error [a; b; c] t = Some x -> P t x).
  { intros A P a b c Ha Hb Hc [|[|[|t]]] x H; simpl in H; try (injection H as <-; assumption).
    destruct t; discriminate. }
  vm_compute. repeat split; try reflexivity.
  - exists 2, (UFun 0 [9;9]%Z false). tauto.
  - apply F3; right; split; reflexivity.
  - apply F3; right; split; reflexivity.
  - tauto.
Qed.

(* Non-vacuity of the access theorems and of the measure: thread 0 is about to
   write field 0 (it holds the mutex, done = 0) while thread 1 waits for the
   mutex; later both are about to read (done = 1). One abstract step costs 1. *)
Example C17_impl_access_example :
  let progs := [[UFun 0 [7;8] false]; [UFun 0 [5;6] false]]%Z in
  let c := crun 0%Z 2 (cinit 0%Z 2 progs) [0;0;1;1;0;0;0] in
  cnext_access 2 c 0 = Some (AWrite 0) /\ cnext_access 2 c 1 = None /\
  cc_done c = false /\ cc_mutex c = Some 0 /\
  let c2 := crun 0%Z 2 c [0;0;0;0;0;1;1;1] in
  cnext_access 2 c2 0 = Some (ARead 0) /\ cnext_access 2 c2 1 = Some (ARead 0) /\ cc_done c2 = true /\
  let a := init 0%Z 2 progs in
  exists a', step 0%Z 2 a 0 = Some a' /\ cost Z 2 a = 20 /\ cost Z 2 a' = 19.
Proof. vm_compute. repeat split; try reflexivity. eexists. repeat split; reflexivity. Qed.
