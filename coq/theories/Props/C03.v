(* C03 — Set operations equal mathematical set algebra in both implementations. *)
From Typ Require Import Sets.AnySet Sets.MapSetProofs.

Theorem C03_ms_add : forall (s : mapset) v,
  (ms_Add s v).1 = {[v]} ∪ s ∧ (ms_Add s v).2 = bool_decide (v ∉ s).
Proof. exact ms_Add_spec. Qed.
Print Assumptions C03_ms_add.
