(* C03 — Set operations equal mathematical set algebra in both implementations.
   Statements only; every proof is [exact] of a lemma of Sets/SetsInst.v
   (which discharges the sync2.Map refinement hypotheses of Sets/*Proofs.v
   with SyncMap/SeqProofs.v).

   Vocabulary. [anyset] = a sets.Set[int] value: [AM s] a maps.Set (s : gset Z),
   [AS s] a *sync2.Set (s : the read map / dirty map / entry heap of its
   sync2.Map). [abs a : gset Z] = the set it stands for. [wf_set a] = the
   structural invariant of the sync2.Map inside (True for a maps.Set); it holds
   of every value a history of calls can produce (C03_histories), whatever
   nil / expunged / promoted entries the history left behind.
   The methods ([as_Bin], [as_Add], ... of Sets/AnySet.v) dispatch on the
   dynamic type of the receiver and reach their argument through the
   interface, so quantifying over a, b : anyset covers the four pairings.
   They return the new states of receiver and argument next to the result:
   internal layout (miss counter, promotion) may change, [abs] may not.
   Visit orders ([oa], [ob], [order]) are the orders in which the Go runtime
   iterates the underlying maps: arbitrary, except that every key is visited
   exactly once ([covers]; C03_go_orders_cover shows that the orders Go can
   produce satisfy it). Quantifiers: all sets, all values, all orders; no bound. *)
From Typ Require Import Sets.AnySet Sets.MapSetProofs Sets.SyncSetProofs Sets.AnySetProofs Sets.SetsInst SyncMap.SeqProofs Sets.SetsCheck.
From stdpp Require Import gmap list.
Local Open Scope Z_scope.

(* Union / Intersect / SetDiff / SymDiff ([set_bin]: ∪, ∩, ∖, (X∖Y)∪(Y∖X)) return
   exactly the set-algebra result in a well-formed result value (a separate value
   of the model: that the real result shares no memory with the operands is
   checked by the harness only, a value model cannot say it); both operands keep
   their membership. All four pairings, every visit order. *)
Theorem C03_binary_ops : ∀ (o : binop) (a b : anyset) (oa ob : list Z),
  wf_set a → wf_set b → covers (abs a) oa → covers (abs b) ob →
  ∃ r a' b', as_Bin o a b oa ob = Ok (r, a', b') ∧
    wf_set r ∧ abs r = set_bin o (abs a) (abs b) ∧
    wf_set a' ∧ abs a' = abs a ∧ wf_set b' ∧ abs b' = abs b.
Proof. exact (as_Bin_spec WF seq_ok_WF). Qed.
Print Assumptions C03_binary_ops.

(* Add reports true exactly when the value was not a member, and makes it one. *)
Theorem C03_add : ∀ (a : anyset) (v : Z), wf_set a →
  ∃ a', as_Add a v = Ok (a', bool_decide (v ∉ abs a)) ∧ wf_set a' ∧ abs a' = {[v]} ∪ abs a.
Proof. exact (as_Add_spec WF seq_ok_WF). Qed.
Print Assumptions C03_add.

(* Remove reports true exactly when the value was a member, and removes it. *)
Theorem C03_remove : ∀ (a : anyset) (v : Z), wf_set a →
  wf_set (as_Remove a v).1 ∧ abs (as_Remove a v).1 = abs a ∖ {[v]} ∧
  (as_Remove a v).2 = bool_decide (v ∈ abs a).
Proof. exact (as_Remove_spec WF seq_ok_WF). Qed.
Print Assumptions C03_remove.

(* AddSet returns exactly the number of members gained; the argument keeps its membership. *)
Theorem C03_addset : ∀ (a b : anyset) (ob : list Z), wf_set a → wf_set b → covers (abs b) ob →
  ∃ a' b', as_AddSet a b ob = Ok (a', b', Z.of_nat (size (abs b ∖ abs a))) ∧
    wf_set a' ∧ abs a' = abs a ∪ abs b ∧ wf_set b' ∧ abs b' = abs b.
Proof. exact (as_AddSet_spec WF seq_ok_WF). Qed.
Print Assumptions C03_addset.

(* RemoveSet returns exactly the number of members lost. *)
Theorem C03_removeset : ∀ (a b : anyset) (ob : list Z), wf_set a → wf_set b → covers (abs b) ob →
  ∃ a' b', as_RemoveSet a b ob = (a', b', Z.of_nat (size (abs a ∩ abs b))) ∧
    wf_set a' ∧ abs a' = abs a ∖ abs b ∧ wf_set b' ∧ abs b' = abs b.
Proof. exact (as_RemoveSet_spec WF seq_ok_WF). Qed.
Print Assumptions C03_removeset.

(* Has, Len, Slice, String agree with the membership and do not change it:
   Slice returns the members in visit order ([visit]), String their text
   "{v v v}" ([toks_of]). *)
Theorem C03_observers : ∀ (a : anyset) (order : list Z), wf_set a →
  (∀ v, wf_set (as_Has a v).1 ∧ abs (as_Has a v).1 = abs a ∧ (as_Has a v).2 = bool_decide (v ∈ abs a)) ∧
  (covers (abs a) order →
     wf_set (as_Len a order).1 ∧ abs (as_Len a order).1 = abs a ∧ (as_Len a order).2 = Z.of_nat (size (abs a))) ∧
  (wf_set (as_Slice a order).1 ∧ abs (as_Slice a order).1 = abs a ∧ (as_Slice a order).2 = visit (abs a) order) ∧
  (wf_set (as_String a order).1 ∧ abs (as_String a order).1 = abs a ∧ (as_String a order).2 = toks_of (visit (abs a) order)).
Proof. exact observers_spec. Qed.
Print Assumptions C03_observers.

(* ... where the members in visit order are every member exactly once. *)
Theorem C03_enumeration : ∀ (X : gset Z) (order : list Z), covers X order →
  NoDup (visit X order) ∧ visit X order ≡ₚ elements X ∧ length (visit X order) = size X ∧
  ∀ v, v ∈ visit X order ↔ v ∈ X.
Proof. exact visit_enumerates. Qed.
Print Assumptions C03_enumeration.

(* Range passes the members in visit order to the callback and stops as soon as
   the callback returns false ([range_cb]); a callback that returns false at
   its j-th call ([stop_cb j]; j = 0: never) is called exactly min j |s| times,
   on the first members of the enumeration. *)
Theorem C03_range : ∀ (a : anyset) (order : list Z), wf_set a →
  (∀ A (f : A → Z → A * bool) acc,
     wf_set (as_Range a order f acc).1 ∧ abs (as_Range a order f acc).1 = abs a ∧
     (as_Range a order f acc).2 = range_cb f acc (visit (abs a) order)) ∧
  (∀ j, covers (abs a) order →
     let r := as_Range a order (stop_cb j) (O, []) in
     r.2.2 = take_stop j (visit (abs a) order) ∧
     r.2.1 = length r.2.2 ∧
     r.2.1 = match j with O => size (abs a) | _ => Nat.min j (size (abs a)) end).
Proof. exact range_spec. Qed.
Print Assumptions C03_range.

(* Clone: a well-formed result value with the same members (no shared memory: harness only).
   a and b above, and receiver and argument everywhere, are two different objects:
   a.Union(a) etc. are outside these theorems (direct oracle only). *)
Theorem C03_clone : ∀ (a : anyset) (order : list Z), wf_set a → covers (abs a) order →
  ∃ a' c, as_Clone a order = Ok (a', c) ∧ wf_set a' ∧ abs a' = abs a ∧ wf_set c ∧ abs c = abs a.
Proof. exact (as_Clone_spec WF seq_ok_WF). Qed.
Print Assumptions C03_clone.

(* The empty sets and NewSetFromSlice / NewSetFromKeys / NewSetFromValues of
   either package (i : impl) hold exactly the given values. *)
Theorem C03_constructors : ∀ (i : AnySet.impl),
  (wf_set (new_set i) ∧ abs (new_set i) = ∅) ∧
  (∀ l, ∃ a, new_from i (ms_NewSetFromSlice l) (ss_NewSetFromSlice l) = Ok a ∧ wf_set a ∧ abs a = list_to_set l) ∧
  (∀ m, ∃ a, new_from i (ms_NewSetFromKeys m) (ss_NewSetFromKeys m) = Ok a ∧ wf_set a ∧ abs a = list_to_set (map fst m)) ∧
  (∀ m, ∃ a, new_from i (ms_NewSetFromValues m) (ss_NewSetFromValues m) = Ok a ∧ wf_set a ∧ abs a = list_to_set (map snd m)).
Proof. exact (λ i, conj (new_set_spec i) (constructors_spec i)). Qed.
Print Assumptions C03_constructors.

(* CartesianProduct yields exactly the |A|*|B| distinct pairs (every inner
   Range may use its own visit order [ob va]). *)
Theorem C03_cartesian : ∀ (a b : anyset) (oa : list Z) (ob : Z → list Z),
  wf_set a → wf_set b → covers (abs a) oa → (∀ va, covers (abs b) (ob va)) →
  let r := CartesianProduct a b oa ob in
  wf_set r.1.1 ∧ abs r.1.1 = abs a ∧ wf_set r.1.2 ∧ abs r.1.2 = abs b ∧
  NoDup r.2 ∧ length r.2 = (size (abs a) * size (abs b))%nat ∧
  ∀ x y, (x, y) ∈ r.2 ↔ x ∈ abs a ∧ y ∈ abs b.
Proof. exact cartesian_spec. Qed.
Print Assumptions C03_cartesian.

(* All construction histories: any sequence of calls of the whole interface on
   a growing table of handles of both implementations (adds, removes, re-adds,
   observers and ranges that promote, binary operations in any pairing storing
   their result in a new handle) runs without panic, returns call by call what
   the specification [spec_ops] on plain mathematical sets returns, and leaves
   every handle well-formed and standing for its specification set. Holds from
   every related pair of tables, in particular from the empty one. Ill-formed
   histories (unknown handle, receiver = argument) are ill-formed on both sides. *)
Theorem C03_histories : ∀ (ops : list op) (hs : list anyset) (Xs : list (gset Z)),
  rel WF hs Xs → all_orders_ok Xs ops →
  match spec_ops Xs ops with
  | Some (Xs', vs) => ∃ hs', run_ops hs ops = Some (Ok (hs', vs)) ∧ rel WF hs' Xs'
  | None => run_ops hs ops = None
  end.
Proof. exact histories_spec. Qed.
Print Assumptions C03_histories.

(* The hypothesis [covers] is what Go guarantees: an iteration of a Go map
   enumerates its keys once each; inside sync2.Map.Range the map iterated is
   read.m after the promotion, whose keys include every live key. *)
Theorem C03_go_orders_cover :
  (∀ (s : mapset) order, order ≡ₚ elements s → covers (abs (AM s)) order) ∧
  (∀ (s : syncset) order, WF s → order ≡ₚ (map_to_list (read_m (range_promotion s))).*1 → covers (abs (AS s)) order).
Proof. exact go_orders_cover. Qed.
Print Assumptions C03_go_orders_cover.

(* Non-vacuity: a history on a sync2.Set (handle 0) that promotes, removes
   (nil entries), adds a new key (the nil entries become expunged), re-adds an
   expunged key (unexpunge), then mixes it with a maps.Set (handle 1) in both
   pairings. The visit orders satisfy the hypotheses, the specification and the
   model return the same outputs, and the final state of handle 0 still holds
   an expunged entry. *)
Definition C03_example_ops : list op :=
  [ONew IS; OAdd 0 1; OAdd 0 2; OAdd 0 3; OLen 0 [3;1;2]; ORemove 0 2; ORemove 0 3; OAdd 0 4; OAdd 0 2;
   OFromSlice IM [2;5;5]; OBin BSymDiff 0 1 [4;3;2;1] [5;2]; OBin BIntersect 1 0 [2;5] [1;4;2];
   OSlice 2 [5;4;1;0]; OAddSet 1 0 [2;1;4;3]; OCartesian 3 1 [2] (λ _, [5;4;2;1]); ORange 1 [1;2;4;5] 3; OString 0 [4;2;1]].
Example C03_example :
  all_orders_ok [] C03_example_ops ∧
  option_map snd (spec_ops [] C03_example_ops) =
    Some [VUnit; VBool true; VBool true; VBool true; VInt 3; VBool true; VBool true; VBool true; VBool true;
          VUnit; VUnit; VUnit; VList [5;4;1]; VInt 2; VPairs [(2,5);(2,4);(2,2);(2,1)]; VList [1;2;4];
          VToks [TOpen; TVal 4; TSpace; TVal 2; TSpace; TVal 1; TClose]] ∧
  match run_ops [] C03_example_ops with
  | Some (Ok (hs, vs)) =>
      Some vs = option_map snd (spec_ops [] C03_example_ops) ∧
      match hs !! O with
      | Some (AS s) => existsb (λ p, bool_decide (p.2 = PExpunged)) (map_to_list (ents s)) = true
      | _ => False
      end
  | _ => False
  end.
Proof. split; [apply (bool_decide_unpack _); vm_compute; exact I|]. vm_compute. repeat split. Qed.

(* The correspondence check discriminates what the property fixes and nothing
   else: the pairs of CartesianProduct in another (b-major) order are accepted,
   a duplicated or a missing pair is rejected; String is accepted whatever its
   brackets and separators and rejected when a value is missing; a wrong
   lock/promote/expunge path mask of a single sync2.Map call is rejected (the
   first Add to a new sync2.Set takes the mutex: mask 1; the Len after it
   promotes: mask 3). *)
Example C03_check_case_discriminates :
  let prefix := [(CNew IM, VUnit, -1); (CAdd 0 1, VBool true, -1); (CAdd 0 2, VBool true, -1);
                 (CNew IM, VUnit, -1); (CAdd 1 5, VBool true, -1); (CAdd 1 6, VBool true, -1)] in
  let cart l := SetsCheck.Case [1;2;5;6] (prefix ++ [(CCartesian 0 1, VPairs l, -1)]) in
  let str t := SetsCheck.Case [1;2;5;6] (prefix ++ [(CString 0, VToks t, -1)]) in
  let sync m1 m2 := SetsCheck.Case [1] [(CNew IS, VUnit, -1); (CAdd 0 1, VBool true, m1); (CLen 0, VInt 1, m2)] in
  SetsCheck.check_case (cart [(1,5);(1,6);(2,5);(2,6)]) = true ∧
  SetsCheck.check_case (cart [(2,5);(1,5);(2,6);(1,6)]) = true ∧
  SetsCheck.check_case (cart [(2,5);(1,5);(2,6);(1,6);(1,6)]) = false ∧
  SetsCheck.check_case (cart [(2,5);(1,5);(2,6);(2,6)]) = false ∧
  SetsCheck.check_case (cart [(2,5);(1,5);(2,6)]) = false ∧
  SetsCheck.check_case (str [TOpen; TVal 2; TSpace; TVal 1; TClose]) = true ∧
  SetsCheck.check_case (str [TVal 2; TVal 1]) = true ∧
  SetsCheck.check_case (str [TOpen; TVal 2; TClose]) = false ∧
  SetsCheck.check_case (str [TVal 2; TVal 1; TVal 1]) = false ∧
  SetsCheck.check_case (sync 1 3) = true ∧
  SetsCheck.check_case (sync (-1) (-1)) = true ∧
  SetsCheck.check_case (sync 0 3) = false ∧
  SetsCheck.check_case (sync 1 0) = false ∧
  SetsCheck.check_case (sync 5 3) = false.
Proof. vm_compute. repeat split. Qed.
