(* C02 — the AVL tree stays height-balanced (O(log n)) after every Add and Remove.
   Statements only; every proof is [exact] of a lemma from Avl/Balance.v
   (rotations, add, remove, popLeftMost), Avl/BalanceHist.v (histories) or
   Avl/Fib.v (size and depth bounds), Avl/CostProofs.v (comparator calls).

   Vocabulary (Avl/Balance.v, all computed from the SHAPE, not from the cached field):
     height t     real height: E -> -1, leaf -> 0
     size t       number of nodes
     avl t        at every node |height left - height right| <= 1
     cached_ok t  every cached [height] field equals the real height of its subtree
     inv t        avl t /\ cached_ok t
     node l v r   N l v (calcHeight l r) r   ("n.height = n.calcHeight()")
   Quantifiers: every element type A, EVERY comparator cmp and equality eqb (no
   order axioms: balance does not depend on the order being sensible), every
   operation list over any number of tree handles, every handle, no size bound.
   "After every Add or Remove": the theorems hold for all operation lists, hence
   for every prefix of every history; C02_balanced_after_every_op spells this
   out (BalanceHist.run_app). *)
From Typ Require Import Lib.Base Avl.Model Avl.Balance Avl.Fib Avl.BalanceHist Avl.Cost Avl.CostProofs.
Local Open Scope Z_scope.

(* ---- rebalance: the four rotation cases, with the exact result and height ---- *)

Theorem C02_rebalance_rotateLeft :
  forall (A : Type) (l : tree) (v : A) (rl : tree) (rv : A) (rh : Z) (rr : tree),
  inv l -> inv (N rl rv rh rr) -> height (N rl rv rh rr) = height l + 2 -> height rl <= height rr ->
  rebalance (node l v (N rl rv rh rr)) = Ok (node (node l v rl) rv rr) /\
  inv (node (node l v rl) rv rr) /\
  height (node (node l v rl) rv rr) = height rl + 2.
Proof. exact @rebalance_case_rotateLeft. Qed.
Print Assumptions C02_rebalance_rotateLeft.
(* the hypotheses are inhabited: l = (1), right child 4 with children (3) and 5->(6); the right
   child leans right, single left rotation, result of height [height rl + 2] = 2 *)
Example C02_rebalance_rotateLeft_example :
  let l := leaf 1 in let rl := leaf 3 in let rr := N E 5 1 (leaf 6) in
  inv l /\ inv (N rl 4 2 rr) /\ height (N rl 4 2 rr) = height l + 2 /\ height rl <= height rr /\
  rebalance (node l 2 (N rl 4 2 rr)) = Ok (N (N (leaf 1) 2 1 (leaf 3)) 4 2 (N E 5 1 (leaf 6))) /\
  node (node l 2 rl) 4 rr = N (N (leaf 1) 2 1 (leaf 3)) 4 2 (N E 5 1 (leaf 6)).
Proof. cbv zeta. unfold inv, leaf. cbn [avl cached_ok height]. repeat split; try lia; vm_compute; reflexivity. Qed.

Theorem C02_rebalance_rotateLeftRight :
  forall (A : Type) (l : tree) (v : A) (rll : tree) (rlv : A) (rlh : Z) (rlr : tree) (rv : A) (rh : Z) (rr : tree),
  inv l -> inv (N (N rll rlv rlh rlr) rv rh rr) ->
  height (N (N rll rlv rlh rlr) rv rh rr) = height l + 2 -> height (N rll rlv rlh rlr) > height rr ->
  rebalance (node l v (N (N rll rlv rlh rlr) rv rh rr))
    = Ok (node (node l v rll) rlv (node rlr rv rr)) /\
  inv (node (node l v rll) rlv (node rlr rv rr)) /\
  height (node (node l v rll) rlv (node rlr rv rr)) = height l + 2.
Proof. exact @rebalance_case_rotateLeftRight. Qed.
Print Assumptions C02_rebalance_rotateLeftRight.
(* inhabited: l = (1), right child 6 with left child 4->(3) (taller) and right child (7):
   double rotation, 4 becomes the root, result of height [height l + 2] = 2 *)
Example C02_rebalance_rotateLeftRight_example :
  let l := leaf 1 in let rll := leaf 3 in let rlr := @E Z in let rr := leaf 7 in
  inv l /\ inv (N (N rll 4 1 rlr) 6 2 rr) /\
  height (N (N rll 4 1 rlr) 6 2 rr) = height l + 2 /\ height (N rll 4 1 rlr) > height rr /\
  rebalance (node l 2 (N (N rll 4 1 rlr) 6 2 rr)) = Ok (N (N (leaf 1) 2 1 (leaf 3)) 4 2 (N E 6 1 (leaf 7))) /\
  node (node l 2 rll) 4 (node rlr 6 rr) = N (N (leaf 1) 2 1 (leaf 3)) 4 2 (N E 6 1 (leaf 7)).
Proof. cbv zeta. unfold inv, leaf. cbn [avl cached_ok height]. repeat split; try lia; vm_compute; reflexivity. Qed.

Theorem C02_rebalance_rotateRight :
  forall (A : Type) (ll : tree) (lv : A) (lh : Z) (lr : tree) (v : A) (r : tree),
  inv (N ll lv lh lr) -> inv r -> height (N ll lv lh lr) = height r + 2 -> height lr <= height ll ->
  rebalance (node (N ll lv lh lr) v r) = Ok (node ll lv (node lr v r)) /\
  inv (node ll lv (node lr v r)) /\
  height (node ll lv (node lr v r)) = height lr + 2.
Proof. exact @rebalance_case_rotateRight. Qed.
Print Assumptions C02_rebalance_rotateRight.
(* inhabited: left child 3 with children 2->(1) and (4), r = (6): the left child leans left,
   single right rotation, result of height [height lr + 2] = 2 *)
Example C02_rebalance_rotateRight_example :
  let ll := N (leaf 1) 2 1 E in let lr := leaf 4 in let r := leaf 6 in
  inv (N ll 3 2 lr) /\ inv r /\ height (N ll 3 2 lr) = height r + 2 /\ height lr <= height ll /\
  rebalance (node (N ll 3 2 lr) 5 r) = Ok (N (N (leaf 1) 2 1 E) 3 2 (N (leaf 4) 5 1 (leaf 6))) /\
  node ll 3 (node lr 5 r) = N (N (leaf 1) 2 1 E) 3 2 (N (leaf 4) 5 1 (leaf 6)).
Proof. cbv zeta. unfold inv, leaf. cbn [avl cached_ok height]. repeat split; try lia; vm_compute; reflexivity. Qed.

Theorem C02_rebalance_rotateRightLeft :
  forall (A : Type) (ll : tree) (lv : A) (lh : Z) (lrl : tree) (lrv : A) (lrh : Z) (lrr : tree) (v : A) (r : tree),
  inv (N ll lv lh (N lrl lrv lrh lrr)) -> inv r ->
  height (N ll lv lh (N lrl lrv lrh lrr)) = height r + 2 -> height (N lrl lrv lrh lrr) > height ll ->
  rebalance (node (N ll lv lh (N lrl lrv lrh lrr)) v r)
    = Ok (node (node ll lv lrl) lrv (node lrr v r)) /\
  inv (node (node ll lv lrl) lrv (node lrr v r)) /\
  height (node (node ll lv lrl) lrv (node lrr v r)) = height r + 2.
Proof. exact @rebalance_case_rotateRightLeft. Qed.
Print Assumptions C02_rebalance_rotateRightLeft.
(* inhabited: left child 2 with left child (1) and right child 3->(4) (taller), r = (6):
   double rotation, 3 becomes the root, result of height [height r + 2] = 2 *)
Example C02_rebalance_rotateRightLeft_example :
  let ll := leaf 1 in let lrl := @E Z in let lrr := leaf 4 in let r := leaf 6 in
  inv (N ll 2 2 (N lrl 3 1 lrr)) /\ inv r /\
  height (N ll 2 2 (N lrl 3 1 lrr)) = height r + 2 /\ height (N lrl 3 1 lrr) > height ll /\
  rebalance (node (N ll 2 2 (N lrl 3 1 lrr)) 5 r) = Ok (N (N (leaf 1) 2 1 E) 3 2 (N (leaf 4) 5 1 (leaf 6))) /\
  node (node ll 2 lrl) 3 (node lrr 5 r) = N (N (leaf 1) 2 1 E) 3 2 (N (leaf 4) 5 1 (leaf 6)).
Proof. cbv zeta. unfold inv, leaf. cbn [avl cached_ok height]. repeat split; try lia; vm_compute; reflexivity. Qed.

(* rebalance on a re-heighted node whose children satisfy inv and differ by at
   most two: no panic, inv restored, same nodes, height = the un-rebalanced
   height (1 + max) or one less, and nothing changes if there was nothing to do *)
Theorem C02_rebalance :
  forall (A : Type) (l : tree) (v : A) (r : tree),
  inv l -> inv r -> -2 <= height l - height r <= 2 ->
  exists t', rebalance (node l v r) = Ok t' /\ inv t' /\ t' <> E /\
    Z.max (height l) (height r) <= height t' <= 1 + Z.max (height l) (height r) /\
    (-1 <= height l - height r <= 1 -> t' = node l v r) /\
    size t' = size l + 1 + size r.
Proof. exact @rebalance_inv. Qed.
Print Assumptions C02_rebalance.

(* ---- node.add / node.popLeftMost / node.remove ---- *)

(* add: never panics, keeps inv, one more node, height +0 or +1 *)
Theorem C02_add :
  forall (A : Type) (cmp : A -> A -> Z) (value : A) (t : tree),
  t <> E -> inv t ->
  exists t', add cmp value t = Ok t' /\ inv t' /\ t' <> E /\
    height t <= height t' <= height t + 1 /\ size t' = size t + 1.
Proof. exact @add_inv. Qed.
Print Assumptions C02_add.

(* popLeftMost: never panics, keeps inv, one node fewer, height -0 or -1 *)
Theorem C02_popLeftMost :
  forall (A : Type) (t : tree (A:=A)),
  t <> E -> inv t ->
  exists t' x, popLeftMost t = Ok (t', x) /\ inv t' /\
    height t - 1 <= height t' <= height t /\ size t' = size t - 1.
Proof. exact @popLeftMost_inv. Qed.
Print Assumptions C02_popLeftMost.

(* remove: never panics, keeps inv, height -0 or -1, one node fewer iff it
   reports true, and the very same tree if it reports false *)
Theorem C02_remove :
  forall (A : Type) (eqb : A -> A -> bool) (cmp : A -> A -> Z) (value : A) (t : tree),
  t <> E -> inv t ->
  exists t' b, remove eqb cmp value t = Ok (t', b) /\ inv t' /\
    height t - 1 <= height t' <= height t /\
    (b = true -> size t' = size t - 1) /\ (b = false -> t' = t).
Proof. exact @remove_inv. Qed.
Print Assumptions C02_remove.

(* ---- Tree.Add / Tree.Remove on a reachable tree ---- *)

Theorem C02_Tree_Add :
  forall (A : Type) (cmp : A -> A -> Z) (t : Tree) (v : A),
  good t -> exists t', Tree_Add cmp t v = Ok t' /\ good t' /\ root t' <> E /\
    count t' = count t + 1 /\ height (root t) <= height (root t') <= height (root t) + 1.
Proof. exact @Tree_Add_good. Qed.
Print Assumptions C02_Tree_Add.

Theorem C02_Tree_Remove :
  forall (A : Type) (eqb : A -> A -> bool) (cmp : A -> A -> Z) (t : Tree) (v : A),
  good t -> exists t' b, Tree_Remove eqb cmp t v = Ok (t', b) /\ good t' /\
    count t' = (if b then count t - 1 else count t) /\
    height (root t) - 1 <= height (root t') <= height (root t).
Proof. exact @Tree_Remove_good. Qed.
Print Assumptions C02_Tree_Remove.

(* ---- every history, every handle ---- *)

(* the shape invariant, and Len = number of nodes *)
Theorem C02_balanced_all_histories :
  forall (A : Type) (eqb : A -> A -> bool) (cmp : A -> A -> Z) (ops : list op) (h : nat) (t : Tree),
  nth_error (fst (run_history eqb cmp ops)) h = Some t ->
  inv (root t) /\ count t = size (root t).
Proof. exact @history_inv. Qed.
Print Assumptions C02_balanced_all_histories.

(* no operation of any history panics (no nil dereference in add / remove /
   popLeftMost / the rotations; no negative count in slice) *)
Theorem C02_no_panic :
  forall (A : Type) (eqb : A -> A -> bool) (cmp : A -> A -> Z) (ops : list op) (k : panic_kind),
  ~ In (OPanic k) (snd (run_history eqb cmp ops)).
Proof. exact @history_no_panic. Qed.
Print Assumptions C02_no_panic.

(* the property as stated: balanced on real heights, and no more than
   1.4405*log2(n+2) levels, n = Len *)
Theorem C02_history_balanced_and_shallow :
  forall (A : Type) (eqb : A -> A -> bool) (cmp : A -> A -> Z) (ops : list op) (h : nat) (t : Tree),
  nth_error (fst (run_history eqb cmp ops)) h = Some t ->
  avl (root t) /\ cached_ok (root t) /\ Tree_Len t = size (root t) /\
  2 ^ (10000 * (height (root t) + 1)) <= (Tree_Len t + 2) ^ 14405.
Proof. exact @history_balanced. Qed.
Print Assumptions C02_history_balanced_and_shallow.

(* "after EVERY Add or Remove": a history [ops] passes, after its first k operations (any k), through
   the state ts1 that the prefix [firstn k ops] reaches - the remaining operations continue from ts1 and
   the outputs concatenate - and every tree of that intermediate state is balanced and shallow *)
Theorem C02_balanced_after_every_op :
  forall (A : Type) (eqb : A -> A -> bool) (cmp : A -> A -> Z) (ops : list op) (k : nat),
  exists ts1 xs1 ts2 xs2,
    run_history eqb cmp (firstn k ops) = (ts1, xs1) /\
    run eqb cmp ts1 (skipn k ops) = (ts2, xs2) /\
    run_history eqb cmp ops = (ts2, xs1 ++ xs2) /\
    forall (h : nat) (t : Tree), nth_error ts1 h = Some t ->
      avl (root t) /\ cached_ok (root t) /\ Tree_Len t = size (root t) /\
      2 ^ (10000 * (height (root t) + 1)) <= (Tree_Len t + 2) ^ 14405.
Proof. exact @history_balanced_after_every_op. Qed.
Print Assumptions C02_balanced_after_every_op.

(* ---- size and depth of any height-balanced tree ---- *)

(* Fibonacci minimal trees *)
Theorem C02_size_bound :
  forall (A : Type) (t : tree (A:=A)), avl t -> fib (Z.to_nat (height t + 3)) <= size t + 1.
Proof. exact @avl_fib. Qed.
Print Assumptions C02_size_bound.

(* levels = height + 1 <= 1.4405 * log2 (n + 2), in integers *)
Theorem C02_depth_bound :
  forall (A : Type) (t : tree (A:=A)), avl t -> 2 ^ (10000 * (height t + 1)) <= (size t + 2) ^ 14405.
Proof. exact @avl_depth_bound. Qed.
Print Assumptions C02_depth_bound.

(* no element lies deeper: an element at level k (root = level 1) has k <= 1.4405*log2(n+2) *)
Theorem C02_element_depth :
  forall (A : Type) (t : tree) (k : nat) (x : A),
  avl t -> occurs_at t k x -> 2 ^ (10000 * Z.of_nat k) <= (size t + 2) ^ 14405.
Proof. exact @avl_element_depth. Qed.
Print Assumptions C02_element_depth.

(* every element the in-order walk yields sits at some level (so the bound covers all of them) *)
Theorem C02_every_element_has_a_level :
  forall (A : Type) (t : tree) (x : A), In x (inorder t) -> exists k, occurs_at t k x.
Proof. exact @In_occurs_at. Qed.
Print Assumptions C02_every_element_has_a_level.

(* ---- cost: comparator calls of Contains / Add / Remove ----
   contains_cost / add_cost / remove_cost (Avl/Cost.v) are the model's functions
   returning in addition the number of comparator calls: same results, at most
   height+1 calls (one per level), hence at most 1.4405*log2(n+2) on a
   height-balanced tree — the documented O(log n). That the counters sit where
   the code calls [compare] is not a theorem: it is tied to the code by the
   harness, which counts the calls of the real code with a wrapping comparator
   and compares them EXACTLY, op by op, with [run_calls] (Avl/Check.v check_calls).
   Not counted: the == tests, rotations, height updates and the popLeftMost
   descent of a two-children Remove (constant work per level). *)
Theorem C02_cost :
  forall (A : Type) (eqb : A -> A -> bool) (cmp : A -> A -> Z) (value : A) (t : tree),
  fst (contains_cost eqb cmp value t) = contains eqb cmp value t /\
  fst (add_cost cmp value t) = add cmp value t /\
  fst (remove_cost eqb cmp value t) = remove eqb cmp value t /\
  Z.of_nat (snd (contains_cost eqb cmp value t)) <= height t + 1 /\
  Z.of_nat (snd (add_cost cmp value t)) <= height t + 1 /\
  Z.of_nat (snd (remove_cost eqb cmp value t)) <= height t + 1 /\
  (avl t ->
   2 ^ (10000 * Z.of_nat (snd (contains_cost eqb cmp value t))) <= (size t + 2) ^ 14405 /\
   2 ^ (10000 * Z.of_nat (snd (add_cost cmp value t))) <= (size t + 2) ^ 14405 /\
   2 ^ (10000 * Z.of_nat (snd (remove_cost eqb cmp value t))) <= (size t + 2) ^ 14405).
Proof. exact @cost_bound. Qed.
Print Assumptions C02_cost.

(* the same after ANY history, on any handle, at the Tree level (Tree.Contains/Add/Remove test
   root == nil first): [op_calls] - the entries of [run_calls], the list Avl/Check.v compares
   EXACTLY with the calls counted on the real code by a wrapping comparator (C02_run_calls_entry,
   C02_run_calls_every_entry below) - gives for an Add / Remove / Contains issued in the state
   after [ops] at most height+1 calls and at most 1.4405*log2(Len+2) *)
Theorem C02_cost_after_history :
  forall (A : Type) (eqb : A -> A -> bool) (cmp : A -> A -> Z) (ops : list op) (h : nat) (value : A) (t : Tree),
  nth_error (fst (run_history eqb cmp ops)) h = Some t ->
  let ts := fst (run_history eqb cmp ops) in
  op_calls eqb cmp ts (OpContains h value) = Some (Tree_Contains_calls eqb cmp t value) /\
  op_calls eqb cmp ts (OpAdd h value) = Some (Tree_Add_calls cmp t value) /\
  op_calls eqb cmp ts (OpRemove h value) = Some (Tree_Remove_calls eqb cmp t value) /\
  Z.of_nat (Tree_Contains_calls eqb cmp t value) <= height (root t) + 1 /\
  Z.of_nat (Tree_Add_calls cmp t value) <= height (root t) + 1 /\
  Z.of_nat (Tree_Remove_calls eqb cmp t value) <= height (root t) + 1 /\
  2 ^ (10000 * Z.of_nat (Tree_Contains_calls eqb cmp t value)) <= (Tree_Len t + 2) ^ 14405 /\
  2 ^ (10000 * Z.of_nat (Tree_Add_calls cmp t value)) <= (Tree_Len t + 2) ^ 14405 /\
  2 ^ (10000 * Z.of_nat (Tree_Remove_calls eqb cmp t value)) <= (Tree_Len t + 2) ^ 14405.
Proof. exact @history_calls. Qed.
Print Assumptions C02_cost_after_history.

(* [run_calls] IS [op_calls] entry by entry: the last entry of a history extended by one op is
   op_calls of that op in the state the history reaches *)
Theorem C02_run_calls_entry :
  forall (A : Type) (eqb : A -> A -> bool) (cmp : A -> A -> Z) (ops : list op) (ts : list Tree) (o : op),
  run_calls eqb cmp ts (ops ++ [o]) =
  run_calls eqb cmp ts ops ++ [op_calls eqb cmp (fst (run eqb cmp ts ops)) o].
Proof. exact @run_calls_snoc. Qed.
Print Assumptions C02_run_calls_entry.

(* the bound for EVERY entry of the list the check compares: if entry i of run_calls of a history is
   Some k, then op i exists, k is its op_calls in the state after the first i ops, it ran on a handle
   h holding a tree T there, and k <= height T + 1 and k <= 1.4405*log2(Len T + 2) *)
Theorem C02_run_calls_every_entry :
  forall (A : Type) (eqb : A -> A -> bool) (cmp : A -> A -> Z) (ops : list op) (i k : nat),
  nth_error (run_calls eqb cmp [empty_Tree] ops) i = Some (Some k) ->
  exists (o : op) (h : nat) (T : Tree),
    nth_error ops i = Some o /\
    op_calls eqb cmp (fst (run_history eqb cmp (firstn i ops))) o = Some k /\
    nth_error (fst (run_history eqb cmp (firstn i ops))) h = Some T /\
    Z.of_nat k <= height (root T) + 1 /\
    2 ^ (10000 * Z.of_nat k) <= (Tree_Len T + 2) ^ 14405.
Proof. exact @history_run_calls. Qed.
Print Assumptions C02_run_calls_every_entry.

(* the hypothesis is inhabited: entry 6 of the calls of adds 1..7 is Some 3 (third level of a 6-node tree) *)
Example C02_run_calls_every_entry_example :
  nth_error (run_calls Z.eqb zcompare [empty_Tree] (adds [1;2;3;4;5;6;7])) 6 = Some (Some 3%nat) /\
  option_map Tree_Len (nth_error (fst (run_history Z.eqb zcompare (firstn 6 (adds [1;2;3;4;5;6;7])))) 0) = Some 6.
Proof. vm_compute. split; reflexivity. Qed.

(* instance: after adds 1..7 (the perfect tree of 3 levels, handle 0 exists) the calls of every op of the
   continuation Contains 7; Add 8; Remove 1; Remove 9 (absent); Len; Contains on a bad handle *)
Example C02_cost_after_history_example :
  (exists t, nth_error (fst (run_history Z.eqb zcompare (adds [1;2;3;4;5;6;7]))) 0 = Some t /\ Tree_Len t = 7) /\
  run_calls Z.eqb zcompare [empty_Tree]
    (adds [1;2;3;4;5;6;7] ++ [OpContains 0 7; OpAdd 0 8; OpRemove 0 1; OpRemove 0 9; OpLen 0; OpContains 3 1]) =
    [Some 0; Some 1; Some 2; Some 2; Some 3; Some 3; Some 3;
     Some 2; Some 3; Some 2; Some 2; Some 0; None]%nat.
Proof. split; [eexists; split; vm_compute; reflexivity|vm_compute; reflexivity]. Qed.

(* ---- non-vacuity: evaluated instances (adds, final_root: Avl/BalanceHist.v) ----
   sorted input 1..7 gives the perfect tree (single left rotations all the way);
   3,1,2 needs a double rotation in add; removing the two-child root 5 pops its
   successor 7 out of a right subtree that popLeftMost must rebalance (double
   rotation); rebalance leaves a balanced node alone. The hypotheses of the
   theorems above hold of these trees (inv, by C02_balanced_all_histories). *)
Example C02_example :
  final_root (adds [1;2;3;4;5;6;7]) =
    Some (N (N (leaf 1) 2 1 (leaf 3)) 4 2 (N (leaf 5) 6 1 (leaf 7))) /\
  height (N (N (leaf 1) 2 1 (leaf 3)) 4 2 (N (leaf 5) 6 1 (leaf 7))) = 2 /\
  final_root (adds [3;1;2]) = Some (N (leaf 1) 2 1 (leaf 3)) /\
  final_root (adds [5;2;8;1;7;10;9]) = Some (N (N (leaf 1) 2 1 E) 5 3 (N (leaf 7) 8 2 (N (leaf 9) 10 1 E))) /\
  final_root (adds [5;2;8;1;7;10;9] ++ [OpRemove 0 5]) =
    Some (N (N (leaf 1) 2 1 E) 7 2 (N (leaf 8) 9 1 (leaf 10))) /\
  rebalance (node (leaf 1) 2 (N (leaf 3) 4 1 (leaf 5))) = Ok (node (leaf 1) 2 (N (leaf 3) 4 1 (leaf 5))) /\
  snd (contains_cost Z.eqb zcompare 7 (N (N (leaf 1) 2 1 (leaf 3)) 4 2 (N (leaf 5) 6 1 (leaf 7)))) = 2%nat /\
  snd (add_cost zcompare 8 (N (N (leaf 1) 2 1 (leaf 3)) 4 2 (N (leaf 5) 6 1 (leaf 7)))) = 3%nat.
Proof. vm_compute. repeat split. Qed.
