(* C02 — the AVL tree stays height-balanced (O(log n)) after every Add and Remove.
   Statements only; every proof is [exact] of a lemma from Avl/Balance.v
   (rotations, add, remove, popLeftMost), Avl/BalanceHist.v (histories) or
   Avl/Fib.v (size and depth bounds), Avl/CostProofs.v (comparator calls).

   Vocabulary (Avl/Balance.v, all computed from the SHAPE, not from the cached field):
     height t     real height: E -> -1, leaf -> 0
     size t       number of nodes
     avl t        at every node |height left - height right| <= 1
     cached_ok t  every cached [height] field equals the real height of its subtree
     inv t        avl t /\ cached_ok t
     node l v r   N l v (calcHeight l r) r   ("n.height = n.calcHeight()")
   Quantifiers: every element type A, EVERY comparator cmp and equality eqb (no
   order axioms: balance does not depend on the order being sensible), every
   operation list over any number of tree handles, every handle, no size bound.
   "After every Add or Remove": the theorems hold for all operation lists, hence
   for every prefix of every history (BalanceHist.run_app). *)
From Typ Require Import Lib.Base Avl.Model Avl.Balance Avl.Fib Avl.BalanceHist Avl.Cost Avl.CostProofs.
Local Open Scope Z_scope.

(* ---- rebalance: the four rotation cases, with the exact result and height ---- *)

Theorem C02_rebalance_rotateLeft :
  forall (A : Type) (l : tree) (v : A) (rl : tree) (rv : A) (rh : Z) (rr : tree),
  inv l -> inv (N rl rv rh rr) -> height (N rl rv rh rr) = height l + 2 -> height rl <= height rr ->
  rebalance (node l v (N rl rv rh rr)) = Ok (node (node l v rl) rv rr) /\
  inv (node (node l v rl) rv rr) /\
  height (node (node l v rl) rv rr) = height rl + 2.
Proof. exact @rebalance_case_rotateLeft. Qed.
Print Assumptions C02_rebalance_rotateLeft.

Theorem C02_rebalance_rotateLeftRight :
  forall (A : Type) (l : tree) (v : A) (rll : tree) (rlv : A) (rlh : Z) (rlr : tree) (rv : A) (rh : Z) (rr : tree),
  inv l -> inv (N (N rll rlv rlh rlr) rv rh rr) ->
  height (N (N rll rlv rlh rlr) rv rh rr) = height l + 2 -> height (N rll rlv rlh rlr) > height rr ->
  rebalance (node l v (N (N rll rlv rlh rlr) rv rh rr))
    = Ok (node (node l v rll) rlv (node rlr rv rr)) /\
  inv (node (node l v rll) rlv (node rlr rv rr)) /\
  height (node (node l v rll) rlv (node rlr rv rr)) = height l + 2.
Proof. exact @rebalance_case_rotateLeftRight. Qed.
Print Assumptions C02_rebalance_rotateLeftRight.

Theorem C02_rebalance_rotateRight :
  forall (A : Type) (ll : tree) (lv : A) (lh : Z) (lr : tree) (v : A) (r : tree),
  inv (N ll lv lh lr) -> inv r -> height (N ll lv lh lr) = height r + 2 -> height lr <= height ll ->
  rebalance (node (N ll lv lh lr) v r) = Ok (node ll lv (node lr v r)) /\
  inv (node ll lv (node lr v r)) /\
  height (node ll lv (node lr v r)) = height lr + 2.
Proof. exact @rebalance_case_rotateRight. Qed.
Print Assumptions C02_rebalance_rotateRight.

Theorem C02_rebalance_rotateRightLeft :
  forall (A : Type) (ll : tree) (lv : A) (lh : Z) (lrl : tree) (lrv : A) (lrh : Z) (lrr : tree) (v : A) (r : tree),
  inv (N ll lv lh (N lrl lrv lrh lrr)) -> inv r ->
  height (N ll lv lh (N lrl lrv lrh lrr)) = height r + 2 -> height (N lrl lrv lrh lrr) > height ll ->
  rebalance (node (N ll lv lh (N lrl lrv lrh lrr)) v r)
    = Ok (node (node ll lv lrl) lrv (node lrr v r)) /\
  inv (node (node ll lv lrl) lrv (node lrr v r)) /\
  height (node (node ll lv lrl) lrv (node lrr v r)) = height r + 2.
Proof. exact @rebalance_case_rotateRightLeft. Qed.
Print Assumptions C02_rebalance_rotateRightLeft.

(* rebalance on a re-heighted node whose children satisfy inv and differ by at
   most two: no panic, inv restored, same nodes, height = the un-rebalanced
   height (1 + max) or one less, and nothing changes if there was nothing to do *)
Theorem C02_rebalance :
  forall (A : Type) (l : tree) (v : A) (r : tree),
  inv l -> inv r -> -2 <= height l - height r <= 2 ->
  exists t', rebalance (node l v r) = Ok t' /\ inv t' /\ t' <> E /\
    Z.max (height l) (height r) <= height t' <= 1 + Z.max (height l) (height r) /\
    (-1 <= height l - height r <= 1 -> t' = node l v r) /\
    size t' = size l + 1 + size r.
Proof. exact @rebalance_inv. Qed.
Print Assumptions C02_rebalance.

(* ---- node.add / node.popLeftMost / node.remove ---- *)

(* add: never panics, keeps inv, one more node, height +0 or +1 *)
Theorem C02_add :
  forall (A : Type) (cmp : A -> A -> Z) (value : A) (t : tree),
  t <> E -> inv t ->
  exists t', add cmp value t = Ok t' /\ inv t' /\ t' <> E /\
    height t <= height t' <= height t + 1 /\ size t' = size t + 1.
Proof. exact @add_inv. Qed.
Print Assumptions C02_add.

(* popLeftMost: never panics, keeps inv, one node fewer, height -0 or -1 *)
Theorem C02_popLeftMost :
  forall (A : Type) (t : tree (A:=A)),
  t <> E -> inv t ->
  exists t' x, popLeftMost t = Ok (t', x) /\ inv t' /\
    height t - 1 <= height t' <= height t /\ size t' = size t - 1.
Proof. exact @popLeftMost_inv. Qed.
Print Assumptions C02_popLeftMost.

(* remove: never panics, keeps inv, height -0 or -1, one node fewer iff it
   reports true, and the very same tree if it reports false *)
Theorem C02_remove :
  forall (A : Type) (eqb : A -> A -> bool) (cmp : A -> A -> Z) (value : A) (t : tree),
  t <> E -> inv t ->
  exists t' b, remove eqb cmp value t = Ok (t', b) /\ inv t' /\
    height t - 1 <= height t' <= height t /\
    (b = true -> size t' = size t - 1) /\ (b = false -> t' = t).
Proof. exact @remove_inv. Qed.
Print Assumptions C02_remove.

(* ---- Tree.Add / Tree.Remove on a reachable tree ---- *)

Theorem C02_Tree_Add :
  forall (A : Type) (cmp : A -> A -> Z) (t : Tree) (v : A),
  good t -> exists t', Tree_Add cmp t v = Ok t' /\ good t' /\ root t' <> E /\
    count t' = count t + 1 /\ height (root t) <= height (root t') <= height (root t) + 1.
Proof. exact @Tree_Add_good. Qed.
Print Assumptions C02_Tree_Add.

Theorem C02_Tree_Remove :
  forall (A : Type) (eqb : A -> A -> bool) (cmp : A -> A -> Z) (t : Tree) (v : A),
  good t -> exists t' b, Tree_Remove eqb cmp t v = Ok (t', b) /\ good t' /\
    count t' = (if b then count t - 1 else count t) /\
    height (root t) - 1 <= height (root t') <= height (root t).
Proof. exact @Tree_Remove_good. Qed.
Print Assumptions C02_Tree_Remove.

(* ---- every history, every handle ---- *)

(* the shape invariant, and Len = number of nodes *)
Theorem C02_balanced_all_histories :
  forall (A : Type) (eqb : A -> A -> bool) (cmp : A -> A -> Z) (ops : list op) (h : nat) (t : Tree),
  nth_error (fst (run_history eqb cmp ops)) h = Some t ->
  inv (root t) /\ count t = size (root t).
Proof. exact @history_inv. Qed.
Print Assumptions C02_balanced_all_histories.

(* no operation of any history panics (no nil dereference in add / remove /
   popLeftMost / the rotations; no negative count in slice) *)
Theorem C02_no_panic :
  forall (A : Type) (eqb : A -> A -> bool) (cmp : A -> A -> Z) (ops : list op) (k : panic_kind),
  ~ In (OPanic k) (snd (run_history eqb cmp ops)).
Proof. exact @history_no_panic. Qed.
Print Assumptions C02_no_panic.

(* the property as stated: balanced on real heights, and no more than
   1.4405*log2(n+2) levels, n = Len *)
Theorem C02_history_balanced_and_shallow :
  forall (A : Type) (eqb : A -> A -> bool) (cmp : A -> A -> Z) (ops : list op) (h : nat) (t : Tree),
  nth_error (fst (run_history eqb cmp ops)) h = Some t ->
  avl (root t) /\ cached_ok (root t) /\ Tree_Len t = size (root t) /\
  2 ^ (10000 * (height (root t) + 1)) <= (Tree_Len t + 2) ^ 14405.
Proof. exact @history_balanced. Qed.
Print Assumptions C02_history_balanced_and_shallow.

(* ---- size and depth of any height-balanced tree ---- *)

(* Fibonacci minimal trees *)
Theorem C02_size_bound :
  forall (A : Type) (t : tree (A:=A)), avl t -> fib (Z.to_nat (height t + 3)) <= size t + 1.
Proof. exact @avl_fib. Qed.
Print Assumptions C02_size_bound.

(* levels = height + 1 <= 1.4405 * log2 (n + 2), in integers *)
Theorem C02_depth_bound :
  forall (A : Type) (t : tree (A:=A)), avl t -> 2 ^ (10000 * (height t + 1)) <= (size t + 2) ^ 14405.
Proof. exact @avl_depth_bound. Qed.
Print Assumptions C02_depth_bound.

(* no element lies deeper: an element at level k (root = level 1) has k <= 1.4405*log2(n+2) *)
Theorem C02_element_depth :
  forall (A : Type) (t : tree) (k : nat) (x : A),
  avl t -> occurs_at t k x -> 2 ^ (10000 * Z.of_nat k) <= (size t + 2) ^ 14405.
Proof. exact @avl_element_depth. Qed.
Print Assumptions C02_element_depth.

(* every element the in-order walk yields sits at some level (so the bound covers all of them) *)
Theorem C02_every_element_has_a_level :
  forall (A : Type) (t : tree) (x : A), In x (inorder t) -> exists k, occurs_at t k x.
Proof. exact @In_occurs_at. Qed.
Print Assumptions C02_every_element_has_a_level.

(* ---- cost: comparator calls of Contains / Add / Remove ----
   contains_cost / add_cost / remove_cost (Avl/Cost.v) are the model's functions
   returning in addition the number of comparator calls: same results, at most
   height+1 calls (one per level), hence at most 1.4405*log2(n+2) on a
   height-balanced tree — the documented O(log n). *)
Theorem C02_cost :
  forall (A : Type) (eqb : A -> A -> bool) (cmp : A -> A -> Z) (value : A) (t : tree),
  fst (contains_cost eqb cmp value t) = contains eqb cmp value t /\
  fst (add_cost cmp value t) = add cmp value t /\
  fst (remove_cost eqb cmp value t) = remove eqb cmp value t /\
  Z.of_nat (snd (contains_cost eqb cmp value t)) <= height t + 1 /\
  Z.of_nat (snd (add_cost cmp value t)) <= height t + 1 /\
  Z.of_nat (snd (remove_cost eqb cmp value t)) <= height t + 1 /\
  (avl t ->
   2 ^ (10000 * Z.of_nat (snd (contains_cost eqb cmp value t))) <= (size t + 2) ^ 14405 /\
   2 ^ (10000 * Z.of_nat (snd (add_cost cmp value t))) <= (size t + 2) ^ 14405 /\
   2 ^ (10000 * Z.of_nat (snd (remove_cost eqb cmp value t))) <= (size t + 2) ^ 14405).
Proof. exact @cost_bound. Qed.
Print Assumptions C02_cost.

(* ---- non-vacuity: evaluated instances (adds, final_root: Avl/BalanceHist.v) ----
   sorted input 1..7 gives the perfect tree (single left rotations all the way);
   3,1,2 needs a double rotation in add; removing the two-child root 5 pops its
   successor 7 out of a right subtree that popLeftMost must rebalance (double
   rotation); rebalance leaves a balanced node alone. The hypotheses of the
   theorems above hold of these trees (inv, by C02_balanced_all_histories). *)
Example C02_example :
  final_root (adds [1;2;3;4;5;6;7]) =
    Some (N (N (leaf 1) 2 1 (leaf 3)) 4 2 (N (leaf 5) 6 1 (leaf 7))) /\
  height (N (N (leaf 1) 2 1 (leaf 3)) 4 2 (N (leaf 5) 6 1 (leaf 7))) = 2 /\
  final_root (adds [3;1;2]) = Some (N (leaf 1) 2 1 (leaf 3)) /\
  final_root (adds [5;2;8;1;7;10;9]) = Some (N (N (leaf 1) 2 1 E) 5 3 (N (leaf 7) 8 2 (N (leaf 9) 10 1 E))) /\
  final_root (adds [5;2;8;1;7;10;9] ++ [OpRemove 0 5]) =
    Some (N (N (leaf 1) 2 1 E) 7 2 (N (leaf 8) 9 1 (leaf 10))) /\
  rebalance (node (leaf 1) 2 (N (leaf 3) 4 1 (leaf 5))) = Ok (node (leaf 1) 2 (N (leaf 3) 4 1 (leaf 5))) /\
  snd (contains_cost Z.eqb zcompare 7 (N (N (leaf 1) 2 1 (leaf 3)) 4 2 (N (leaf 5) 6 1 (leaf 7)))) = 2%nat /\
  snd (add_cost zcompare 8 (N (N (leaf 1) 2 1 (leaf 3)) 4 2 (N (leaf 5) 6 1 (leaf 7)))) = 3%nat.
Proof. vm_compute. repeat split. Qed.
